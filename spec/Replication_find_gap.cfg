\* C33, faithful model, schedule search: what was delivered since the last reset has no gap / restarts from the first log.
SPECIFICATION Spec
CONSTANTS
  MaxLogs = 2
  PageSizes = {1}
  MaxFail = 1
  MaxStops = 1
  MaxResets = 1
  MaxRestarts = 1
  JoinSubscriber = FALSE
  Mutant = "none"
  LateAccepts = FALSE
  RecordHist = TRUE
VIEW ViewNoHist
ACTION_CONSTRAINT UrgentInternal
INVARIANTS
  InvNoGapSinceResetE
