\* Negative control (pre-9ae9635 model, JoinSubscriber = FALSE).  TLC MUST refute InvNoGapSinceResetE (after a reset the first
\* log is never exported again); same use of the schedule as Replication_find_persisted.cfg.
SPECIFICATION Spec
CONSTANTS
  MaxLogs = 2
  PageSizes = {1}
  MaxFail = 1
  MaxStops = 1
  MaxResets = 1
  MaxRestarts = 1
  JoinSubscriber = FALSE
  Mutant = "none"
  LateAccepts = FALSE
  RecordHist = TRUE
VIEW ViewNoHist
ACTION_CONSTRAINT UrgentInternal
INVARIANTS
  InvNoGapSinceResetE
