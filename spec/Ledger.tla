------------------------------- MODULE Ledger -------------------------------
(***************************************************************************)
(* API-level specification of one formancehq/ledger ledger: what a client  *)
(* can observe (transactions, accounts with volumes, logs) and the atomic  *)
(* effect of every write operation.  Every operation is ONE atomic step    *)
(* whose linearization point is the SQL commit.                            *)
(*                                                                         *)
(* The module is written as FUNCTIONS ON A STATE RECORD so that the same    *)
(* operators serve (i) TLC's exhaustive exploration (MC_Ledger),           *)
(* (ii) trace validation of executions of the real code (TraceLedger),     *)
(* (iii) case generation.  Nothing here names a table, a statement or a Go *)
(* function.                                                                *)
(*                                                                         *)
(* Values: instants are small naturals (0 = "absent"); amounts are small   *)
(* integers (the harness divides concrete amounts by a scale B exactly);   *)
(* accounts / assets / keys are strings.                                   *)
(***************************************************************************)
EXTENDS Integers, Sequences, FiniteSets, SequencesExt, FiniteSetsExt, TLC

World == "world"


Min2(a, b) == IF a <= b THEN a ELSE b
Max2(a, b) == IF a >= b THEN a ELSE b

(***************************************************************************)
(* Postings.  A posting is [s, d, as, n]; a *requested* posting carries in  *)
(* addition b, the overdraft allowance of its source: 0 (default), X > 0   *)
(* ("allowing overdraft up to X") or -1 (unbounded / forced).              *)
(***************************************************************************)
Strip(p) == [s |-> p.s, d |-> p.d, as |-> p.as, n |-> p.n]
StripAll(ps) == [i \in DOMAIN ps |-> Strip(ps[i])]

In(ps, a, as)  == FoldLeft(LAMBDA acc, p : IF p.d = a /\ p.as = as THEN acc + p.n ELSE acc, 0, ps)
Out(ps, a, as) == FoldLeft(LAMBDA acc, p : IF p.s = a /\ p.as = as THEN acc + p.n ELSE acc, 0, ps)
Bal(ps, a, as) == In(ps, a, as) - Out(ps, a, as)

Pairs(ps) == {<<ps[i].s, ps[i].as>> : i \in DOMAIN ps} \cup {<<ps[i].d, ps[i].as>> : i \in DOMAIN ps}
Accounts(ps) == {ps[i].s : i \in DOMAIN ps} \cup {ps[i].d : i \in DOMAIN ps}
Assets(ps) == {ps[i].as : i \in DOMAIN ps}

Swap(p) == [s |-> p.d, d |-> p.s, as |-> p.as, n |-> p.n]
ReversePs(ps) == [i \in DOMAIN ps |-> Swap(ps[Len(ps) + 1 - i])]

(***************************************************************************)
(* Ledger state:                                                           *)
(*   txs   sequence of transactions in id order                            *)
(*         [id, ps, ts, ins, ref, meta, rev, revAt, reverts, pcv]          *)
(*         pcv = set of [a, as, i, o] (post-commit volumes of touched pairs)*)
(*   accts set of [addr, first, ins, meta]                                 *)
(*   logs  sequence in id order of                                         *)
(*         [id, type, date, ik, tx, tgt, key, meta]                        *)
(*   mh    metadata history: set of [kind, tgt, at, meta]  (specification  *)
(*         history variable: metadata of target as of instant `at`)        *)
(***************************************************************************)
EmptyLedger == [txs |-> <<>>, accts |-> {}, logs |-> <<>>]

AllPs(txs) == FoldLeft(LAMBDA acc, t : acc \o t.ps, <<>>, txs)
MaxTxId(ls) == IF Len(ls.txs) = 0 THEN 0 ELSE ls.txs[Len(ls.txs)].id
MaxLogId(ls) == IF Len(ls.logs) = 0 THEN 0 ELSE ls.logs[Len(ls.logs)].id
TxIdx(ls, id) == {i \in DOMAIN ls.txs : ls.txs[i].id = id}
HasTx(ls, id) == TxIdx(ls, id) # {}
TxOf(ls, id) == ls.txs[CHOOSE i \in TxIdx(ls, id) : TRUE]
AcctOf(ls, a) == CHOOSE x \in ls.accts : x.addr = a
HasAcct(ls, a) == \E x \in ls.accts : x.addr = a

\* metadata are functions key -> value; Merge: right wins
Merge(m1, m2) == [k \in (DOMAIN m1) \cup (DOMAIN m2) |-> IF k \in DOMAIN m2 THEN m2[k] ELSE m1[k]]
Without(m, k) == [x \in (DOMAIN m) \ {k} |-> m[x]]
NoMeta == [x \in {} |-> ""]

\* post-commit volumes of the pairs touched by ps, given all postings committed up to and including ps
PCV(allps, ps) == {[a |-> pr[1], as |-> pr[2], i |-> In(allps, pr[1], pr[2]), o |-> Out(allps, pr[1], pr[2])] : pr \in Pairs(ps)}

(***************************************************************************)
(* Operations.  Every op carries `now`, the instant of the request.        *)
(*   create : ps (requested postings with b), ts (0 = now), ref, meta,     *)
(*            ameta (account -> metadata), ik, ikin (abstract input id),   *)
(*            dry                                                          *)
(*   revert : id, force, atEff, ik, ikin, dry                              *)
(*   txmeta : id, meta      untxmeta : id, key                             *)
(*   acmeta : addr, meta    unacmeta : addr, key                           *)
(* Result: [ok, err, hit, id]                                              *)
(***************************************************************************)
Fail(ls, e) == [ok |-> FALSE, err |-> e, hit |-> FALSE, id |-> 0, ls |-> ls]
Okay(ls, id) == [ok |-> TRUE, err |-> "", hit |-> FALSE, id |-> id, ls |-> ls]

\* C25/C06: applying the postings in order never takes a bounded non-world source below its allowance
RECURSIVE FundsOK(_, _, _)
FundsOK(base, ps, k) ==
  IF k > Len(ps) THEN TRUE
  ELSE LET p == ps[k]
           pre == base \o StripAll(SubSeq(ps, 1, k - 1))
       IN /\ (p.s = World \/ p.b < 0 \/ p.n = 0 \/ Bal(pre, p.s, p.as) - p.n >= 0 - p.b)
          /\ FundsOK(base, ps, k + 1)

IkLog(ls, ik) == {i \in DOMAIN ls.logs : ls.logs[i].ik = ik}

\* account upsert performed by a committed transaction t with account metadata am
UpsertAccts(accts, t, am, now) ==
  LET involved == Accounts(t.ps) \cup DOMAIN am
      old(a) == CHOOSE x \in accts : x.addr = a
      exists(a) == \E x \in accts : x.addr = a
      amOf(a) == IF a \in DOMAIN am THEN am[a] ELSE NoMeta
      upd(a) == IF exists(a)
                THEN [addr |-> a, first |-> Min2(old(a).first, t.ts), ins |-> old(a).ins, meta |-> Merge(old(a).meta, amOf(a))]
                ELSE [addr |-> a, first |-> t.ts, ins |-> now, meta |-> amOf(a)]
  IN {x \in accts : x.addr \notin involved} \cup {upd(a) : a \in involved}

NewLog(ls, id, type, now, ik, tx, tgt, key, meta) ==
  [id |-> id, type |-> type, date |-> now, ik |-> ik, tx |-> tx, tgt |-> tgt, key |-> key, meta |-> meta]

\* ids are chosen by the environment (sequences have gaps): the caller supplies them
\* A Numscript request may set transaction metadata (set_tx_meta) and account metadata (set_account_meta)
\* itself: op.smeta / op.sameta (absent = none).  The request's metadata is added to the script's; a key set
\* by both is refused (METADATA_OVERRIDE).  Account metadata of the request wins over the script's, key by key.
IsScript(op) == "script" \in DOMAIN op /\ op.script
ScriptMeta(op) == IF "smeta" \in DOMAIN op /\ IsScript(op) THEN op.smeta ELSE NoMeta
ScriptAMeta(op) == IF "sameta" \in DOMAIN op /\ IsScript(op) THEN op.sameta ELSE NoMeta
MergeAM(s, r) == [a \in (DOMAIN s) \cup (DOMAIN r) |->
                    Merge(IF a \in DOMAIN s THEN s[a] ELSE NoMeta, IF a \in DOMAIN r THEN r[a] ELSE NoMeta)]

CreateTx(ls, op, txid, logid) ==
  LET ps == StripAll(op.ps)
      ts == IF op.ts = 0 THEN op.now ELSE op.ts
      t0 == [id |-> txid, ps |-> ps, ts |-> ts, ins |-> op.now, ref |-> op.ref, meta |-> Merge(ScriptMeta(op), op.meta),
             rev |-> FALSE, revAt |-> 0, reverts |-> 0, pcv |-> PCV(AllPs(ls.txs) \o ps, ps)]
  IN IF "vard" \in DOMAIN op /\ IsScript(op) /\ op.vard # "" /\ ~op.varok
     THEN Fail(ls, "compile")   \* an account variable whose value is not a well-formed address: refused before anything runs (C28)
     ELSE IF Len(ps) = 0 THEN Fail(ls, "no_postings")
     ELSE IF ~FundsOK(AllPs(ls.txs), op.ps, 1) THEN Fail(ls, "insufficient")
     ELSE IF \E k \in (DOMAIN ScriptMeta(op)) \cap (DOMAIN op.meta) : ScriptMeta(op)[k] # "" THEN Fail(ls, "meta_override")
     ELSE IF op.ref # "" /\ \E i \in DOMAIN ls.txs : ls.txs[i].ref = op.ref THEN Fail(ls, "ref_conflict")
     ELSE Okay([txs |-> Append(ls.txs, t0),
                accts |-> UpsertAccts(ls.accts, t0, MergeAM(ScriptAMeta(op), op.ameta), op.now),
                logs |-> Append(ls.logs, NewLog(ls, logid, "NEW_TRANSACTION", op.now, op.ik, txid, "", "", NoMeta))], txid)

Revert(ls, op, txid, logid) ==
  IF ~HasTx(ls, op.id) THEN Fail(ls, "not_found")
  ELSE LET o == TxOf(ls, op.id)
           rps == ReversePs(o.ps)
           all == AllPs(ls.txs) \o rps
           \* after the whole reversal every non-world account debited by it must be >= 0
           fundsOK == \A i \in DOMAIN rps : rps[i].s = World \/ Bal(all, rps[i].s, rps[i].as) >= 0
           ts == IF op.atEff THEN o.ts ELSE op.now
           t0 == [id |-> txid, ps |-> rps, ts |-> ts, ins |-> op.now, ref |-> "", meta |-> op.meta,
                  rev |-> FALSE, revAt |-> 0, reverts |-> op.id, pcv |-> PCV(all, rps)]
           marked == [i \in DOMAIN ls.txs |-> IF ls.txs[i].id = op.id
                                               THEN [ls.txs[i] EXCEPT !.rev = TRUE, !.revAt = op.now]
                                               ELSE ls.txs[i]]
       IN IF o.rev THEN Fail(ls, "already_reverted")
          ELSE IF ~op.force /\ ~fundsOK THEN Fail(ls, "insufficient")
          ELSE Okay([txs |-> Append(marked, t0),
                     accts |-> ls.accts,
                     logs |-> Append(ls.logs, NewLog(ls, logid, "REVERTED_TRANSACTION", op.now, op.ik, txid, "", "", NoMeta))], txid)

SetTxMeta(ls, op, logid) ==
  IF ~HasTx(ls, op.id) THEN Fail(ls, "not_found")
  ELSE Okay([ls EXCEPT !.txs = [i \in DOMAIN ls.txs |-> IF ls.txs[i].id = op.id
                                                         THEN [ls.txs[i] EXCEPT !.meta = Merge(@, op.meta)]
                                                         ELSE ls.txs[i]],
                       !.logs = Append(@, NewLog(ls, logid, "SET_METADATA", op.now, op.ik, op.id, "", "", op.meta))], 0)

DelTxMeta(ls, op, logid) ==
  IF ~HasTx(ls, op.id) THEN Fail(ls, "not_found")
  ELSE IF op.key \notin DOMAIN TxOf(ls, op.id).meta THEN Fail(ls, "not_found")
  ELSE Okay([ls EXCEPT !.txs = [i \in DOMAIN ls.txs |-> IF ls.txs[i].id = op.id
                                                         THEN [ls.txs[i] EXCEPT !.meta = Without(@, op.key)]
                                                         ELSE ls.txs[i]],
                       !.logs = Append(@, NewLog(ls, logid, "DELETE_METADATA", op.now, op.ik, op.id, "", op.key, NoMeta))], 0)

SetAcctMeta(ls, op, logid) ==
  LET a == op.addr
      na == IF HasAcct(ls, a)
            THEN [AcctOf(ls, a) EXCEPT !.meta = Merge(@, op.meta),
                                        \* a metadata write is a use of the account (C18): it lowers first usage
                                        \* when it actually changes the metadata
                                        !.first = IF Merge(AcctOf(ls, a).meta, op.meta) # AcctOf(ls, a).meta
                                                  THEN Min2(@, op.now) ELSE @]
            ELSE [addr |-> a, first |-> op.now, ins |-> op.now, meta |-> op.meta]
  IN Okay([ls EXCEPT !.accts = {x \in ls.accts : x.addr # a} \cup {na},
                     !.logs = Append(@, NewLog(ls, logid, "SET_METADATA", op.now, op.ik, 0, a, "", op.meta))], 0)

DelAcctMeta(ls, op, logid) ==
  LET a == op.addr
  IN Okay([ls EXCEPT !.accts = {IF x.addr = a THEN [x EXCEPT !.meta = Without(@, op.key)] ELSE x : x \in ls.accts},
                     !.logs = Append(@, NewLog(ls, logid, "DELETE_METADATA", op.now, op.ik, 0, a, op.key, NoMeta))], 0)

\* the effect of op ignoring idempotency keys and dry run
Effect(ls, op, txid, logid) ==
  CASE op.k = "create"   -> CreateTx(ls, op, txid, logid)
    [] op.k = "revert"   -> Revert(ls, op, txid, logid)
    [] op.k = "txmeta"   -> SetTxMeta(ls, op, logid)
    [] op.k = "untxmeta" -> DelTxMeta(ls, op, logid)
    [] op.k = "acmeta"   -> SetAcctMeta(ls, op, logid)
    [] op.k = "unacmeta" -> DelAcctMeta(ls, op, logid)
    [] op.k = "blocks"   -> Okay(ls, 0)   \* a run of the async block builder (C34): no effect on the ledger

\* Import (C11, C12): replays the exported journal of a source ledger (given here as the source's state)
\* into this ledger.  Accepted only while the ledger has never accepted a write (`used` = FALSE) and only if
\* every imported log comes after the logs it already holds; the copy then exposes exactly what the source
\* exposes.  A refused import changes nothing.
ImportOp(ls, used, src) ==
  IF used THEN Fail(ls, "import")
  ELSE IF Len(src.logs) = 0 THEN Okay(ls, 0)
  ELSE IF Len(ls.logs) > 0 /\ src.logs[1].id <= MaxLogId(ls) THEN Fail(ls, "import")
  ELSE IF Len(ls.logs) = 0 THEN Okay(src, 0)
  ELSE Fail(ls, "import_partial_unsupported_by_spec")

\* iks: function idempotency key -> [ikin, id] remembered by the specification (what input created the log)
Apply(ls, iks, op, txid, logid) ==
  IF op.ik # "" /\ op.ik \in DOMAIN iks
  THEN IF iks[op.ik].ikin = op.ikin
       THEN [ok |-> TRUE, err |-> "", hit |-> TRUE, id |-> iks[op.ik].id, ls |-> ls]   \* idempotent replay
       ELSE Fail(ls, "ik_invalid")
  ELSE LET r == Effect(ls, op, txid, logid)
       IN IF r.ok /\ op.dry THEN [r EXCEPT !.ls = ls] ELSE r

(***************************************************************************)
(* Invariants: the property predicates.  They are evaluated on every state  *)
(* TLC reaches in the bounded model AND on every observed state of every   *)
(* recorded execution of the real code.                                    *)
(***************************************************************************)
\* volumes reported for an account = fold of all committed postings (C02)
VolsOf(ls) == {[a |-> pr[1], as |-> pr[2], i |-> In(AllPs(ls.txs), pr[1], pr[2]), o |-> Out(AllPs(ls.txs), pr[1], pr[2])]
               : pr \in Pairs(AllPs(ls.txs))}

\* C01: per asset, total input = total output
Conservation(vols) ==
  \A as \in {v.as : v \in vols} :
     LET S == {v \in vols : v.as = as}
     IN FoldSet(LAMBDA v, acc : acc + v.i, 0, S) = FoldSet(LAMBDA v, acc : acc + v.o, 0, S)

\* C03: pcv of tx number k = volumes after the first k transactions (commit order = id order)
PCVOK(ls) == \A k \in DOMAIN ls.txs :
   ls.txs[k].pcv = PCV(AllPs(SubSeq(ls.txs, 1, k)), ls.txs[k].ps)

\* C14: references unique
UniqueRefs(ls) == \A i, j \in DOMAIN ls.txs : i # j /\ ls.txs[i].ref # "" => ls.txs[i].ref # ls.txs[j].ref

\* C16: ids strictly increasing (sequences are in commit order in sequential histories)
IdsIncreasing(ls) ==
  /\ \A i \in DOMAIN ls.txs : i > 1 => ls.txs[i - 1].id < ls.txs[i].id
  /\ \A i \in DOMAIN ls.logs : i > 1 => ls.logs[i - 1].id < ls.logs[i].id

\* C15: a revert transaction is the exact inverse of the transaction it reverts; reverted exactly once
RevertsOK(ls) ==
  /\ \A i \in DOMAIN ls.txs : ls.txs[i].reverts # 0 =>
        /\ HasTx(ls, ls.txs[i].reverts)
        /\ ls.txs[i].ps = ReversePs(TxOf(ls, ls.txs[i].reverts).ps)
        /\ TxOf(ls, ls.txs[i].reverts).rev
        /\ TxOf(ls, ls.txs[i].reverts).id < ls.txs[i].id
  /\ \A i, j \in DOMAIN ls.txs : i # j /\ ls.txs[i].reverts # 0 => ls.txs[i].reverts # ls.txs[j].reverts
  /\ \A i \in DOMAIN ls.txs : ls.txs[i].rev => \E j \in DOMAIN ls.txs : ls.txs[j].reverts = ls.txs[i].id

\* C18: an account exists iff involved in a transaction or given metadata; first usage <= every use
AcctsOK(ls) ==
  /\ \A a \in Accounts(AllPs(ls.txs)) : HasAcct(ls, a)
  /\ \A x, y \in ls.accts : x.addr = y.addr => x = y
  /\ \A x \in ls.accts : \A i \in DOMAIN ls.txs :
        ls.txs[i].reverts = 0 /\ x.addr \in Accounts(ls.txs[i].ps) => x.first <= ls.txs[i].ts
  \* ("only if" direction -- an account exists only because a transaction involved it, carried account
  \*  metadata for it, or a metadata write targeted it -- is a step property: see TraceLedger!P_C18_Accounts)

\* C18, revert transactions: first usage is also the earliest timestamp among the REVERT transactions
\* involving the account.  The code does not upsert accounts on revert (Revert above models that), so a
\* revert dated before the account's first usage breaks this predicate: known finding
\* C18/revert-before-first-usage.  Kept separate so that every other C18 predicate stays strict.
RevertFirstUsageOK(ls) ==
  \A x \in ls.accts : \A i \in DOMAIN ls.txs :
     ls.txs[i].reverts # 0 /\ x.addr \in Accounts(ls.txs[i].ps) => x.first <= ls.txs[i].ts

\* C08: the logs alone determine the transactions, revert marks and metadata
\* (replay of the journal; volumes follow from the transactions by C02)
LogTxIds(ls) == {ls.logs[i].tx : i \in {j \in DOMAIN ls.logs : ls.logs[j].type \in {"NEW_TRANSACTION", "REVERTED_TRANSACTION"}}}
JournalOK(ls) ==
  /\ LogTxIds(ls) = {ls.txs[i].id : i \in DOMAIN ls.txs}
  /\ Cardinality({j \in DOMAIN ls.logs : ls.logs[j].type \in {"NEW_TRANSACTION", "REVERTED_TRANSACTION"}}) = Len(ls.txs)
  /\ \A i \in DOMAIN ls.logs : ls.logs[i].type = "REVERTED_TRANSACTION" =>
        /\ HasTx(ls, ls.logs[i].tx) /\ TxOf(ls, ls.logs[i].tx).reverts # 0
  /\ \A i \in DOMAIN ls.logs : ls.logs[i].type = "NEW_TRANSACTION" =>
        /\ HasTx(ls, ls.logs[i].tx) /\ TxOf(ls, ls.logs[i].tx).reverts = 0
  \* idempotency keys are unique (C13)
  /\ \A i, j \in DOMAIN ls.logs : i # j /\ ls.logs[i].ik # "" => ls.logs[i].ik # ls.logs[j].ik

\* C28 is carried by the projection as flags (well-formedness is decided by the repository's own validators)

LedgerInv(ls) ==
  /\ Conservation(VolsOf(ls))
  /\ PCVOK(ls)
  /\ UniqueRefs(ls)
  /\ IdsIncreasing(ls)
  /\ RevertsOK(ls)
  /\ AcctsOK(ls)
  /\ JournalOK(ls)

\* C06 (sequential form): no bounded account is negative unless some forced/unbounded posting debited it
\* stated on operations, see MC_Ledger.NoOverdraft
=============================================================================
