-------------------------- MODULE MC_NumscriptAllot --------------------------
(***************************************************************************)
(* C24: exhaustive enumeration of (portion vector, amount) for             *)
(* Numscript!Allocate.  Invariant = the theorems of C24 (parts sum to the  *)
(* amount, each part is the floor or the floor + 1, the extra units form a *)
(* prefix, the floor is the exact rational floor) and the scaling lemma    *)
(* that lets the harness instantiate amounts beyond TLC's 32-bit integers. *)
(* Each case is printed with the parts Allocate prescribes.                *)
(***************************************************************************)
EXTENDS Numscript, Json

CONSTANTS DenLo, DenHi,       \* common denominators DenLo..DenHi (several TLC runs partition 1..12)
          MaxLen, MaxAmt, Dense   \* amounts 0..Dense, then a sparse set up to MaxAmt

VARIABLE c

Amounts == (0..Dense) \cup {a \in {97, 99, 100, 101, 127, 128, 199, 200, 255, 256, 360, 499, 500, 997, 999, 1000, 1001, 1023, 1024, 1999, 2000} : a <= MaxAmt}
\* percent-like portions (numerators large enough that amount * numerator leaves the machine word
\* long before the amount does); added to the partition that starts at denominator 1
PercentVectors ==
    IF DenLo # 1 THEN {}
    ELSE UNION {{<<Reduced(x, 100), Reduced(100 - x, 100)>>, <<Reduced(x, 100), PRem>>, <<PRem, Reduced(x, 100)>>} :
                   x \in {1, 7, 33, 50, 67, 99}}
Vectors == PercentVectors \cup UNION {PVecsExplicit(den, k) \cup PVecsRemaining(den, k) : den \in DenLo..DenHi, k \in 1..MaxLen}

Init == c \in {[ports |-> pv, amt |-> a] : pv \in Vectors, a \in Amounts}
Next == UNCHANGED c

CheckAndEmit ==
    LET D == CommonDen(c.ports)
        nums == ResolvedNums(c.ports)
        fl == FloorsWith(D, nums, c.amt)
        al == AllocateFrom(fl, c.amt)
    IN /\ ValidAllot(c.ports)
       /\ ThmAllocSum(al, c.amt) /\ ThmAllocFloor(fl, al) /\ ThmAllocEarliest(fl, al)
       /\ ThmFloorExact(D, nums, fl, c.amt)
       /\ \A m \in 1..3 : ThmAllocScale(D, nums, al, m, c.amt)
       /\ al = Allocate(c.ports, c.amt)
       /\ PrintT(<<"CASE", ToJson([ports |-> c.ports, amt |-> c.amt, parts |-> al, den |-> D, nums |-> nums, valid |-> TRUE])>>)

\* one by one (cfg *_diag)
Inv_Valid    == ValidAllot(c.ports)
Inv_Sum      == ThmAllocSum(Allocate(c.ports, c.amt), c.amt)
Inv_Floor    == ThmAllocFloor(Floors(c.ports, c.amt), Allocate(c.ports, c.amt))
Inv_Earliest == ThmAllocEarliest(Floors(c.ports, c.amt), Allocate(c.ports, c.amt))
Inv_Exact    == ThmFloorExact(CommonDen(c.ports), ResolvedNums(c.ports), Floors(c.ports, c.amt), c.amt)
Inv_Scale    == \A m \in 1..3 : ThmAllocScale(CommonDen(c.ports), ResolvedNums(c.ports), Allocate(c.ports, c.amt), m, c.amt)
=============================================================================
