-------------------------- MODULE MC_NumscriptAllot --------------------------
(***************************************************************************)
(* C24: exhaustive enumeration of (portion vector, amount) for             *)
(* Numscript!Allocate.  Invariant = the theorems of C24 (parts sum to the  *)
(* amount, each part is the floor or the floor + 1, the extra units form a *)
(* prefix, the floor is the exact rational floor) and the scaling lemma    *)
(* that lets the harness instantiate amounts beyond TLC's 32-bit integers. *)
(* Each case is printed with the parts Allocate prescribes.                *)
(***************************************************************************)
EXTENDS Numscript, Json

CONSTANTS MaxDen, MaxLen, MaxAmt, Dense   \* amounts 0..Dense, then a sparse set up to MaxAmt

VARIABLE c

Amounts == (0..Dense) \cup {a \in {97, 99, 100, 101, 127, 128, 199, 200, 255, 256, 360, 499, 500, 997, 999, 1000, 1001, 1023, 1024, 1999, 2000} : a <= MaxAmt}

Init == c \in {[ports |-> pv, amt |-> a] : pv \in PVecs(MaxDen, MaxLen), a \in Amounts}
Next == UNCHANGED c

CheckAndEmit ==
    /\ ValidAllot(c.ports)
    /\ ThmAllocSum(c.ports, c.amt)
    /\ ThmAllocFloor(c.ports, c.amt)
    /\ ThmAllocEarliest(c.ports, c.amt)
    /\ ThmFloorExact(c.ports, c.amt)
    /\ \A m \in 0..3 : ThmAllocScale(c.ports, m, c.amt)
    /\ PrintT(<<"CASE", ToJson([ports |-> c.ports, amt |-> c.amt, parts |-> Allocate(c.ports, c.amt),
                                den |-> CommonDen(c.ports), nums |-> ResolvedNums(c.ports), valid |-> TRUE])>>)

\* one by one (cfg *_diag)
Inv_Valid    == ValidAllot(c.ports)
Inv_Sum      == ThmAllocSum(c.ports, c.amt)
Inv_Floor    == ThmAllocFloor(c.ports, c.amt)
Inv_Earliest == ThmAllocEarliest(c.ports, c.amt)
Inv_Exact    == ThmFloorExact(c.ports, c.amt)
Inv_Scale    == \A m \in 0..3 : ThmAllocScale(c.ports, m, c.amt)
=============================================================================
