INIT Init
NEXT Next
CONSTANT Family = "A"
CONSTANT Tier = "thorough"
CONSTANT N = 0
INVARIANT CheckAndEmit
