SPECIFICATION ReportSpec
CONSTANT TraceFile = "trace.ndjson"
POSTCONDITION Accepted
CHECK_DEADLOCK FALSE
