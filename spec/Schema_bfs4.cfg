\* theorems only (no emission): behaviours of <= 4 requests
INIT Init
NEXT Next
VIEW View
CONSTANTS
  FixedNames <- MCFixed
  VarKeys <- MCVar
  BadNames <- MCNone
  BadPatterns <- MCNone
  PatMatch <- MCPatMatch
  MetaKeys <- MCKeys
  ChartMenu <- MCCharts
  Versions <- MCVersions
  TplDefs <- MCTplDefs
  SchemaMenu <- MCSchemaMenu
  TxMenu <- MCTxMenuS
  MetaMenu <- MCMetaMenu
  AllKeys <- MCAllKeys
  Addrs <- MCAddrs
  Modes <- MCModes
  MaxSteps = 4
  ModelDeviations = TRUE
  Follow <- MCFollowNone
  EmitAll = FALSE
INVARIANTS TypeOK NoEffectOnReject OneLogPerWrite DefaultsOnlyAtCreation NoAccountDeleted StrictRequiresVersion StrictChartEnforced StrictHasNoDeviation AuditAcceptsAll AuditRelaxesStrict TemplateDecidesPostings
