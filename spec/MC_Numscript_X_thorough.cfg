INIT Init
NEXT Next
CONSTANT Family = "X"
CONSTANT Tier = "thorough"
CONSTANT N = 100000
INVARIANT CheckAndEmit
