------------------------------ MODULE MC_System ------------------------------
(***************************************************************************)
(* Bounded exhaustive model of System: every history of up to MaxOps        *)
(* requests from a fixed menu (registry, buckets, exporters, pipelines).    *)
(* Invariants = Inv of System in every reachable state; the step theorems   *)
(* (StepOK) on every transition; PagesOK for every page size in every state. *)
(***************************************************************************)
EXTENDS System

CONSTANTS MaxOps, Menu

VARIABLES s, n, prev, lop, lout

vars == <<s, n, prev, lop, lout>>

O(k) == [NoOp EXCEPT !.k = k]
F1 == [k \in {"HASH_LOGS"} |-> "DISABLED"]
FBadKey == [k \in {"NOPE"} |-> "ON"]
FBadVal == [k \in {"HASH_LOGS"} |-> "ON"]
M1 == [k \in {"k1"} |-> "a"]
M2 == [k \in {"k1", "k2"} |-> IF k = "k1" THEN "b" ELSE "a"]
Atom(t, a, v) == [t |-> t, a |-> a, v |-> v, sub |-> <<>>]

RegistryMenu ==
  { [O("create") EXCEPT !.n = "l1", !.b = "b1"],
    [O("create") EXCEPT !.n = "l1", !.b = "b2"],
    [O("create") EXCEPT !.n = "l2", !.b = "b1", !.f = F1, !.m = M1],
    [O("create") EXCEPT !.n = "l3", !.b = "b2"],
    [O("create") EXCEPT !.n = N63, !.b = ""],
    [O("create") EXCEPT !.n = "bad.name", !.b = "b1"],
    [O("create") EXCEPT !.n = N64, !.b = "b1"],
    [O("create") EXCEPT !.n = "_info", !.b = "b1"],
    [O("create") EXCEPT !.n = "_", !.b = "b1"],
    [O("create") EXCEPT !.n = "l2", !.b = "bad.bucket"],
    [O("create") EXCEPT !.n = "l2", !.b = "_system"],
    [O("create") EXCEPT !.n = "l2", !.b = "b1", !.f = FBadKey],
    [O("create") EXCEPT !.n = "l2", !.b = "b1", !.f = FBadVal],
    [O("create") EXCEPT !.n = "l2", !.b = "b1", !.bad = "json"],
    [O("setmeta") EXCEPT !.n = "l1", !.m = M1],
    [O("setmeta") EXCEPT !.n = "l1", !.m = M2],
    [O("setmeta") EXCEPT !.n = "l2", !.m = M2],
    [O("setmeta") EXCEPT !.n = "l3", !.bad = "json"],
    [O("delmeta") EXCEPT !.n = "l1", !.key = "k1"],
    [O("delmeta") EXCEPT !.n = "l3", !.key = "k1"],
    [O("delbucket") EXCEPT !.b = "b1"],
    [O("delbucket") EXCEPT !.b = "b2"],
    [O("delbucket") EXCEPT !.b = "l1"],      \* a ledger name is not a bucket name
    [O("restore") EXCEPT !.b = "b1"],
    [O("restore") EXCEPT !.b = "b2"],
    [O("write") EXCEPT !.n = "l1"],
    [O("write") EXCEPT !.n = "l2"],
    [O("get") EXCEPT !.n = "l1"],
    [O("get") EXCEPT !.n = "_info"],
    [O("stats") EXCEPT !.n = "l1"],
    [O("info") EXCEPT !.n = "l2"],
    [O("list") EXCEPT !.ps = 1],
    [O("list") EXCEPT !.ps = 2, !.inc = TRUE, !.desc = TRUE],
    [O("list") EXCEPT !.flt = Atom("unknown", "", "x")] }

PipelineMenu ==
  { [O("create") EXCEPT !.n = "l1", !.b = "b1"],
    [O("create") EXCEPT !.n = "l2", !.b = "b2"],
    [O("delbucket") EXCEPT !.b = "b1"],
    [O("restore") EXCEPT !.b = "b1"],
    [O("ecreate") EXCEPT !.drv = "noop"],
    [O("ecreate") EXCEPT !.drv = "nope"],
    [O("eget") EXCEPT !.x = 1],
    [O("edel") EXCEPT !.x = 1],
    [O("eupd") EXCEPT !.x = 1, !.drv = "noop"],
    [O("eupd") EXCEPT !.x = 2, !.drv = "nope"],
    [O("pcreate") EXCEPT !.n = "l1", !.x = 1],
    [O("pcreate") EXCEPT !.n = "l2", !.x = 1],
    [O("pcreate") EXCEPT !.n = "l1", !.x = 2],
    [O("plist") EXCEPT !.n = "l2"],
    [O("pget") EXCEPT !.n = "l2", !.p = 1],
    [O("pstart") EXCEPT !.n = "l2", !.p = 1],
    [O("pstop") EXCEPT !.n = "l1", !.p = 1],
    [O("pstop") EXCEPT !.n = "l2", !.p = 2],
    [O("pdel") EXCEPT !.n = "l2", !.p = 1],
    [O("preset") EXCEPT !.n = "l2", !.p = 1] }

MenuOf == IF Menu = "registry" THEN RegistryMenu ELSE PipelineMenu

Init == s = Init0 /\ n = 0 /\ prev = Init0 /\ lop = NoOp /\ lout = ""

Next == /\ n < MaxOps
        /\ \E op \in MenuOf :
             LET r == Apply(s, op)
             IN /\ s' = r.s /\ prev' = s /\ lop' = op /\ lout' = r.out /\ n' = n + 1

Spec == Init /\ [][Next]_vars

InvOK == Inv(s)
StepsOK == n > 0 => StepOK(prev, lop, lout, s)
PagesAlwaysOK == \A ps \in 1..3 : \A inc \in BOOLEAN : \A d \in BOOLEAN :
                    PagesOK(s, [O("list") EXCEPT !.ps = ps, !.inc = inc, !.desc = d])
\* filters select what they say (spot theorems on the bounded model)
FiltersOK ==
  /\ \A b \in {"b1", "b2"} : {r.name : r \in Range(Listed(s, [O("list") EXCEPT !.flt = Atom("bucket", "", b)]))}
                                = {r.name : r \in Range(Visible(s)) \cap {r \in Range(s.reg) : r.bucket = b}}
  /\ LET q == Atom("meta", "k1", "a")
         nq == [t |-> "not", a |-> "", v |-> "", sub |-> <<q>>]
     IN Range(Listed(s, [O("list") EXCEPT !.flt = q])) \cup Range(Listed(s, [O("list") EXCEPT !.flt = nq])) = Range(Visible(s))
\* outcome classes are the ones the API has
OutcomesOK == lout \in {"", "ok", "validation", "conflict", "outdated", "not_found", "ledger_not_found", "no_route", "internal"}
=============================================================================
