------------------------------ MODULE TraceBulk ------------------------------
(***************************************************************************)
(* Trace validation of write REQUESTS (bulks through POST /_bulk, single    *)
(* operations, with or without an injected commit failure) executed by the  *)
(* real code, against Bulk (which folds Ledger!Apply).                      *)
(*                                                                         *)
(* One NDJSON line per request (harness/drive/bulk.go): the request, the    *)
(* per-element results in the order the response lists them, the listener   *)
(* events it caused, and the whole API-visible state of the ledger right    *)
(* after it.  Observation-following idiom as in TraceLedger: the observed   *)
(* successor must be the one Bulk prescribes; every predicate is named      *)
(* after the property it belongs to.                                        *)
(***************************************************************************)
EXTENDS Bulk, Json

CONSTANT TraceFile

Trace == ndJsonDeserialize(TraceFile)

VARIABLES l,      \* lines consumed
          iks     \* idempotency memory of the ledger, as the specification remembers it

vars == <<l, iks>>

Lg == "l1"

ToTx(t) == [id |-> t.id, ps |-> t.ps, ts |-> t.ts, ins |-> t.ins, ref |-> t.ref, meta |-> t.meta,
            rev |-> t.rev, revAt |-> t.revAt, reverts |-> t.reverts, pcv |-> ToSet(t.pcv)]
ToAcct(a) == [addr |-> a.addr, first |-> a.first, ins |-> a.ins, meta |-> a.meta]
ToLog(g) == [id |-> g.id, type |-> g.type, date |-> g.date, ik |-> g.ik, tx |-> g.tx, tgt |-> g.tgt,
             key |-> g.key, meta |-> g.meta]
ToLS(o) == [txs |-> [i \in DOMAIN o.txs |-> ToTx(o.txs[i])],
            accts |-> {ToAcct(a) : a \in ToSet(o.accts)},
            logs |-> [i \in DOMAIN o.logs |-> ToLog(o.logs[i])]]

Raw(i) == Trace[i].st[Lg]
IsReset(i) == Trace[i].reset
Cur(i) == ToLS(Raw(i - 1))
Nxt(i) == ToLS(Raw(i))
Rq(i) == Trace[i].op
Els(i) == Rq(i).els
Opts(i) == [atomic |-> Rq(i).atomic, parallel |-> Rq(i).parallel, cof |-> Rq(i).cof]
Obs(i) == Trace[i].res

\* ids of the durable transactions / logs: the observed new ones, then unused fillers
MaxOf(s) == IF Len(s) = 0 THEN 0 ELSE s[Len(s)].id
Fresh(c, n, k) == [j \in 1..(k + Len(n)) |->
                     IF Len(n) > Len(c) /\ j <= Len(n) - Len(c) THEN n[Len(c) + j].id
                     ELSE Max2(MaxOf(c), MaxOf(n)) + j]
\* An atomic bulk that is rolled back leaves no transaction behind, but its elements did draw ids (from a
\* sequence with gaps) and later elements of the same bulk may refer to them: the ids are then the ones the
\* results report for transactions that did not exist before (ids are the environment's choice, see Ledger).
OldTxIds(i) == {Raw(i - 1).txs[k].id : k \in DOMAIN Raw(i - 1).txs}
ReportedIds(i) == LET rs == SelectSeq(Obs(i).els, LAMBDA r : r.ok /\ r.hasData /\ r.id \notin OldTxIds(i))
                      ids == [k \in DOMAIN rs |-> rs[k].id]
                  \* (an idempotent replay inside the same bulk reports the id of the element it replays: keep the first)
                  IN FoldLeft(LAMBDA acc, x : IF x \in {acc[k] : k \in DOMAIN acc} THEN acc ELSE Append(acc, x), <<>>, ids)
RolledBackAtomic(i) == Rq(i).atomic /\ Len(Raw(i).txs) = Len(Raw(i - 1).txs) /\ Len(ReportedIds(i)) > 0
TxIds(i) == IF RolledBackAtomic(i)
            THEN ReportedIds(i) \o [j \in 1..(Len(Els(i)) + 1) |-> Max2(MaxOf(Raw(i - 1).txs), 1000) + j]
            ELSE Fresh(Raw(i - 1).txs, Raw(i).txs, Len(Els(i)) + 1)
LogIds(i) == Fresh(Raw(i - 1).logs, Raw(i).logs, Len(Els(i)) + 1)

\* what Bulk prescribes for a sequential request
X(i) == BulkApply(Cur(i), iks, Els(i), Opts(i), Rq(i).fault, TxIds(i), LogIds(i))
\* the outcomes Bulk allows for a parallel bulk
Aborted(i) == {j \in DOMAIN Obs(i).els : Obs(i).els[j].err = "aborted"}
XP(i) == ParallelOutcomesA(Cur(i), iks, Els(i), Opts(i), TxIds(i), LogIds(i), Aborted(i))

Init == l = 0 /\ iks = <<>>

Next ==
  /\ l < Len(Trace)
  /\ l' = l + 1
  /\ iks' = IF IsReset(l + 1) THEN <<>>
            ELSE IF Rq(l + 1).parallel THEN iks   \* (parallel bulks of the generator carry no idempotency key)
            ELSE X(l + 1).iks

Spec == Init /\ [][Next]_vars

(***************************************************************************)
(* Step predicates (i is not a reset line)                                  *)
(***************************************************************************)
IsPar(i) == Rq(i).parallel
IsSingle(i) == Rq(i).k = "single"

\* an observed result against a prescribed one
ResMatch(o, s, el, rollback) ==
  /\ o.ok = s.ok
  /\ (o.err = s.err \/ (o.err = "aborted" /\ ~s.run))
  /\ (s.ok /\ el.k \in {"create", "revert"} /\ (s.hit \/ s.cm) /\ ~rollback => o.id = s.id)

\* C32: exactly one result per element (none when the request as a whole fails)
P_C32_OneResultPerElement(i) ==
  IF ~IsPar(i) /\ X(i).reqfail THEN Obs(i).n = 0 /\ ~Obs(i).ok
  ELSE Obs(i).n = Len(Els(i)) /\ Len(Obs(i).els) = Len(Els(i))

\* C32: sequential requests: every result, in element order, is the one the fold prescribes
\*      (= what the same request returns on its own in the state the fold has reached)
P_C32_Results(i) ==
  (~IsPar(i) /\ ~X(i).reqfail /\ Len(Obs(i).els) = Len(Els(i))) =>
     \A j \in DOMAIN Els(i) : ResMatch(Obs(i).els[j], X(i).res[j], Els(i)[j], X(i).rollback)
P_C13_SingleHit(i) == IsSingle(i) => Obs(i).els[1].hit = X(i).res[1].hit

\* C32: the ledger after the request is the prescribed one: atomic = all or nothing, sequential = in order,
\*      nothing after the first failure unless continueOnFailure
P_C32_AtomicAllOrNothing(i) == (~IsPar(i) /\ Rq(i).atomic) => Nxt(i) = X(i).ls
P_C32_OrderedEffects(i) == (~IsPar(i) /\ ~Rq(i).atomic /\ ~IsSingle(i)) => Nxt(i) = X(i).ls
P_SingleEffect(i) == IsSingle(i) => Nxt(i) = X(i).ls
P_C32_Status(i) == ~IsPar(i) => Obs(i).ok = X(i).httpok

\* parallel bulks: some allowed outcome explains the observation.  Log ids are drawn independently of
\* transaction ids by concurrently running elements, so logs are compared as a set, without their ids.
LogSet(ls) == {[type |-> ls.logs[k].type, date |-> ls.logs[k].date, ik |-> ls.logs[k].ik, tx |-> ls.logs[k].tx,
                tgt |-> ls.logs[k].tgt, key |-> ls.logs[k].key, meta |-> ls.logs[k].meta] : k \in DOMAIN ls.logs}
StateMatchPar(a, b) == a.txs = b.txs /\ a.accts = b.accts /\ LogSet(a) = LogSet(b) /\ Len(a.logs) = Len(b.logs)
Explains(i, o, sigma) ==
  /\ StateMatchPar(Nxt(i), o.ls)
  /\ \A j \in DOMAIN Els(i) : ResMatch(Obs(i).els[sigma[j]], o.res[j], Els(i)[j], FALSE)
IdPerm(n) == [j \in 1..n |-> j]
\* ... with the results attributed to the elements in SOME order (effects and element-wise outcomes)
P_C32_ParallelOutcome(i) ==
  (IsPar(i) /\ Len(Obs(i).els) = Len(Els(i))) =>
     \E o \in XP(i) : \E sigma \in Perms(DOMAIN Els(i)) : Explains(i, o, sigma)
\* ... and with the results in ELEMENT order (one result per element, attributed to that element)
P_C32_ParallelResultOrder(i) ==
  (IsPar(i) /\ Len(Obs(i).els) = Len(Els(i)) /\ P_C32_ParallelOutcome(i)) =>
     \E o \in XP(i) : Explains(i, o, IdPerm(Len(Els(i))))
\* the response labels result j with the action of element j: a result that carries a transaction must
\* belong to an element that creates one
P_C32_ParallelTyping(i) ==
  (IsPar(i) /\ Len(Obs(i).els) = Len(Els(i))) =>
     \A j \in DOMAIN Els(i) : Obs(i).els[j].hasData => Els(i)[j].k \in {"create", "revert"}

\* C31: one event per durable write, after its commit, in element order; none for failed, skipped,
\*      rolled-back or commit-failed writes
EvMatch(e, w, lg) == e.kind = w.kind /\ e.l = lg /\ e.afterCommit /\ (w.tx # 0 => e.tx = w.tx)
P_C31_RequestEvents(i) ==
  IF ~IsPar(i)
  THEN LET want == Events(X(i), Els(i))
       IN /\ Len(Trace[i].ev) = Len(want)
          /\ \A j \in DOMAIN want : j \in DOMAIN Trace[i].ev => EvMatch(Trace[i].ev[j], want[j], Rq(i).l)
  ELSE \E o \in XP(i) :
          /\ StateMatchPar(Nxt(i), o.ls)
          /\ LET want == Events(o, Els(i))
             IN /\ Len(Trace[i].ev) = Len(want)
                /\ \E sigma \in Perms(DOMAIN want) : \A j \in DOMAIN want : EvMatch(Trace[i].ev[sigma[j]], want[j], Rq(i).l)

\* C07: a request that makes nothing durable leaves no trace at all (whole observation)
NothingDurable(i) == IF IsPar(i) THEN FALSE ELSE \A j \in DOMAIN X(i).res : ~X(i).res[j].cm
P_C07_RequestNoTrace(i) == NothingDurable(i) => Raw(i) = Raw(i - 1)

P_ResetPristine(i) == Raw(i).txs = <<>> /\ Raw(i).logs = <<>>

(***************************************************************************)
(* As TLC action properties                                                 *)
(***************************************************************************)
Step_C32_OneResultPerElement == [][~IsReset(l') => P_C32_OneResultPerElement(l')]_vars
Step_C32_Results == [][~IsReset(l') => P_C32_Results(l')]_vars
Step_C13_SingleHit == [][~IsReset(l') => P_C13_SingleHit(l')]_vars
Step_C32_AtomicAllOrNothing == [][~IsReset(l') => P_C32_AtomicAllOrNothing(l')]_vars
Step_C32_OrderedEffects == [][~IsReset(l') => P_C32_OrderedEffects(l')]_vars
Step_SingleEffect == [][~IsReset(l') => P_SingleEffect(l')]_vars
Step_C32_Status == [][~IsReset(l') => P_C32_Status(l')]_vars
Step_C32_ParallelOutcome == [][~IsReset(l') => P_C32_ParallelOutcome(l')]_vars
Step_C32_ParallelResultOrder == [][~IsReset(l') => P_C32_ParallelResultOrder(l')]_vars
Step_C32_ParallelTyping == [][~IsReset(l') => P_C32_ParallelTyping(l')]_vars
Step_C31_RequestEvents == [][~IsReset(l') => P_C31_RequestEvents(l')]_vars
Step_C07_RequestNoTrace == [][~IsReset(l') => P_C07_RequestNoTrace(l')]_vars
Step_ResetPristine == [][IsReset(l') => P_ResetPristine(l')]_vars
Inv_Ledger == l >= 1 => LedgerInv(ToLS(Raw(l)))

Accepted == TLCGet("stats").diameter - 1 = Len(Trace)

(***************************************************************************)
(* Report mode: evaluate everything on every line, print the failures       *)
(***************************************************************************)
StepChecks(i) ==
  << <<"Step_C32_OneResultPerElement", P_C32_OneResultPerElement(i)>>,
     <<"Step_C32_Results", P_C32_Results(i)>>,
     <<"Step_C13_SingleHit", P_C13_SingleHit(i)>>,
     <<"Step_C32_AtomicAllOrNothing", P_C32_AtomicAllOrNothing(i)>>,
     <<"Step_C32_OrderedEffects", P_C32_OrderedEffects(i)>>,
     <<"Step_SingleEffect", P_SingleEffect(i)>>,
     <<"Step_C32_Status", P_C32_Status(i)>>,
     <<"Step_C32_ParallelOutcome", P_C32_ParallelOutcome(i)>>,
     <<"Step_C32_ParallelResultOrder", P_C32_ParallelResultOrder(i)>>,
     <<"Step_C32_ParallelTyping", P_C32_ParallelTyping(i)>>,
     <<"Step_C31_RequestEvents", P_C31_RequestEvents(i)>>,
     <<"Step_C07_RequestNoTrace", P_C07_RequestNoTrace(i)>>,
     <<"Inv_Ledger", LedgerInv(ToLS(Raw(i)))>> >>

Report(cs, i) == \A k \in DOMAIN cs : cs[k][2] \/ PrintT(<<"FAIL", cs[k][1], i, Trace[i].case>>)

ReportNext ==
  /\ Next
  /\ IF IsReset(l')
     THEN P_ResetPristine(l') \/ PrintT(<<"FAIL", "Step_ResetPristine", l', Trace[l'].case>>)
     ELSE Report(StepChecks(l'), l')

ReportSpec == Init /\ [][ReportNext]_vars
=============================================================================
