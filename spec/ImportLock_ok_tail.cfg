SPECIFICATION Spec
CONSTANTS
  Writers = {w1, w2}
  NLogs = 2
  FirstId = 2
  SameKey = TRUE
  FlipsState = TRUE
INVARIANTS AllOrNothing NoInterleave Serial
PROPERTIES WriteThenNoImport
CHECK_DEADLOCK FALSE
