SPECIFICATION Spec
CONSTANTS
  MaxOps = 6
  Menu = "pipelines"
INVARIANTS
  InvOK
  StepsOK
  PagesAlwaysOK
  FiltersOK
  OutcomesOK
CHECK_DEADLOCK FALSE
