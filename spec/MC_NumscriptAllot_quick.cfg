INIT Init
NEXT Next
CONSTANT MaxDen = 4
CONSTANT MaxLen = 4
CONSTANT MaxAmt = 200
CONSTANT Dense = 40
INVARIANT CheckAndEmit
