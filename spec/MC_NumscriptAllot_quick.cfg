INIT Init
NEXT Next
CONSTANT DenLo = 1
CONSTANT DenHi = 4
CONSTANT MaxLen = 4
CONSTANT MaxAmt = 200
CONSTANT Dense = 40
INVARIANT CheckAndEmit
