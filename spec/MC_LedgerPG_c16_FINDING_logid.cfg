SPECIFICATION Spec
CONSTANTS
  Ops <- MCOps
  InitBal <- MCInit
  Scenario = "disjoint-rows"
  ForUpdate = TRUE
  AdvisoryLock = FALSE
  Recheck = TRUE
  MaxRetry = 2
INVARIANTS
  LogIdCommitOrder
PROPERTIES
  AllAnswered
CHECK_DEADLOCK FALSE
