INIT Init
NEXT Next
CONSTANT Family = "R"
CONSTANT Tier = "thorough"
CONSTANT N = 100000
INVARIANT CheckAndEmit
