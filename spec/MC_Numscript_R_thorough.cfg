INIT Init
NEXT Next
CONSTANT Family = "R"
CONSTANT Tier = "thorough"
CONSTANT N = 30000
INVARIANT CheckAndEmit
