\* validity rules needing three nodes (two variable children of one node), tiny menus
INIT Init
NEXT Next
CONSTANTS
  FixedNames <- MCFixed1
  VarKeys <- MCVar2
  BadNames <- MCNoBad
  Patterns <- MCPatterns2
  BadPatterns <- MCNoBad
  PatMatch <- MCPatMatch
  SelfMenu <- MCSelf2
  PropsMenu <- MCPropsP
  RootMenu <- MCRootPlain
  MetaKeys <- MCKeys
  Alphabet <- MCAlphabet
  TxMenu <- MCTxMenu
  QMenu <- MCQMenu
  MaxAddrLen = 3
  MaxNodes = 3
  MaxDepth = 3
  AllowDefects = TRUE
  EmitMin = 0
INVARIANTS TypeOK ThmRoundTripMeaning ThmCanonValid ThmCanonIdem ThmUnique ThmFixedPathAccepted Emit
