------------------------------- MODULE Reads -------------------------------
(***************************************************************************)
(* Semantics of the READ API of one ledger, over the abstract ledger state  *)
(* of module Ledger: what a list / count / point-in-time / window / paged   *)
(* / templated read must return, as a function of                           *)
(*     R = [ls, jr, flags, sg, pre, rk, aupd, tupd]                          *)
(*   ls    the ledger state of module Ledger (txs, accts, logs)             *)
(*   jr    the metadata journal: the metadata writes carried by the logs,    *)
(*         in log order: [kind, tx, addr, op, key, meta, date, create]       *)
(*         (NEW_/REVERTED_TRANSACTION creation metadata and account          *)
(*         metadata, SET_METADATA, DELETE_METADATA).  "Metadata as of t" is  *)
(*         DEFINED as the fold of the journal entries dated <= t: no new     *)
(*         state is needed.                                                  *)
(*   flags the derived observables the feature set provides                 *)
(*   sg    address -> sequence of its ':'-separated segments   } projections *)
(*   pre   address -> sequence of its prefixes (1..n segments) } of strings  *)
(*   rk    string -> rank in the sort order of the key domain  } (TLC has no *)
(*                                                               string ops) *)
(*   aupd, tupd   updated_at of accounts / transactions (filterable fields) *)
(* Nothing here names a table, a statement or a Go function, except §7       *)
(* (transcription of the lateral push-down rule, a design-level theorem).    *)
(***************************************************************************)
EXTENDS Ledger

(***************************************************************************)
(* §1  Point-in-time and window folds (C05)                                  *)
(* pit = 0 / oot = 0 mean "absent".  ins = TRUE selects insertion-date       *)
(* semantics (the date of a posting is the instant its transaction was       *)
(* inserted), FALSE effective-date semantics (the transaction's timestamp).  *)
(***************************************************************************)
DateOf(t, ins) == IF ins THEN t.ins ELSE t.ts
InWindow(d, pit, oot) == (pit = 0 \/ d <= pit) /\ (oot = 0 \/ d >= oot)
TxsInWindow(ls, pit, oot, ins) == SelectSeq(ls.txs, LAMBDA t : InWindow(DateOf(t, ins), pit, oot))

VolsOfPs(ps) == {[a |-> pr[1], as |-> pr[2], i |-> In(ps, pr[1], pr[2]), o |-> Out(ps, pr[1], pr[2])] : pr \in Pairs(ps)}

\* volumes = fold of the postings whose date lies in the window; a pair appears iff a posting in the window touches it
VolumesAt(ls, pit, oot, ins) == VolsOfPs(AllPs(TxsInWindow(ls, pit, oot, ins)))

\* aggregated balances: per asset, the sum over the (selected) pairs
AggOf(vols) == {[as |-> x, b |-> FoldSet(LAMBDA v, acc : acc + v.i - v.o, 0, {v \in vols : v.as = x})] : x \in {v.as : v \in vols}}
AggAt(ls, pit, ins) == AggOf(VolumesAt(ls, pit, 0, ins))

\* accounts exist at t once their first usage is at or before t
AccountsAt(ls, pit) == {x \in ls.accts : pit = 0 \/ x.first <= pit}
AcctVolumesAt(ls, a, pit) == {v \in VolumesAt(ls, pit, 0, TRUE) : v.a = a}       \* "volumes" (insertion order)
AcctEffVolumesAt(ls, a, pit) == {v \in VolumesAt(ls, pit, 0, FALSE) : v.a = a}   \* "effectiveVolumes"

\* transactions are visible at t if their timestamp is at or before t; reverted only if the revert happened at or before t
MaskRev(t, pit) == IF pit # 0 /\ t.rev /\ t.revAt > pit THEN [t EXCEPT !.rev = FALSE, !.revAt = 0] ELSE t
TxsAt(ls, pit) == LET vis == SelectSeq(ls.txs, LAMBDA t : pit = 0 \/ t.ts <= pit)
                  IN [i \in DOMAIN vis |-> MaskRev(vis[i], pit)]

\* second formulation used by implementations: the post-commit volumes of the last transaction inserted at or before t
\* that touches the pair (design-level theorem PCVFormulationAgrees in MC_ReadsFold: both formulations agree)
LastPCVAt(ls, pit) ==
  LET vis == SelectSeq(ls.txs, LAMBDA t : pit = 0 \/ t.ins <= pit)
      touching(pr) == {i \in DOMAIN vis : pr \in Pairs(vis[i].ps)}
      lastOf(pr) == vis[Max(touching(pr))]
  IN {CHOOSE v \in lastOf(pr).pcv : v.a = pr[1] /\ v.as = pr[2] : pr \in Pairs(AllPs(vis))}

(***************************************************************************)
(* §2  Metadata as of t (C17)                                               *)
(***************************************************************************)
JApply(m, e) == IF e.op = "set" THEN Merge(m, e.meta) ELSE Without(m, e.key)

\* a transaction visible at t carries its creation metadata plus every later write dated <= t (t = 0: all of them)
TxMetaAt(jr, id, t) ==
  FoldLeft(LAMBDA m, e : IF e.kind = "tx" /\ e.tx = id /\ (e.create \/ t = 0 \/ e.date <= t) THEN JApply(m, e) ELSE m, NoMeta, jr)
AcctMetaAt(jr, a, t) ==
  FoldLeft(LAMBDA m, e : IF e.kind = "acct" /\ e.addr = a /\ (t = 0 \/ e.date <= t) THEN JApply(m, e) ELSE m, NoMeta, jr)

\* what a read at pit returns: the history when the feature records it, the current metadata otherwise
TxMetaRead(R, id, pit) == IF pit # 0 /\ R.flags.tmh THEN TxMetaAt(R.jr, id, pit) ELSE TxOf(R.ls, id).meta
AcctMetaRead(R, a, pit) == IF pit # 0 /\ R.flags.amh THEN AcctMetaAt(R.jr, a, pit)
                           ELSE IF HasAcct(R.ls, a) THEN AcctOf(R.ls, a).meta ELSE NoMeta

\* the journal explains the current metadata (binds jr to the state; also a theorem of MC_ReadsFold)
JournalIsMeta(R) ==
  /\ \A i \in DOMAIN R.ls.txs : R.ls.txs[i].meta = TxMetaAt(R.jr, R.ls.txs[i].id, 0)
  /\ \A x \in R.ls.accts : x.meta = AcctMetaAt(R.jr, x.addr, 0)

(***************************************************************************)
(* §3  Filters (C20).  A filter is a tree of uniform nodes                    *)
(*   [op, args, f, k, s, n, b, ss, sg]                                        *)
(*   op   "true" | "and" | "or" | "not" | "match" | "lt" | "lte" | "gt" |     *)
(*        "gte" | "exists" | "in"                                            *)
(*   f    field; k sub-key (metadata key, balance asset); s / n / b the       *)
(*        string / integer (also instants) / boolean operand; ss the $in      *)
(*        operands; sg the segments of an address pattern.                    *)
(* Evaluation is three-valued: a comparison on an ABSENT value (no reference, *)
(* not reverted, no balance in that asset) is unknown, unknown propagates     *)
(* through not/and/or as in SQL, and an entity is selected iff the filter is  *)
(* TRUE.  Metadata never is "absent": a missing key simply does not match.    *)
(***************************************************************************)
B3(b) == IF b THEN "T" ELSE "F"
Not3(x) == CASE x = "T" -> "F" [] x = "F" -> "T" [] OTHER -> "U"
And3(S) == IF "F" \in S THEN "F" ELSE IF "U" \in S THEN "U" ELSE "T"
Or3(S) == IF S = {} THEN "T" ELSE IF "T" \in S THEN "T" ELSE IF "U" \in S THEN "U" ELSE "F"

Cmp(op, x, y) == CASE op = "match" -> x = y
                   [] op = "lt" -> x < y
                   [] op = "lte" -> x <= y
                   [] op = "gt" -> x > y
                   [] op = "gte" -> x >= y

\* address patterns: exact; partial "a::c" (empty segment = any, same number of segments); prefix "a:..." (any longer suffix)
IsPartial(sg) == (\E i \in DOMAIN sg : sg[i] = "") \/ (Len(sg) > 0 /\ sg[Len(sg)] = "...")
AddrMatch(sg, asg) ==
  IF ~IsPartial(sg) THEN sg = asg
  ELSE IF sg[Len(sg)] = "..." THEN \A i \in 1..(Len(sg) - 1) : sg[i] = "" \/ (i <= Len(asg) /\ asg[i] = sg[i])
  ELSE Len(asg) = Len(sg) /\ \A i \in DOMAIN sg : sg[i] = "" \/ asg[i] = sg[i]

MetaLeaf(n, meta) == IF n.op = "exists" THEN B3(n.s \in DOMAIN meta)
                     ELSE B3(n.k \in DOMAIN meta /\ meta[n.k] = n.s)
AddrLeaf(n, addr, asg) == IF n.op = "in" THEN B3(addr \in ToSet(n.ss)) ELSE B3(AddrMatch(n.sg, asg))

\* accounts: e = [addr, sg, first, ins, upd, meta, bal (asset -> balance, only assets the account holds at the read's instant)]
LeafAcct(n, e) ==
  CASE n.f = "address" -> AddrLeaf(n, e.addr, e.sg)
    [] n.f = "first_usage" -> B3(Cmp(n.op, e.first, n.n))
    [] n.f = "insertion_date" -> B3(Cmp(n.op, e.ins, n.n))
    [] n.f = "updated_at" -> B3(Cmp(n.op, e.upd, n.n))
    \* per asset; without an asset the comparison holds if the balance in ANY asset the account holds satisfies it
    \* (unknown for an account holding none)
    [] n.f = "balance" -> IF n.k = "" THEN (IF DOMAIN e.bal = {} THEN "U"
                                             ELSE B3(\E x \in DOMAIN e.bal : Cmp(n.op, e.bal[x], n.n)))
                          ELSE IF n.k \in DOMAIN e.bal THEN B3(Cmp(n.op, e.bal[n.k], n.n)) ELSE "U"
    [] n.f = "metadata" -> MetaLeaf(n, e.meta)

\* transactions: e = [id, ts, ins, upd, ref, revAt, meta, srcs, dsts] (srcs/dsts: sets of [addr, sg])
AnyAddr(n, S) == IF n.op = "in" THEN B3(\E x \in S : x.addr \in ToSet(n.ss)) ELSE B3(\E x \in S : AddrMatch(n.sg, x.sg))
LeafTx(n, e) ==
  CASE n.f = "id" -> B3(Cmp(n.op, e.id, n.n))
    [] n.f = "reference" -> IF e.ref = "" THEN "U" ELSE IF n.op = "in" THEN B3(e.ref \in ToSet(n.ss)) ELSE B3(e.ref = n.s)
    [] n.f = "timestamp" -> B3(Cmp(n.op, e.ts, n.n))
    [] n.f = "inserted_at" -> B3(Cmp(n.op, e.ins, n.n))
    [] n.f = "updated_at" -> B3(Cmp(n.op, e.upd, n.n))
    [] n.f = "reverted" -> B3((e.revAt # 0) = n.b)
    [] n.f = "reverted_at" -> IF e.revAt = 0 THEN "U" ELSE B3(Cmp(n.op, e.revAt, n.n))
    [] n.f = "account" -> AnyAddr(n, e.srcs \cup e.dsts)
    [] n.f = "source" -> AnyAddr(n, e.srcs)
    [] n.f = "destination" -> AnyAddr(n, e.dsts)
    [] n.f = "metadata" -> MetaLeaf(n, e.meta)

\* volumes: e = [a, as, i, o, b, sg, first, meta]; a per-asset balance comparison also selects the asset
LeafVol(n, e) ==
  CASE n.f = "address" -> AddrLeaf(n, e.a, e.sg)
    [] n.f = "first_usage" -> B3(Cmp(n.op, e.first, n.n))
    [] n.f = "balance" -> B3(Cmp(n.op, e.b, n.n) /\ (n.k = "" \/ e.as = n.k))
    [] n.f = "metadata" -> MetaLeaf(n, e.meta)

\* aggregated balances select (account, asset) pairs by account address and account metadata
LeafAgg(n, e) ==
  CASE n.f = "address" -> AddrLeaf(n, e.a, e.sg)
    [] n.f = "metadata" -> MetaLeaf(n, e.meta)

\* logs: e = [id, date, type]
LeafLog(n, e) ==
  CASE n.f = "id" -> B3(Cmp(n.op, e.id, n.n))
    [] n.f = "date" -> B3(Cmp(n.op, e.date, n.n))
    [] n.f = "type" -> B3(e.type = n.s)

Leaf(res, n, e) ==
  CASE res = "accounts" -> LeafAcct(n, e)
    [] res = "transactions" -> LeafTx(n, e)
    [] res = "volumes" -> LeafVol(n, e)
    [] res = "agg" -> LeafAgg(n, e)
    [] res = "logs" -> LeafLog(n, e)

RECURSIVE Eval(_, _, _)
Eval(res, f, e) ==
  CASE f.op = "true" -> "T"
    [] f.op = "and" -> And3({Eval(res, f.args[i], e) : i \in DOMAIN f.args})
    [] f.op = "or" -> Or3({Eval(res, f.args[i], e) : i \in DOMAIN f.args})
    [] f.op = "not" -> Not3(Eval(res, f.args[1], e))
    [] OTHER -> Leaf(res, f, e)

Selected(res, f, E) == {e \in E : Eval(res, f, e) = "T"}

RECURSIVE UsesField(_, _)
UsesField(f, name) == IF f.op \in {"and", "or", "not"} THEN \E i \in DOMAIN f.args : UsesField(f.args[i], name)
                      ELSE f.op # "true" /\ f.f = name

(***************************************************************************)
(* §4  Datasets: the entities a query ranges over, as of its instant          *)
(* q = [res, pit, oot, ins, grp, filter, size, order, xvol, xevol, id, addr] *)
(***************************************************************************)
SegOf(R, a) == IF a \in DOMAIN R.sg THEN R.sg[a] ELSE <<a>>
FirstOf(R, a) == IF HasAcct(R.ls, a) THEN AcctOf(R.ls, a).first ELSE 0

BalFn(vols) == [x \in {v.as : v \in vols} |-> LET v == CHOOSE w \in vols : w.as = x IN v.i - v.o]

AcctEntities(R, q) ==
  {[addr |-> x.addr, sg |-> SegOf(R, x.addr), first |-> x.first, ins |-> x.ins, upd |-> R.aupd[x.addr],
    meta |-> AcctMetaRead(R, x.addr, q.pit),
    bal |-> BalFn(AcctEffVolumesAt(R.ls, x.addr, q.pit))] : x \in AccountsAt(R.ls, q.pit)}

TxEntity(R, t, pit) ==
  [id |-> t.id, ts |-> t.ts, ins |-> t.ins, upd |-> R.tupd[t.id], ref |-> t.ref, revAt |-> t.revAt, rev |-> t.rev,
   meta |-> TxMetaRead(R, t.id, pit),
   srcs |-> {[addr |-> t.ps[i].s, sg |-> SegOf(R, t.ps[i].s)] : i \in DOMAIN t.ps},
   dsts |-> {[addr |-> t.ps[i].d, sg |-> SegOf(R, t.ps[i].d)] : i \in DOMAIN t.ps}]
TxEntities(R, q) == LET v == TxsAt(R.ls, q.pit) IN {TxEntity(R, v[i], q.pit) : i \in DOMAIN v}

UseWindow(q) == q.pit # 0 \/ q.oot # 0
VolEntities(R, q) ==
  LET base == IF UseWindow(q) THEN VolumesAt(R.ls, q.pit, q.oot, q.ins) ELSE VolumesAt(R.ls, 0, 0, FALSE)
  IN {[a |-> v.a, as |-> v.as, i |-> v.i, o |-> v.o, b |-> v.i - v.o, sg |-> SegOf(R, v.a), first |-> FirstOf(R, v.a),
       meta |-> AcctMetaRead(R, v.a, q.pit)] : v \in base}

AggEntities(R, q) ==
  {[a |-> v.a, as |-> v.as, i |-> v.i, o |-> v.o, sg |-> SegOf(R, v.a), meta |-> AcctMetaRead(R, v.a, q.pit)]
     : v \in VolumesAt(R.ls, q.pit, 0, q.ins)}

LogEntities(R) == {[id |-> R.ls.logs[i].id, date |-> R.ls.logs[i].date, type |-> R.ls.logs[i].type] : i \in DOMAIN R.ls.logs}

(***************************************************************************)
(* §5  Lists: sorted, filtered entities; counts; grouping                    *)
(* Items are what the client sees; keys are what the listing is sorted by.   *)
(***************************************************************************)
VolItem(e) == [a |-> e.a, as |-> e.as, i |-> e.i, o |-> e.o]
GroupKey(R, a, g) == LET p == R.pre[a] IN p[Min2(g, Len(p))]
VolList(R, q) ==
  LET sel == Selected("volumes", q.filter, VolEntities(R, q))
  IN IF q.grp = 0 THEN {VolItem(e) : e \in sel}
     ELSE {[a |-> k[1], as |-> k[2],
            i |-> FoldSet(LAMBDA e, acc : acc + e.i, 0, {e \in sel : GroupKey(R, e.a, q.grp) = k[1] /\ e.as = k[2]}),
            o |-> FoldSet(LAMBDA e, acc : acc + e.o, 0, {e \in sel : GroupKey(R, e.a, q.grp) = k[1] /\ e.as = k[2]})]
              : k \in {<<GroupKey(R, e.a, q.grp), e.as>> : e \in sel}}

AggList(R, q) == AggOf({VolItem(e) : e \in Selected("agg", q.filter, AggEntities(R, q))})

AcctItem(R, q, e) ==
  [addr |-> e.addr, first |-> e.first, meta |-> e.meta,
   vol |-> IF q.xvol THEN AcctVolumesAt(R.ls, e.addr, q.pit) ELSE {},
   evol |-> IF q.xevol THEN AcctEffVolumesAt(R.ls, e.addr, q.pit) ELSE {}]
AcctList(R, q) == {AcctItem(R, q, e) : e \in Selected("accounts", q.filter, AcctEntities(R, q))}

TxItem(e) == [id |-> e.id, ts |-> e.ts, ref |-> e.ref, rev |-> e.rev, revAt |-> e.revAt, meta |-> e.meta]
TxList(R, q) == {TxItem(e) : e \in Selected("transactions", q.filter, TxEntities(R, q))}

LogList(R, q) == {[id |-> e.id] : e \in Selected("logs", q.filter, LogEntities(R))}

\* the sort key of each listing (rk: rank of a string in the order of the key domain)
Less(order, x, y) == IF order = "asc" THEN x < y ELSE x > y
SortBy(S, key(_), order) == SortSeq(SetToSeq(S), LAMBDA x, y : Less(order, key(x), key(y)))

\* transactions and logs are sorted by id, accounts by address; volumes by account (the asset order within one account is
\* not part of the contract: VolKeySeq is the sequence of account keys, compared up to the order inside equal keys)
TxSeq(R, q) == SortBy(TxList(R, q), LAMBDA x : x.id, q.order)
LogSeq(R, q) == SortBy(LogList(R, q), LAMBDA x : x.id, q.order)
AcctSeq(R, q) == SortBy(AcctList(R, q), LAMBDA x : R.rk[x.addr], q.order)
\* a total order for volumes: account, then asset ascending (the order the rows are produced in)
VolSeq(R, q) == SortSeq(SetToSeq(VolList(R, q)),
                        LAMBDA x, y : \/ Less(q.order, R.rk[x.a], R.rk[y.a])
                                      \/ (x.a = y.a /\ R.rk[x.as] < R.rk[y.as]))

Count(S) == Cardinality(S)

(***************************************************************************)
(* §6  Pagination (C21).  Two cursor state machines, as the API exposes them: *)
(*  - the COLUMN paginator (numeric unique keys: transaction id, log id):     *)
(*    cursor = [pid, bottom, rev] over a list of integer keys;                *)
(*  - the OFFSET paginator (accounts by address, volumes by account):         *)
(*    cursor = [off].                                                         *)
(* A page is [items, next, prev] where next / prev are cursors or NoCursor.   *)
(* Keys(list) is the sorted sequence; the theorems (MC_ReadsPages) say that   *)
(* following next from the first page yields Chunks(list, size) exactly and    *)
(* that previous returns the page before.                                      *)
(***************************************************************************)
NoCursor == [none |-> TRUE]
IsCursor(c) == "none" \notin DOMAIN c

PageSizeOf(size) == IF size = 0 THEN 15 ELSE size

Ceil(n, d) == (n + d - 1) \div d
Chunks(L, size) ==
  IF Len(L) = 0 THEN << <<>> >>
  ELSE [k \in 1..Ceil(Len(L), size) |-> SubSeq(L, (k - 1) * size + 1, Min2(k * size, Len(L)))]

Rev(s) == [i \in DOMAIN s |-> s[Len(s) + 1 - i]]
Take(s, n) == SubSeq(s, 1, Min2(n, Len(s)))

\* ---- column paginator.  keys: the filtered keys as a SET of integers; order "asc" | "desc"
\* the rows a query fetches: keys on the requested side of pid, in scan order, at most size + 1
ColFetch(keys, order, size, c) ==
  LET scanAsc == (order = "asc") # c.rev      \* reverse flips the scan direction
      side == IF c.pid = 0 THEN keys
              ELSE IF c.rev THEN {k \in keys : IF order = "asc" THEN k < c.pid ELSE k > c.pid}
              ELSE {k \in keys : IF order = "asc" THEN k >= c.pid ELSE k <= c.pid}
      sorted == SortSeq(SetToSeq(side), LAMBDA x, y : IF scanAsc THEN x < y ELSE x > y)
  IN Take(sorted, size + 1)

ColPage(keys, order, size, c0) ==
  LET rows == ColFetch(keys, order, size, c0)
      c == IF c0.bottom = 0 /\ Len(rows) > 0 THEN [c0 EXCEPT !.bottom = rows[1]] ELSE c0
      more == Len(rows) > size
      kept == IF more THEN SubSeq(rows, 1, size) ELSE rows
      items == IF c.rev THEN Rev(kept) ELSE kept
      nxt == IF c.rev THEN [c EXCEPT !.rev = FALSE]
             ELSE IF more THEN [c EXCEPT !.pid = rows[Len(rows)]] ELSE NoCursor
      prv == IF c.rev THEN (IF more THEN [c EXCEPT !.pid = rows[Len(rows) - 1]] ELSE NoCursor)
             ELSE IF c.pid # 0 /\ ((order = "asc" /\ c.pid > c.bottom) \/ (order = "desc" /\ c.pid < c.bottom))
                  THEN [c EXCEPT !.rev = TRUE] ELSE NoCursor
  IN [items |-> items, next |-> nxt, prev |-> prv]

ColFirst == [pid |-> 0, bottom |-> 0, rev |-> FALSE]

\* ---- offset paginator.  L: the sorted filtered list
OffPage(L, size, c) ==
  LET rows == SubSeq(L, c.off + 1, Min2(c.off + size + 1, Len(L)))
      more == Len(rows) > size
  IN [items |-> IF more THEN SubSeq(rows, 1, size) ELSE rows,
      next |-> IF more THEN [off |-> c.off + size] ELSE NoCursor,
      prev |-> IF c.off > 0 THEN [off |-> Max2(c.off - size, 0)] ELSE NoCursor]

OffFirst == [off |-> 0]

\* ---- the enumeration a client obtains by following next cursors from the first page
RECURSIVE FollowCol(_, _, _, _, _)
FollowCol(keys, order, size, c, fuel) ==
  LET p == ColPage(keys, order, size, c)
  IN IF fuel = 0 \/ ~IsCursor(p.next) THEN <<p.items>> ELSE <<p.items>> \o FollowCol(keys, order, size, p.next, fuel - 1)
RECURSIVE FollowOff(_, _, _, _)
FollowOff(L, size, c, fuel) ==
  LET p == OffPage(L, size, c)
  IN IF fuel = 0 \/ ~IsCursor(p.next) THEN <<p.items>> ELSE <<p.items>> \o FollowOff(L, size, p.next, fuel - 1)

\* ---- a request that follows a cursor may carry ANOTHER page size: the cursor keeps its position (pid / offset), the size
\* of the request applies to the page it serves and to the cursors that page hands out (next offset = offset + the size
\* just applied, previous offset = max(0, offset - that size)).  ColWalk / OffWalk: the page RECORDS visited from cursor c
\* following dir ("next" | "prev") with page size `size`.
RECURSIVE ColWalk(_, _, _, _, _, _)
ColWalk(keys, order, size, c, dir, fuel) ==
  LET p == ColPage(keys, order, size, c)
      nx == IF dir = "next" THEN p.next ELSE p.prev
  IN IF fuel = 0 \/ ~IsCursor(nx) THEN <<p>> ELSE <<p>> \o ColWalk(keys, order, size, nx, dir, fuel - 1)
RECURSIVE OffWalk(_, _, _, _, _)
OffWalk(L, size, c, dir, fuel) ==
  LET p == OffPage(L, size, c)
      nx == IF dir = "next" THEN p.next ELSE p.prev
  IN IF fuel = 0 \/ ~IsCursor(nx) THEN <<p>> ELSE <<p>> \o OffWalk(L, size, nx, dir, fuel - 1)

SortedKeys(keys, order) == SortSeq(SetToSeq(keys), LAMBDA x, y : Less(order, x, y))

\* Pages(list, pageSize, order): what following next from the first page must enumerate
Pages(L, size) == Chunks(L, size)

(***************************************************************************)
(* §7  Pushing the address filter into the lateral join (design-level, C20)  *)
(* Transcription of the rule that decides whether the disjunction of all      *)
(* address patterns of a filter may ALSO be applied inside the per-row        *)
(* account lookup of volumes / aggregated balances.  The rule collects the    *)
(* operands of address leaves with a single pattern ($match); the operand of  *)
(* an $in leaf is an array and is NOT collected.                               *)
(***************************************************************************)
IsAddrLeaf(n) == n.op \notin {"and", "or", "not", "true"} /\ n.f = "address"

\* does the subtree contain an address filter THAT THE LATERAL LOOKUP APPLIES?  An $in leaf does not count: its operand
\* is never collected, so it restricts nothing inside the lateral lookup.  (CountInAsAddressFilter = TRUE is the rule as
\* it was before commit 55870c0 of the repository; MC_ReadsLateral refutes it: negative control.)
CountInAsAddressFilter == FALSE
RECURSIVE ContainsAddr(_)
ContainsAddr(n) == IF n.op \in {"and", "or", "not"} THEN \E i \in DOMAIN n.args : ContainsAddr(n.args[i])
                   ELSE IsAddrLeaf(n) /\ (CountInAsAddressFilter \/ n.op # "in")

RECURSIVE SafeForLateral(_, _)
SafeForLateral(n, insideNot) ==
  CASE n.op = "true" -> TRUE
    [] n.op = "not" -> SafeForLateral(n.args[1], TRUE)
    [] n.op = "and" -> \A i \in DOMAIN n.args : SafeForLateral(n.args[i], insideNot)
    [] n.op = "or" ->
         IF insideNot THEN \A i \in DOMAIN n.args : ~ContainsAddr(n.args[i])
         ELSE /\ (Len(n.args) > 1 =>
                    ~((\E i \in DOMAIN n.args : ContainsAddr(n.args[i])) /\ (\E i \in DOMAIN n.args : ~ContainsAddr(n.args[i]))))
              /\ \A i \in DOMAIN n.args : SafeForLateral(n.args[i], insideNot)
    [] OTHER -> ~(insideNot /\ IsAddrLeaf(n))
CanPushAddressFilterToLateral(f) == SafeForLateral(f, FALSE)

\* the address patterns the rule collects (single-pattern leaves only) and whether the lateral needs the segments
RECURSIVE CollectPatterns(_)
CollectPatterns(n) == IF n.op \in {"and", "or", "not"} THEN UNION {CollectPatterns(n.args[i]) : i \in DOMAIN n.args}
                      ELSE IF IsAddrLeaf(n) /\ n.op # "in" THEN {n.sg} ELSE {}
NeedSegments(f) == \E sg \in CollectPatterns(f) : IsPartial(sg)

\* the lateral lookup keeps an account iff it matches one of the collected patterns (when the push applies)
LateralKeeps(f, asg) == ~(NeedSegments(f) /\ CanPushAddressFilterToLateral(f)) \/ (\E sg \in CollectPatterns(f) : AddrMatch(sg, asg))

\* evaluation with the push-down: rows the lateral drops are not there to be selected
SelectedWithPush(res, f, E) == {e \in E : LateralKeeps(f, e.sg) /\ Eval(res, f, e) = "T"}

RECURSIVE HasInOnAddress(_)
HasInOnAddress(n) == IF n.op \in {"and", "or", "not"} THEN \E i \in DOMAIN n.args : HasInOnAddress(n.args[i])
                     ELSE IsAddrLeaf(n) /\ n.op = "in"

(***************************************************************************)
(* §8  Query templates (C37)                                                 *)
(* tpl = [res, body, vars, params]; call = [vars, params]                    *)
(*   body    a filter whose leaves may refer to variables: var (operand),     *)
(*           sgv (per segment), ssv (per $in operand); "" = literal           *)
(*   vars    name -> [t, def, s, n, b]   (def: a default exists)              *)
(*   params  [hpit, pit, hoot, oot, hins, ins, hgrp, grp, hsize, size,        *)
(*            horder, order, hexp, xvol, xevol]  (h*: the field is present)   *)
(* Run(tpl, call) = the direct list query with the variables substituted and  *)
(* each template parameter overridden by the request parameter when present.  *)
(***************************************************************************)
EffVars(tpl, call) ==
  [v \in {x \in DOMAIN tpl.vars : tpl.vars[x].def \/ x \in DOMAIN call.vars} |->
     IF v \in DOMAIN call.vars THEN call.vars[v] ELSE tpl.vars[v]]

RECURSIVE VarsOf(_)
VarsOf(n) == IF n.op \in {"and", "or", "not"} THEN UNION {VarsOf(n.args[i]) : i \in DOMAIN n.args}
             ELSE IF n.op = "true" THEN {}
             ELSE ({n.var} \cup {n.sgv[i] : i \in DOMAIN n.sgv} \cup {n.ssv[i] : i \in DOMAIN n.ssv}) \ {""}

RECURSIVE Subst(_, _)
Subst(n, vs) ==
  IF n.op \in {"and", "or", "not"} THEN [n EXCEPT !.args = [i \in DOMAIN n.args |-> Subst(n.args[i], vs)]]
  ELSE IF n.op = "true" THEN n
  ELSE [n EXCEPT !.s = IF n.var # "" THEN vs[n.var].s ELSE n.s,
                 !.n = IF n.var # "" THEN vs[n.var].n ELSE n.n,
                 !.b = IF n.var # "" THEN vs[n.var].b ELSE n.b,
                 !.sg = [i \in DOMAIN n.sg |-> IF n.sgv[i] # "" THEN vs[n.sgv[i]].s ELSE n.sg[i]],
                 !.ss = [i \in DOMAIN n.ss |-> IF n.ssv[i] # "" THEN vs[n.ssv[i]].s ELSE n.ss[i]]]

DefaultOrder(res) == IF res \in {"transactions", "logs"} THEN "desc" ELSE "asc"

Overwrite(res, tp, cp) ==
  [pit |-> IF cp.hpit THEN cp.pit ELSE IF tp.hpit THEN tp.pit ELSE 0,
   oot |-> IF cp.hoot THEN cp.oot ELSE IF tp.hoot THEN tp.oot ELSE 0,
   ins |-> IF cp.hins THEN cp.ins ELSE IF tp.hins THEN tp.ins ELSE FALSE,
   grp |-> IF cp.hgrp THEN cp.grp ELSE IF tp.hgrp THEN tp.grp ELSE 0,
   size |-> IF cp.hsize THEN cp.size ELSE IF tp.hsize THEN tp.size ELSE 0,
   order |-> IF cp.horder THEN cp.order ELSE IF tp.horder THEN tp.order ELSE DefaultOrder(res),
   xvol |-> IF cp.hexp THEN cp.xvol ELSE IF tp.hexp THEN tp.xvol ELSE FALSE,
   xevol |-> IF cp.hexp THEN cp.xevol ELSE IF tp.hexp THEN tp.xevol ELSE FALSE]

\* a run is rejected (validation) when a variable the body uses has neither a value nor a default
TemplateRejected(tpl, call) == ~(VarsOf(tpl.body) \subseteq DOMAIN EffVars(tpl, call))

\* the direct query a template run stands for
TemplateQuery(tpl, call) ==
  LET p == Overwrite(tpl.res, tpl.params, call.params)
  IN [res |-> tpl.res, pit |-> p.pit, oot |-> p.oot, ins |-> p.ins, grp |-> p.grp,
      filter |-> Subst(tpl.body, EffVars(tpl, call)), size |-> p.size, order |-> p.order,
      xvol |-> p.xvol, xevol |-> p.xevol, id |-> 0, addr |-> ""]

(***************************************************************************)
(* §9  Features: a read that needs a derived observable the ledger does not  *)
(* maintain is rejected (validation class), as predicted from flags           *)
(*   flags.moves : moves history;  flags.eff : effective volumes maintained   *)
(***************************************************************************)
NeedsMissingFeature(flags, q) ==
  CASE q.res = "volumes" -> UseWindow(q) /\ ~flags.moves
    [] q.res = "agg" -> q.pit # 0 /\ IF q.ins THEN ~flags.moves ELSE ~flags.eff
    [] q.res = "accounts" -> \/ (q.xvol /\ ~flags.moves)
                             \/ (q.xevol /\ ~flags.eff)
                             \* a balance as of t is an effective-date balance: it needs the effective volumes
                             \/ (q.pit # 0 /\ UsesField(q.filter, "balance") /\ ~flags.eff)
    [] OTHER -> FALSE
=============================================================================
