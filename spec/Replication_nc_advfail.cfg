\* Negative control: the pipeline advances its position when Accept fails.  TLC MUST report InvNoGapEver.
SPECIFICATION Spec
CONSTANTS
  MaxLogs = 2
  PageSizes = {1, 2}
  MaxFail = 1
  MaxStops = 1
  MaxResets = 1
  MaxRestarts = 1
  JoinSubscriber = TRUE
  Mutant = "AdvanceOnFail"
  LateAccepts = FALSE
  RecordHist = FALSE
INVARIANTS
  InvNoGapEver
