INIT Init
NEXT Next
CONSTANT Family = "E5"
CONSTANT Tier = "quick"
CONSTANT N = 3000
INVARIANT CheckAndEmit
