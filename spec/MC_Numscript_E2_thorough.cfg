INIT Init
NEXT Next
CONSTANT Family = "E2"
CONSTANT Tier = "thorough"
CONSTANT N = 100000
INVARIANT CheckAndEmit
