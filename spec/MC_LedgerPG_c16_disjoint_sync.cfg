SPECIFICATION Spec
CONSTANTS
  Ops <- MCOps
  InitBal <- MCInit
  Scenario = "disjoint-rows"
  ForUpdate = TRUE
  AdvisoryLock = TRUE
  Recheck = TRUE
  MaxRetry = 2
INVARIANTS
  LogIdCommitOrder
  LinearChain
PROPERTIES
  AllAnswered
CHECK_DEADLOCK FALSE
