SPECIFICATION Spec
CONSTANTS
  Writers = {w1, w2}
  Builders = {b1, b2}
  MaxWrites = 2
  MaxBlock = 2
  Ordered = FALSE
INVARIANTS TypeOK ChainOK RangesDisjoint
PROPERTIES AppendOnly
CHECK_DEADLOCK FALSE
