SPECIFICATION Spec
CONSTANTS
  Writers = {w1, w2}
  NLogs = 2
  FirstId = 1
  SameKey = FALSE
  FlipsState = TRUE
INVARIANTS Serial
PROPERTIES WriteThenNoImport
CHECK_DEADLOCK FALSE
