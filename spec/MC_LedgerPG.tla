---------------------------- MODULE MC_LedgerPG ----------------------------
(* Scenarios for the statement-level model (constants cannot hold records in a .cfg). *)
EXTENDS LedgerPG

CONSTANT Scenario

O(src, dst, asset, amt, bound, ik, in) == [src |-> src, dst |-> dst, asset |-> asset, amt |-> amt, bound |-> bound, ik |-> ik, in |-> in]

MCOps ==
  CASE Scenario = "two-spenders"   -> [w \in {"w1", "w2"} |-> IF w = "w1" THEN O("alice", "bob", "USD", 3, 0, "", 1) ELSE O("alice", "carol", "USD", 3, 0, "", 2)]
    [] Scenario = "three-spenders" -> [w \in {"w1", "w2", "w3"} |-> IF w = "w1" THEN O("alice", "bob", "USD", 3, 0, "", 1)
                                          ELSE IF w = "w2" THEN O("alice", "carol", "USD", 2, 1, "", 2) ELSE O("alice", "bob", "USD", 2, 0, "", 3)]
    [] Scenario = "cross"          -> [w \in {"w1", "w2"} |-> IF w = "w1" THEN O("alice", "bob", "USD", 2, 0, "", 1) ELSE O("bob", "alice", "USD", 2, 0, "", 2)]
    [] Scenario = "same-key"       -> [w \in {"w1", "w2"} |-> O("alice", "bob", "USD", 5, 0, "k", 1)]
    [] Scenario = "same-key-three" -> [w \in {"w1", "w2", "w3"} |-> O("alice", "bob", "USD", 5, 0, "k", 1)]
    [] Scenario = "key-other-input"-> [w \in {"w1", "w2"} |-> IF w = "w1" THEN O("alice", "bob", "USD", 1, 0, "k", 1) ELSE O("alice", "bob", "USD", 2, 0, "k", 2)]
    [] Scenario = "disjoint-rows"  -> [w \in {"w1", "w2"} |-> IF w = "w1" THEN O("world", "bob", "USD", 1, 0, "", 1) ELSE O("world", "carol", "EUR", 1, 0, "", 2)]
    [] Scenario = "shared-row"     -> [w \in {"w1", "w2"} |-> IF w = "w1" THEN O("world", "bob", "USD", 1, 0, "", 1) ELSE O("world", "carol", "USD", 1, 0, "", 2)]

MCInit ==
  CASE Scenario \in {"two-spenders", "three-spenders", "same-key", "same-key-three", "key-other-input"} -> (<<"alice", "USD">> :> 5)
    [] Scenario = "cross" -> (<<"alice", "USD">> :> 2 @@ <<"bob", "USD">> :> 2)
    [] OTHER -> (<<"nobody", "USD">> :> 0)
=============================================================================
