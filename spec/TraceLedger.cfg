\* Standard TLC configuration: every predicate as an INVARIANT / action PROPERTY (TLC stops at the first
\* violated one). The checks use TraceLedgerReport.cfg, which evaluates the same predicates on every line
\* and prints all failures.
SPECIFICATION Spec
CONSTANT TraceFile = "trace.ndjson"
INVARIANTS
  Inv_C01_Conservation
  Inv_C02_VolumesAreFold
  Inv_C03_PostCommitVolumes
  Inv_C04_EffectiveVolumes
  Inv_C08_Journal
  Inv_C14_UniqueRefs
  Inv_C15_Reverts
  Inv_C16_Ids
  Inv_C18_Accounts
  Inv_C18_RevertFirstUsage
  Inv_C28_WellFormed
  Inv_C35_Hashes
  Inv_C09_HashChain
  Inv_C34_BlockChain
  Inv_C34_BlockDigest
PROPERTIES
  Step_C25_Funds
  Step_C14_RefOutcome
  Step_C15_RevertOutcome
  Step_C13_Idempotency
  Step_C17_MetaOutcome
  Step_Outcome
  Step_C07_NoTrace
  Step_C08_OneLog
  Step_C16_Independent
  Step_C25_Recorded
  Step_C15_Reverted
  Step_C17_Metadata
  Step_C18_Accounts
  Step_C03_Immutable
  Step_C19_Frame
  Step_C19_CreateFrame
  Step_C31_Events
  Step_C35_SameCore
  Step_C35_FeatureReads
  Step_C35_EffWithoutMoves
  Step_ResetPristine
  StepC_C06_Serializable
  StepC_C13_Serializable
  StepC_C14_Serializable
  StepC_C15_Serializable
  StepC_C16_Serializable
  StepC_C16_TxIdCommitOrder
  StepC_C16_LogIdCommitOrder
  StepC_C16_Dense
  StepC_C34_Serializable
  StepC_C09_LinearChain
  StepC_C12_Serializable
  Step_C11_ImportFaithful
  Step_C12_ImportOutcome
  Step_C34_Quiescent
POSTCONDITION Accepted
CHECK_DEADLOCK FALSE
