-------------------------- MODULE SchemaGenCharts --------------------------
(* Charts taken from the chart generator (ChartGen.tla cases).  This file is *)
(* the static default; checks/schema_common.py overwrites it in the scratch  *)
(* copy of a run with charts sampled (VERIF_SEED) from gen_chart_cases.      *)
EXTENDS Chart

GP(m, v1, v2) == [meta |-> m, kv |-> [k \in MetaKeys |-> IF k = "k1" THEN v1 ELSE v2], rules |-> FALSE]
GN(s, pt, pr) == [self |-> s, pat |-> pt, props |-> pr]

GenCharts == <<
    (<< >> :> PlainNode) @@ (<<"world">> :> GN("absent", "none", GP(TRUE, "v1", "_")))
      @@ (<<"a">> :> GN("absent", "none", GP(FALSE, "_", "_")))
      @@ (<<"a", "$v">> :> GN("empty", "none", GP(TRUE, "_", "v2")))
      @@ (<<"a", "$v", "7">> :> GN("absent", "none", GP(FALSE, "_", "_"))),
    (<< >> :> PlainNode) @@ (<<"a">> :> GN("empty", "none", GP(TRUE, "v2", "v1")))
      @@ (<<"a", "7">> :> GN("absent", "none", GP(FALSE, "_", "_")))
      @@ (<<"a", "$v">> :> GN("absent", "hasdigit", GP(TRUE, "v1", "_")))
>>
=============================================================================
