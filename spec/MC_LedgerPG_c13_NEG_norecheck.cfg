SPECIFICATION Spec
CONSTANTS
  Ops <- MCOps
  InitBal <- MCInit
  Scenario = "same-key"
  ForUpdate = TRUE
  AdvisoryLock = TRUE
  Recheck = FALSE
  MaxRetry = 2
INVARIANTS
  NoBusinessErrorOnDuplicate
PROPERTIES
  AllAnswered
CHECK_DEADLOCK FALSE
