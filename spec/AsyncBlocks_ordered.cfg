SPECIFICATION Spec
CONSTANTS
  Writers = {w1, w2}
  Builders = {b1, b2}
  MaxWrites = 2
  MaxBlock = 2
  Ordered = TRUE
INVARIANTS TypeOK ChainOK RangesDisjoint DigestCovers CoverAtQuiescence
PROPERTIES AppendOnly
CHECK_DEADLOCK FALSE
