INIT Init
NEXT Next
CONSTANT Family = "E4"
CONSTANT Tier = "quick"
CONSTANT N = 3000
INVARIANT CheckAndEmit
