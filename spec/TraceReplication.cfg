SPECIFICATION TraceSpec
CONSTANTS
  MaxLogs = 1000
  PageSizes = {1}
  MaxFail = 1000000
  MaxStops = 1000000
  MaxResets = 1000000
  MaxRestarts = 1000000
  JoinSubscriber = TRUE
  Mutant = "none"
  LateAccepts = TRUE
  RecordHist = FALSE
  TraceFile = "trace.ndjson"
  MaxSilent = 8
  NoProgressK = 5
INVARIANTS
  TraceHW
  TInvBatchContiguous
  TInvNoGapSinceReset
  TInvStartPos
  TInvPersistedLeAcked
  TInvPersistedLeAckedSinceReset
  TInvLastLeAcked
  TInvProgressAfterFailures
POSTCONDITION TraceAccepted
CHECK_DEADLOCK FALSE
