\* C33, faithful model, safety properties expected to hold (quick bounds; checks/C33.py overrides the bounds per tier).
SPECIFICATION Spec
CONSTANTS
  MaxLogs = 3
  PageSizes = {1, 2}
  MaxFail = 1
  MaxStops = 1
  MaxResets = 1
  MaxRestarts = 1
  JoinSubscriber = FALSE
  Mutant = "none"
  LateAccepts = FALSE
  RecordHist = FALSE
INVARIANTS
  TypeOK
  InvBatchContiguous
  InvNoGapEver
  InvPersistedLeAcked
  InvLastLeAcked
