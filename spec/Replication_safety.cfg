\* C33, faithful model (JoinSubscriber = TRUE: the code since /repo 9ae9635), safety properties (quick bounds; checks/C33.py
\* overrides the bounds per tier).
SPECIFICATION Spec
CONSTANTS
  MaxLogs = 3
  PageSizes = {1, 2}
  MaxFail = 1
  MaxStops = 1
  MaxResets = 1
  MaxRestarts = 1
  JoinSubscriber = TRUE
  Mutant = "none"
  LateAccepts = FALSE
  RecordHist = FALSE
INVARIANTS
  TypeOK
  InvBatchContiguous
  InvNoGapEver
  InvNoGapSinceReset
  InvStartPos
  InvPersistedLeAcked
  InvPersistedLeAckedSinceReset
  InvLastLeAcked
