------------------------------ MODULE Numscript ------------------------------
(***************************************************************************)
(* Abstract syntax and big-step semantics of Numscript programs as         *)
(* executed by the default *machine* runtime of formancehq/ledger          *)
(* (internal/machine: compiler + bytecode VM):                             *)
(*   send [A n] / send [A *] / send $v with monetary $v = balance(@x, A),  *)
(*   sources: account, `allowing overdraft up to`, `allowing unbounded     *)
(*   overdraft`, @world, `max X from S`, in-order { s1 s2 }, allotment     *)
(*   { 1/2 from s1  remaining from s2 };                                   *)
(*   destinations: account, in-order { max X to d1  remaining to d2 },     *)
(*   allotment { 1/3 to d1 ... remaining kept }, `kept`;                   *)
(*   several statements (funds received earlier can be spent), `save`,     *)
(*   set_tx_meta, set_account_meta.  Variables are substitution: the       *)
(*   harness renders every case once with literals and once with a         *)
(*   `vars` block, the outcome is the same.                                *)
(*                                                                         *)
(*   Run(program, balances) = [ok, err, posts, fin, txm, am, ...]          *)
(*   Allocate(portions, amount)           (allotments, C24)                *)
(*   Ideal(program, balances)             amount-level semantics in the    *)
(*                                        style of the interpreter runtime *)
(*                                                                         *)
(* and the theorems of C22 / C23 / C24 as predicates that TLC checks on    *)
(* every enumerated or sampled case (MC_Numscript.tla,                     *)
(* MC_NumscriptAllot.tla).                                                 *)
(*                                                                         *)
(* The machine semantics is modelled *as the code behaves*, at the level   *)
(* of "fundings" (ordered lists of (account, amount) parts):               *)
(*  - every bounded account of a source is drained completely (balance +   *)
(*    overdraft allowance, or 0 when that is not positive) in textual      *)
(*    order, the required amount is taken from the front of the resulting  *)
(*    list, and the rest is repaid;                                        *)
(*  - @world / `allowing unbounded overdraft` contribute a 0-part and act  *)
(*    as fallback for whatever is missing (only allowed in last position); *)
(*  - parts with amount 0 stay in fundings and therefore show up as        *)
(*    zero-amount postings; taking 0 from a non-empty funding yields one   *)
(*    0-part of its first account;                                         *)
(*  - adjacent parts of the same account are merged when fundings are      *)
(*    concatenated (and only then);                                        *)
(*  - in destinations, what a clause keeps (`kept`, or the remainder of a  *)
(*    nested destination) is put back at the FRONT of the funding, so the  *)
(*    next clause draws from it first; the in-order destination finally    *)
(*    separates its accumulated kept total from the BACK of the funding,   *)
(*    which fails ("insufficient funds") when a later clause has consumed  *)
(*    kept funds;                                                          *)
(*  - balances are tracked only for (account, asset) pairs that are        *)
(*    bounded sources of some send of the script (or balance() variables); *)
(*    `save` lowers the tracked balance (possibly below 0).                *)
(*                                                                         *)
(* Where the funding-level and the amount-level semantics differ is        *)
(* characterised exactly (TLC: ThmIdealOk/Dest/Postings/Balances):         *)
(*   class K  a clause that keeps funds is followed by another clause,     *)
(*   class Z  same-account parts separated by a zero-amount part,          *)
(*   class S  `save [A n]` takes a tracked balance below zero.             *)
(***************************************************************************)
EXTENDS Integers, Sequences, FiniteSets, TLC

World  == "world"
NoOD   == -1      \* source account without overdraft clause (bound 0)
Unb    == -2      \* `allowing unbounded overdraft`
AllAmt == -1      \* send [ASSET *]
BalAmt == -2      \* send $v  with  monetary $v = balance(@ba, ASSET)

Min(a, b) == IF a < b THEN a ELSE b
Max(a, b) == IF a > b THEN a ELSE b

\* ---------------------------------------------------------------- constructors
SAcct(a, od)   == [k |-> "acct", a |-> a, od |-> od]
SWorld         == SAcct(World, NoOD)
SMax(cap, s)   == [k |-> "max", cap |-> cap, src |-> s]
SSeq(ss)       == [k |-> "seq", srcs |-> ss]
SAllot(ps, ss) == [k |-> "allot", ports |-> ps, srcs |-> ss]
P(n, d)        == [num |-> n, den |-> d]
PRem           == [num |-> -1, den |-> 1]          \* `remaining`
DAcct(a)       == [k |-> "acct", a |-> a]
DKept          == [k |-> "kept"]
DSeq(caps, ds, rem) == [k |-> "seq", caps |-> caps, dests |-> ds, rem |-> rem]
DAllot(ps, ds) == [k |-> "allot", ports |-> ps, dests |-> ds]
Send(as, amt, s, d)    == [k |-> "send", asset |-> as, amt |-> amt, ba |-> "", src |-> s, dst |-> d]
SendBal(as, ba, s, d)  == [k |-> "send", asset |-> as, amt |-> BalAmt, ba |-> ba, src |-> s, dst |-> d]
\* metadata values: t in {"string","number","account","asset","monetary","portion"}
VStr(s)      == [t |-> "string",   s |-> s,  n |-> 0, d |-> 1]
VNum(n)      == [t |-> "number",   s |-> "", n |-> n, d |-> 1]
VAcct(a)     == [t |-> "account",  s |-> a,  n |-> 0, d |-> 1]
VAsset(a)    == [t |-> "asset",    s |-> a,  n |-> 0, d |-> 1]
VMon(as, n)  == [t |-> "monetary", s |-> as, n |-> n, d |-> 1]
VPort(n, d)  == [t |-> "portion",  s |-> "", n |-> n, d |-> d]
TxMeta(key, v)      == [k |-> "txmeta", key |-> key, val |-> v]
AcctMeta(a, key, v) == [k |-> "acctmeta", a |-> a, key |-> key, val |-> v]
Save(as, amt, a)    == [k |-> "save", asset |-> as, amt |-> amt, a |-> a]    \* amt = AllAmt: save [A *] from @a

\* ---------------------------------------------------------------- arithmetic
RECURSIVE Gcd(_, _)
Gcd(a, b) == IF b = 0 THEN a ELSE Gcd(b, a % b)
Lcm(a, b) == (a * b) \div Gcd(a, b)

RECURSIVE SumSeq(_)
SumSeq(s) == IF s = <<>> THEN 0 ELSE Head(s) + SumSeq(Tail(s))

\* TLC evaluates [i \in 1..n |-> e] lazily (e is re-evaluated at every application); Tup builds
\* the explicit tuple once.
RECURSIVE TupTo(_, _)
TupTo(f, n) == IF n = 0 THEN <<>> ELSE Append(TupTo(f, n - 1), f[n])
Tup(f) == TupTo(f, Len(f))

Reverse(s) == Tup([i \in 1..Len(s) |-> s[Len(s) + 1 - i]])

\* ---------------------------------------------------------------- allotments (C24)
\* A portion is P(num, den) with 0 <= num <= den, or PRem.
RECURSIVE CommonDen(_)
CommonDen(ps) == IF ps = <<>> THEN 1 ELSE Lcm(Head(ps).den, CommonDen(Tail(ps)))

NumOver(p, D)  == p.num * (D \div p.den)
KnownSum(ps, D) == SumSeq([i \in 1..Len(ps) |-> IF ps[i].num = -1 THEN 0 ELSE NumOver(ps[i], D)])
NbRem(ps)      == Cardinality({i \in 1..Len(ps) : ps[i].num = -1})

\* what the compiler accepts for constant portions (compiler/allotment.go) and NewAllotment accepts
ValidAllot(ps) ==
    LET D == CommonDen(ps) IN
    /\ Len(ps) >= 1
    /\ NbRem(ps) <= 1
    /\ \A i \in 1..Len(ps) : ps[i].num = -1 \/ (ps[i].den >= 1 /\ ps[i].num >= 0 /\ ps[i].num <= ps[i].den)
    /\ IF NbRem(ps) = 1 THEN KnownSum(ps, D) < D ELSE KnownSum(ps, D) = D

\* numerators over the common denominator, `remaining` resolved
ResolvedNums(ps) ==
    LET D == CommonDen(ps)
        known == KnownSum(ps, D)
    IN Tup([i \in 1..Len(ps) |-> IF ps[i].num = -1 THEN D - known ELSE NumOver(ps[i], D)])

\* D: common denominator, nums: numerators over D (precomputed once per portion vector)
FloorsWith(D, nums, amt) == Tup([i \in 1..Len(nums) |-> (amt * nums[i]) \div D])
Floors(ps, amt) == FloorsWith(CommonDen(ps), ResolvedNums(ps), amt)

\* machine.Allotment.Allocate: floor per part, then +1 to the parts in order while the total is short
AllocateFrom(fl, amt) ==
    LET left == amt - SumSeq(fl)
    IN Tup([i \in 1..Len(fl) |-> fl[i] + (IF i <= left THEN 1 ELSE 0)])
AllocateWith(D, nums, amt) == AllocateFrom(FloorsWith(D, nums, amt), amt)
Allocate(ps, amt) == AllocateWith(CommonDen(ps), ResolvedNums(ps), amt)

\* theorems of C24 on one (portions, amount); fl = floors, al = allocated parts
ThmAllocSum(al, amt)   == SumSeq(al) = amt
ThmAllocFloor(fl, al)  == \A i \in 1..Len(al) : al[i] \in {fl[i], fl[i] + 1}
ThmAllocEarliest(fl, al) ==      \* the +1's form a prefix: leftover units go to the earliest parts
    \A i \in 1..Len(al) : \A j \in 1..Len(al) : (i < j /\ al[j] = fl[j] + 1) => al[i] = fl[i] + 1
\* fl is the exact rational floor: fl[i] <= amt * p_i < fl[i] + 1
ThmFloorExact(D, nums, fl, amt) ==
    \A i \in 1..Len(fl) : fl[i] * D <= amt * nums[i] /\ amt * nums[i] < (fl[i] + 1) * D
\* scaling lemma used to reach amounts beyond TLC's integers:
\*   Allocate(ps, m*D + r) = m * nums + Allocate(ps, r)     (D = common denominator)
ThmAllocScale(D, nums, al, m, r) ==
    AllocateWith(D, nums, m * D + r) = Tup([i \in 1..Len(nums) |-> m * nums[i] + al[i]])
\* all of them
ThmAllocAll(ps, amt) ==
    LET D == CommonDen(ps)
        nums == ResolvedNums(ps)
        fl == FloorsWith(D, nums, amt)
        al == AllocateFrom(fl, amt)
    IN /\ ThmAllocSum(al, amt) /\ ThmAllocFloor(fl, al) /\ ThmAllocEarliest(fl, al)
       /\ ThmFloorExact(D, nums, fl, amt)
       /\ \A m \in 1..3 : ThmAllocScale(D, nums, al, m, amt)

\* enumeration of portion vectors: all vectors of k portions (0 allowed) with common denominator
\* den summing to 100 %, written in lowest terms, and their variants with one positive part
\* replaced by `remaining`
RECURSIVE Compositions(_, _)
Compositions(n, k) ==      \* sequences of k naturals summing to n
    IF k = 1 THEN {<<n>>}
    ELSE UNION {{<<x>> \o r : r \in Compositions(n - x, k - 1)} : x \in 0..n}
Reduced(n, d) == LET g == Gcd(n, d) IN P(n \div g, d \div g)
PVecsExplicit(den, k) == {[i \in 1..k |-> Reduced(cmp[i], den)] : cmp \in Compositions(den, k)}
PVecsRemaining(den, k) ==
    UNION {{[i \in 1..k |-> IF i = j THEN PRem ELSE Reduced(cmp[i], den)] : j \in {x \in 1..k : cmp[x] > 0}} :
              cmp \in Compositions(den, k)}
PVecs(maxDen, maxLen) ==
    UNION {PVecsExplicit(den, k) \cup PVecsRemaining(den, k) : den \in 1..maxDen, k \in 1..maxLen}

\* ---------------------------------------------------------------- fundings (internal/machine/funding.go)
\* funding = sequence of parts [a |-> account, n |-> amount]
Part(a, n) == [a |-> a, n |-> n]
Total(f) == SumSeq([i \in 1..Len(f) |-> f[i].n])

\* common loop of Funding.Take / Funding.TakeMax
RECURSIVE TakeFrom(_, _)
TakeFrom(f, amt) ==
    IF f = <<>> \/ amt <= 0 THEN [res |-> <<>>, rem |-> f, left |-> amt]
    ELSE LET p == Head(f) IN
         IF p.n > amt
         THEN [res |-> <<Part(p.a, amt)>>, rem |-> <<Part(p.a, p.n - amt)>> \o Tail(f), left |-> 0]
         ELSE LET r == TakeFrom(Tail(f), amt - p.n)
              IN [res |-> <<p>> \o r.res, rem |-> r.rem, left |-> r.left]

Take(f, amt) ==
    LET zero == IF amt = 0 /\ f # <<>> THEN <<Part(f[1].a, 0)>> ELSE <<>>
        t == TakeFrom(f, amt)
    IN IF t.left # 0 THEN [ok |-> FALSE, res |-> <<>>, rem |-> <<>>]
       ELSE [ok |-> TRUE, res |-> zero \o t.res, rem |-> t.rem]

Concat(f, g) ==
    IF f # <<>> /\ g # <<>> /\ f[Len(f)].a = g[1].a
    THEN SubSeq(f, 1, Len(f) - 1) \o <<Part(g[1].a, f[Len(f)].n + g[1].n)>> \o Tail(g)
    ELSE f \o g

RECURSIVE AssembleFrom(_, _)
AssembleFrom(acc, fs) == IF fs = <<>> THEN acc ELSE AssembleFrom(Concat(acc, Head(fs)), Tail(fs))
Assemble(fs) == AssembleFrom(<<>>, fs)

\* ---------------------------------------------------------------- tracked balances
\* bal : [account -> [asset -> Int]]   tr : set of <<account, asset>> the machine tracks
AddBal(bal, tr, a, as, n) ==
    IF a # World /\ <<a, as>> \in tr THEN [bal EXCEPT ![a][as] = @ + n] ELSE bal

RECURSIVE Repay(_, _, _, _)
Repay(bal, tr, as, f) ==
    IF f = <<>> THEN bal ELSE Repay(AddBal(bal, tr, f[1].a, as, f[1].n), tr, as, Tail(f))

\* ---------------------------------------------------------------- sources (compiler/source.go + vm)
IsFb(s) == s.k = "acct" /\ (s.a = World \/ s.od = Unb)
ODOf(s) == IF s.od = NoOD THEN 0 ELSE s.od

RECURSIVE EvalSrc(_, _, _, _)
RECURSIVE EvalSrcList(_, _, _, _)

\* returns [bal, f, fb]: balances after draining, the funding made available, the fallback account ("" if none)
EvalSrc(s, as, bal, tr) ==
    CASE s.k = "acct" ->
           IF IsFb(s) THEN [bal |-> bal, f |-> <<Part(s.a, 0)>>, fb |-> s.a]
           ELSE LET od == ODOf(s)
                    b == bal[s.a][as]
                    taken == IF b + od > 0 THEN b + od ELSE 0
                IN [bal |-> IF taken > 0 THEN [bal EXCEPT ![s.a][as] = 0 - od] ELSE bal,
                    f |-> <<Part(s.a, taken)>>, fb |-> ""]
      [] s.k = "max" ->
           LET r == EvalSrc(s.src, as, bal, tr)
               t == TakeFrom(r.f, s.cap)
               missing == Max(0, s.cap - Total(r.f))
               bal1 == Repay(r.bal, tr, as, t.rem)
           IN IF r.fb # ""
              THEN [bal |-> AddBal(bal1, tr, r.fb, as, 0 - missing),
                    f |-> Concat(t.res, <<Part(r.fb, missing)>>), fb |-> ""]
              ELSE [bal |-> bal1, f |-> t.res, fb |-> ""]
      [] s.k = "seq" ->
           LET r == EvalSrcList(s.srcs, as, bal, tr)
           IN [bal |-> r.bal, f |-> Assemble(r.fs), fb |-> r.fb]

EvalSrcList(ss, as, bal, tr) ==
    IF ss = <<>> THEN [bal |-> bal, fs |-> <<>>, fb |-> ""]
    ELSE LET r == EvalSrc(Head(ss), as, bal, tr)
             rest == EvalSrcList(Tail(ss), as, r.bal, tr)
         IN [bal |-> rest.bal, fs |-> <<r.f>> \o rest.fs,
             fb |-> IF Tail(ss) = <<>> THEN r.fb ELSE rest.fb]

\* compiler.TakeFromSource: take `amt` out of an evaluated source
TakeFromSource(r, amt, as, tr) ==
    IF r.fb = ""
    THEN LET t == Take(r.f, amt)
         IN IF ~t.ok THEN [ok |-> FALSE, bal |-> r.bal, f |-> <<>>]
            ELSE [ok |-> TRUE, bal |-> Repay(r.bal, tr, as, t.rem), f |-> t.res]
    ELSE LET t == TakeFrom(r.f, amt)
             missing == Max(0, amt - Total(r.f))
             bal1 == Repay(r.bal, tr, as, t.rem)
         IN [ok |-> TRUE, bal |-> AddBal(bal1, tr, r.fb, as, 0 - missing),
             f |-> Concat(t.res, <<Part(r.fb, missing)>>)]

RECURSIVE SrcAllotLoop(_, _, _, _, _, _, _)
SrcAllotLoop(src, parts, i, as, bal, tr, fs) ==
    IF i > Len(src.srcs) THEN [ok |-> TRUE, bal |-> bal, f |-> Assemble(fs)]
    ELSE LET r == EvalSrc(src.srcs[i], as, bal, tr)
             t == TakeFromSource(r, parts[i], as, tr)
         IN IF ~t.ok THEN [ok |-> FALSE, bal |-> bal, f |-> <<>>]
            ELSE SrcAllotLoop(src, parts, i + 1, as, t.bal, tr, fs \o <<t.f>>)

\* ---------------------------------------------------------------- destinations (compiler/destination.go + vm)
Postings(f, d, as) == Tup([i \in 1..Len(f) |-> [s |-> f[i].a, d |-> d, as |-> as, n |-> f[i].n]])

RECURSIVE EvalDst(_, _, _, _, _)
RECURSIVE DstSeqLoop(_, _, _, _, _, _, _)
RECURSIVE DstAllotLoop(_, _, _, _, _, _, _)

\* st = [ok, bal, posts];  returns [st, rem]  (rem = funding not delivered: kept).
\* st.ok becomes FALSE when the in-order destination cannot separate its kept total at the end
\* (OP_TAKE fails with "insufficient funds": happens when a later clause has drawn from funds an
\* earlier clause kept, because the kept total is accumulated per clause).
EvalDst(d, f, as, st, tr) ==
    CASE d.k = "acct" ->
           LET t == Take(f, Total(f))      \* never fails
           IN [st |-> [ok |-> st.ok, bal |-> AddBal(st.bal, tr, d.a, as, Total(t.res)),
                       posts |-> st.posts \o Postings(t.res, d.a, as)],
               rem |-> t.rem]
      [] d.k = "seq"   -> DstSeqLoop(d, 1, f, 0, as, st, tr)
      [] d.k = "allot" -> DstAllotLoop(d, Allocate(d.ports, Total(f)), 1, f, as, st, tr)

DstSeqLoop(d, i, F, acc, as, st, tr) ==
    IF i > Len(d.caps)
    THEN LET t == Take(Reverse(F), acc)           \* separates the kept total from the back
         IN IF ~t.ok THEN [st |-> [st EXCEPT !.ok = FALSE], rem |-> <<>>]
            ELSE LET keptf == Reverse(t.res)
                     remf == Reverse(t.rem)
                     rr == IF d.rem.k = "kept" THEN [st |-> st, rem |-> remf]
                           ELSE EvalDst(d.rem, remf, as, st, tr)
                 IN [st |-> rr.st, rem |-> Concat(rr.rem, keptf)]
    ELSE LET t == TakeFrom(F, d.caps[i])
             kd == d.dests[i]
             rr == IF kd.k = "kept" THEN [st |-> st, rem |-> t.res]
                   ELSE EvalDst(kd, t.res, as, st, tr)
         IN IF ~rr.st.ok THEN rr
            ELSE DstSeqLoop(d, i + 1, Concat(rr.rem, t.rem), acc + Total(rr.rem), as, rr.st, tr)

DstAllotLoop(d, parts, i, F, as, st, tr) ==
    IF i > Len(d.dests) THEN [st |-> st, rem |-> F]
    ELSE LET t == Take(F, parts[i])               \* never fails: parts sum to Total(F)
             kd == d.dests[i]
             rr == IF kd.k = "kept" THEN [st |-> st, rem |-> t.res]
                   ELSE EvalDst(kd, t.res, as, st, tr)
         IN IF ~rr.st.ok THEN rr
            ELSE DstAllotLoop(d, parts, i + 1, Concat(rr.rem, t.rem), as, rr.st, tr)

\* ---------------------------------------------------------------- static semantics (what the compiler rejects)
RECURSIVE HasFb(_)
HasFb(s) == CASE s.k = "acct" -> IsFb(s)
              [] s.k = "max"  -> FALSE
              [] s.k = "seq"  -> HasFb(s.srcs[Len(s.srcs)])
              [] OTHER        -> FALSE

RECURSIVE Emptied(_)       \* accounts the compiler considers "already empty" after this source
Emptied(s) == CASE s.k = "acct" -> {s.a}
                [] s.k = "max"  -> {}
                [] s.k = "seq"  -> UNION {Emptied(s.srcs[i]) : i \in 1..Len(s.srcs)}
                [] OTHER        -> {}

RECURSIVE WfSrc(_, _)      \* isAll: compiled for `send [A *]`
WfSrc(s, isAll) ==
    CASE s.k = "acct" -> /\ (s.a = World => s.od = NoOD)
                         /\ (isAll => ~IsFb(s))
      [] s.k = "max"  -> s.cap >= 0 /\ WfSrc(s.src, FALSE)
      [] s.k = "seq"  -> /\ Len(s.srcs) >= 1
                         /\ \A i \in 1..Len(s.srcs) : WfSrc(s.srcs[i], isAll)
                         /\ \A i \in 1..(Len(s.srcs) - 1) : ~HasFb(s.srcs[i])
                         /\ \A i \in 1..Len(s.srcs) : \A j \in 1..Len(s.srcs) :
                                i < j => Emptied(s.srcs[i]) \cap Emptied(s.srcs[j]) = {}
      [] OTHER -> FALSE

WfTopSrc(s, isAll) ==
    IF s.k = "allot"
    THEN /\ ~isAll
         /\ Len(s.ports) = Len(s.srcs)
         /\ ValidAllot(s.ports)
         /\ \A i \in 1..Len(s.srcs) : WfSrc(s.srcs[i], FALSE)
    ELSE WfSrc(s, isAll)

RECURSIVE WfDst(_)
WfKD(kd) == kd.k = "kept" \/ WfDst(kd)
WfDst(d) ==
    CASE d.k = "acct"  -> TRUE
      [] d.k = "seq"   -> /\ Len(d.caps) >= 1 /\ Len(d.caps) = Len(d.dests)
                          /\ \A i \in 1..Len(d.caps) : d.caps[i] >= 0 /\ WfKD(d.dests[i])
                          /\ WfKD(d.rem)
      [] d.k = "allot" -> /\ Len(d.ports) = Len(d.dests) /\ ValidAllot(d.ports)
                          /\ \A i \in 1..Len(d.dests) : WfKD(d.dests[i])
      [] OTHER -> FALSE

WfStmt(s) == IF s.k = "send" THEN WfTopSrc(s.src, s.amt = AllAmt) /\ WfDst(s.dst) ELSE TRUE
WfProg(prog) == Len(prog) >= 1 /\ \A i \in 1..Len(prog) : WfStmt(prog[i])

\* ---------------------------------------------------------------- tracked pairs, bounded sources
RECURSIVE BoundedLeaves(_)          \* set of <<account, bound>> of a source
BoundedLeaves(s) ==
    CASE s.k = "acct" -> IF IsFb(s) THEN {} ELSE {<<s.a, ODOf(s)>>}
      [] s.k = "max"  -> BoundedLeaves(s.src)
      [] OTHER        -> UNION {BoundedLeaves(s.srcs[i]) : i \in 1..Len(s.srcs)}

RECURSIVE UnbLeaves(_)              \* accounts declared unbounded in a source
UnbLeaves(s) ==
    CASE s.k = "acct" -> IF IsFb(s) /\ s.a # World THEN {s.a} ELSE {}
      [] s.k = "max"  -> UnbLeaves(s.src)
      [] OTHER        -> UNION {UnbLeaves(s.srcs[i]) : i \in 1..Len(s.srcs)}

SendIdx(prog) == {i \in 1..Len(prog) : prog[i].k = "send"}

Tracked(prog) ==
    UNION {{<<x[1], prog[i].asset>> : x \in BoundedLeaves(prog[i].src)} : i \in SendIdx(prog)}
    \cup {<<prog[i].ba, prog[i].asset>> : i \in {j \in SendIdx(prog) : prog[j].amt = BalAmt}}

\* bounded sources of the whole program with the largest bound they are given, excluding
\* (account, asset) pairs that are also declared unbounded somewhere: [a, as, bound]
BoundedPairs(prog) ==
    LET occ == UNION {{[a |-> x[1], as |-> prog[i].asset, b |-> x[2]] : x \in BoundedLeaves(prog[i].src)} : i \in SendIdx(prog)}
        unb == UNION {{<<a, prog[i].asset>> : a \in UnbLeaves(prog[i].src)} : i \in SendIdx(prog)}
        pairs == {<<o.a, o.as>> : o \in occ} \ unb
    IN {[a |-> p[1], as |-> p[2], bound |-> CHOOSE b \in {o.b : o \in {o2 \in occ : o2.a = p[1] /\ o2.as = p[2]}} :
                \A o \in occ : (o.a = p[1] /\ o.as = p[2]) => o.b <= b] : p \in pairs}

\* ---------------------------------------------------------------- metadata rendering (machine/json.go NewStringFromValue)
IntStr(n) == IF n < 0 THEN "-" \o ToString(0 - n) ELSE ToString(n)
ValStr(v) ==
    CASE v.t = "monetary" -> v.s \o " " \o IntStr(v.n)
      [] v.t = "number"   -> IntStr(v.n)
      [] v.t = "portion"  -> LET g == Gcd(v.n, v.d) IN IntStr(v.n \div g) \o "/" \o IntStr(v.d \div g)
      [] OTHER            -> v.s

SetKV(m, key, val) == \* association list, last write wins, order of first insertion irrelevant (map)
    SelectSeq(m, LAMBDA e : e.k # key) \o <<[k |-> key, v |-> val]>>
SetAKV(m, a, key, val) ==
    SelectSeq(m, LAMBDA e : ~(e.a = a /\ e.k = key)) \o <<[a |-> a, k |-> key, v |-> val]>>

\* ---------------------------------------------------------------- statements and programs
ZeroBal(bal0) == [a \in DOMAIN bal0 |-> [as \in DOMAIN bal0[a] |-> 0]]
Err(e, bal0, sneg) == [ok |-> FALSE, err |-> e, posts |-> <<>>, fin |-> bal0, txm |-> <<>>, am |-> <<>>, sends |-> <<>>,
                       sv |-> ZeroBal(bal0), sneg |-> sneg]

\* one send; st = [bal, posts, txm, am, sends]; bal0 = balances before the script (balance() variables)
RunSend(s, st, tr, bal0) ==
    LET as == s.asset
        amt == IF s.amt = BalAmt THEN bal0[s.ba][as] ELSE s.amt
        taken ==
          IF s.amt = AllAmt
          THEN LET r == EvalSrc(s.src, as, st.bal, tr) IN [ok |-> TRUE, bal |-> r.bal, f |-> r.f]
          ELSE IF s.src.k = "allot"
               THEN SrcAllotLoop(s.src, Allocate(s.src.ports, amt), 1, as, st.bal, tr, <<>>)
               ELSE TakeFromSource(EvalSrc(s.src, as, st.bal, tr), amt, as, tr)
    IN IF ~taken.ok THEN [ok |-> FALSE, err |-> "insufficient", st |-> st]
       ELSE LET d == EvalDst(s.dst, taken.f, as, [ok |-> TRUE, bal |-> taken.bal, posts |-> st.posts], tr)
                balF == Repay(d.st.bal, tr, as, d.rem)
                summary == [asset |-> as, amt |-> amt, all |-> s.amt = AllAmt,
                            total |-> Total(taken.f), kept |-> Total(d.rem),
                            from |-> Len(st.posts) + 1, to |-> Len(d.st.posts),
                            balBefore |-> st.bal, balAfter |-> balF]
            IN IF ~d.st.ok THEN [ok |-> FALSE, err |-> "insufficient", st |-> st]
               ELSE [ok |-> TRUE, err |-> "",
                     st |-> [st EXCEPT !.bal = balF, !.posts = d.st.posts, !.sends = @ \o <<summary>>]]

\* `save`: hides funds from the tracked balance of a (tracked) account so that later sources cannot
\* take them; no posting. OP_SAVE: `save [A *]` sets a positive tracked balance to 0, `save [A n]`
\* subtracts n (the tracked balance may become negative: st.sneg records that, "class S").
\* st.sv accumulates what has been hidden.
RunSave(s, st, tr) ==
    IF <<s.a, s.asset>> \notin tr THEN st
    ELSE LET b == st.bal[s.a][s.asset]
             d == IF s.amt = AllAmt THEN (IF b > 0 THEN b ELSE 0) ELSE s.amt
         IN [st EXCEPT !.bal[s.a][s.asset] = b - d, !.sv[s.a][s.asset] = @ + d,
                       !.sneg = @ \/ (s.amt # AllAmt /\ b - d < 0)]

RECURSIVE RunStmts(_, _, _, _, _)
RunStmts(prog, i, st, tr, bal0) ==
    IF i > Len(prog)
    THEN [ok |-> TRUE, err |-> "", posts |-> st.posts, fin |-> st.bal, txm |-> st.txm, am |-> st.am, sends |-> st.sends,
          sv |-> st.sv, sneg |-> st.sneg]
    ELSE LET s == prog[i] IN
         CASE s.k = "send" ->
                LET r == RunSend(s, st, tr, bal0)
                IN IF ~r.ok THEN Err(r.err, bal0, st.sneg) ELSE RunStmts(prog, i + 1, r.st, tr, bal0)
           [] s.k = "save" -> RunStmts(prog, i + 1, RunSave(s, st, tr), tr, bal0)
           [] s.k = "txmeta" ->
                RunStmts(prog, i + 1, [st EXCEPT !.txm = SetKV(@, s.key, ValStr(s.val))], tr, bal0)
           [] s.k = "acctmeta" ->
                RunStmts(prog, i + 1, [st EXCEPT !.am = SetAKV(@, s.a, s.key, ValStr(s.val))], tr, bal0)

\* Run(program, balances): the outcome the machine runtime must produce
Run(prog, bal0) ==
    IF ~WfProg(prog) THEN Err("compile", bal0, FALSE)
    ELSE IF \E i \in SendIdx(prog) : prog[i].amt = BalAmt /\ bal0[prog[i].ba][prog[i].asset] < 0
    THEN Err("negbalance", bal0, FALSE)
    ELSE RunStmts(prog, 1, [bal |-> bal0, posts |-> <<>>, txm |-> <<>>, am |-> <<>>, sends |-> <<>>,
                            sv |-> ZeroBal(bal0), sneg |-> FALSE],
                  Tracked(prog), bal0)

\* ---------------------------------------------------------------- amount-level ("ideal") semantics
\* Demand-driven evaluation in the style of the interpreter runtime: no draining/repaying, no
\* zero parts.  IdealSrc returns [got, bal, q] (q: contributions in order, non-zero only).
NZ(a, n) == IF n = 0 THEN <<>> ELSE <<Part(a, n)>>

RECURSIVE IdealSrc(_, _, _, _)
RECURSIVE IdealSrcList(_, _, _, _)
IdealSrc(s, want, as, bal) ==      \* take up to `want`
    CASE s.k = "acct" ->
           IF IsFb(s) THEN [got |-> want, bal |-> IF s.a = World THEN bal ELSE [bal EXCEPT ![s.a][as] = @ - want], q |-> NZ(s.a, want)]
           ELSE LET g == Min(Max(0, bal[s.a][as] + ODOf(s)), want)
                IN [got |-> g, bal |-> [bal EXCEPT ![s.a][as] = @ - g], q |-> NZ(s.a, g)]
      [] s.k = "max" -> IdealSrc(s.src, Min(want, s.cap), as, bal)
      [] s.k = "seq" -> IdealSrcList(s.srcs, want, as, bal)
IdealSrcList(ss, want, as, bal) ==
    IF ss = <<>> THEN [got |-> 0, bal |-> bal, q |-> <<>>]
    ELSE LET r == IdealSrc(Head(ss), want, as, bal)
             rest == IdealSrcList(Tail(ss), want - r.got, as, r.bal)
         IN [got |-> r.got + rest.got, bal |-> rest.bal, q |-> r.q \o rest.q]

RECURSIVE IdealAll(_, _, _)       \* take everything available (send [A *])
RECURSIVE IdealAllList(_, _, _)
IdealAll(s, as, bal) ==
    CASE s.k = "acct" -> LET g == Max(0, bal[s.a][as] + ODOf(s))
                         IN [got |-> g, bal |-> [bal EXCEPT ![s.a][as] = @ - g], q |-> NZ(s.a, g)]
      [] s.k = "max" -> IdealSrc(s.src, s.cap, as, bal)
      [] s.k = "seq" -> IdealAllList(s.srcs, as, bal)
IdealAllList(ss, as, bal) ==
    IF ss = <<>> THEN [got |-> 0, bal |-> bal, q |-> <<>>]
    ELSE LET r == IdealAll(Head(ss), as, bal)
             rest == IdealAllList(Tail(ss), as, r.bal)
         IN [got |-> r.got + rest.got, bal |-> rest.bal, q |-> r.q \o rest.q]

RECURSIVE IdealSrcAllot(_, _, _, _, _, _)
IdealSrcAllot(src, parts, i, as, bal, q) ==
    IF i > Len(src.srcs) THEN [ok |-> TRUE, bal |-> bal, q |-> q]
    ELSE LET r == IdealSrc(src.srcs[i], parts[i], as, bal)
         IN IF r.got # parts[i] THEN [ok |-> FALSE, bal |-> bal, q |-> <<>>]
            ELSE IdealSrcAllot(src, parts, i + 1, as, r.bal, q \o r.q)

\* receivers in order: sequence of [d, n] with d = "<kept>" for kept
Kept == "<kept>"
RECURSIVE IdealDst(_, _)
RECURSIVE IdealDstSeq(_, _, _)
RECURSIVE IdealDstAllot(_, _, _)
IdealKD(kd, n) == IF kd.k = "kept" THEN <<[d |-> Kept, n |-> n]>> ELSE IdealDst(kd, n)
IdealDst(d, n) ==
    CASE d.k = "acct"  -> <<[d |-> d.a, n |-> n]>>
      [] d.k = "seq"   -> IdealDstSeq(d, 1, n)
      [] d.k = "allot" -> IdealDstAllot(d, Allocate(d.ports, n), 1)
IdealDstSeq(d, i, left) ==
    IF i > Len(d.caps) THEN IdealKD(d.rem, left)
    ELSE LET g == Min(d.caps[i], left) IN IdealKD(d.dests[i], g) \o IdealDstSeq(d, i + 1, left - g)
IdealDstAllot(d, parts, i) ==
    IF i > Len(d.dests) THEN <<>> ELSE IdealKD(d.dests[i], parts[i]) \o IdealDstAllot(d, parts, i + 1)

\* match the sender queue q against the receivers (interpreter: fundsQueue.Pull per receiver)
RECURSIVE PullQ(_, _)      \* [out, q]
PullQ(q, n) ==
    IF n = 0 \/ q = <<>> THEN [out |-> <<>>, q |-> q]
    ELSE LET q1 == IF Len(q) >= 2 /\ q[1].a = q[2].a THEN <<Part(q[1].a, q[1].n + q[2].n)>> \o SubSeq(q, 3, Len(q)) ELSE q
         IN IF q1 # q THEN PullQ(q1, n)
            ELSE IF q[1].n > n THEN [out |-> <<Part(q[1].a, n)>>, q |-> <<Part(q[1].a, q[1].n - n)>> \o Tail(q)]
            ELSE LET r == PullQ(Tail(q), n - q[1].n) IN [out |-> <<q[1]>> \o r.out, q |-> r.q]

RECURSIVE IdealMatch(_, _, _, _)   \* [posts, keptParts]
IdealMatch(q, rcv, as, acc) ==
    IF rcv = <<>> THEN acc
    ELSE LET r == PullQ(q, Head(rcv).n)
         IN IdealMatch(r.q, Tail(rcv), as,
              IF Head(rcv).d = Kept THEN [acc EXCEPT !.kept = @ \o r.out]
              ELSE [acc EXCEPT !.posts = @ \o Postings(r.out, Head(rcv).d, as)])

\* ideal run of a whole program: [ok, posts]  (non-zero postings only); balances: every pair is tracked
RECURSIVE IdealRepay(_, _, _)
IdealRepay(bal, as, f) == IF f = <<>> THEN bal ELSE
    IdealRepay(IF f[1].a = World THEN bal ELSE [bal EXCEPT ![f[1].a][as] = @ + f[1].n], as, Tail(f))
RECURSIVE IdealCredit(_, _, _)
IdealCredit(bal, as, ps) == IF ps = <<>> THEN bal ELSE
    IdealCredit(IF ps[1].d = World THEN bal ELSE [bal EXCEPT ![ps[1].d][as] = @ + ps[1].n], as, Tail(ps))

\* interpreter-style `save`: the balance is lowered but never below 0 (and a balance that would end
\* below 0 - even one that was already negative - is set to 0)
IdealSave(s, bal) ==
    IF s.a = World THEN bal
    ELSE LET b == bal[s.a][s.asset] IN
         IF s.amt = AllAmt THEN (IF b > 0 THEN [bal EXCEPT ![s.a][s.asset] = 0] ELSE bal)
         ELSE [bal EXCEPT ![s.a][s.asset] = Max(0, b - s.amt)]

RECURSIVE IdealRun(_, _, _, _, _)
IdealRun(prog, i, bal, posts, bal0) ==
    IF i > Len(prog) THEN [ok |-> TRUE, posts |-> posts, fin |-> bal]
    ELSE LET s == prog[i] IN
         IF s.k = "save" THEN IdealRun(prog, i + 1, IdealSave(s, bal), posts, bal0)
         ELSE IF s.k # "send" THEN IdealRun(prog, i + 1, bal, posts, bal0)
         ELSE LET as == s.asset
                  amt == IF s.amt = BalAmt THEN bal0[s.ba][as] ELSE s.amt
                  t == IF s.amt = AllAmt
                       THEN LET r == IdealAll(s.src, as, bal) IN [ok |-> TRUE, bal |-> r.bal, q |-> r.q, got |-> r.got]
                       ELSE IF s.src.k = "allot"
                            THEN LET r == IdealSrcAllot(s.src, Allocate(s.src.ports, amt), 1, as, bal, <<>>)
                                 IN [ok |-> r.ok, bal |-> r.bal, q |-> r.q, got |-> amt]
                            ELSE LET r == IdealSrc(s.src, amt, as, bal)
                                 IN [ok |-> r.got = amt, bal |-> r.bal, q |-> r.q, got |-> amt]
              IN IF ~t.ok THEN [ok |-> FALSE, posts |-> <<>>, fin |-> bal0]
                 ELSE LET m == IdealMatch(t.q, IdealDst(s.dst, t.got), as, [posts |-> <<>>, kept |-> <<>>])
                          bal1 == IdealCredit(IdealRepay(t.bal, as, m.kept), as, m.posts)
                      IN IdealRun(prog, i + 1, bal1, posts \o m.posts, bal0)

Ideal(prog, bal0) ==
    IF ~WfProg(prog) THEN [ok |-> FALSE, posts |-> <<>>, fin |-> bal0]
    ELSE IF \E i \in SendIdx(prog) : prog[i].amt = BalAmt /\ bal0[prog[i].ba][prog[i].asset] < 0
    THEN [ok |-> FALSE, posts |-> <<>>, fin |-> bal0]
    ELSE IdealRun(prog, 1, bal0, <<>>, bal0)

NonZero(posts) == SelectSeq(posts, LAMBDA p : p.n # 0)

\* adjacent postings with the same source, destination and asset merged into one
RECURSIVE Coalesce(_)
Coalesce(ps) ==
    IF Len(ps) <= 1 THEN ps
    ELSE IF ps[1].s = ps[2].s /\ ps[1].d = ps[2].d /\ ps[1].as = ps[2].as
         THEN Coalesce(<<[ps[1] EXCEPT !.n = @ + ps[2].n]>> \o SubSeq(ps, 3, Len(ps)))
         ELSE <<ps[1]>> \o Coalesce(Tail(ps))

\* Class K ("kept, then another clause"): a clause that keeps something (`kept`, or a nested
\* destination that keeps) is followed, in the same block, by a later clause that draws from the
\* funding again (in-order block: any later `max` clause, or a receiving `remaining`; allotment
\* block: a later receiving clause).  This is the only construct on which the funding-level
\* (machine) and the amount-level (interpreter-style) semantics differ: the machine puts kept funds
\* back at the FRONT of the funding, so the later clause draws from them first (postings are
\* attributed to other source accounts), and the in-order block may then fail to separate its
\* accumulated kept total ("insufficient funds" although the sources were sufficient).
RECURSIVE KeepsSomething(_)
KeepsSomething(kd) ==
    CASE kd.k = "kept"  -> TRUE
      [] kd.k = "acct"  -> FALSE
      [] kd.k = "seq"   -> KeepsSomething(kd.rem) \/ \E i \in 1..Len(kd.dests) : KeepsSomething(kd.dests[i])
      [] kd.k = "allot" -> \E i \in 1..Len(kd.dests) : KeepsSomething(kd.dests[i])
RECURSIVE Receives(_)
Receives(kd) ==
    CASE kd.k = "kept"  -> FALSE
      [] kd.k = "acct"  -> TRUE
      [] kd.k = "seq"   -> Receives(kd.rem) \/ \E i \in 1..Len(kd.dests) : Receives(kd.dests[i])
      [] kd.k = "allot" -> \E i \in 1..Len(kd.dests) : Receives(kd.dests[i])
RECURSIVE KeptBeforeReceiver(_)
KeptBeforeReceiver(d) ==
    CASE d.k = "seq" ->
           LET n == Len(d.dests) IN
           \/ \E i \in 1..n : \E j \in 1..n : i < j /\ KeepsSomething(d.dests[i])
           \/ \E i \in 1..n : KeepsSomething(d.dests[i]) /\ Receives(d.rem)
           \/ \E i \in 1..n : KeptBeforeReceiver(d.dests[i])
           \/ KeptBeforeReceiver(d.rem)
      [] d.k = "allot" ->
           \/ \E i \in 1..Len(d.dests) : \E j \in 1..Len(d.dests) : i < j /\ KeepsSomething(d.dests[i]) /\ Receives(d.dests[j])
           \/ \E i \in 1..Len(d.dests) : KeptBeforeReceiver(d.dests[i])
      [] OTHER -> FALSE
ProgKeptBeforeReceiver(prog) == \E i \in SendIdx(prog) : KeptBeforeReceiver(prog[i].dst)

\* ---------------------------------------------------------------- theorems of C22 / C23 on one case
RangeSum(posts, from, to) == SumSeq([i \in 1..(to - from + 1) |-> posts[from + i - 1].n])
Inflow(posts, a, as)  == SumSeq([i \in 1..Len(posts) |-> IF posts[i].d = a /\ posts[i].as = as THEN posts[i].n ELSE 0])
Outflow(posts, a, as) == SumSeq([i \in 1..Len(posts) |-> IF posts[i].s = a /\ posts[i].as = as THEN posts[i].n ELSE 0])

ThmNonNeg(r) == r.ok => \A i \in 1..Len(r.posts) : r.posts[i].n >= 0
ThmAsset(r)  == r.ok => \A k \in 1..Len(r.sends) : \A i \in r.sends[k].from..r.sends[k].to :
                            r.posts[i].as = r.sends[k].asset
\* postings of a send sum to the sent amount minus what its destination keeps; `kept` has no posting
ThmSum(r)    == r.ok => \A k \in 1..Len(r.sends) :
                   LET sd == r.sends[k] IN
                   /\ RangeSum(r.posts, sd.from, sd.to) + sd.kept = sd.total
                   /\ (~sd.all => sd.total = sd.amt)
                   /\ sd.kept >= 0
ThmNoKeptPosting(r) == r.ok => \A i \in 1..Len(r.posts) : r.posts[i].d # Kept /\ r.posts[i].s # Kept
\* tracked balances = initial balances + postings (- what `save` statements have hidden)
ThmBalances(prog, bal0, r) == r.ok => \A p \in Tracked(prog) :
                   r.fin[p[1]][p[2]] = bal0[p[1]][p[2]] + Inflow(r.posts, p[1], p[2]) - Outflow(r.posts, p[1], p[2])
                                       - r.sv[p[1]][p[2]]
ThmUntracked(prog, bal0, r) == r.ok => \A a \in DOMAIN bal0 : \A as \in DOMAIN bal0[a] :
                   <<a, as>> \notin Tracked(prog) => r.fin[a][as] = bal0[a][as]
\* C23: bounded sources are never overdrawn (whole script, and send by send)
\* (on the account's real balance initial + postings; the tracked one is lower by what `save` hid)
ThmBounded(prog, bal0, r) == r.ok => \A b \in BoundedPairs(prog) :
                   bal0[b.a][b.as] + Inflow(r.posts, b.a, b.as) - Outflow(r.posts, b.a, b.as) >= Min(bal0[b.a][b.as], 0 - b.bound)
ThmBoundedPerSend(prog, r) == r.ok =>
    LET idx == SendIdx(prog)
        nth(k) == CHOOSE i \in idx : Cardinality({j \in idx : j < i}) = k - 1
    IN \A k \in 1..Len(r.sends) :
         LET s == prog[nth(k)]
             sd == r.sends[k]
         IN \A x \in BoundedLeaves(s.src) :
              x[1] \notin UnbLeaves(s.src) =>
                 LET bmax == CHOOSE b \in {y[2] : y \in {z \in BoundedLeaves(s.src) : z[1] = x[1]}} :
                                \A y \in BoundedLeaves(s.src) : y[1] = x[1] => y[2] <= b
                 IN sd.balAfter[x[1]][s.asset] >= Min(sd.balBefore[x[1]][s.asset], 0 - bmax)
\* the funding-level semantics refines the amount-level one:
\*  same success, same amounts per destination, available funds for `*`; identical non-zero
\*  postings unless a kept clause precedes a receiving clause
\* Class S: a `save [A n]` brought a tracked balance below 0 (r.sneg): the machine keeps the negative
\* tracked balance, the amount-level semantics clamps at 0, so later sources with an overdraft
\* allowance see different funds.
Diverges(prog, r) == ProgKeptBeforeReceiver(prog) \/ r.sneg
ThmIdealOk(prog, r, id) == (r.err # "compile" /\ r.err # "negbalance") =>
    /\ (~Diverges(prog, r) => (r.ok <=> id.ok))
    \* in class K the machine may fail where the amount-level semantics succeeds, not the converse
    \* (single send; with several sends the different attribution changes what later sends find)
    /\ ((Cardinality(SendIdx(prog)) = 1 /\ r.ok) => id.ok)
\* (class K changes which source account pays, which can change what later sends find: single send only)
ThmIdealDest(prog, r, id) == (r.ok /\ ~r.sneg /\ (~ProgKeptBeforeReceiver(prog) \/ Cardinality(SendIdx(prog)) = 1)) =>
    LET dests == {r.posts[i].d : i \in 1..Len(r.posts)} \cup {id.posts[i].d : i \in 1..Len(id.posts)}
        assets == {r.posts[i].as : i \in 1..Len(r.posts)}
    IN \A d \in dests : \A as \in assets : Inflow(r.posts, d, as) = Inflow(id.posts, d, as)
\* Outside class K the non-zero postings are those of the amount-level semantics, up to granularity:
\* the machine merges parts of the same account only when they are adjacent in a funding, so a
\* zero-amount part of another account between them (e.g. [a 2, world 0, a 1]) leaves two postings
\* a->d 2, a->d 1 where the amount-level semantics (no zero parts) has the single posting a->d 3
\* ("class Z", flagged per case by ZeroPartSplit).
ThmIdealPostings(prog, r, id) == (r.ok /\ ~Diverges(prog, r)) =>
    Coalesce(NonZero(r.posts)) = Coalesce(id.posts)
ZeroPartSplit(prog, r, id) == r.ok /\ id.ok /\ ~Diverges(prog, r) /\ NonZero(r.posts) # id.posts
ThmIdealBalances(prog, r, id) == (r.ok /\ ~Diverges(prog, r)) =>
    \A p \in Tracked(prog) : r.fin[p[1]][p[2]] = id.fin[p[1]][p[2]]

AllTheorems(prog, bal0, r, id) ==
    /\ ThmNonNeg(r) /\ ThmAsset(r) /\ ThmSum(r) /\ ThmNoKeptPosting(r)
    /\ ThmBalances(prog, bal0, r) /\ ThmUntracked(prog, bal0, r)
    /\ ThmBounded(prog, bal0, r) /\ ThmBoundedPerSend(prog, r)
    /\ ThmIdealOk(prog, r, id) /\ ThmIdealDest(prog, r, id)
    /\ ThmIdealPostings(prog, r, id) /\ ThmIdealBalances(prog, r, id)

\* ---------------------------------------------------------------- what a CASE line carries
\* expected outcome without the per-send bookkeeping
Outcome(prog, r, id) ==
    [ok |-> r.ok, err |-> r.err, posts |-> r.posts, fin |-> r.fin, txm |-> r.txm, am |-> r.am,
     tracked |-> Tracked(prog), bounded |-> BoundedPairs(prog),
     iok |-> id.ok, iposts |-> id.posts, kbr |-> ProgKeptBeforeReceiver(prog),
     zsplit |-> ZeroPartSplit(prog, r, id), sneg |-> r.sneg]

=============================================================================
