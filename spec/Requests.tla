------------------------------ MODULE Requests ------------------------------
(***************************************************************************)
(* Finite request-shape model of the v1 and v2 HTTP API (property C38).     *)
(*                                                                         *)
(* Routes describes, for every write and read route, ONE valid request:     *)
(* the positions of its JSON body (path, JSON type, meaning), its query     *)
(* parameters and its path parameters.  The description is produced by the  *)
(* harness from the very templates it instantiates (vh-api requests         *)
(* -describe) and substituted for the constant by checks/api_common.py, so  *)
(* the model and the harness cannot drift apart.                            *)
(*                                                                         *)
(* The model is the product                                                 *)
(*   position x type-confusion kind   (a value of another JSON type, null,  *)
(*                                     a huge or a negative number, ...)     *)
(*   position x boundary value        (per meaning: addresses, assets,      *)
(*                                     dates, integers, names)              *)
(*   paginated route x invalid cursor, filter position x invalid filter,    *)
(*   body route x malformed raw body.                                       *)
(* TLC only enumerates it -- there is no behaviour here -- and prints every *)
(* tuple with the answer class the specification prescribes:                *)
(*   "4xx"     the input is definitely malformed: a client error, no effect *)
(*   "not5xx"  the input may be acceptable to a lenient decoder (null on an *)
(*             optional member, a string where any string is allowed...):   *)
(*             a success or a client error, but never a server error        *)
(* In both classes: never a 5xx, never an empty or non-JSON error body, and *)
(* a 4xx answer (or any answer to a read) leaves every table unchanged.     *)
(***************************************************************************)
EXTENDS Integers, Sequences, FiniteSets, TLC, Json

CONSTANTS Routes,     \* sequence of route descriptions
          Emit

VARIABLE c

Range(s) == {s[i] : i \in DOMAIN s}

(***************************************************************************)
(* Type confusion                                                           *)
(***************************************************************************)
CoreKinds == {"number", "string", "bool", "null", "array", "object", "huge", "negative"}
MoreKinds == {"absent", "float", "exp", "emptystr", "emptyarr", "emptyobj", "nested"}
Kinds == CoreKinds \cup MoreKinds

TypeOf(k) == CASE k \in {"number", "huge", "negative", "float", "exp"} -> "number"
               [] k \in {"string", "emptystr"} -> "string"
               [] k = "bool" -> "bool"
               [] k \in {"array", "emptyarr", "nested"} -> "array"
               [] k \in {"object", "emptyobj"} -> "object"
               [] OTHER -> "none"            \* null, absent: a decoder may treat them as "not given"

\* a value of another JSON type is malformed; so are a negative, fractional or exponent-form amount or id
BodyExpect(f, k) ==
  IF TypeOf(k) = "none" THEN "not5xx"
  ELSE IF TypeOf(k) # f.type THEN "4xx"
  ELSE IF f.class \in {"amount", "id"} /\ k \in {"negative", "float", "exp"} THEN "4xx"
  ELSE IF f.class = "id" /\ k = "huge" THEN "4xx"
  ELSE "not5xx"

(***************************************************************************)
(* Boundary values, by meaning of the position (ids are resolved to actual  *)
(* strings by the harness: harness/drive/requests.go, `boundary`)           *)
(***************************************************************************)
Filters == {"filter:not_json", "filter:array_root", "filter:string_root", "filter:number_root", "filter:unknown_op",
            "filter:unknown_field", "filter:balance_string", "filter:balance_noasset", "filter:balance_float",
            "filter:balance_badasset", "filter:match_number_address", "filter:match_object", "filter:match_array",
            "filter:match_null", "filter:lt_string_id", "filter:lt_address", "filter:and_empty", "filter:and_object",
            "filter:not_array", "filter:two_ops", "filter:two_keys", "filter:metadata_nokey", "filter:metadata_badkey",
            "filter:metadata_number", "filter:exists_number", "filter:in_string", "filter:in_empty", "filter:like_number",
            "filter:date_garbage", "filter:date_number", "filter:reverted_string", "filter:address_bad",
            "filter:first_usage_garbage", "filter:deep", "filter:huge_number", "filter:id_huge", "filter:id_neg",
            "filter:empty", "filter:match_empty"}
Cursors == {"cursor:garbage", "cursor:b64_garbage", "cursor:b64_array", "cursor:b64_null", "cursor:b64_empty_obj",
            "cursor:b64_wrongtypes", "cursor:b64_neg_pagesize", "cursor:b64_huge_pagesize", "cursor:b64_huge_offset",
            "cursor:b64_unknown_column", "cursor:b64_sql_column", "cursor:b64_bad_order", "cursor:b64_bad_pagination_id",
            "cursor:b64_bad_filter", "cursor:b64_bad_pit", "cursor:b64_bad_expand", "cursor:std_b64"}
RawBodies == {"raw:empty", "raw:not_json", "raw:truncated", "raw:array", "raw:string", "raw:number", "raw:null",
              "raw:utf8_bad", "raw:deep", "raw:trailing", "raw:dup_keys"}

Boundary(class) ==
  CASE class = "addr"   -> {"addr:empty", "addr:space", "addr:colon_lead", "addr:colon_trail", "addr:double_colon", "addr:unicode",
                            "addr:long", "addr:slash", "addr:percent", "addr:star", "addr:dollar", "addr:quote", "addr:nul",
                            "addr:dash", "addr:newline"}
    [] class = "asset"  -> {"asset:empty", "asset:lower", "asset:slash_only", "asset:prec_huge", "asset:long", "asset:space",
                            "asset:unicode", "asset:quote", "asset:neg_prec"}
    [] class = "date"   -> {"date:garbage", "date:month13", "date:no_tz", "date:year_huge", "date:neg", "date:number",
                            "date:empty_tz", "date:space"}
    [] class = "int"    -> {"int:abc", "int:neg", "int:zero", "int:huge", "int:float", "int:hex", "int:space", "int:max64", "int:maxi64"}
    [] class = "bool"   -> {"bool:garbage", "bool:num"}
    [] class = "enum"   -> {"enum:garbage", "enum:sql", "enum:long"}
    [] class = "name"   -> {"name:space", "name:long", "name:unicode", "name:dot", "name:underscore_lead", "name:upper",
                            "name:percent", "name:quote", "name:semicolon"}
    [] class = "text"   -> {"enum:long", "name:unicode", "name:quote", "addr:nul"}
    [] class = "filter" -> Filters
    [] OTHER -> {}

\* boundary values the specification declares invalid for their position (the others are merely unusual)
Invalid == {"addr:empty", "addr:space", "addr:colon_lead", "addr:colon_trail", "addr:double_colon", "addr:unicode", "addr:slash",
            "addr:percent", "addr:star", "addr:dollar", "addr:quote", "addr:nul", "addr:newline",
            "asset:empty", "asset:lower", "asset:slash_only", "asset:space", "asset:unicode", "asset:quote", "asset:neg_prec",
            "date:garbage", "date:month13", "date:year_huge", "date:number", "date:empty_tz",
            "int:abc", "int:neg", "int:huge", "int:float", "int:hex", "int:space",
            "filter:not_json", "filter:array_root", "filter:string_root", "filter:number_root", "filter:unknown_op",
            "filter:unknown_field", "filter:balance_string", "filter:balance_noasset", "filter:and_object", "filter:not_array",
            "filter:metadata_badkey", "filter:date_garbage", "filter:huge_number",
            "raw:not_json", "raw:truncated", "raw:utf8_bad", "raw:deep", "raw:trailing"} \cup Cursors

BoundaryExpect(part, class, b) ==
  IF b \in Cursors \/ b \in Filters \/ b \in RawBodies THEN (IF b \in Invalid THEN "4xx" ELSE "not5xx")
  ELSE IF class \in {"addr", "asset", "date", "int"} /\ b \in Invalid /\ part # "query" THEN "4xx"
  ELSE IF class \in {"date", "int"} /\ b \in Invalid THEN "4xx"
  ELSE "not5xx"

(***************************************************************************)
(* The product                                                              *)
(***************************************************************************)
Case(r, part, f, kind, expect) ==
  [api |-> r.api, route |-> r.route, part |-> part, field |-> f, kind |-> kind, expect |-> expect]

BodyCases(r) ==
  {Case(r, "body", f.path, k, BodyExpect(f, k)) : f \in Range(r.body), k \in Kinds}
  \cup UNION {{Case(r, "body", f.path, b, BoundaryExpect("body", f.class, b)) : b \in Boundary(f.class)} : f \in Range(r.body)}
QueryCases(r) ==
  UNION {{Case(r, "query", f.path, k, "not5xx") : k \in CoreKinds \cup {"absent"}}
         \cup {Case(r, "query", f.path, b, BoundaryExpect("query", f.class, b)) : b \in Boundary(f.class)} : f \in Range(r.query)}
  \cup (IF r.paged THEN {Case(r, "query", "cursor", b, "4xx") : b \in Cursors} ELSE {})
PathCases(r) ==
  UNION {{Case(r, "path", f.path, b, BoundaryExpect("path", f.class, b)) : b \in Boundary(f.class)} : f \in Range(r.path)}
RawCases(r) ==
  IF r.hasBody THEN {Case(r, "raw", "", b, BoundaryExpect("raw", "", b)) : b \in RawBodies} ELSE {}
\* a list route that takes its filter in the body
BodyFilterCases(r) ==
  IF r.bodyFilter THEN {Case(r, "raw", "", b, BoundaryExpect("raw", "", b)) : b \in Filters} ELSE {}

Cases == UNION {BodyCases(r) \cup QueryCases(r) \cup PathCases(r) \cup RawCases(r) \cup BodyFilterCases(r) : r \in Range(Routes)}

Init == c \in Cases
Next == UNCHANGED c
Spec == Init /\ [][Next]_c

\* sanity of the model itself
Thm_ExpectWellFormed == c.expect \in {"4xx", "not5xx"}
Thm_BothAPIs == {r.api : r \in Range(Routes)} = {"v1", "v2"}

EmitCase == Emit => PrintT(<<"CASE", ToJson(c)>>)
=============================================================================
