----------------------------- MODULE TraceLedger -----------------------------
(***************************************************************************)
(* Trace validation of executions of the REAL ledger code against Ledger.   *)
(*                                                                         *)
(* A trace is an NDJSON file written by harness/drive: one line per API     *)
(* request, carrying the abstract operation, the classified HTTP outcome,   *)
(* the listener events it caused and the state of every ledger as observed  *)
(* through the real read API right after the request.  Many histories are   *)
(* concatenated; a line with reset = TRUE starts a fresh database.          *)
(*                                                                         *)
(* Idiom: observation-following.  The trace spec's state IS the observed    *)
(* state (a single deterministic behaviour), so TLC evaluates               *)
(*   - every INVARIANT (the property predicates of Ledger) in every         *)
(*     observed state, and                                                  *)
(*   - one named ACTION PROPERTY per compared component: the observed       *)
(*     successor must be the one Ledger!Apply prescribes for the logged     *)
(*     operation.  A failure names the predicate, hence the property.       *)
(* ReportSpec evaluates the same predicates and prints every failure       *)
(* (predicate name, line, case) instead of stopping at the first one.       *)
(***************************************************************************)
EXTENDS Ledger, Json

CONSTANT TraceFile

Trace == ndJsonDeserialize(TraceFile)

VARIABLES l,      \* number of trace lines consumed
          iks,    \* ledger -> (idempotency key -> [ikin, id]) remembered by the specification
          used    \* set of ledgers that have accepted a write (state "in use": imports are refused)

vars == <<l, iks, used>>

ToTx(t) == [id |-> t.id, ps |-> t.ps, ts |-> t.ts, ins |-> t.ins, ref |-> t.ref, meta |-> t.meta,
            rev |-> t.rev, revAt |-> t.revAt, reverts |-> t.reverts, pcv |-> ToSet(t.pcv)]
ToAcct(a) == [addr |-> a.addr, first |-> a.first, ins |-> a.ins, meta |-> a.meta]
ToLog(g) == [id |-> g.id, type |-> g.type, date |-> g.date, ik |-> g.ik, tx |-> g.tx, tgt |-> g.tgt,
             key |-> g.key, meta |-> g.meta]
ToLS(o) == [txs |-> [i \in DOMAIN o.txs |-> ToTx(o.txs[i])],
            accts |-> {ToAcct(a) : a \in ToSet(o.accts)},
            logs |-> [i \in DOMAIN o.logs |-> ToLog(o.logs[i])]]

\* observed state after line i (i >= 1)
Raw(i) == Trace[i].st
Ledgers(i) == DOMAIN Raw(i)
LS(i, lg) == ToLS(Raw(i)[lg])
IsReset(i) == Trace[i].reset
IsConc(i) == Trace[i].conc
IsAux(i) == Trace[i].aux
IsSeq(i) == ~Trace[i].reset /\ ~Trace[i].conc /\ ~Trace[i].aux

Init == l = 0 /\ iks = <<>> /\ used = {}

\* ids are drawn from sequences with gaps: the specification takes the observed new ids
NewTxId(i, lg) == LET c == Raw(i - 1)[lg].txs
                      n == Raw(i)[lg].txs
                  IN IF Len(n) > Len(c) THEN n[Len(n)].id ELSE (IF Len(c) = 0 THEN 1 ELSE c[Len(c)].id + 1)
NewLogId(i, lg) == LET c == Raw(i - 1)[lg].logs
                       n == Raw(i)[lg].logs
                   IN IF Len(n) > Len(c) THEN n[Len(n)].id ELSE (IF Len(c) = 0 THEN 1 ELSE c[Len(c)].id + 1)

IksOf(lg) == IF lg \in DOMAIN iks THEN iks[lg] ELSE <<>>

\* what Ledger prescribes for line i, given the observed predecessor state
X(i) == LET lg == Trace[i].op.l
        IN IF Trace[i].op.k = "import"
           THEN ImportOp(LS(i - 1, lg), lg \in used, LS(i - 1, Trace[i].op.src))
           ELSE Apply(LS(i - 1, lg), IksOf(lg), Trace[i].op, NewTxId(i, lg), NewLogId(i, lg))

Committed(i) == X(i).ok /\ ~X(i).hit /\ ~Trace[i].op.dry

Next ==
  /\ l < Len(Trace)
  /\ l' = l + 1
  /\ used' = IF IsReset(l + 1) THEN {}
             ELSE IF IsSeq(l + 1) /\ Committed(l + 1) /\ Trace[l + 1].op.k # "import"
                  THEN used \cup {Trace[l + 1].op.l} ELSE used
  /\ IF IsReset(l + 1)
     THEN iks' = <<>>
     ELSE IF IsConc(l + 1) \/ IsAux(l + 1)
     THEN iks' = iks   \* concurrent lines branch off the last sequential state; they are not cumulative
     ELSE LET e == Trace[l + 1]
              lg == e.op.l
              x == X(l + 1)
          IN iks' = IF e.op.k = "import"
                    THEN (IF x.ok
                          THEN [g \in DOMAIN iks \cup {lg} |-> IF g = lg THEN IksOf(e.op.src) ELSE iks[g]]
                          ELSE iks)   \* the copy answers the source's idempotency keys
                    ELSE
                    IF Committed(l + 1) /\ e.op.ik # ""
                    THEN [g \in DOMAIN iks \cup {lg} |->
                            IF g = lg
                            THEN [k \in DOMAIN IksOf(lg) \cup {e.op.ik} |->
                                    IF k = e.op.ik THEN [ikin |-> e.op.ikin, id |-> x.id] ELSE IksOf(lg)[k]]
                            ELSE iks[g]]
                    ELSE iks

Spec == Init /\ [][Next]_vars

(***************************************************************************)
(* State predicates on the observation after line i                        *)
(***************************************************************************)
Obs(i, P(_)) == \A lg \in Ledgers(i) : P(Raw(i)[lg])
VolKey(v) == [a |-> v.a, as |-> v.as, i |-> v.i, o |-> v.o]

\* C01: double-entry conservation, on the three observation surfaces
I_C01_Conservation(i) ==
  Obs(i, LAMBDA o : /\ Conservation(ToSet(o.vols))
                    /\ \A k \in DOMAIN o.agg : o.agg[k].b = 0
                    /\ Conservation(UNION {ToSet(a.vol) : a \in ToSet(o.accts)}))

\* C02: every reported volume is the fold of the committed postings
I_C02_VolumesAreFold(i) ==
  Obs(i, LAMBDA o :
     LET want == VolsOf(ToLS(o))
     IN /\ {VolKey(v) : v \in ToSet(o.vols)} = want
        /\ \A v \in ToSet(o.vols) : v.b = v.i - v.o
        /\ (o.flags.moves =>
              \A a \in ToSet(o.accts) : ToSet(a.vol) = {w \in want : w.a = a.addr})
        /\ \A k \in DOMAIN o.agg :
              o.agg[k].b = FoldSet(LAMBDA w, acc : acc + w.i - w.o, 0, {w \in want : w.as = o.agg[k].as})
        /\ {o.agg[k].as : k \in DOMAIN o.agg} = {w.as : w \in want})

\* C03: post-commit volumes are the running totals in commit order; pre = post - own postings
I_C03_PostCommitVolumes(i) ==
  Obs(i, LAMBDA o :
     /\ PCVOK(ToLS(o))
     /\ \A k \in DOMAIN o.txs :
          ToSet(o.txs[k].precv) =
            {[a |-> v.a, as |-> v.as, i |-> v.i - In(o.txs[k].ps, v.a, v.as), o |-> v.o - Out(o.txs[k].ps, v.a, v.as)]
               : v \in ToSet(o.txs[k].pcv)})

\* C04: effective volumes follow (effective date, insertion order)
EffBefore(txs, k) == SelectSeq(txs, LAMBDA t : t.ts < txs[k].ts \/ (t.ts = txs[k].ts /\ t.id <= txs[k].id))
I_C04_EffectiveVolumes(i) ==
  Obs(i, LAMBDA o :
     o.flags.eff =>
       /\ \A k \in DOMAIN o.txs :
            ToSet(o.txs[k].pcev) = PCV(AllPs(EffBefore(o.txs, k)), o.txs[k].ps)
       \* with no PIT, an account's effective volumes are its totals
       /\ \A a \in ToSet(o.accts) : ToSet(a.evol) = {w \in VolsOf(ToLS(o)) : w.a = a.addr})

\* C09: every stored hash is the documented chain hash of its log over the hash of the log just before it
\* (the projection recovers the predecessor by recomputing with the repository's Log.ComputeHash; -1 = the
\* stored hash is reproduced by no predecessor)
I_C09_HashChain(i) ==
  Obs(i, LAMBDA o : o.flags.hash =>
        \A k \in DOMAIN o.logs : o.chain[k] = (IF k = 1 THEN 0 ELSE o.logs[k - 1].id))
I_C08_Journal(i) ==Obs(i, LAMBDA o : JournalOK(ToLS(o)))
I_C14_UniqueRefs(i) == Obs(i, LAMBDA o : UniqueRefs(ToLS(o)))
I_C15_Reverts(i) == Obs(i, LAMBDA o : RevertsOK(ToLS(o)))
I_C16_Ids(i) == Obs(i, LAMBDA o : IdsIncreasing(ToLS(o)))
I_C18_Accounts(i) == Obs(i, LAMBDA o : AcctsOK(ToLS(o)))
I_C18_RevertFirstUsage(i) == Obs(i, LAMBDA o : RevertFirstUsageOK(ToLS(o)))
I_C28_WellFormed(i) ==Obs(i, LAMBDA o : \A k \in DOMAIN o.txs : o.txs[k].wf)
\* C35/C09: hashes are present exactly when HASH_LOGS = SYNC
I_C35_Hashes(i) == Obs(i, LAMBDA o : \A k \in DOMAIN o.logs : o.logs[k].hashed = o.flags.hash)

(***************************************************************************)
(* Step predicates on line i (i is not a reset line)                        *)
(***************************************************************************)
Cur(i) == LS(i - 1, Trace[i].op.l)
Nxt(i) == LS(i, Trace[i].op.l)

\* the outcome class the client got is the one the specification prescribes
OutcomeIs(i, cls) == (Trace[i].res.err = cls) <=> (X(i).err = cls)

P_C25_Funds(i) == Trace[i].op.k = "create" => OutcomeIs(i, "insufficient") /\ OutcomeIs(i, "no_postings")
P_C14_RefOutcome(i) == OutcomeIs(i, "ref_conflict")
P_C15_RevertOutcome(i) == Trace[i].op.k = "revert" =>
                             /\ OutcomeIs(i, "already_reverted") /\ OutcomeIs(i, "insufficient") /\ OutcomeIs(i, "not_found")
P_C13_Idempotency(i) == /\ Trace[i].res.hit = X(i).hit
                        /\ OutcomeIs(i, "ik_invalid")
                        /\ (X(i).hit /\ Trace[i].op.k \in {"create", "revert"} => Trace[i].res.id = X(i).id)
P_C17_MetaOutcome(i) == Trace[i].op.k \in {"txmeta", "untxmeta", "acmeta", "unacmeta"} => Trace[i].res.err = X(i).err
\* never an unexplained outcome (internal errors, unknown classes)
P_Outcome(i) == Trace[i].res.ok = X(i).ok /\ Trace[i].res.err = X(i).err

\* C07: a failed request, an idempotent replay and a dry run leave NO trace (whole observation equal)
P_C07_NoTrace(i) == ~Committed(i) => Raw(i) = Raw(i - 1)

\* C08: a committed write appends exactly one log of the right shape; nothing else appends
P_C08_OneLog(i) == IF Committed(i) THEN Nxt(i).logs = X(i).ls.logs ELSE Nxt(i).logs = Cur(i).logs

\* C16: ids of a ledger are independent of the other ledgers (also of those sharing its bucket).  In a
\* sequential history the only gaps are ids burnt by this ledger's own rolled-back attempts (failed or dry-run
\* requests after the id was drawn): the new id is at most one more than the previous maximum plus the
\* number of such attempts made on this ledger so far.
CaseStart(i) == CHOOSE j \in 1..i : IsReset(j) /\ \A k \in (j + 1)..i : ~IsReset(k)
SeqLinesOn(i, lg, kinds) == {j \in (CaseStart(i) + 1)..(i - 1) : IsSeq(j) /\ Trace[j].op.l = lg /\ Trace[j].op.k \in kinds}
Burnt(i, lg, kinds, len(_)) ==   \* earlier attempts on lg that left nothing behind (an upper bound of the ids burnt)
  Cardinality({j \in SeqLinesOn(i, lg, kinds) : lg \in Ledgers(j - 1) /\ len(Raw(j)[lg]) = len(Raw(j - 1)[lg])})
WriteKinds == {"create", "revert", "txmeta", "untxmeta", "acmeta", "unacmeta"}
P_C16_Independent(i) ==
  LET lg == Trace[i].op.l
  IN Committed(i) /\ Trace[i].op.k \in WriteKinds =>
       /\ (Trace[i].op.k \in {"create", "revert"} =>
             NewTxId(i, lg) <= MaxTxId(Cur(i)) + Burnt(i, lg, {"create", "revert"}, LAMBDA o : Len(o.txs)) + 1)
       /\ NewLogId(i, lg) <= MaxLogId(Cur(i)) + Burnt(i, lg, WriteKinds, LAMBDA o : Len(o.logs)) + 1

\* C25 / C15: the new transaction is exactly the one requested (postings as submitted, or the exact reversal)
P_C25_Recorded(i) == Committed(i) /\ Trace[i].op.k = "create" =>
                        /\ Nxt(i).txs = X(i).ls.txs
                        /\ Trace[i].res.id = X(i).id
P_C15_Reverted(i) == Committed(i) /\ Trace[i].op.k = "revert" =>
                        /\ Nxt(i).txs = X(i).ls.txs
                        /\ Trace[i].res.id = X(i).id

\* C17: metadata writes: last write wins per key, deletes remove
MetaView(accts) == {[addr |-> a.addr, meta |-> a.meta] : a \in accts}
P_C17_Metadata(i) == Committed(i) /\ Trace[i].op.k \in {"txmeta", "untxmeta", "acmeta", "unacmeta"} =>
                        /\ Nxt(i).txs = X(i).ls.txs
                        /\ MetaView(Nxt(i).accts) = MetaView(X(i).ls.accts)

\* C18: accounts appear / first usage is lowered exactly as prescribed; insertion date never changes
P_C18_Accounts(i) == Committed(i) => Nxt(i).accts = X(i).ls.accts

\* C03: post-commit volumes of earlier transactions never change
P_C03_Immutable(i) ==
   /\ Len(Nxt(i).txs) >= Len(Cur(i).txs)
   /\ \A k \in DOMAIN Cur(i).txs : Nxt(i).txs[k].pcv = Cur(i).txs[k].pcv /\ Nxt(i).txs[k].ps = Cur(i).txs[k].ps

\* C19: a request on one ledger changes nothing observable on any other ledger
P_C19_Frame(i) == \A g \in Ledgers(i) : g # Trace[i].op.l /\ g \in Ledgers(i - 1) => Raw(i)[g] = Raw(i - 1)[g]
\* C35: the same history under every feature combination yields the same core observation
\* (transactions with post-commit volumes, accounts, metadata, logs, current volumes, balances) ...
P_C35_SameCore(i) == \A a, b \in DOMAIN Trace[i].cores : Trace[i].cores[a] = Trace[i].cores[b]
\* ... and a read that needs a disabled feature is rejected (client error), never answered, never a 5xx
ReadOK(cls, needed) == IF needed THEN cls = "ok" ELSE cls = "rejected"
P_C35_FeatureReads(i) ==
  \A k \in DOMAIN Trace[i].fread :
     LET r == Trace[i].fread[k] IN
       /\ ReadOK(r.volPit, r.flags.moves)
       /\ ReadOK(r.volPitIns, r.flags.moves)
       /\ ReadOK(r.aggPitIns, r.flags.moves)
       /\ ReadOK(r.acctVol, r.flags.moves)
       \* a balance filter at a point in time reads post_commit_effective_volumes of moves: needs both features
       \* (before fix 3f6701b it answered [] when effective volumes were off; see C20 in known-findings.txt)
       /\ ReadOK(r.acctBalPit, r.flags.moves /\ r.flags.eff)
       /\ (r.flags.moves \/ ~r.flags.effsync => ReadOK(r.aggPitEff, r.flags.eff) /\ ReadOK(r.acctEff, r.flags.eff))
\* the inconsistent combination MOVES_HISTORY = OFF with ..._EFFECTIVE_VOLUMES = SYNC: effective volumes
\* cannot exist without moves, so reads of them must be rejected too.  The code only looks at the second
\* feature and answers from an empty moves table: known finding C35/effective-volumes-without-moves-history.
P_C35_EffWithoutMoves(i) ==
  \A k \in DOMAIN Trace[i].fread :
     LET r == Trace[i].fread[k] IN
       ~r.flags.moves /\ r.flags.effsync => r.aggPitEff = "rejected" /\ r.acctEff = "rejected"

\* creating a ledger (auxiliary line) changes nothing on the ledgers that already exist
P_C19_CreateFrame(i) == \A g \in Ledgers(i - 1) : g \in Ledgers(i) /\ Raw(i)[g] = Raw(i - 1)[g]

\* C31: exactly one matching event per committed write, emitted after the commit; none otherwise
EventKind(op) == CASE op.k = "create" -> "committed_transaction"
                   [] op.k = "revert" -> "reverted_transaction"
                   [] op.k \in {"txmeta", "acmeta"} -> "saved_metadata"
                   [] op.k \in {"untxmeta", "unacmeta"} -> "deleted_metadata"
P_C31_Events(i) ==
   IF Committed(i) /\ Trace[i].op.k # "import"   \* an import publishes nothing
   THEN /\ Len(Trace[i].ev) = 1
        /\ Trace[i].ev[1].kind = EventKind(Trace[i].op)
        /\ Trace[i].ev[1].l = Trace[i].op.l
        /\ Trace[i].ev[1].afterCommit
        /\ (Trace[i].op.k \in {"create", "revert"} => Trace[i].ev[1].tx = X(i).id)
   ELSE Len(Trace[i].ev) = 0

\* C11: an accepted import makes the copy expose exactly what the source exposes, hashes included
Hashes(o) == [k \in DOMAIN o.logs |-> o.logs[k].h]
P_C11_ImportFaithful(i) ==
  Trace[i].op.k = "import" /\ X(i).ok /\ Len(LS(i - 1, Trace[i].op.src).logs) > 0 =>
     /\ Trace[i].res.ok
     /\ Nxt(i) = LS(i - 1, Trace[i].op.src)
     /\ Hashes(Raw(i)[Trace[i].op.l]) = Hashes(Raw(i - 1)[Trace[i].op.src])
     /\ Raw(i)[Trace[i].op.l].vols = Raw(i - 1)[Trace[i].op.src].vols
\* C12: an import is accepted exactly when the ledger never accepted a write and holds no log at or after
\* the first imported one; a refused import has no effect (Step_C07_NoTrace)
P_C12_ImportOutcome(i) ==
  Trace[i].op.k = "import" => Trace[i].res.ok = X(i).ok /\ Trace[i].res.err = X(i).err

\* C34: async log blocks.  Trace[i].blk: ledger (HASH_LOGS = ASYNC) -> rows of logs_blocks in id order, each
\* with n, the number of logs committed in its range, and ok, whether its stored hash equals the documented
\* digest re-derived over those logs, both taken when the line was observed.  AsyncBlocks.tla is the design.
Blk(i) == Trace[i].blk
LogIdsIn(i, lg, lo, hi) == {j \in DOMAIN Raw(i)[lg].logs : lo < Raw(i)[lg].logs[j].id /\ Raw(i)[lg].logs[j].id <= hi}
I_C34_BlockChain(i) ==
  \A lg \in DOMAIN Blk(i) :
     LET B == Blk(i)[lg]
     IN \A k \in DOMAIN B : /\ Raw(i)[lg].flags.async   \* only ledgers with HASH_LOGS = ASYNC get blocks
                            /\ B[k].from = (IF k = 1 THEN 0 ELSE B[k - 1].to)
                            /\ B[k].prev = (IF k = 1 THEN 0 ELSE B[k - 1].id)
                            /\ B[k].from < B[k].to
                            /\ B[k].n = Cardinality(LogIdsIn(i, lg, B[k].from, B[k].to))
\* no log skipped: the hash of every block covers every log committed in its range (AsyncBlocks!DigestCovers)
I_C34_BlockDigest(i) == \A lg \in DOMAIN Blk(i) : \A k \in DOMAIN Blk(i)[lg] : Blk(i)[lg][k].ok
\* once the builder has run to completion with no request in flight, the ranges partition the committed log ids
P_C34_Quiescent(i) ==
  Trace[i].quiet =>
    \A lg \in {g \in DOMAIN Blk(i) : Raw(i)[g].flags.async} :
       LET B == Blk(i)[lg]
           n == Len(Raw(i)[lg].logs)
       IN /\ (n = 0 => Len(B) = 0)
          /\ (n > 0 => /\ Len(B) > 0
                       /\ LogIdsIn(i, lg, 0, B[Len(B)].to) = 1..n
                       /\ \A k \in DOMAIN B : B[k].n >= 1)

\* a reset line must show pristine ledgers
P_ResetPristine(i) == \A g \in Ledgers(i) : Raw(i)[g].txs = <<>> /\ Raw(i)[g].logs = <<>>

(***************************************************************************)
(* Concurrent lines.  Line i carries n requests issued concurrently (under  *)
(* one statement-level schedule chosen by the harness) from the state of    *)
(* the last sequential line, their outcomes, their commit ranks and the     *)
(* state observed after all of them returned.  Ledger says every request    *)
(* takes effect atomically at its commit: so there must be a serial order,  *)
(* agreeing with the observed commit order, in which Ledger!Apply yields    *)
(* exactly the observed outcomes and the observed final state.  This is     *)
(* where "the balance the account actually has when the transaction         *)
(* commits" (C06), exactly-once under a shared idempotency key (C13),       *)
(* reference uniqueness (C14) and single revert (C15) are decided.          *)
(***************************************************************************)
BaseOf(i) == CHOOSE j \in 1..(i - 1) : ~Trace[j].conc /\ \A k \in (j + 1)..(i - 1) : Trace[k].conc
NOps(i) == Len(Trace[i].ops)

Canon(ls) == [txs |-> ToSet(ls.txs), accts |-> ls.accts,
              logs |-> {[type |-> g.type, date |-> g.date, ik |-> g.ik, tx |-> g.tx, tgt |-> g.tgt, key |-> g.key, meta |-> g.meta]
                          : g \in ToSet(ls.logs)}]

RECURSIVE SerialFold(_, _, _, _, _, _)
\* applies ops p[k..n] of line i in order (u: the ledger has accepted a write); returns [good, ls]
SerialFold(ls, ik, u, i, p, k) ==
  IF k > NOps(i) THEN [good |-> TRUE, ls |-> ls]
  ELSE LET j == p[k]
           op == Trace[i].ops[j]
           r == Trace[i].ress[j]
           txid == IF r.ok /\ r.id # 0 /\ ~r.hit THEN r.id ELSE MaxTxId(ls) + 1000
           x == IF op.k = "import"
                THEN ImportOp(ls, u, LS(BaseOf(i), op.src))
                ELSE Apply(ls, ik, op, txid, MaxLogId(ls) + 1)
           \* a concurrent duplicate may be answered by the idempotent replay or by an explicit conflict error
           match == \/ (x.ok = r.ok /\ x.err = r.err /\ x.hit = r.hit
                         /\ (x.ok /\ op.k \in {"create", "revert"} => x.id = r.id))
                    \/ (x.hit /\ ~r.ok /\ r.err = "ik_conflict")
           committed == x.ok /\ ~x.hit /\ ~op.dry
           ik2 == IF committed /\ op.ik # ""
                  THEN [q \in DOMAIN ik \cup {op.ik} |-> IF q = op.ik THEN [ikin |-> op.ikin, id |-> x.id] ELSE ik[q]]
                  ELSE ik
           u2 == u \/ (committed /\ op.k # "import")
       IN IF match THEN SerialFold(x.ls, ik2, u2, i, p, k + 1) ELSE [good |-> FALSE, ls |-> ls]

RespectsCommitOrder(i, p) ==
  \A a, b \in 1..NOps(i) : a < b /\ Trace[i].cseq[p[a]] > 0 /\ Trace[i].cseq[p[b]] > 0
                              => Trace[i].cseq[p[a]] < Trace[i].cseq[p[b]]

Serializable(i) ==
  LET lg == Trace[i].op.l
      b == BaseOf(i)
  IN \E p \in Permutations(1..NOps(i)) :
        /\ RespectsCommitOrder(i, p)
        /\ LET f == SerialFold(LS(b, lg), IksOf(lg), lg \in used, i, p, 1)
           IN f.good /\ Canon(f.ls) = Canon(LS(i, lg))

PC_C06_Serializable(i) == Trace[i].prop = "C06" => Serializable(i)
PC_C12_Serializable(i) == Trace[i].prop = "C12" => Serializable(i)
PC_C13_Serializable(i) == Trace[i].prop = "C13" => Serializable(i)
PC_C14_Serializable(i) == Trace[i].prop = "C14" => Serializable(i)
PC_C15_Serializable(i) == Trace[i].prop = "C15" => Serializable(i)
PC_C16_Serializable(i) == Trace[i].prop = "C16" => Serializable(i)
\* a builder run racing with writers is invisible to them (Effect: "blocks" changes nothing)
PC_C34_Serializable(i) == Trace[i].prop = "C34" => Serializable(i)

\* C16: among committed writes a later commit never receives a smaller transaction id / log id
NewTxOps(i) == {j \in 1..NOps(i) : Trace[i].cseq[j] > 0 /\ Trace[i].ops[j].k \in {"create", "revert"}}
LogIdOf(i, j) == LET o == Raw(i)[Trace[i].op.l]
                     ks == {k \in DOMAIN o.logs : o.logs[k].tx = Trace[i].ress[j].id
                                                   /\ o.logs[k].type \in {"NEW_TRANSACTION", "REVERTED_TRANSACTION"}}
                 IN IF ks = {} THEN 0 ELSE o.logs[CHOOSE k \in ks : TRUE].id
PC_C16_TxIdCommitOrder(i) ==
  \A a, b \in NewTxOps(i) : Trace[i].cseq[a] < Trace[i].cseq[b] => Trace[i].ress[a].id < Trace[i].ress[b].id
PC_C16_LogIdCommitOrder(i) ==
  \A a, b \in NewTxOps(i) : Trace[i].cseq[a] < Trace[i].cseq[b] => LogIdOf(i, a) < LogIdOf(i, b)

\* C16: ids stay dense under concurrency too. A request burns at most one transaction id and one log id per
\* attempt, and it makes a bounded number of attempts (deadlock retries): nothing justifies an id far above the
\* previous maximum plus the number of concurrent requests (e.g. ids handed out from per-connection ranges).
PC_C16_Dense(i) ==
  LET lg == Trace[i].op.l
      b == BaseOf(i)
      o == Raw(i)[lg]
  IN /\ \A k \in DOMAIN o.txs : o.txs[k].id <= MaxTxId(LS(b, lg)) + 4 * NOps(i)
     /\ \A k \in DOMAIN o.logs : o.logs[k].id <= MaxLogId(LS(b, lg)) + 4 * NOps(i)

\* C09: with HASH_LOGS = SYNC every log chains from the log just before it in id order (linear chain)
PC_C09_LinearChain(i) ==
  LET o == Raw(i)[Trace[i].op.l]
  IN o.flags.hash =>
       \A k \in DOMAIN o.logs : Trace[i].chain[k] = (IF k = 1 THEN 0 ELSE o.logs[k - 1].id)

(***************************************************************************)
(* The same predicates as TLC invariants / action properties               *)
(***************************************************************************)
StepC_C06_Serializable == [][IsConc(l') => PC_C06_Serializable(l')]_vars
StepC_C12_Serializable == [][IsConc(l') => PC_C12_Serializable(l')]_vars
Step_C11_ImportFaithful == [][IsSeq(l') => P_C11_ImportFaithful(l')]_vars
Step_C12_ImportOutcome == [][IsSeq(l') => P_C12_ImportOutcome(l')]_vars
StepC_C13_Serializable == [][IsConc(l') => PC_C13_Serializable(l')]_vars
StepC_C14_Serializable == [][IsConc(l') => PC_C14_Serializable(l')]_vars
StepC_C15_Serializable == [][IsConc(l') => PC_C15_Serializable(l')]_vars
StepC_C16_Serializable == [][IsConc(l') => PC_C16_Serializable(l')]_vars
StepC_C34_Serializable == [][IsConc(l') => PC_C34_Serializable(l')]_vars
StepC_C16_Dense == [][IsConc(l') => PC_C16_Dense(l')]_vars
StepC_C16_TxIdCommitOrder == [][IsConc(l') => PC_C16_TxIdCommitOrder(l')]_vars
StepC_C16_LogIdCommitOrder == [][IsConc(l') => PC_C16_LogIdCommitOrder(l')]_vars
StepC_C09_LinearChain == [][IsConc(l') => PC_C09_LinearChain(l')]_vars

Inv_C01_Conservation == l >= 1 => I_C01_Conservation(l)
Inv_C02_VolumesAreFold == l >= 1 => I_C02_VolumesAreFold(l)
Inv_C03_PostCommitVolumes == l >= 1 => I_C03_PostCommitVolumes(l)
Inv_C04_EffectiveVolumes == l >= 1 => I_C04_EffectiveVolumes(l)
Inv_C08_Journal == l >= 1 => I_C08_Journal(l)
Inv_C09_HashChain == l >= 1 => I_C09_HashChain(l)
Inv_C14_UniqueRefs == l >= 1 => I_C14_UniqueRefs(l)
Inv_C15_Reverts == l >= 1 => I_C15_Reverts(l)
Inv_C16_Ids == l >= 1 => I_C16_Ids(l)
Inv_C18_Accounts == l >= 1 => I_C18_Accounts(l)
Inv_C18_RevertFirstUsage == l >= 1 => I_C18_RevertFirstUsage(l)
Inv_C28_WellFormed == l >= 1 => I_C28_WellFormed(l)
Inv_C35_Hashes == l >= 1 => I_C35_Hashes(l)
Inv_C34_BlockChain == l >= 1 => I_C34_BlockChain(l)
Inv_C34_BlockDigest == l >= 1 => I_C34_BlockDigest(l)
Step_C34_Quiescent == [][~IsReset(l') => P_C34_Quiescent(l')]_vars

Step_C25_Funds == [][IsSeq(l') =>P_C25_Funds(l')]_vars
Step_C14_RefOutcome == [][IsSeq(l') =>P_C14_RefOutcome(l')]_vars
Step_C15_RevertOutcome == [][IsSeq(l') =>P_C15_RevertOutcome(l')]_vars
Step_C13_Idempotency == [][IsSeq(l') =>P_C13_Idempotency(l')]_vars
Step_C17_MetaOutcome == [][IsSeq(l') =>P_C17_MetaOutcome(l')]_vars
Step_Outcome == [][IsSeq(l') =>P_Outcome(l')]_vars
Step_C07_NoTrace == [][IsSeq(l') =>P_C07_NoTrace(l')]_vars
Step_C08_OneLog == [][IsSeq(l') =>P_C08_OneLog(l')]_vars
Step_C16_Independent == [][IsSeq(l') => P_C16_Independent(l')]_vars
Step_C25_Recorded == [][IsSeq(l') =>P_C25_Recorded(l')]_vars
Step_C15_Reverted == [][IsSeq(l') =>P_C15_Reverted(l')]_vars
Step_C17_Metadata == [][IsSeq(l') =>P_C17_Metadata(l')]_vars
Step_C18_Accounts == [][IsSeq(l') =>P_C18_Accounts(l')]_vars
Step_C03_Immutable == [][IsSeq(l') =>P_C03_Immutable(l')]_vars
Step_C19_Frame == [][IsSeq(l') =>P_C19_Frame(l')]_vars
Step_C19_CreateFrame == [][IsAux(l') /\ ~Trace[l'].group => P_C19_CreateFrame(l')]_vars
Step_C35_SameCore == [][IsAux(l') /\ Trace[l'].group => P_C35_SameCore(l')]_vars
Step_C35_FeatureReads == [][IsAux(l') /\ Trace[l'].group => P_C35_FeatureReads(l')]_vars
Step_C35_EffWithoutMoves == [][IsAux(l') /\ Trace[l'].group => P_C35_EffWithoutMoves(l')]_vars
Step_C31_Events == [][IsSeq(l') =>P_C31_Events(l')]_vars
Step_ResetPristine == [][IsReset(l') => P_ResetPristine(l')]_vars

Accepted == TLCGet("stats").diameter - 1 = Len(Trace)

(***************************************************************************)
(* Report mode: evaluate every predicate on every line and print failures   *)
(***************************************************************************)
StateChecks(i) ==
  << <<"Inv_C01_Conservation", I_C01_Conservation(i)>>,
     <<"Inv_C02_VolumesAreFold", I_C02_VolumesAreFold(i)>>,
     <<"Inv_C03_PostCommitVolumes", I_C03_PostCommitVolumes(i)>>,
     <<"Inv_C04_EffectiveVolumes", I_C04_EffectiveVolumes(i)>>,
     <<"Inv_C08_Journal", I_C08_Journal(i)>>,
     <<"Inv_C09_HashChain", I_C09_HashChain(i)>>,
     <<"Inv_C14_UniqueRefs", I_C14_UniqueRefs(i)>>,
     <<"Inv_C15_Reverts", I_C15_Reverts(i)>>,
     <<"Inv_C16_Ids", I_C16_Ids(i)>>,
     <<"Inv_C18_Accounts", I_C18_Accounts(i)>>,
     <<"Inv_C18_RevertFirstUsage", I_C18_RevertFirstUsage(i)>>,
     <<"Inv_C28_WellFormed", I_C28_WellFormed(i)>>,
     <<"Inv_C35_Hashes", I_C35_Hashes(i)>>,
     <<"Inv_C34_BlockChain", I_C34_BlockChain(i)>>,
     <<"Inv_C34_BlockDigest", I_C34_BlockDigest(i)>>,
     <<"Step_C34_Quiescent", IsReset(i) \/ P_C34_Quiescent(i)>> >>

StepChecks(i) ==
  << <<"Step_C25_Funds", P_C25_Funds(i)>>,
     <<"Step_C14_RefOutcome", P_C14_RefOutcome(i)>>,
     <<"Step_C15_RevertOutcome", P_C15_RevertOutcome(i)>>,
     <<"Step_C13_Idempotency", P_C13_Idempotency(i)>>,
     <<"Step_C17_MetaOutcome", P_C17_MetaOutcome(i)>>,
     <<"Step_Outcome", P_Outcome(i)>>,
     <<"Step_C07_NoTrace", P_C07_NoTrace(i)>>,
     <<"Step_C08_OneLog", P_C08_OneLog(i)>>,
     <<"Step_C16_Independent", P_C16_Independent(i)>>,
     <<"Step_C25_Recorded", P_C25_Recorded(i)>>,
     <<"Step_C15_Reverted", P_C15_Reverted(i)>>,
     <<"Step_C17_Metadata", P_C17_Metadata(i)>>,
     <<"Step_C18_Accounts", P_C18_Accounts(i)>>,
     <<"Step_C03_Immutable", P_C03_Immutable(i)>>,
     <<"Step_C19_Frame", P_C19_Frame(i)>>,
     <<"Step_C31_Events", P_C31_Events(i)>>,
     <<"Step_C11_ImportFaithful", P_C11_ImportFaithful(i)>>,
     <<"Step_C12_ImportOutcome", P_C12_ImportOutcome(i)>> >>

ConcChecks(i) ==
  << <<"StepC_C06_Serializable", PC_C06_Serializable(i)>>,
     <<"StepC_C12_Serializable", PC_C12_Serializable(i)>>,
     <<"StepC_C13_Serializable", PC_C13_Serializable(i)>>,
     <<"StepC_C14_Serializable", PC_C14_Serializable(i)>>,
     <<"StepC_C15_Serializable", PC_C15_Serializable(i)>>,
     <<"StepC_C16_Serializable", PC_C16_Serializable(i)>>,
     <<"StepC_C34_Serializable", PC_C34_Serializable(i)>>,
     <<"StepC_C16_Dense", PC_C16_Dense(i)>>,
     <<"StepC_C16_TxIdCommitOrder", PC_C16_TxIdCommitOrder(i)>>,
     <<"StepC_C16_LogIdCommitOrder", PC_C16_LogIdCommitOrder(i)>>,
     <<"StepC_C09_LinearChain", PC_C09_LinearChain(i)>> >>

Report(cs, i) ==\A k \in DOMAIN cs : cs[k][2] \/ PrintT(<<"FAIL", cs[k][1], i, Trace[i].case>>)

ReportNext ==
  /\ Next
  /\ Report(StateChecks(l'), l')
  /\ IF IsReset(l')
     THEN P_ResetPristine(l') \/ PrintT(<<"FAIL", "Step_ResetPristine", l', Trace[l'].case>>)
     ELSE IF IsAux(l')
     THEN IF Trace[l'].group
          THEN /\ (P_C35_SameCore(l') \/ PrintT(<<"FAIL", "Step_C35_SameCore", l', Trace[l'].case>>))
               /\ (P_C35_FeatureReads(l') \/ PrintT(<<"FAIL", "Step_C35_FeatureReads", l', Trace[l'].case>>))
               /\ (P_C35_EffWithoutMoves(l') \/ PrintT(<<"FAIL", "Step_C35_EffWithoutMoves", l', Trace[l'].case>>))
          ELSE P_C19_CreateFrame(l') \/ PrintT(<<"FAIL", "Step_C19_CreateFrame", l', Trace[l'].case>>)
     ELSE IF IsConc(l')
     THEN Report(ConcChecks(l'), l')
     ELSE Report(StepChecks(l'), l')

ReportSpec == Init /\ [][ReportNext]_vars
=============================================================================
