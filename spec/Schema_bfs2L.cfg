\* exhaustive over observable states, behaviours of <= 2 requests over the LARGE request menu, one CASE per transition
INIT Init
NEXT EmitNext
VIEW View
CONSTANTS
  FixedNames <- MCFixed
  VarKeys <- MCVar
  BadNames <- MCNone
  BadPatterns <- MCNone
  PatMatch <- MCPatMatch
  MetaKeys <- MCKeys
  ChartMenu <- MCCharts
  Versions <- MCVersions
  TplDefs <- MCTplDefs
  SchemaMenu <- MCSchemaMenu
  TxMenu <- MCTxMenuL
  MetaMenu <- MCMetaMenu
  AllKeys <- MCAllKeys
  Addrs <- MCAddrs
  Modes <- MCModes
  MaxSteps = 2
  ModelDeviations = TRUE
  Follow <- MCFollowNone
  EmitAll = TRUE
INVARIANTS TypeOK NoEffectOnReject OneLogPerWrite DefaultsOnlyAtCreation NoAccountDeleted StrictRequiresVersion StrictChartEnforced StrictHasNoDeviation AuditAcceptsAll AuditRelaxesStrict TemplateDecidesPostings
