SPECIFICATION Spec
CONSTANTS
  Emit = TRUE
INVARIANTS
  Thm_CellEvent
  Thm_OutcomeAsIntended
  Thm_AtomicFailurePublishesNothing
  Thm_OneEventPerDurableWrite
  EmitCase
CHECK_DEADLOCK FALSE
