---------------------------- MODULE Replication ----------------------------
(***************************************************************************)
(* Property C33.  Model of /repo/internal/replication: Manager             *)
(* (manager.go), PipelineHandler.Run (pipeline.go), the subscriber          *)
(* goroutine spawned by Manager.startPipeline, and the persisted            *)
(* _system.pipelines.last_log_id (system/store.go:StorePipelineState,       *)
(* UpdatePipeline).  One action per critical section of the code.           *)
(*                                                                         *)
(* One pipeline (one ledger, one exporter).  Log ids are 1..produced.       *)
(* 0 stands for "NULL / nil" everywhere (last_log_id, LastLogID).           *)
(*                                                                         *)
(* Epochs.  The pipeline goroutine + its subscriber goroutine + its         *)
(* subscription channel created by one call of startPipeline form an        *)
(* "epoch"; ep[e] keeps what can outlive the pipeline goroutine (subscriber *)
(* state, channel, an Accept call in flight).  The harness learns the epoch *)
(* of every storage/exporter call through a context value (startPipeline    *)
(* derives the pipeline context with WithoutCancel, which keeps values).    *)
(* Records of epochs that can no longer do anything are normalised to       *)
(* DeadEpoch, and fields that the code no longer reads are zeroed, to keep   *)
(* the state space small; history is kept in aggregated form (gotEver,      *)
(* gotSince, contig, startOK).                                              *)
(***************************************************************************)
EXTENDS Integers, Sequences, FiniteSets, TLC, Json

CONSTANTS
    MaxLogs,        \* logs 1..MaxLogs may be produced
    PageSizes,      \* set of LogsPageSize values a fetch may use
    MaxFail,        \* exporter failures (Accept returning an error)
    MaxStops,       \* StopPipeline calls (each followed by a StartPipeline)
    MaxResets,      \* ResetPipeline calls
    MaxRestarts,    \* Manager.Stop + new Manager.Run
    JoinSubscriber, \* TRUE = the code as it is since /repo 9ae9635: Run's goroutine closes the
                    \*   subscription as soon as Run returns and stopPipeline waits (<-handler.drained)
                    \*   until the subscriber has stored what it was handed.  FALSE = the code before
                    \*   that repair (close(subscription) deferred under mu, nobody waits for the
                    \*   subscriber): kept as the negative-control model, its counterexamples must
                    \*   not be reproducible on the code any more
    Mutant,         \* "none" | "SubAhead" | "SkipLog" | "AdvanceOnFail" (negative controls)
    LateAccepts,    \* TRUE: an Accept call in flight when its pipeline stops may still reach the exporter
    RecordHist      \* TRUE: hist records the schedule (use with VIEW ViewNoHist)

VARIABLES
    produced,   \* highest log id committed in the ledger
    persisted,  \* _system.pipelines.last_log_id (0 = NULL)
    mu,         \* Manager.mu: "free" | "mgr"
    alive,      \* a Manager is running
    running,    \* pipeline id \in m.pipelines
    mgr,        \* the manager operation in progress (holds mu unless stated)
    pipe,       \* the pipeline goroutine (at most one: stopPipeline waits for Run to return)
    ep,         \* epoch id -> record (see MgrSpawn)
    nFail, nStops, nResets, nRestarts,
    \* history (observations the properties are about)
    gotEver,    \* ids the exporter acknowledged, ever
    gotSince,   \* ids acknowledged to pipelines started since the last reset
    contig,     \* every acknowledged batch so far started right after its pipeline's previous one
    startOK,    \* every (re)start position so far was <= the highest ack since the last reset
    hist        \* schedule so far (only when RecordHist)

vars == <<produced, persisted, mu, alive, running, mgr, pipe, ep,
          nFail, nStops, nResets, nRestarts, gotEver, gotSince, contig, startOK, hist>>

ViewNoHist == <<produced, persisted, mu, alive, running, mgr, pipe, ep,
                nFail, nStops, nResets, nRestarts, gotEver, gotSince, contig, startOK>>

bounds == <<nFail, nStops, nResets, nRestarts>>
obs    == <<gotEver, gotSince, contig, startOK>>

NoMgr  == [op |-> "none", pc |-> "none", loc |-> 0, was |-> FALSE, se |-> 0]
NoPipe == [st |-> "none", e |-> 0, last |-> 0, from |-> 0, to |-> 0, stopReq |-> FALSE]

(* ep[e]: sub/val = subscriber goroutine ("idle" | "storing" the value val);      *)
(* open = subscription channel not closed; closing = Run returned, the deferred   *)
(* close(subscription) is waiting for mu; late = an Accept(lfrom..lto) call is in  *)
(* flight although the pipeline goroutine is gone; pos = last id acknowledged to   *)
(* this pipeline (or its start position); old = started before the last reset.    *)
Max(S) == IF S = {} THEN 0 ELSE CHOOSE x \in S : \A y \in S : y <= x
Min2(a, b) == IF a <= b THEN a ELSE b

Rec(r) == hist' = IF RecordHist THEN Append(hist, r) ELSE hist
H(a, e, x, y) == [a |-> a, e |-> e, x |-> x, y |-> y]

(* An epoch whose pipeline goroutine is gone, channel closed, subscriber idle and  *)
(* no call in flight can never act again: its record is normalised.               *)
DeadEpoch == [sub |-> "idle", val |-> 0, open |-> FALSE, closing |-> FALSE,
              late |-> FALSE, lfrom |-> 0, lto |-> 0, pos |-> 0, old |-> TRUE]
Dead(r) == ~r.open /\ ~r.closing /\ ~r.late /\ r.sub = "idle"
Norm(f) == [e \in DOMAIN f |-> IF Dead(f[e]) THEN DeadEpoch ELSE f[e]]

Init ==
    /\ produced = 0 /\ persisted = 0
    /\ mu = "free" /\ alive = FALSE /\ running = FALSE
    /\ mgr = NoMgr /\ pipe = NoPipe
    /\ ep = << >>
    /\ nFail = 0 /\ nStops = 0 /\ nResets = 0 /\ nRestarts = 0
    /\ gotEver = {} /\ gotSince = {} /\ contig = TRUE /\ startOK = TRUE
    /\ hist = << >>

-----------------------------------------------------------------------------
(* Log production: a transaction commits and appends log produced+1.        *)
Produce ==
    /\ produced < MaxLogs
    /\ produced' = produced + 1
    /\ Rec(H("Produce", 0, produced + 1, 0))
    /\ UNCHANGED <<persisted, mu, alive, running, mgr, pipe, ep, bounds, obs>>

-----------------------------------------------------------------------------
(* PipelineHandler.Run                                                      *)

(* case <-time.After(nextInterval): ListLogs(id > LastLogID, PageSize, asc) *)
(* An empty page leaves the state unchanged (the loop waits PullInterval).   *)
FetchFrom == IF Mutant = "SkipLog" /\ pipe.last > 0 THEN pipe.last + 2 ELSE pipe.last + 1

PipeFetch(ps) ==
    /\ pipe.st = "idle"
    /\ produced >= FetchFrom
    /\ pipe' = [pipe EXCEPT !.st = "fetched", !.from = FetchFrom,
                            !.to = Min2(FetchFrom + ps - 1, produced)]
    /\ Rec(H("Fetch", pipe.e, FetchFrom, Min2(FetchFrom + ps - 1, produced)))
    /\ UNCHANGED <<produced, persisted, mu, alive, running, mgr, ep, bounds, obs>>

(* What the exporter observes when Accept(from..to) of epoch e reaches it and  *)
(* succeeds.  f is the epoch map to update.                                  *)
Delivered(f, e, from, to) ==
    /\ contig' = (contig /\ from = f[e].pos + 1 /\ from <= to)
    /\ gotEver' = gotEver \cup (from .. to)
    /\ gotSince' = IF f[e].old THEN gotSince ELSE gotSince \cup (from .. to)
    /\ startOK' = startOK
    /\ ep' = Norm([f EXCEPT ![e].pos = to, ![e].late = FALSE, ![e].lfrom = 0, ![e].lto = 0])

(* go exporter.Accept(batch) -> errChan (the pipeline has not looked yet)    *)
ExpAcceptOK ==
    /\ pipe.st = "fetched"
    /\ Delivered(ep, pipe.e, pipe.from, pipe.to)
    /\ pipe' = [pipe EXCEPT !.st = "acked"]
    /\ Rec(H("AcceptOK", pipe.e, pipe.from, pipe.to))
    /\ UNCHANGED <<produced, persisted, mu, alive, running, mgr, bounds>>

(* Accept returns an error (exporter failure): the pipeline waits             *)
(* PushRetryPeriod (state "retry": no call is in flight, the select listens   *)
(* to the stop channel and the timer) and sends the same batch again.         *)
(* (A DriverFacade that is not ready yet fails the same way without the       *)
(* exporter seeing anything: not an event, covered by "fetched" stuttering.)  *)
ExpAcceptFail ==
    /\ pipe.st = "fetched"
    /\ nFail < MaxFail
    /\ nFail' = nFail + 1
    /\ pipe' = IF Mutant = "AdvanceOnFail"
                 THEN [pipe EXCEPT !.st = "idle", !.last = pipe.to, !.from = 0, !.to = 0]
                 ELSE [pipe EXCEPT !.st = "retry"]
    /\ Rec(H("AcceptFail", pipe.e, pipe.from, pipe.to))
    /\ UNCHANGED <<produced, persisted, mu, alive, running, mgr, ep, nStops, nResets, nRestarts, obs>>

(* case <-time.After(PushRetryPeriod + jitter): continue -> a new Accept goroutine *)
PipeRetry ==
    /\ pipe.st = "retry"
    /\ pipe' = [pipe EXCEPT !.st = "fetched"]
    /\ Rec(H("Retry", pipe.e, pipe.from, pipe.to))
    /\ UNCHANGED <<produced, persisted, mu, alive, running, mgr, ep, bounds, obs>>

(* case err := <-errChan (nil): p.pipeline.LastLogID = last id of the batch; *)
(* then the goroutine blocks on `ingestedLogs <- id` (it no longer listens   *)
(* to stopChannel there).                                                    *)
PipeAdvance ==
    /\ pipe.st = "acked"
    /\ pipe' = [pipe EXCEPT !.st = "sending", !.last = pipe.to, !.from = 0, !.to = 0]
    /\ Rec(H("Advance", pipe.e, pipe.to, 0))
    /\ UNCHANGED <<produced, persisted, mu, alive, running, mgr, ep, bounds, obs>>

(* unbuffered channel hand-off pipeline -> subscriber                        *)
Handoff ==
    /\ pipe.st = "sending"
    /\ ep[pipe.e].sub = "idle"
    /\ ep' = [ep EXCEPT ![pipe.e].sub = "storing", ![pipe.e].val = pipe.last]
    /\ pipe' = [pipe EXCEPT !.st = "idle"]
    /\ Rec(H("Handoff", pipe.e, pipe.last, 0))
    /\ UNCHANGED <<produced, persisted, mu, alive, running, mgr, bounds, obs>>

(* case ch := <-p.stopChannel: (cancel();) close(ch); return.  Possible in   *)
(* every select of Run; in state "acked" the select may pick either branch.  *)
(* If the Accept goroutine is still out (state "fetched"), its call may reach *)
(* the exporter later (ep[e].late).  Shutdown() returns in the manager.      *)
(* JoinSubscriber: the goroutine that ran Run closes the subscription at once *)
(* (no mutex needed); the manager then waits for the subscriber (Drained).    *)
PipeTakeStop ==
    /\ pipe.stopReq
    /\ pipe.st \in {"idle", "fetched", "retry", "acked"}
    /\ mgr.pc = "wait"
    /\ mgr' = [mgr EXCEPT !.pc = "stopped", !.se = pipe.e]
    /\ ep' = IF pipe.st = "fetched" /\ LateAccepts
               THEN [ep EXCEPT ![pipe.e].closing = TRUE, ![pipe.e].late = TRUE,
                               ![pipe.e].open = ~JoinSubscriber,
                               ![pipe.e].lfrom = pipe.from, ![pipe.e].lto = pipe.to]
               ELSE [ep EXCEPT ![pipe.e].closing = TRUE, ![pipe.e].pos = 0,
                               ![pipe.e].open = ~JoinSubscriber]
    /\ pipe' = NoPipe
    /\ Rec(H("TakeStop", pipe.e, 0, 0))
    /\ UNCHANGED <<produced, persisted, mu, alive, running, bounds, obs>>

(* The Accept call that was in flight when its pipeline stopped.             *)
LateAcceptOK(e) ==
    /\ ep[e].late
    /\ Delivered([ep EXCEPT ![e].pos = ep[e].pos], e, ep[e].lfrom, ep[e].lto)
    /\ Rec(H("LateAcceptOK", e, ep[e].lfrom, ep[e].lto))
    /\ UNCHANGED <<produced, persisted, mu, alive, running, mgr, pipe, bounds>>

LateAcceptFail(e) ==
    /\ ep[e].late
    /\ ep' = Norm([ep EXCEPT ![e].late = FALSE, ![e].lfrom = 0, ![e].lto = 0, ![e].pos = 0])
    /\ Rec(H("LateAcceptFail", e, ep[e].lfrom, ep[e].lto))
    /\ UNCHANGED <<produced, persisted, mu, alive, running, mgr, pipe, bounds, obs>>

(* deferred func of the goroutine running Run: m.mu.Lock(); close(subscription); Done() *)
Closer(e) ==
    /\ ep[e].closing
    /\ mu = "free"
    /\ ep' = Norm([ep EXCEPT ![e].closing = FALSE, ![e].open = FALSE])
    /\ Rec(H("Close", e, 0, 0))
    /\ UNCHANGED <<produced, persisted, mu, alive, running, mgr, pipe, bounds, obs>>

-----------------------------------------------------------------------------
(* Subscriber goroutine: for id := range subscription { StorePipelineState } *)
(* UPDATE _system.pipelines SET last_log_id = id WHERE id = ? (unconditional) *)
StoredValue(e) == IF Mutant = "SubAhead" THEN ep[e].val + 1 ELSE ep[e].val

SubStore(e) ==
    /\ ep[e].sub = "storing"
    /\ persisted' = StoredValue(e)
    /\ ep' = Norm([ep EXCEPT ![e].sub = "idle", ![e].val = 0])
    /\ Rec(H("Store", e, StoredValue(e), 0))
    /\ UNCHANGED <<produced, mu, alive, running, mgr, pipe, bounds, obs>>

-----------------------------------------------------------------------------
(* Manager operations.  Each holds m.mu from Begin to its last step.         *)

BeginOp(op, pc, was) ==
    /\ mu' = "mgr"
    /\ mgr' = [op |-> op, pc |-> pc, loc |-> 0, was |-> was, se |-> 0]

(* stopPipeline: `<-handler.drained` after Shutdown (mgr.se = the epoch that was stopped) *)
Drained == IF JoinSubscriber /\ mgr.se # 0 THEN ep[mgr.se].sub = "idle" ELSE TRUE

AskStop == pipe' = [pipe EXCEPT !.stopReq = TRUE]   \* handler.Shutdown: stopChannel <- ch

(* startPipeline: NewPipelineHandler(pipeline row), subscription := make(chan    *)
(* uint64), go subscriber, go Run.  e: a fresh epoch id.                       *)
MgrSpawn(e) ==
    /\ mgr.pc = "read"
    /\ e \notin DOMAIN ep
    /\ ep' = [x \in (DOMAIN ep) \cup {e} |->
                IF x = e
                  THEN [sub |-> "idle", val |-> 0, open |-> TRUE, closing |-> FALSE,
                        late |-> FALSE, lfrom |-> 0, lto |-> 0, pos |-> mgr.loc, old |-> FALSE]
                  ELSE ep[x]]
    /\ pipe' = [st |-> "idle", e |-> e, last |-> mgr.loc, from |-> 0, to |-> 0, stopReq |-> FALSE]
    /\ startOK' = (startOK /\ mgr.loc <= Max(gotSince))
    /\ Rec(H("Spawn", e, mgr.loc, 0))
    /\ running' = TRUE
    /\ mu' = "free"
    /\ mgr' = NoMgr
    /\ UNCHANGED <<produced, persisted, alive, bounds, gotEver, gotSince, contig>>

(* ---- StopPipeline ---- *)
MgrStopBegin ==
    /\ alive /\ mgr.op = "none" /\ mu = "free" /\ running
    /\ nStops < MaxStops
    /\ nStops' = nStops + 1
    /\ BeginOp("stop", "wait", TRUE)
    /\ AskStop
    /\ Rec(H("StopBegin", 0, 0, 0))
    /\ UNCHANGED <<produced, persisted, alive, running, ep, nFail, nResets, nRestarts, obs>>

MgrStopEnd ==   \* delete(m.pipelines, id); stopExporterIfNeeded; unlock
    /\ mgr.op = "stop" /\ mgr.pc = "stopped"
    /\ Drained
    /\ running' = FALSE
    /\ mu' = "free"
    /\ mgr' = NoMgr
    /\ Rec(H("StopEnd", 0, 0, 0))
    /\ UNCHANGED <<produced, persisted, alive, pipe, ep, bounds, obs>>

(* ---- StartPipeline: lock; GetPipeline (reads last_log_id); startPipeline ---- *)
MgrStartRead ==
    /\ alive /\ mgr.op = "none" /\ mu = "free" /\ ~running
    /\ mu' = "mgr"
    /\ mgr' = [op |-> "start", pc |-> "read", loc |-> persisted, was |-> FALSE, se |-> 0]
    /\ Rec(H("StartRead", 0, persisted, 0))
    /\ UNCHANGED <<produced, persisted, alive, running, pipe, ep, bounds, obs>>

(* ---- ResetPipeline: lock; stopPipeline if started; UpdatePipeline(last_log_id = NULL); *)
(*      startPipeline(returned row) if it was started; unlock ---- *)
MgrResetBegin ==
    /\ alive /\ mgr.op = "none" /\ mu = "free"
    /\ nResets < MaxResets
    /\ IF running
         THEN BeginOp("reset", "wait", TRUE) /\ AskStop
         ELSE BeginOp("reset", "stopped", FALSE) /\ pipe' = pipe
    /\ Rec(H("ResetBegin", 0, 0, 0))
    /\ UNCHANGED <<produced, persisted, alive, running, ep, bounds, obs>>

MgrResetUpdate ==
    /\ mgr.op = "reset" /\ mgr.pc = "stopped"
    /\ Drained
    /\ persisted' = 0
    /\ nResets' = nResets + 1
    /\ running' = FALSE
    /\ gotSince' = {}
    /\ ep' = [e \in DOMAIN ep |-> [ep[e] EXCEPT !.old = TRUE]]
    /\ IF mgr.was
         THEN mgr' = [mgr EXCEPT !.pc = "read", !.loc = 0, !.se = 0] /\ mu' = mu
         ELSE mgr' = NoMgr /\ mu' = "free"
    /\ Rec(H("ResetUpdate", 0, 0, 0))
    /\ UNCHANGED <<produced, alive, pipe, nFail, nStops, nRestarts, gotEver, contig, startOK>>

(* ---- Manager.Stop: Run's loop calls stopPipelines (under mu), then          *)
(*      pipelinesWaitGroup.Wait() (the closers), then returns ---- *)
MgrShutdownBegin ==
    /\ alive /\ mgr.op = "none" /\ mu = "free"
    /\ nRestarts < MaxRestarts
    /\ nRestarts' = nRestarts + 1
    /\ IF running
         THEN BeginOp("shutdown", "wait", TRUE) /\ AskStop
         ELSE BeginOp("shutdown", "stopped", FALSE) /\ pipe' = pipe
    /\ Rec(H("ShutdownBegin", 0, 0, 0))
    /\ UNCHANGED <<produced, persisted, alive, running, ep, nFail, nStops, nResets, obs>>

MgrShutdownRelease ==
    /\ mgr.op = "shutdown" /\ mgr.pc = "stopped"
    /\ Drained
    /\ running' = FALSE
    /\ mu' = "free"
    /\ mgr' = [mgr EXCEPT !.pc = "drain", !.se = 0]
    /\ Rec(H("ShutdownRelease", 0, 0, 0))
    /\ UNCHANGED <<produced, persisted, alive, pipe, ep, bounds, obs>>

MgrShutdownEnd ==
    /\ mgr.op = "shutdown" /\ mgr.pc = "drain"
    /\ \A e \in DOMAIN ep : ~ep[e].closing
    /\ alive' = FALSE
    /\ mgr' = NoMgr
    /\ Rec(H("ShutdownEnd", 0, 0, 0))
    /\ UNCHANGED <<produced, persisted, mu, running, pipe, ep, bounds, obs>>

(* ---- NewManager(...).Run: lock; ListEnabledPipelines (reads last_log_id);    *)
(*      startPipeline for each; unlock ---- *)
MgrRunRead ==
    /\ ~alive /\ mgr.op = "none"
    /\ alive' = TRUE
    /\ mu' = "mgr"
    /\ mgr' = [op |-> "run", pc |-> "read", loc |-> persisted, was |-> FALSE, se |-> 0]
    /\ Rec(H("RunRead", 0, persisted, 0))
    /\ UNCHANGED <<produced, persisted, running, pipe, ep, bounds, obs>>

-----------------------------------------------------------------------------
AllDelivered ==
    /\ produced = MaxLogs
    /\ pipe.st = "idle" /\ pipe.last = produced
    /\ \A e \in DOMAIN ep : ep[e].sub = "idle"

Terminated == AllDelivered /\ UNCHANGED vars   \* so that TLC's deadlock check stays meaningful

NextEpoch == Cardinality(DOMAIN ep) + 1

PipelineStep ==
    \/ \E ps \in PageSizes : PipeFetch(ps)
    \/ ExpAcceptOK \/ PipeRetry \/ PipeAdvance \/ Handoff \/ PipeTakeStop
    \/ \E e \in DOMAIN ep : Closer(e)

SubscriberStep == \E e \in DOMAIN ep : SubStore(e)

MgrContinue ==   \* steps of an operation already begun
    \/ MgrSpawn(NextEpoch) \/ MgrStopEnd \/ MgrResetUpdate \/ MgrShutdownRelease \/ MgrShutdownEnd

EnvMustStep ==   \* "for a started pipeline": a stopped pipeline / manager is started again
    \/ MgrStartRead \/ MgrRunRead

EnvMayStep ==
    \/ MgrStopBegin \/ MgrResetBegin \/ MgrShutdownBegin
    \/ ExpAcceptFail
    \/ \E e \in DOMAIN ep : LateAcceptOK(e) \/ LateAcceptFail(e)

Next ==
    \/ Produce \/ PipelineStep \/ SubscriberStep \/ MgrContinue \/ EnvMustStep \/ EnvMayStep
    \/ Terminated

Spec == Init /\ [][Next]_vars

Fairness ==
    /\ WF_vars(Produce)
    /\ WF_vars(\E ps \in PageSizes : PipeFetch(ps))
    /\ WF_vars(ExpAcceptOK) /\ WF_vars(PipeRetry) /\ WF_vars(PipeAdvance) /\ WF_vars(Handoff) /\ WF_vars(PipeTakeStop)
    /\ WF_vars(\E e \in DOMAIN ep : Closer(e))
    /\ WF_vars(SubscriberStep)
    /\ WF_vars(MgrContinue)
    /\ WF_vars(EnvMustStep)

FairSpec == Spec /\ Fairness

-----------------------------------------------------------------------------
(* Schedule generation (cfgs with RecordHist = TRUE and ACTION_CONSTRAINT           *)
(* UrgentInternal).  The harness replays a schedule through gates on storage and     *)
(* exporter calls and by launching manager operations; it cannot delay the internal  *)
(* steps of the code.  Under this constraint such steps are taken as soon as they    *)
(* are enabled, so that every schedule TLC reports can be forced on the real code.   *)
InternalNames == {"Retry", "Advance", "Handoff", "TakeStop", "Close", "StopEnd", "ShutdownRelease", "ShutdownEnd"}

InternalEnabled ==
    \/ pipe.st = "acked"
    \/ pipe.st = "retry"
    \/ (pipe.st = "sending" /\ ep[pipe.e].sub = "idle")
    \/ (pipe.stopReq /\ pipe.st \in {"idle", "fetched", "retry", "acked"} /\ mgr.pc = "wait")
    \/ (mu = "free" /\ \E e \in DOMAIN ep : ep[e].closing)
    \/ (mgr.op = "stop" /\ mgr.pc = "stopped" /\ Drained)
    \/ (mgr.op = "shutdown" /\ mgr.pc = "stopped" /\ Drained)
    \/ (mgr.op = "shutdown" /\ mgr.pc = "drain" /\ \A e \in DOMAIN ep : ~ep[e].closing)

UrgentInternal ==
    (RecordHist /\ InternalEnabled /\ hist' # hist) => hist'[Len(hist')].a \in InternalNames

-----------------------------------------------------------------------------
(* Properties                                                               *)

TypeOK ==
    /\ produced \in 0..MaxLogs
    /\ persisted \in 0..(MaxLogs + 1)
    /\ mu \in {"free", "mgr"}
    /\ alive \in BOOLEAN /\ running \in BOOLEAN
    /\ mgr.op \in {"none", "stop", "start", "reset", "shutdown", "run"}
    /\ mgr.pc \in {"none", "wait", "stopped", "read", "drain"}
    /\ pipe.st \in {"none", "idle", "fetched", "retry", "acked", "sending"}
    /\ \A e \in DOMAIN ep : ep[e].sub \in {"idle", "storing"}
    /\ (mu = "mgr") <=> (mgr.op # "none" /\ mgr.pc # "drain")
    /\ (pipe.st # "none") => (pipe.e \in DOMAIN ep /\ ep[pipe.e].open)
    /\ gotSince \subseteq gotEver /\ gotEver \subseteq 1..MaxLogs

(* Order / no gap inside a pipeline instance: every acknowledged batch starts   *)
(* right after the previous one (the first: right after the start position).   *)
InvBatchContiguous == contig

(* A (re)start position never lies beyond what the exporter acknowledged        *)
(* since the last reset.                                                        *)
InvStartPos == startOK

(* No gap overall: what was delivered since the last reset is 1..k              *)
(* (in particular delivery restarts from the first log after a reset).          *)
InvNoGapSinceReset == gotSince = 1 .. Max(gotSince)
InvNoGapEver == gotEver = 1 .. Max(gotEver)

InvPersistedLeAcked == persisted <= Max(gotEver)

InvPersistedLeAckedSinceReset == persisted <= Max(gotSince)

(* The pipeline's in-memory position never exceeds what was acknowledged to it. *)
InvLastLeAcked == pipe.st # "none" => pipe.last <= ep[pipe.e].pos

(* Variants printing the schedule when they fail (RecordHist = TRUE).           *)
Emit(ok) == ok \/ (PrintT(<<"CASE", ToJson(hist)>>) /\ FALSE)
InvPersistedLeAckedSinceResetE == Emit(InvPersistedLeAckedSinceReset)
InvNoGapSinceResetE == Emit(InvNoGapSinceReset)
InvStartPosE == Emit(InvStartPos)
InvPersistedLeAckedE == Emit(InvPersistedLeAcked)
InvBatchContiguousE == Emit(InvBatchContiguous)

(* Liveness *)
LiveAllAccepted == \A i \in 1..MaxLogs : <>(i \in gotEver)
LiveAllAcceptedSinceReset == <>[](gotSince = 1..MaxLogs)
LivePersistedCatchesUp == <>[](persisted = MaxLogs)

=============================================================================
