------------------------------- MODULE Chart -------------------------------
(***************************************************************************)
(* Chart of accounts of a ledger schema, as implemented by                 *)
(* /repo/internal/chart.go (ChartOfAccounts / ChartSegment UnmarshalJSON,  *)
(* MarshalJSON, FindAccountSchema, ChartAccount.DefaultMetadata).          *)
(*                                                                         *)
(* A chart is modelled at the level of the JSON document the API accepts:  *)
(* a finite, prefix-closed function  path -> node  where a path is the     *)
(* sequence of JSON keys from the root (<<>> is the root object) and a     *)
(* node records the property keys found in that JSON object:               *)
(*     self  : ".self" absent / {} / non-empty (junk)                      *)
(*     pat   : name of the ".pattern" regexp ("none" = key absent)         *)
(*     props : [meta  |-> ".metadata" key present,                         *)
(*              kv    |-> per metadata key: "_" not declared,              *)
(*                        "_nodefault" declared as {}, "_null" declared    *)
(*                        with "default": null, other = default value,     *)
(*              rules |-> ".rules" key present]                            *)
(* Keys are fixed segment names, variable keys ("$label") or deliberately  *)
(* invalid names.  Regular expressions are abstracted to a finite family   *)
(* of named predicates over the finite segment alphabet (PatMatch); the    *)
(* Go harness checks that table against regexp.Match for the concrete      *)
(* regexps it renders.                                                     *)
(*                                                                         *)
(* What the code does (read from chart.go), and what this module states:   *)
(*  - a node without sub-segments is an account even without ".self";      *)
(*    an inner node is an account only with ".self"                        *)
(*  - a fixed child whose key equals the address segment always wins over  *)
(*    the variable child, and there is NO backtracking: if the fixed       *)
(*    branch then fails, the address is rejected even when the variable    *)
(*    branch would have accepted it                                        *)
(*  - a variable child without pattern matches every segment, including    *)
(*    the empty one; patterns are applied with regexp.Match (unanchored)   *)
(*  - "world" has no special treatment: it is accepted only if declared    *)
(*  - the root is not an account and has no variable child                 *)
(*  - default metadata of an accepted address = the declared keys of the   *)
(*    matched node that carry a non-null default                           *)
(*  - marshal normal form (Canon): ".self" is emitted exactly on account   *)
(*    nodes that have sub-segments, ".metadata" exactly when it was        *)
(*    present, "default": null is dropped, ".rules" is never emitted       *)
(***************************************************************************)
EXTENDS Integers, Sequences, FiniteSets, TLC

CONSTANTS
    FixedNames,     \* strings usable as fixed segment keys
    VarKeys,        \* strings "$label" usable as variable segment keys (disjoint from address segments)
    BadNames,       \* strings that are not valid segment names
    BadPatterns,    \* pattern names whose regexp does not compile
    PatMatch,       \* [valid pattern names other than "none" -> set of segment strings matched]
    MetaKeys        \* metadata keys

(* This module holds only constant-level operators (no variables), so that  *)
(* other specifications can EXTEND or INSTANCE it (C29: a posting is        *)
(* accepted by a schema iff Find(chart, source).accepted and                *)
(* Find(chart, destination).accepted; default metadata of a created        *)
(* account = Find(chart, address).meta).  ChartGen.tla adds the generator,  *)
(* the theorems TLC checks and the case emission.                           *)

Keys == FixedNames \cup VarKeys \cup BadNames

NoDefault == {"_", "_nodefault", "_null"}

PlainProps == [meta |-> FALSE, kv |-> [k \in MetaKeys |-> "_"], rules |-> FALSE]
PlainNode  == [self |-> "absent", pat |-> "none", props |-> PlainProps]

Last(p) == p[Len(p)]

---------------------------------------------------------------------------
(* Structure                                                               *)

Children(ch, p) == {k \in Keys : Append(p, k) \in DOMAIN ch}
IsLeaf(ch, p)   == Children(ch, p) = {}
\* ChartSegment.UnmarshalJSON: isAccount = has ".self" || isLeaf
IsAccount(ch, p) == ch[p].self # "absent" \/ IsLeaf(ch, p)

Depth(ch) == LET S == {Len(p) : p \in DOMAIN ch} IN CHOOSE d \in S : \A e \in S : e <= d

---------------------------------------------------------------------------
(* Validity: what UnmarshalJSON rejects.  A defect is <<rule, path>>.      *)

Defects(ch) ==
    LET D  == DOMAIN ch
        NR == D \ {<< >>}
        r  == ch[<< >>]
    IN    {<<"root-variable", p>> : p \in {q \in NR : Len(q) = 1 /\ q[1] \in VarKeys}}
     \cup {<<"root-account", << >> >> : x \in {y \in {1} :
                 r.self # "absent" \/ r.props.meta \/ r.props.rules \/ r.pat # "none"}}
     \cup {<<"pattern-on-fixed", p>> : p \in {q \in NR : Last(q) \notin VarKeys /\ ch[q].pat # "none"}}
     \cup {<<"two-variables", p>> : p \in {q \in D : Cardinality(Children(ch, q) \cap VarKeys) >= 2}}
     \cup {<<"props-on-non-account", p>> : p \in {q \in NR :
                 (ch[q].props.meta \/ ch[q].props.rules) /\ ~IsAccount(ch, q)}}
     \cup {<<"bad-name", p>> : p \in {q \in NR : Last(q) \in BadNames}}
     \cup {<<"bad-pattern", p>> : p \in {q \in NR : Last(q) \in VarKeys /\ ch[q].pat \in BadPatterns}}
     \cup {<<"bad-self", p>> : p \in {q \in NR : ch[q].self = "junk"}}

Valid(ch) == Defects(ch) = {}

---------------------------------------------------------------------------
(* Find: ChartOfAccounts.FindAccountSchema + ChartAccount.DefaultMetadata  *)

NoMeta == [k \in MetaKeys |-> "_"]
DefaultMeta(n) == [k \in MetaKeys |-> IF n.props.kv[k] \in NoDefault THEN "_" ELSE n.props.kv[k]]

Reject    == [accepted |-> FALSE, meta |-> NoMeta]
Accept(n) == [accepted |-> TRUE,  meta |-> DefaultMeta(n)]

Matches(pat, s) == pat = "none" \/ s \in PatMatch[pat]

\* the variable child of p, if any (valid charts have at most one)
VarChild(ch, p) == Children(ch, p) \cap VarKeys

RECURSIVE Walk(_, _, _)
Walk(ch, p, addr) ==
    LET s   == Head(addr)
        fp  == Append(p, s)
        vks == IF p = << >> THEN {} ELSE VarChild(ch, p)   \* the root has no variable segment
        Arrive(q) == IF Len(addr) > 1 THEN Walk(ch, q, Tail(addr))
                     ELSE IF IsAccount(ch, q) THEN Accept(ch[q])
                     ELSE Reject
    IN  IF s \in FixedNames /\ fp \in DOMAIN ch
        THEN Arrive(fp)                                    \* fixed child first, no backtracking
        ELSE IF vks # {}
             THEN LET vp == Append(p, CHOOSE k \in vks : TRUE)
                  IN  IF Matches(ch[vp].pat, s) THEN Arrive(vp) ELSE Reject
             ELSE Reject

Find(ch, addr) == Walk(ch, << >>, addr)

(* Declarative reading of the same rule: the nodes an address denotes.     *)
(* At every level the segment selects the fixed child of that name when    *)
(* it exists (shadowing the variable child), else the variable child when  *)
(* its pattern matches.                                                    *)
Prefix(q, i) == SubSeq(q, 1, i)
Denotes(ch, q, addr) ==
    /\ Len(q) = Len(addr)
    /\ \A i \in 1..Len(q) :
         LET par == Prefix(q, i - 1)
             s   == addr[i]
             shadow == s \in FixedNames /\ Append(par, s) \in DOMAIN ch
         IN  \/ q[i] = s /\ s \in FixedNames
             \/ /\ q[i] \in VarKeys /\ i > 1 /\ ~shadow
                /\ Matches(ch[Prefix(q, i)].pat, s)
MatchSet(ch, addr) == {q \in DOMAIN ch : Denotes(ch, q, addr)}

\* addresses the variable branch alone would accept but a fixed sibling shadows (design note)
RECURSIVE WalkVarOnly(_, _, _)
WalkVarOnly(ch, p, addr) ==
    LET s == Head(addr)
        fp == Append(p, s)
        cands == (IF s \in FixedNames /\ fp \in DOMAIN ch THEN {fp} ELSE {})
                 \cup {Append(p, k) : k \in {k2 \in (IF p = << >> THEN {} ELSE VarChild(ch, p)) :
                                                Matches(ch[Append(p, k2)].pat, s)}}
    IN  \E q \in cands : IF Len(addr) > 1 THEN WalkVarOnly(ch, q, Tail(addr)) ELSE IsAccount(ch, q)
Shadowed(ch, addr) == ~Find(ch, addr).accepted /\ WalkVarOnly(ch, << >>, addr)

---------------------------------------------------------------------------
(* Canon: the JSON normal form MarshalJSON produces after UnmarshalJSON    *)

CanonKV(kv) == [k \in MetaKeys |-> IF kv[k] = "_null" THEN "_nodefault" ELSE kv[k]]
CanonNode(ch, p) ==
    [self  |-> IF p # << >> /\ IsAccount(ch, p) /\ ~IsLeaf(ch, p) THEN "empty" ELSE "absent",
     pat   |-> ch[p].pat,
     props |-> [meta  |-> ch[p].props.meta,
                kv    |-> CanonKV(ch[p].props.kv),
                rules |-> FALSE]]
Canon(ch) == [p \in DOMAIN ch |-> CanonNode(ch, p)]
=============================================================================
