------------------------------- MODULE Chart -------------------------------
(***************************************************************************)
(* Chart of accounts of a ledger schema, as implemented by                 *)
(* /repo/internal/chart.go (ChartOfAccounts / ChartSegment UnmarshalJSON,  *)
(* MarshalJSON, FindAccountSchema, ChartAccount.DefaultMetadata).          *)
(*                                                                         *)
(* A chart is modelled at the level of the JSON document the API accepts:  *)
(* a finite, prefix-closed function  path -> node  where a path is the     *)
(* sequence of JSON keys from the root (<<>> is the root object) and a     *)
(* node records the property keys found in that JSON object:               *)
(*     self  : ".self" absent / {} / non-empty (junk)                      *)
(*     pat   : name of the ".pattern" regexp ("none" = key absent)         *)
(*     props : [meta  |-> ".metadata" key present,                         *)
(*              kv    |-> per metadata key: "_" not declared,              *)
(*                        "_nodefault" declared as {}, "_null" declared    *)
(*                        with "default": null, other = default value,     *)
(*              rules |-> ".rules" key present]                            *)
(* Keys are fixed segment names, variable keys ("$label") or deliberately  *)
(* invalid names.  Regular expressions are abstracted to a finite family   *)
(* of named predicates over the finite segment alphabet (PatMatch); the    *)
(* Go harness checks that table against regexp.Match for the concrete      *)
(* regexps it renders.                                                     *)
(*                                                                         *)
(* What the code does (read from chart.go), and what this module states:   *)
(*  - a node without sub-segments is an account even without ".self";      *)
(*    an inner node is an account only with ".self"                        *)
(*  - a fixed child whose key equals the address segment always wins over  *)
(*    the variable child, and there is NO backtracking: if the fixed       *)
(*    branch then fails, the address is rejected even when the variable    *)
(*    branch would have accepted it                                        *)
(*  - a variable child without pattern matches every segment, including    *)
(*    the empty one; patterns are applied with regexp.Match (unanchored)   *)
(*  - "world" has no special treatment: it is accepted only if declared    *)
(*  - the root is not an account and has no variable child                 *)
(*  - default metadata of an accepted address = the declared keys of the   *)
(*    matched node that carry a non-null default                           *)
(*  - marshal normal form (Canon): ".self" is emitted exactly on account   *)
(*    nodes that have sub-segments, ".metadata" exactly when it was        *)
(*    present, "default": null is dropped, ".rules" is never emitted       *)
(***************************************************************************)
EXTENDS Integers, Sequences, FiniteSets, TLC, Json

CONSTANTS
    FixedNames,     \* strings usable as fixed segment keys
    VarKeys,        \* strings "$label" usable as variable segment keys
    BadNames,       \* strings that are not valid segment names
    Patterns,       \* pattern names; contains "none"
    BadPatterns,    \* subset of Patterns: regexps that do not compile
    PatMatch,       \* [Patterns \ BadPatterns -> SUBSET Alphabet]: segments matched
    SelfMenu,       \* subset of {"absent", "empty", "junk"}
    PropsMenu,      \* set of props records (see above)
    RootMenu,       \* set of nodes the root may be initialised with
    MetaKeys,       \* metadata keys
    Alphabet,       \* address segment strings (disjoint from VarKeys)
    MaxAddrLen,     \* addresses have 1..MaxAddrLen segments
    MaxNodes,       \* max number of non-root nodes of a generated chart
    MaxDepth,       \* max path length of a generated chart
    AllowDefects,   \* TRUE: also generate charts with exactly one validity defect
    EmitMin,        \* emit a CASE for charts with at least that many non-root nodes
    TxMenu, QMenu   \* sequences of sets of template ids (opaque to the chart)

VARIABLES c,        \* the chart under construction
          nd        \* number of validity defects of c (derived; keeps the guard of Next cheap)

Keys == FixedNames \cup VarKeys \cup BadNames

NoDefault == {"_", "_nodefault", "_null"}

PlainProps == [meta |-> FALSE, kv |-> [k \in MetaKeys |-> "_"], rules |-> FALSE]
PlainNode  == [self |-> "absent", pat |-> "none", props |-> PlainProps]

Last(p) == p[Len(p)]

---------------------------------------------------------------------------
(* Structure                                                               *)

Children(ch, p) == {k \in Keys : Append(p, k) \in DOMAIN ch}
IsLeaf(ch, p)   == Children(ch, p) = {}
\* ChartSegment.UnmarshalJSON: isAccount = has ".self" || isLeaf
IsAccount(ch, p) == ch[p].self # "absent" \/ IsLeaf(ch, p)

Depth(ch) == LET S == {Len(p) : p \in DOMAIN ch} IN CHOOSE d \in S : \A e \in S : e <= d

---------------------------------------------------------------------------
(* Validity: what UnmarshalJSON rejects.  A defect is <<rule, path>>.      *)

Defects(ch) ==
    LET D  == DOMAIN ch
        NR == D \ {<< >>}
        r  == ch[<< >>]
    IN    {<<"root-variable", p>> : p \in {q \in NR : Len(q) = 1 /\ q[1] \in VarKeys}}
     \cup {<<"root-account", << >> >> : x \in {y \in {1} :
                 r.self # "absent" \/ r.props.meta \/ r.props.rules \/ r.pat # "none"}}
     \cup {<<"pattern-on-fixed", p>> : p \in {q \in NR : Last(q) \notin VarKeys /\ ch[q].pat # "none"}}
     \cup {<<"two-variables", p>> : p \in {q \in D : Cardinality(Children(ch, q) \cap VarKeys) >= 2}}
     \cup {<<"props-on-non-account", p>> : p \in {q \in NR :
                 (ch[q].props.meta \/ ch[q].props.rules) /\ ~IsAccount(ch, q)}}
     \cup {<<"bad-name", p>> : p \in {q \in NR : Last(q) \in BadNames}}
     \cup {<<"bad-pattern", p>> : p \in {q \in NR : Last(q) \in VarKeys /\ ch[q].pat \in BadPatterns}}
     \cup {<<"bad-self", p>> : p \in {q \in NR : ch[q].self = "junk"}}

Valid(ch) == Defects(ch) = {}

---------------------------------------------------------------------------
(* Find: ChartOfAccounts.FindAccountSchema + ChartAccount.DefaultMetadata  *)

NoMeta == [k \in MetaKeys |-> "_"]
DefaultMeta(n) == [k \in MetaKeys |-> IF n.props.kv[k] \in NoDefault THEN "_" ELSE n.props.kv[k]]

Reject    == [accepted |-> FALSE, meta |-> NoMeta]
Accept(n) == [accepted |-> TRUE,  meta |-> DefaultMeta(n)]

Matches(pat, s) == pat = "none" \/ s \in PatMatch[pat]

\* the variable child of p, if any (valid charts have at most one)
VarChild(ch, p) == Children(ch, p) \cap VarKeys

RECURSIVE Walk(_, _, _)
Walk(ch, p, addr) ==
    LET s   == Head(addr)
        fp  == Append(p, s)
        vks == IF p = << >> THEN {} ELSE VarChild(ch, p)   \* the root has no variable segment
        Arrive(q) == IF Len(addr) > 1 THEN Walk(ch, q, Tail(addr))
                     ELSE IF IsAccount(ch, q) THEN Accept(ch[q])
                     ELSE Reject
    IN  IF s \in FixedNames /\ fp \in DOMAIN ch
        THEN Arrive(fp)                                    \* fixed child first, no backtracking
        ELSE IF vks # {}
             THEN LET vp == Append(p, CHOOSE k \in vks : TRUE)
                  IN  IF Matches(ch[vp].pat, s) THEN Arrive(vp) ELSE Reject
             ELSE Reject

Find(ch, addr) == Walk(ch, << >>, addr)

(* Declarative reading of the same rule: the nodes an address denotes.     *)
(* At every level the segment selects the fixed child of that name when    *)
(* it exists (shadowing the variable child), else the variable child when  *)
(* its pattern matches.                                                    *)
Prefix(q, i) == SubSeq(q, 1, i)
Denotes(ch, q, addr) ==
    /\ Len(q) = Len(addr)
    /\ \A i \in 1..Len(q) :
         LET par == Prefix(q, i - 1)
             s   == addr[i]
             shadow == s \in FixedNames /\ Append(par, s) \in DOMAIN ch
         IN  \/ q[i] = s /\ s \in FixedNames
             \/ /\ q[i] \in VarKeys /\ i > 1 /\ ~shadow
                /\ Matches(ch[Prefix(q, i)].pat, s)
MatchSet(ch, addr) == {q \in DOMAIN ch : Denotes(ch, q, addr)}

\* addresses the variable branch alone would accept but a fixed sibling shadows (design note)
RECURSIVE WalkVarOnly(_, _, _)
WalkVarOnly(ch, p, addr) ==
    LET s == Head(addr)
        fp == Append(p, s)
        cands == (IF s \in FixedNames /\ fp \in DOMAIN ch THEN {fp} ELSE {})
                 \cup {Append(p, k) : k \in {k2 \in (IF p = << >> THEN {} ELSE VarChild(ch, p)) :
                                                Matches(ch[Append(p, k2)].pat, s)}}
    IN  \E q \in cands : IF Len(addr) > 1 THEN WalkVarOnly(ch, q, Tail(addr)) ELSE IsAccount(ch, q)
Shadowed(ch, addr) == ~Find(ch, addr).accepted /\ WalkVarOnly(ch, << >>, addr)

---------------------------------------------------------------------------
(* Canon: the JSON normal form MarshalJSON produces after UnmarshalJSON    *)

CanonKV(kv) == [k \in MetaKeys |-> IF kv[k] = "_null" THEN "_nodefault" ELSE kv[k]]
CanonNode(ch, p) ==
    [self  |-> IF p # << >> /\ IsAccount(ch, p) /\ ~IsLeaf(ch, p) THEN "empty" ELSE "absent",
     pat   |-> ch[p].pat,
     props |-> [meta  |-> ch[p].props.meta,
                kv    |-> CanonKV(ch[p].props.kv),
                rules |-> FALSE]]
Canon(ch) == [p \in DOMAIN ch |-> CanonNode(ch, p)]

---------------------------------------------------------------------------
(* Addresses and schema-level round trip                                   *)

Addresses == UNION {[1..n -> Alphabet] : n \in 1..MaxAddrLen}

NNodes(ch) == Cardinality(DOMAIN ch) - 1

\* templates / query templates are opaque values carried next to the chart
TxOf(ch) == TxMenu[(NNodes(ch) % Len(TxMenu)) + 1]
QOf(ch)  == QMenu[((NNodes(ch) + Depth(ch)) % Len(QMenu)) + 1]
Schema(ch)    == [chart |-> ch, tx |-> TxOf(ch), queries |-> QOf(ch)]
RoundTrip(s)  == [chart |-> Canon(s.chart), tx |-> s.tx, queries |-> s.queries]
Meaning(s)    == [find |-> [a \in Addresses |-> Find(s.chart, a)], tx |-> s.tx, queries |-> s.queries]

---------------------------------------------------------------------------
(* Generation: add one node at a time; every valid chart with at most      *)
(* MaxNodes nodes and depth <= MaxDepth is reachable through valid charts. *)

Init == /\ c \in {(<< >> :> r) : r \in RootMenu}
        /\ nd = Cardinality(Defects(c))

Add(p, k, n) ==
    /\ nd = 0                                   \* charts with a defect are terminal
    /\ NNodes(c) < MaxNodes
    /\ Len(p) < MaxDepth
    /\ Append(p, k) \notin DOMAIN c
    /\ c' = (Append(p, k) :> n) @@ c
    /\ nd' = Cardinality(Defects(c'))
    /\ nd' <= (IF AllowDefects THEN 1 ELSE 0)

Next == \E k \in Keys, s \in SelfMenu, pr \in PropsMenu, pt \in Patterns :
            \E p \in DOMAIN c : Add(p, k, [self |-> s, pat |-> pt, props |-> pr])

vars == <<c, nd>>
Spec == Init /\ [][Next]_vars

---------------------------------------------------------------------------
(* Theorems checked by TLC on every generated chart                        *)

TypeOK ==
    /\ nd = Cardinality(Defects(c))
    /\ << >> \in DOMAIN c
    /\ \A p \in DOMAIN c : Len(p) > 0 => SubSeq(p, 1, Len(p) - 1) \in DOMAIN c    \* prefix closed

\* design-level C30: the schema means the same after marshal/unmarshal
ThmRoundTripMeaning == Valid(c) => Meaning(RoundTrip(Schema(c))) = Meaning(Schema(c))
ThmCanonFind  == Valid(c) => \A a \in Addresses : Find(Canon(c), a) = Find(c, a)
ThmCanonValid == Valid(c) => Valid(Canon(c))
ThmCanonIdem  == Valid(c) => Canon(Canon(c)) = Canon(c)
\* determinism: an address denotes at most one node, and Find is exactly "that node is an account"
ThmUnique == Valid(c) => \A a \in Addresses :
                 LET M == MatchSet(c, a)
                     f == Find(c, a)
                 IN  /\ Cardinality(M) <= 1
                     /\ f.accepted <=> \E q \in M : IsAccount(c, q)
                     /\ \A q \in M : IsAccount(c, q) => f.meta = DefaultMeta(c[q])
                     /\ ~f.accepted => f.meta = NoMeta
\* every declared leaf is an account; every declared account is reachable by some address of the
\* alphabet unless a pattern excludes all of it (not asserted) -- asserted: fixed-only paths accept
ThmFixedPathAccepted == Valid(c) => \A p \in DOMAIN c :
                 (p # << >> /\ Len(p) <= MaxAddrLen /\ (\A i \in 1..Len(p) : p[i] \in FixedNames \cap Alphabet)
                  /\ IsAccount(c, p)) => Find(c, p).accepted

---------------------------------------------------------------------------
(* Case emission (Flow A): the chart, its validity, its normal form and    *)
(* the accepted addresses with their default metadata.  Rejected addresses *)
(* are the complement within Addresses (printed once by the header).       *)

NodeSet(ch) == {[p |-> p, self |-> ch[p].self, pat |-> ch[p].pat, props |-> ch[p].props] : p \in DOMAIN ch}

CaseOf(ch) ==
    IF Valid(ch)
    THEN LET F   == [a \in Addresses |-> Find(ch, a)]
             Acc == {a \in Addresses : F[a].accepted}
         IN  [kind |-> "chart", valid |-> TRUE, nodes |-> NodeSet(ch), canon |-> NodeSet(Canon(ch)),
              defects |-> << >>,
              accepted |-> {[a |-> a, meta |-> F[a].meta] : a \in Acc},
              shadowed |-> {a \in Addresses \ Acc : WalkVarOnly(ch, << >>, a)},
              tx |-> TxOf(ch), queries |-> QOf(ch)]
    ELSE [kind |-> "chart", valid |-> FALSE, nodes |-> NodeSet(ch), canon |-> << >>,
          defects |-> Defects(ch), accepted |-> << >>, shadowed |-> << >>,
          tx |-> TxOf(ch), queries |-> QOf(ch)]

Header == [kind |-> "header", addresses |-> Addresses, alphabet |-> Alphabet,
           patmatch |-> [pt \in (Patterns \ BadPatterns) \ {"none"} |-> PatMatch[pt]],
           badpatterns |-> BadPatterns, fixed |-> FixedNames, varkeys |-> VarKeys, badnames |-> BadNames,
           maxnodes |-> MaxNodes, maxdepth |-> MaxDepth, maxaddrlen |-> MaxAddrLen]

Emit == NNodes(c) >= EmitMin => PrintT(<<"CASE", ToJson(CaseOf(c))>>)

ASSUME Alphabet \cap VarKeys = {} /\ "none" \in Patterns /\ BadPatterns \subseteq Patterns
ASSUME PrintT(<<"CASE", ToJson(Header)>>)
=============================================================================
