SPECIFICATION Spec
CONSTANTS
  Programs <- MCPrograms
  ErrKinds <- MCErrKinds
  Retryable <- MCRetryable
  Emit = TRUE
INVARIANTS
  Inv_NoTraceUnlessCommit
  Inv_EventsOnlyAfterCommit
  Inv_FailedIsClean
  Inv_DoneIsComplete
  EmitCase
CHECK_DEADLOCK FALSE
