----------------------------- MODULE TraceSystem -----------------------------
(***************************************************************************)
(* Trace validation of executions of the REAL service against System.       *)
(*                                                                         *)
(* A trace is an NDJSON file written by harness/sysdrive (cmd/vh-system):   *)
(* one line per API request = the abstract operation, the classified        *)
(* response (outcome class, HTTP status, returned value) and the system as  *)
(* observed through the API right after it:                                 *)
(*   all    GET /v2?includeDeleted=true (all pages): the whole registry      *)
(*   pages  GET /v2?pageSize=2 following "next": ids of the visible ledgers  *)
(*   get    GET /v2/{n} for every name of the registry and one unknown name   *)
(*   probe  POST /v2/{n}/transactions on the oldest ledger of every bucket    *)
(*   acc    GET /v2/{n}/transactions for every name (status, #transactions)   *)
(*   exps   GET /v2/_/exporters;  pips: the controller's pipeline list        *)
(* Histories are concatenated; a line with reset = TRUE is the observation  *)
(* of a fresh database.                                                     *)
(*                                                                         *)
(* Idiom (as TraceLedger): observation-following.  The state of System       *)
(* before line i is the OBSERVATION after line i-1 completed by the few      *)
(* components the API does not show (hid: id sequence, transaction counts of *)
(* hidden ledgers, set of running pipelines), which the specification        *)
(* carries.  Named predicates compare what System!Apply prescribes with what *)
(* was observed; ReportSpec prints every failing predicate.                  *)
(* Every predicate takes the context c of its line (computed once).          *)
(***************************************************************************)
EXTENDS System, Json

CONSTANT TraceFile

Trace == ndJsonDeserialize(TraceFile)

VARIABLES l,     \* number of trace lines consumed
          hid    \* [seq, ntx, run, eseq, pseq] carried by the specification

vars == <<l, hid>>

ToSet(sq) == {sq[i] : i \in DOMAIN sq}
ToMap(ps) == [k \in {ps[i][1] : i \in DOMAIN ps} |-> ps[CHOOSE i \in DOMAIN ps : ps[i][1] = k][2]]
ToRec(r) == [name |-> r.name, bucket |-> r.bucket, feat |-> ToMap(r.feat), meta |-> ToMap(r.meta), id |-> r.id, del |-> r.del]
ToOp(o) == [o EXCEPT !.f = ToMap(o.f), !.m = ToMap(o.m)]

Hid0 == [seq |-> 0, ntx |-> NoMap, run |-> {}, eseq |-> 0, pseq |-> 0]

O(i) == Trace[i].st
IsReset(i) == Trace[i].reset
Reg(i) == [k \in DOMAIN O(i).all |-> ToRec(O(i).all[k])]
Exps(i) == [k \in DOMAIN O(i).exps |-> [id |-> O(i).exps[k], drv |-> "noop"]]

\* state of System made of the observation after line i and of the carried components h
St(i, h) == [reg |-> Reg(i), seq |-> h.seq, ntx |-> h.ntx, exps |-> Exps(i), eseq |-> h.eseq,
             pips |-> O(i).pips, pseq |-> h.pseq, run |-> h.run]
HidOf(s) == [seq |-> s.seq, ntx |-> s.ntx, run |-> s.run, eseq |-> s.eseq, pseq |-> s.pseq]

\* context of line i (not a reset line), given the carried components h before it:
\*   b   state before the request            op / res  the request and its classified response
\*   x   what System prescribes: Apply(b, op) t        x.s after the recorder's write probes
\*   a   the OBSERVED successor completed with the prescribed hidden components;  o  the raw observation
Ctx(i, h) ==
  LET b == St(i - 1, h)
      op == ToOp(Trace[i].op)
      x == Apply(b, op)
      t == Probed(x.s)
  IN [i |-> i, b |-> b, op |-> op, res |-> Trace[i].res, x |-> x, t |-> t, a |-> St(i, HidOf(t)), o |-> O(i)]

Init == l = 0 /\ hid = Hid0

Next ==
  /\ l < Len(Trace)
  /\ l' = l + 1
  /\ hid' = IF IsReset(l + 1) THEN Hid0 ELSE HidOf(Ctx(l + 1, hid).t)

Spec == Init /\ [][Next]_vars

(***************************************************************************)
(* State predicates on an observed state s with its raw observation o       *)
(***************************************************************************)
I_SYS_UniqueNames(s, o) == UniqueNames(s)
I_SYS_IdsIncreasing(s, o) == \A a, b \in DOMAIN s.reg : a < b => s.reg[a].id < s.reg[b].id
I_SYS_WellFormed(s, o) == WellFormed(s)
\* the paged listing returns every visible ledger exactly once, in id order, in full pages
I_SYS_Pagination(s, o) == o.pages = Chunk(VisIds(s), 2)
\* GET /v2/{n} answers exactly the alive ledgers, with the registry's record
I_SYS_GetMatches(s, o) ==
  \A k \in DOMAIN o.get :
     LET g == o.get[k]
     IN IF Alive(s, g.n) THEN g.out = "ok" /\ ToRec(g.rec) = Entry(s, g.n) ELSE g.out = "not_found"
\* reads of a ledger are served exactly when it is alive (a deleted bucket hides exactly its ledgers)
I_SYS_ReadGate(s, o) ==
  \A k \in DOMAIN o.acc : IF Alive(s, o.acc[k].n) THEN o.acc[k].rd = "ok" ELSE o.acc[k].rd = "ledger_not_found"

(***************************************************************************)
(* Step predicates on the context c of a line (not a reset line)            *)
(***************************************************************************)
P_SYS_Universe(i) == /\ Trace[i].op.k \in Kinds
                     /\ Trace[i].op.n \in NameUniverse \cup {""}
                     /\ Trace[i].op.b \in BucketUniverse
\* the outcome class and HTTP status are the ones System prescribes
P_SYS_Outcome(c) == c.res.out = c.x.out
P_SYS_Status(c) == c.res.out = c.x.out => c.res.st = c.x.st
\* name / bucket / feature validation and duplicate names, as in the code
P_SYS_Validation(c) == c.op.k = "create" => ((c.res.out = "validation") <=> (c.x.out = "validation"))
P_SYS_DuplicateName(c) == c.op.k = "create" => ((c.res.out = "conflict") <=> (c.x.out = "conflict"))
\* the observed registry is the prescribed one (new ledger with the drawn id, defaults, metadata; marks; metadata)
P_SYS_Created(c) == c.op.k = "create" => c.a.reg = c.x.s.reg
P_SYS_Metadata(c) == c.op.k \in {"setmeta", "delmeta"} => c.a.reg = c.x.s.reg
P_SYS_BucketMarks(c) == c.op.k \in {"delbucket", "restore"} => c.a.reg = c.x.s.reg
P_SYS_NoEffect(c) == c.op.k \notin {"create", "setmeta", "delmeta", "delbucket", "restore"} => c.a.reg = c.b.reg
\* frame conditions, on the OBSERVED successor
P_SYS_Immutable(c) == Immutable(c.b, c.a)
P_SYS_MetaScope(c) == MetaScope(c.b, c.op, c.a)
P_SYS_BucketFrame(c) == c.op.k \in {"delbucket", "restore"} =>
                           /\ Len(c.a.reg) = Len(c.b.reg)
                           /\ \A k \in DOMAIN c.b.reg : c.b.reg[k].bucket # c.op.b => c.a.reg[k] = c.b.reg[k]
P_SYS_HidesExactly(c) == HidesExactly(c.b, c.op, c.a)
P_SYS_OthersKeepMarks(c) == Len(c.a.reg) >= Len(c.b.reg) => OthersKeepMarks(c.b, c.op, c.a)
\* values returned by reads
P_SYS_ListResult(c) == c.op.k = "list" /\ c.x.out = "ok" /\ c.res.out = "ok" => c.res.pages = c.x.val
P_SYS_Value(c) ==
  c.x.out = "ok" /\ c.res.out = "ok" =>
    CASE c.op.k = "get" -> ToRec(c.res.rec) = c.x.val
      [] c.op.k \in {"stats", "read"} -> c.res.num = c.x.val
      [] c.op.k = "info" -> c.res.name = c.x.val
      [] c.op.k \in {"ecreate", "pcreate", "eget"} -> c.res.num = c.x.val
      [] c.op.k \in {"elist", "plist"} -> ToSet(c.res.ids) = c.x.val
      [] c.op.k = "pget" -> c.res.pip = c.x.val
      [] OTHER -> TRUE
\* exporters and pipelines after the request
P_SYS_Exporters(c) == ToSet(c.o.exps) = {e.id : e \in Range(c.x.s.exps)}
P_SYS_Pipelines(c) == ToSet(c.o.pips) = Range(c.x.s.pips)
\* write probes: accepted exactly on alive ledgers; the counts read back are the prescribed ones
P_SYS_Probe(c) ==
  /\ {c.o.probe[k].n : k \in DOMAIN c.o.probe} = ProbeSet(c.x.s)
  /\ \A k \in DOMAIN c.o.probe :
        c.o.probe[k].out = (IF Alive(c.x.s, c.o.probe[k].n) THEN "ok" ELSE "ledger_not_found")
P_SYS_Ntx(c) == \A k \in DOMAIN c.o.acc :
                   LET a == c.o.acc[k] IN a.rd = "ok" /\ a.n \in DOMAIN c.t.ntx => a.ntx = c.t.ntx[a.n]

P_ResetPristine(i) == O(i).all = <<>> /\ O(i).exps = <<>> /\ O(i).pips = <<>>

(***************************************************************************)
(* The same predicates as TLC invariants / action properties                *)
(***************************************************************************)
SI(P(_, _)) == l >= 1 => P(St(l, Hid0), O(l))
Inv_SYS_UniqueNames == SI(I_SYS_UniqueNames)
Inv_SYS_IdsIncreasing == SI(I_SYS_IdsIncreasing)
Inv_SYS_WellFormed == SI(I_SYS_WellFormed)
Inv_SYS_Pagination == SI(I_SYS_Pagination)
Inv_SYS_GetMatches == SI(I_SYS_GetMatches)
Inv_SYS_ReadGate == SI(I_SYS_ReadGate)

SP(P(_)) == ~IsReset(l') => P(Ctx(l', hid))
Step_SYS_Universe == [][~IsReset(l') => P_SYS_Universe(l')]_vars
Step_SYS_Outcome == [][SP(P_SYS_Outcome)]_vars
Step_SYS_Status == [][SP(P_SYS_Status)]_vars
Step_SYS_Validation == [][SP(P_SYS_Validation)]_vars
Step_SYS_DuplicateName == [][SP(P_SYS_DuplicateName)]_vars
Step_SYS_Created == [][SP(P_SYS_Created)]_vars
Step_SYS_Metadata == [][SP(P_SYS_Metadata)]_vars
Step_SYS_BucketMarks == [][SP(P_SYS_BucketMarks)]_vars
Step_SYS_NoEffect == [][SP(P_SYS_NoEffect)]_vars
Step_SYS_Immutable == [][SP(P_SYS_Immutable)]_vars
Step_SYS_MetaScope == [][SP(P_SYS_MetaScope)]_vars
Step_SYS_BucketFrame == [][SP(P_SYS_BucketFrame)]_vars
Step_SYS_HidesExactly == [][SP(P_SYS_HidesExactly)]_vars
Step_SYS_OthersKeepMarks == [][SP(P_SYS_OthersKeepMarks)]_vars
Step_SYS_ListResult == [][SP(P_SYS_ListResult)]_vars
Step_SYS_Value == [][SP(P_SYS_Value)]_vars
Step_SYS_Exporters == [][SP(P_SYS_Exporters)]_vars
Step_SYS_Pipelines == [][SP(P_SYS_Pipelines)]_vars
Step_SYS_Probe == [][SP(P_SYS_Probe)]_vars
Step_SYS_Ntx == [][SP(P_SYS_Ntx)]_vars
Step_ResetPristine == [][IsReset(l') => P_ResetPristine(l')]_vars

Accepted == TLCGet("stats").diameter - 1 = Len(Trace)

(***************************************************************************)
(* Report mode: evaluate every predicate on every line and print failures   *)
(***************************************************************************)
StateChecks(s, o) ==
  << <<"Inv_SYS_UniqueNames", I_SYS_UniqueNames(s, o)>>,
     <<"Inv_SYS_IdsIncreasing", I_SYS_IdsIncreasing(s, o)>>,
     <<"Inv_SYS_WellFormed", I_SYS_WellFormed(s, o)>>,
     <<"Inv_SYS_Pagination", I_SYS_Pagination(s, o)>>,
     <<"Inv_SYS_GetMatches", I_SYS_GetMatches(s, o)>>,
     <<"Inv_SYS_ReadGate", I_SYS_ReadGate(s, o)>> >>

StepChecks(c) ==
  << <<"Step_SYS_Outcome", P_SYS_Outcome(c)>>,
     <<"Step_SYS_Status", P_SYS_Status(c)>>,
     <<"Step_SYS_Validation", P_SYS_Validation(c)>>,
     <<"Step_SYS_DuplicateName", P_SYS_DuplicateName(c)>>,
     <<"Step_SYS_Created", P_SYS_Created(c)>>,
     <<"Step_SYS_Metadata", P_SYS_Metadata(c)>>,
     <<"Step_SYS_BucketMarks", P_SYS_BucketMarks(c)>>,
     <<"Step_SYS_NoEffect", P_SYS_NoEffect(c)>>,
     <<"Step_SYS_Immutable", P_SYS_Immutable(c)>>,
     <<"Step_SYS_MetaScope", P_SYS_MetaScope(c)>>,
     <<"Step_SYS_BucketFrame", P_SYS_BucketFrame(c)>>,
     <<"Step_SYS_HidesExactly", P_SYS_HidesExactly(c)>>,
     <<"Step_SYS_OthersKeepMarks", P_SYS_OthersKeepMarks(c)>>,
     <<"Step_SYS_ListResult", P_SYS_ListResult(c)>>,
     <<"Step_SYS_Value", P_SYS_Value(c)>>,
     <<"Step_SYS_Exporters", P_SYS_Exporters(c)>>,
     <<"Step_SYS_Pipelines", P_SYS_Pipelines(c)>>,
     <<"Step_SYS_Probe", P_SYS_Probe(c)>>,
     <<"Step_SYS_Ntx", P_SYS_Ntx(c)>> >>

Report(cs, i) == \A k \in DOMAIN cs : cs[k][2] \/ PrintT(<<"FAIL", cs[k][1], i, Trace[i].case>>)

ReportNext ==
  /\ l < Len(Trace)
  /\ l' = l + 1
  /\ IF IsReset(l + 1)
     THEN /\ hid' = Hid0
          /\ Report(StateChecks(St(l + 1, Hid0), O(l + 1)), l + 1)
          /\ (P_ResetPristine(l + 1) \/ PrintT(<<"FAIL", "Step_ResetPristine", l + 1, Trace[l + 1].case>>))
     ELSE LET c == Ctx(l + 1, hid)
          IN /\ hid' = HidOf(c.t)
             /\ Report(StateChecks(c.a, c.o), l + 1)
             /\ IF P_SYS_Universe(l + 1)
                THEN Report(StepChecks(c), l + 1)
                ELSE PrintT(<<"FAIL", "Step_SYS_Universe", l + 1, Trace[l + 1].case>>)

ReportSpec == Init /\ [][ReportNext]_vars
=============================================================================
