------------------------------ MODULE MC_Ledger ------------------------------
(***************************************************************************)
(* Bounded exhaustive model of Ledger: every history of up to MaxOps       *)
(* operations from a fixed menu, with the clock advancing by 0 or 1 before *)
(* each operation (so equal, back-dated and future-dated timestamps all    *)
(* occur).  Invariants = the property predicates of Ledger.                 *)
(***************************************************************************)
EXTENDS Ledger, Json

CONSTANTS MaxOps, MaxT, Emit

VARIABLES ls, iks, now, nTx, nLog, n, h

vars == <<ls, iks, now, nTx, nLog, n, h>>

P(s, d, as, k, b) == [s |-> s, d |-> d, as |-> as, n |-> k, b |-> b]

Base == [k |-> "create", ps |-> <<>>, ts |-> 0, ref |-> "", meta |-> NoMeta, ameta |-> NoMeta,
         ik |-> "", ikin |-> 0, dry |-> FALSE, now |-> 0,
         id |-> 0, force |-> FALSE, atEff |-> FALSE, addr |-> "", key |-> ""]

M1 == [k \in {"k"} |-> "v"]
M2 == [k \in {"k"} |-> "w"]

Menu ==
  { [Base EXCEPT !.ps = <<P(World, "a", "USD", 2, 0)>>],
    [Base EXCEPT !.ps = <<P(World, "a", "USD", 2, 0)>>, !.ts = 1, !.ref = "r"],
    [Base EXCEPT !.ps = <<P("a", "b", "USD", 1, 0)>>, !.ik = "i", !.ikin = 1],
    [Base EXCEPT !.ps = <<P("a", "b", "USD", 3, 0)>>, !.ik = "i", !.ikin = 2],
    [Base EXCEPT !.ps = <<P("a", "b", "USD", 2, 1)>>, !.meta = M1],
    [Base EXCEPT !.ps = <<P("a", "a", "USD", 1, 0), P("b", "a", "USD", 1, -1)>>, !.ts = 2],
    [Base EXCEPT !.ps = <<P(World, "b", "EUR", 1, 0)>>, !.dry = TRUE],
    [Base EXCEPT !.ps = <<P("a", "b", "USD", 0, 0)>>, !.ref = "r"],
    [Base EXCEPT !.k = "revert", !.id = 1],
    [Base EXCEPT !.k = "revert", !.id = 2, !.force = TRUE, !.atEff = TRUE],
    [Base EXCEPT !.k = "txmeta", !.id = 1, !.meta = M2],
    [Base EXCEPT !.k = "untxmeta", !.id = 1, !.key = "k"],
    [Base EXCEPT !.k = "acmeta", !.addr = "c", !.meta = M1],
    [Base EXCEPT !.k = "unacmeta", !.addr = "a", !.key = "k"] }

\* requests written as scripts: metadata set by the script itself (a key set by both sides is refused,
\* request account metadata wins key by key), and an account variable whose value is malformed
SBase == [k |-> "create", ps |-> <<>>, ts |-> 0, ref |-> "", meta |-> NoMeta, ameta |-> NoMeta,
          ik |-> "", ikin |-> 0, dry |-> FALSE, now |-> 0,
          id |-> 0, force |-> FALSE, atEff |-> FALSE, addr |-> "", key |-> "",
          script |-> TRUE, smeta |-> NoMeta, sameta |-> NoMeta, vard |-> "", varok |-> FALSE]
M3 == [k \in {"r"} |-> "x"]
ScriptMenu ==
  { [SBase EXCEPT !.ps = <<P(World, "a", "USD", 1, 0)>>, !.meta = M1, !.smeta = M2],
    [SBase EXCEPT !.ps = <<P(World, "b", "USD", 1, 0)>>, !.meta = M1, !.smeta = M3,
                  !.ameta = [x \in {"c"} |-> M1], !.sameta = [x \in {"c", "b"} |-> M2], !.ik = "i", !.ikin = 3],
    [SBase EXCEPT !.ps = <<P(World, "b", "USD", 1, 0)>>, !.vard = "b ", !.varok = FALSE] }

Init ==
  /\ ls = EmptyLedger /\ iks = [x \in {} |-> 0] /\ now = 1 /\ nTx = 1 /\ nLog = 1 /\ n = 0 /\ h = <<>>

Do(op0) ==
  \E dt \in {0, 1} :
    LET t == Min2(now + dt, MaxT)
        op == [op0 EXCEPT !.now = t]
        r == Apply(ls, iks, op, nTx, nLog)
        committed == r.ok /\ ~r.hit /\ ~op.dry
        \* a reference conflict is detected at insertion, after the id was drawn: the id is burnt
        burnTx == (r.ok /\ ~r.hit /\ op.k \in {"create", "revert"}) \/ (~r.ok /\ r.err = "ref_conflict")
    IN /\ n < MaxOps
       /\ now' = t
       /\ ls' = r.ls
       /\ iks' = IF committed /\ op.ik # "" THEN [x \in DOMAIN iks \cup {op.ik} |-> IF x = op.ik THEN [ikin |-> op.ikin, id |-> r.id] ELSE iks[x]] ELSE iks
       /\ nTx' = IF burnTx THEN nTx + 1 ELSE nTx
       /\ nLog' = IF r.ok /\ ~r.hit THEN nLog + 1 ELSE nLog
       /\ n' = n + 1
       /\ h' = IF Emit THEN Append(h, [op |-> op, ok |-> r.ok, err |-> r.err, hit |-> r.hit]) ELSE h

Next == (\E op \in Menu : Do(op)) \/ (\E op \in ScriptMenu : Do(op))

Spec == Init /\ [][Next]_vars

Inv == LedgerInv(ls)

\* C07: an operation that fails, hits an idempotency key, or is a dry run leaves the ledger unchanged
NoTrace == [][\A op \in Menu : TRUE]_vars
FailedLeavesNoTrace ==
  [][(Len(ls'.logs) = Len(ls.logs)) => ls' = ls]_vars

\* C08: every committed write appends exactly one log; nothing else does
OneLogPerWrite == [][Len(ls'.logs) \in {Len(ls.logs), Len(ls.logs) + 1}]_vars

\* C03: post-commit volumes are immutable; C18: insertion dates are immutable; committed txs never vanish
Immutable ==
  [][/\ Len(ls'.txs) >= Len(ls.txs)
     /\ \A i \in DOMAIN ls.txs : /\ ls'.txs[i].pcv = ls.txs[i].pcv
                                  /\ ls'.txs[i].ps = ls.txs[i].ps
                                  /\ ls'.txs[i].id = ls.txs[i].id
                                  /\ ls'.txs[i].ts = ls.txs[i].ts
                                  /\ (ls.txs[i].rev => ls'.txs[i].rev /\ ls'.txs[i].revAt = ls.txs[i].revAt)
     /\ \A x \in ls.accts : \E y \in ls'.accts : y.addr = x.addr /\ y.ins = x.ins /\ y.first <= x.first]_vars

\* C06, sequential form: a non-world account whose every debit was bounded by 0 never goes negative.
\* ("a" is debited with allowance 1 by one menu entry, "b" by a forced posting: the model checks
\*  the exact bound for each.)
NoOverdraft ==
  LET all == AllPs(ls.txs)
  IN /\ Bal(all, "a", "USD") >= 0 - 1
     /\ Bal(all, "c", "USD") >= 0

\* emission of complete histories for replay in the real code (Flow A)
EmitCase == (Emit /\ n = MaxOps) => PrintT(<<"CASE", ToJson(h)>>)

StateConstraint == n <= MaxOps
=============================================================================
