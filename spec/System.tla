------------------------------- MODULE System -------------------------------
(***************************************************************************)
(* SYSTEM level of the ledger service: the registry of ledgers, the        *)
(* lifecycle of buckets (soft deletion / restore) and the CRUD of           *)
(* exporters and pipelines, as seen through the v2 HTTP API                 *)
(* (internal/api/v2/routes.go, internal/controller/system,                  *)
(* internal/storage/system, internal/storage/driver, internal/replication   *)
(* manager at the API/state level; the pipeline RUNTIME is Replication.tla). *)
(*                                                                         *)
(* Pure definitions: a state is a record, every API operation is a function *)
(* Apply(s, op) = [out, st, s, val] (outcome class, HTTP status, successor, *)
(* returned value).  MC_System.tla explores it, TraceSystem.tla validates   *)
(* executions of the real code against it.                                  *)
(*                                                                         *)
(* The specification models WHAT THE CODE DOES.  Behaviours that a reader   *)
(* of the API would not expect are kept and NAMED (Dev_* comments); the few *)
(* places where the specification is deliberately STRICTER than the code    *)
(* (believed defects) are marked STRICT.                                    *)
(***************************************************************************)
EXTENDS Integers, Sequences, FiniteSets, TLC

Range(f) == {f[x] : x \in DOMAIN f}
NoMap == [k \in {} |-> ""]
Merge(f, g) == [k \in DOMAIN f \cup DOMAIN g |-> IF k \in DOMAIN g THEN g[k] ELSE f[k]]
Drop(f, key) == [k \in DOMAIN f \ {key} |-> f[k]]
MapSeq(sq, F(_)) == [i \in DOMAIN sq |-> F(sq[i])]
SeqFilter(sq, T(_)) == SelectSeq(sq, T)
Reverse(sq) == [i \in DOMAIN sq |-> sq[Len(sq) + 1 - i]]

(***************************************************************************)
(* Static tables copied from the code: pkg/features/features.go             *)
(***************************************************************************)
FeatureConf ==
  [MOVES_HISTORY |-> {"ON", "OFF"},
   MOVES_HISTORY_POST_COMMIT_EFFECTIVE_VOLUMES |-> {"SYNC", "DISABLED"},
   HASH_LOGS |-> {"SYNC", "ASYNC", "DISABLED"},
   ACCOUNT_METADATA_HISTORY |-> {"SYNC", "DISABLED"},
   TRANSACTION_METADATA_HISTORY |-> {"SYNC", "DISABLED"}]
DefaultFeatures ==
  [MOVES_HISTORY |-> "ON",
   MOVES_HISTORY_POST_COMMIT_EFFECTIVE_VOLUMES |-> "SYNC",
   HASH_LOGS |-> "SYNC",
   ACCOUNT_METADATA_HISTORY |-> "SYNC",
   TRANSACTION_METADATA_HISTORY |-> "SYNC"]

\* Configuration.SetDefaults then Configuration.Validate
WithDefaults(f) == Merge(DefaultFeatures, f)
FeaturesValid(f) == \A k \in DOMAIN f : k \in DOMAIN FeatureConf /\ f[k] \in FeatureConf[k]

(***************************************************************************)
(* Names.  internal/ledger.go: ledgerNameFormat = bucketNameFormat =        *)
(* ^[0-9a-zA-Z_-]{1,63}$ ; reservedLedgerName = {"_", "_info",              *)
(* "_healthcheck"}.  TLC has no regular expressions: the specification      *)
(* classifies a FIXED UNIVERSE of names by hand (each entry justified); the *)
(* generator draws names from this universe only (TraceSystem checks it).   *)
(***************************************************************************)
N63 == "a23456789012345678901234567890123456789012345678901234567890123"    \* 63 characters: longest legal
N64 == "a234567890123456789012345678901234567890123456789012345678901234"   \* 64 characters: too long

GoodNames == {"l1", "l2", "l3", "L-4_x", N63}             \* letters, digits, '-', '_', both cases, 63 chars
FormatNames == {"bad.name", "bad name", N64}              \* '.' and ' ' are outside the class; 64 > 63
ReservedNames == {"_info", "_healthcheck"}                \* well-formed but reserved
RouteNames == {"_"}                                       \* reserved; the router mounts /v2/_ as a sub-router, so
                                                          \* a request on the "ledger" _ never reaches a ledger handler
NameUniverse == GoodNames \cup FormatNames \cup ReservedNames \cup RouteNames

GoodBuckets == {"b1", "b2", "b3", "_default"}
BadBuckets == {"bad.bucket", N64}
\* Dev_SystemSchemaIsABucketName: "_system" matches the bucket format; its schema holds the system store's own
\* migration table, which the bucket migrator reads as "initialised but not up to date": OUTDATED_SCHEMA (400)
SystemBucket == "_system"
\* "nope" and the ledger names: well-formed bucket names that no ledger ever uses (bucket delete / restore only)
BucketUniverse == GoodBuckets \cup BadBuckets \cup {SystemBucket, "", "nope"} \cup GoodNames

EffBucket(b) == IF b = "" THEN "_default" ELSE b           \* Configuration.SetDefaults

(***************************************************************************)
(* State                                                                    *)
(*   reg   sequence of ledgers in creation order:                           *)
(*         [name, bucket, feat, meta, id, del]   (del = deleted_at not null) *)
(*   seq   last value drawn from _system.ledger_sequence                    *)
(*   ntx   name -> number of committed transactions (write probe / stats)   *)
(*   exps  sequence of exporters [id, drv]; eseq last exporter id            *)
(*   pips  sequence of pipelines [id, ledger, exp]; pseq last pipeline id    *)
(*   run   set of pipeline ids that have a running handler in the manager    *)
(* Deviation: the ledger column "state" (initializing / in-use) is not       *)
(* exposed by the API (json:"-") and is not modelled here (Ledger.tla:       *)
(* import).  Exporter / pipeline ids are UUIDs in the code, creation ranks   *)
(* here.  Every pipeline row has enabled = TRUE forever (no code path sets   *)
(* it to FALSE), so "enabled" is not a state component.                      *)
(***************************************************************************)
Init0 == [reg |-> <<>>, seq |-> 0, ntx |-> NoMap, exps |-> <<>>, eseq |-> 0, pips |-> <<>>, pseq |-> 0, run |-> {}]

Names(s) == {r.name : r \in Range(s.reg)}
Entry(s, n) == CHOOSE r \in Range(s.reg) : r.name = n
Known(s, n) == n \in Names(s)
Alive(s, n) == Known(s, n) /\ ~Entry(s, n).del
Visible(s) == SeqFilter(s.reg, LAMBDA r : ~r.del)
VisIds(s) == MapSeq(Visible(s), LAMBDA r : r.id)
Buckets(s) == {r.bucket : r \in Range(s.reg)}
\* a bucket is "deleted" when it has ledgers and all of them are marked.  Dev_BucketDeletionIsPerLedger: the code has
\* no bucket entity; DELETE /v2/_/buckets/{b} marks the ledgers that exist at that time and nothing else
BucketDeleted(s, b) == b \in Buckets(s) /\ \A r \in Range(s.reg) : r.bucket = b => r.del

ExpKnown(s, x) == \E e \in Range(s.exps) : e.id = x
PipKnown(s, p) == \E q \in Range(s.pips) : q.id = p
Pip(s, p) == CHOOSE q \in Range(s.pips) : q.id = p

(***************************************************************************)
(* Operations.  An operation is a record with the fields of NoOp.           *)
(***************************************************************************)
NoFilter == [t |-> "none", a |-> "", v |-> "", sub |-> <<>>]
NoOp == [k |-> "", n |-> "", b |-> "", f |-> NoMap, m |-> NoMap, key |-> "", ps |-> 15, inc |-> FALSE,
         desc |-> FALSE, flt |-> NoFilter, x |-> 0, p |-> 0, drv |-> "", bad |-> ""]

R(out, st, s, val) == [out |-> out, st |-> st, s |-> s, val |-> val]
Fail(s, out, st) == R(out, st, s, 0)

\* --------------------------------------------------------------- ledgers
\* POST /v2/{n}   controllers_ledgers_create.go -> system.CreateLedger -> ledger.New -> driver.CreateLedger
Create(s, op) ==
  IF op.n \in RouteNames THEN Fail(s, "no_route", 404)
  ELSE IF op.bad = "json" THEN Fail(s, "validation", 400)
  ELSE IF ~FeaturesValid(op.f) \/ op.n \notin GoodNames \/ EffBucket(op.b) \in BadBuckets THEN Fail(s, "validation", 400)
  ELSE IF EffBucket(op.b) = SystemBucket THEN Fail(s, "outdated", 400)
  \* the unique name covers soft-deleted ledgers too (Dev_DeletedNamesStayTaken); the failed INSERT has already
  \* drawn its id from the sequence (ids have gaps)
  ELSE IF Known(s, op.n) THEN R("conflict", 400, [s EXCEPT !.seq = @ + 1], 0)
  \* Dev_DeletedBucketAcceptsNewLedgers: nothing checks that the bucket is deleted; the new ledger is alive
  ELSE LET r == [name |-> op.n, bucket |-> EffBucket(op.b), feat |-> WithDefaults(op.f), meta |-> op.m,
                 id |-> s.seq + 1, del |-> FALSE]
       IN R("ok", 204, [s EXCEPT !.reg = Append(@, r), !.seq = @ + 1,
                                  !.ntx = [k \in DOMAIN @ \cup {op.n} |-> IF k = op.n THEN 0 ELSE @[k]]], 0)

\* GET /v2/{n}   GetLedger: where name = ? and deleted_at is null
\* Dev_InfoRouteShadowsLedgerName: GET /v2/_info is the server information route (the name is reserved)
NoLedger == [name |-> "", bucket |-> "", feat |-> NoMap, meta |-> NoMap, id |-> 0, del |-> FALSE]
Get(s, op) == IF op.n \in RouteNames THEN Fail(s, "no_route", 404)
              ELSE IF op.n = "_info" THEN R("ok", 200, s, NoLedger)
              ELSE IF Alive(s, op.n) THEN R("ok", 200, s, Entry(s, op.n)) ELSE Fail(s, "not_found", 404)

\* PUT /v2/{n}/metadata   update _system.ledgers set metadata = metadata || ? where name = ?
\* Dev_MetadataOnUnknownLedgerIsSilent: no existence check, no deleted_at filter: 204 whatever the name; a
\* soft-deleted ledger IS updated (visible after restore)
SetMeta(s, op) ==
  IF op.n \in RouteNames THEN Fail(s, "no_route", 404)
  ELSE IF op.bad = "json" THEN Fail(s, "validation", 400)
  ELSE R("ok", 204, [s EXCEPT !.reg = MapSeq(@, LAMBDA r : IF r.name = op.n THEN [r EXCEPT !.meta = Merge(@, op.m)] ELSE r)], 0)

\* DELETE /v2/{n}/metadata/{key}   set metadata = metadata - ? where name = ?
DelMeta(s, op) ==
  IF op.n \in RouteNames THEN Fail(s, "no_route", 404)
  ELSE R("ok", 204, [s EXCEPT !.reg = MapSeq(@, LAMBDA r : IF r.name = op.n THEN [r EXCEPT !.meta = Drop(@, op.key)] ELSE r)], 0)

\* DELETE /v2/_/buckets/{b}   set deleted_at = now where bucket = ? and deleted_at is null   (no validation, 204 always)
DelBucket(s, op) ==
  R("ok", 204, [s EXCEPT !.reg = MapSeq(@, LAMBDA r : IF r.bucket = op.b THEN [r EXCEPT !.del = TRUE] ELSE r)], 0)

\* POST /v2/_/buckets/{b}/restore   set deleted_at = null where bucket = ? and deleted_at is not null
Restore(s, op) ==
  R("ok", 204, [s EXCEPT !.reg = MapSeq(@, LAMBDA r : IF r.bucket = op.b THEN [r EXCEPT !.del = FALSE] ELSE r)], 0)

\* GET /v2?pageSize=&includeDeleted=&sort=id:desc&query=   resource_ledgers.go
RECURSIVE FilterValid(_)
FilterValid(q) == CASE q.t \in {"none", "bucket", "feat", "meta", "metaex", "name"} -> TRUE
                    [] q.t \in {"not", "and", "or"} -> \A i \in DOMAIN q.sub : FilterValid(q.sub[i])
                    [] OTHER -> FALSE      \* "unknown": a property the schema does not have
RECURSIVE Eval(_, _)
Eval(r, q) == CASE q.t = "none" -> TRUE
                [] q.t = "bucket" -> r.bucket = q.v                              \* bucket = ?
                [] q.t = "feat" -> q.a \in DOMAIN r.feat /\ r.feat[q.a] = q.v    \* features @> {a: v}
                [] q.t = "meta" -> q.a \in DOMAIN r.meta /\ r.meta[q.a] = q.v    \* metadata @> {a: v}
                [] q.t = "metaex" -> q.v \in DOMAIN r.meta                       \* metadata -> v is not null
                [] q.t = "name" -> r.name = q.v                                  \* name = ?
                [] q.t = "not" -> ~Eval(r, q.sub[1])
                [] q.t = "and" -> \A i \in DOMAIN q.sub : Eval(r, q.sub[i])
                [] q.t = "or" -> \E i \in DOMAIN q.sub : Eval(r, q.sub[i])
RECURSIVE Chunk(_, _)
Chunk(sq, n) == IF Len(sq) <= n THEN <<sq>> ELSE <<SubSeq(sq, 1, n)>> \o Chunk(SubSeq(sq, n + 1, Len(sq)), n)

Listed(s, op) == LET base == IF op.inc THEN s.reg ELSE Visible(s)
                     sel == SeqFilter(base, LAMBDA r : Eval(r, op.flt))
                 IN IF op.desc THEN Reverse(sel) ELSE sel
\* val: the pages a client gets by following "next" until hasMore = false: ids, page by page
List(s, op) == IF ~FilterValid(op.flt) THEN Fail(s, "validation", 400)
               ELSE R("ok", 200, s, Chunk(MapSeq(Listed(s, op), LAMBDA r : r.id), op.ps))

\* routes behind LedgerMiddleware (GetLedgerController -> OpenLedger -> GetLedger): 404 LEDGER_NOT_FOUND unless alive
Gate(s, op, then) == IF op.n \in RouteNames THEN Fail(s, "no_route", 404)
                     ELSE IF ~Alive(s, op.n) THEN Fail(s, "ledger_not_found", 404) ELSE then
Info(s, op) == Gate(s, op, R("ok", 200, s, op.n))                 \* GET /v2/{n}/_info : name + migrations
Stats(s, op) == Gate(s, op, R("ok", 200, s, s.ntx[op.n]))         \* GET /v2/{n}/stats : transactions
Read(s, op) == Gate(s, op, R("ok", 200, s, s.ntx[op.n]))          \* GET /v2/{n}/transactions
Write(s, op) == Gate(s, op, R("ok", 200, [s EXCEPT !.ntx[op.n] = @ + 1], 0))   \* POST /v2/{n}/transactions (world -> bank)

\* --------------------------------------------------------------- exporters (replication.Manager)
Stopped(s, x) == s.run \ {q.id : q \in {q \in Range(s.pips) : q.exp = x}}      \* stopExporter
\* startPipeline succeeds iff the exporter row exists (driver factory) and the pipeline's ledger can be opened
StartOK(s, q) == ExpKnown(s, q.exp) /\ Alive(s, q.ledger)
\* synchronizePipelines: start, in storage order, every (enabled = every) pipeline that is not running; the first
\* failure aborts the loop with an error
RECURSIVE SyncFrom(_, _, _)
SyncFrom(s, run, i) ==
  IF i > Len(s.pips) THEN [ok |-> TRUE, run |-> run]
  ELSE IF s.pips[i].id \in run THEN SyncFrom(s, run, i + 1)
  ELSE IF StartOK(s, s.pips[i]) THEN SyncFrom(s, run \cup {s.pips[i].id}, i + 1)
  ELSE [ok |-> FALSE, run |-> run]

DriverValid(op) == op.drv = "noop" /\ op.bad = ""       \* registry: known driver and config unmarshals into its type

\* POST /v2/_/exporters
ECreate(s, op) ==
  IF op.bad = "json" \/ ~DriverValid(op) THEN Fail(s, "validation", 400)
  ELSE R("ok", 201, [s EXCEPT !.exps = Append(@, [id |-> s.eseq + 1, drv |-> op.drv]), !.eseq = @ + 1], s.eseq + 1)
EGet(s, op) == IF ExpKnown(s, op.x) THEN R("ok", 200, s, op.x) ELSE Fail(s, "not_found", 404)
EList(s, op) == R("ok", 200, s, {e.id : e \in Range(s.exps)})
\* DELETE /v2/_/exporters/{x}: stop its pipelines, delete the row; pipelines.exporter_id REFERENCES exporters ON
\* DELETE CASCADE removes its pipelines (pgmodel does not model foreign keys: the generator only deletes
\* exporters that have no pipeline, see harness/sysdrive/gen.go)
EDelete(s, op) ==
  IF ~ExpKnown(s, op.x) THEN Fail(s, "not_found", 404)
  ELSE R("ok", 204, [s EXCEPT !.run = Stopped(s, op.x),
                              !.exps = SeqFilter(@, LAMBDA e : e.id # op.x),
                              !.pips = SeqFilter(@, LAMBDA q : q.exp # op.x)], 0)
\* PUT /v2/_/exporters/{x}: validate, stop its pipelines, update the row, synchronizePipelines.
\* Dev_UpdateExporterRestartsEveryStoppedPipeline: the synchronisation starts EVERY pipeline that is not running,
\* whatever its exporter; a pipeline that cannot start makes the request fail (500) after the update was stored
EUpdate(s, op) ==
  IF op.bad = "json" \/ ~DriverValid(op) THEN Fail(s, "validation", 400)
  ELSE IF ~ExpKnown(s, op.x) THEN Fail(s, "not_found", 404)       \* stopExporter of an unknown id stops nothing
  ELSE LET sy == SyncFrom(s, Stopped(s, op.x), 1)
           s2 == [s EXCEPT !.run = sy.run]
       IN IF sy.ok THEN R("ok", 204, s2, 0) ELSE R("internal", 500, s2, 0)

\* --------------------------------------------------------------- pipelines, all behind LedgerMiddleware on {n}
\* Dev_PipelineRoutesIgnoreTheLedger: apart from the middleware (the ledger of the URL must be alive) and the ledger
\* stored by create, no pipeline route looks at {n}: list returns the pipelines of every ledger, and read / delete /
\* start / stop / reset act on the pipeline id whatever ledger owns it
PCreate(s, op) ==
  Gate(s, op,
    IF op.bad = "json" THEN Fail(s, "validation", 400)
    \* foreign key violation: ErrFKConstraintFailed is not mapped by store.CreatePipeline -> 500 (not executable on
    \* pgmodel, which has no foreign keys: the generator never does it)
    ELSE IF ~ExpKnown(s, op.x) THEN Fail(s, "internal", 500)
    ELSE IF \E q \in Range(s.pips) : q.ledger = op.n /\ q.exp = op.x THEN Fail(s, "validation", 400)  \* unique (ledger, exporter)
    ELSE LET q == [id |-> s.pseq + 1, ledger |-> op.n, exp |-> op.x]
         IN R("ok", 201, [s EXCEPT !.pips = Append(@, q), !.pseq = @ + 1, !.run = @ \cup {q.id}], q.id))
PList(s, op) == Gate(s, op, R("ok", 200, s, {q.id : q \in Range(s.pips)}))
\* STRICT (believed defect "pipeline-unknown-id-500"): store.GetPipeline does not resolve sql.ErrNoRows, so the code
\* answers 500 to GET and to start on an id that does not exist; the handlers map ErrPipelineNotFound to 404
PGet(s, op) == Gate(s, op, IF PipKnown(s, op.p) THEN R("ok", 200, s, Pip(s, op.p)) ELSE Fail(s, "not_found", 404))
PStart(s, op) ==
  Gate(s, op,
    IF ~PipKnown(s, op.p) THEN Fail(s, "not_found", 404)                       \* STRICT, same defect
    ELSE IF op.p \in s.run THEN Fail(s, "validation", 400)                     \* already started
    ELSE IF StartOK(s, Pip(s, op.p)) THEN R("ok", 202, [s EXCEPT !.run = @ \cup {op.p}], 0)
    ELSE Fail(s, "internal", 500))                                             \* its own ledger is soft-deleted
\* Dev_StopOfStoppedPipelineIs404 / Dev_StoppedPipelineCannotBeDeleted: stop and delete look the id up in the map of
\* RUNNING handlers; a pipeline that exists but is not running is "not found", and delete never reaches its row
PStop(s, op) == Gate(s, op, IF op.p \in s.run THEN R("ok", 202, [s EXCEPT !.run = @ \ {op.p}], 0) ELSE Fail(s, "not_found", 404))
PDelete(s, op) ==
  Gate(s, op, IF op.p \in s.run
              THEN R("ok", 204, [s EXCEPT !.run = @ \ {op.p}, !.pips = SeqFilter(@, LAMBDA q : q.id # op.p)], 0)
              ELSE Fail(s, "not_found", 404))
\* reset: stop if running, last_log_id := null, restart if it was running (a failed restart is only logged)
PReset(s, op) ==
  Gate(s, op,
    IF ~PipKnown(s, op.p) THEN Fail(s, "not_found", 404)
    ELSE IF op.p \in s.run /\ ~StartOK(s, Pip(s, op.p)) THEN R("ok", 202, [s EXCEPT !.run = @ \ {op.p}], 0)
    ELSE R("ok", 202, s, 0))

Kinds == {"create", "get", "setmeta", "delmeta", "delbucket", "restore", "list", "info", "stats", "read", "write",
          "ecreate", "eget", "elist", "edel", "eupd", "pcreate", "plist", "pget", "pstart", "pstop", "pdel", "preset"}

Apply(s, op) ==
  CASE op.k = "create" -> Create(s, op)
    [] op.k = "get" -> Get(s, op)
    [] op.k = "setmeta" -> SetMeta(s, op)
    [] op.k = "delmeta" -> DelMeta(s, op)
    [] op.k = "delbucket" -> DelBucket(s, op)
    [] op.k = "restore" -> Restore(s, op)
    [] op.k = "list" -> List(s, op)
    [] op.k = "info" -> Info(s, op)
    [] op.k = "stats" -> Stats(s, op)
    [] op.k = "read" -> Read(s, op)
    [] op.k = "write" -> Write(s, op)
    [] op.k = "ecreate" -> ECreate(s, op)
    [] op.k = "eget" -> EGet(s, op)
    [] op.k = "elist" -> EList(s, op)
    [] op.k = "edel" -> EDelete(s, op)
    [] op.k = "eupd" -> EUpdate(s, op)
    [] op.k = "pcreate" -> PCreate(s, op)
    [] op.k = "plist" -> PList(s, op)
    [] op.k = "pget" -> PGet(s, op)
    [] op.k = "pstart" -> PStart(s, op)
    [] op.k = "pstop" -> PStop(s, op)
    [] op.k = "pdel" -> PDelete(s, op)
    [] op.k = "preset" -> PReset(s, op)

\* the write probes of the trace recorder: after every request, one write on the oldest ledger of every bucket
ProbeSet(s) == {r.name : r \in {r \in Range(s.reg) : \A q \in Range(s.reg) : q.bucket = r.bucket => q.id >= r.id}}
Probed(s) == [s EXCEPT !.ntx = [n \in DOMAIN @ |-> IF n \in ProbeSet(s) /\ Alive(s, n) THEN @[n] + 1 ELSE @[n]]]

(***************************************************************************)
(* State invariants                                                         *)
(***************************************************************************)
UniqueNames(s) == \A i, j \in DOMAIN s.reg : i # j => s.reg[i].name # s.reg[j].name
IdsIncreasing(s) == /\ \A i, j \in DOMAIN s.reg : i < j => s.reg[i].id < s.reg[j].id
                    /\ \A i \in DOMAIN s.reg : 1 <= s.reg[i].id /\ s.reg[i].id <= s.seq
\* only validated names / buckets / feature sets are ever stored
WellFormed(s) == \A r \in Range(s.reg) : /\ r.name \in GoodNames
                                         /\ r.bucket \notin BadBuckets \cup {SystemBucket, ""}
                                         /\ DOMAIN r.feat = DOMAIN FeatureConf
                                         /\ \A k \in DOMAIN r.feat : r.feat[k] \in FeatureConf[k]
NtxTotal(s) == DOMAIN s.ntx = Names(s)
PipelinesOK(s) == /\ \A i, j \in DOMAIN s.pips : i # j => /\ s.pips[i].id # s.pips[j].id
                                                          /\ <<s.pips[i].ledger, s.pips[i].exp>> # <<s.pips[j].ledger, s.pips[j].exp>>
                  /\ \A q \in Range(s.pips) : ExpKnown(s, q.exp) /\ Known(s, q.ledger)     \* foreign key; ledgers are never removed
                  /\ s.run \subseteq {q.id : q \in Range(s.pips)}
                  /\ \A i, j \in DOMAIN s.exps : i # j => s.exps[i].id # s.exps[j].id
\* a listing with any page size returns every selected ledger exactly once, in id order, in full pages
PagesOK(s, op) == LET pg == List(s, op).val
                      want == MapSeq(Listed(s, op), LAMBDA r : r.id)
                      RECURSIVE Cat(_)
                      Cat(i) == IF i > Len(pg) THEN <<>> ELSE pg[i] \o Cat(i + 1)
                  IN /\ Cat(1) = want
                     /\ \A i \in DOMAIN pg : Len(pg[i]) <= op.ps /\ (i < Len(pg) => Len(pg[i]) = op.ps)
                     /\ Len(pg) >= 1 /\ (Len(pg) > 1 => Len(pg[Len(pg)]) >= 1)

Inv(s) == UniqueNames(s) /\ IdsIncreasing(s) /\ WellFormed(s) /\ NtxTotal(s) /\ PipelinesOK(s)

(***************************************************************************)
(* Step properties: s --op--> t with outcome out                            *)
(***************************************************************************)
Core(r) == [name |-> r.name, bucket |-> r.bucket, feat |-> r.feat, id |-> r.id]
\* a ledger never disappears from the registry; its name, bucket, features and id never change; new entries are appended
Immutable(s, t) == /\ Len(t.reg) >= Len(s.reg)
                   /\ \A i \in DOMAIN s.reg : Core(t.reg[i]) = Core(s.reg[i])
\* metadata operations touch the metadata of the named ledger only
MetaScope(s, op, t) == op.k \in {"setmeta", "delmeta"} =>
                          /\ Len(t.reg) = Len(s.reg)
                          /\ \A i \in DOMAIN s.reg : /\ s.reg[i].name # op.n => t.reg[i] = s.reg[i]
                                                     /\ [t.reg[i] EXCEPT !.meta = NoMap] = [s.reg[i] EXCEPT !.meta = NoMap]
\* bucket operations touch the deletion mark of the ledgers of that bucket only (frame: other buckets unaffected)
BucketScope(s, op, t) == op.k \in {"delbucket", "restore"} =>
                          /\ Len(t.reg) = Len(s.reg)
                          /\ \A i \in DOMAIN s.reg : /\ s.reg[i].bucket # op.b => t.reg[i] = s.reg[i]
                                                     /\ [t.reg[i] EXCEPT !.del = FALSE] = [s.reg[i] EXCEPT !.del = FALSE]
                          /\ t.ntx = s.ntx /\ t.pips = s.pips /\ t.exps = s.exps /\ t.run = s.run
\* a deleted bucket hides exactly its ledgers; restore brings back exactly the hidden ledgers of that bucket
HidesExactly(s, op, t) ==
  /\ op.k = "delbucket" => Visible(t) = SeqFilter(Visible(s), LAMBDA r : r.bucket # op.b)
  /\ op.k = "restore" => /\ VisIds(t) = MapSeq(SeqFilter(s.reg, LAMBDA r : ~r.del \/ r.bucket = op.b), LAMBDA r : r.id)
                         /\ \A r \in Range(s.reg) : r.del /\ r.bucket # op.b => r \in Range(t.reg)
DeleteThenRestoreIsIdentity(s, op) ==
  op.k = "delbucket" /\ (\A r \in Range(s.reg) : r.bucket = op.b => ~r.del)
     => Restore(DelBucket(s, op).s, op).s = s
\* every other operation leaves the deletion marks alone; creation adds an alive ledger and changes no other
OthersKeepMarks(s, op, t) == op.k \notin {"delbucket", "restore"} =>
                                \A i \in DOMAIN s.reg : t.reg[i].del = s.reg[i].del
\* a request that is refused changes nothing but the id sequence
RefusedNoEffect(s, op, out, t) == out \notin {"ok", "internal"} => t = [s EXCEPT !.seq = t.seq] /\ t.seq \in {s.seq, s.seq + 1}
ReadsNoEffect(s, op, t) == op.k \in {"get", "list", "info", "stats", "read", "eget", "elist", "plist", "pget"} => t = s
\* ledger-scoped routes are served exactly for alive ledgers
Access(s, op, out) == op.k \in {"get", "info", "stats", "read", "write", "plist"} /\ op.n \notin RouteNames
                         /\ ~(op.k = "get" /\ op.n = "_info") =>
                          ((out = "ok") <=> Alive(s, op.n))
\* registry operations do not touch exporters / pipelines and vice versa
Separation(s, op, t) ==
  /\ op.k \in {"create", "get", "setmeta", "delmeta", "delbucket", "restore", "list", "info", "stats", "read", "write"}
        => t.exps = s.exps /\ t.pips = s.pips /\ t.run = s.run /\ t.eseq = s.eseq /\ t.pseq = s.pseq
  /\ op.k \in {"ecreate", "eget", "elist", "edel", "eupd", "pcreate", "plist", "pget", "pstart", "pstop", "pdel", "preset"}
        => t.reg = s.reg /\ t.seq = s.seq /\ t.ntx = s.ntx

StepOK(s, op, out, t) ==
  /\ Immutable(s, t) /\ MetaScope(s, op, t) /\ BucketScope(s, op, t) /\ HidesExactly(s, op, t)
  /\ DeleteThenRestoreIsIdentity(s, op) /\ OthersKeepMarks(s, op, t) /\ RefusedNoEffect(s, op, out, t)
  /\ ReadsNoEffect(s, op, t) /\ Access(s, op, out) /\ Separation(s, op, t)
=============================================================================
