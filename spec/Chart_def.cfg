\* validity rules: every chart with <= MaxNodes nodes carrying at most one defect
INIT Init
NEXT Next
CONSTANTS
  FixedNames <- MCFixed
  VarKeys <- MCVar2
  BadNames <- MCBadNames
  Patterns <- MCPatternsD
  BadPatterns <- MCBadPat
  PatMatch <- MCPatMatch
  SelfMenu <- MCSelf3
  PropsMenu <- MCPropsD
  RootMenu <- MCRootD
  MetaKeys <- MCKeys
  Alphabet <- MCAlphabetL
  TxMenu <- MCTxMenu
  QMenu <- MCQMenu
  MaxAddrLen = 2
  MaxNodes = 2
  MaxDepth = 2
  AllowDefects = TRUE
  EmitMin = 0
INVARIANTS TypeOK ThmRoundTripMeaning ThmCanonValid ThmCanonIdem ThmUnique ThmFixedPathAccepted Emit
