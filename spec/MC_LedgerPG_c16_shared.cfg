SPECIFICATION Spec
CONSTANTS
  Ops <- MCOps
  InitBal <- MCInit
  Scenario = "shared-row"
  ForUpdate = TRUE
  AdvisoryLock = TRUE
  Recheck = TRUE
  MaxRetry = 2
INVARIANTS
  TxIdCommitOrder
  LogIdCommitOrder
  LinearChain
PROPERTIES
  AllAnswered
CHECK_DEADLOCK FALSE
