SPECIFICATION Spec
CONSTANTS
  Depth = 3
  WithIn = FALSE
INVARIANTS
  PushSafe
CHECK_DEADLOCK FALSE
