SPECIFICATION SpecF
CONSTANTS
  MaxOps = 3
  MaxT = 3
  Emit = FALSE
INVARIANTS
  Inv
  PCVFormulationAgrees
  WindowsPartition
  JournalExplainsMeta
  MetaAtNowIsCurrent
  VisibilityAt
PROPERTIES
  MetaAtMonotone
CHECK_DEADLOCK FALSE
