INIT Init
NEXT Next
CONSTANT DenLo = 1
CONSTANT DenHi = 4
CONSTANT MaxLen = 4
CONSTANT MaxAmt = 200
CONSTANT Dense = 40
INVARIANT Inv_Valid
INVARIANT Inv_Sum
INVARIANT Inv_Floor
INVARIANT Inv_Earliest
INVARIANT Inv_Exact
INVARIANT Inv_Scale
