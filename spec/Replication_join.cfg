\* C33, design variant JoinSubscriber (a pipeline stop waits for its subscriber): every property holds, which isolates the cause
\* of the counterexamples found on the faithful model.
SPECIFICATION FairSpec
CONSTANTS
  MaxLogs = 2
  PageSizes = {1, 2}
  MaxFail = 1
  MaxStops = 1
  MaxResets = 1
  MaxRestarts = 1
  JoinSubscriber = TRUE
  Mutant = "none"
  LateAccepts = TRUE
  RecordHist = FALSE
INVARIANTS
  TypeOK
  InvBatchContiguous
  InvNoGapEver
  InvNoGapSinceReset
  InvStartPos
  InvPersistedLeAcked
  InvPersistedLeAckedSinceReset
  InvLastLeAcked
PROPERTIES
  LiveAllAccepted
  LiveAllAcceptedSinceReset
