SPECIFICATION Spec
CONSTANTS
  Ops <- MCOps
  InitBal <- MCInit
  Scenario = "key-other-input"
  ForUpdate = TRUE
  AdvisoryLock = TRUE
  Recheck = TRUE
  MaxRetry = 2
INVARIANTS
  AtMostOncePerKey
  NoOverdraft
PROPERTIES
  AllAnswered
CHECK_DEADLOCK FALSE
