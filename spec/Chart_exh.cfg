\* exhaustive: every valid chart with <= MaxNodes nodes, depth <= MaxDepth
INIT Init
NEXT Next
CONSTANTS
  FixedNames <- MCFixed
  VarKeys <- MCVar1
  BadNames <- MCNoBad
  Patterns <- MCPatterns2
  BadPatterns <- MCNoBad
  PatMatch <- MCPatMatch
  SelfMenu <- MCSelf2
  PropsMenu <- MCPropsS
  RootMenu <- MCRootPlain
  MetaKeys <- MCKeys
  Alphabet <- MCAlphabet
  TxMenu <- MCTxMenu
  QMenu <- MCQMenu
  MaxAddrLen = 3
  MaxNodes = 3
  MaxDepth = 3
  AllowDefects = FALSE
  EmitMin = 0
INVARIANTS TypeOK ThmRoundTripMeaning ThmCanonValid ThmCanonIdem ThmUnique ThmFixedPathAccepted Emit
