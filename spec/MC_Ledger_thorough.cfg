SPECIFICATION Spec
CONSTANTS
  MaxOps = 5
  MaxT = 3
  Emit = FALSE
INVARIANTS
  Inv
PROPERTIES
  FailedLeavesNoTrace
  OneLogPerWrite
  Immutable
CHECK_DEADLOCK FALSE
