SPECIFICATION Spec
CONSTANT TraceFile = "trace.ndjson"
INVARIANTS
  Inv_C17_JournalIsMeta
  Inv_C01_ConservationAt
  Inv_C03_MovesAt
  Inv_C04_EffectiveAt
  Inv_C05_Status
  Inv_C05_VolumesAt
  Inv_C05_AggAt
  Inv_C05_AccountsAt
  Inv_C05_TxsAt
PROPERTIES
  Step_C20_Status
  Step_C20_Select
  Step_C20_Count
  Step_C17_TxMetaAt
  Step_C17_AcctMetaAt
  Step_C21_Pages
  Step_C21_Sorted
  Step_C21_Previous
  Step_C37_Status
  Step_C37_Template
  Step_C37_Cursor
POSTCONDITION Accepted
CHECK_DEADLOCK FALSE
