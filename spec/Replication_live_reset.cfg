\* C33, faithful model: "after a reset all logs are exported again" as a liveness property.  DESIGN.md section 8 suspects it fails
\* (late StorePipelineState of the old subscriber after ResetPipeline cleared last_log_id); checks/C33.py records the outcome.
SPECIFICATION FairSpec
CONSTANTS
  MaxLogs = 2
  PageSizes = {1, 2}
  MaxFail = 1
  MaxStops = 1
  MaxResets = 1
  MaxRestarts = 1
  JoinSubscriber = FALSE
  Mutant = "none"
  LateAccepts = FALSE
  RecordHist = FALSE
PROPERTIES
  LiveAllAcceptedSinceReset
