\* Negative control (model of the code BEFORE /repo 9ae9635, JoinSubscriber = FALSE: nobody waits for the subscriber of a
\* stopped pipeline).  TLC MUST refute LiveAllAcceptedSinceReset.
SPECIFICATION FairSpec
CONSTANTS
  MaxLogs = 2
  PageSizes = {1, 2}
  MaxFail = 1
  MaxStops = 1
  MaxResets = 1
  MaxRestarts = 1
  JoinSubscriber = FALSE
  Mutant = "none"
  LateAccepts = FALSE
  RecordHist = FALSE
PROPERTIES
  LiveAllAcceptedSinceReset
