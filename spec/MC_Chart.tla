----------------------------- MODULE MC_Chart -----------------------------
(* Model-checking wrapper of ChartGen.tla (Chart.tla): finite universes        *)
(* (record / function constants cannot be written in a .cfg).               *)
EXTENDS ChartGen

MCFixed    == {"a", "7", "world"}
MCVar1     == {"$v"}
MCVar2     == {"$v", "$w"}
MCBadNames == {"a b", "$w x"}
MCNoBad    == {}

\* address alphabet: fixed names (one of them digit-only), "world", a digit-only and a non-digit
\* segment that are not fixed names; the large alphabet adds the empty segment and a mixed one
MCAlphabet  == {"a", "7", "world", "42", "x"}
MCAlphabetL == {"a", "7", "world", "42", "x", "a1", ""}

\* named regexps (rendered by the harness):  digits = ^[0-9]+$   alt = ^(a|x)$
\* hasdigit = [0-9] (unanchored: regexp.Match searches a substring)   badre = [[
MCPatterns2  == {"none", "digits"}
MCPatterns4  == {"none", "digits", "alt", "hasdigit"}
MCPatternsD  == {"none", "digits", "badre"}
MCBadPat     == {"badre"}
MCPatMatch   == [pt \in {"digits", "alt", "hasdigit"} |->
                   CASE pt = "digits"   -> {"7", "42"} \cap Alphabet
                     [] pt = "alt"      -> {"a", "x"} \cap Alphabet
                     [] pt = "hasdigit" -> {"7", "42", "a1"} \cap Alphabet]

MCKeys == {"k1", "k2"}
P(m, v1, v2, r) == [meta |-> m, kv |-> [k \in MCKeys |-> IF k = "k1" THEN v1 ELSE v2], rules |-> r]
\* 2 keys x 2 values universe (+ "declared without default" forms in the large menu)
MCPropsS == {P(FALSE, "_", "_", FALSE), P(TRUE, "v1", "_", FALSE), P(TRUE, "v2", "v1", FALSE)}
MCPropsL == MCPropsS \cup {P(TRUE, "_", "_", FALSE), P(TRUE, "_", "v2", FALSE), P(TRUE, "v1", "v2", FALSE),
                           P(TRUE, "_nodefault", "v1", FALSE), P(TRUE, "_null", "_", FALSE),
                           P(FALSE, "_", "_", TRUE), P(TRUE, "v2", "_", TRUE)}
MCPropsD == {P(FALSE, "_", "_", FALSE), P(TRUE, "v1", "_", FALSE), P(FALSE, "_", "_", TRUE)}

MCFixed1   == {"a"}
MCPropsP   == {P(FALSE, "_", "_", FALSE)}
MCSelf1    == {"absent"}
MCSelf2 == {"absent", "empty"}
MCSelf3 == {"absent", "empty", "junk"}

MCRootPlain == {PlainNode}
MCRootD     == {PlainNode, [PlainNode EXCEPT !.self = "empty"],
                [PlainNode EXCEPT !.props = P(TRUE, "v1", "_", FALSE)]}

\* opaque template ids; the harness maps them to concrete templates
MCTxMenu == << {}, {"t1"}, {"t1", "t2"}, {"t2", "t3"} >>
MCQMenu  == << {}, {"q1"}, {"q1", "q2"}, {"q3"}, {"q2", "q4"} >>
=============================================================================
