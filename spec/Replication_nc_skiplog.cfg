\* Negative control: the pipeline skips a log when it fetches.  TLC MUST report InvBatchContiguousE.
SPECIFICATION Spec
CONSTANTS
  MaxLogs = 3
  PageSizes = {2}
  MaxFail = 1
  MaxStops = 1
  MaxResets = 1
  MaxRestarts = 1
  JoinSubscriber = TRUE
  Mutant = "SkipLog"
  LateAccepts = FALSE
  RecordHist = TRUE
VIEW ViewNoHist
ACTION_CONSTRAINT UrgentInternal
INVARIANTS
  InvBatchContiguousE
