-------------------------- MODULE TraceReplication --------------------------
(***************************************************************************)
(* Trace validation for property C33: are the NDJSON traces recorded by    *)
(* harness/repl (real replication.Manager of /repo over an in-memory        *)
(* storage and a recording exporter) behaviours of Replication.tla?         *)
(*                                                                         *)
(* Idiom: action-enabled.  Every logged event must be explained by the      *)
(* matching action of Replication.tla with the logged values bound;         *)
(* unlogged internal steps of the code (channel hand-off, taking a stop     *)
(* request, close(subscription), lock/unlock of Manager.mu) are silent      *)
(* actions, at most MaxSilent between two events.  A trace is accepted iff  *)
(* some interleaving consumes all its events: POSTCONDITION on a            *)
(* TLCSet/TLCGet high-water mark (run with -workers 1).  The safety         *)
(* invariants of Replication.tla are evaluated on every state of every      *)
(* trace.  Many traces are concatenated; a "Begin" event resets the state.  *)
(*                                                                         *)
(* Event order: storage / exporter events are stamped under the harness     *)
(* mutex at the moment they take effect.  "Call" is stamped before a        *)
(* manager operation is invoked and "Ret" after it returned: they are only  *)
(* used as lower / upper bounds (the operation begins after Call and is     *)
(* complete at Ret).                                                        *)
(***************************************************************************)
EXTENDS Replication, TLCExt

CONSTANTS TraceFile, MaxSilent,
          NoProgressK   \* see TInvProgressAfterFailures (same constant in harness/repl/oracle.go)

VARIABLES i,       \* index of the next event to explain
          silent,  \* silent steps taken since the last event
          pend,    \* [op, tag]: operation called but not begun (op) and tag of the last operation called
          streak   \* [e, n]: the last n Accept events of pipeline instance e were refusals of a HEALTHY
                   \*   exporter (event name "ctx": not charged to the scenario's failure budget), with no
                   \*   accepted batch since

tvars == <<i, silent, pend, streak>>
allvars == <<vars, tvars>>

TraceLog == ndJsonDeserialize(TraceFile)

NoPend == [op |-> "none", tag |-> 0]

Range(a, b) == [k \in 1..(b - a + 1) |-> a + k - 1]

Ev == TraceLog[i]
IsEv(k) == i <= Len(TraceLog) /\ TraceLog[i].k = k
ConsumeS(s) == i' = i + 1 /\ silent' = 0 /\ streak' = s
Consume == ConsumeS(streak)
NoStreak == [e |-> 0, n |-> 0]

TraceInit ==
    /\ Init
    /\ i = 1 /\ silent = 0 /\ pend = NoPend /\ streak = NoStreak
    /\ TLCSet(1, 0)

(* A new scenario starts: fresh world.                                      *)
T_Begin ==
    /\ IsEv("Begin")
    /\ produced' = 0 /\ persisted' = 0
    /\ mu' = "free" /\ alive' = FALSE /\ running' = FALSE
    /\ mgr' = NoMgr /\ pipe' = NoPipe
    /\ ep' = << >>
    /\ nFail' = 0 /\ nStops' = 0 /\ nResets' = 0 /\ nRestarts' = 0
    /\ gotEver' = {} /\ gotSince' = {} /\ contig' = TRUE /\ startOK' = TRUE
    /\ hist' = << >>
    /\ pend' = NoPend
    /\ ConsumeS(NoStreak)

T_Produce ==
    /\ IsEv("Produce")
    /\ Produce
    /\ produced' = Ev.x
    /\ UNCHANGED pend /\ Consume

T_Call ==
    /\ IsEv("Call")
    /\ pend.op = "none" /\ mgr.op = "none"
    /\ pend' = [op |-> Ev.name, tag |-> Ev.ep]
    /\ UNCHANGED vars /\ Consume

T_Ret ==
    /\ IsEv("Ret")
    /\ Ev.ok
    /\ pend.op = "none" /\ mgr.op = "none" /\ Ev.ep = pend.tag
    /\ UNCHANGED <<vars, pend>> /\ Consume

Begun == pend' = [pend EXCEPT !.op = "none"]

T_RunRead ==
    /\ IsEv("ListEnabled")
    /\ pend.op = "run" /\ Ev.ep = pend.tag
    /\ persisted = Ev.x
    /\ MgrRunRead
    /\ Begun /\ Consume

T_StartRead ==
    /\ IsEv("GetPipeline")
    /\ pend.op = "start" /\ Ev.ep = pend.tag
    /\ persisted = Ev.x
    /\ MgrStartRead
    /\ Begun /\ Consume

T_Spawn ==
    /\ IsEv("OpenLedger")
    /\ pend.op = "none" /\ Ev.ep = pend.tag
    /\ MgrSpawn(Ev.ep)
    /\ UNCHANGED pend /\ Consume

T_ResetUpdate ==
    /\ IsEv("UpdatePipeline")
    /\ pend.op = "none" /\ Ev.ep = pend.tag
    /\ Ev.x = 0 /\ Ev.y = 1          \* last_log_id = NULL, enabled = true after the update
    /\ MgrResetUpdate
    /\ UNCHANGED pend /\ Consume

T_ListLogs ==
    /\ IsEv("ListLogs")
    /\ pipe.st = "idle" /\ pipe.e = Ev.ep /\ pipe.last = Ev.x
    /\ Ev.ok = (produced > Ev.x + Ev.y)                      \* hasMore
    /\ IF Ev.ids = << >>
         THEN produced <= Ev.x /\ UNCHANGED vars
         ELSE PipeFetch(Ev.y) /\ Ev.ids = Range(pipe'.from, pipe'.to)
    /\ UNCHANGED pend /\ Consume

T_Accept ==
    /\ IsEv("Accept")
    /\ \/ /\ pipe.st = "fetched" /\ pipe.e = Ev.ep
          /\ Ev.ids = Range(pipe.from, pipe.to)
          /\ IF Ev.ok THEN ExpAcceptOK ELSE ExpAcceptFail
       \/ /\ Ev.ep \in DOMAIN ep /\ ep[Ev.ep].late
          /\ Ev.ids = Range(ep[Ev.ep].lfrom, ep[Ev.ep].lto)
          /\ IF Ev.ok THEN LateAcceptOK(Ev.ep) ELSE LateAcceptFail(Ev.ep)
    /\ UNCHANGED pend
    /\ ConsumeS(IF Ev.ok THEN [e |-> Ev.ep, n |-> 0]
                ELSE IF Ev.name # "ctx" THEN streak
                ELSE IF streak.e = Ev.ep THEN [e |-> Ev.ep, n |-> streak.n + 1]
                ELSE [e |-> Ev.ep, n |-> 1])

T_Store ==
    /\ IsEv("Store")
    /\ Ev.ok
    /\ Ev.ep \in DOMAIN ep /\ ep[Ev.ep].sub = "storing" /\ ep[Ev.ep].val = Ev.x
    /\ SubStore(Ev.ep)
    /\ UNCHANGED pend /\ Consume

Logged ==
    \/ T_Begin \/ T_Produce \/ T_Call \/ T_Ret \/ T_RunRead \/ T_StartRead \/ T_Spawn
    \/ T_ResetUpdate \/ T_ListLogs \/ T_Accept \/ T_Store

Silent ==
    /\ i <= Len(TraceLog)
    /\ silent < MaxSilent
    /\ silent' = silent + 1 /\ i' = i /\ streak' = streak
    /\ \/ (pend.op = "stop" /\ MgrStopBegin /\ Begun)
       \/ (pend.op = "reset" /\ MgrResetBegin /\ Begun)
       \/ (pend.op = "shutdown" /\ MgrShutdownBegin /\ Begun)
       \/ ((MgrStopEnd \/ MgrShutdownRelease \/ MgrShutdownEnd) /\ UNCHANGED pend)
       \/ ((PipeRetry \/ PipeAdvance \/ Handoff \/ PipeTakeStop) /\ UNCHANGED pend)
       \/ (\E e \in DOMAIN ep : Closer(e) /\ UNCHANGED pend)

TraceNext == Logged \/ Silent

TraceSpec == TraceInit /\ [][TraceNext]_allvars

(* high-water mark of explained events (always TRUE; evaluated on every state) *)
TraceHW == IF i - 1 > TLCGet(1) THEN TLCSet(1, i - 1) ELSE TRUE

TraceAccepted ==
    \/ TLCGet(1) = Len(TraceLog)
    \/ (PrintT(<<"REJECTED", TLCGet(1) + 1, Len(TraceLog)>>) /\ FALSE)

(* The invariants, tagged with the event index so that the scenario can be found.  *)
(* A failure is reported by the printed line (checks/C33.py treats any INVFAIL line  *)
(* as a violated invariant); the formula stays true so that TLC goes on with the     *)
(* other traces of the batch instead of dumping a trace thousands of states long.    *)
Tag(name, ok) == ok \/ PrintT(<<"INVFAIL", name, i - 1>>)
TInvBatchContiguous == Tag("InvBatchContiguous", InvBatchContiguous)
TInvNoGapSinceReset == Tag("InvNoGapSinceReset", InvNoGapSinceReset)
TInvStartPos == Tag("InvStartPos", InvStartPos)
TInvPersistedLeAcked == Tag("InvPersistedLeAcked", InvPersistedLeAcked)
TInvPersistedLeAckedSinceReset == Tag("InvPersistedLeAckedSinceReset", InvPersistedLeAckedSinceReset)
TInvLastLeAcked == Tag("InvLastLeAcked", InvLastLeAcked)

(* Count-based form of the liveness property on a finite trace ("every log is       *)
(* delivered despite failures").  In Replication.tla ExpAcceptFail is only enabled   *)
(* while the failure budget lasts (nFail < MaxFail) and ExpAcceptOK is weakly fair:   *)
(* beyond the budget the next attempt succeeds.  The harness charges its scripted     *)
(* failures to the budget (event name "plan"/"down"/"forced"); a refusal named "ctx"  *)
(* comes from a healthy exporter that honours the context it is given (as             *)
(* drivers.Batcher does) and found it already cancelled.  That happens once to a      *)
(* pipeline instance that is being stopped; NoProgressK in a row for one instance,    *)
(* with no accepted batch in between, means the pipeline no longer makes progress     *)
(* although nothing fails.  Attempts are counted, never time.                         *)
InvProgressAfterFailures == streak.n < NoProgressK
TInvProgressAfterFailures == Tag("InvProgressAfterFailures", InvProgressAfterFailures)

=============================================================================
