\* Negative control: the subscriber persists an id ahead of the acknowledgement.  TLC MUST report InvPersistedLeAckedE.
SPECIFICATION Spec
CONSTANTS
  MaxLogs = 2
  PageSizes = {2}
  MaxFail = 1
  MaxStops = 1
  MaxResets = 1
  MaxRestarts = 1
  JoinSubscriber = TRUE
  Mutant = "SubAhead"
  LateAccepts = FALSE
  RecordHist = TRUE
VIEW ViewNoHist
ACTION_CONSTRAINT UrgentInternal
INVARIANTS
  InvPersistedLeAckedE
