------------------------------ MODULE MC_Faults ------------------------------
(* Default instance of Faults for stand-alone runs.  checks/api_common.py      *)
(* replaces this module (same name) by one whose MCPrograms are the programs   *)
(* measured on the real code.                                                  *)
EXTENDS Faults

MCPrograms == << [n |-> 5, commits |-> <<5>>, writes |-> <<1>>],                 \* a single write
                 [n |-> 4, commits |-> <<>>, writes |-> <<>>],                   \* its dry run
                 [n |-> 9, commits |-> <<3, 6, 9>>, writes |-> <<1, 1, 1>>],     \* a sequential bulk of three elements
                 [n |-> 9, commits |-> <<9>>, writes |-> <<3>>] >>               \* an atomic bulk of three elements
MCErrKinds == {"08006", "40001", "57014", "cancel", "txdone", "40P01"}
MCRetryable == {"40P01"}
=============================================================================
