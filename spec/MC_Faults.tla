------------------------------ MODULE MC_Faults ------------------------------
(* Default instance of Faults for stand-alone runs.  checks/api_common.py      *)
(* replaces this module (same name) by one whose MCPrograms are the programs   *)
(* measured on the real code.                                                  *)
EXTENDS Faults

MCPrograms == << [n |-> 5, commits |-> <<5>>],          \* a single write
                 [n |-> 4, commits |-> <<>>],           \* its dry run
                 [n |-> 9, commits |-> <<3, 6, 9>>] >>  \* a sequential bulk of three elements
MCErrKinds == {"08006", "40001", "57014", "cancel", "40P01"}
MCRetryable == {"40P01"}
=============================================================================
