SPECIFICATION Spec
CONSTANTS
  MaxOps = 3
  Menu = "registry"
INVARIANTS
  InvOK
  StepsOK
  PagesAlwaysOK
  FiltersOK
  OutcomesOK
CHECK_DEADLOCK FALSE
