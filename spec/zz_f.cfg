SPECIFICATION Spec
CONSTANTS
  MaxLogs = 3
  PageSizes = {1, 2}
  MaxFail = 2
  MaxStops = 1
  MaxResets = 1
  MaxRestarts = 1
  JoinSubscriber = FALSE
  Mutant = "none"
  LateAccepts = TRUE
  RecordHist = FALSE
INVARIANTS
 TypeOK
 InvBatchContiguous
 InvPersistedLeAcked
 InvLastLeAcked
 InvNoGapEver
