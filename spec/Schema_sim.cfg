\* random behaviours of 6 requests (-simulate), hand-written charts, large request menu
INIT Init
NEXT EmitNext
VIEW View
CONSTANTS
  FixedNames <- MCFixed
  VarKeys <- MCVar
  BadNames <- MCNone
  BadPatterns <- MCNone
  PatMatch <- MCPatMatch
  MetaKeys <- MCKeys
  ChartMenu <- MCCharts
  Versions <- MCVersions
  TplDefs <- MCTplDefs
  SchemaMenu <- MCSchemaMenu
  TxMenu <- MCTxMenuL
  MetaMenu <- MCMetaMenu
  AllKeys <- MCAllKeys
  Addrs <- MCAddrs
  Modes <- MCModes
  MaxSteps = 6
  ModelDeviations = TRUE
  Follow <- MCFollowNone
  EmitAll = FALSE
INVARIANTS TypeOK AllTheorems
