------------------------------ MODULE LedgerPG ------------------------------
(***************************************************************************)
(* Statement-level model of the write path of formancehq/ledger on          *)
(* PostgreSQL READ COMMITTED: what the design relies on the database for.   *)
(*                                                                         *)
(* Each writer session runs the program the Go code runs for a keyed,       *)
(* script-based CreateTransaction with one bounded source:                  *)
(*                                                                         *)
(*   begin -> ikread -> getbal -> check -> updvol -> instx -> advlock ->    *)
(*   inslog -> commit                                                       *)
(*                                                                         *)
(*   ikread  SELECT the log carrying the idempotency key (no lock)          *)
(*   getbal  GetBalances: SELECT ... FOR UPDATE on the bounded source rows  *)
(*           (the zero-row insert makes a never-used pair lockable too)     *)
(*   check   the machine compares the requested amount with the balance read*)
(*   updvol  UpdateVolumes: the upsert row-locks every touched row          *)
(*   instx   InsertTransaction: nextval of the transaction-id sequence      *)
(*   advlock pg_advisory_xact_lock(ledger) when HASH_LOGS = SYNC            *)
(*   inslog  InsertLog: nextval of the log-id sequence, the hash trigger    *)
(*           reads the last log, the unique index on the idempotency key    *)
(*   commit  makes the write set visible, releases every lock               *)
(*                                                                         *)
(* Row locks block (a blocked statement is simply not enabled); sequences   *)
(* never roll back; a wait-for cycle is resolved by aborting one session,   *)
(* which then retries (forgeLogRetry).  Switches turn individual mechanisms *)
(* off so that TLC must exhibit the anomaly each one prevents.              *)
(***************************************************************************)
EXTENDS Integers, Sequences, FiniteSets, TLC

CONSTANTS
  Ops,           \* function writer -> [src, dst, asset, amt, bound, ik, in]
  InitBal,       \* function <<account, asset>> -> initial committed balance (absent pairs are 0)
  ForUpdate,     \* GetBalances locks the rows it reads
  AdvisoryLock,  \* InsertLog takes the per-ledger advisory lock (HASH_LOGS = SYNC)
  Recheck,       \* a keyed request that fails looks its key up again (the C13 repair)
  MaxRetry

Writers == DOMAIN Ops
World == "world"
NoPend == [active |-> FALSE, ik |-> "", logid |-> 0]

VARIABLES
  bal,      \* committed balances: <<account, asset>> -> Int
  rowlock,  \* <<account, asset>> -> writer holding the row lock, or "none"
  adv,      \* holder of the advisory lock, or "none"
  txSeq, logSeq,
  logs,     \* committed logs in COMMIT order: [w, ik, in, txid, logid, pred]
  pend,     \* uncommitted log rows: writer -> [ik, logid, pred] or "none" (for the unique index)
  pc,       \* writer -> program counter
  rd,       \* writer -> balance read at getbal
  ids,      \* writer -> [txid, logid, pred]
  res,      \* writer -> "" | "ok" | "hit" | "insufficient" | "ik_invalid"
  tries

vars == <<bal, rowlock, adv, txSeq, logSeq, logs, pend, pc, rd, ids, res, tries>>

Pairs == {<<Ops[w].src, Ops[w].asset>> : w \in Writers} \cup {<<Ops[w].dst, Ops[w].asset>> : w \in Writers}
          \cup {<<World, Ops[w].asset>> : w \in Writers}

Touched(w) == {<<Ops[w].src, Ops[w].asset>>, <<Ops[w].dst, Ops[w].asset>>}
Bounded(w) == Ops[w].src # World /\ Ops[w].bound >= 0

Init ==
  /\ bal = [p \in Pairs |-> IF p \in DOMAIN InitBal THEN InitBal[p] ELSE 0]
  /\ rowlock = [p \in Pairs |-> "none"]
  /\ adv = "none"
  /\ txSeq = 1 /\ logSeq = 1
  /\ logs = <<>>
  /\ pend = [w \in Writers |-> NoPend]
  /\ pc = [w \in Writers |-> "begin"]
  /\ rd = [w \in Writers |-> 0]
  /\ ids = [w \in Writers |-> [txid |-> 0, logid |-> 0, pred |-> 0]]
  /\ res = [w \in Writers |-> ""]
  /\ tries = [w \in Writers |-> 0]

Free(p, w) == rowlock[p] \in {"none", w}
KeyLogs(ik) == {i \in DOMAIN logs : logs[i].ik = ik}
LastLogId == IF Len(logs) = 0 THEN 0 ELSE logs[Len(logs)].logid

ReleaseAll(w) ==
  /\ rowlock' = [p \in Pairs |-> IF rowlock[p] = w THEN "none" ELSE rowlock[p]]
  /\ adv' = IF adv = w THEN "none" ELSE adv
  /\ pend' = [pend EXCEPT ![w] = NoPend]

Finish(w, r) == pc' = [pc EXCEPT ![w] = "done"] /\ res' = [res EXCEPT ![w] = r]

Begin(w) ==
  /\ pc[w] = "begin"
  /\ pc' = [pc EXCEPT ![w] = IF Ops[w].ik # "" THEN "ikread" ELSE "getbal"]
  /\ UNCHANGED <<bal, rowlock, adv, txSeq, logSeq, logs, pend, rd, ids, res, tries>>

\* the key lookup: a hit returns the stored outcome, a different input is a validation error
IkRead(w) ==
  /\ pc[w] = "ikread"
  /\ IF KeyLogs(Ops[w].ik) # {}
     THEN LET i == CHOOSE i \in KeyLogs(Ops[w].ik) : TRUE
          IN Finish(w, IF logs[i].in = Ops[w].in THEN "hit" ELSE "ik_invalid")
     ELSE pc' = [pc EXCEPT ![w] = "getbal"] /\ UNCHANGED res
  /\ UNCHANGED <<bal, rowlock, adv, txSeq, logSeq, logs, pend, rd, ids, tries>>

GetBal(w) ==
  /\ pc[w] = "getbal"
  /\ LET p == <<Ops[w].src, Ops[w].asset>>
     IN IF Bounded(w) /\ ForUpdate
        THEN /\ Free(p, w)
             /\ rowlock' = [rowlock EXCEPT ![p] = w]
        ELSE UNCHANGED rowlock
  /\ rd' = [rd EXCEPT ![w] = bal[<<Ops[w].src, Ops[w].asset>>]]
  /\ pc' = [pc EXCEPT ![w] = "check"]
  /\ UNCHANGED <<bal, adv, txSeq, logSeq, logs, pend, ids, res, tries>>

\* a failed keyed request: rollback, then (repair) look the key up again
FailOrHit(w, err) ==
  /\ ReleaseAll(w)
  /\ IF Recheck /\ Ops[w].ik # "" /\ KeyLogs(Ops[w].ik) # {}
     THEN LET i == CHOOSE i \in KeyLogs(Ops[w].ik) : TRUE
          IN Finish(w, IF logs[i].in = Ops[w].in THEN "hit" ELSE "ik_invalid")
     ELSE Finish(w, err)

Check(w) ==
  /\ pc[w] = "check"
  /\ IF Bounded(w) /\ rd[w] - Ops[w].amt < 0 - Ops[w].bound
     THEN FailOrHit(w, "insufficient")
     ELSE pc' = [pc EXCEPT ![w] = "updvol"] /\ UNCHANGED <<rowlock, adv, pend, res>>
  /\ UNCHANGED <<bal, txSeq, logSeq, logs, rd, ids, tries>>

UpdVol(w) ==
  /\ pc[w] = "updvol"
  /\ \A p \in Touched(w) : Free(p, w)
  /\ rowlock' = [p \in Pairs |-> IF p \in Touched(w) THEN w ELSE rowlock[p]]
  /\ pc' = [pc EXCEPT ![w] = "instx"]
  /\ UNCHANGED <<bal, adv, txSeq, logSeq, logs, pend, rd, ids, res, tries>>

InsTx(w) ==
  /\ pc[w] = "instx"
  /\ ids' = [ids EXCEPT ![w].txid = txSeq]
  /\ txSeq' = txSeq + 1
  /\ pc' = [pc EXCEPT ![w] = IF AdvisoryLock THEN "advlock" ELSE "inslog"]
  /\ UNCHANGED <<bal, rowlock, adv, logSeq, logs, pend, rd, res, tries>>

AdvLock(w) ==
  /\ pc[w] = "advlock"
  /\ adv \in {"none", w}
  /\ adv' = w
  /\ pc' = [pc EXCEPT ![w] = "inslog"]
  /\ UNCHANGED <<bal, rowlock, txSeq, logSeq, logs, pend, rd, ids, res, tries>>

\* the unique index on the key: an uncommitted duplicate blocks, a committed one is a conflict (-> retry path)
InsLog(w) ==
  /\ pc[w] = "inslog"
  /\ Ops[w].ik = "" \/ \A v \in Writers \ {w} : ~pend[v].active \/ pend[v].ik # Ops[w].ik
  /\ logSeq' = logSeq + 1
  /\ IF Ops[w].ik # "" /\ KeyLogs(Ops[w].ik) # {}
     THEN \* ErrIdempotencyKeyConflict: rollback and answer from the stored log (forgeLogRetry)
          /\ ReleaseAll(w)
          /\ LET i == CHOOSE i \in KeyLogs(Ops[w].ik) : TRUE
             IN Finish(w, IF logs[i].in = Ops[w].in THEN "hit" ELSE "ik_invalid")
          /\ UNCHANGED ids
     ELSE /\ ids' = [ids EXCEPT ![w].logid = logSeq, ![w].pred = LastLogId]
          /\ pend' = [pend EXCEPT ![w] = [active |-> TRUE, ik |-> Ops[w].ik, logid |-> logSeq]]
          /\ pc' = [pc EXCEPT ![w] = "commit"]
          /\ UNCHANGED <<rowlock, adv, res>>
  /\ UNCHANGED <<bal, txSeq, logs, rd, tries>>

Commit(w) ==
  /\ pc[w] = "commit"
  /\ bal' = [p \in Pairs |->
               bal[p] + (IF p = <<Ops[w].dst, Ops[w].asset>> THEN Ops[w].amt ELSE 0)
                      - (IF p = <<Ops[w].src, Ops[w].asset>> THEN Ops[w].amt ELSE 0)]
  /\ logs' = Append(logs, [w |-> w, ik |-> Ops[w].ik, in |-> Ops[w].in, txid |-> ids[w].txid,
                           logid |-> ids[w].logid, pred |-> ids[w].pred])
  /\ ReleaseAll(w)
  /\ Finish(w, "ok")
  /\ UNCHANGED <<txSeq, logSeq, rd, ids, tries>>

\* deadlock: w waits for a row held by v while v waits for a row held by w; Postgres aborts one of them,
\* the ledger rolls back and retries the whole request (forgeLogRetry)
WaitsFor(w) == IF pc[w] = "updvol" THEN {rowlock[p] : p \in {q \in Touched(w) : ~Free(q, w)}}
               ELSE IF pc[w] = "getbal" /\ Bounded(w) /\ ForUpdate /\ ~Free(<<Ops[w].src, Ops[w].asset>>, w)
                    THEN {rowlock[<<Ops[w].src, Ops[w].asset>>]}
               ELSE {}
DeadlockAbort(w) ==
  /\ \E v \in WaitsFor(w) : w \in WaitsFor(v)
  /\ tries[w] < MaxRetry
  /\ tries' = [tries EXCEPT ![w] = @ + 1]
  /\ ReleaseAll(w)
  /\ pc' = [pc EXCEPT ![w] = "begin"]
  /\ UNCHANGED <<bal, txSeq, logSeq, logs, rd, ids, res>>

Next == \E w \in Writers :
          \/ Begin(w) \/ IkRead(w) \/ GetBal(w) \/ Check(w) \/ UpdVol(w) \/ InsTx(w)
          \/ AdvLock(w) \/ InsLog(w) \/ Commit(w) \/ DeadlockAbort(w)

Spec == Init /\ [][Next]_vars /\ WF_vars(Next)

(***************************************************************************)
(* Properties                                                              *)
(***************************************************************************)
\* C06: a committed balance of a bounded source never goes below its allowance
NoOverdraft ==
  \A w \in Writers : Bounded(w) =>
     bal[<<Ops[w].src, Ops[w].asset>>] >= 0 - Ops[w].bound
       \/ bal[<<Ops[w].src, Ops[w].asset>>] >= (IF <<Ops[w].src, Ops[w].asset>> \in DOMAIN InitBal
                                                  THEN InitBal[<<Ops[w].src, Ops[w].asset>>] ELSE 0)

\* C13: at most one log per key; a duplicate of a committed keyed request is never answered by a business error
AtMostOncePerKey == \A i, j \in DOMAIN logs : i # j /\ logs[i].ik # "" => logs[i].ik # logs[j].ik
NoBusinessErrorOnDuplicate ==
  \A w \in Writers : res[w] = "insufficient" /\ Ops[w].ik # "" =>
     ~\E i \in DOMAIN logs : logs[i].ik = Ops[w].ik /\ logs[i].in = Ops[w].in

\* C16: ids increase in commit order
TxIdCommitOrder == \A i, j \in DOMAIN logs : i < j => logs[i].txid < logs[j].txid
LogIdCommitOrder == \A i, j \in DOMAIN logs : i < j => logs[i].logid < logs[j].logid

\* C09: the hash chain is linear: every log chains from the log just before it in id order
LinearChain ==
  \A i \in DOMAIN logs :
     LET before == {logs[j].logid : j \in {k \in DOMAIN logs : logs[k].logid < logs[i].logid}}
     IN logs[i].pred = (IF before = {} THEN 0 ELSE CHOOSE m \in before : \A n \in before : n <= m)

\* every writer eventually gets an answer (no stuck request)
AllAnswered == <>(\A w \in Writers : pc[w] = "done")
=============================================================================
