\* negative control / design-level record: AuditAcceptsAll over the as-read outcomes MUST be violated (D1, D2)
INIT Init
NEXT Next
VIEW View
CONSTANTS
  FixedNames <- MCFixed
  VarKeys <- MCVar
  BadNames <- MCNone
  BadPatterns <- MCNone
  PatMatch <- MCPatMatch
  MetaKeys <- MCKeys
  ChartMenu <- MCCharts
  Versions <- MCVersions
  TplDefs <- MCTplDefs
  SchemaMenu <- MCSchemaMenu
  TxMenu <- MCTxMenuS
  MetaMenu <- MCMetaMenu
  AllKeys <- MCAllKeys
  Addrs <- MCAddrs
  Modes <- MCAudit
  MaxSteps = 2
  ModelDeviations = TRUE
  Follow <- MCFollowNone
  EmitAll = FALSE
INVARIANTS AuditAcceptsAll_AsRead
