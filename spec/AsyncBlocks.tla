---------------------------- MODULE AsyncBlocks ----------------------------
(***************************************************************************)
(* Asynchronous log blocks (property C34), at the grain of the code:        *)
(*                                                                         *)
(*   writers   insert a log whose id is drawn from the ledger's sequence    *)
(*             when the INSERT runs, and commit later (or roll back: the    *)
(*             id is then lost, sequences have gaps).  With                 *)
(*             HASH_LOGS = ASYNC nothing orders two writers that share no   *)
(*             row, so commits may happen in the opposite order of the ids  *)
(*             (known finding C16).  Ordered = TRUE models a configuration  *)
(*             in which a writer holds a lock from before drawing its id    *)
(*             until its commit (what HASH_LOGS = SYNC's advisory lock      *)
(*             does).                                                       *)
(*   builders  run the create_blocks procedure of migration 38: read the    *)
(*             last block (order by previous desc limit 1), then loop       *)
(*             create_block: take the COMMITTED logs with id > the last     *)
(*             block's to_id, in id order, at most MaxBlock of them; hash   *)
(*             them after the previous block's hash; insert the block       *)
(*             (from_id = previous to_id, to_id = max id taken, previous =  *)
(*             previous block id; primary key (ledger, previous)); stop     *)
(*             when nothing is left.  Each statement of the procedure sees  *)
(*             what is committed when it runs (READ COMMITTED); the blocks  *)
(*             of one call become visible together when the call returns.   *)
(*                                                                         *)
(* A block is modelled by its id range and by cov, the set of log ids its   *)
(* hash was computed over.                                                  *)
(***************************************************************************)
EXTENDS Integers, FiniteSets, Sequences, TLC

CONSTANTS Writers, Builders, MaxWrites, MaxBlock, Ordered

VARIABLES nextId,     \* next value of the log id sequence
          drawn,      \* writer -> id it inserted and has not committed yet (0 = none)
          writes,     \* writer -> number of writes started
          committed,  \* set of committed log ids
          blocks,     \* committed blocks, in creation order: [from, to, cov]
          bpc,        \* builder -> "idle" | "run"
          bcur,       \* builder -> to_id of the last block it knows (its own or the one read at start)
          bacc        \* builder -> blocks inserted by the running call (not yet visible to others)

vars == <<nextId, drawn, writes, committed, blocks, bpc, bcur, bacc>>

Max(S) == CHOOSE x \in S : \A y \in S : y <= x
\* the n smallest elements of S
RECURSIVE Smallest(_, _)
Smallest(S, n) == IF n = 0 \/ S = {} THEN {}
                  ELSE LET m == CHOOSE x \in S : \A y \in S : x <= y
                       IN {m} \cup Smallest(S \ {m}, n - 1)

LastTo(bs) == IF Len(bs) = 0 THEN 0 ELSE bs[Len(bs)].to

Init == /\ nextId = 1
        /\ drawn = [w \in Writers |-> 0]
        /\ writes = [w \in Writers |-> 0]
        /\ committed = {}
        /\ blocks = <<>>
        /\ bpc = [b \in Builders |-> "idle"]
        /\ bcur = [b \in Builders |-> 0]
        /\ bacc = [b \in Builders |-> <<>>]

\* INSERT INTO logs: the id is drawn now
Draw(w) == /\ drawn[w] = 0 /\ writes[w] < MaxWrites
           /\ (Ordered => \A v \in Writers : drawn[v] = 0)
           /\ drawn' = [drawn EXCEPT ![w] = nextId]
           /\ nextId' = nextId + 1
           /\ writes' = [writes EXCEPT ![w] = @ + 1]
           /\ UNCHANGED <<committed, blocks, bpc, bcur, bacc>>

Commit(w) == /\ drawn[w] # 0
             /\ committed' = committed \cup {drawn[w]}
             /\ drawn' = [drawn EXCEPT ![w] = 0]
             /\ UNCHANGED <<nextId, writes, blocks, bpc, bcur, bacc>>

\* the request fails after the insert (or the connection drops): the id is never used
Rollback(w) == /\ drawn[w] # 0
               /\ drawn' = [drawn EXCEPT ![w] = 0]
               /\ UNCHANGED <<nextId, writes, committed, blocks, bpc, bcur, bacc>>

\* call create_blocks: read the last committed block
Start(b) == /\ bpc[b] = "idle"
            /\ bpc' = [bpc EXCEPT ![b] = "run"]
            /\ bcur' = [bcur EXCEPT ![b] = LastTo(blocks)]
            /\ bacc' = [bacc EXCEPT ![b] = <<>>]
            /\ UNCHANGED <<nextId, drawn, writes, committed, blocks>>

Todo(b) == {i \in committed : i > bcur[b]}

\* primary key (ledger, previous): two calls cannot both insert a block after the same block.  The later
\* one waits for the earlier one and then fails; here it is not enabled while the other call is running
\* with such a block, and aborts once such a block is committed.
Clash(b) == \E k \in DOMAIN blocks : blocks[k].from = bcur[b]
Waits(b) == \E o \in Builders \ {b} : \E k \in DOMAIN bacc[o] : bacc[o][k].from = bcur[b]

\* one iteration of the loop: create_block
CreateBlock(b) ==
  /\ bpc[b] = "run" /\ Todo(b) # {} /\ ~Clash(b) /\ ~Waits(b)
  /\ LET cov == Smallest(Todo(b), MaxBlock)
         blk == [from |-> bcur[b], to |-> Max(cov), cov |-> cov]
     IN /\ bacc' = [bacc EXCEPT ![b] = Append(@, blk)]
        /\ bcur' = [bcur EXCEPT ![b] = blk.to]
  /\ UNCHANGED <<nextId, drawn, writes, committed, blocks, bpc>>

\* unique violation: the whole call is rolled back
Abort(b) == /\ bpc[b] = "run" /\ Todo(b) # {} /\ Clash(b)
            /\ bpc' = [bpc EXCEPT ![b] = "idle"]
            /\ bacc' = [bacc EXCEPT ![b] = <<>>]
            /\ UNCHANGED <<nextId, drawn, writes, committed, blocks, bcur>>

\* nothing left: the call returns and its blocks become visible
Finish(b) == /\ bpc[b] = "run" /\ Todo(b) = {}
             /\ blocks' = blocks \o bacc[b]
             /\ bpc' = [bpc EXCEPT ![b] = "idle"]
             /\ bacc' = [bacc EXCEPT ![b] = <<>>]
             /\ UNCHANGED <<nextId, drawn, writes, committed, bcur>>

Next == \/ \E w \in Writers : Draw(w) \/ Commit(w) \/ Rollback(w)
        \/ \E b \in Builders : Start(b) \/ CreateBlock(b) \/ Abort(b) \/ Finish(b)

Spec == Init /\ [][Next]_vars

(***************************************************************************)
(* Properties (C34)                                                         *)
(***************************************************************************)
TypeOK == /\ nextId \in Nat /\ committed \subseteq 1..(nextId - 1)
          /\ \A k \in DOMAIN blocks : blocks[k].from < blocks[k].to /\ blocks[k].cov # {}

\* the blocks form a contiguous chain starting at 0
ChainOK == \A k \in DOMAIN blocks : blocks[k].from = (IF k = 1 THEN 0 ELSE blocks[k - 1].to)

\* the id ranges are pairwise disjoint (with ChainOK: they partition (0, LastTo])
RangesDisjoint == \A j, k \in DOMAIN blocks : j < k => blocks[j].to <= blocks[k].from

\* every block's hash covers exactly the logs committed in its range: no log skipped, even one that
\* committed after a log with a higher id had been put in a block
DigestCovers == \A k \in DOMAIN blocks :
                   blocks[k].cov = {i \in committed : blocks[k].from < i /\ i <= blocks[k].to}

\* quiescence: no write in flight, no builder running, nothing left to put in a block
Quiescent == /\ \A w \in Writers : drawn[w] = 0
             /\ \A b \in Builders : bpc[b] = "idle"
             /\ {i \in committed : i > LastTo(blocks)} = {}
\* then the blocks cover every committed log exactly once
CoverAtQuiescence == Quiescent => /\ \A i \in committed : Cardinality({k \in DOMAIN blocks : i \in blocks[k].cov}) = 1
                                  /\ \A k \in DOMAIN blocks : blocks[k].cov \subseteq committed

\* committed blocks are never rewritten
AppendOnly == [][\A k \in DOMAIN blocks : k \in DOMAIN blocks' /\ blocks'[k] = blocks[k]]_vars
=============================================================================
