SPECIFICATION Spec
CONSTANTS
  Depth = 3
  WithIn = TRUE
INVARIANTS
  PushSafeNoIn
CHECK_DEADLOCK FALSE
