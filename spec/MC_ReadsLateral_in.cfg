SPECIFICATION Spec
CONSTANTS
  Depth = 3
  WithIn = TRUE
INVARIANTS
  PushSafe
  PushSafeNoIn
CHECK_DEADLOCK FALSE
