\* tiny menus, every behaviour of <= 3 requests in both modes (e.g. schema; rejected write; accepted write)
INIT Init
NEXT EmitNext
VIEW View
CONSTANTS
  FixedNames <- MCFixed
  VarKeys <- MCVar
  BadNames <- MCNone
  BadPatterns <- MCNone
  PatMatch <- MCPatMatch
  MetaKeys <- MCKeys
  ChartMenu <- MCCharts
  Versions <- MCVersions
  TplDefs <- MCTplDefs
  SchemaMenu <- MCSchemaMenu1
  TxMenu <- MCTxMenuT
  MetaMenu <- MCMetaMenu1
  AllKeys <- MCAllKeys
  Addrs <- MCAddrs
  Modes <- MCModes
  MaxSteps = 3
  ModelDeviations = TRUE
  Follow <- MCFollowNone
  EmitAll = TRUE
INVARIANTS TypeOK NoEffectOnReject OneLogPerWrite DefaultsOnlyAtCreation NoAccountDeleted StrictRequiresVersion StrictChartEnforced StrictHasNoDeviation AuditAcceptsAll AuditRelaxesStrict TemplateDecidesPostings
