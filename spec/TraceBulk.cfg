SPECIFICATION Spec
CONSTANT TraceFile = "trace.ndjson"
INVARIANTS
  Inv_Ledger
PROPERTIES
  Step_C32_OneResultPerElement
  Step_C32_Results
  Step_C13_SingleHit
  Step_C32_AtomicAllOrNothing
  Step_C32_OrderedEffects
  Step_SingleEffect
  Step_C32_Status
  Step_C32_ParallelOutcome
  Step_C32_ParallelResultOrder
  Step_C32_ParallelTyping
  Step_C31_RequestEvents
  Step_C07_RequestNoTrace
  Step_ResetPristine
POSTCONDITION Accepted
CHECK_DEADLOCK FALSE
