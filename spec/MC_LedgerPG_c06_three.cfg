SPECIFICATION Spec
CONSTANTS
  Ops <- MCOps
  InitBal <- MCInit
  Scenario = "three-spenders"
  ForUpdate = TRUE
  AdvisoryLock = TRUE
  Recheck = TRUE
  MaxRetry = 2
INVARIANTS
  NoOverdraft
  LinearChain
  LogIdCommitOrder
PROPERTIES
  AllAnswered
CHECK_DEADLOCK FALSE
