SPECIFICATION Spec
CONSTANTS
  Routes <- MCRoutes
  Emit = TRUE
INVARIANTS
  Thm_ExpectWellFormed
  Thm_BothAPIs
  EmitCase
CHECK_DEADLOCK FALSE
