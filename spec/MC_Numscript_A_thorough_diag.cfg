INIT Init
NEXT Next
CONSTANT Family = "A"
CONSTANT Tier = "thorough"
CONSTANT N = 0
INVARIANT Inv_NonNeg
INVARIANT Inv_Asset
INVARIANT Inv_Sum
INVARIANT Inv_NoKeptPosting
INVARIANT Inv_Balances
INVARIANT Inv_Untracked
INVARIANT Inv_Bounded
INVARIANT Inv_BoundedSend
INVARIANT Inv_IdealOk
INVARIANT Inv_IdealDest
INVARIANT Inv_IdealPostings
INVARIANT Inv_IdealBalances
INVARIANT Inv_Family
INVARIANT Inv_ScriptScale
