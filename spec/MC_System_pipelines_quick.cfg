SPECIFICATION Spec
CONSTANTS
  MaxOps = 3
  Menu = "pipelines"
INVARIANTS
  InvOK
  StepsOK
  PagesAlwaysOK
  FiltersOK
  OutcomesOK
CHECK_DEADLOCK FALSE
