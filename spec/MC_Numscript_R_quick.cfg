INIT Init
NEXT Next
CONSTANT Family = "R"
CONSTANT Tier = "quick"
CONSTANT N = 3000
INVARIANT CheckAndEmit
