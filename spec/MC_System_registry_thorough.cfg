SPECIFICATION Spec
CONSTANTS
  MaxOps = 4
  Menu = "registry"
INVARIANTS
  InvOK
  StepsOK
  PagesAlwaysOK
  FiltersOK
  OutcomesOK
CHECK_DEADLOCK FALSE
