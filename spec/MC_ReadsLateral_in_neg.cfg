SPECIFICATION Spec
CONSTANTS
  Depth = 2
  WithIn = TRUE
INVARIANTS
  PushSafe
CHECK_DEADLOCK FALSE
