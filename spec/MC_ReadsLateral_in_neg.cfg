\* used with a copy of Reads.tla in which CountInAsAddressFilter == TRUE (the rule before the repair): PushSafe must FAIL
SPECIFICATION Spec
CONSTANTS
  Depth = 2
  WithIn = TRUE
INVARIANTS
  PushSafe
CHECK_DEADLOCK FALSE
