------------------------------ MODULE ChartGen ------------------------------
(***************************************************************************)
(* Generator, theorems and case emission over Chart.tla (see there for the *)
(* model).  State machine: a chart is built one node at a time; TLC either  *)
(* enumerates every chart within the bounds (BFS) or samples random walks   *)
(* (-simulate).  The invariants are theorems about Find / Canon / Valid     *)
(* evaluated on every generated chart; Emit prints one CASE per chart with  *)
(* the outcome the spec prescribes (Flow A).                                *)
(***************************************************************************)
EXTENDS Chart, Json

CONSTANTS
    Patterns,       \* pattern names usable on generated nodes; contains "none"
    SelfMenu,       \* subset of {"absent", "empty", "junk"}
    PropsMenu,      \* set of props records
    RootMenu,       \* set of nodes the root may be initialised with
    Alphabet,       \* address segment strings (disjoint from VarKeys)
    MaxAddrLen,     \* addresses have 1..MaxAddrLen segments
    MaxNodes,       \* max number of non-root nodes of a generated chart
    MaxDepth,       \* max path length of a generated chart
    AllowDefects,   \* TRUE: also generate charts with exactly one validity defect
    EmitMin,        \* emit a CASE for charts with at least that many non-root nodes
    TxMenu, QMenu   \* sequences of sets of template ids (opaque to the chart)

VARIABLES c,        \* the chart under construction
          nd        \* number of validity defects of c (derived; keeps the guard of Next cheap)

---------------------------------------------------------------------------
(* Addresses and schema-level round trip                                   *)

Addresses == UNION {[1..n -> Alphabet] : n \in 1..MaxAddrLen}

NNodes(ch) == Cardinality(DOMAIN ch) - 1

\* templates / query templates are opaque values carried next to the chart
TxOf(ch) == TxMenu[(NNodes(ch) % Len(TxMenu)) + 1]
QOf(ch)  == QMenu[((NNodes(ch) + Depth(ch)) % Len(QMenu)) + 1]
Schema(ch)    == [chart |-> ch, tx |-> TxOf(ch), queries |-> QOf(ch)]
RoundTrip(s)  == [chart |-> Canon(s.chart), tx |-> s.tx, queries |-> s.queries]
Meaning(s)    == [find |-> [a \in Addresses |-> Find(s.chart, a)], tx |-> s.tx, queries |-> s.queries]

---------------------------------------------------------------------------
(* Generation: add one node at a time; every valid chart with at most      *)
(* MaxNodes nodes and depth <= MaxDepth is reachable through valid charts. *)

Init == /\ c \in {(<< >> :> r) : r \in RootMenu}
        /\ nd = Cardinality(Defects(c))

Add(p, k, n) ==
    /\ nd = 0                                   \* charts with a defect are terminal
    /\ NNodes(c) < MaxNodes
    /\ Len(p) < MaxDepth
    /\ Append(p, k) \notin DOMAIN c
    /\ c' = (Append(p, k) :> n) @@ c
    /\ nd' = Cardinality(Defects(c'))
    /\ nd' <= (IF AllowDefects THEN 1 ELSE 0)

Next == \E k \in Keys, s \in SelfMenu, pr \in PropsMenu, pt \in Patterns :
            \E p \in DOMAIN c : Add(p, k, [self |-> s, pat |-> pt, props |-> pr])

vars == <<c, nd>>
Spec == Init /\ [][Next]_vars

---------------------------------------------------------------------------
(* Theorems checked by TLC on every generated chart                        *)

TypeOK ==
    /\ nd = Cardinality(Defects(c))
    /\ << >> \in DOMAIN c
    /\ \A p \in DOMAIN c : Len(p) > 0 => SubSeq(p, 1, Len(p) - 1) \in DOMAIN c    \* prefix closed

\* design-level C30: the schema means the same after marshal/unmarshal
ThmRoundTripMeaning == Valid(c) => Meaning(RoundTrip(Schema(c))) = Meaning(Schema(c))
ThmCanonFind  == Valid(c) => \A a \in Addresses : Find(Canon(c), a) = Find(c, a)
ThmCanonValid == Valid(c) => Valid(Canon(c))
ThmCanonIdem  == Valid(c) => Canon(Canon(c)) = Canon(c)
\* determinism: an address denotes at most one node, and Find is exactly "that node is an account"
ThmUnique == Valid(c) => \A a \in Addresses :
                 LET M == MatchSet(c, a)
                     f == Find(c, a)
                 IN  /\ Cardinality(M) <= 1
                     /\ f.accepted <=> \E q \in M : IsAccount(c, q)
                     /\ \A q \in M : IsAccount(c, q) => f.meta = DefaultMeta(c[q])
                     /\ ~f.accepted => f.meta = NoMeta
\* every declared leaf is an account; every declared account is reachable by some address of the
\* alphabet unless a pattern excludes all of it (not asserted) -- asserted: fixed-only paths accept
ThmFixedPathAccepted == Valid(c) => \A p \in DOMAIN c :
                 (p # << >> /\ Len(p) <= MaxAddrLen /\ (\A i \in 1..Len(p) : p[i] \in FixedNames \cap Alphabet)
                  /\ IsAccount(c, p)) => Find(c, p).accepted

---------------------------------------------------------------------------
(* Case emission (Flow A): the chart, its validity, its normal form and    *)
(* the accepted addresses with their default metadata.  Rejected addresses *)
(* are the complement within Addresses (printed once by the header).       *)

NodeSet(ch) == {[p |-> p, self |-> ch[p].self, pat |-> ch[p].pat, props |-> ch[p].props] : p \in DOMAIN ch}

CaseOf(ch) ==
    IF Valid(ch)
    THEN LET F   == [a \in Addresses |-> Find(ch, a)]
             Acc == {a \in Addresses : F[a].accepted}
         IN  [kind |-> "chart", valid |-> TRUE, nodes |-> NodeSet(ch), canon |-> NodeSet(Canon(ch)),
              defects |-> << >>,
              accepted |-> {[a |-> a, meta |-> F[a].meta] : a \in Acc},
              shadowed |-> {a \in Addresses \ Acc : WalkVarOnly(ch, << >>, a)},
              tx |-> TxOf(ch), queries |-> QOf(ch)]
    ELSE [kind |-> "chart", valid |-> FALSE, nodes |-> NodeSet(ch), canon |-> << >>,
          defects |-> Defects(ch), accepted |-> << >>, shadowed |-> << >>,
          tx |-> TxOf(ch), queries |-> QOf(ch)]

Header == [kind |-> "header", addresses |-> Addresses, alphabet |-> Alphabet,
           patmatch |-> [pt \in (Patterns \ BadPatterns) \ {"none"} |-> PatMatch[pt]],
           badpatterns |-> BadPatterns, fixed |-> FixedNames, varkeys |-> VarKeys, badnames |-> BadNames,
           maxnodes |-> MaxNodes, maxdepth |-> MaxDepth, maxaddrlen |-> MaxAddrLen]

Emit == NNodes(c) >= EmitMin => PrintT(<<"CASE", ToJson(CaseOf(c))>>)

ASSUME Alphabet \cap VarKeys = {} /\ "none" \in Patterns /\ BadPatterns \subseteq Patterns
ASSUME PrintT(<<"CASE", ToJson(Header)>>)
=============================================================================
