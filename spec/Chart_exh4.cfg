\* exhaustive, theorems only (no case emission): every valid chart with <= 4 nodes, depth <= 4
INIT Init
NEXT Next
CONSTANTS
  FixedNames <- MCFixed
  VarKeys <- MCVar1
  BadNames <- MCNoBad
  Patterns <- MCPatterns2
  BadPatterns <- MCNoBad
  PatMatch <- MCPatMatch
  SelfMenu <- MCSelf2
  PropsMenu <- MCPropsS
  RootMenu <- MCRootPlain
  MetaKeys <- MCKeys
  Alphabet <- MCAlphabet
  TxMenu <- MCTxMenu
  QMenu <- MCQMenu
  MaxAddrLen = 3
  MaxNodes = 4
  MaxDepth = 4
  AllowDefects = FALSE
  EmitMin = 0
INVARIANTS TypeOK ThmRoundTripMeaning ThmCanonValid ThmCanonIdem ThmUnique ThmFixedPathAccepted
