----------------------------- MODULE MC_Schema -----------------------------
(* Model-checking wrapper of Schema.tla: finite menus and case emission.    *)
EXTENDS Schema, SchemaGenCharts, Json

CONSTANTS EmitAll   \* TRUE: print a CASE for every transition TLC generates (BFS); FALSE: only for
                    \* behaviours of full length (simulation)

MCFixed   == {"a", "7", "world", "in"}
MCVar     == {"$v"}
MCNone    == {}
MCKeys    == {"k1", "k2"}
MCAllKeys == {"k1", "k2", "k3"}
\* segments the address menu uses: digits = ^[0-9]+$, alt = ^(a|x)$, hasdigit = [0-9]
MCPatMatch == [pt \in {"digits", "alt", "hasdigit"} |->
                 CASE pt = "digits"   -> {"7", "42"}
                   [] pt = "alt"      -> {"a", "x"}
                   [] pt = "hasdigit" -> {"7", "42"}]

W   == <<"world">>
A   == <<"a">>
A7  == <<"a", "7">>
AX  == <<"a", "x">>
A42 == <<"a", "42">>
ZZ  == <<"zz">>
MCAddrs == {W, A, A7, AX, A42, ZZ}

KV(v1, v2, v3) == [k \in MCAllKeys |-> CASE k = "k1" -> v1 [] k = "k2" -> v2 [] k = "k3" -> v3]
Po(s, d, n) == [s |-> s, d |-> d, amt |-> n]

\* hand-written charts:
\*  1: world (no metadata), a (.self, k1=v1), a:$v digits-only (k1=v2, k2=v1)  -> a:x, zz rejected
\*  2: no world: a (.self), a:7 = grouping node (no .self) over a:7:in, a:$v pattern-less (k2=v2)
\*     -> world rejected; a:7 rejected although its sibling $v would match "7" (a fixed child
\*     shadows the variable one: Shadowed(chart, a:7)); a:x, a:42 accepted with default k2=v2
HP(m, v1, v2) == [meta |-> m, kv |-> [k \in MCKeys |-> IF k = "k1" THEN v1 ELSE v2], rules |-> FALSE]
HN(s, pt, pr) == [self |-> s, pat |-> pt, props |-> pr]
MCCharts == <<
    (<< >> :> PlainNode) @@ (W :> PlainNode) @@ (A :> HN("empty", "none", HP(TRUE, "v1", "_")))
      @@ (<<"a", "$v">> :> HN("absent", "digits", HP(TRUE, "v2", "v1"))),
    (<< >> :> PlainNode) @@ (A :> HN("empty", "none", HP(FALSE, "_", "_")))
      @@ (A7 :> HN("absent", "none", HP(FALSE, "_", "_")))
      @@ (<<"a", "7", "in">> :> HN("absent", "none", HP(FALSE, "_", "_")))
      @@ (<<"a", "$v">> :> HN("absent", "none", HP(TRUE, "_", "v2")))
>>

\* the hand-written menu must contain a shadowed address (used as source, destination, metadata key)
ASSUME Shadowed(MCCharts[2], A7)

MCVersions == {"v1", "v2"}
MCTplDefs  == [t \in {"t1"} |-> <<Po(W, A42, 1)>>]
MCSchemaMenu == {[k |-> "schema", v |-> "v1", chart |-> 1, tpls |-> FALSE],
                 [k |-> "schema", v |-> "v1", chart |-> 2, tpls |-> TRUE],
                 [k |-> "schema", v |-> "v2", chart |-> 1, tpls |-> TRUE],
                 [k |-> "schema", v |-> "v2", chart |-> 2, tpls |-> FALSE]}
MCVers   == {"", "v1", "v2", "v9"}
\* a:7 (shadowed under chart 2) is used as destination, as source, and as account-metadata key next
\* to postings chart 2 accepts (a:x -> a)
MCBodiesS == {[tpl |-> "", post |-> <<Po(W, A7, 1)>>],
              [tpl |-> "", post |-> <<Po(W, AX, 1)>>],
              [tpl |-> "", post |-> <<Po(A, A7, 0)>>],
              [tpl |-> "", post |-> <<Po(A7, A, 0)>>],
              [tpl |-> "", post |-> <<Po(AX, A, 0)>>],
              [tpl |-> "t1", post |-> << >>],
              [tpl |-> "tx", post |-> << >>]}
MCBodies == MCBodiesS \cup {[tpl |-> "", post |-> <<Po(W, A, 1), Po(A, A7, 1)>>]}
\* the script a request may carry next to a template id (never recorded: the template decides)
MCOwn == <<Po(W, A42, 5)>>
MCAMetaS == {{}, {[a |-> A7, kv |-> KV("r1", "_", "_")]}}
MCAMetaL == MCAMetaS \cup {{[a |-> ZZ, kv |-> KV("_", "_", "r3")]},
                           {[a |-> A, kv |-> KV("_", "r2", "_")], [a |-> A42, kv |-> KV("r1", "_", "r3")]}}
TxOf(vs, bs, ams) == {[k |-> "tx", ver |-> v, tpl |-> b.tpl, post |-> b.post, ameta |-> am, via |-> "direct", own |-> FALSE] :
                          v \in vs, b \in bs, am \in ams}
\* transactions carried by a single-element bulk (atomic or not), including "template id + own script",
\* and the same combination sent to POST /transactions (refused by the handler)
MCBulk == {[k |-> "tx", ver |-> v, tpl |-> b.tpl, post |-> b.post, ameta |-> {}, via |-> vi, own |-> b.own] :
               v \in {"v1", "v2"}, vi \in {"bulk", "bulkatomic"},
               b \in {[tpl |-> "t1", post |-> << >>, own |-> TRUE], [tpl |-> "t1", post |-> << >>, own |-> FALSE],
                      [tpl |-> "", post |-> <<Po(W, A7, 1)>>, own |-> FALSE]}}
          \cup {[k |-> "tx", ver |-> "", tpl |-> "", post |-> <<Po(W, A7, 1)>>, ameta |-> {}, via |-> "bulk", own |-> FALSE],
                [k |-> "tx", ver |-> "v2", tpl |-> "t1", post |-> << >>, ameta |-> {}, via |-> "direct", own |-> TRUE]}
MCShadowBodies == {[tpl |-> "", post |-> <<Po(A, A7, 0)>>], [tpl |-> "", post |-> <<Po(AX, A, 0)>>]}
MCTxMenuS == TxOf(MCVers, MCBodiesS \ MCShadowBodies, MCAMetaS)
             \cup TxOf(MCVers, {[tpl |-> "", post |-> <<Po(A, A7, 0)>>]}, {{}})
             \cup TxOf(MCVers, {[tpl |-> "", post |-> <<Po(AX, A, 0)>>]}, {{[a |-> A7, kv |-> KV("r1", "_", "_")]}})
             \cup MCBulk
MCTxMenuL == TxOf(MCVers, MCBodies, MCAMetaL) \cup MCBulk
\* tiny menus of Schema_bfs3s.cfg (every behaviour of 3 requests: what a rejection leaves behind)
MCSchemaMenu1 == {[k |-> "schema", v |-> "v1", chart |-> 1, tpls |-> FALSE]}
MCTxMenuT == TxOf({"", "v1"}, {[tpl |-> "", post |-> <<Po(W, A7, 1)>>], [tpl |-> "", post |-> <<Po(W, AX, 1)>>]}, {{}})
MCMetaMenu1 == {[k |-> "meta", ver |-> "v1", a |-> A7, kv |-> KV("m1", "_", "_")]}
MCMetaMenu == {[k |-> "meta", ver |-> v, a |-> x.a, kv |-> x.kv] :
                   v \in MCVers, x \in {[a |-> A7, kv |-> KV("m1", "_", "_")], [a |-> ZZ, kv |-> KV("_", "_", "m3")]}}
\* values of Follow (the cfgs use MCFollowNone: behaviours continue through the literal outcomes only)
MCFollowNone == {}
MCFollowD1   == {"D1"}
MCFollowD2   == {"D2"}
MCFollowD1D2 == {"D1", "D2"}
MCModes  == {"strict", "audit"}
MCStrict == {"strict"}
MCAudit  == {"audit"}

---------------------------------------------------------------------------
NodeSetOf(ch) == {[p |-> p, self |-> ch[p].self, pat |-> ch[p].pat, props |-> ch[p].props] : p \in DOMAIN ch}

\* printed once: what every case of the run shares
Header == [kind |-> "schemaheader",
           charts |-> [i \in 1..Len(ChartMenu) |-> NodeSetOf(ChartMenu[i])],
           tpls |-> TplDefs, own |-> MCOwn, maxsteps |-> MaxSteps, requests |-> Cardinality(Reqs),
           \* the finite abstraction of regular expressions, checked by the harness against regexp.Match
           \* (same field names as the header of ChartGen.tla)
           addresses |-> Addrs, alphabet |-> UNION {{a[i] : i \in 1..Len(a)} : a \in Addrs},
           patmatch |-> PatMatch, badpatterns |-> BadPatterns, fixed |-> FixedNames,
           varkeys |-> VarKeys, badnames |-> BadNames]

CaseOf(h) == [kind |-> "schemacase", mode |-> st.mode, steps |-> h]

EmitNext == \E r \in Reqs :
                /\ Step(r)
                /\ (EmitAll \/ Len(hist') = MaxSteps \/ ~OnPath(hist'[Len(hist')]))
                       => PrintT(<<"CASE", ToJson(CaseOf(hist'))>>)

ASSUME \A i \in 1..Len(ChartMenu) : Valid(ChartMenu[i])
ASSUME PrintT(<<"CASE", ToJson(Header)>>)
=============================================================================
