----------------------------- MODULE MC_Schema -----------------------------
(* Model-checking wrapper of Schema.tla: finite menus and case emission.    *)
EXTENDS Schema, SchemaGenCharts, Json

CONSTANTS EmitAll   \* TRUE: print a CASE for every transition TLC generates (BFS); FALSE: only for
                    \* behaviours of full length (simulation)

MCFixed   == {"a", "7", "world"}
MCVar     == {"$v"}
MCNone    == {}
MCKeys    == {"k1", "k2"}
MCAllKeys == {"k1", "k2", "k3"}
\* segments the address menu uses: digits = ^[0-9]+$, alt = ^(a|x)$, hasdigit = [0-9]
MCPatMatch == [pt \in {"digits", "alt", "hasdigit"} |->
                 CASE pt = "digits"   -> {"7", "42"}
                   [] pt = "alt"      -> {"a", "x"}
                   [] pt = "hasdigit" -> {"7", "42"}]

W   == <<"world">>
A   == <<"a">>
A7  == <<"a", "7">>
AX  == <<"a", "x">>
A42 == <<"a", "42">>
ZZ  == <<"zz">>
MCAddrs == {W, A, A7, AX, A42, ZZ}

KV(v1, v2, v3) == [k \in MCAllKeys |-> CASE k = "k1" -> v1 [] k = "k2" -> v2 [] k = "k3" -> v3]
Po(s, d, n) == [s |-> s, d |-> d, amt |-> n]

\* hand-written charts:
\*  1: world (no metadata), a (.self, k1=v1), a:$v digits-only (k1=v2, k2=v1)  -> a:x, zz rejected
\*  2: no world: a (.self), a:7 (k2=v2)                                          -> world rejected
HP(m, v1, v2) == [meta |-> m, kv |-> [k \in MCKeys |-> IF k = "k1" THEN v1 ELSE v2], rules |-> FALSE]
HN(s, pt, pr) == [self |-> s, pat |-> pt, props |-> pr]
MCCharts == <<
    (<< >> :> PlainNode) @@ (W :> PlainNode) @@ (A :> HN("empty", "none", HP(TRUE, "v1", "_")))
      @@ (<<"a", "$v">> :> HN("absent", "digits", HP(TRUE, "v2", "v1"))),
    (<< >> :> PlainNode) @@ (A :> HN("empty", "none", HP(FALSE, "_", "_")))
      @@ (A7 :> HN("absent", "none", HP(TRUE, "_", "v2")))
>>

MCVersions == {"v1", "v2"}
MCTplDefs  == [t \in {"t1"} |-> <<Po(W, A42, 1)>>]
MCSchemaMenu == {[k |-> "schema", v |-> "v1", chart |-> 1, tpls |-> FALSE],
                 [k |-> "schema", v |-> "v1", chart |-> 2, tpls |-> TRUE],
                 [k |-> "schema", v |-> "v2", chart |-> 1, tpls |-> TRUE],
                 [k |-> "schema", v |-> "v2", chart |-> 2, tpls |-> FALSE]}
MCVers   == {"", "v1", "v2", "v9"}
MCBodies == {[tpl |-> "", post |-> <<Po(W, A7, 1)>>],
             [tpl |-> "", post |-> <<Po(W, AX, 1)>>],
             [tpl |-> "", post |-> <<Po(W, A, 1), Po(A, A7, 1)>>],
             [tpl |-> "", post |-> <<Po(A7, A, 0)>>],
             [tpl |-> "t1", post |-> << >>],
             [tpl |-> "tx", post |-> << >>]}
MCAMetaS == {{}, {[a |-> A7, kv |-> KV("r1", "_", "_")]}}
MCAMetaL == MCAMetaS \cup {{[a |-> ZZ, kv |-> KV("_", "_", "r3")]},
                           {[a |-> A, kv |-> KV("_", "r2", "_")], [a |-> A42, kv |-> KV("r1", "_", "r3")]}}
TxOf(vs, bs, ams) == {[k |-> "tx", ver |-> v, tpl |-> b.tpl, post |-> b.post, ameta |-> am] : v \in vs, b \in bs, am \in ams}
MCTxMenuS == TxOf(MCVers, MCBodies, MCAMetaS)
MCTxMenuL == TxOf(MCVers, MCBodies, MCAMetaL)
\* tiny menus of Schema_bfs3s.cfg (every behaviour of 3 requests: what a rejection leaves behind)
MCSchemaMenu1 == {[k |-> "schema", v |-> "v1", chart |-> 1, tpls |-> FALSE]}
MCTxMenuT == TxOf({"", "v1"}, {[tpl |-> "", post |-> <<Po(W, A7, 1)>>], [tpl |-> "", post |-> <<Po(W, AX, 1)>>]}, {{}})
MCMetaMenu1 == {[k |-> "meta", ver |-> "v1", a |-> A7, kv |-> KV("m1", "_", "_")]}
MCMetaMenu == {[k |-> "meta", ver |-> v, a |-> x.a, kv |-> x.kv] :
                   v \in MCVers, x \in {[a |-> A7, kv |-> KV("m1", "_", "_")], [a |-> ZZ, kv |-> KV("_", "_", "m3")]}}
\* which deviations the implementation exhibits (checks/schema_common.py probes the real code and
\* substitutes the matching one for Follow)
MCFollowNone == {}
MCFollowD1   == {"D1"}
MCFollowD2   == {"D2"}
MCFollowD1D2 == {"D1", "D2"}
MCModes  == {"strict", "audit"}
MCStrict == {"strict"}
MCAudit  == {"audit"}

---------------------------------------------------------------------------
NodeSetOf(ch) == {[p |-> p, self |-> ch[p].self, pat |-> ch[p].pat, props |-> ch[p].props] : p \in DOMAIN ch}

\* printed once: what every case of the run shares
Header == [kind |-> "schemaheader",
           charts |-> [i \in 1..Len(ChartMenu) |-> NodeSetOf(ChartMenu[i])],
           tpls |-> TplDefs, maxsteps |-> MaxSteps, requests |-> Cardinality(Reqs),
           \* the finite abstraction of regular expressions, checked by the harness against regexp.Match
           \* (same field names as the header of ChartGen.tla)
           addresses |-> Addrs, alphabet |-> UNION {{a[i] : i \in 1..Len(a)} : a \in Addrs},
           patmatch |-> PatMatch, badpatterns |-> BadPatterns, fixed |-> FixedNames,
           varkeys |-> VarKeys, badnames |-> BadNames]

CaseOf(h) == [kind |-> "schemacase", mode |-> st.mode, steps |-> h]

EmitNext == \E r \in Reqs :
                /\ Step(r)
                /\ (EmitAll \/ Len(hist') = MaxSteps \/ ~OnPath(hist'[Len(hist')]))
                       => PrintT(<<"CASE", ToJson(CaseOf(hist'))>>)

ASSUME \A i \in 1..Len(ChartMenu) : Valid(ChartMenu[i])
ASSUME PrintT(<<"CASE", ToJson(Header)>>)
=============================================================================
