SPECIFICATION Spec
CONSTANTS
  Ops <- MCOps
  InitBal <- MCInit
  Scenario = "same-key-three"
  ForUpdate = TRUE
  AdvisoryLock = TRUE
  Recheck = TRUE
  MaxRetry = 2
INVARIANTS
  AtMostOncePerKey
  NoBusinessErrorOnDuplicate
  NoOverdraft
PROPERTIES
  AllAnswered
CHECK_DEADLOCK FALSE
