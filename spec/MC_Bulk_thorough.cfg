SPECIFICATION Spec
CONSTANTS
  MaxLen = 3
  Emit = TRUE
INVARIANTS
  Thm_OneResultPerElement
  Thm_AtomicAllOrNothing
  Thm_PrefixSemantics
  Thm_ContinueSemantics
  Thm_DurableOnlyIfOK
  Thm_LedgerInv
  Thm_SequentialIsAParallelOrder
  Thm_ParallelWellFormed
  EmitCase
CHECK_DEADLOCK FALSE
