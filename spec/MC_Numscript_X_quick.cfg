INIT Init
NEXT Next
CONSTANT Family = "X"
CONSTANT Tier = "quick"
CONSTANT N = 3000
INVARIANT CheckAndEmit
