\* the class predicates (known / suspected deviations), for completeness; checks use the report spec
SPECIFICATION Spec
CONSTANT TraceFile = "trace.ndjson"
PROPERTIES
  Step_C37_ParamsPartialOverride
  Step_C37_RunExactAmounts
  Step_C37_VarExactAmounts
  Step_C17_TxPitMixedFlags
  Step_C17_AcctPitAfterDelete
  Step_C20_VolumesWindowMetaNoHistory
  Step_C20_LateralInArray
  Step_C20_AcctBalancePitNoEffective
  Step_C20_AcctBalanceNoAsset
POSTCONDITION Accepted
CHECK_DEADLOCK FALSE
