SPECIFICATION Spec
CONSTANTS
  MaxKey = 7
  MaxLen = 6
  MaxSize = 4
INVARIANTS
  PageIsChunk
  NextIffMore
  PrevIffBefore
  FollowIsChunks
  ResizeEnumerates
CHECK_DEADLOCK FALSE
