----------------------------- MODULE MC_Requests -----------------------------
(* Default instance of Requests for stand-alone runs (two routes).  The check    *)
(* replaces this module by one generated from `vh-api requests -describe`.      *)
EXTENDS Requests

F(p, t, cl) == [path |-> p, type |-> t, class |-> cl]
MCRoutes == <<
  [route |-> "v2/tx_meta_add", api |-> "v2", write |-> TRUE, paged |-> FALSE, hasBody |-> TRUE, bodyFilter |-> FALSE,
   body |-> <<F("", "object", ""), F("k", "string", "text")>>, query |-> <<>>,
   path |-> <<F("ledger", "string", "name"), F("id", "string", "int")>>],
  [route |-> "v1/acct_list", api |-> "v1", write |-> FALSE, paged |-> TRUE, hasBody |-> FALSE, bodyFilter |-> FALSE,
   body |-> <<>>, query |-> <<F("pageSize", "string", "int"), F("address", "string", "addr")>>,
   path |-> <<F("ledger", "string", "name")>>] >>
=============================================================================
