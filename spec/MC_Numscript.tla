---------------------------- MODULE MC_Numscript ----------------------------
(***************************************************************************)
(* Case enumeration for Numscript.tla (Flow A).  One state `c` per case    *)
(* (all cases are initial states, Next stutters); the invariant            *)
(* CheckAndEmit evaluates every theorem of C22/C23 on the outcome Run      *)
(* prescribes and prints the case with that outcome as a CASE line.        *)
(*   Family: E1 sources x one destination, E2 send [A *], E3 destinations, *)
(*           E4 allotment sources, E5 several statements / two assets /    *)
(*           metadata / save / balance(), X programs the compiler must     *)
(*           reject, A allotments through scripts (C24),                   *)
(*           R seeded random programs over the larger space (-seed).       *)
(*   Tier:   "quick" | "thorough" (larger alphabets, depth 3)              *)
(*   N:      number of random programs (Family = "R")                      *)
(***************************************************************************)
EXTENDS Numscript, Json

CONSTANTS Family,   \* which structured sub-space (see Cases)
          Tier,     \* "quick" | "thorough"
          N         \* number of sampled programs (Family = "R*")

VARIABLE c

A1 == "COIN"
A2 == "USD/2"
Thorough == Tier = "thorough"

Bal3(a, b, cc) == [x \in {"a", "b", "c"} |->
                     [as \in {A1, A2} |-> IF as = A1 THEN (CASE x = "a" -> a [] x = "b" -> b [] OTHER -> cc) ELSE 0]]
Bal6(a, b, cc, a2, b2, c2) == [x \in {"a", "b", "c"} |->
                     [as \in {A1, A2} |-> IF as = A1 THEN (CASE x = "a" -> a [] x = "b" -> b [] OTHER -> cc)
                                          ELSE (CASE x = "a" -> a2 [] x = "b" -> b2 [] OTHER -> c2)]]

Case(fam, prog, bal) == [fam |-> fam, prog |-> prog, bal |-> bal]

\* ------------------------------------------------------------------ source building blocks
ODs      == IF Thorough THEN {NoOD, 0, 1, 3, Unb} ELSE {NoOD, 2, Unb}
Caps     == IF Thorough THEN {0, 1, 2, 4} ELSE {1, 3}
SrcAccts == IF Thorough THEN {"a", "b", "c"} ELSE {"a", "b"}

Leaves(A)     == {SAcct(a, od) : a \in A, od \in ODs} \cup {SWorld}
MaxOf(S)      == {SMax(cp, s) : cp \in Caps, s \in S}
Seq2(S, T)    == {SSeq(<<x, y>>) : x \in S, y \in T}
Seq3(S)       == {SSeq(<<x, y, z>>) : x \in S, y \in S, z \in S}
WfS(S)        == {s \in S : WfSrc(s, FALSE)}
NotWfS(S)     == {s \in S : ~WfSrc(s, FALSE)}

L2  == Leaves({"a", "b"})
L   == Leaves(SrcAccts)
S1  == L2 \cup MaxOf(L2)                         \* depth <= 1, one leaf
S1T == L \cup MaxOf(L)
\* depth <= 2, <= 3 leaves
SrcE1 ==
    IF Thorough
    THEN S1T \cup WfS(Seq2(S1T, L)) \cup WfS(Seq2(L, S1T)) \cup MaxOf(WfS(Seq2(L, L))) \cup WfS(Seq3(L2))
         \cup WfS({SSeq(<<x, SSeq(<<y, z>>)>>) : x \in L2, y \in L2, z \in L2})
         \cup WfS({SSeq(<<SSeq(<<x, y>>), z>>) : x \in L2, y \in L2, z \in L2})
    ELSE S1 \cup WfS(Seq2(S1, S1)) \cup MaxOf(WfS(Seq2(L2, L2)))
         \cup WfS({SSeq(<<x, y, z>>) : x \in {SAcct("a", NoOD), SAcct("a", 2)}, y \in {SAcct("b", NoOD), SMax(1, SAcct("b", NoOD))}, z \in {SWorld, SAcct("c", NoOD), SAcct("c", Unb)}})

AmtsE1 == IF Thorough THEN {0, 1, 3, 6} ELSE {0, 2, 5}
BalsE1 == IF Thorough
          THEN {Bal3(a, b, 2) : a \in {-2, 0, 1, 4}, b \in {-1, 0, 2}}
          ELSE {Bal3(a, b, 1) : a \in {-1, 0, 1, 3}, b \in {0, 2}}

CasesE1 == {Case("E1", <<Send(A1, amt, s, DAcct("c"))>>, bal) : amt \in AmtsE1, s \in SrcE1, bal \in BalsE1}
BalsE2 == IF Thorough THEN {Bal3(a, b, 2) : a \in {-2, 0, 4}, b \in {-1, 2}} ELSE BalsE1
CasesE2 == {Case("E2", <<Send(A1, AllAmt, s, d)>>, bal) :
                s \in {x \in SrcE1 : WfSrc(x, TRUE)}, bal \in BalsE2,
                d \in {DAcct("c"), DSeq(<<2>>, <<DAcct("c")>>, DKept)}}

\* ------------------------------------------------------------------ destination building blocks
KL == {DAcct("c"), DAcct("a"), DKept}
DCaps == IF Thorough THEN {0, 1, 3, 6} ELSE {1, 3}
PortPairs == {<<P(1, 2), P(1, 2)>>, <<P(1, 3), P(2, 3)>>, <<P(3, 4), P(1, 4)>>, <<P(1, 3), PRem>>,
              <<PRem, P(1, 4)>>, <<P(0, 1), P(1, 1)>>}
             \cup (IF Thorough THEN {<<P(5, 12), P(7, 12)>>, <<P(1, 7), PRem>>, <<P(2, 5), P(3, 5)>>, <<PRem, P(0, 3)>>,
                                     <<P(1, 1), P(0, 2)>>, <<P(1, 10), P(9, 10)>>} ELSE {})
PortTriples == {<<P(1, 3), P(1, 3), P(1, 3)>>, <<P(1, 2), P(1, 4), PRem>>, <<P(1, 4), PRem, P(1, 4)>>,
                <<P(0, 1), P(1, 2), P(1, 2)>>}
             \cup (IF Thorough THEN {<<PRem, P(1, 12), P(5, 12)>>, <<P(1, 6), P(1, 3), P(1, 2)>>, <<P(2, 7), P(3, 7), PRem>>,
                                     <<P(1, 9), P(1, 9), PRem>>} ELSE {})
PP2 == {<<P(1, 2), P(1, 2)>>, <<P(1, 3), PRem>>}

DSeq1(K1, K2)  == {DSeq(<<cp>>, <<x>>, r) : cp \in DCaps, x \in K1, r \in K2}
DSeq2(K)       == {DSeq(<<c1, c2>>, <<x, y>>, r) : c1 \in DCaps, c2 \in DCaps, x \in K, y \in K, r \in K}
DAllot2(PPs, K1, K2) == {DAllot(pp, <<x, y>>) : pp \in PPs, x \in K1, y \in K2}
DAllot3(K)     == {DAllot(pp, <<x, y, z>>) : pp \in PortTriples, x \in K, y \in K, z \in K}

D1  == DSeq1(KL, KL) \cup DSeq2(KL) \cup DAllot2(PortPairs, KL, KL) \cup DAllot3(KL)
D1s == DSeq1(KL, KL) \cup DAllot2(PP2, KL, KL)
D2  == DSeq1(D1s, KL) \cup DSeq1(KL, D1s) \cup DAllot2(PP2, D1s, KL) \cup DAllot2(PP2, KL, D1s)
\* depth 3 (thorough): one more level around a small depth-2 set
D2s == {DSeq(<<1>>, <<x>>, r) : x \in DAllot2({<<P(1, 2), P(1, 2)>>}, KL, KL), r \in KL}
       \cup {DAllot(<<P(1, 3), PRem>>, <<x, y>>) : x \in DSeq1(KL, {DKept, DAcct("c")}), y \in {DKept, DAcct("a")}}
D3  == DSeq1(D2s, {DKept, DAcct("c")}) \cup DAllot2({<<P(1, 2), P(1, 2)>>}, {DKept, DAcct("c")}, D2s)

DstE3 == {DAcct("c"), DAcct("a"), DAcct(World)} \cup D1 \cup D2 \cup (IF Thorough THEN D3 ELSE {})
SrcE3 == {SWorld, SSeq(<<SAcct("a", NoOD), SAcct("b", NoOD)>>)}
         \cup (IF Thorough THEN {SSeq(<<SAcct("a", NoOD), SAcct("b", 1), SWorld>>), SMax(4, SSeq(<<SAcct("b", NoOD), SAcct("a", NoOD)>>))} ELSE {})
AmtsE3 == IF Thorough THEN {0, 1, 2, 4, 5, 6} ELSE {0, 1, 5, 6}
CasesE3 == {Case("E3", <<Send(A1, amt, s, d)>>, Bal3(2, 3, 0)) : amt \in AmtsE3, s \in SrcE3, d \in DstE3}

\* ------------------------------------------------------------------ allotment sources
SrcE4a == {SAllot(pp, <<x, y>>) : pp \in PortPairs, x \in (IF Thorough THEN S1T ELSE S1), y \in L2}
SrcE4b == {SAllot(pp, <<x, y, z>>) : pp \in PortTriples,
             x \in {SAcct("a", NoOD), SAcct("a", Unb), SWorld}, y \in {SAcct("b", NoOD), SAcct("a", NoOD), SMax(1, SAcct("b", 2))},
             z \in {SAcct("c", NoOD), SWorld, SSeq(<<SAcct("b", NoOD), SAcct("c", Unb)>>)}}
AmtsE4 == IF Thorough THEN {0, 2, 5} ELSE {1, 5}
BalsE4 == IF Thorough THEN {Bal3(a, b, 1) : a \in {-1, 3}, b \in {0, 2}}
          ELSE {Bal3(a, b, 1) : a \in {0, 3}, b \in {0, 2}}
CasesE4 == {Case("E4", <<Send(A1, amt, s, d)>>, bal) : amt \in AmtsE4, s \in SrcE4a \cup SrcE4b, bal \in BalsE4,
              d \in {DAcct("c")}}

\* ------------------------------------------------------------------ multi-statement programs, two assets, metadata
Menu ==
    { Send(A1, 3, SWorld, DAcct("a")),
      Send(A1, 2, SAcct("a", NoOD), DAcct("b")),
      Send(A1, 4, SAcct("a", 1), DAcct("b")),
      Send(A1, AllAmt, SAcct("a", NoOD), DAcct("c")),
      Send(A1, AllAmt, SAcct("b", 2), DSeq(<<1>>, <<DAcct("a")>>, DAcct("c"))),
      Send(A1, 3, SSeq(<<SAcct("b", NoOD), SAcct("a", NoOD)>>), DAllot(<<P(1, 2), PRem>>, <<DAcct("c"), DKept>>)),
      Send(A1, 2, SAcct("a", Unb), DAcct("b")),
      Send(A1, 1, SMax(1, SAcct("b", NoOD)), DAcct("a")),
      Send(A2, 2, SWorld, DAcct("a")),
      Send(A2, 1, SAcct("a", NoOD), DAcct("b")),
      Send(A2, AllAmt, SAcct("a", NoOD), DAcct(World)),
      SendBal(A1, "a", SSeq(<<SAcct("a", NoOD), SAcct("b", NoOD)>>), DAcct("c")),
      SendBal(A1, "b", SWorld, DAcct("b")),
      Send(A1, 5, SAllot(<<P(1, 2), P(1, 2)>>, <<SAcct("a", NoOD), SAcct("a", 2)>>), DAcct("b")),
      Save(A1, 1, "a"), Save(A1, AllAmt, "a"), Save(A1, 3, "a"), Save(A1, 1, "b") }
MetaMenu ==
    { TxMeta("k1", VStr("hello")), TxMeta("k1", VNum(42)), TxMeta("k2", VMon(A1, 7)), TxMeta("k2", VPort(2, 4)),
      TxMeta("k3", VAcct("a")), TxMeta("k3", VAsset(A2)),
      AcctMeta("a", "m1", VStr("x")), AcctMeta("a", "m1", VNum(3)), AcctMeta("b", "m1", VMon(A2, 1)),
      AcctMeta("b", "m2", VPort(1, 3)), AcctMeta("c", "m1", VAcct("world")) }
BalsE5 == {Bal6(a, b, 0, a2, 0, 0) : a \in {-1, 0, 2}, b \in {0, 1}, a2 \in {0, 1}}
NbBalSends(p) == Cardinality({i \in 1..Len(p) : p[i].k = "send" /\ p[i].amt = BalAmt})
ProgsE5 ==
    {<<x, y>> : x \in Menu, y \in Menu}
    \cup {<<x, m, y>> : x \in {Send(A1, 3, SWorld, DAcct("a")), Send(A1, 2, SAcct("a", NoOD), DAcct("b"))}, m \in MetaMenu, y \in {Send(A1, AllAmt, SAcct("a", NoOD), DAcct("c")), Send(A2, 1, SAcct("a", NoOD), DAcct("b"))}}
    \cup {<<m1, m2, x>> : m1 \in MetaMenu, m2 \in MetaMenu, x \in {Send(A1, 1, SWorld, DAcct("a"))}}
    \cup (IF Thorough THEN {<<x, y, z>> : x \in Menu, y \in Menu, z \in Menu} ELSE {})
CasesE5 == {Case("E5", p, bal) : p \in {q \in ProgsE5 : NbBalSends(q) <= 1}, bal \in (IF Thorough THEN {Bal6(a, b, 0, 1, 0, 0) : a \in {-1, 0, 2}, b \in {0, 1}} ELSE BalsE5)}

\* ------------------------------------------------------------------ programs the compiler must reject
BadSrc == NotWfS(Seq2(S1, S1))
BadAllots == {<<P(1, 2), P(1, 3)>>, <<P(1, 2), P(2, 3)>>, <<PRem, PRem>>, <<P(1, 1), PRem>>, <<P(1, 2), P(1, 2), PRem>>}
CasesX ==
    {Case("X", <<Send(A1, 2, s, DAcct("c"))>>, Bal3(1, 2, 0)) : s \in BadSrc}
    \cup {Case("X", <<Send(A1, AllAmt, s, DAcct("c"))>>, Bal3(1, 2, 0)) :
            s \in {x \in S1 \cup WfS(Seq2(L2, L2)) : ~WfSrc(x, TRUE)} \cup {SAllot(<<P(1, 2), P(1, 2)>>, <<SAcct("a", NoOD), SAcct("b", NoOD)>>)}}
    \cup {Case("X", <<Send(A1, 3, SAllot(pp, [i \in 1..Len(pp) |-> SAcct("a", NoOD)]), DAcct("c"))>>, Bal3(5, 2, 0)) : pp \in BadAllots}
    \cup {Case("X", <<Send(A1, 3, SWorld, DAllot(pp, [i \in 1..Len(pp) |-> DAcct("c")]))>>, Bal3(5, 2, 0)) : pp \in BadAllots}

\* ------------------------------------------------------------------ allotments through scripts (C24)
Accts5 == <<"a", "b", "c", "d", "e">>
Bal5 == [x \in {"a", "b", "c", "d", "e"} |-> [as \in {A1, A2} |-> 0]]
PVecsA == (IF Thorough THEN PVecs(6, 4) ELSE PVecs(4, 3))
          \cup {<<P(33, 100), P(67, 100)>>, <<P(33, 100), PRem>>, <<PRem, P(7, 100), P(1, 4)>>}
AmtsA  == IF Thorough THEN 0..13 ELSE {0, 1, 2, 3, 5, 7, 11}
CasesA ==
    {Case("A", <<Send(A1, amt, SWorld, DAllot(pv, [i \in 1..Len(pv) |-> DAcct(Accts5[i])]))>>, Bal5) : pv \in PVecsA, amt \in AmtsA}
    \cup {Case("A", <<Send(A1, amt, SAllot(pv, [i \in 1..Len(pv) |-> SAcct(Accts5[i], Unb)]), DAcct("e"))>>, Bal5) : pv \in PVecsA, amt \in AmtsA}

\* ------------------------------------------------------------------ seeded random programs over the larger space
\* (depth <= 3, <= 3 branches per block, 3 accounts + world, 2 assets, amounts 0..6, balances -2..4,
\*  denominators <= 12).  RandomElement draws from TLC's generator, seeded by `-seed` (VERIF_SEED).
Pick(S) == RandomElement(S)
PickW(q) == q[RandomElement(1..Len(q))]      \* weighted: q is a sequence with repetitions
RAcct(u) == Pick({"a", "b", "c"})
RCap(u)  == Pick(0..6)

RECURSIVE RSrc(_)
RSrc(d) ==
    LET kind == IF d = 0 THEN PickW(<<1, 1, 2>>) ELSE Pick(1..6) IN
    CASE kind = 1 -> SAcct(RAcct(d), PickW(<<NoOD, NoOD, 0, 1, 2, 4, Unb>>))
      [] kind = 2 -> SWorld
      [] kind = 3 -> SMax(RCap(d), RSrc(d - 1))
      [] kind = 4 -> SSeq(<<RSrc(d - 1), RSrc(d - 1)>>)
      [] kind = 5 -> SSeq(<<RSrc(d - 1), RSrc(d - 1), RSrc(d - 1)>>)
      [] OTHER   -> SSeq(<<RSrc(d - 1)>>)

RPorts(n) ==    \* a valid portion vector of length n with denominators <= 12
    LET den == Pick(1..12)
        cut1 == Pick(0..den)
        cut2 == Pick(cut1..den)
        useRem == Pick({TRUE, FALSE})
    IN IF n = 1 THEN (IF useRem THEN <<PRem>> ELSE <<P(den, den)>>)
       ELSE IF n = 2
       THEN (IF useRem /\ cut1 < den THEN (IF Pick({TRUE, FALSE}) THEN <<P(cut1, den), PRem>> ELSE <<PRem, P(cut1, den)>>)
             ELSE <<P(cut1, den), P(den - cut1, den)>>)
       ELSE (IF useRem /\ cut2 < den
             THEN LET pos == Pick(1..3) IN
                  CASE pos = 1 -> <<PRem, P(cut1, den), P(cut2 - cut1, den)>>
                    [] pos = 2 -> <<P(cut1, den), PRem, P(cut2 - cut1, den)>>
                    [] OTHER  -> <<P(cut1, den), P(cut2 - cut1, den), PRem>>
             ELSE <<P(cut1, den), P(cut2 - cut1, den), P(den - cut2, den)>>)

RTopSrc(d) ==
    LET kind == Pick(1..4) IN
    IF kind = 1 /\ d >= 1
    THEN LET n == Pick(1..3) IN SAllot(RPorts(n), [i \in 1..n |-> RSrc(d - 1)])
    ELSE RSrc(d)

RECURSIVE RDst(_)
RKD(d) == IF Pick(1..4) = 1 THEN DKept ELSE RDst(d)
RDst(d) ==
    LET kind == IF d = 0 THEN 1 ELSE Pick(1..5) IN
    CASE kind \in {1, 2} -> DAcct(PickW(<<"a", "b", "c", "c", World>>))
      [] kind = 3 -> LET n == Pick(1..2) IN DSeq([i \in 1..n |-> RCap(i)], [i \in 1..n |-> RKD(d - 1)], RKD(d - 1))
      [] OTHER   -> LET n == Pick(1..3) IN DAllot(RPorts(n), [i \in 1..n |-> RKD(d - 1)])

RVal(u) == LET t == Pick(1..6) IN
        CASE t = 1 -> VStr(Pick({"hello", "x y", ""}))
          [] t = 2 -> VNum(Pick(0..9))
          [] t = 3 -> VAcct(Pick({"a", "b", "world"}))
          [] t = 4 -> VAsset(Pick({A1, A2}))
          [] t = 5 -> VMon(Pick({A1, A2}), Pick(0..6))
          [] OTHER -> LET dn == Pick(1..12) IN VPort(Pick(0..dn), dn)

RStmt(d, allowBal) ==
    LET kind == Pick(1..10)
        as == PickW(<<A1, A1, A1, A2>>)
    IN CASE kind = 1 -> TxMeta(Pick({"k1", "k2"}), RVal(d))
         [] kind = 2 -> AcctMeta(Pick({"a", "b"}), Pick({"m1", "m2"}), RVal(d))
         [] kind = 3 -> Send(as, AllAmt, RSrc(d), RDst(d))
         [] kind = 5 -> Save(as, PickW(<<AllAmt, 0, 1, 2, 4>>), RAcct(d))
         [] kind = 4 /\ allowBal -> SendBal(as, RAcct(d), RTopSrc(d), RDst(d))
         [] OTHER   -> Send(as, Pick(0..6), RTopSrc(d), RDst(d))

RProg1(d) ==
    LET n == PickW(<<1, 1, 2, 2, 3>>) IN
    [i \in 1..n |-> RStmt(d, i = 1)]
\* three attempts at a program the compiler accepts (about 1/8 of the sample stays ill-formed and
\* exercises the static rules)
RProg(d) ==
    LET p1 == RProg1(d)
        p2 == RProg1(d)
        p3 == RProg1(d)
    IN IF WfProg(p1) THEN p1 ELSE IF WfProg(p2) THEN p2 ELSE p3

RBal(u) == [x \in {"a", "b", "c"} |-> [as \in {A1, A2} |-> Pick(-2..4)]]
RDepth(u) == IF Thorough THEN PickW(<<1, 2, 2, 3>>) ELSE PickW(<<1, 2, 2>>)

\* ------------------------------------------------------------------ model
Cases ==
    CASE Family = "E1" -> CasesE1
      [] Family = "E2" -> CasesE2
      [] Family = "E3" -> CasesE3
      [] Family = "E4" -> CasesE4
      [] Family = "E5" -> CasesE5
      [] Family = "X"  -> CasesX
      [] Family = "A"  -> CasesA
      [] Family = "EQ" -> CasesE1 \cup CasesE2 \cup CasesE3 \cup CasesE4 \cup CasesE5 \cup CasesX

Init == IF Family = "R"
        THEN \E i \in 1..N : c = [fam |-> "R", i |-> i, prog |-> RProg(RDepth(i)), bal |-> RBal(i)]
        ELSE c \in Cases
Next == UNCHANGED c

R  == Run(c.prog, c.bal)
ID == Ideal(c.prog, c.bal)

\* the compiler-reject family is rejected, the other structured families are accepted
FamilyOk(r) == (c.fam = "X" => r.err = "compile") /\ (c.fam \in {"E1", "E2", "E3", "E4", "E5"} => r.err # "compile") /\ (c.fam = "A" => r.err = "")

\* The single invariant used by the checks: all theorems on the case, then print it with its outcome
\* (Run and Ideal are evaluated once per case).
\* Family A (C24 through scripts): the outcome for amount m*D + amt is affine in m (D: common
\* denominator of the allotment): same postings, amounts growing by a constant per unit of m.
\* TLC checks it on m = 1, 2, 3; the harness extrapolates posts(m) = p1 + (m - 1) * (p2 - p1) to
\* amounts far beyond TLC's integers (inside and above the 64-bit machine word).
AllotPorts(prog) == IF prog[1].src.k = "allot" THEN prog[1].src.ports ELSE prog[1].dst.ports
WithAmt(prog, a) == <<[prog[1] EXCEPT !.amt = a]>>
ScalePosts(m) == Run(WithAmt(c.prog, m * CommonDen(AllotPorts(c.prog)) + c.prog[1].amt), c.bal).posts
ThmScriptScale(p1, p2, p3) ==
    /\ Len(p1) = Len(p2) /\ Len(p2) = Len(p3)
    /\ \A i \in 1..Len(p1) :
          /\ p1[i].s = p2[i].s /\ p2[i].s = p3[i].s /\ p1[i].d = p2[i].d /\ p2[i].d = p3[i].d
          /\ p2[i].n - p1[i].n >= 0 /\ p3[i].n - p2[i].n = p2[i].n - p1[i].n

CheckAndEmit ==
    LET r == R
        id == ID
    IN /\ AllTheorems(c.prog, c.bal, r, id)
       /\ FamilyOk(r)
       /\ IF c.fam = "A"
          THEN LET p1 == ScalePosts(1)
                   p2 == ScalePosts(2)
               IN /\ ThmScriptScale(p1, p2, ScalePosts(3))
                  /\ PrintT(<<"CASE", ToJson([fam |-> c.fam, prog |-> c.prog, bal |-> c.bal, exp |-> Outcome(c.prog, r, id),
                                              scale |-> [den |-> CommonDen(AllotPorts(c.prog)), p1 |-> p1, p2 |-> p2]])>>)
          ELSE PrintT(<<"CASE", ToJson([fam |-> c.fam, prog |-> c.prog, bal |-> c.bal, exp |-> Outcome(c.prog, r, id)])>>)

Inv_ScriptScale == c.fam = "A" => ThmScriptScale(ScalePosts(1), ScalePosts(2), ScalePosts(3))

\* The same theorems one by one (cfg *_diag: names the theorem that fails)
Inv_NonNeg        == ThmNonNeg(R)
Inv_Asset         == ThmAsset(R)
Inv_Sum           == ThmSum(R)
Inv_NoKeptPosting == ThmNoKeptPosting(R)
Inv_Balances      == ThmBalances(c.prog, c.bal, R)
Inv_Untracked     == ThmUntracked(c.prog, c.bal, R)
Inv_Bounded       == ThmBounded(c.prog, c.bal, R)
Inv_BoundedSend   == ThmBoundedPerSend(c.prog, R)
Inv_IdealOk       == ThmIdealOk(c.prog, R, ID)
Inv_IdealDest     == ThmIdealDest(c.prog, R, ID)
Inv_IdealPostings == ThmIdealPostings(c.prog, R, ID)
Inv_IdealBalances == ThmIdealBalances(c.prog, R, ID)
Inv_Family        == FamilyOk(R)
=============================================================================
