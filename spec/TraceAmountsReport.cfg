SPECIFICATION ReportSpecA
CONSTANT TraceFile = "trace.ndjson"
POSTCONDITION Accepted
CHECK_DEADLOCK FALSE
