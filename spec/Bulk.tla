-------------------------------- MODULE Bulk --------------------------------
(***************************************************************************)
(* Semantics of a write REQUEST, defined by folding Ledger!Apply            *)
(* (properties C32 and C31).                                                *)
(*                                                                         *)
(* A request is either one operation sent to its own endpoint ("single",    *)
(* possibly a dry run) or a bulk: a sequence of operations with three       *)
(* options                                                                  *)
(*   atomic    all elements run in ONE transaction: all applied, or none    *)
(*   cof       continueOnFailure: without it no element after the first     *)
(*             failing one is applied (it is answered "skipped")            *)
(*   parallel  the elements may be applied in any order (see below)         *)
(* and one optional injected failure: fault = m > 0 makes the m-th writing  *)
(* COMMIT of the request fail (C31: a write whose commit fails publishes    *)
(* nothing).                                                                *)
(*                                                                         *)
(* Sequential bulks (parallel = FALSE): the result is exactly the left fold *)
(* of Apply over the elements in element order; there is exactly one result *)
(* per element, in element order, and the result of an applied element is   *)
(* what Apply -- i.e. the same request on its own -- returns in the state   *)
(* the fold has reached.  An atomic bulk in which any element fails (or     *)
(* whose commit fails) leaves the ledger as it was; the per-element results *)
(* are still those of the fold.                                             *)
(*                                                                         *)
(* PARALLEL bulks: the ORDER OF EFFECTS IS FREE.  The specification only    *)
(* prescribes element-wise outcomes: there is a set R of elements that ran  *)
(* and an order pi of R such that the final state and the result of every   *)
(* element of R are those of applying R in the order pi; elements outside R *)
(* are "skipped", which is only allowed without cof and when some element   *)
(* of R failed.  Results are still one per element, in element order.       *)
(*                                                                         *)
(* Identifiers: Ledger leaves ids to the environment; here the caller       *)
(* passes the sequences of fresh transaction / log ids to use, in order of  *)
(* consumption (dense in the bounded model, observed in trace validation).  *)
(***************************************************************************)
EXTENDS Ledger

Put(f, k, v) == [x \in DOMAIN f \cup {k} |-> IF x = k THEN v ELSE f[x]]
Idx(s) == [i \in DOMAIN s |-> i]

SkippedRes == [ok |-> FALSE, err |-> "skipped", hit |-> FALSE, id |-> 0, run |-> FALSE, cm |-> FALSE]

EvKind(op) == CASE op.k = "create" -> "committed_transaction"
                [] op.k = "revert" -> "reverted_transaction"
                [] op.k \in {"txmeta", "acmeta"} -> "saved_metadata"
                [] op.k \in {"untxmeta", "unacmeta"} -> "deleted_metadata"

(***************************************************************************)
(* The fold.  acc: [ls, iks, ti, li, nc, res, stop, failed]                 *)
(*   ti / li  next unused position of txids / logids                        *)
(*   nc       commits attempted so far (non-atomic requests)                *)
(***************************************************************************)
Acc0(ls, iks) == [ls |-> ls, iks |-> iks, ti |-> 1, li |-> 1, nc |-> 0, res |-> <<>>, stop |-> FALSE, failed |-> FALSE]

StepEl(acc, el, atomic, cof, fault, txids, logids) ==
  IF acc.stop THEN [acc EXCEPT !.res = Append(@, SkippedRes)]
  ELSE LET r0 == Apply(acc.ls, acc.iks, el, txids[acc.ti], logids[acc.li])
           wouldCommit == r0.ok /\ ~r0.hit /\ ~el.dry /\ ~atomic
           faulted == wouldCommit /\ fault > 0 /\ acc.nc + 1 = fault
           r == IF faulted THEN Fail(acc.ls, "internal") ELSE r0
           \* (tentatively) durable: inside an atomic request the final word is Finish's
           cm == r.ok /\ ~r.hit /\ ~el.dry
       IN [ls |-> r.ls,
           iks |-> IF cm /\ el.ik # "" THEN Put(acc.iks, el.ik, [ikin |-> el.ikin, id |-> r.id]) ELSE acc.iks,
           \* the supplied ids are those of the DURABLE transactions / logs, in order; an element that
           \* leaves nothing durable (failure, dry run, replay) does not consume any
           ti |-> IF cm /\ el.k \in {"create", "revert"} THEN acc.ti + 1 ELSE acc.ti,
           li |-> IF cm THEN acc.li + 1 ELSE acc.li,
           nc |-> IF wouldCommit THEN acc.nc + 1 ELSE acc.nc,
           res |-> Append(acc.res, [ok |-> r.ok, err |-> r.err, hit |-> r.hit, id |-> r.id, run |-> TRUE, cm |-> cm]),
           stop |-> ~r.ok /\ ~cof,
           failed |-> acc.failed \/ ~r.ok]

\* opts: [atomic, parallel, cof]; order: the sequence of element indices to apply
FoldOrder(ls, iks, els, order, atomic, cof, fault, txids, logids) ==
  FoldLeft(LAMBDA a, i : StepEl(a, els[i], atomic, cof, fault, txids, logids), Acc0(ls, iks), order)

(***************************************************************************)
(* Outcome of a request.                                                    *)
(*   res       per element [ok, err, hit, id, run, cm]                      *)
(*   ls, iks   ledger state / idempotency memory after the request          *)
(*   rollback  an atomic request that left no effect                        *)
(*   reqfail   the request as a whole fails (commit of an atomic bulk)      *)
(***************************************************************************)
Finish(ls, iks, acc, atomic, fault) ==
  LET commitFails == atomic /\ ~acc.failed /\ fault = 1
      rollback == atomic /\ (acc.failed \/ commitFails)
  IN [ls |-> IF rollback THEN ls ELSE acc.ls,
      iks |-> IF rollback THEN iks ELSE acc.iks,
      res |-> [i \in DOMAIN acc.res |-> [acc.res[i] EXCEPT !.cm = @ /\ ~rollback]],
      rollback |-> rollback,
      reqfail |-> commitFails,
      httpok |-> ~acc.failed /\ ~commitFails]

BulkApply(ls, iks, els, opts, fault, txids, logids) ==
  Finish(ls, iks, FoldOrder(ls, iks, els, Idx(els), opts.atomic, opts.cof, fault, txids, logids), opts.atomic, fault)

\* events a request must publish: one per durable write, in element order (C31)
Events(out, els) ==
  LET idxs == SelectSeq(Idx(els), LAMBDA i : out.res[i].cm)
  IN [j \in DOMAIN idxs |-> [kind |-> EvKind(els[idxs[j]]),
                              tx |-> IF els[idxs[j]].k \in {"create", "revert"} THEN out.res[idxs[j]].id ELSE 0]]

(***************************************************************************)
(* Parallel bulks: the set of allowed outcomes.                             *)
(***************************************************************************)
Perms(S) == {f \in [1..Cardinality(S) -> S] : \A i, j \in 1..Cardinality(S) : i # j => f[i] # f[j]}

ParallelOutcome(ls, iks, els, R, pi, txids, logids) ==
  LET acc == FoldOrder(ls, iks, els, pi, FALSE, TRUE, 0, txids, logids)
      pos(i) == CHOOSE k \in DOMAIN pi : pi[k] = i
  IN [ls |-> acc.ls, iks |-> acc.iks,
      res |-> [i \in DOMAIN els |-> IF i \in R THEN acc.res[pos(i)] ELSE SkippedRes],
      rollback |-> FALSE, reqfail |-> FALSE, httpok |-> ~acc.failed /\ R = DOMAIN els]

\* aborted: elements the DATABASE refused to run (victims of a lock conflict with a sibling element, outside the
\* retry loop of the write path). They have no effect and are not bound by the skipping rule. Empty in the bounded
\* model; observed in trace validation.
ParallelOutcomesA(ls, iks, els, opts, txids, logids, aborted) ==
  LET all == {ParallelOutcome(ls, iks, els, R, pi, txids, logids) : <<R, pi>> \in
                 UNION {{<<R, pi>> : pi \in Perms(R)} : R \in (SUBSET (DOMAIN els \ aborted))}}
      valid(o) == \/ \A i \in DOMAIN els \ aborted : o.res[i].run
                  \/ (~opts.cof /\ \E f \in DOMAIN els : o.res[f].run /\ ~o.res[f].ok)
  IN {o \in all : valid(o) /\ (aborted = {} => \E i \in DOMAIN els : o.res[i].run)}

ParallelOutcomes(ls, iks, els, opts, txids, logids) == ParallelOutcomesA(ls, iks, els, opts, txids, logids, {})

(***************************************************************************)
(* Theorems of the definition (checked by TLC on every enumerated case)     *)
(***************************************************************************)
\* exactly one result per element
OneResultPerElement(out, els) == DOMAIN out.res = DOMAIN els

\* atomic: all elements applied, or the ledger is unchanged
AtomicAllOrNothing(ls, out, opts) == opts.atomic => (out.ls = ls \/ \A i \in DOMAIN out.res : out.res[i].ok)

\* sequential without cof: nothing is applied after the first failure
PrefixSemantics(out, opts) ==
  (~opts.parallel /\ ~opts.cof) =>
     \A i, j \in DOMAIN out.res : (i < j /\ ~out.res[i].ok) => ~out.res[j].run

\* with cof every element is attempted
ContinueSemantics(out, opts) == opts.cof => \A i \in DOMAIN out.res : out.res[i].run

\* a durable element is a successful one; nothing is durable in a rolled-back request
DurableOnlyIfOK(out) == \A i \in DOMAIN out.res : out.res[i].cm => (out.res[i].ok /\ ~out.rollback)
=============================================================================
