---------------------------- MODULE MC_ReplSim ----------------------------
(***************************************************************************)
(* Flow A for C33: TLC (-simulate) samples behaviours of Replication.tla    *)
(* under the "urgent internal steps" constraint and prints the schedule     *)
(* (hist) of each one when it is SimDepth steps long.  checks/C33.py        *)
(* replays every schedule on the real code through the harness gates; the   *)
(* recorded trace must then be accepted by TraceReplication.tla.            *)
(***************************************************************************)
EXTENDS Replication

CONSTANT SimDepth

SimEmit == (Len(hist) >= SimDepth) => (PrintT(<<"CASE", ToJson(hist)>>) /\ FALSE)

=============================================================================
