----------------------------- MODULE MC_Events -----------------------------
(***************************************************************************)
(* The matrix of property C31: write kind x request shape x outcome.        *)
(*   shapes    single request | first write on an initializing ledger |     *)
(*             atomic bulk | sequential (non-atomic) bulk, without and with *)
(*             continueOnFailure | the two bulk shapes as first write       *)
(*   outcomes  success | business failure | dry run | injected failure of   *)
(*             the COMMIT that would have made the write durable |          *)
(*             idempotent replay of a write that was already made           *)
(* For every applicable cell TLC builds the concrete request, evaluates     *)
(* Bulk!BulkApply on it and prints the events Bulk prescribes: exactly one  *)
(* per durable write, none for a failed, dry, rolled-back or commit-failed  *)
(* one.  The harness replays each cell on the real stack with a recording   *)
(* listener; the recorded trace is validated by TraceBulk.                  *)
(***************************************************************************)
EXTENDS Bulk, Json

CONSTANT Emit

VARIABLE c

P(s, d, as, k, b) == [s |-> s, d |-> d, as |-> as, n |-> k, b |-> b]
Base == [k |-> "create", l |-> "l1", ps |-> <<>>, ts |-> 0, ref |-> "", meta |-> NoMeta, ameta |-> NoMeta,
         ik |-> "", ikin |-> 0, dry |-> FALSE, now |-> 0,
         id |-> 0, force |-> FALSE, atEff |-> FALSE, addr |-> "", key |-> ""]
MK == [x \in {"k"} |-> "v"]
MW == [x \in {"k"} |-> "w"]

Kinds == {"create", "revert", "txmeta", "untxmeta", "acmeta", "unacmeta"}
Shapes == {"single", "init", "atomic", "seq", "seqcof", "atomic_init", "seq_init"}
Outcomes == {"ok", "fail", "dry", "commitfail", "replay"}

IsInit(s) == s \in {"init", "atomic_init", "seq_init"}
IsBulk(s) == s \notin {"single", "init"}

History == << [Base EXCEPT !.ps = <<P(World, "a", "USD", 5, 0)>>, !.meta = MK, !.ik = "p1", !.ikin = 1, !.now = 1],
              [Base EXCEPT !.ps = <<P(World, "b", "USD", 1, 0)>>, !.now = 2] >>
\* for a replay cell the history ends with the very write that the cell sends again (same key, same input)
Keyed(op) == [op EXCEPT !.ik = "q1", !.ikin = 5]

\* the operation of a cell: one that succeeds, one that fails for a business reason
OpOK(k, s) ==
  CASE k = "create"   -> [Base EXCEPT !.ps = IF IsInit(s) THEN <<P(World, "a", "USD", 2, 0)>> ELSE <<P("a", "c", "USD", 2, 0)>>]
    [] k = "revert"   -> [Base EXCEPT !.k = "revert", !.id = 2]
    [] k = "txmeta"   -> [Base EXCEPT !.k = "txmeta", !.id = 1, !.meta = MW]
    [] k = "untxmeta" -> [Base EXCEPT !.k = "untxmeta", !.id = 1, !.key = "k"]
    [] k = "acmeta"   -> [Base EXCEPT !.k = "acmeta", !.addr = "a", !.meta = MK]
    [] k = "unacmeta" -> [Base EXCEPT !.k = "unacmeta", !.addr = "a", !.key = "k"]
OpFail(k, s) ==
  CASE k = "create"   -> [Base EXCEPT !.ps = <<P("c", "a", "USD", 9, 0)>>]                  \* insufficient funds
    [] k = "revert"   -> [Base EXCEPT !.k = "revert", !.id = 9]                             \* no such transaction
    [] k = "txmeta"   -> [Base EXCEPT !.k = "txmeta", !.id = 9, !.meta = MW]
    [] k = "untxmeta" -> [Base EXCEPT !.k = "untxmeta", !.id = 1, !.key = "zz"]             \* no such key (or transaction)
    [] k = "acmeta"   -> [Base EXCEPT !.k = "acmeta", !.addr = "a", !.meta = MK, !.ik = "p1", !.ikin = 7]  \* idempotency key reused
    [] k = "unacmeta" -> [Base EXCEPT !.k = "unacmeta", !.addr = "a", !.key = "k", !.ik = "p1", !.ikin = 8]

PrefixOf(k, s, o) == IF IsInit(s) THEN <<>>
                     ELSE IF o = "replay" THEN Append(History, [Keyed(OpOK(k, s)) EXCEPT !.now = 2])
                     ELSE History

Applicable(k, s, o) ==
  /\ (o = "replay" => ~IsInit(s))                                                \* nothing to replay on a fresh ledger
  /\ (o = "dry" => ~IsBulk(s))                                                   \* a bulk has no dry run
  /\ (IsInit(s) /\ k \in {"revert", "txmeta", "untxmeta"} => o = "fail")         \* nothing to refer to yet
  /\ (IsInit(s) /\ k \in {"acmeta", "unacmeta"} => o # "fail")                   \* no idempotency key to clash with

Now == 3
Filler1 == [Base EXCEPT !.ps = <<P(World, "x", "USD", 1, 0)>>]
Filler2 == [Base EXCEPT !.k = "acmeta", !.addr = "y", !.meta = MK]

ReqOf(k, s, o) ==
  LET op == [(IF o = "fail" THEN OpFail(k, s) ELSE IF o = "replay" THEN Keyed(OpOK(k, s)) ELSE OpOK(k, s))
                EXCEPT !.now = Now, !.dry = (o = "dry")]
      els == IF IsBulk(s) THEN <<[Filler1 EXCEPT !.now = Now], op, [Filler2 EXCEPT !.now = Now]>> ELSE <<op>>
  IN [k |-> IF IsBulk(s) THEN "bulk" ELSE "single", l |-> "l1", now |-> Now,
      atomic |-> s \in {"atomic", "atomic_init"}, parallel |-> FALSE, cof |-> s = "seqcof",
      dry |-> o = "dry",
      \* the commit that would make the cell's write durable: the only one (single, atomic), the second (sequential bulk)
      fault |-> IF o # "commitfail" THEN 0 ELSE IF s \in {"seq", "seqcof", "seq_init"} THEN 2 ELSE 1,
      els |-> els]

Cells == {cc \in [kind : Kinds, shape : Shapes, outcome : Outcomes] : Applicable(cc.kind, cc.shape, cc.outcome)}

PreStep(acc, op) ==
  LET r == Apply(acc.ls, acc.iks, op, MaxTxId(acc.ls) + 1, MaxLogId(acc.ls) + 1)
  IN [ls |-> r.ls, iks |-> IF r.ok /\ op.ik # "" THEN Put(acc.iks, op.ik, [ikin |-> op.ikin, id |-> r.id]) ELSE acc.iks]
After(cc) == FoldLeft(PreStep, [ls |-> EmptyLedger, iks |-> <<>>], PrefixOf(cc.kind, cc.shape, cc.outcome))
Dense(from, n) == [i \in 1..n |-> from + i]

OutOf(cc) ==
  LET st == After(cc)
      rq == ReqOf(cc.kind, cc.shape, cc.outcome)
  IN BulkApply(st.ls, st.iks, rq.els, [atomic |-> rq.atomic, parallel |-> FALSE, cof |-> rq.cof], rq.fault,
               Dense(MaxTxId(st.ls), 4), Dense(MaxLogId(st.ls), 4))
ElsOf(cc) == ReqOf(cc.kind, cc.shape, cc.outcome).els
CellIdx(cc) == IF IsBulk(cc.shape) THEN 2 ELSE 1

Init == c \in Cells
Next == UNCHANGED c
Spec == Init /\ [][Next]_c

(***************************************************************************)
(* Theorems of the matrix: the cell's own write publishes exactly when the  *)
(* outcome is "ok"; a rolled-back atomic bulk publishes nothing at all.     *)
(***************************************************************************)
Thm_CellEvent ==
  LET out == OutOf(c) IN out.res[CellIdx(c)].cm <=> (c.outcome = "ok")
Thm_OutcomeAsIntended ==
  LET r == OutOf(c).res[CellIdx(c)]
  IN /\ (c.outcome \in {"ok", "dry"} => r.ok)
     /\ (c.outcome \in {"fail", "commitfail"} => ~r.ok \/ OutOf(c).reqfail)
     /\ (c.outcome = "replay" => r.ok /\ r.hit)
Thm_AtomicFailurePublishesNothing ==
  (c.shape \in {"atomic", "atomic_init"} /\ c.outcome \in {"fail", "commitfail"}) => Len(Events(OutOf(c), ElsOf(c))) = 0
Thm_OneEventPerDurableWrite ==
  Len(Events(OutOf(c), ElsOf(c))) = Cardinality({i \in DOMAIN OutOf(c).res : OutOf(c).res[i].cm})

EmitCase ==
  Emit =>
    PrintT(<<"CASE", ToJson(
       [cell |-> c.kind \o "/" \o c.shape \o "/" \o c.outcome,
        prefix |-> PrefixOf(c.kind, c.shape, c.outcome),
        req |-> ReqOf(c.kind, c.shape, c.outcome),
        events |-> Events(OutOf(c), ElsOf(c)),
        res |-> OutOf(c).res, httpok |-> OutOf(c).httpok, reqfail |-> OutOf(c).reqfail])>>)
=============================================================================
