SPECIFICATION Spec
CONSTANTS
  Ops <- MCOps
  InitBal <- MCInit
  Scenario = "two-spenders"
  ForUpdate = FALSE
  AdvisoryLock = TRUE
  Recheck = TRUE
  MaxRetry = 2
INVARIANTS
  NoOverdraft
PROPERTIES
  AllAnswered
CHECK_DEADLOCK FALSE
