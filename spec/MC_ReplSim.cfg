\* run with: tlc -simulate num=N -depth 200 -deadlock   (checks/C33.py overrides PageSizes / SimDepth)
SPECIFICATION Spec
CONSTANTS
  MaxLogs = 4
  PageSizes = {2}
  MaxFail = 2
  MaxStops = 1
  MaxResets = 1
  MaxRestarts = 1
  JoinSubscriber = TRUE
  Mutant = "none"
  LateAccepts = TRUE
  RecordHist = TRUE
  SimDepth = 30
ACTION_CONSTRAINT UrgentInternal
CONSTRAINT SimEmit
