------------------------------- MODULE Faults -------------------------------
(***************************************************************************)
(* Failure atomicity of a write request (properties C07 and C31).           *)
(*                                                                         *)
(* A request is a PROGRAM: a sequence of n positions, each a statement or   *)
(* a COMMIT of a writing SQL transaction.  `commits` lists the positions    *)
(* that are commits (one for a single operation or an atomic bulk, one per  *)
(* element for a sequential bulk, none for a dry run) and `writes` how many *)
(* logged writes each of them makes durable (1, or the number of elements   *)
(* of an atomic bulk).  The shape (n, commits, writes) of every program of  *)
(* the write catalogue is MEASURED on a clean                                *)
(* run of the real code (vh-api faults -measure) and substituted for the    *)
(* constant Programs by checks/api_common.py, so TLC enumerates exactly the *)
(* fault positions the implementation has.                                  *)
(*                                                                         *)
(* The specification says what a fault may and may not do:                  *)
(*   - the durable state changes only at a commit position that executed    *)
(*     (Inv_NoTraceUnlessCommit);                                           *)
(*   - the listener is only ever told about durable writes                  *)
(*     (Inv_EventsOnlyAfterCommit), exactly once each (terminal states);    *)
(*   - a fault at position q aborts the open transaction and ends the       *)
(*     request with an error: the durable state is the one left by the      *)
(*     commits before q -- for a single operation, an atomic bulk or a dry  *)
(*     run that is the state before the request (C07);                      *)
(*   - the write path may retry transparently after a Retryable error       *)
(*     (deadlock): then the request completes as if nothing had happened.   *)
(* Every terminal state is printed as a case: the harness replays (program, *)
(* position, kind) on the real code and must observe the printed outcome.   *)
(***************************************************************************)
EXTENDS Integers, Sequences, FiniteSets, TLC, Json

CONSTANTS Programs,    \* sequence of [n |-> Nat, commits |-> strictly increasing sequence over 1..n,
                       \*              writes |-> sequence of the same length: writes made durable by each commit]
          ErrKinds,    \* set of strings: the ways position pc+1 can fail --
                       \*   a SQLSTATE (08006 connection failure, 40001, 57014 query cancelled, 40P01 deadlock victim),
                       \*   "cancel": the request context is cancelled while the statement is in flight,
                       \*   "txdone": the request context was cancelled BEFORE the statement (or COMMIT) was issued and the
                       \*             transaction is already rolled back when it arrives (the caller is told "transaction
                       \*             already done"): nothing of the open transaction may become durable or be announced
          Retryable,   \* subset of ErrKinds that the write path retries
          Emit         \* BOOLEAN: print the cases

VARIABLES p,          \* index of the program under test
          pc,         \* positions executed so far
          status,     \* "running" | "done" | "failed"
          durable,    \* number of committed transactions of this request (abstract durable state)
          pending,    \* the open transaction holds uncommitted effects
          owed,       \* writes made durable so far (each is owed exactly one event)
          published,  \* listener calls
          fault,      \* [at, kind]: the injected fault (at = 0: none)
          retried

vars == <<p, pc, status, durable, pending, owed, published, fault, retried>>

Range(s) == {s[i] : i \in DOMAIN s}
Prog == Programs[p]
CommitsUpTo(k) == Cardinality({c \in Range(Prog.commits) : c <= k})

NoFault == [at |-> 0, kind |-> "none"]

Init ==
  /\ p \in DOMAIN Programs
  /\ pc = 0 /\ status = "running" /\ durable = 0 /\ pending = FALSE /\ owed = 0 /\ published = 0
  /\ fault = NoFault /\ retried = FALSE

\* a statement inside (or outside) a transaction: nothing becomes durable
Stmt ==
  /\ status = "running" /\ pc < Prog.n /\ (pc + 1) \notin Range(Prog.commits)
  /\ pc' = pc + 1 /\ pending' = TRUE
  /\ UNCHANGED <<p, status, durable, owed, published, fault, retried>>

\* the commit step: the only step that changes the durable state
Commit ==
  /\ status = "running" /\ pc < Prog.n /\ (pc + 1) \in Range(Prog.commits)
  /\ pc' = pc + 1 /\ durable' = durable + 1 /\ pending' = FALSE
  /\ owed' = owed + Prog.writes[durable + 1]
  /\ UNCHANGED <<p, status, published, fault, retried>>

\* the listener is called for a write that is durable and not announced yet
Publish ==
  /\ published < owed
  /\ published' = published + 1
  /\ UNCHANGED <<p, pc, status, durable, pending, owed, fault, retried>>

Finish ==
  /\ status = "running" /\ pc = Prog.n /\ published = owed
  /\ status' = "done" /\ pending' = FALSE   \* a dry run ends by rolling back
  /\ UNCHANGED <<p, pc, durable, owed, published, fault, retried>>

\* position pc+1 fails with `kind`: the open transaction is rolled back, the request ends with an error
Fault(kind) ==
  /\ status = "running" /\ pc < Prog.n /\ fault.at = 0
  /\ fault' = [at |-> pc + 1, kind |-> kind]
  /\ status' = "failed" /\ pending' = FALSE
  /\ UNCHANGED <<p, pc, durable, owed, published, retried>>

\* transparent retry of the failed transaction (at most once here): it restarts after the last commit
Retry ==
  /\ status = "failed" /\ fault.kind \in Retryable /\ ~retried
  /\ status' = "running" /\ retried' = TRUE
  /\ pc' = IF durable = 0 THEN 0 ELSE Prog.commits[durable]
  /\ UNCHANGED <<p, durable, pending, owed, published, fault>>

Next == Stmt \/ Commit \/ Publish \/ Finish \/ Retry \/ \E k \in ErrKinds : Fault(k)

Spec == Init /\ [][Next]_vars

\* a failed request is terminal whether or not a retry is possible: retrying is allowed, not required
Terminal == status \in {"done", "failed"} /\ published = owed

(***************************************************************************)
(* Invariants                                                               *)
(***************************************************************************)
\* C07: the committed state is unchanged unless the commit step happened
Inv_NoTraceUnlessCommit == durable = CommitsUpTo(pc)

\* C31: events only after (and only for) commits
Inv_EventsOnlyAfterCommit == published <= owed /\ (durable = 0 => owed = 0)

\* C07: a failed request leaves nothing pending and exactly the effects of the commits before the fault
Inv_FailedIsClean == status = "failed" => /\ ~pending
                                          /\ durable = CommitsUpTo(fault.at - 1)

\* a request that ends normally made every one of its transactions durable and announced each once
Inv_DoneIsComplete == status = "done" => durable = Len(Prog.commits) /\ published = owed /\ ~pending

\* single-transaction programs (single operation, atomic bulk, dry run): all or nothing
Inv_AllOrNothing == Len(Prog.commits) <= 1 /\ status = "failed" => durable = 0 /\ published = 0

(***************************************************************************)
(* Case emission (always true)                                              *)
(***************************************************************************)
EmitCase ==
  (Emit /\ Terminal) =>
     PrintT(<<"CASE", ToJson([p |-> p, at |-> fault.at, kind |-> fault.kind,
                              segs |-> durable, events |-> published, ok |-> status = "done"])>>)
=============================================================================
