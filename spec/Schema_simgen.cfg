\* random behaviours of 6 requests (-simulate), charts sampled from the chart generator
INIT Init
NEXT EmitNext
VIEW View
CONSTANTS
  FixedNames <- MCFixed
  VarKeys <- MCVar
  BadNames <- MCNone
  BadPatterns <- MCNone
  PatMatch <- MCPatMatch
  MetaKeys <- MCKeys
  ChartMenu <- GenCharts
  Versions <- MCVersions
  TplDefs <- MCTplDefs
  SchemaMenu <- MCSchemaMenu
  TxMenu <- MCTxMenuL
  MetaMenu <- MCMetaMenu
  AllKeys <- MCAllKeys
  Addrs <- MCAddrs
  Modes <- MCModes
  MaxSteps = 6
  ModelDeviations = TRUE
  Follow <- MCFollowNone
  EmitAll = FALSE
INVARIANTS TypeOK AllTheorems
