SPECIFICATION FairSpec
CONSTANTS
  MaxLogs = 2
  PageSizes = {1, 2}
  MaxFail = 1
  MaxStops = 1
  MaxResets = 1
  MaxRestarts = 1
  JoinSubscriber = TRUE
  Mutant = "none"
  LateAccepts = FALSE
  RecordHist = FALSE
PROPERTIES
 LiveAllAcceptedSinceReset
 LiveAllAccepted
 LivePersistedCatchesUp
INVARIANTS
 InvPersistedLeAckedSinceReset
 InvNoGapSinceReset
 InvStartPos
