----------------------------- MODULE TraceReads -----------------------------
(***************************************************************************)
(* Trace validation of READ requests issued against the REAL ledger code     *)
(* (harness/drive/reads.go) against Reads.                                    *)
(*                                                                         *)
(* A trace is an NDJSON file: "state" lines carry the abstract observation   *)
(* of the ledger (the one observation lines of TraceLedger use, plus the      *)
(* metadata journal and string projections); every following "read" line     *)
(* carries an abstract query q and the abstract output out obtained through   *)
(* the real HTTP API while the ledger was in that state.                      *)
(*                                                                         *)
(* Observation-following: the trace spec's state is (l, s) = (lines          *)
(* consumed, index of the latest state line).  For every read line the       *)
(* observed output must be what Reads prescribes from the observed state.    *)
(* One named predicate per compared aspect and property; ReportSpec prints   *)
(* every failing predicate (name, line, case) instead of stopping.           *)
(*                                                                         *)
(* Reads that fall in a class for which the implementation WAS found to      *)
(* deviate (each repaired since by a "fix:" commit of the repository, see    *)
(* known-findings.txt) are judged by the SAME strict comparison but under    *)
(* their own predicate name (the class is the signature of the finding), so  *)
(* that a regression is reported under that signature and the general        *)
(* predicates stay strict:                                                   *)
(*   Step_C17_TxPitMixedFlags         transactions as of t, ACCOUNT_ and      *)
(*                                    TRANSACTION_METADATA_HISTORY differ     *)
(*   Step_C17_AcctPitAfterDelete      account metadata as of t while an       *)
(*                                    account DELETE_METADATA is dated > t    *)
(*   Step_C20_VolumesWindowMetaNoHistory  volumes with PIT/OOT filtered by    *)
(*                                    metadata, ACCOUNT_METADATA_HISTORY off  *)
(*   Step_C20_LateralInArray          volumes / aggregated balances filtered  *)
(*                                    by a partial address AND an $in address *)
(*   Step_C20_AcctBalancePitNoEffective  accounts as of t filtered by balance *)
(*                                    without effective volumes (must be      *)
(*                                    rejected: missing feature)              *)
(*   Step_C20_AcctBalanceNoAsset      accounts filtered by "balance" without  *)
(*                                    an asset: never an internal error, and  *)
(*                                    the comparison holds iff it holds in    *)
(*                                    some asset the account holds            *)
(*   Step_C37_ParamsPartialOverride   template run whose request params omit  *)
(*                                    a field the template sets               *)
(*   Step_C37_VarExactAmounts         template run with an amount variable     *)
(*                                    while amounts exceed 2^53 (st.big)       *)
(*   Step_C37_RunExactAmounts         template run whose response carries an   *)
(*                                    amount that is not the stored one (not a *)
(*                                    multiple of the amount scale)            *)
(***************************************************************************)
EXTENDS Reads, Json

CONSTANT TraceFile

Trace == ndJsonDeserialize(TraceFile)

VARIABLES l,      \* number of trace lines consumed
          s       \* index of the latest state line (0: none yet)

vars == <<l, s>>

Init == l = 0 /\ s = 0
Next == /\ l < Len(Trace)
        /\ l' = l + 1
        /\ s' = IF Trace[l + 1].kind = "state" THEN l + 1 ELSE s
Spec == Init /\ [][Next]_vars

(***************************************************************************)
(* The observed state as the record R of Reads                              *)
(***************************************************************************)
ToTx(t) == [id |-> t.id, ps |-> t.ps, ts |-> t.ts, ins |-> t.ins, ref |-> t.ref, meta |-> t.meta,
            rev |-> t.rev, revAt |-> t.revAt, reverts |-> t.reverts, pcv |-> ToSet(t.pcv)]
ToAcct(a) == [addr |-> a.addr, first |-> a.first, ins |-> a.ins, meta |-> a.meta]
ToLog(g) == [id |-> g.id, type |-> g.type, date |-> g.date, ik |-> g.ik, tx |-> g.tx, tgt |-> g.tgt,
             key |-> g.key, meta |-> g.meta]
ToLS(o) == [txs |-> [i \in DOMAIN o.txs |-> ToTx(o.txs[i])],
            accts |-> {ToAcct(a) : a \in ToSet(o.accts)},
            logs |-> [i \in DOMAIN o.logs |-> ToLog(o.logs[i])]]

RS(o) == [ls |-> ToLS(o), jr |-> o.jr, flags |-> o.flags, sg |-> o.sg, pre |-> o.pre, rk |-> o.rk, big |-> o.big,
          aupd |-> [a \in {x.addr : x \in ToSet(o.accts)} |-> (CHOOSE x \in ToSet(o.accts) : x.addr = a).upd],
          tupd |-> [id \in {x.id : x \in ToSet(o.txs)} |-> (CHOOSE x \in ToSet(o.txs) : x.id = id).upd]]

(***************************************************************************)
(* Queries and normalised observations                                      *)
(***************************************************************************)
BaseOf(res) == CASE res = "account1" -> "accounts" [] res = "tx1" -> "transactions" [] OTHER -> res
IsList(res) == res \in {"volumes", "accounts", "transactions", "logs"}

ExpSet(R, q) ==
  LET b == BaseOf(q.res)
  IN CASE b = "volumes" -> VolList(R, q)
       [] b = "agg" -> AggList(R, q)
       [] b = "accounts" -> AcctList(R, q)
       [] b = "transactions" -> TxList(R, q)
       [] b = "logs" -> LogList(R, q)
ExpSeq(R, q) ==
  LET b == BaseOf(q.res)
  IN CASE b = "volumes" -> VolSeq(R, q)
       [] b = "accounts" -> AcctSeq(R, q)
       [] b = "transactions" -> TxSeq(R, q)
       [] b = "logs" -> LogSeq(R, q)
       [] OTHER -> SetToSeq(ExpSet(R, q))

NV(v) == [a |-> v.a, as |-> v.as, i |-> v.i, o |-> v.o]
Norm(b, x) ==
  CASE b = "volumes" -> NV(x)
    [] b = "agg" -> [as |-> x.as, b |-> x.b]
    [] b = "accounts" -> [addr |-> x.addr, first |-> x.first, meta |-> x.meta,
                          vol |-> {NV(v) : v \in ToSet(x.vol)}, evol |-> {NV(v) : v \in ToSet(x.evol)}]
    [] b = "transactions" -> [id |-> x.id, ts |-> x.ts, ref |-> x.ref, rev |-> x.rev, revAt |-> x.revAt, meta |-> x.meta]
    [] b = "logs" -> [id |-> x.id]
NormSeq(b, xs) == [j \in DOMAIN xs |-> Norm(b, xs[j])]

KeyOf(b, x) == CASE b = "volumes" -> <<x.a, x.as>>
                 [] b = "agg" -> x.as
                 [] b = "accounts" -> x.addr
                 [] OTHER -> x.id
StripMeta(b, x) == CASE b = "accounts" -> [addr |-> x.addr, first |-> x.first, vol |-> x.vol, evol |-> x.evol]
                     [] b = "transactions" -> [id |-> x.id, ts |-> x.ts, ref |-> x.ref, rev |-> x.rev, revAt |-> x.revAt]
                     [] OTHER -> x
Flat(pages) == FoldLeft(LAMBDA acc, p : acc \o p, <<>>, pages)

AnyParam(p) == p.hpit \/ p.hoot \/ p.hins \/ p.hgrp \/ p.hsize \/ p.horder \/ p.hexp
TplPartial(q0) == LET t == q0.tpl.params
                      c == q0.call.params
                  IN AnyParam(c) /\ ((t.hpit /\ ~c.hpit) \/ (t.hoot /\ ~c.hoot) \/ (t.hsize /\ ~c.hsize) \/ (t.hexp /\ ~c.hexp))

UsesMeta(q) == UsesField(q.filter, "metadata")
RECURSIVE UsesPlainBalance(_)
UsesPlainBalance(f) == IF f.op \in {"and", "or", "not"} THEN \E i \in DOMAIN f.args : UsesPlainBalance(f.args[i])
                       ELSE f.op # "true" /\ f.f = "balance" /\ f.k = ""
AcctDelAfter(R, pit) == \E k \in DOMAIN R.jr : R.jr[k].kind = "acct" /\ R.jr[k].op = "del" /\ R.jr[k].date > pit

\* order of two consecutive items of a listing
Ordered(R, b, order, x, y) ==
  CASE b = "volumes" -> x.a \in DOMAIN R.rk /\ y.a \in DOMAIN R.rk /\ (x.a = y.a \/ Less(order, R.rk[x.a], R.rk[y.a]))
    [] b = "accounts" -> x.addr \in DOMAIN R.rk /\ y.addr \in DOMAIN R.rk /\ Less(order, R.rk[x.addr], R.rk[y.addr])
    [] OTHER -> Less(order, x.id, y.id)

(***************************************************************************)
(* Judge(i, si): every aspect of read line i (state line si), computed once   *)
(***************************************************************************)
Judge(i, si) ==
  LET R == RS(Trace[si].st)
      q0 == Trace[i].q
      out == Trace[i].out
      tpl == q0.isTpl
      rejected == tpl /\ TemplateRejected(q0.tpl, q0.call)
      q == IF tpl /\ ~rejected THEN TemplateQuery(q0.tpl, q0.call) ELSE q0
      b == BaseOf(q.res)
      single == q0.res \in {"account1", "tx1"}
      amh == R.flags.amh
      tmh == R.flags.tmh
      \* filtered aggregated balances come with the same read WITHOUT the filter: is that fold the prescribed one?
      baseOK == IF b = "agg" /\ ~tpl /\ q0.filter.op # "true" /\ out.baseOK
                THEN {Norm("agg", x) : x \in ToSet(out.base)} = AggList(R, [q EXCEPT !.filter = [op |-> "true"]])
                ELSE TRUE
      selClass0 ==
        IF out.status = "inexact" THEN "inexact"
        ELSE IF rejected THEN "none"
        ELSE IF tpl /\ R.big /\ (\E v \in DOMAIN q0.tpl.vars : q0.tpl.vars[v].t = "amount") THEN "tplbignum"
        ELSE IF tpl /\ TplPartial(q0) THEN "tplpartial"
        ELSE IF b = "transactions" /\ q.pit # 0 /\ amh # tmh /\ UsesMeta(q) THEN "txmixed"
        ELSE IF b \in {"accounts", "volumes", "agg"} /\ q.pit # 0 /\ amh /\ UsesMeta(q) /\ AcctDelAfter(R, q.pit) THEN "acctdel"
        ELSE IF b = "volumes" /\ UseWindow(q) /\ ~amh /\ UsesMeta(q) THEN "volnohist"
        ELSE IF b \in {"volumes", "agg"} /\ HasInOnAddress(q.filter) /\ NeedSegments(q.filter) THEN "lateralin"
        ELSE IF b = "accounts" /\ q.pit # 0 /\ UsesField(q.filter, "balance") /\ R.flags.moves /\ ~R.flags.eff THEN "acctbalnoeff"
        ELSE IF b = "accounts" /\ UsesPlainBalance(q.filter) THEN "acctbalnoasset"
        ELSE "none"
      \* an aggregate whose UNFILTERED fold is already wrong is not a matter of its filter class: general predicates
      selClass == IF b = "agg" /\ selClass0 \in {"acctdel", "lateralin"} /\ ~baseOK THEN "none" ELSE selClass0
      metaClass ==
        IF out.status = "inexact" THEN "inexact"
        ELSE IF rejected THEN "none"
        ELSE IF tpl /\ TplPartial(q0) THEN "tplpartial"
        ELSE IF b = "transactions" /\ q.pit # 0 /\ amh # tmh THEN "txmixed"
        ELSE IF b = "accounts" /\ q.pit # 0 /\ amh /\ AcctDelAfter(R, q.pit) THEN "acctdel"
        ELSE "none"
      needs == ~rejected /\ NeedsMissingFeature(R.flags, q)
      \* some account visible to the query holds several assets: a balance comparison without asset is then unspecified
      multi == b = "accounts" /\ ~needs /\ \E e \in AcctEntities(R, q) : Cardinality(DOMAIN e.bal) > 1
      exp == ExpSet(R, q)
      wantStatus == IF rejected \/ needs THEN "validation"
                    ELSE IF single /\ exp = {} THEN "not_found" ELSE "ok"
      judged == wantStatus = "ok" /\ out.status = "ok"      \* the other aspects only make sense then
      pages == [k \in DOMAIN out.pages |-> NormSeq(b, out.pages[k].items)]
      all == IF IsList(q0.res) /\ ~tpl THEN NormSeq(b, out.full) ELSE Flat(pages)
      size == PageSizeOf(q.size)
      ref == IF tpl THEN ExpSeq(R, q) ELSE all
      want == Chunks(ref, size)
      tieCut == b = "volumes" /\ \E k \in 1..(Len(want) - 1) : ref[k * size].a = ref[k * size + 1].a
      samePage(p, w) == IF b = "volumes" THEN Len(p) = Len(w) /\ ToSet(p) = ToSet(w)
                        ELSE [j \in DOMAIN p |-> KeyOf(b, p[j])] = [j \in DOMAIN w |-> KeyOf(b, w[j])]
      \* the walk made with another page size from the `next` cursor of the first page (unique-key listings)
      rz == out.rz
      colKind == b \in {"transactions", "logs"}
      keysOf(xs) == [jj \in DOMAIN xs |-> KeyOf(b, xs[jj])]
      firstPage == IF colKind THEN ColPage(ToSet(keysOf(ref)), q.order, size, ColFirst) ELSE OffPage(ref, size, OffFirst)
      fwdExp == IF colKind THEN ColWalk(ToSet(keysOf(ref)), q.order, rz.size2, firstPage.next, "next", 60)
                ELSE OffWalk(ref, rz.size2, firstPage.next, "next", 60)
      lastFwd == fwdExp[Len(fwdExp)]
      backExp == IF ~IsCursor(lastFwd.prev) THEN <<>>
                 ELSE IF colKind THEN ColWalk(ToSet(keysOf(ref)), q.order, rz.size2, lastFwd.prev, "prev", 60)
                 ELSE OffWalk(ref, rz.size2, lastFwd.prev, "prev", 60)
      expKeys(ps) == [k \in DOMAIN ps |-> IF colKind THEN ps[k].items ELSE keysOf(ps[k].items)]
      obsKeys(ps) == [k \in DOMAIN ps |-> keysOf(NormSeq(b, ps[k]))]
  IN [selClass |-> selClass, metaClass |-> metaClass, tpl |-> tpl, base |-> b, single |-> single,
      resizeFwd |-> judged /\ rz.checked /\ out.perr = "" =>
         IsCursor(firstPage.next) /\ obsKeys(rz.fwd) = expKeys(fwdExp),
      resizeBack |-> judged /\ rz.checked /\ out.perr = "" =>
         IsCursor(firstPage.next) /\ obsKeys(rz.back) = expKeys(backExp) /\ rz.backEnd,
      filtered |-> q0.filter.op # "true" /\ ~single,
      multi |-> multi, notInternal |-> out.status # "internal",
      judged |-> judged, pit |-> q.pit, ins |-> q.ins, xvol |-> q.xvol, xevol |-> q.xevol,
      status |-> out.status = wantStatus,
      \* double entry as of any instant / window: an unfiltered aggregate is 0 per asset, an unfiltered complete volumes
      \* listing has, per asset, as much input as output
      conserv |-> judged =>
         /\ (b = "agg" => \A x \in ToSet(all) : x.b = 0)
         /\ (b = "volumes" => \A a \in {x.as : x \in ToSet(all)} :
                FoldLeft(LAMBDA acc, x : IF x.as = a THEN acc + x.i ELSE acc, 0, all)
                  = FoldLeft(LAMBDA acc, x : IF x.as = a THEN acc + x.o ELSE acc, 0, all)),
      \* expanded volumes / effective volumes of the listed accounts that are expected to be listed
      volOK |-> judged /\ b = "accounts" => \A x \in ToSet(all) : \A e \in exp : e.addr = x.addr => e.vol = x.vol,
      evolOK |-> judged /\ b = "accounts" => \A x \in ToSet(all) : \A e \in exp : e.addr = x.addr => e.evol = x.evol,
      content |-> judged =>
         /\ {StripMeta(b, x) : x \in ToSet(all)} = {StripMeta(b, e) : e \in exp}
         /\ Len(all) = Cardinality(exp)
         /\ (b = "volumes" => \A k \in DOMAIN out.pages : \A x \in ToSet(out.pages[k].items) : x.b = x.i - x.o),
      meta |-> judged /\ b \in {"accounts", "transactions"} =>
         \A x \in ToSet(all) : \A e \in exp : KeyOf(b, e) = KeyOf(b, x) => e.meta = x.meta,
      count |-> judged /\ q0.count /\ ~tpl => out.count = Len(all),
      pages |-> judged /\ (tpl \/ IsList(q0.res)) =>
         /\ out.perr = ""
         /\ (~tpl => out.fullOK)
         /\ Len(pages) = Len(want)
         /\ IF tieCut THEN /\ \A k \in DOMAIN pages : Len(pages[k]) = Len(want[k])
                           /\ ToSet(Flat(pages)) = ToSet(ref) /\ Len(Flat(pages)) = Len(ref)
            ELSE \A k \in DOMAIN pages : samePage(pages[k], want[k])
         /\ \A k \in DOMAIN out.pages :
              /\ out.pages[k].more = (k < Len(out.pages))
              /\ out.pages[k].next = (k < Len(out.pages))
              /\ out.pages[k].prev = (k > 1)
              /\ out.pages[k].size = size,
      sorted |-> judged /\ (tpl \/ IsList(q0.res)) =>
         \A j \in 1..(Len(all) - 1) : Ordered(R, b, q.order, all[j], all[j + 1]),
      prev |-> judged /\ (tpl \/ IsList(q0.res)) /\ out.prevChecked /\ ~tieCut /\ out.perr = "" =>
         /\ Len(out.prevs) = Len(pages) - 1
         /\ \A k \in DOMAIN out.prevs :
              /\ out.prevs[k].has /\ samePage(NormSeq(b, out.prevs[k].items), pages[k])
              /\ out.prevs[k].hasNext /\ samePage(NormSeq(b, out.prevs[k].nitems), pages[k + 1])
         \* the walk back (listings of 3..8 pages): `previous` hop after hop from the last page reaches page n-1, n-2, ..., 1,
         \* ends there (no previous), and `next` from there is page 2
         /\ (out.backChecked =>
               /\ Len(out.back) = Len(pages) - 1
               /\ out.backEnd
               /\ \A h \in DOMAIN out.back : out.back[h].has /\ samePage(NormSeq(b, out.back[h].items), pages[Len(pages) - h])
               /\ out.back[Len(out.back)].hasNext
               /\ samePage(NormSeq(b, out.back[Len(out.back)].nitems), pages[2]))]

(***************************************************************************)
(* Named predicates: <<name, applicable, holds>> for read line i             *)
(***************************************************************************)
ReadChecks(i, si) ==
  LET j == Judge(i, si)
      none == j.selClass = "none"
      mnone == j.metaClass = "none"
      direct == ~j.tpl
      cls(c) == j.selClass = c \/ j.metaClass = c
      allOf == j.status /\ j.content /\ j.meta /\ (j.tpl => j.pages /\ j.sorted /\ j.prev)
      at == direct /\ none /\ j.judged
  IN << \* C01 / C03 / C04 as far as they speak about reads at a point in time (the moves are only visible there):
        \*  C01 conservation per asset at any instant / window, in both date modes
        <<"Inv_C01_ConservationAt", at /\ ~j.filtered /\ j.base \in {"agg", "volumes"}, j.conserv>>,
        \*  C03 the volumes as of t by insertion date are the running volumes after the last move inserted at or before t
        \*  (aggregated balances with a filter = the selection over the same fold: judged here as well)
        <<"Inv_C03_MovesAt", at /\ j.pit # 0 /\ ((j.base = "accounts" /\ j.xvol) \/ (j.base = "agg" /\ j.ins)),
                             IF j.base = "agg" THEN j.content ELSE j.volOK>>,
        \*  C04 the effective-date counterparts (back-dated inserts are honoured by every read as of t)
        <<"Inv_C04_EffectiveAt", at /\ j.pit # 0 /\ ((j.base = "accounts" /\ j.xevol) \/ (j.base = "agg" /\ ~j.ins)
                                                     \/ (j.base = "volumes" /\ ~j.ins /\ ~j.filtered)),
                                 IF j.base = "accounts" THEN j.evolOK ELSE j.content>>,
        <<"Inv_C05_Status", direct /\ none /\ ~j.filtered, j.status>>,
        <<"Inv_C05_VolumesAt", direct /\ none /\ ~j.filtered /\ j.base = "volumes", j.content>>,
        \* aggregated balances: with a filter too (AggAt with a filter = the selection over the fold; also Step_C20_Select)
        <<"Inv_C05_AggAt", direct /\ none /\ j.base = "agg", j.content>>,
        <<"Inv_C05_AccountsAt", direct /\ none /\ ~j.filtered /\ j.base = "accounts", j.content>>,
        <<"Inv_C05_TxsAt", direct /\ none /\ ~j.filtered /\ j.base = "transactions", j.content>>,
        <<"Step_C20_Status", direct /\ none /\ j.filtered, j.status>>,
        <<"Step_C20_Select", direct /\ none /\ (j.filtered \/ j.base = "logs"), j.content>>,
        <<"Step_C20_Count", direct /\ none, j.count>>,
        <<"Step_C17_TxMetaAt", direct /\ none /\ mnone /\ j.base = "transactions", j.meta>>,
        <<"Step_C17_AcctMetaAt", direct /\ none /\ mnone /\ j.base = "accounts", j.meta>>,
        \* (incl. the walks made with ANOTHER page size from the first page's next cursor: forward = Pages, backward = Previous)
        <<"Step_C21_Pages", direct, j.pages /\ j.resizeFwd>>,
        <<"Step_C21_Sorted", direct, j.sorted>>,
        <<"Step_C21_Previous", direct, j.prev /\ j.resizeBack>>,
        <<"Step_C37_Status", j.tpl /\ none, j.status>>,
        <<"Step_C37_Template", j.tpl /\ none /\ mnone, j.content /\ j.meta>>,
        <<"Step_C37_Cursor", j.tpl /\ none, j.pages /\ j.sorted /\ j.prev>>,
        <<"Step_C37_RunExactAmounts", cls("inexact"), FALSE>>,
        <<"Step_C37_VarExactAmounts", cls("tplbignum"), allOf>>,
        <<"Step_C37_ParamsPartialOverride", cls("tplpartial"), allOf>>,
        \* (a read that is in the class only through its metadata CONTENT is judged on that content here; its status and
        \*  selection are judged by the predicate that owns its selection class)
        <<"Step_C17_TxPitMixedFlags", cls("txmixed"), IF j.selClass = "txmixed" THEN allOf ELSE j.meta>>,
        <<"Step_C17_AcctPitAfterDelete", cls("acctdel"), IF j.selClass = "acctdel" THEN allOf ELSE j.meta>>,
        <<"Step_C20_VolumesWindowMetaNoHistory", cls("volnohist"), allOf>>,
        <<"Step_C20_LateralInArray", cls("lateralin"), allOf>>,
        <<"Step_C20_AcctBalancePitNoEffective", cls("acctbalnoeff"), allOf>>,
        \* never an internal error (it was one as soon as a visible account held several assets), and the strict comparison
        <<"Step_C20_AcctBalanceNoAsset", cls("acctbalnoasset"), j.notInternal /\ allOf>> >>

\* state lines: the journal extracted from the logs explains the current metadata (C17, binds jr to the state)
I_C17_JournalIsMeta(i) == JournalIsMeta(RS(Trace[i].st))

Verdict(i, si, name) == LET cs == ReadChecks(i, si)
                        IN \A k \in DOMAIN cs : cs[k][1] = name => (cs[k][2] => cs[k][3])

IsRead(i) == Trace[i].kind = "read"

(***************************************************************************)
(* The predicates as TLC invariants (state (l, s): line l was just consumed, *)
(* s is the state line it refers to) and as action properties                *)
(***************************************************************************)
InvOK(name) == l >= 1 /\ IsRead(l) => Verdict(l, s, name)
StepOK(name) == [][IsRead(l') => Verdict(l', s', name)]_vars

Inv_C17_JournalIsMeta == l >= 1 /\ Trace[l].kind = "state" => I_C17_JournalIsMeta(l)
Inv_C01_ConservationAt == InvOK("Inv_C01_ConservationAt")
Inv_C03_MovesAt == InvOK("Inv_C03_MovesAt")
Inv_C04_EffectiveAt == InvOK("Inv_C04_EffectiveAt")
Inv_C05_Status == InvOK("Inv_C05_Status")
Inv_C05_VolumesAt == InvOK("Inv_C05_VolumesAt")
Inv_C05_AggAt == InvOK("Inv_C05_AggAt")
Inv_C05_AccountsAt == InvOK("Inv_C05_AccountsAt")
Inv_C05_TxsAt == InvOK("Inv_C05_TxsAt")

Step_C20_Status == StepOK("Step_C20_Status")
Step_C20_Select == StepOK("Step_C20_Select")
Step_C20_Count == StepOK("Step_C20_Count")
Step_C17_TxMetaAt == StepOK("Step_C17_TxMetaAt")
Step_C17_AcctMetaAt == StepOK("Step_C17_AcctMetaAt")
Step_C21_Pages == StepOK("Step_C21_Pages")
Step_C21_Sorted == StepOK("Step_C21_Sorted")
Step_C21_Previous == StepOK("Step_C21_Previous")
Step_C37_Status == StepOK("Step_C37_Status")
Step_C37_Template == StepOK("Step_C37_Template")
Step_C37_Cursor == StepOK("Step_C37_Cursor")
Step_C37_ParamsPartialOverride == StepOK("Step_C37_ParamsPartialOverride")
Step_C37_RunExactAmounts == StepOK("Step_C37_RunExactAmounts")
Step_C37_VarExactAmounts == StepOK("Step_C37_VarExactAmounts")
Step_C17_TxPitMixedFlags == StepOK("Step_C17_TxPitMixedFlags")
Step_C17_AcctPitAfterDelete == StepOK("Step_C17_AcctPitAfterDelete")
Step_C20_VolumesWindowMetaNoHistory == StepOK("Step_C20_VolumesWindowMetaNoHistory")
Step_C20_LateralInArray == StepOK("Step_C20_LateralInArray")
Step_C20_AcctBalancePitNoEffective == StepOK("Step_C20_AcctBalancePitNoEffective")
Step_C20_AcctBalanceNoAsset == StepOK("Step_C20_AcctBalanceNoAsset")

Accepted == TLCGet("stats").diameter - 1 = Len(Trace)

(***************************************************************************)
(* Report mode: evaluate every predicate on every line; print the failures   *)
(* and, per read, the set of predicates that applied (coverage accounting)   *)
(***************************************************************************)
ReportRead(i, si) ==
  LET cs == ReadChecks(i, si)
  IN \A k \in DOMAIN cs :
        /\ (cs[k][2] => PrintT(<<"APP", cs[k][1], i>>))
        /\ ((cs[k][2] => cs[k][3]) \/ PrintT(<<"FAIL", cs[k][1], i, Trace[i].case>>))

ReportNext ==
  /\ Next
  /\ IF IsRead(l') THEN ReportRead(l', s')
     ELSE I_C17_JournalIsMeta(l') \/ PrintT(<<"FAIL", "Inv_C17_JournalIsMeta", l', Trace[l'].case>>)

ReportSpec == Init /\ [][ReportNext]_vars
=============================================================================
