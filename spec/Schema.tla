------------------------------- MODULE Schema -------------------------------
(***************************************************************************)
(* Schema enforcement on the write path of a ledger (property C29), as     *)
(* implemented by /repo/internal/controller/ledger/log_process.go (runLog: *)
(* FindSchema / FindLatestSchemaVersion / ValidateWithSchema),             *)
(* controller_default.go (insertSchema, createTransaction: template        *)
(* resolution, upsertTransactionAccounts; saveAccountMetadata) and         *)
(* storage/ledger/accounts.go (UpsertAccounts: default_metadata ||         *)
(* metadata on insert, metadata || request on update).  The chart of       *)
(* accounts semantics (Find, DefaultMeta) come from Chart.tla.             *)
(*                                                                         *)
(* State (what a client can observe): installed schema versions (chart +   *)
(* whether it defines transaction templates), existing accounts with their *)
(* metadata, number of logs, number of transactions; plus the enforcement  *)
(* mode of the ledger controller ("strict" | "audit", process-wide option  *)
(* --schema-enforcement-mode, immutable).                                  *)
(*                                                                         *)
(* Requests: InsertSchema(v, chart, templates?), CreateTx(schemaVersion or *)
(* "", template id or "", postings, account metadata of the request),      *)
(* SaveAccountMetadata(schemaVersion or "", address, metadata).            *)
(*                                                                         *)
(* Outcome rules (read from the code, confirmed by probing the real API):  *)
(*  - InsertSchema never needs a version; a duplicate version is rejected  *)
(*    (schema_exists); otherwise one log                                   *)
(*  - no version named: strict mode rejects (schema_not_specified) as soon *)
(*    as the ledger has a schema; audit mode goes on without schema        *)
(*  - version named: it must exist (schema_not_found otherwise)            *)
(*  - schema with templates: the request must use one of its templates;    *)
(*    a template id on a request whose schema has no templates (or no      *)
(*    schema) cannot be executed (validation, both modes)                  *)
(*  - strict: every source and destination of the executed postings must   *)
(*    be accepted by the chart of the named version (validation); account  *)
(*    metadata writes are not checked against the chart                    *)
(*  - a rejected request changes nothing                                   *)
(*  - an accepted request creates the missing accounts it involves         *)
(*    (posting accounts and accounts named in the request's account        *)
(*    metadata): new account = defaults of the chart node (when a version  *)
(*    is named and the chart accepts the address) overridden by the        *)
(*    request's metadata; existing account = existing values overridden by *)
(*    the request's metadata only (defaults are never re-applied)          *)
(*                                                                         *)
(* Named deviations from the property statement ("audit mode accepts       *)
(* them") that the code exhibited when this module was written (repaired   *)
(* in /repo by b6f2f6a and 054dd07).  They stay in the model as a SECOND,  *)
(* never-followed outcome of the request (dev = "D1"/"D2", the literal     *)
(* outcome has dev = "none"), so that a regression is reported under its   *)
(* own signature instead of as an anonymous mismatch:                      *)
(*   D1  audit mode rejects a write naming a version that does not exist   *)
(*       (schema_not_found)                                                *)
(*   D2  audit mode rejects a plain-postings transaction naming a version  *)
(*       whose schema defines templates (the lookup of template "" fails)  *)
(* Ids: a strict-mode rejection happens after the transaction was executed *)
(* and burns a transaction id; gaps are allowed (property C16), so ids are *)
(* not part of the state; the harness checks they are distinct.            *)
(***************************************************************************)
EXTENDS Chart

CONSTANTS
    ChartMenu,      \* sequence of valid charts (Chart.tla representation)
    Versions,       \* versions InsertSchema may create
    TplDefs,        \* [template id -> sequence of postings] defined by every schema "with templates"
    SchemaMenu,     \* set of InsertSchema requests
    TxMenu,         \* set of CreateTx requests
    MetaMenu,       \* set of SaveAccountMetadata requests
    AllKeys,        \* metadata keys (MetaKeys of the charts + request-only keys)
    Addrs,          \* every address the menus mention
    Modes,          \* subset of {"strict", "audit"}
    MaxSteps,       \* length of generated behaviours
    ModelDeviations,\* TRUE: also generate the outcomes D1 / D2 the code was read to produce
    Follow          \* subset of {"D1", "D2"}: the deviations behaviours are continued through

VARIABLES st, hist

NoKV == [k \in AllKeys |-> "_"]
Over(base, top) == [k \in AllKeys |-> IF top[k] # "_" THEN top[k] ELSE base[k]]

Known(s, ver) == ver \in Versions /\ s.sch[ver].on
AnySchema(s)  == \E v \in Versions : s.sch[v].on
ChartOf(s, ver) == ChartMenu[s.sch[ver].chart]

\* chart acceptance / defaults under the schema used ("" = none)
Acc(s, ver, a) == Find(ChartOf(s, ver), a).accepted
Defaults(s, ver, a) ==
    IF ver = "" THEN NoKV
    ELSE LET f == Find(ChartOf(s, ver), a)
         IN  [k \in AllKeys |-> IF f.accepted /\ k \in MetaKeys THEN f.meta[k] ELSE "_"]

\* posted: the postings the accepted transaction records (<< >> for other requests / rejections)
Refuse(s,e)  == [ok |-> FALSE, err |-> e, st |-> s, posted |-> << >>]
Commit(s2)    == [ok |-> TRUE, err |-> "", st |-> s2, posted |-> << >>]
CommitTx(s2, ps) == [ok |-> TRUE, err |-> "", st |-> s2, posted |-> ps]

\* which schema a write runs under; lit = TRUE: as the property reads, FALSE: as the code reads (D1)
Resolve(s, ver, lit) ==
    IF ver = ""
    THEN IF s.mode = "strict" /\ AnySchema(s) THEN [rej |-> TRUE, err |-> "schema_not_specified", ver |-> ""]
         ELSE [rej |-> FALSE, err |-> "", ver |-> ""]
    ELSE IF Known(s, ver) THEN [rej |-> FALSE, err |-> "", ver |-> ver]
    ELSE IF s.mode = "strict" \/ ~lit THEN [rej |-> TRUE, err |-> "schema_not_found", ver |-> ""]
    ELSE [rej |-> FALSE, err |-> "", ver |-> ""]

\* request metadata for address a in a set of [a, kv] records
ReqKV(am, a) == IF \E x \in am : x.a = a THEN (CHOOSE x \in am : x.a = a).kv ELSE NoKV

Upsert(s, ver, accs, am) ==
    [s EXCEPT !.ex = s.ex \cup accs,
              !.md = [a \in Addrs |-> IF a \notin accs THEN s.md[a]
                                      ELSE IF a \in s.ex THEN Over(s.md[a], ReqKV(am, a))
                                      ELSE Over(Defaults(s, ver, a), ReqKV(am, a))]]

PostingAccounts(ps) == {ps[i].s : i \in 1..Len(ps)} \cup {ps[i].d : i \in 1..Len(ps)}

SchemaOutcome(s, r) ==
    IF Known(s, r.v) THEN Refuse(s,"schema_exists")
    ELSE Commit([s EXCEPT !.sch[r.v] = [on |-> TRUE, chart |-> r.chart, tpls |-> r.tpls], !.nlogs = @ + 1])

\* A transaction request travels "direct" (POST /transactions) or as the single element of a bulk
\* ("bulk" / "bulkatomic": POST /_bulk[?atomic=true]).  r.own: the request carries its own numscript
\* next to the template id.  POST /transactions refuses that combination outright; a bulk element is
\* not filtered, and the rule "a templated schema runs the TEMPLATE" decides: the template's postings
\* are recorded, never the caller's script.
TxOutcome(s, r, lit) ==
    LET rs == Resolve(s, r.ver, lit) IN
    IF r.own /\ r.via = "direct" THEN Refuse(s,"validation")
    ELSE IF rs.rej THEN Refuse(s,rs.err)
    ELSE LET ver  == rs.ver
             hasT == ver # "" /\ s.sch[ver].tpls
         IN  IF hasT /\ r.tpl = "" /\ (s.mode = "strict" \/ ~lit) THEN Refuse(s,"validation")   \* D2 when audit
             ELSE IF hasT /\ r.tpl # "" /\ r.tpl \notin DOMAIN TplDefs THEN Refuse(s,"validation")
             ELSE IF ~hasT /\ r.tpl # "" THEN Refuse(s,"validation")
             ELSE LET ps  == IF r.tpl # "" THEN TplDefs[r.tpl] ELSE r.post
                      bad == ver # "" /\ \E a \in PostingAccounts(ps) : ~Acc(s, ver, a)
                  IN  IF bad /\ s.mode = "strict" THEN Refuse(s,"validation")
                      ELSE LET accs == PostingAccounts(ps) \cup {x.a : x \in r.ameta}
                               s2   == Upsert(s, ver, accs, r.ameta)
                           IN  CommitTx([s2 EXCEPT !.nlogs = @ + 1, !.ntx = @ + 1], ps)

MetaOutcome(s, r, lit) ==
    LET rs == Resolve(s, r.ver, lit) IN
    IF rs.rej THEN Refuse(s,rs.err)
    ELSE LET s2 == Upsert(s, rs.ver, {r.a}, {[a |-> r.a, kv |-> r.kv]})
         IN  Commit([s2 EXCEPT !.nlogs = @ + 1])

Outcome(s, r, lit) ==
    CASE r.k = "schema" -> SchemaOutcome(s, r)
      [] r.k = "tx"     -> TxOutcome(s, r, lit)
      [] r.k = "meta"   -> MetaOutcome(s, r, lit)

\* name of the deviation that makes the as-read outcome differ from the literal one
DevName(s, r) == IF Resolve(s, r.ver, TRUE).rej # Resolve(s, r.ver, FALSE).rej THEN "D1" ELSE "D2"

Same(o1, o2) == o1.ok = o2.ok /\ o1.err = o2.err

\* the outcomes of a request: the literal one, plus the as-read one when it differs
Outcomes(s, r) ==
    LET lo == Outcome(s, r, TRUE)
        co == Outcome(s, r, FALSE)
    IN  IF Same(lo, co) \/ ~ModelDeviations
        THEN {[ok |-> lo.ok, err |-> lo.err, st |-> lo.st, posted |-> lo.posted, dev |-> "none",
               alt |-> [ok |-> lo.ok, err |-> lo.err, dev |-> "same"]]}
        ELSE {[ok |-> lo.ok, err |-> lo.err, st |-> lo.st, posted |-> lo.posted, dev |-> "none",
               alt |-> [ok |-> co.ok, err |-> co.err, dev |-> DevName(s, r)]],
              [ok |-> co.ok, err |-> co.err, st |-> co.st, posted |-> co.posted, dev |-> DevName(s, r),
               alt |-> [ok |-> lo.ok, err |-> lo.err, dev |-> "none"]]}

Reqs == SchemaMenu \cup TxMenu \cup MetaMenu

---------------------------------------------------------------------------
(* Behaviours                                                              *)

Obs(s) == [accts |-> {[a |-> a, kv |-> s.md[a]] : a \in s.ex}, nlogs |-> s.nlogs, ntx |-> s.ntx,
           versions |-> {v \in Versions : s.sch[v].on}]

Init0(m) == [mode |-> m,
             sch |-> [v \in Versions |-> [on |-> FALSE, chart |-> 0, tpls |-> FALSE]],
             ex |-> {}, md |-> [a \in Addrs |-> NoKV], nlogs |-> 0, ntx |-> 0]

Init == /\ st \in {Init0(m) : m \in Modes}
        /\ hist = << >>

StepRec(r, o) == [req |-> r, dev |-> o.dev,
                  exp |-> [ok |-> o.ok, err |-> o.err, posted |-> o.posted] @@ Obs(o.st),
                  alt |-> o.alt]

Do(r, o) == /\ st' = o.st
            /\ hist' = Append(hist, StepRec(r, o))

\* Behaviours are only continued along the outcomes in Follow (the cfgs use Follow = {}: the literal
\* outcomes, the only ones the property allows); the deviation outcome of a two-outcome request is
\* still generated, as the LAST step of a behaviour, so that an implementation producing it is
\* reported under the deviation's signature.  (Follow = {"D1","D2"} explores the as-read code.)
\* (written with IF, not \/: inside an action TLC would explore both disjuncts and duplicate successors)
OnPath(s) == IF s.alt.dev = "same" THEN TRUE
             ELSE LET d == IF s.dev # "none" THEN s.dev ELSE s.alt.dev
                  IN  IF d \in Follow THEN s.dev # "none" ELSE s.dev = "none"

\* one action per request of the menus (TLC's simulator picks an action, then one of its outcomes)
Step(r) == /\ Len(hist) < MaxSteps
           /\ IF hist = << >> THEN TRUE ELSE OnPath(hist[Len(hist)])
           /\ \E o \in Outcomes(st, r) : Do(r, o)
Next == \E r \in Reqs : Step(r)

vars == <<st, hist>>
Spec == Init /\ [][Next]_vars

\* Distinct states = distinct observable states at a given depth, reached by a behaviour of a given
\* class (which deviation outcomes it went through) and whose last request had a given outcome class
\* (so that every request is also tried right after every kind of rejection: what a rejected request
\* may leave behind -- e.g. a consumed id -- is not part of st).  hist is one witness behaviour.
PathClass(h) == {<<h[i].dev, h[i].alt.dev>> : i \in {j \in 1..Len(h) : h[j].alt.dev # "same"}}
LastClass(h) == IF h = << >> THEN <<"init">>
                ELSE <<h[Len(h)].req.k, h[Len(h)].exp.ok, h[Len(h)].exp.err>>
View == <<st, Len(hist), PathClass(hist), LastClass(hist)>>

---------------------------------------------------------------------------
(* Theorems, evaluated by TLC in every reachable state for every request   *)
(* of the menus.  Lit(o): the outcome the property prescribes.             *)

Lit(o) == o.dev = "none"

\* P holds for every outcome of every request of the menus in the current state
ForAllOutcomes(P(_, _)) == \A r \in Reqs : \A o \in Outcomes(st, r) : P(r, o)

\* a rejected request has no effect whatsoever
P_NoEffectOnReject(r, o) == ~o.ok => o.st = st

\* an accepted request appends exactly one log, a transaction exactly one transaction
P_OneLogPerWrite(r, o) == o.ok =>
    /\ o.st.nlogs = st.nlogs + 1
    /\ o.st.ntx = st.ntx + (IF r.k = "tx" THEN 1 ELSE 0)
    /\ o.st.mode = st.mode

\* what the request says about account a / key k
ReqVal(r, a, k) == IF r.k = "tx" THEN ReqKV(r.ameta, a)[k]
                   ELSE IF r.k = "meta" /\ r.a = a THEN r.kv[k] ELSE "_"

\* defaults only at creation: an existing value changes only to the value the request gives; a new
\* account holds the request's value, else the chart default of its node under the named version
P_DefaultsOnlyAtCreation(r, o) == o.ok =>
    \A a \in o.st.ex : \A k \in AllKeys :
        LET new == o.st.md[a][k]
            rv  == ReqVal(r, a, k)
        IN  IF a \in st.ex
            THEN new = (IF rv # "_" THEN rv ELSE st.md[a][k])
            ELSE LET ver == IF r.k = "schema" THEN "" ELSE Resolve(st, r.ver, Lit(o)).ver
                 IN  new = (IF rv # "_" THEN rv ELSE Defaults(st, ver, a)[k])
P_NoAccountDeleted(r, o) == st.ex \subseteq o.st.ex

\* strict mode: on a ledger with schemas a write must name an existing version
P_StrictRequiresVersion(r, o) == (st.mode = "strict" /\ AnySchema(st) /\ r.k # "schema") =>
    /\ r.ver = "" => ~o.ok /\ o.err = "schema_not_specified"
    /\ o.ok => Known(st, r.ver)
\* strict mode: accepted transactions use accounts the chart accepts and a template when required
P_StrictChartEnforced(r, o) == (st.mode = "strict" /\ r.k = "tx" /\ o.ok /\ r.ver # "") =>
    LET ps == IF r.tpl # "" THEN TplDefs[r.tpl] ELSE r.post
    IN  /\ \A a \in PostingAccounts(ps) : Acc(st, r.ver, a)
        /\ st.sch[r.ver].tpls => r.tpl \in DOMAIN TplDefs
\* what an accepted transaction records: the template's postings when a template is named (whatever
\* script the request carries besides), else the request's postings; nothing for other requests
P_TemplateDecidesPostings(r, o) ==
    IF r.k = "tx" /\ o.ok
    THEN o.posted = (IF r.tpl # "" THEN TplDefs[r.tpl] ELSE r.post) /\ o.posted # << >>
    ELSE o.posted = << >>
\* strict mode never needs the two-outcome escape
P_StrictHasNoDeviation(r, o) == st.mode = "strict" => (Lit(o) /\ o.alt.dev = "same")

\* a request that cannot be executed at all, whatever the mode
Unexecutable(s, r) ==
    \/ r.k = "schema" /\ Known(s, r.v)
    \/ r.k = "tx" /\ r.tpl # "" /\ ~(Known(s, r.ver) /\ s.sch[r.ver].tpls /\ r.tpl \in DOMAIN TplDefs)
    \/ r.k = "tx" /\ r.own /\ r.via = "direct"
\* audit mode accepts everything that can be executed (literal outcomes)
P_AuditAcceptsAll(r, o) == (st.mode = "audit" /\ Lit(o)) => (o.ok <=> ~Unexecutable(st, r))
\* the same statement about ALL outcomes: expected to be VIOLATED when ModelDeviations = TRUE (D1, D2);
\* used as the negative control of the theorem and as the design-level record of the deviations
P_AuditAcceptsAll_AsRead(r, o) == st.mode = "audit" => (o.ok <=> ~Unexecutable(st, r))
\* strict and audit agree on everything strict accepts (audit is a relaxation)
P_AuditRelaxesStrict(r, o) ==
    LET so == Outcome([st EXCEPT !.mode = "strict"], r, TRUE)
        ao == Outcome([st EXCEPT !.mode = "audit"], r, TRUE)
    IN  so.ok => (ao.ok /\ ao.st = [so.st EXCEPT !.mode = "audit"])

NoEffectOnReject       == ForAllOutcomes(P_NoEffectOnReject)
OneLogPerWrite         == ForAllOutcomes(P_OneLogPerWrite)
DefaultsOnlyAtCreation == ForAllOutcomes(P_DefaultsOnlyAtCreation)
NoAccountDeleted       == ForAllOutcomes(P_NoAccountDeleted)
StrictRequiresVersion  == ForAllOutcomes(P_StrictRequiresVersion)
StrictChartEnforced    == ForAllOutcomes(P_StrictChartEnforced)
StrictHasNoDeviation   == ForAllOutcomes(P_StrictHasNoDeviation)
AuditAcceptsAll        == ForAllOutcomes(P_AuditAcceptsAll)
AuditAcceptsAll_AsRead == ForAllOutcomes(P_AuditAcceptsAll_AsRead)
AuditRelaxesStrict     == ForAllOutcomes(P_AuditRelaxesStrict)
TemplateDecidesPostings == ForAllOutcomes(P_TemplateDecidesPostings)

\* all theorems in one pass over the outcomes (used by the simulation configurations)
P_All(r, o) == /\ P_NoEffectOnReject(r, o) /\ P_OneLogPerWrite(r, o) /\ P_DefaultsOnlyAtCreation(r, o)
               /\ P_NoAccountDeleted(r, o) /\ P_StrictRequiresVersion(r, o) /\ P_StrictChartEnforced(r, o)
               /\ P_StrictHasNoDeviation(r, o) /\ P_AuditAcceptsAll(r, o) /\ P_AuditRelaxesStrict(r, o)
               /\ P_TemplateDecidesPostings(r, o)
AllTheorems == ForAllOutcomes(P_All)

TypeOK == /\ st.mode \in Modes
          /\ st.ex \subseteq Addrs
          /\ Len(hist) <= MaxSteps
          /\ \A a \in Addrs \ st.ex : st.md[a] = NoKV
=============================================================================
