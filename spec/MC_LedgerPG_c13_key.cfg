SPECIFICATION Spec
CONSTANTS
  Ops <- MCOps
  InitBal <- MCInit
  Scenario = "same-key"
  ForUpdate = TRUE
  AdvisoryLock = TRUE
  Recheck = TRUE
  MaxRetry = 2
INVARIANTS
  AtMostOncePerKey
  NoBusinessErrorOnDuplicate
  NoOverdraft
PROPERTIES
  AllAnswered
CHECK_DEADLOCK FALSE
