---------------------------- MODULE MC_ReadsPages ----------------------------
(***************************************************************************)
(* Exhaustive check of the two cursor state machines of Reads (§6): for     *)
(* every set of at most MaxLen distinct keys drawn from 1..MaxKey, every     *)
(* page size 1..MaxSize, both orders and both paginators, ANY walk made of   *)
(* next / previous steps from the first page shows, at its k-th position,    *)
(* exactly the k-th chunk of the sorted list; next exists iff a later chunk  *)
(* exists; previous exists iff an earlier chunk exists.  Hence following     *)
(* next enumerates every key exactly once, in order (FollowIsChunks), and    *)
(* previous returns the page before.                                         *)
(***************************************************************************)
EXTENDS Reads

CONSTANTS MaxKey, MaxLen, MaxSize

VARIABLES keys, order, size, kind, page, idx

vars == <<keys, order, size, kind, page, idx>>

L == SortedKeys(keys, order)
Want == Chunks(L, size)

PageOf(c) == IF kind = "col" THEN ColPage(keys, order, size, c) ELSE OffPage(L, size, c)

Init ==
  /\ keys \in {S \in SUBSET (1..MaxKey) : Cardinality(S) <= MaxLen}
  /\ order \in {"asc", "desc"}
  /\ size \in 1..MaxSize
  /\ kind \in {"col", "off"}
  /\ page = IF kind = "col" THEN ColPage(keys, order, size, ColFirst) ELSE OffPage(SortedKeys(keys, order), size, OffFirst)
  /\ idx = 1

FollowNext == /\ IsCursor(page.next)
              /\ page' = PageOf(page.next)
              /\ idx' = idx + 1
              /\ UNCHANGED <<keys, order, size, kind>>
FollowPrev == /\ IsCursor(page.prev)
              /\ page' = PageOf(page.prev)
              /\ idx' = idx - 1
              /\ UNCHANGED <<keys, order, size, kind>>
Next == FollowNext \/ FollowPrev

Spec == Init /\ [][Next]_vars

\* the k-th position of any walk shows the k-th chunk
PageIsChunk == idx \in DOMAIN Want /\ page.items = Want[idx]
NextIffMore == IsCursor(page.next) <=> idx < Len(Want)
PrevIffBefore == IsCursor(page.prev) <=> idx > 1

\* following next from the first page enumerates exactly the chunks: every key exactly once, in order
FollowIsChunks ==
  /\ FollowCol(keys, order, size, ColFirst, MaxLen + 1) = Want
  /\ FollowOff(L, size, OffFirst, MaxLen + 1) = Want
  /\ FoldLeft(LAMBDA acc, p : acc \o p, <<>>, Want) = L

\* a cursor request may carry ANOTHER page size: from the first page's next cursor, walking forward with any size s2 still
\* enumerates the rest exactly once in order; walking back from the last such page ends on a page without previous that
\* starts at the first key
Items(ps) == FoldLeft(LAMBDA acc, p : acc \o p.items, <<>>, ps)
ResizeEnumerates ==
  \A s2 \in 1..MaxSize :
     LET fc == ColPage(keys, order, size, ColFirst)
         fo == OffPage(L, size, OffFirst)
     IN /\ (IsCursor(fc.next) =>
              LET fw == ColWalk(keys, order, s2, fc.next, "next", MaxLen + 1)
                  lastp == fw[Len(fw)]
              IN /\ fc.items \o Items(fw) = L
                 /\ (IsCursor(lastp.prev) =>
                       LET bw == ColWalk(keys, order, s2, lastp.prev, "prev", MaxLen + 1)
                       IN ~IsCursor(bw[Len(bw)].prev) /\ bw[Len(bw)].items[1] = L[1]))
        /\ (IsCursor(fo.next) =>
              LET fw == OffWalk(L, s2, fo.next, "next", MaxLen + 1)
                  lastp == fw[Len(fw)]
              IN /\ fo.items \o Items(fw) = L
                 /\ (IsCursor(lastp.prev) =>
                       LET bw == OffWalk(L, s2, lastp.prev, "prev", MaxLen + 1)
                       IN ~IsCursor(bw[Len(bw)].prev) /\ bw[Len(bw)].items[1] = L[1]))
=============================================================================
