------------------------------ MODULE MC_Bulk ------------------------------
(***************************************************************************)
(* Flow A for C32: TLC enumerates every bulk of at most MaxLen elements     *)
(* drawn from an 8-element menu (with elements that fail at any position:  *)
(* insufficient funds, reference conflict, missing target, already          *)
(* reverted, and an idempotent replay) x two prefix histories x the six     *)
(* legal option combinations, checks the theorems of Bulk on each, and      *)
(* prints the case with the outcome Bulk prescribes.  The harness replays   *)
(* each printed case through POST /v2/{ledger}/_bulk on a fresh ledger.     *)
(***************************************************************************)
EXTENDS Bulk, Json

CONSTANTS MaxLen, Emit

VARIABLE c

P(s, d, as, k, b) == [s |-> s, d |-> d, as |-> as, n |-> k, b |-> b]

Base == [k |-> "create", l |-> "l1", ps |-> <<>>, ts |-> 0, ref |-> "", meta |-> NoMeta, ameta |-> NoMeta,
         ik |-> "", ikin |-> 0, dry |-> FALSE, now |-> 0,
         id |-> 0, force |-> FALSE, atEff |-> FALSE, addr |-> "", key |-> ""]

MK == [x \in {"k"} |-> "v"]
MW == [x \in {"k"} |-> "w"]

Menu == <<
  [Base EXCEPT !.ps = <<P(World, "a", "USD", 2, 0)>>],                          \* 1 always succeeds
  [Base EXCEPT !.ps = <<P("a", "b", "USD", 3, 0)>>],                            \* 2 needs 3 USD on a
  [Base EXCEPT !.ps = <<P(World, "b", "USD", 1, 0)>>, !.ref = "r1"],            \* 3 reference r1: conflicts when used twice
  [Base EXCEPT !.k = "revert", !.id = 1],                                       \* 4 needs tx 1, not reverted, funds on its destination
  [Base EXCEPT !.k = "txmeta", !.id = 2, !.meta = MW],                          \* 5 needs tx 2
  [Base EXCEPT !.k = "acmeta", !.addr = "a", !.meta = MK],                      \* 6 always succeeds
  [Base EXCEPT !.ps = <<P(World, "a", "USD", 1, 0)>>, !.ik = "i1", !.ikin = 1], \* 7 idempotent: replayed when used twice
  [Base EXCEPT !.k = "untxmeta", !.id = 1, !.key = "k"] >>                      \* 8 needs key k on tx 1

PrefixMenu == <<
  <<>>,                                                                         \* the bulk is the first write of the ledger
  << [Base EXCEPT !.ps = <<P(World, "a", "USD", 2, 0)>>, !.meta = MK, !.now = 1],
     [Base EXCEPT !.ps = <<P(World, "b", "USD", 1, 0)>>, !.ref = "r1", !.now = 2] >> >>

OptSet == { [atomic |-> a, parallel |-> pa, cof |-> co] : a, pa, co \in BOOLEAN } \ {o \in [atomic : BOOLEAN, parallel : BOOLEAN, cof : BOOLEAN] : o.atomic /\ o.parallel}

Now == 3

CaseSet == { [pre |-> pre, els |-> els, opts |-> o] :
               pre \in DOMAIN PrefixMenu,
               els \in UNION {[1..n -> DOMAIN Menu] : n \in 1..MaxLen},
               o \in OptSet }

\* state after a prefix (single requests, dense ids)
PreStep(acc, op) ==
  LET r == Apply(acc.ls, acc.iks, op, MaxTxId(acc.ls) + 1, MaxLogId(acc.ls) + 1)
  IN [ls |-> r.ls, iks |-> IF r.ok /\ op.ik # "" THEN Put(acc.iks, op.ik, [ikin |-> op.ikin, id |-> r.id]) ELSE acc.iks]
After(pre) == FoldLeft(PreStep, [ls |-> EmptyLedger, iks |-> <<>>], PrefixMenu[pre])

ElsOf(cs) == [i \in DOMAIN cs.els |-> [Menu[cs.els[i]] EXCEPT !.now = Now]]
Dense(from, n) == [i \in 1..n |-> from + i]

OutOf(cs) == LET st == After(cs.pre)
           IN BulkApply(st.ls, st.iks, ElsOf(cs), cs.opts, 0, Dense(MaxTxId(st.ls), MaxLen), Dense(MaxLogId(st.ls), MaxLen))
Allowed(cs) == LET st == After(cs.pre)
               IN ParallelOutcomes(st.ls, st.iks, ElsOf(cs), cs.opts, Dense(MaxTxId(st.ls), MaxLen), Dense(MaxLogId(st.ls), MaxLen))

Init == c \in CaseSet
Next == UNCHANGED c
Spec == Init /\ [][Next]_c

(***************************************************************************)
(* Theorems                                                                 *)
(***************************************************************************)
IsSeq(cs) == ~cs.opts.parallel
Thm_OneResultPerElement == OneResultPerElement(OutOf(c), ElsOf(c))
Thm_AtomicAllOrNothing == AtomicAllOrNothing(After(c.pre).ls, OutOf(c), c.opts)
Thm_PrefixSemantics == IsSeq(c) => PrefixSemantics(OutOf(c), c.opts)
Thm_ContinueSemantics == IsSeq(c) => ContinueSemantics(OutOf(c), c.opts)
Thm_DurableOnlyIfOK == DurableOnlyIfOK(OutOf(c))
Thm_LedgerInv == LedgerInv(OutOf(c).ls)
\* a sequential execution is one of the executions a parallel bulk may have (parallel only frees the order)
Thm_SequentialIsAParallelOrder ==
  (~c.opts.atomic /\ c.opts.cof) =>
     LET o == OutOf(c) IN \E a \in Allowed([c EXCEPT !.opts.parallel = TRUE]) : a.ls = o.ls /\ a.res = o.res
\* parallel: whatever the order, one result per element and the ledger invariants
Thm_ParallelWellFormed ==
  c.opts.parallel => \A a \in Allowed(c) : OneResultPerElement(a, ElsOf(c)) /\ LedgerInv(a.ls)

(***************************************************************************)
(* Emission                                                                 *)
(***************************************************************************)
JRes(out) == [res |-> out.res, ls |-> out.ls, httpok |-> out.httpok, rollback |-> out.rollback]
EmitCase ==
  Emit =>
    PrintT(<<"CASE", ToJson(
       [pre |-> c.pre, menu |-> c.els, prefix |-> PrefixMenu[c.pre],
        req |-> [k |-> "bulk", l |-> "l1", now |-> Now, atomic |-> c.opts.atomic, parallel |-> c.opts.parallel,
                 cof |-> c.opts.cof, dry |-> FALSE, fault |-> 0, els |-> ElsOf(c)],
        before |-> After(c.pre).ls,
        expect |-> IF c.opts.parallel THEN <<>> ELSE <<JRes(OutOf(c))>>,
        events |-> IF c.opts.parallel THEN <<>> ELSE Events(OutOf(c), ElsOf(c)),
        allowed |-> IF c.opts.parallel THEN SetToSeq({JRes(a) : a \in Allowed(c)}) ELSE <<>>])>>)
=============================================================================
