\* Standard TLC configuration: every predicate as an INVARIANT / action PROPERTY (TLC stops at the first violated
\* one).  checks/system_common.py uses TraceSystemReport.cfg, which evaluates the same predicates on every line
\* and prints all failures.
SPECIFICATION Spec
CONSTANT TraceFile = "trace.ndjson"
INVARIANTS
  Inv_SYS_UniqueNames
  Inv_SYS_IdsIncreasing
  Inv_SYS_WellFormed
  Inv_SYS_Pagination
  Inv_SYS_GetMatches
  Inv_SYS_ReadGate
PROPERTIES
  Step_SYS_Universe
  Step_SYS_Outcome
  Step_SYS_Status
  Step_SYS_Validation
  Step_SYS_DuplicateName
  Step_SYS_Created
  Step_SYS_Metadata
  Step_SYS_BucketMarks
  Step_SYS_NoEffect
  Step_SYS_Immutable
  Step_SYS_MetaScope
  Step_SYS_BucketFrame
  Step_SYS_HidesExactly
  Step_SYS_OthersKeepMarks
  Step_SYS_ListResult
  Step_SYS_Value
  Step_SYS_Exporters
  Step_SYS_Pipelines
  Step_SYS_Probe
  Step_SYS_Ntx
  Step_ResetPristine
POSTCONDITION Accepted
CHECK_DEADLOCK FALSE
