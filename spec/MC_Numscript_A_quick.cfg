INIT Init
NEXT Next
CONSTANT Family = "A"
CONSTANT Tier = "quick"
CONSTANT N = 0
INVARIANT CheckAndEmit
