---------------------------- MODULE TraceAmounts ----------------------------
(***************************************************************************)
(* Property C36 (amounts are exact at any magnitude).                       *)
(*                                                                         *)
(* The harness runs ONE abstract history (amounts 0..4) through every write *)
(* entry point the property names -- v2 postings, v2 script variables in    *)
(* their three JSON encodings, v1 postings, v1 scripts, v1 script variables *)
(* (strings, and {asset, amount} objects whose amount is a JSON number),    *)
(* bulk elements -- at every scale B in {1, 2^53-1, 2^53+1, 2^63-1, 2^63+1,  *)
(* 2^64-1, 2^64+1, 10^30}: the concrete amount is k*B, every amount read    *)
(* back must be an exact multiple of B (the projection fails otherwise) and *)
(* the projected trace must be accepted by this module, which extends       *)
(* TraceLedger (the whole ledger core specification applies to the line)    *)
(* with the amount-carrying reads Observe does not perform:                 *)
(*   v1 balances / aggregated balances / account volumes / transactions,    *)
(*   balance[asset] filters on accounts and volumes (thresholds k*B),       *)
(*   aggregated sums restricted by address.                                 *)
(* Since all of Ledger is additive in the amounts, the projected trace is   *)
(* the same at every scale; the check also compares it with scale 1.        *)
(***************************************************************************)
EXTENDS TraceLedger

L1 == "l1"
O(i) == Raw(i)[L1]
Rd(i) == Trace[i].reads
Vols(i) == VolsOf(ToLS(O(i)))
SumBal(S) == FoldSet(LAMBDA v, acc : acc + v.i - v.o, 0, S)

\* GET /{ledger}/balances: every (account, asset) with its balance
I_C36_V1Balances(i) ==
  {[a |-> x.a, as |-> x.as, b |-> x.b] : x \in ToSet(Rd(i).v1bal)} = {[a |-> v.a, as |-> v.as, b |-> v.i - v.o] : v \in Vols(i)}

\* GET /{ledger}/aggregate/balances: per asset, the sum over all accounts
I_C36_V1Aggregate(i) ==
  /\ {x.as : x \in ToSet(Rd(i).v1agg)} = {v.as : v \in Vols(i)}
  /\ \A x \in ToSet(Rd(i).v1agg) : x.b = SumBal({v \in Vols(i) : v.as = x.as})

\* GET /{ledger}/accounts/{address}: volumes of every account
I_C36_V1Accounts(i) ==
  {[a |-> x.a, as |-> x.as, i |-> x.i, o |-> x.o] : x \in ToSet(Rd(i).v1acct)} = Vols(i)

\* GET /{ledger}/transactions: postings and post-commit volumes as v2 reports them
I_C36_V1Transactions(i) ==
  /\ Len(Rd(i).v1txs) = Len(O(i).txs)
  /\ \A k \in DOMAIN O(i).txs : k \in DOMAIN Rd(i).v1txs =>
        /\ Rd(i).v1txs[k].id = O(i).txs[k].id
        /\ Rd(i).v1txs[k].ps = O(i).txs[k].ps
        /\ ToSet(Rd(i).v1txs[k].pcv) = ToSet(O(i).txs[k].pcv)

\* balance[asset] filters: exactly the accounts holding the asset whose balance satisfies the comparison
Cmp(b, c, k) == CASE c = "$lt" -> b < k [] c = "$lte" -> b <= k [] c = "$gt" -> b > k [] c = "$gte" -> b >= k [] c = "$match" -> b = k
I_C36_BalanceFilters(i) ==
  \A f \in ToSet(Rd(i).filt) :
     ToSet(f.got) = {v.a : v \in {w \in Vols(i) : w.as = f.as /\ Cmp(w.i - w.o, f.cmp, f.k)}}

\* aggregated balances restricted by address ("orders:" selects the accounts under that segment)
Selected(pat, a) == IF pat = "orders:" THEN a \in {"orders:1", "orders:2"} ELSE a = pat
I_C36_AggregatedSums(i) ==
  \A s \in ToSet(Rd(i).sums) :
     LET S == {v \in Vols(i) : Selected(s.addr, v.a)}
     IN /\ {x.as : x \in ToSet(s.agg)} = {v.as : v \in S}
        /\ \A x \in ToSet(s.agg) : x.b = SumBal({v \in S : v.as = x.as})

AmountChecks(i) ==
  << <<"Inv_C36_V1Balances", I_C36_V1Balances(i)>>,
     <<"Inv_C36_V1Aggregate", I_C36_V1Aggregate(i)>>,
     <<"Inv_C36_V1Accounts", I_C36_V1Accounts(i)>>,
     <<"Inv_C36_V1Transactions", I_C36_V1Transactions(i)>>,
     <<"Inv_C36_BalanceFilters", I_C36_BalanceFilters(i)>>,
     <<"Inv_C36_AggregatedSums", I_C36_AggregatedSums(i)>> >>

Inv_C36_V1Balances == l >= 1 => I_C36_V1Balances(l)
Inv_C36_V1Aggregate == l >= 1 => I_C36_V1Aggregate(l)
Inv_C36_V1Accounts == l >= 1 => I_C36_V1Accounts(l)
Inv_C36_V1Transactions == l >= 1 => I_C36_V1Transactions(l)
Inv_C36_BalanceFilters == l >= 1 => I_C36_BalanceFilters(l)
Inv_C36_AggregatedSums == l >= 1 => I_C36_AggregatedSums(l)

ReportNextA == ReportNext /\ Report(AmountChecks(l'), l')
ReportSpecA == Init /\ [][ReportNextA]_vars
=============================================================================
