----------------------------- MODULE MC_ReadsFold -----------------------------
(***************************************************************************)
(* Design-level theorems of Reads over EVERY history of the bounded ledger   *)
(* model MC_Ledger (extended with a menu entry that writes account metadata   *)
(* at creation), with the metadata journal kept as a specification history    *)
(* variable jr:                                                              *)
(*  PCVFormulationAgrees  the two formulations of insertion-date volumes at   *)
(*       t -- fold of the postings inserted at or before t vs. post-commit    *)
(*       volumes of the last transaction inserted at or before t -- agree     *)
(*  WindowsPartition  volumes(<= t) + volumes(>= t+1) = totals, in both date  *)
(*       modes                                                               *)
(*  JournalExplainsMeta  current metadata = fold of the whole journal        *)
(*  MetaAtNowIsCurrent   metadata as of any t >= now is the current metadata  *)
(*  MetaAtMonotone   a journal entry dated > t never influences MetaAt(t)     *)
(*       (stated as: MetaAt(t) of the extended journal = MetaAt(t) before     *)
(*       the write, for t < now -- action property)                          *)
(*  VisibilityAt  TxsAt / AccountsAt never show an entity before its date,    *)
(*       never hide one after; reverted is shown iff revAt <= t               *)
(***************************************************************************)
EXTENDS MC_Ledger, Reads

VARIABLE jr
varsF == <<ls, iks, now, nTx, nLog, n, h, jr>>

MA == [x \in {"a"} |-> [k \in {"k"} |-> "v"]]
MenuF == Menu \cup { [Base EXCEPT !.ps = <<P(World, "a", "USD", 1, 0)>>, !.ameta = MA, !.meta = M2],
                     [Base EXCEPT !.k = "acmeta", !.addr = "a", !.meta = M2] }

JE(kind, tx, addr, op, key, meta, date, create) ==
  [kind |-> kind, tx |-> tx, addr |-> addr, op |-> op, key |-> key, meta |-> meta, date |-> date, create |-> create]

NewEntries(old, new, op) ==
  IF Len(new.logs) = Len(old.logs) THEN <<>>
  ELSE LET g == new.logs[Len(new.logs)]
           am == SetToSeq(DOMAIN op.ameta)
       IN CASE g.type = "NEW_TRANSACTION" ->
                 <<JE("tx", g.tx, "", "set", "", op.meta, g.date, TRUE)>>
                   \o [i \in DOMAIN am |-> JE("acct", 0, am[i], "set", "", op.ameta[am[i]], g.date, FALSE)]
            [] g.type = "REVERTED_TRANSACTION" -> <<JE("tx", g.tx, "", "set", "", op.meta, g.date, TRUE)>>
            [] g.type = "SET_METADATA" ->
                 IF g.tgt = "" THEN <<JE("tx", g.tx, "", "set", "", g.meta, g.date, FALSE)>>
                 ELSE <<JE("acct", 0, g.tgt, "set", "", g.meta, g.date, FALSE)>>
            [] g.type = "DELETE_METADATA" ->
                 IF g.tgt = "" THEN <<JE("tx", g.tx, "", "del", g.key, NoMeta, g.date, FALSE)>>
                 ELSE <<JE("acct", 0, g.tgt, "del", g.key, NoMeta, g.date, FALSE)>>

InitF == Init /\ jr = <<>>
NextF == \E op \in MenuF : Do(op) /\ jr' = jr \o NewEntries(ls, ls', op)
SpecF == InitF /\ [][NextF]_varsF

Instants == 0..(MaxT + 1)
RR == [ls |-> ls, jr |-> jr]

PCVFormulationAgrees == \A t \in Instants : VolumesAt(ls, t, 0, TRUE) = LastPCVAt(ls, t)

Plus(V, W) == {[a |-> pr[1], as |-> pr[2],
                i |-> FoldSet(LAMBDA v, acc : acc + v.i, 0, {v \in V \cup W : v.a = pr[1] /\ v.as = pr[2]}),
                o |-> FoldSet(LAMBDA v, acc : acc + v.o, 0, {v \in V \cup W : v.a = pr[1] /\ v.as = pr[2]})]
                 : pr \in {<<v.a, v.as>> : v \in V \cup W}}
\* V and W may contain the same record (equal sums): fold over a tagged union instead
Tag(V, x) == {[v |-> v, t |-> x] : v \in V}
PlusT(V, W) == LET U == Tag(V, 1) \cup Tag(W, 2)
               IN {[a |-> pr[1], as |-> pr[2],
                    i |-> FoldSet(LAMBDA u, acc : acc + u.v.i, 0, {u \in U : u.v.a = pr[1] /\ u.v.as = pr[2]}),
                    o |-> FoldSet(LAMBDA u, acc : acc + u.v.o, 0, {u \in U : u.v.a = pr[1] /\ u.v.as = pr[2]})]
                     : pr \in {<<u.v.a, u.v.as>> : u \in U}}
WindowsPartition ==
  \A t \in 1..MaxT : \A m \in BOOLEAN :
     PlusT(VolumesAt(ls, t, 0, m), VolumesAt(ls, 0, t + 1, m)) = VolsOf(ls)

JournalExplainsMeta == JournalIsMeta(RR)

MetaAtNowIsCurrent ==
  \A t \in now..(MaxT + 1) :
     /\ \A i \in DOMAIN ls.txs : TxMetaAt(jr, ls.txs[i].id, t) = ls.txs[i].meta
     /\ \A x \in ls.accts : AcctMetaAt(jr, x.addr, t) = x.meta

\* a write at instant now' never changes what a read as of an earlier instant returns
MetaAtMonotone ==
  [][\A t \in 1..MaxT : t < now' =>
        /\ \A i \in DOMAIN ls.txs : TxMetaAt(jr', ls.txs[i].id, t) = TxMetaAt(jr, ls.txs[i].id, t)
        /\ \A x \in ls.accts : AcctMetaAt(jr', x.addr, t) = AcctMetaAt(jr, x.addr, t)]_varsF

VisibilityAt ==
  /\ TxsAt(ls, 0) = ls.txs
  /\ AccountsAt(ls, 0) = ls.accts
  /\ \A t \in 1..(MaxT + 1) :
        /\ {x.id : x \in ToSet(TxsAt(ls, t))} = {ls.txs[i].id : i \in {j \in DOMAIN ls.txs : ls.txs[j].ts <= t}}
        /\ \A x \in ToSet(TxsAt(ls, t)) : x.rev <=> (TxOf(ls, x.id).rev /\ TxOf(ls, x.id).revAt <= t)
        /\ \A x \in ls.accts : (x \in AccountsAt(ls, t)) <=> x.first <= t
        \* an account visible at t has no volume from a posting dated after t, in the matching date mode
        /\ \A v \in VolumesAt(ls, t, 0, FALSE) : HasAcct(ls, v.a) /\ AcctOf(ls, v.a).first <= t
=============================================================================
