--------------------------- MODULE MC_ReadsLateral ---------------------------
(***************************************************************************)
(* Design-level theorem about the lateral push-down rule (Reads §7):        *)
(* for EVERY filter AST of depth <= Depth over a menu of leaves (partial,    *)
(* prefix and exact address patterns, an $in on the address, a metadata      *)
(* match), and every account of a small universe (addresses of 1..3 segments *)
(* sharing prefixes, with and without metadata): whenever the rule says      *)
(* "safe", evaluating with the collected address patterns also applied       *)
(* inside the lateral account lookup selects exactly the same rows.          *)
(*   PushSafe        the theorem as stated (must hold, WithIn TRUE or FALSE) *)
(*   PushSafeNoIn    the theorem restricted to filters without an $in on an  *)
(*                   address                                                 *)
(* Negative control (checks/reads_common.py): with Reads!CountInAsAddress-   *)
(* Filter = TRUE -- the rule as the repository had it before commit 55870c0: *)
(* an $in leaf counted as an address filter when deciding that an $or is     *)
(* homogeneous, although its operand is never collected -- TLC must refute   *)
(* PushSafe with $or[address match "orders:", address $in [...]].            *)
(***************************************************************************)
EXTENDS Reads

CONSTANTS Depth, WithIn

VARIABLE flt

N0 == [op |-> "true", args |-> <<>>, f |-> "", k |-> "", s |-> "", n |-> 0, b |-> FALSE, ss |-> <<>>, sg |-> <<>>]
MatchAddr(sg) == [N0 EXCEPT !.op = "match", !.f = "address", !.sg = sg]
InAddr(ss) == [N0 EXCEPT !.op = "in", !.f = "address", !.ss = ss]
MetaIs(k, v) == [N0 EXCEPT !.op = "match", !.f = "metadata", !.k = k, !.s = v]
Not(x) == [N0 EXCEPT !.op = "not", !.args = <<x>>]
And(xs) == [N0 EXCEPT !.op = "and", !.args = xs]
Or(xs) == [N0 EXCEPT !.op = "or", !.args = xs]

Leaves == {MatchAddr(<<"orders", "">>), MatchAddr(<<"users", "...">>), MatchAddr(<<"users", "a">>), MetaIs("k", "v")}
            \cup (IF WithIn THEN {InAddr(<<"world", "users:a">>)} ELSE {})

RECURSIVE AST(_)
AST(d) == IF d = 1 THEN Leaves
          ELSE LET S == AST(d - 1)
               IN S \cup {Not(x) : x \in S} \cup {And(<<x>>) : x \in S} \cup {Or(<<x>>) : x \in S}
                    \cup {And(<<x, y>>) : x, y \in S} \cup {Or(<<x, y>>) : x, y \in S}

Addrs == {<<"orders", "1">>, <<"orders", "2", "main">>, <<"users", "a">>, <<"users", "b", "main">>, <<"world">>}
Name(sg) == CASE sg = <<"orders", "1">> -> "orders:1"
              [] sg = <<"orders", "2", "main">> -> "orders:2:main"
              [] sg = <<"users", "a">> -> "users:a"
              [] sg = <<"users", "b", "main">> -> "users:b:main"
              [] sg = <<"world">> -> "world"
Universe == {[a |-> Name(sg), as |-> "USD", i |-> 1, o |-> 0, sg |-> sg, meta |-> m] : sg \in Addrs, m \in {NoMeta, [k \in {"k"} |-> "v"]}}

Init == flt \in AST(Depth)
Next == UNCHANGED flt
Spec == Init /\ [][Next]_flt

Safe(g) == CanPushAddressFilterToLateral(g) => SelectedWithPush("agg", g, Universe) = Selected("agg", g, Universe)

PushSafe == Safe(flt)
PushSafeNoIn == ~HasInOnAddress(flt) => Safe(flt)
\* vacuity guards, evaluated once
ASSUME \E g \in AST(2) : CanPushAddressFilterToLateral(g) /\ NeedSegments(g)
ASSUME \E g \in AST(2) : ~CanPushAddressFilterToLateral(g)
=============================================================================
