\* C33, faithful model, schedule search: persisted <= acknowledged since the last reset.  A counterexample is printed as a
\* CASE line (the schedule) and replayed on the real code through the gates by checks/C33.py.
SPECIFICATION Spec
CONSTANTS
  MaxLogs = 2
  PageSizes = {2}
  MaxFail = 1
  MaxStops = 1
  MaxResets = 1
  MaxRestarts = 1
  JoinSubscriber = FALSE
  Mutant = "none"
  LateAccepts = FALSE
  RecordHist = TRUE
VIEW ViewNoHist
ACTION_CONSTRAINT UrgentInternal
INVARIANTS
  InvPersistedLeAckedSinceResetE
