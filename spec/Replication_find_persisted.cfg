\* Negative control (pre-9ae9635 model, JoinSubscriber = FALSE).  TLC MUST refute InvPersistedLeAckedSinceResetE; the schedule it
\* prints (CASE line) is forced on the real code by checks/C33.py and must NOT be reproducible there any more - if the code
\* follows it, the late StorePipelineState is back and the check reports it.
SPECIFICATION Spec
CONSTANTS
  MaxLogs = 2
  PageSizes = {2}
  MaxFail = 1
  MaxStops = 1
  MaxResets = 1
  MaxRestarts = 1
  JoinSubscriber = FALSE
  Mutant = "none"
  LateAccepts = FALSE
  RecordHist = TRUE
VIEW ViewNoHist
ACTION_CONSTRAINT UrgentInternal
INVARIANTS
  InvPersistedLeAckedSinceResetE
