INIT Init
NEXT Next
CONSTANT MaxDen = 12
CONSTANT MaxLen = 4
CONSTANT MaxAmt = 2000
CONSTANT Dense = 60
INVARIANT CheckAndEmit
