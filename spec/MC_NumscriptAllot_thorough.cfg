INIT Init
NEXT Next
CONSTANT DenLo = 1
CONSTANT DenHi = 12
CONSTANT MaxLen = 4
CONSTANT MaxAmt = 2000
CONSTANT Dense = 60
INVARIANT CheckAndEmit
