\* C33, faithful model, liveness under weak fairness (no state constraint, no VIEW): every log is eventually acknowledged,
\* and acknowledged again after a reset.
SPECIFICATION FairSpec
CONSTANTS
  MaxLogs = 2
  PageSizes = {1, 2}
  MaxFail = 1
  MaxStops = 1
  MaxResets = 1
  MaxRestarts = 1
  JoinSubscriber = TRUE
  Mutant = "none"
  LateAccepts = FALSE
  RecordHist = FALSE
PROPERTIES
  LiveAllAccepted
  LiveAllAcceptedSinceReset
