SPECIFICATION Spec
CONSTANTS
  Ops <- MCOps
  InitBal <- MCInit
  Scenario = "cross"
  ForUpdate = TRUE
  AdvisoryLock = TRUE
  Recheck = TRUE
  MaxRetry = 2
INVARIANTS
  NoOverdraft
  LinearChain
CHECK_DEADLOCK FALSE
