\* random walks (-simulate): charts up to depth 4 / 9 nodes over the rich menus
INIT Init
NEXT Next
CONSTANTS
  FixedNames <- MCFixed
  VarKeys <- MCVar1
  BadNames <- MCNoBad
  Patterns <- MCPatterns4
  BadPatterns <- MCNoBad
  PatMatch <- MCPatMatch
  SelfMenu <- MCSelf2
  PropsMenu <- MCPropsL
  RootMenu <- MCRootPlain
  MetaKeys <- MCKeys
  Alphabet <- MCAlphabet
  TxMenu <- MCTxMenu
  QMenu <- MCQMenu
  MaxAddrLen = 3
  MaxNodes = 9
  MaxDepth = 4
  AllowDefects = FALSE
  EmitMin = 4
INVARIANTS TypeOK ThmRoundTripMeaning ThmCanonValid ThmCanonIdem ThmUnique ThmFixedPathAccepted Emit
