SPECIFICATION Spec
CONSTANTS
  Writers = {w1, w2}
  Builders = {b1}
  MaxWrites = 1
  MaxBlock = 1
  Ordered = FALSE
INVARIANTS CoverAtQuiescence
CHECK_DEADLOCK FALSE
