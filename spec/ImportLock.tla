----------------------------- MODULE ImportLock -----------------------------
(***************************************************************************)
(* Design model of property C12: an import and the first writes on the      *)
(* same ledger exclude each other.  Grain of the code:                      *)
(*                                                                         *)
(*  Import   (system/state_tracker.go Import + controller importLog)        *)
(*    takes the SESSION advisory lock hashtext('ledger:<id>'), reads the    *)
(*    ledger row: refused unless state = 'initializing'; then replays the   *)
(*    logs, each in ITS OWN SQL transaction with its explicit id (a log id  *)
(*    that already exists makes that transaction fail and the import stops  *)
(*    there: what was imported stays); releases the lock.                   *)
(*  Writer   (handleState) whose controller still believes the ledger is    *)
(*    'initializing': BEGIN, takes the TRANSACTION-level advisory lock on   *)
(*    the same key, UPDATE ledgers SET state = 'in-use' WHERE state =       *)
(*    'initializing', performs the write (log id = next free id), COMMIT.   *)
(*    A controller that has seen 'in-use' writes without any lock.          *)
(*                                                                         *)
(* SameKey = FALSE models a change that makes the two paths lock different  *)
(* keys (seeded change C12/B); FlipsState = FALSE models a write path that  *)
(* does not go through handleState (seeded change C12/A: account metadata). *)
(***************************************************************************)
EXTENDS Integers, Sequences, FiniteSets, TLC

CONSTANTS Writers, NLogs, FirstId, SameKey, FlipsState

LastId == FirstId + NLogs - 1

VARIABLES state,     \* committed state of the ledger row: "initializing" | "in-use"
          logs,      \* committed logs, by id: id -> "imp" | writer
          lockS,     \* holder of the session-level lock on key K1 ("none" | "imp")
          lockX,     \* holders of transaction-level locks: writer -> key ("K1" | "K2" | "none")
          ipc, inext, ires,  \* import: program counter, next log to import, result
          wpc, wid, wflip, wres   \* writers: pc, id drawn for the log, whether its UPDATE flipped the state, result

vars == <<state, logs, lockS, lockX, ipc, inext, ires, wpc, wid, wflip, wres>>

WKey == IF SameKey THEN "K1" ELSE "K2"
HeldK1ByWriter == \E w \in Writers : lockX[w] = "K1"
MaxId == IF DOMAIN logs = {} THEN 0 ELSE CHOOSE i \in DOMAIN logs : \A j \in DOMAIN logs : j <= i

Init == /\ state = "initializing" /\ logs = <<>>
        /\ lockS = "none" /\ lockX = [w \in Writers |-> "none"]
        /\ ipc = "start" /\ inext = FirstId /\ ires = "none"
        /\ wpc = [w \in Writers |-> "start"] /\ wid = [w \in Writers |-> 0]
        /\ wflip = [w \in Writers |-> FALSE] /\ wres = [w \in Writers |-> "none"]

(* ---------------------------------------------------------------- import *)
ILock == /\ ipc = "start" /\ lockS = "none" /\ ~HeldK1ByWriter
         /\ lockS' = "imp" /\ ipc' = "check"
         /\ UNCHANGED <<state, logs, lockX, inext, ires, wpc, wid, wflip, wres>>

ICheck == /\ ipc = "check"
          /\ IF state = "initializing" /\ MaxId < FirstId   \* still initializing, and every existing log precedes the imported ones
             THEN ipc' = "replay" /\ UNCHANGED <<ires, lockS>>
             ELSE ipc' = "done" /\ ires' = "refused" /\ lockS' = "none"
          /\ UNCHANGED <<state, logs, lockX, inext, wpc, wid, wflip, wres>>

\* one log = one SQL transaction (insert with the explicit id, commit)
IReplay == /\ ipc = "replay" /\ inext <= LastId
           /\ IF inext \in DOMAIN logs
              THEN /\ ipc' = "done" /\ ires' = "failed" /\ lockS' = "none"   \* id already taken: stops, keeps what is in
                   /\ UNCHANGED <<logs, inext>>
              ELSE /\ logs' = [i \in DOMAIN logs \cup {inext} |-> IF i = inext THEN "imp" ELSE logs[i]]
                   /\ inext' = inext + 1
                   /\ UNCHANGED <<ipc, ires, lockS>>
           /\ UNCHANGED <<state, lockX, wpc, wid, wflip, wres>>

IEnd == /\ ipc = "replay" /\ inext > LastId
        /\ ipc' = "done" /\ ires' = "ok" /\ lockS' = "none"
        /\ UNCHANGED <<state, logs, lockX, inext, wpc, wid, wflip, wres>>

(* ---------------------------------------------------------------- writers (first write: the controller believes 'initializing') *)
WLock(w) == /\ wpc[w] = "start"
            /\ IF FlipsState
               THEN /\ (WKey = "K1" => lockS = "none" /\ \A v \in Writers \ {w} : lockX[v] # "K1")
                    /\ (WKey = "K2" => \A v \in Writers \ {w} : lockX[v] # "K2")
                    /\ lockX' = [lockX EXCEPT ![w] = WKey]
               ELSE UNCHANGED lockX      \* a write path that bypasses handleState takes no ledger lock
            /\ wpc' = [wpc EXCEPT ![w] = "flip"]
            /\ UNCHANGED <<state, logs, lockS, ipc, inext, ires, wid, wflip, wres>>

\* UPDATE ... SET state = 'in-use' WHERE state = 'initializing' (its effect is visible to others at commit)
WFlip(w) == /\ wpc[w] = "flip"
            /\ wflip' = [wflip EXCEPT ![w] = FlipsState /\ state = "initializing"]
            /\ wpc' = [wpc EXCEPT ![w] = "draw"]
            /\ UNCHANGED <<state, logs, lockS, lockX, ipc, inext, ires, wid, wres>>

\* the log id is drawn: after the resync of handleState it is max(id)+1 of what is committed now
WDraw(w) == /\ wpc[w] = "draw"
            /\ wid' = [wid EXCEPT ![w] = MaxId + 1]
            /\ wpc' = [wpc EXCEPT ![w] = "commit"]
            /\ UNCHANGED <<state, logs, lockS, lockX, ipc, inext, ires, wflip, wres>>

WCommit(w) == /\ wpc[w] = "commit"
              /\ IF wid[w] \in DOMAIN logs
                 THEN /\ wres' = [wres EXCEPT ![w] = "failed"]      \* unique violation on the log id: rolled back
                      /\ UNCHANGED <<logs, state>>
                 ELSE /\ logs' = [i \in DOMAIN logs \cup {wid[w]} |-> IF i = wid[w] THEN w ELSE logs[i]]
                      /\ state' = IF wflip[w] THEN "in-use" ELSE state
                      /\ wres' = [wres EXCEPT ![w] = "ok"]
              /\ lockX' = [lockX EXCEPT ![w] = "none"]
              /\ wpc' = [wpc EXCEPT ![w] = "done"]
              /\ UNCHANGED <<lockS, ipc, inext, ires, wid, wflip>>

Next == ILock \/ ICheck \/ IReplay \/ IEnd
        \/ \E w \in Writers : WLock(w) \/ WFlip(w) \/ WDraw(w) \/ WCommit(w)

Spec == Init /\ [][Next]_vars

(***************************************************************************)
(* Properties                                                              *)
(***************************************************************************)
Imported == {i \in DOMAIN logs : logs[i] = "imp"}
Written == {i \in DOMAIN logs : logs[i] # "imp"}
Quiescent == ipc = "done" /\ \A w \in Writers : wpc[w] = "done"

\* all or nothing: a refused or failed import leaves nothing behind, an accepted one everything
AllOrNothing == ipc = "done" => (IF ires = "ok" THEN Imported = FirstId..LastId ELSE Imported = {})

\* no interleaving: while or after logs are imported, no log of a writer sits at or below the last imported id
\* unless it was there before the import began (then the import must have been refused, see Serial)
NoInterleave == Imported # {} => \A j \in Written : j > LastId

\* every request gets a definite answer consistent with a serial order: either the import saw a ledger that had
\* accepted no write and the writes come after the whole import, or it is refused and leaves nothing
Serial == Quiescent =>
            \/ (ires = "ok" /\ Imported = FirstId..LastId /\ \A j \in Written : j > LastId)
            \/ (ires = "refused" /\ Imported = {})

\* once a write has been accepted, a later import cannot change the ledger
WriteThenNoImport == [][(\E w \in Writers : wres[w] = "ok") /\ ipc = "start" => Imported' = Imported]_vars
=============================================================================
