package pgmodel

import "strings"

// legacySkippable decides whether a statement of a migration script that the engine cannot execute
// (unsupported construct) may be treated as a no-op: it must be a data statement (SELECT / INSERT /
// UPDATE / DELETE / WITH / CREATE TABLE ... AS) and every identifier in it that names an existing table
// (in the session's search path or schema-qualified) must name an EMPTY table. On a bucket that has no
// rows yet such a statement cannot read or write anything, so skipping it is exact.
// For CREATE [TEMP] TABLE x AS <query> an empty, column-less table x is created.
func (c *execCtx) legacySkippable(sql string, err error) bool {
	pe, ok := err.(*PgErr)
	if !ok || pe.Code != "0A000" || !c.inScript {
		return false
	}
	toks, lerr := lex(sql)
	if lerr != nil || len(toks) < 2 {
		return false
	}
	first := toks[0]
	if first.kind != tIdent {
		return false
	}
	isCTAS := false
	ctasName := ""
	ctasTemp := false
	switch first.s {
	case "select", "insert", "update", "delete", "with":
	case "create":
		i := 1
		for i < len(toks) && toks[i].kind == tIdent && (toks[i].s == "temporary" || toks[i].s == "temp" || toks[i].s == "unlogged") {
			if toks[i].s != "unlogged" {
				ctasTemp = true
			}
			i++
		}
		if i >= len(toks) || toks[i].s != "table" {
			return false
		}
		i++
		if i+2 < len(toks) && toks[i].s == "if" {
			i += 3
		}
		if i >= len(toks) {
			return false
		}
		for i+2 < len(toks) && toks[i+1].kind == tOp && toks[i+1].s == "." {
			i += 2
		}
		ctasName = toks[i].s
		hasAs := false
		for _, t := range toks[i:] {
			if t.kind == tIdent && t.s == "as" {
				hasAs = true
			}
		}
		if !hasAs {
			return false
		}
		isCTAS = true
	default:
		return false
	}
	// every identifier naming an existing table must name an empty one
	for i, t := range toks {
		if t.kind != tIdent && t.kind != tQIdent {
			continue
		}
		if isCTAS && t.s == ctasName {
			continue
		}
		schema := ""
		if i >= 2 && toks[i-1].kind == tOp && toks[i-1].s == "." && (toks[i-2].kind == tIdent || toks[i-2].kind == tQIdent) {
			schema = toks[i-2].s
			if c.db.schemas[schema] == nil {
				schema = ""
			}
		}
		tb := c.db.findTable(c.sess, schema, t.s)
		if tb == nil {
			continue
		}
		if strings.HasPrefix(tb.Schema, "_system") && t.s == "ledgers" {
			// _system.ledgers filtered by bucket = current_schema: rows of other buckets do not matter, but be
			// strict anyway: require that no ledger lives in the current bucket
			cur := ""
			if c.sess != nil && len(c.sess.path) > 0 {
				cur = c.sess.path[0]
			}
			bi := tb.colIndex("bucket")
			for _, r := range tb.Rows {
				if (snapshot{txn: c.txn, cid: 1 << 30}).sees(r) && bi >= 0 && textOf(r.vals[bi]) == cur {
					return false
				}
			}
			continue
		}
		for _, r := range tb.Rows {
			if (snapshot{txn: c.txn, cid: 1 << 30}).sees(r) {
				return false
			}
		}
	}
	if isCTAS {
		var schema *Schema
		if ctasTemp {
			if c.sess == nil {
				return false
			}
			if c.sess.tempSchema == nil {
				c.sess.tempSchema = newSchema("pg_temp_" + textOf(bigFromInt(c.sess.id)))
				c.db.schemas[c.sess.tempSchema.Name] = c.sess.tempSchema
			}
			schema = c.sess.tempSchema
		} else {
			schema = c.defaultSchema()
		}
		if schema.Tables[ctasName] == nil {
			schema.Tables[ctasName] = &Table{Schema: schema.Name, Name: ctasName, Temp: ctasTemp}
		}
	}
	c.db.skipped = append(c.db.skipped, abbreviate(sql, 160))
	return true
}

// SkippedLegacy lists the migration statements skipped under the empty-tables rule.
func (db *DB) SkippedLegacy() []string {
	db.mu.Lock()
	defer db.mu.Unlock()
	return append([]string(nil), db.skipped...)
}
