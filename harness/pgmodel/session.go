package pgmodel

import (
	"context"
	"fmt"
	"strings"
	"sync"
)

type workerKey struct{}

// WithWorker tags a context with the logical client ("worker") issuing the statements; the gate and
// the fault injector identify clients by this name, not by connection.
func WithWorker(ctx context.Context, name string) context.Context {
	return context.WithValue(ctx, workerKey{}, name)
}

func workerOf(ctx context.Context) string {
	if ctx == nil {
		return ""
	}
	if v, ok := ctx.Value(workerKey{}).(string); ok {
		return v
	}
	return ""
}

type parsedCacheT struct {
	m map[string][]Stmt
}

var stmtCache = struct {
	m map[string][]parsedStmt
}{m: map[string][]parsedStmt{}}

var stmtCacheMu sync.Mutex

type parsedStmt struct {
	text   string
	st     Stmt
	perr   error // parse error, reported (or skipped under the legacy rule) when the statement runs
	script bool  // part of a multi-statement script
}

func (db *DB) parseScript(sql string) ([]parsedStmt, error) {
	// the cache is shared by every DB of the process
	stmtCacheMu.Lock()
	defer stmtCacheMu.Unlock()
	if ps, ok := stmtCache.m[sql]; ok {
		return ps, nil
	}
	texts, err := splitStatements(sql)
	if err != nil {
		return nil, err
	}
	var out []parsedStmt
	for _, t := range texts {
		st, err := parseStatement(t)
		if err != nil {
			if pe, ok := err.(*PgErr); ok {
				pe.Message += " [statement: " + abbreviate(t, 300) + "]"
			}
			if len(texts) == 1 {
				return nil, err
			}
			out = append(out, parsedStmt{text: t, perr: err, script: true})
			continue
		}
		out = append(out, parsedStmt{text: t, st: st, script: len(texts) > 1})
	}
	if len(stmtCache.m) > 20000 {
		stmtCache.m = map[string][]parsedStmt{}
	}
	stmtCache.m[sql] = out
	return out, nil
}

func abbreviate(s string, n int) string {
	s = strings.Join(strings.Fields(s), " ")
	if len(s) > n {
		return s[:n] + "…"
	}
	return s
}

// Exec runs a (possibly multi-statement) script and returns the result of the last statement.
func (s *Session) Exec(ctx context.Context, sql string) (*Result, error) {
	db := s.db
	worker := workerOf(ctx)
	db.mu.Lock()
	ps, err := db.parseScript(sql)
	s.worker = worker
	db.mu.Unlock()
	if err != nil {
		db.mu.Lock()
		db.recordUnsupported(err, sql)
		if s.txn != nil && !s.txn.implicit {
			s.txn.failed = true
		}
		db.mu.Unlock()
		return nil, err
	}
	if len(ps) == 0 {
		return &Result{}, nil
	}
	wrap := false
	if len(ps) > 1 {
		db.mu.Lock()
		if s.txn == nil {
			hasTx := false
			for _, p := range ps {
				if _, ok := p.st.(*TxStmt); ok {
					hasTx = true
				}
			}
			if !hasTx {
				db.beginTxn(s, false)
				wrap = true
			}
		}
		db.mu.Unlock()
	}
	var last *Result
	for _, p := range ps {
		res, err := s.runOne(ctx, worker, p)
		if err != nil {
			if wrap {
				db.mu.Lock()
				if s.txn != nil {
					db.endTxn(s.txn, false)
				}
				db.mu.Unlock()
			}
			return nil, err
		}
		last = res
	}
	if wrap {
		db.mu.Lock()
		if s.txn != nil {
			if err := db.commitLocked(s, worker); err != nil {
				db.mu.Unlock()
				return nil, err
			}
		}
		db.mu.Unlock()
	}
	return last, nil
}

func (db *DB) recordUnsupported(err error, sql string) {
	if pe, ok := err.(*PgErr); ok && pe.Code == "0A000" {
		msg := pe.Message + " :: " + abbreviate(sql, 200)
		if len(db.Unsupported) < 100 {
			db.Unsupported = append(db.Unsupported, msg)
		}
	}
}

// UnsupportedSeen lists the unsupported constructs met so far (a non-empty list makes a check INCONCLUSIVE).
func (db *DB) UnsupportedSeen() []string {
	db.mu.Lock()
	defer db.mu.Unlock()
	return append([]string(nil), db.Unsupported...)
}

func stmtKind(st Stmt) string {
	switch t := st.(type) {
	case *Select:
		return "select"
	case *Insert:
		return "insert"
	case *Update:
		return "update"
	case *Delete:
		return "delete"
	case *TxStmt:
		return t.Kind
	case *SetStmt:
		return "set"
	case *CallStmt:
		return "call"
	case *DoStmt:
		return "do"
	case *RawDDL:
		return "ddl"
	}
	return "other"
}

func (s *Session) runOne(ctx context.Context, worker string, p parsedStmt) (*Result, error) {
	db := s.db
	kind := stmtKind(p.st)
	for {
		if ctx != nil {
			if err := ctx.Err(); err != nil {
				return nil, err
			}
		}
		db.mu.Lock()
		g := db.gate
		db.mu.Unlock()
		if g != nil && worker != "" {
			g.Before(worker, s.id, p.text)
		}
		db.mu.Lock()
		res, err := s.runLocked(ctx, worker, kind, p)
		if w, ok := err.(*waitErr); ok {
			// deadlock?
			if db.checkDeadlock(s, w.on) {
				err = &PgErr{Code: "40P01", Message: "deadlock detected"}
				s.failStatement()
				db.finishStmt(s, worker, kind, p.text, err)
				db.mu.Unlock()
				return nil, err
			}
			if worker != "" && w.on.worker == worker {
				// the same logical client blocks on its own other connection: Postgres would hang forever
				err = &PgErr{Code: "57014", Message: "pgmodel: self-deadlock: statement blocks on a lock held by another connection of the same client (" + w.what + ")"}
				s.failStatement()
				db.finishStmt(s, worker, kind, p.text, err)
				db.mu.Unlock()
				return nil, err
			}
			s.waitingOn = w.on
			w.txnID() // remember which transaction of the holder blocks us, now, under the mutex
			if worker != "" {
				db.waiting[worker] = w
			}
			stop := make(chan struct{})
			if ctx != nil && ctx.Done() != nil {
				go func() {
					select {
					case <-ctx.Done():
						db.mu.Lock()
						db.cond.Broadcast()
						db.mu.Unlock()
					case <-stop:
					}
				}()
			}
			if g != nil && worker != "" {
				db.mu.Unlock()
				g.Blocked(worker, s.id, w.on.id)
				db.mu.Lock()
			}
			for db.stillBlocked(w) && (ctx == nil || ctx.Err() == nil) {
				db.cond.Wait()
			}
			close(stop)
			s.waitingOn = nil
			delete(db.waiting, worker)
			db.mu.Unlock()
			if g != nil && worker != "" {
				g.Unblocked(worker, s.id)
			}
			continue
		}
		db.finishStmt(s, worker, kind, p.text, err)
		db.mu.Unlock()
		return res, err
	}
}

// stillBlocked: the session we wait on still has the transaction / lock that blocked us.
func (db *DB) stillBlocked(w *waitErr) bool {
	on := w.on
	if on.closed {
		return false
	}
	if strings.HasPrefix(w.what, "advisory lock") {
		var key int64
		fmt.Sscanf(w.what, "advisory lock %d", &key)
		l := db.advisory[key]
		if (l != nil && l.sess == on) || db.advShared[key][on] != nil {
			return true
		}
		if w.waiter != nil {
			// the holder is gone: still blocked if somebody else took the lock meanwhile or queues ahead of us
			if l != nil && l.sess != w.waiter && !l.sess.closed {
				return true
			}
			return db.advAhead(w.waiter, key) != nil
		}
		return false
	}
	return on.txn != nil && on.txn.state == txActive && on.txn.id == w.txnID()
}

// WillStayBlocked reports whether the statement of `worker`, parked on a lock, is still blocked now
// (used by schedulers to know which parked workers are about to come back to the gate).
func (db *DB) WillStayBlocked(worker string) bool {
	db.mu.Lock()
	defer db.mu.Unlock()
	w := db.waiting[worker]
	if w == nil {
		return false
	}
	return db.stillBlocked(w)
}

func (w *waitErr) txnID() int64 {
	if w.on.txn != nil && w.blockTxn == 0 {
		w.blockTxn = w.on.txn.id
	}
	return w.blockTxn
}

func (db *DB) finishStmt(s *Session, worker, kind, sql string, err error) {
	db.StmtN++
	if len(s.advWait) > 0 {
		db.advLeaveQueues(s)
	}
	if err != nil {
		db.recordUnsupported(err, sql)
	}
	if db.Observer != nil {
		ev := StmtEvent{N: db.StmtN, Sess: s.id, Worker: worker, Kind: kind, SQL: sql}
		if err != nil {
			ev.Err = err.Error()
		}
		db.Observer(ev)
	}
}

// failStatement applies error semantics after a failed statement: an autocommit transaction is rolled
// back, an explicit one enters the aborted state.
func (s *Session) failStatement() {
	if s.txn == nil {
		return
	}
	if s.txn.implicit {
		s.db.endTxn(s.txn, false)
	} else {
		s.txn.failed = true
	}
}

func (db *DB) commitLocked(s *Session, worker string) error {
	t := s.txn
	if t == nil {
		return nil
	}
	if t.failed {
		db.endTxn(t, false)
		return nil
	}
	if db.Fault != nil {
		if ferr := db.Fault(s.id, worker, db.StmtN+1, "commit", "COMMIT"); ferr != nil {
			db.endTxn(t, false)
			return ferr
		}
	}
	db.endTxn(t, true)
	return nil
}

func (s *Session) runLocked(ctx context.Context, worker, kind string, p parsedStmt) (res *Result, err error) {
	db := s.db
	// transaction control
	if tx, ok := p.st.(*TxStmt); ok {
		switch tx.Kind {
		case "begin":
			if s.txn == nil {
				db.beginTxn(s, false)
			}
			return &Result{Tag: "BEGIN"}, nil
		case "commit":
			if s.txn == nil {
				return &Result{Tag: "COMMIT"}, nil
			}
			failed := s.txn.failed
			if err := db.commitLocked(s, worker); err != nil {
				return nil, err
			}
			if failed {
				return &Result{Tag: "ROLLBACK"}, nil
			}
			return &Result{Tag: "COMMIT"}, nil
		case "rollback":
			if s.txn != nil {
				db.endTxn(s.txn, false)
			}
			return &Result{Tag: "ROLLBACK"}, nil
		case "savepoint":
			if s.txn == nil {
				return nil, errf("25P01", "SAVEPOINT can only be used in transaction blocks")
			}
			if s.txn.failed {
				return nil, errf("25P02", "current transaction is aborted, commands ignored until end of transaction block")
			}
			s.txn.saves = append(s.txn.saves, savept{name: tx.Name, nx: len(s.txn.xacts)})
			return &Result{Tag: "SAVEPOINT"}, nil
		case "release":
			if s.txn == nil {
				return nil, errf("25P01", "RELEASE SAVEPOINT can only be used in transaction blocks")
			}
			if s.txn.failed {
				return nil, errf("25P02", "current transaction is aborted, commands ignored until end of transaction block")
			}
			for i := len(s.txn.saves) - 1; i >= 0; i-- {
				if s.txn.saves[i].name == tx.Name {
					s.txn.saves = s.txn.saves[:i]
					return &Result{Tag: "RELEASE"}, nil
				}
			}
			return nil, errf("3B001", "savepoint %q does not exist", tx.Name)
		case "rollback_to":
			if s.txn == nil {
				return nil, errf("25P01", "ROLLBACK TO SAVEPOINT can only be used in transaction blocks")
			}
			for i := len(s.txn.saves) - 1; i >= 0; i-- {
				if s.txn.saves[i].name == tx.Name {
					sp := s.txn.saves[i]
					db.abortXacts(s.txn, sp.nx)
					s.txn.saves = s.txn.saves[:i+1]
					s.txn.failed = false
					return &Result{Tag: "ROLLBACK"}, nil
				}
			}
			return nil, errf("3B001", "savepoint %q does not exist", tx.Name)
		}
	}
	if s.txn != nil && s.txn.failed {
		return nil, errf("25P02", "current transaction is aborted, commands ignored until end of transaction block")
	}
	if db.Fault != nil {
		if ferr := db.Fault(s.id, worker, db.StmtN+1, kind, p.text); ferr != nil {
			if s.txn != nil {
				s.failStatement()
			}
			return nil, ferr
		}
	}
	implicit := false
	if s.txn == nil {
		db.beginTxn(s, true)
		implicit = true
	}
	t := s.txn
	from := len(t.xacts)
	x := t.newXact()
	t.cid++
	c := &execCtx{db: db, sess: s, txn: t, snap: t.snapAt(t.cid), wx: x}

	defer func() {
		if r := recover(); r != nil {
			if pe, ok := r.(*PgErr); ok {
				err = pe
			} else {
				err = &PgErr{Code: "XX000", Message: fmt.Sprintf("pgmodel internal error: %v", r)}
			}
			res = nil
			db.abortXacts(t, from)
			s.failStatement()
		}
	}()

	c.inScript = p.script
	if p.perr != nil {
		res, err = nil, p.perr
	} else {
		res, err = c.execTop(p.st)
	}
	if err != nil && c.legacySkippable(p.text, err) {
		res, err = &Result{Tag: "SKIPPED"}, nil
	}
	if err != nil {
		if _, isWait := err.(*waitErr); isWait {
			db.abortXacts(t, from)
			if implicit {
				db.endTxn(t, false)
			}
			return nil, err
		}
		db.abortXacts(t, from)
		s.failStatement()
		return nil, err
	}
	if implicit {
		// commit of an autocommit statement
		if cerr := db.commitLocked(s, worker); cerr != nil {
			return nil, cerr
		}
	}
	return res, nil
}

func (c *execCtx) execTop(st Stmt) (*Result, error) {
	switch q := st.(type) {
	case *Select:
		return c.runSelect(q, nil)
	case *Insert:
		return c.runInsert(q, nil)
	case *Update:
		return c.runUpdate(q, nil)
	case *Delete:
		return c.runDelete(q, nil)
	case *SetStmt:
		return &Result{Tag: "SET"}, c.execSet(q)
	case *CallStmt:
		return c.execCall(q)
	case *DoStmt:
		return &Result{Tag: "DO"}, c.execDo(q)
	case *RawDDL:
		return &Result{Tag: "DDL"}, c.execDDL(q)
	}
	return nil, unsupported("statement %T", st)
}
