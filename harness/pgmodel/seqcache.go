package pgmodel

import "math/big"

// CACHE n of a sequence (CREATE / ALTER SEQUENCE ... CACHE n): every session reserves n consecutive values at
// once and hands them out locally; values reserved by a session that goes away, or superseded by setval in
// another session, are lost. With n > 1 the values drawn by different sessions are NOT in time order - which is
// exactly what a caller relying on "ids increase in commit order" must not be exposed to.

type seqRange struct {
	next, end *big.Int // next value to hand out, last value of the reserved block
}

// nextvalFor draws the next value of q for session s.
func (q *Sequence) nextvalFor(s *Session) *big.Int {
	if q.Cache <= 1 || s == nil {
		return q.nextval()
	}
	if q.reserved == nil {
		q.reserved = map[*Session]*seqRange{}
	}
	for k := range q.reserved {
		if k.closed {
			delete(q.reserved, k)
		}
	}
	if r := q.reserved[s]; r != nil && r.next.Cmp(r.end) <= 0 {
		v := new(big.Int).Set(r.next)
		r.next = new(big.Int).Add(r.next, big.NewInt(1))
		return v
	}
	first := q.nextval()
	end := new(big.Int).Add(first, big.NewInt(int64(q.Cache-1)))
	q.Last = new(big.Int).Set(end)
	q.reserved[s] = &seqRange{next: new(big.Int).Add(first, big.NewInt(1)), end: end}
	return first
}

// dropReservations: setval / restart discard what sessions had reserved (PostgreSQL: the caller's cache is reset;
// other sessions keep theirs until exhausted - modelled conservatively as reset for everybody).
func (q *Sequence) dropReservations() { q.reserved = nil }
