package pgmodel

import (
	"math/big"
	"regexp"
	"strings"
	"time"
)

// findCol resolves a column reference in this env (not parents). Returns (value, type, found).
func (e *env) findCol(cr *ColRef) (Value, string, bool) {
	if e.fr == nil {
		return nil, "", false
	}
	var hit *relSchema
	hitIdx := -1
	n := 0
	for _, r := range e.fr.rels {
		if cr.Table != "" && r.alias != cr.Table {
			continue
		}
		for i, cn := range r.cols {
			if cn == cr.Name {
				if hit == nil || hit != r {
					n++
				}
				hit, hitIdx = r, i
				break
			}
		}
	}
	if n == 0 {
		return nil, "", false
	}
	if n > 1 {
		return nil, "\x00ambiguous", true
	}
	ty := ""
	if hit.types != nil {
		ty = hit.types[hitIdx]
	}
	return e.tup.vals[hit.off+hitIdx], ty, true
}

func (e *env) resolve(cr *ColRef) (Value, error) {
	for cur := e; cur != nil; cur = cur.parent {
		v, ty, ok := cur.findCol(cr)
		if ok {
			if ty == "\x00ambiguous" {
				return nil, errf("42702", "column reference %q is ambiguous", cr.Name)
			}
			return v, nil
		}
		// whole-row reference / composite-valued relation alias: alias.field handled above; alias alone:
		if cr.Table == "" && cur.fr != nil {
			for _, r := range cur.fr.rels {
				if r.alias == cr.Name && r.alias != "" {
					rec := &Record{Names: append([]string(nil), r.cols...), Fields: append([]Value(nil), cur.tup.vals[r.off:r.off+len(r.cols)]...)}
					if r.table != nil {
						rec.Type = r.table.Name
					}
					return rec, nil
				}
			}
		}
	}
	// PL/pgSQL variables and function parameters
	if vars := e.ctx.vars; vars != nil {
		if cr.Table == "" {
			if p, ok := vars.lookup(cr.Name); ok {
				return *p, nil
			}
		} else {
			if p, ok := vars.lookup(cr.Table); ok {
				switch rec := (*p).(type) {
				case *Record:
					if v, ok := rec.Get(cr.Name); ok {
						return v, nil
					}
					return nil, errf("42703", "record %q has no field %q", cr.Table, cr.Name)
				case nil:
					return nil, nil
				}
			}
		}
	}
	if cr.Table != "" {
		return nil, errf("42703", "column %s.%s does not exist", cr.Table, cr.Name)
	}
	return nil, errf("42703", "column %q does not exist", cr.Name)
}

func truth(v Value) (bool, bool) { // (value, isNull)
	if v == nil {
		return false, true
	}
	b, ok := v.(bool)
	if !ok {
		return false, true
	}
	return b, false
}

func (e *env) eval(x Expr) (Value, error) {
	switch t := x.(type) {
	case nil:
		return nil, nil
	case *parenExpr:
		return e.eval(t.X)
	case *Lit:
		return t.V, nil
	case *Param:
		if t.N >= 1 && t.N <= len(e.ctx.args) {
			return e.ctx.args[t.N-1], nil
		}
		return nil, errf("42P02", "there is no parameter $%d", t.N)
	case *ColRef:
		return e.resolve(t)
	case *Star:
		return nil, unsupported("* in expression context")
	case *Unary:
		v, err := e.eval(t.X)
		if err != nil {
			return nil, err
		}
		switch t.Op {
		case "not":
			b, null := truth(v)
			if null {
				if v != nil {
					return nil, errf("42804", "argument of NOT must be type boolean")
				}
				return nil, nil
			}
			return !b, nil
		case "-":
			if v == nil {
				return nil, nil
			}
			if s, ok := v.(string); ok {
				n, err := parseInt(s)
				if err != nil {
					return nil, err
				}
				v = n
			}
			n, ok := v.(*big.Int)
			if !ok {
				return nil, errf("42883", "operator does not exist: - %T", v)
			}
			return new(big.Int).Neg(n), nil
		}
		return nil, unsupported("unary %s", t.Op)
	case *Binary:
		return e.evalBinary(t)
	case *IsNull:
		v, err := e.eval(t.X)
		if err != nil {
			return nil, err
		}
		isNull := v == nil
		if rec, ok := v.(*Record); ok {
			// row IS NULL: all fields null; row IS NOT NULL: all fields non-null
			all, none := true, true
			for _, f := range rec.Fields {
				if f == nil {
					none = false
				} else {
					all = false
				}
			}
			if t.Not {
				return none, nil
			}
			return all, nil
		}
		return isNull != t.Not, nil
	case *IsBool:
		v, err := e.eval(t.X)
		if err != nil {
			return nil, err
		}
		b, null := truth(v)
		res := !null && b == t.Val
		return res != t.Not, nil
	case *IsDistinct:
		l, err := e.eval(t.L)
		if err != nil {
			return nil, err
		}
		r, err := e.eval(t.R)
		if err != nil {
			return nil, err
		}
		var distinct bool
		if l == nil || r == nil {
			distinct = !(l == nil && r == nil)
		} else {
			l, r, err = e.ctx.db.coercePair(l, r)
			if err != nil {
				return nil, err
			}
			c, err := compareValues(l, r)
			if err != nil {
				return nil, err
			}
			distinct = c != 0
		}
		return distinct != t.Not, nil
	case *InList:
		v, err := e.eval(t.X)
		if err != nil {
			return nil, err
		}
		vals := make([]Value, len(t.List))
		for i, it := range t.List {
			if vals[i], err = e.eval(it); err != nil {
				return nil, err
			}
		}
		return e.inValues(v, vals, t.Not)
	case *InSub:
		v, err := e.eval(t.X)
		if err != nil {
			return nil, err
		}
		res, err := e.ctx.runSelect(t.Sub, e)
		if err != nil {
			return nil, err
		}
		if len(res.Cols) != 1 {
			return nil, errf("42601", "subquery has too many columns")
		}
		vals := make([]Value, len(res.Rows))
		for i, r := range res.Rows {
			vals[i] = r[0]
		}
		return e.inValues(v, vals, t.Not)
	case *AnyAll:
		v, err := e.eval(t.X)
		if err != nil {
			return nil, err
		}
		var vals []Value
		if t.Sub != nil {
			res, err := e.ctx.runSelect(t.Sub, e)
			if err != nil {
				return nil, err
			}
			for _, r := range res.Rows {
				vals = append(vals, r[0])
			}
		} else {
			av, err := e.eval(t.Arr)
			if err != nil {
				return nil, err
			}
			if av == nil {
				return nil, nil
			}
			if s, ok := av.(string); ok {
				a, err := parseArrayLiteral(s)
				if err != nil {
					return nil, err
				}
				av = a
			}
			arr, ok := av.(*Array)
			if !ok {
				return nil, errf("42809", "op ANY/ALL (array) requires array on right side")
			}
			vals = arr.Elems
		}
		sawNull := false
		for _, w := range vals {
			r, err := e.compareOp(t.Op, v, w)
			if err != nil {
				return nil, err
			}
			b, null := truth(r)
			if null {
				sawNull = true
				continue
			}
			if t.All && !b {
				return false, nil
			}
			if !t.All && b {
				return true, nil
			}
		}
		if sawNull {
			return nil, nil
		}
		return t.All, nil
	case *Exists:
		res, err := e.ctx.runSelect(t.Sub, e)
		if err != nil {
			return nil, err
		}
		return len(res.Rows) > 0, nil
	case *Subquery:
		res, err := e.ctx.runSelect(t.Sub, e)
		if err != nil {
			return nil, err
		}
		if len(res.Rows) == 0 {
			return nil, nil
		}
		if len(res.Rows) > 1 {
			return nil, errf("21000", "more than one row returned by a subquery used as an expression")
		}
		if len(res.Cols) == 1 {
			return res.Rows[0][0], nil
		}
		return &Record{Names: res.Cols, Fields: res.Rows[0]}, nil
	case *ArraySub:
		res, err := e.ctx.runSelect(t.Sub, e)
		if err != nil {
			return nil, err
		}
		a := &Array{}
		for _, r := range res.Rows {
			a.Elems = append(a.Elems, r[0])
		}
		return a, nil
	case *Case:
		var op Value
		var err error
		if t.Operand != nil {
			if op, err = e.eval(t.Operand); err != nil {
				return nil, err
			}
		}
		for _, w := range t.Whens {
			cv, err := e.eval(w.Cond)
			if err != nil {
				return nil, err
			}
			if t.Operand != nil {
				r, err := e.compareOp("=", op, cv)
				if err != nil {
					return nil, err
				}
				cv = r
			}
			if b, null := truth(cv); !null && b {
				return e.eval(w.Result)
			}
		}
		if t.Else != nil {
			return e.eval(t.Else)
		}
		return nil, nil
	case *Cast:
		v, err := e.eval(t.X)
		if err != nil {
			return nil, err
		}
		return e.ctx.db.castTo(v, t.Type)
	case *FuncCall:
		return e.evalFunc(t)
	case *RowExpr:
		r := &Record{Names: make([]string, len(t.Fields)), Fields: make([]Value, len(t.Fields))}
		for i, f := range t.Fields {
			v, err := e.eval(f)
			if err != nil {
				return nil, err
			}
			r.Fields[i] = v
		}
		return r, nil
	case *ArrayExpr:
		a := &Array{Elems: make([]Value, len(t.Elems))}
		for i, f := range t.Elems {
			v, err := e.eval(f)
			if err != nil {
				return nil, err
			}
			a.Elems[i] = v
		}
		return a, nil
	case *FieldSel:
		v, err := e.eval(t.X)
		if err != nil {
			return nil, err
		}
		if v == nil {
			return nil, nil
		}
		if s, ok := v.(string); ok {
			r, err := parseRecordLiteral(s)
			if err != nil {
				return nil, err
			}
			v = r
		}
		rec, ok := v.(*Record)
		if !ok {
			return nil, errf("42809", "column notation .%s applied to type %T, which is not a composite type", t.Field, v)
		}
		if fv, ok := rec.Get(t.Field); ok {
			return fv, nil
		}
		// untyped record: resolve via a known composite type with this field and the same arity
		if rec.Type == "" {
			for _, sc := range e.ctx.db.schemas {
				for _, td := range sc.Types {
					if len(td.Fields) == len(rec.Fields) {
						for i, f := range td.Fields {
							if f.Name == t.Field {
								return rec.Fields[i], nil
							}
						}
					}
				}
			}
		}
		return nil, errf("42703", "column %q not found in data type %s", t.Field, rec.Type)
	case *Subscript:
		return e.evalSubscript(t)
	case *Between:
		v, err := e.eval(t.X)
		if err != nil {
			return nil, err
		}
		lo, err := e.eval(t.Lo)
		if err != nil {
			return nil, err
		}
		hi, err := e.eval(t.Hi)
		if err != nil {
			return nil, err
		}
		a, err := e.compareOp(">=", v, lo)
		if err != nil {
			return nil, err
		}
		b, err := e.compareOp("<=", v, hi)
		if err != nil {
			return nil, err
		}
		r := and3(a, b)
		if t.Not {
			return not3(r), nil
		}
		return r, nil
	case *Like:
		v, err := e.eval(t.X)
		if err != nil {
			return nil, err
		}
		p, err := e.eval(t.Pattern)
		if err != nil {
			return nil, err
		}
		if v == nil || p == nil {
			return nil, nil
		}
		m, err := likeMatch(textOf(v), textOf(p), t.ILike)
		if err != nil {
			return nil, err
		}
		return m != t.Not, nil
	case *AtTimeZone:
		v, err := e.eval(t.X)
		if err != nil {
			return nil, err
		}
		z, err := e.eval(t.Zone)
		if err != nil {
			return nil, err
		}
		if v == nil {
			return nil, nil
		}
		if zs, ok := z.(string); !ok || !strings.EqualFold(zs, "utc") {
			return nil, unsupported("AT TIME ZONE %v (the model runs with TimeZone=UTC only)", z)
		}
		if s, ok := v.(string); ok {
			return parseTimestamp(s)
		}
		return v, nil
	}
	return nil, unsupported("expression %T", x)
}

func and3(a, b Value) Value {
	ab, an := truth(a)
	bb, bn := truth(b)
	if (!an && !ab) || (!bn && !bb) {
		return false
	}
	if an || bn {
		return nil
	}
	return true
}

func or3(a, b Value) Value {
	ab, an := truth(a)
	bb, bn := truth(b)
	if (!an && ab) || (!bn && bb) {
		return true
	}
	if an || bn {
		return nil
	}
	return false
}

func not3(a Value) Value {
	b, n := truth(a)
	if n {
		return nil
	}
	return !b
}

func (e *env) inValues(v Value, vals []Value, not bool) (Value, error) {
	if v == nil {
		if len(vals) == 0 {
			return not, nil
		}
		return nil, nil
	}
	sawNull := false
	for _, w := range vals {
		if w == nil {
			sawNull = true
			continue
		}
		r, err := e.compareOp("=", v, w)
		if err != nil {
			return nil, err
		}
		if b, null := truth(r); !null && b {
			return !not, nil
		}
	}
	if sawNull {
		return nil, nil
	}
	return not, nil
}

func (e *env) compareOp(op string, l, r Value) (Value, error) {
	if l == nil || r == nil {
		return nil, nil
	}
	l, r, err := e.ctx.db.coercePair(l, r)
	if err != nil {
		return nil, err
	}
	// record comparison with NULL fields follows SQL row-comparison rules only for =; keep simple
	c, err := compareValues(l, r)
	if err != nil {
		return nil, err
	}
	switch op {
	case "=":
		return c == 0, nil
	case "<>":
		return c != 0, nil
	case "<":
		return c < 0, nil
	case "<=":
		return c <= 0, nil
	case ">":
		return c > 0, nil
	case ">=":
		return c >= 0, nil
	}
	return nil, unsupported("comparison %s", op)
}

func (e *env) evalBinary(t *Binary) (Value, error) {
	switch t.Op {
	case "and":
		l, err := e.eval(t.L)
		if err != nil {
			return nil, err
		}
		if b, null := truth(l); !null && !b {
			return false, nil
		}
		r, err := e.eval(t.R)
		if err != nil {
			return nil, err
		}
		return and3(l, r), nil
	case "or":
		l, err := e.eval(t.L)
		if err != nil {
			return nil, err
		}
		if b, null := truth(l); !null && b {
			return true, nil
		}
		r, err := e.eval(t.R)
		if err != nil {
			return nil, err
		}
		return or3(l, r), nil
	}
	l, err := e.eval(t.L)
	if err != nil {
		return nil, err
	}
	r, err := e.eval(t.R)
	if err != nil {
		return nil, err
	}
	switch t.Op {
	case "=", "<>", "<", "<=", ">", ">=":
		return e.compareOp(t.Op, l, r)
	}
	if l == nil || r == nil {
		return nil, nil
	}
	db := e.ctx.db
	switch t.Op {
	case "+", "-", "*", "/", "%":
		// jsonb - text (key deletion)
		if j, ok := l.(JSON); ok && t.Op == "-" {
			switch k := r.(type) {
			case string:
				return jsonDeleteKey(j, k), nil
			case *big.Int:
				if arr, ok := j.V.([]any); ok {
					i := int(k.Int64())
					if i < 0 {
						i += len(arr)
					}
					if i < 0 || i >= len(arr) {
						return j, nil
					}
					out := append(append([]any(nil), arr[:i]...), arr[i+1:]...)
					return JSON{V: out}, nil
				}
				return nil, errf("22023", "cannot delete from object using integer index")
			case *Array:
				out := j
				for _, el := range k.Elems {
					if s, ok := el.(string); ok {
						out = jsonDeleteKey(out, s)
					}
				}
				return out, nil
			}
			return nil, errf("42883", "operator does not exist: jsonb - %T", r)
		}
		var a, b *big.Int
		if a, err = toInt(l); err != nil {
			return nil, err
		}
		if b, err = toInt(r); err != nil {
			return nil, err
		}
		switch t.Op {
		case "+":
			return new(big.Int).Add(a, b), nil
		case "-":
			return new(big.Int).Sub(a, b), nil
		case "*":
			return new(big.Int).Mul(a, b), nil
		case "/":
			if b.Sign() == 0 {
				return nil, errf("22012", "division by zero")
			}
			q := new(big.Int).Quo(a, b)
			if new(big.Int).Mul(q, b).Cmp(a) != 0 {
				return nil, unsupported("non-integral division %s/%s (integral numerics only)", a, b)
			}
			return q, nil
		case "%":
			if b.Sign() == 0 {
				return nil, errf("22012", "division by zero")
			}
			return new(big.Int).Rem(a, b), nil
		}
	case "||":
		switch x := l.(type) {
		case JSON:
			y, err := db.castTo(r, "jsonb")
			if err != nil {
				return nil, err
			}
			return jsonConcat(x, y.(JSON)), nil
		case []byte:
			switch y := r.(type) {
			case []byte:
				return append(append([]byte(nil), x...), y...), nil
			case string:
				// unknown literal coerced to bytea
				b, err := parseBytea(y)
				if err != nil {
					return nil, err
				}
				return append(append([]byte(nil), x...), b...), nil
			}
		case *Array:
			switch y := r.(type) {
			case *Array:
				return &Array{Elems: append(append([]Value(nil), x.Elems...), y.Elems...)}, nil
			default:
				return &Array{Elems: append(append([]Value(nil), x.Elems...), y)}, nil
			}
		}
		if y, ok := r.(JSON); ok {
			if s, ok := l.(string); ok {
				x, err := parseJSON(s)
				if err != nil {
					return nil, err
				}
				return jsonConcat(x, y), nil
			}
		}
		if y, ok := r.([]byte); ok {
			if s, ok := l.(string); ok {
				b, err := parseBytea(s)
				if err != nil {
					return nil, err
				}
				return append(b, y...), nil
			}
		}
		return textOf(l) + textOf(r), nil
	case "->", "->>":
		j, err := db.castTo(l, "jsonb")
		if err != nil {
			return nil, err
		}
		var got any
		found := false
		switch k := r.(type) {
		case string:
			if m, ok := j.(JSON).V.(map[string]any); ok {
				got, found = m[k]
			}
		case *big.Int:
			if a, ok := j.(JSON).V.([]any); ok {
				i := int(k.Int64())
				if i < 0 {
					i += len(a)
				}
				if i >= 0 && i < len(a) {
					got, found = a[i], true
				}
			}
		default:
			return nil, errf("42883", "operator does not exist: jsonb %s %T", t.Op, r)
		}
		if !found {
			return nil, nil
		}
		if t.Op == "->" {
			return JSON{V: got}, nil
		}
		if got == nil {
			return nil, nil
		}
		return jsonScalarText(got), nil
	case "#>", "#>>":
		j, err := db.castTo(l, "jsonb")
		if err != nil {
			return nil, err
		}
		pathV := r
		if s, ok := pathV.(string); ok {
			a, err := parseArrayLiteral(s)
			if err != nil {
				return nil, err
			}
			pathV = a
		}
		arr, ok := pathV.(*Array)
		if !ok {
			return nil, errf("42883", "operator does not exist: jsonb %s %T", t.Op, r)
		}
		cur := j.(JSON).V
		for _, p := range arr.Elems {
			ps := textOf(p)
			switch c := cur.(type) {
			case map[string]any:
				n, ok := c[ps]
				if !ok {
					return nil, nil
				}
				cur = n
			case []any:
				i, err := parseInt(ps)
				if err != nil {
					return nil, nil
				}
				k := int(i.Int64())
				if k < 0 {
					k += len(c)
				}
				if k < 0 || k >= len(c) {
					return nil, nil
				}
				cur = c[k]
			default:
				return nil, nil
			}
		}
		if t.Op == "#>" {
			return JSON{V: cur}, nil
		}
		if cur == nil {
			return nil, nil
		}
		return jsonScalarText(cur), nil
	case "@>", "<@":
		if t.Op == "<@" {
			l, r = r, l
		}
		if la, ok := l.(*Array); ok {
			ra, err := db.castTo(r, "text[]")
			if err != nil {
				return nil, err
			}
			for _, x := range ra.(*Array).Elems {
				found := false
				for _, y := range la.Elems {
					if keyOf(x) == keyOf(y) {
						found = true
						break
					}
				}
				if !found {
					return false, nil
				}
			}
			return true, nil
		}
		a, err := db.castTo(l, "jsonb")
		if err != nil {
			return nil, err
		}
		b, err := db.castTo(r, "jsonb")
		if err != nil {
			return nil, err
		}
		return jsonContains(a.(JSON).V, b.(JSON).V, true), nil
	case "?", "?|", "?&":
		a, err := db.castTo(l, "jsonb")
		if err != nil {
			return nil, err
		}
		exists := func(k string) bool {
			switch c := a.(JSON).V.(type) {
			case map[string]any:
				_, ok := c[k]
				return ok
			case []any:
				for _, el := range c {
					if s, ok := el.(string); ok && s == k {
						return true
					}
				}
			case string:
				return c == k
			}
			return false
		}
		if t.Op == "?" {
			return exists(textOf(r)), nil
		}
		if s, ok := r.(string); ok {
			ar, err := parseArrayLiteral(s)
			if err != nil {
				return nil, err
			}
			r = ar
		}
		arr, ok := r.(*Array)
		if !ok {
			return nil, errf("42883", "operator does not exist: jsonb %s %T", t.Op, r)
		}
		for _, k := range arr.Elems {
			if k == nil {
				continue
			}
			ex := exists(textOf(k))
			if t.Op == "?|" && ex {
				return true, nil
			}
			if t.Op == "?&" && !ex {
				return false, nil
			}
		}
		return t.Op == "?&", nil
	case "@@":
		a, err := db.castTo(l, "jsonb")
		if err != nil {
			return nil, err
		}
		return jsonPathMatch(a.(JSON).V, textOf(r))
	case "~":
		re, err := regexp.Compile(textOf(r))
		if err != nil {
			return nil, errf("2201B", "invalid regular expression: %v", err)
		}
		return re.MatchString(textOf(l)), nil
	}
	return nil, unsupported("operator %s", t.Op)
}

func toInt(v Value) (*big.Int, error) {
	switch t := v.(type) {
	case *big.Int:
		return t, nil
	case string:
		return parseInt(t)
	}
	return nil, errf("42883", "operator does not exist: arithmetic on %T", v)
}

func jsonDeleteKey(j JSON, k string) JSON {
	switch c := j.V.(type) {
	case map[string]any:
		out := make(map[string]any, len(c))
		for kk, vv := range c {
			if kk != k {
				out[kk] = vv
			}
		}
		return JSON{V: out}
	case []any:
		var out []any
		for _, el := range c {
			if s, ok := el.(string); ok && s == k {
				continue
			}
			out = append(out, el)
		}
		if out == nil {
			out = []any{}
		}
		return JSON{V: out}
	}
	return j
}

// jsonConcat implements jsonb || jsonb.
func jsonConcat(a, b JSON) JSON {
	am, aIsObj := a.V.(map[string]any)
	bm, bIsObj := b.V.(map[string]any)
	if aIsObj && bIsObj {
		out := make(map[string]any, len(am)+len(bm))
		for k, v := range am {
			out[k] = v
		}
		for k, v := range bm {
			out[k] = v
		}
		return JSON{V: out}
	}
	toArr := func(v any) []any {
		if arr, ok := v.([]any); ok {
			return arr
		}
		return []any{v}
	}
	return JSON{V: append(append([]any(nil), toArr(a.V)...), toArr(b.V)...)}
}

var jsonPathRe = regexp.MustCompile(`^\s*\$\[(\d+)\]\s*==\s*"((?:[^"\\]|\\.)*)"\s*$`)

// jsonPathMatch supports exactly the jsonpath predicate shape the repository emits:
// `$[i] == "literal"` (lax mode: a missing element makes the predicate unknown -> NULL).
func jsonPathMatch(doc any, path string) (Value, error) {
	m := jsonPathRe.FindStringSubmatch(path)
	if m == nil {
		return nil, unsupported("jsonpath %q", path)
	}
	idx, _ := parseInt(m[1])
	lit := m[2]
	var sb strings.Builder
	for i := 0; i < len(lit); i++ {
		if lit[i] == '\\' && i+1 < len(lit) {
			i++
			switch lit[i] {
			case 'n':
				sb.WriteByte('\n')
			case 't':
				sb.WriteByte('\t')
			case 'r':
				sb.WriteByte('\r')
			case 'b':
				sb.WriteByte('\b')
			case 'f':
				sb.WriteByte('\f')
			default:
				sb.WriteByte(lit[i])
			}
			continue
		}
		sb.WriteByte(lit[i])
	}
	want := sb.String()
	arr, ok := doc.([]any)
	if !ok {
		// lax mode wraps a non-array in an array
		arr = []any{doc}
	}
	i := int(idx.Int64())
	if i >= len(arr) {
		return nil, nil
	}
	s, ok := arr[i].(string)
	if !ok {
		if arr[i] == nil {
			return false, nil
		}
		return nil, nil
	}
	return s == want, nil
}

func likeMatch(s, pattern string, insensitive bool) (bool, error) {
	var sb strings.Builder
	sb.WriteString("(?s)^")
	if insensitive {
		sb.Reset()
		sb.WriteString("(?is)^")
	}
	for i := 0; i < len(pattern); i++ {
		c := pattern[i]
		switch c {
		case '%':
			sb.WriteString(".*")
		case '_':
			sb.WriteString(".")
		case '\\':
			if i+1 < len(pattern) {
				i++
				sb.WriteString(regexp.QuoteMeta(string(pattern[i])))
			} else {
				return false, errf("22025", "LIKE pattern must not end with escape character")
			}
		default:
			sb.WriteString(regexp.QuoteMeta(string(c)))
		}
	}
	sb.WriteString("$")
	re, err := regexp.Compile(sb.String())
	if err != nil {
		return false, err
	}
	return re.MatchString(s), nil
}

func (e *env) evalSubscript(t *Subscript) (Value, error) {
	v, err := e.eval(t.X)
	if err != nil {
		return nil, err
	}
	if v == nil {
		return nil, nil
	}
	if j, ok := v.(JSON); ok && !t.IsSlice {
		iv, err := e.eval(t.Index)
		if err != nil {
			return nil, err
		}
		return (&env{ctx: e.ctx, fr: &frame{}, tup: &tuple{}}).evalBinary(&Binary{Op: "->", L: &Lit{V: j}, R: &Lit{V: iv}})
	}
	arr, ok := v.(*Array)
	if !ok {
		return nil, errf("42804", "cannot subscript type %T", v)
	}
	if !t.IsSlice {
		iv, err := e.eval(t.Index)
		if err != nil {
			return nil, err
		}
		if iv == nil {
			return nil, nil
		}
		n, err := toInt(iv)
		if err != nil {
			return nil, err
		}
		i := int(n.Int64())
		if i < 1 || i > len(arr.Elems) {
			return nil, nil
		}
		return arr.Elems[i-1], nil
	}
	lo, hi := 1, len(arr.Elems)
	if t.Lo != nil {
		lv, err := e.eval(t.Lo)
		if err != nil {
			return nil, err
		}
		if lv == nil {
			return nil, nil
		}
		n, err := toInt(lv)
		if err != nil {
			return nil, err
		}
		lo = int(n.Int64())
	}
	if t.Hi != nil {
		hv, err := e.eval(t.Hi)
		if err != nil {
			return nil, err
		}
		if hv == nil {
			return nil, nil
		}
		n, err := toInt(hv)
		if err != nil {
			return nil, err
		}
		hi = int(n.Int64())
	}
	if lo < 1 {
		lo = 1
	}
	if hi > len(arr.Elems) {
		hi = len(arr.Elems)
	}
	if lo > hi {
		return &Array{}, nil
	}
	return &Array{Elems: append([]Value(nil), arr.Elems[lo-1:hi]...)}, nil
}

// now / statement timestamps -------------------------------------------------------------------

func (c *execCtx) stmtTime() time.Time { return c.db.Clock().UTC().Truncate(time.Microsecond) }

func (c *execCtx) txnTime() time.Time {
	if c.txn == nil {
		return c.stmtTime()
	}
	if !c.txn.tsSet {
		c.txn.ts = c.stmtTime()
		c.txn.tsSet = true
	}
	return c.txn.ts
}
