package pgmodel

import "fmt"

// Shared advisory locks (pg_advisory_lock_shared / pg_advisory_xact_lock_shared / the try variants).
// Shared holders of a key exclude exclusive requests of other sessions and conversely; they do not exclude each
// other.  Kept apart from the exclusive table (db.advisory) so that the common path is untouched.

type advShare struct {
	count int // session-level holds
	xact  int // transaction-level holds
}

func (db *DB) sharedHolders(key int64) map[*Session]*advShare {
	if db.advShared == nil {
		db.advShared = map[int64]map[*Session]*advShare{}
	}
	m := db.advShared[key]
	if m == nil {
		m = map[*Session]*advShare{}
		db.advShared[key] = m
	}
	return m
}

// otherSharedHolder returns a live session other than s holding key in shared mode.
func (db *DB) otherSharedHolder(s *Session, key int64) *Session {
	for h := range db.advShared[key] {
		if h == s {
			continue
		}
		if h.closed {
			delete(db.advShared[key], h)
			continue
		}
		return h
	}
	return nil
}

func (db *DB) advisoryLockShared(s *Session, key int64, xactScoped bool) error {
	if l := db.advisory[key]; l != nil && l.sess != s {
		if l.sess.closed {
			delete(db.advisory, key)
		} else {
			return &waitErr{on: l.sess, what: fmt.Sprintf("advisory lock %d", key)}
		}
	}
	h := db.sharedHolders(key)
	e := h[s]
	if e == nil {
		e = &advShare{}
		h[s] = e
	}
	if xactScoped {
		e.xact++
		if s.txn != nil {
			s.txn.advShLocks = append(s.txn.advShLocks, key)
		}
	} else {
		e.count++
	}
	return nil
}

func (db *DB) advisoryUnlockShared(s *Session, key int64) bool {
	e := db.advShared[key][s]
	if e == nil || e.count == 0 {
		return false
	}
	e.count--
	if e.count == 0 && e.xact == 0 {
		delete(db.advShared[key], s)
	}
	db.cond.Broadcast()
	return true
}

// releaseSharedXact drops the transaction-level shared holds of a finished transaction.
func (db *DB) releaseSharedXact(t *Txn) {
	for _, k := range t.advShLocks {
		if e := db.advShared[k][t.sess]; e != nil {
			e.xact = 0
			if e.count == 0 {
				delete(db.advShared[k], t.sess)
			}
		}
	}
}

// releaseSharedSession drops every shared hold of a closing session.
func (db *DB) releaseSharedSession(s *Session) {
	for k := range db.advShared {
		delete(db.advShared[k], s)
	}
}

// ---------------------------------------------------------------------------- FIFO wait queue of advisory locks
//
// Postgres grants a released lock to the waiters in arrival order: a session that asks for the lock while another
// session is already parked on it queues BEHIND that session, even if the lock happens to be free at that instant
// (the parked session has not run again yet).  Without this a client that loops "abort, retry, take the lock
// again" can starve a parked session for ever, which no real server allows.

// advEnqueue records that s waits for key (idempotent). The entry is removed when s obtains the lock or when the
// waiting statement ends for another reason (finishStmt -> advLeaveQueues).
func (db *DB) advEnqueue(s *Session, key int64) {
	if s.advWait == nil {
		s.advWait = map[int64]bool{}
	}
	s.advWait[key] = true
	if db.advQueue == nil {
		db.advQueue = map[int64][]*Session{}
	}
	for _, x := range db.advQueue[key] {
		if x == s {
			return
		}
	}
	db.advQueue[key] = append(db.advQueue[key], s)
}

// advDequeue removes s from the queue of key (it obtained the lock, or gave up).
func (db *DB) advDequeue(s *Session, key int64) {
	delete(s.advWait, key)
	q := db.advQueue[key]
	for i, x := range q {
		if x == s {
			db.advQueue[key] = append(q[:i:i], q[i+1:]...)
			return
		}
	}
}

// advAhead returns a live session queued before s on key (nil if s is first or not preceded).
func (db *DB) advAhead(s *Session, key int64) *Session {
	q := db.advQueue[key]
	for i := 0; i < len(q); i++ {
		x := q[i]
		if x == s {
			return nil
		}
		if x.closed {
			db.advQueue[key] = append(q[:i:i], q[i+1:]...)
			q = db.advQueue[key]
			i--
			continue
		}
		return x
	}
	return nil
}

// advLeaveQueues: the statement of s that was waiting for advisory locks is over.
func (db *DB) advLeaveQueues(s *Session) {
	for k := range s.advWait {
		db.advDequeue(s, k)
	}
}
