package pgmodel

import "fmt"

// Shared advisory locks (pg_advisory_lock_shared / pg_advisory_xact_lock_shared / the try variants).
// Shared holders of a key exclude exclusive requests of other sessions and conversely; they do not exclude each
// other.  Kept apart from the exclusive table (db.advisory) so that the common path is untouched.

type advShare struct {
	count int // session-level holds
	xact  int // transaction-level holds
}

func (db *DB) sharedHolders(key int64) map[*Session]*advShare {
	if db.advShared == nil {
		db.advShared = map[int64]map[*Session]*advShare{}
	}
	m := db.advShared[key]
	if m == nil {
		m = map[*Session]*advShare{}
		db.advShared[key] = m
	}
	return m
}

// otherSharedHolder returns a live session other than s holding key in shared mode.
func (db *DB) otherSharedHolder(s *Session, key int64) *Session {
	for h := range db.advShared[key] {
		if h == s {
			continue
		}
		if h.closed {
			delete(db.advShared[key], h)
			continue
		}
		return h
	}
	return nil
}

func (db *DB) advisoryLockShared(s *Session, key int64, xactScoped bool) error {
	if l := db.advisory[key]; l != nil && l.sess != s {
		if l.sess.closed {
			delete(db.advisory, key)
		} else {
			return &waitErr{on: l.sess, what: fmt.Sprintf("advisory lock %d", key)}
		}
	}
	h := db.sharedHolders(key)
	e := h[s]
	if e == nil {
		e = &advShare{}
		h[s] = e
	}
	if xactScoped {
		e.xact++
		if s.txn != nil {
			s.txn.advShLocks = append(s.txn.advShLocks, key)
		}
	} else {
		e.count++
	}
	return nil
}

func (db *DB) advisoryUnlockShared(s *Session, key int64) bool {
	e := db.advShared[key][s]
	if e == nil || e.count == 0 {
		return false
	}
	e.count--
	if e.count == 0 && e.xact == 0 {
		delete(db.advShared[key], s)
	}
	db.cond.Broadcast()
	return true
}

// releaseSharedXact drops the transaction-level shared holds of a finished transaction.
func (db *DB) releaseSharedXact(t *Txn) {
	for _, k := range t.advShLocks {
		if e := db.advShared[k][t.sess]; e != nil {
			e.xact = 0
			if e.count == 0 {
				delete(db.advShared[k], t.sess)
			}
		}
	}
}

// releaseSharedSession drops every shared hold of a closing session.
func (db *DB) releaseSharedSession(s *Session) {
	for k := range db.advShared {
		delete(db.advShared[k], s)
	}
}
