package pgmodel

import (
	"strings"
	"unicode"
)

type tokKind int

const (
	tEOF tokKind = iota
	tIdent       // bare identifier or keyword (lower-cased in .s, original in .raw)
	tQIdent      // "quoted identifier"
	tString      // string literal (value in .s)
	tNumber
	tOp
	tParam // $1
)

type token struct {
	kind tokKind
	s    string
	raw  string
	pos  int
}

func (t token) String() string { return t.raw }

func lex(src string) ([]token, error) {
	var toks []token
	i := 0
	n := len(src)
	for i < n {
		c := src[i]
		switch {
		case c == ' ' || c == '\t' || c == '\n' || c == '\r' || c == '\f':
			i++
		case c == '-' && i+1 < n && src[i+1] == '-':
			for i < n && src[i] != '\n' {
				i++
			}
		case c == '/' && i+1 < n && src[i+1] == '*':
			depth := 1
			i += 2
			for i < n && depth > 0 {
				if src[i] == '/' && i+1 < n && src[i+1] == '*' {
					depth++
					i += 2
				} else if src[i] == '*' && i+1 < n && src[i+1] == '/' {
					depth--
					i += 2
				} else {
					i++
				}
			}
		case c == '\'':
			s, j, err := lexString(src, i, false)
			if err != nil {
				return nil, err
			}
			toks = append(toks, token{kind: tString, s: s, raw: src[i:j], pos: i})
			i = j
		case (c == 'E' || c == 'e') && i+1 < n && src[i+1] == '\'':
			s, j, err := lexString(src, i+1, true)
			if err != nil {
				return nil, err
			}
			toks = append(toks, token{kind: tString, s: s, raw: src[i:j], pos: i})
			i = j
		case c == '"':
			j := i + 1
			var sb strings.Builder
			for {
				if j >= n {
					return nil, errf("42601", "unterminated quoted identifier")
				}
				if src[j] == '"' {
					if j+1 < n && src[j+1] == '"' {
						sb.WriteByte('"')
						j += 2
						continue
					}
					break
				}
				sb.WriteByte(src[j])
				j++
			}
			toks = append(toks, token{kind: tQIdent, s: sb.String(), raw: src[i : j+1], pos: i})
			i = j + 1
		case c == '$':
			// dollar quote or parameter
			j := i + 1
			if j < n && src[j] >= '0' && src[j] <= '9' {
				for j < n && src[j] >= '0' && src[j] <= '9' {
					j++
				}
				toks = append(toks, token{kind: tParam, s: src[i+1 : j], raw: src[i:j], pos: i})
				i = j
				break
			}
			for j < n && (isIdentChar(src[j])) {
				j++
			}
			if j < n && src[j] == '$' {
				tag := src[i : j+1]
				end := strings.Index(src[j+1:], tag)
				if end < 0 {
					return nil, errf("42601", "unterminated dollar-quoted string")
				}
				body := src[j+1 : j+1+end]
				toks = append(toks, token{kind: tString, s: body, raw: src[i : j+1+end+len(tag)], pos: i})
				i = j + 1 + end + len(tag)
				break
			}
			return nil, errf("42601", "unexpected '$' at %d", i)
		case c >= '0' && c <= '9' || (c == '.' && i+1 < n && src[i+1] >= '0' && src[i+1] <= '9'):
			j := i
			for j < n && (src[j] >= '0' && src[j] <= '9') {
				j++
			}
			if j < n && src[j] == '.' && !(j+1 < n && src[j+1] == '.') {
				j++
				for j < n && (src[j] >= '0' && src[j] <= '9') {
					j++
				}
			}
			if j < n && (src[j] == 'e' || src[j] == 'E') {
				k := j + 1
				if k < n && (src[k] == '+' || src[k] == '-') {
					k++
				}
				if k < n && src[k] >= '0' && src[k] <= '9' {
					for k < n && src[k] >= '0' && src[k] <= '9' {
						k++
					}
					j = k
				}
			}
			toks = append(toks, token{kind: tNumber, s: src[i:j], raw: src[i:j], pos: i})
			i = j
		case isIdentStart(c):
			j := i
			for j < n && isIdentChar(src[j]) {
				j++
			}
			raw := src[i:j]
			toks = append(toks, token{kind: tIdent, s: strings.ToLower(raw), raw: raw, pos: i})
			i = j
		default:
			ops := []string{"->>", "#>>", "||", "::", "->", "#>", "@>", "<@", "?|", "?&", "@@", "<=", ">=", "<>", "!=", ":=", "..", "=>"}
			matched := false
			for _, op := range ops {
				if strings.HasPrefix(src[i:], op) {
					toks = append(toks, token{kind: tOp, s: op, raw: op, pos: i})
					i += len(op)
					matched = true
					break
				}
			}
			if matched {
				break
			}
			if strings.ContainsRune("()[],;.*+-/%<>=?:#@!~^&|", rune(c)) {
				toks = append(toks, token{kind: tOp, s: string(c), raw: string(c), pos: i})
				i++
				break
			}
			return nil, errf("42601", "unexpected character %q at %d", c, i)
		}
	}
	toks = append(toks, token{kind: tEOF, pos: n})
	return toks, nil
}

func isIdentStart(c byte) bool {
	return c == '_' || unicode.IsLetter(rune(c)) || c >= 0x80
}

func isIdentChar(c byte) bool {
	return c == '_' || c == '$' && false || unicode.IsLetter(rune(c)) || (c >= '0' && c <= '9') || c >= 0x80
}

func lexString(src string, i int, escapes bool) (string, int, error) {
	// src[i] == '\''
	j := i + 1
	var sb strings.Builder
	for {
		if j >= len(src) {
			return "", 0, errf("42601", "unterminated string literal")
		}
		c := src[j]
		if c == '\'' {
			if j+1 < len(src) && src[j+1] == '\'' {
				sb.WriteByte('\'')
				j += 2
				continue
			}
			return sb.String(), j + 1, nil
		}
		if escapes && c == '\\' && j+1 < len(src) {
			j++
			switch src[j] {
			case 'n':
				sb.WriteByte('\n')
			case 't':
				sb.WriteByte('\t')
			case 'r':
				sb.WriteByte('\r')
			case 'b':
				sb.WriteByte('\b')
			case 'f':
				sb.WriteByte('\f')
			case '\\':
				sb.WriteByte('\\')
			case '\'':
				sb.WriteByte('\'')
			default:
				if src[j] >= '0' && src[j] <= '7' {
					k := j
					v := 0
					for k < len(src) && k < j+3 && src[k] >= '0' && src[k] <= '7' {
						v = v*8 + int(src[k]-'0')
						k++
					}
					sb.WriteByte(byte(v))
					j = k - 1
				} else {
					sb.WriteByte(src[j])
				}
			}
			j++
			continue
		}
		sb.WriteByte(c)
		j++
	}
}

// splitStatements splits a multi-statement script at top-level semicolons (quote, dollar-quote and
// comment aware) and returns the statement texts.
func splitStatements(src string) ([]string, error) {
	toks, err := lex(src)
	if err != nil {
		return nil, err
	}
	var out []string
	start := -1
	for _, t := range toks {
		if t.kind == tEOF {
			break
		}
		if t.kind == tOp && t.s == ";" {
			if start >= 0 {
				out = append(out, strings.TrimSpace(src[start:t.pos]))
				start = -1
			}
			continue
		}
		if start < 0 {
			start = t.pos
		}
	}
	if start >= 0 {
		s := strings.TrimSpace(src[start:])
		if s != "" {
			out = append(out, s)
		}
	}
	return out, nil
}
