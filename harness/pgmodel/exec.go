package pgmodel

import (
	"fmt"
	"math/big"
	"sort"
	"strings"
)

// ---------------------------------------------------------------------------- relations and tuples

type relSchema struct {
	alias string
	cols  []string
	types []string
	off   int
	table *Table
}

type frame struct {
	rels  []*relSchema
	width int
}

func (f *frame) add(r *relSchema) *frame {
	nf := &frame{rels: append(append([]*relSchema(nil), f.rels...), nil), width: f.width}
	cp := *r
	cp.off = nf.width
	nf.rels[len(nf.rels)-1] = &cp
	nf.width += len(r.cols)
	return nf
}

func joinFrames(a, b *frame) *frame {
	nf := &frame{rels: append([]*relSchema(nil), a.rels...), width: a.width}
	for _, r := range b.rels {
		cp := *r
		cp.off = nf.width + r.off
		nf.rels = append(nf.rels, &cp)
	}
	nf.width += b.width
	return nf
}

type tuple struct {
	vals []Value
	srcs []*RowVer // parallel to frame.rels (nil when not a base-table row)
}

func joinTuples(a, b *tuple) *tuple {
	t := &tuple{vals: make([]Value, 0, len(a.vals)+len(b.vals)), srcs: make([]*RowVer, 0, len(a.srcs)+len(b.srcs))}
	t.vals = append(append(t.vals, a.vals...), b.vals...)
	t.srcs = append(append(t.srcs, a.srcs...), b.srcs...)
	return t
}

func nullTuple(f *frame) *tuple {
	return &tuple{vals: make([]Value, f.width), srcs: make([]*RowVer, len(f.rels))}
}

// Result of a query.
type Result struct {
	Cols  []string
	Types []string
	Rows  [][]Value
	srcs  [][]*RowVer // provenance for FOR UPDATE (only when requested)
	srcTb []*Table
	Tag   string
	N     int64
}

// ---------------------------------------------------------------------------- execution context

type cteEnv struct {
	parent *cteEnv
	name   string
	res    *Result
}

func (c *cteEnv) find(name string) *Result {
	for e := c; e != nil; e = e.parent {
		if e.name == name {
			return e.res
		}
	}
	return nil
}

type varEnv struct {
	parent *varEnv
	vars   map[string]*Value
	types  map[string]string
	found  *bool
}

func (v *varEnv) lookup(name string) (*Value, bool) {
	for e := v; e != nil; e = e.parent {
		if p, ok := e.vars[name]; ok {
			return p, true
		}
	}
	return nil, false
}

type execCtx struct {
	db    *DB
	sess  *Session
	txn   *Txn
	snap  snapshot
	wx    *xact // subtransaction writes are stamped with
	ctes  *cteEnv
	vars  *varEnv
	depth int
	args  []Value // positional parameters ($1..) of an SQL-language function
	// inScript is set while executing a DO block or a multi-statement script (i.e. a migration file,
	// never a query issued by the Go code). There, a data-migration statement the engine does not
	// support is skipped if every existing table it names is empty (checked, not assumed).
	inScript bool
}

func (c *execCtx) child() *execCtx {
	n := *c
	n.depth++
	return &n
}

// env is the evaluation scope of an expression.
type env struct {
	ctx    *execCtx
	fr     *frame
	tup    *tuple
	parent *env
	group  []*tuple          // non-nil when evaluating in aggregate context
	win    map[*FuncCall]Value // window function results for the current tuple
	out    *outRow            // output columns (ORDER BY may reference aliases)
	excl   bool
}

type outRow struct {
	cols []string
	vals []Value
}

func stripParen(e Expr) Expr {
	for {
		p, ok := e.(*parenExpr)
		if !ok {
			return e
		}
		e = p.X
	}
}

// ---------------------------------------------------------------------------- SELECT

func (c *execCtx) runSelect(s *Select, outer *env) (*Result, error) {
	if c.depth > 64 {
		return nil, errf("54001", "stack depth limit exceeded")
	}
	cc := c
	if len(s.With) > 0 {
		cc = c.child()
		for i := range s.With {
			cte := &s.With[i]
			if s.Recursive && selfReferential(cte) {
				return nil, unsupported("WITH RECURSIVE")
			}
			var res *Result
			var err error
			switch q := cte.Query.(type) {
			case *Select:
				res, err = cc.runSelect(q, outer)
			case *Insert:
				res, err = cc.runInsert(q, outer)
			case *Update:
				res, err = cc.runUpdate(q, outer)
			case *Delete:
				res, err = cc.runDelete(q, outer)
			default:
				err = unsupported("CTE body %T", q)
			}
			if err != nil {
				return nil, err
			}
			if len(cte.ColNames) > 0 {
				if len(cte.ColNames) > len(res.Cols) {
					return nil, errf("42P10", "CTE %q has %d columns available but %d specified", cte.Name, len(res.Cols), len(cte.ColNames))
				}
				cols := append([]string(nil), res.Cols...)
				copy(cols, cte.ColNames)
				res = &Result{Cols: cols, Types: res.Types, Rows: res.Rows}
			}
			cc.ctes = &cteEnv{parent: cc.ctes, name: cte.Name, res: res}
		}
	}
	var res *Result
	var err error
	if s.SetOp != "" {
		res, err = cc.runSetOp(s, outer)
	} else {
		res, err = cc.runSelectCore(s, outer)
	}
	return res, err
}

func selfReferential(cte *CTE) bool {
	found := false
	var walkFrom func(fi FromItem)
	var walkSel func(s *Select)
	walkFrom = func(fi FromItem) {
		switch t := fi.(type) {
		case *TableRef:
			if t.Schema == "" && t.Name == cte.Name {
				found = true
			}
		case *SubqueryRef:
			walkSel(t.Sub)
		case *Join:
			walkFrom(t.Left)
			walkFrom(t.Right)
		}
	}
	walkSel = func(s *Select) {
		if s == nil {
			return
		}
		for _, f := range s.From {
			walkFrom(f)
		}
		walkSel(s.Right)
	}
	if s, ok := cte.Query.(*Select); ok {
		walkSel(s)
	}
	return found
}

func (c *execCtx) runSetOp(s *Select, outer *env) (*Result, error) {
	left := *s
	left.SetOp, left.Right, left.With = "", nil, nil
	left.OrderBy, left.Limit, left.Offset, left.ForUpdate = nil, nil, nil, false
	lres, err := c.runSelectCore(&left, outer)
	if err != nil {
		return nil, err
	}
	rres, err := c.runSelect(s.Right, outer)
	if err != nil {
		return nil, err
	}
	if len(lres.Cols) != len(rres.Cols) {
		return nil, errf("42601", "each %s query must have the same number of columns", strings.ToUpper(s.SetOp))
	}
	out := &Result{Cols: lres.Cols, Types: lres.Types}
	switch s.SetOp {
	case "union all":
		out.Rows = append(append(out.Rows, lres.Rows...), rres.Rows...)
	case "union":
		seen := map[string]bool{}
		for _, r := range append(append([][]Value(nil), lres.Rows...), rres.Rows...) {
			k := keyOfRow(r)
			if !seen[k] {
				seen[k] = true
				out.Rows = append(out.Rows, r)
			}
		}
	default:
		return nil, unsupported("set operation %s", s.SetOp)
	}
	// ORDER BY / LIMIT over the combined result (output column names only)
	if len(s.OrderBy) > 0 {
		fr := (&frame{}).add(&relSchema{alias: "", cols: out.Cols})
		type pair struct {
			row  []Value
			keys []Value
		}
		ps := make([]pair, len(out.Rows))
		for i, r := range out.Rows {
			e := &env{ctx: c, fr: fr, tup: &tuple{vals: r, srcs: []*RowVer{nil}}, parent: outer}
			keys := make([]Value, len(s.OrderBy))
			for j, o := range s.OrderBy {
				v, err := e.eval(o.Expr)
				if err != nil {
					return nil, err
				}
				keys[j] = v
			}
			ps[i] = pair{r, keys}
		}
		var serr error
		sort.SliceStable(ps, func(i, j int) bool {
			cmp, err := compareOrderKeys(ps[i].keys, ps[j].keys, s.OrderBy)
			if err != nil {
				serr = err
			}
			return cmp < 0
		})
		if serr != nil {
			return nil, serr
		}
		for i := range ps {
			out.Rows[i] = ps[i].row
		}
	}
	if err := c.applyLimit(out, s, outer, nil); err != nil {
		return nil, err
	}
	return out, nil
}

func compareOrderKeys(a, b []Value, items []OrderItem) (int, error) {
	for i, it := range items {
		x, y := a[i], b[i]
		nullsFirst := it.Desc
		if it.NullsFirst != nil {
			nullsFirst = *it.NullsFirst
		}
		if x == nil || y == nil {
			if x == nil && y == nil {
				continue
			}
			if x == nil {
				if nullsFirst {
					return -1, nil
				}
				return 1, nil
			}
			if nullsFirst {
				return 1, nil
			}
			return -1, nil
		}
		cmp, err := compareValues(x, y)
		if err != nil {
			return 0, err
		}
		if cmp != 0 {
			if it.Desc {
				return -cmp, nil
			}
			return cmp, nil
		}
	}
	return 0, nil
}

func (c *execCtx) applyLimit(res *Result, s *Select, outer *env, tieKeys [][]Value) error {
	off := 0
	if s.Offset != nil {
		v, err := (&env{ctx: c, fr: &frame{}, tup: &tuple{}, parent: outer}).eval(s.Offset)
		if err != nil {
			return err
		}
		if n, ok := v.(*big.Int); ok {
			off = int(n.Int64())
		}
	}
	lim := -1
	if s.Limit != nil {
		v, err := (&env{ctx: c, fr: &frame{}, tup: &tuple{}, parent: outer}).eval(s.Limit)
		if err != nil {
			return err
		}
		if n, ok := v.(*big.Int); ok {
			lim = int(n.Int64())
		}
	}
	if off == 0 && lim < 0 {
		return nil
	}
	n := len(res.Rows)
	start := off
	if start > n {
		start = n
	}
	end := n
	if lim >= 0 && start+lim < n {
		end = start + lim
	}
	// order-dependence detection: a cut through a group of rows with equal sort keys but different content
	if tieKeys != nil {
		for _, cut := range []int{start, end} {
			if cut > 0 && cut < n {
				if keyOfRow(tieKeys[cut-1]) == keyOfRow(tieKeys[cut]) && keyOfRow(res.Rows[cut-1]) != keyOfRow(res.Rows[cut]) {
					c.db.note("ORDER-DEPENDENT: LIMIT/OFFSET cuts through rows with equal ORDER BY keys")
				}
			}
		}
	} else if len(s.OrderBy) == 0 && end-start < n && n > 1 {
		// LIMIT without ORDER BY over several distinct rows
		distinct := false
		for i := 1; i < n; i++ {
			if keyOfRow(res.Rows[i]) != keyOfRow(res.Rows[0]) {
				distinct = true
				break
			}
		}
		if distinct {
			c.db.note("ORDER-DEPENDENT: LIMIT without ORDER BY over %d distinct rows", n)
		}
	}
	res.Rows = res.Rows[start:end]
	if res.srcs != nil {
		res.srcs = res.srcs[start:end]
	}
	return nil
}

type selPlan struct {
	aggs    []*FuncCall
	windows []*FuncCall
}

func isAggName(c *execCtx, fc *FuncCall) bool {
	if fc.Over != nil {
		return false
	}
	switch fc.Name {
	case "count", "sum", "min", "max", "avg", "array_agg", "string_agg", "bool_and", "bool_or", "jsonb_agg", "json_agg", "jsonb_object_agg", "json_object_agg", "every":
		return true
	}
	return c.db.findAgg(c.sess, fc.Schema, fc.Name) != nil
}

// collect aggregate / window calls of an expression (not descending into subqueries).
func (c *execCtx) collect(e Expr, p *selPlan) {
	switch t := e.(type) {
	case nil:
	case *parenExpr:
		c.collect(t.X, p)
	case *Unary:
		c.collect(t.X, p)
	case *Binary:
		c.collect(t.L, p)
		c.collect(t.R, p)
	case *IsNull:
		c.collect(t.X, p)
	case *IsBool:
		c.collect(t.X, p)
	case *IsDistinct:
		c.collect(t.L, p)
		c.collect(t.R, p)
	case *InList:
		c.collect(t.X, p)
		for _, x := range t.List {
			c.collect(x, p)
		}
	case *InSub:
		c.collect(t.X, p)
	case *Case:
		c.collect(t.Operand, p)
		for _, w := range t.Whens {
			c.collect(w.Cond, p)
			c.collect(w.Result, p)
		}
		c.collect(t.Else, p)
	case *Cast:
		c.collect(t.X, p)
	case *FuncCall:
		if t.Over != nil {
			p.windows = append(p.windows, t)
			return
		}
		if isAggName(c, t) {
			p.aggs = append(p.aggs, t)
			return
		}
		for _, a := range t.Args {
			c.collect(a, p)
		}
	case *RowExpr:
		for _, f := range t.Fields {
			c.collect(f, p)
		}
	case *ArrayExpr:
		for _, f := range t.Elems {
			c.collect(f, p)
		}
	case *FieldSel:
		c.collect(t.X, p)
	case *Subscript:
		c.collect(t.X, p)
		c.collect(t.Index, p)
		c.collect(t.Lo, p)
		c.collect(t.Hi, p)
	case *Between:
		c.collect(t.X, p)
		c.collect(t.Lo, p)
		c.collect(t.Hi, p)
	case *Like:
		c.collect(t.X, p)
		c.collect(t.Pattern, p)
	case *AtTimeZone:
		c.collect(t.X, p)
	case *AnyAll:
		c.collect(t.X, p)
		c.collect(t.Arr, p)
	}
}

func (c *execCtx) runSelectCore(s *Select, outer *env) (*Result, error) {
	// VALUES
	if s.Values != nil {
		res := &Result{}
		for i := range s.Values[0] {
			res.Cols = append(res.Cols, fmt.Sprintf("column%d", i+1))
		}
		res.Types = make([]string, len(res.Cols))
		e := &env{ctx: c, fr: &frame{}, tup: &tuple{}, parent: outer}
		for _, row := range s.Values {
			if len(row) != len(res.Cols) {
				return nil, errf("42601", "VALUES lists must all be the same length")
			}
			vals := make([]Value, len(row))
			for i, x := range row {
				v, err := e.eval(x)
				if err != nil {
					return nil, err
				}
				vals[i] = v
				if ct, ok := stripParen(x).(*Cast); ok && res.Types[i] == "" {
					res.Types[i] = ct.Type
				}
			}
			res.Rows = append(res.Rows, vals)
		}
		if err := c.applyLimit(res, s, outer, nil); err != nil {
			return nil, err
		}
		return res, nil
	}

	// FROM
	fr := &frame{}
	tuples := []*tuple{{}}
	var err error
	for _, fi := range s.From {
		fr, tuples, err = c.evalFrom(fi, fr, tuples, outer)
		if err != nil {
			return nil, err
		}
	}
	// WHERE
	if s.Where != nil {
		kept := tuples[:0:0]
		for _, t := range tuples {
			v, err := (&env{ctx: c, fr: fr, tup: t, parent: outer}).eval(s.Where)
			if err != nil {
				return nil, err
			}
			if b, ok := v.(bool); ok && b {
				kept = append(kept, t)
			}
		}
		tuples = kept
	}

	plan := &selPlan{}
	for _, it := range s.Cols {
		c.collect(it.Expr, plan)
	}
	c.collect(s.Having, plan)
	for _, o := range s.OrderBy {
		c.collect(o.Expr, plan)
	}
	grouped := len(s.GroupBy) > 0 || len(plan.aggs) > 0 || s.Having != nil
	// expand select list
	type outCol struct {
		name string
		typ  string
		expr Expr
		rel  *relSchema // for star expansion
		idx  int
	}
	var outs []outCol
	for _, it := range s.Cols {
		switch x := it.Expr.(type) {
		case *Star:
			matched := false
			for _, r := range fr.rels {
				if x.Table != "" && r.alias != x.Table {
					continue
				}
				matched = true
				for i, cn := range r.cols {
					ty := ""
					if r.types != nil {
						ty = r.types[i]
					}
					outs = append(outs, outCol{name: cn, typ: ty, rel: r, idx: i})
				}
			}
			if !matched && x.Table != "" {
				return nil, errf("42P01", "missing FROM-clause entry for table %q", x.Table)
			}
		default:
			if fs, ok := stripParen(it.Expr).(*FieldSel); ok && fs.Star {
				return nil, unsupported("(expr).* in select list")
			}
			name := it.Alias
			if name == "" {
				name = exprName(it.Expr)
			}
			outs = append(outs, outCol{name: name, typ: c.exprType(it.Expr, fr), expr: it.Expr})
		}
	}
	res := &Result{}
	for _, o := range outs {
		res.Cols = append(res.Cols, o.name)
		res.Types = append(res.Types, o.typ)
	}

	type produced struct {
		vals []Value
		e    *env
		srcs []*RowVer
	}
	var rows []produced

	project := func(e *env) ([]Value, error) {
		vals := make([]Value, len(outs))
		for i, o := range outs {
			if o.expr == nil {
				vals[i] = e.tup.vals[o.rel.off+o.idx]
				continue
			}
			v, err := e.eval(o.expr)
			if err != nil {
				return nil, err
			}
			vals[i] = v
		}
		return vals, nil
	}

	if grouped {
		// group tuples
		type grp struct {
			key  string
			tups []*tuple
		}
		var groups []*grp
		idx := map[string]*grp{}
		for _, t := range tuples {
			e := &env{ctx: c, fr: fr, tup: t, parent: outer}
			ks := make([]Value, len(s.GroupBy))
			for i, g := range s.GroupBy {
				v, err := e.evalGroupKey(g, s)
				if err != nil {
					return nil, err
				}
				ks[i] = v
			}
			k := keyOfRow(ks)
			g := idx[k]
			if g == nil {
				g = &grp{key: k}
				idx[k] = g
				groups = append(groups, g)
			}
			g.tups = append(g.tups, t)
		}
		if len(s.GroupBy) == 0 && len(groups) == 0 {
			groups = []*grp{{tups: []*tuple{}}}
		}
		var genvs []*env
		for _, g := range groups {
			rep := nullTuple(fr)
			if len(g.tups) > 0 {
				rep = g.tups[0]
			}
			grpT := g.tups
			if grpT == nil {
				grpT = []*tuple{}
			}
			e := &env{ctx: c, fr: fr, tup: rep, parent: outer, group: grpT}
			if s.Having != nil {
				v, err := e.eval(s.Having)
				if err != nil {
					return nil, err
				}
				if b, ok := v.(bool); !ok || !b {
					continue
				}
			}
			genvs = append(genvs, e)
		}
		// window functions are evaluated over the grouped rows
		if len(plan.windows) > 0 {
			for _, e := range genvs {
				e.win = map[*FuncCall]Value{}
			}
			for _, w := range plan.windows {
				if err := c.computeWindow(w, genvs); err != nil {
					return nil, err
				}
			}
		}
		for _, e := range genvs {
			vals, err := project(e)
			if err != nil {
				return nil, err
			}
			rows = append(rows, produced{vals: vals, e: e})
		}
	} else {
		envs := make([]*env, len(tuples))
		for i, t := range tuples {
			envs[i] = &env{ctx: c, fr: fr, tup: t, parent: outer}
		}
		if len(plan.windows) > 0 {
			for _, e := range envs {
				e.win = map[*FuncCall]Value{}
			}
			for _, w := range plan.windows {
				if err := c.computeWindow(w, envs); err != nil {
					return nil, err
				}
			}
		}
		for _, e := range envs {
			vals, err := project(e)
			if err != nil {
				return nil, err
			}
			rows = append(rows, produced{vals: vals, e: e, srcs: e.tup.srcs})
		}
	}

	// ORDER BY keys
	orderKeys := make([][]Value, len(rows))
	evalOrder := func(p *produced, x Expr) (Value, error) {
		if cr, ok := stripParen(x).(*ColRef); ok && cr.Table == "" {
			for i := len(res.Cols) - 1; i >= 0; i-- {
				if res.Cols[i] == cr.Name {
					// output column names take precedence
					cnt := 0
					for _, n := range res.Cols {
						if n == cr.Name {
							cnt++
						}
					}
					if cnt == 1 {
						return p.vals[i], nil
					}
				}
			}
		}
		if l, ok := stripParen(x).(*Lit); ok {
			if n, ok := l.V.(*big.Int); ok {
				k := int(n.Int64())
				if k >= 1 && k <= len(p.vals) {
					return p.vals[k-1], nil
				}
			}
		}
		pe := *p.e
		pe.out = &outRow{cols: res.Cols, vals: p.vals}
		return pe.eval(x)
	}
	if len(s.OrderBy) > 0 {
		for i := range rows {
			keys := make([]Value, len(s.OrderBy))
			for j, o := range s.OrderBy {
				v, err := evalOrder(&rows[i], o.Expr)
				if err != nil {
					return nil, err
				}
				keys[j] = v
			}
			orderKeys[i] = keys
		}
		idxs := make([]int, len(rows))
		for i := range idxs {
			idxs[i] = i
		}
		var serr error
		sort.SliceStable(idxs, func(a, b int) bool {
			cmp, err := compareOrderKeys(orderKeys[idxs[a]], orderKeys[idxs[b]], s.OrderBy)
			if err != nil {
				serr = err
			}
			return cmp < 0
		})
		if serr != nil {
			return nil, serr
		}
		nr := make([]produced, len(rows))
		nk := make([][]Value, len(rows))
		for i, k := range idxs {
			nr[i] = rows[k]
			nk[i] = orderKeys[k]
		}
		rows, orderKeys = nr, nk
	}

	// DISTINCT ON / DISTINCT
	if len(s.DistinctOn) > 0 {
		seen := map[string]int{}
		var kept []produced
		var keptKeys [][]Value
		for i := range rows {
			ks := make([]Value, len(s.DistinctOn))
			for j, d := range s.DistinctOn {
				v, err := evalOrder(&rows[i], d)
				if err != nil {
					return nil, err
				}
				ks[j] = v
			}
			k := keyOfRow(ks)
			if first, ok := seen[k]; ok {
				// which row survives is decided by ORDER BY; if the discarded row differs from the kept one and
				// ORDER BY does not separate them, the result is order-dependent in Postgres
				if keyOfRow(rows[i].vals) != keyOfRow(kept[first].vals) {
					sep := false
					if len(s.OrderBy) > 0 && keyOfRow(orderKeys[i]) != keyOfRow(keptKeys[first]) {
						sep = true
					}
					if !sep {
						c.db.note("ORDER-DEPENDENT: DISTINCT ON keeps an arbitrary row among rows not separated by ORDER BY")
					}
				}
				continue
			}
			seen[k] = len(kept)
			kept = append(kept, rows[i])
			if len(s.OrderBy) > 0 {
				keptKeys = append(keptKeys, orderKeys[i])
			} else {
				keptKeys = append(keptKeys, nil)
			}
		}
		rows = kept
		if len(s.OrderBy) > 0 {
			orderKeys = keptKeys
		}
	} else if s.Distinct {
		seen := map[string]bool{}
		var kept []produced
		var keptKeys [][]Value
		for i := range rows {
			k := keyOfRow(rows[i].vals)
			if seen[k] {
				continue
			}
			seen[k] = true
			kept = append(kept, rows[i])
			keptKeys = append(keptKeys, orderKeys[i])
		}
		rows, orderKeys = kept, keptKeys
	}

	res.Rows = make([][]Value, len(rows))
	for i := range rows {
		res.Rows[i] = rows[i].vals
	}
	if s.ForUpdate {
		res.srcs = make([][]*RowVer, len(rows))
		for i := range rows {
			res.srcs[i] = rows[i].srcs
		}
		for _, r := range fr.rels {
			res.srcTb = append(res.srcTb, r.table)
		}
	}
	var tk [][]Value
	if len(s.OrderBy) > 0 {
		tk = orderKeys
	}
	if err := c.applyLimit(res, s, outer, tk); err != nil {
		return nil, err
	}
	if s.ForUpdate {
		if grouped {
			return nil, errf("0A000", "FOR UPDATE is not allowed with GROUP BY clause")
		}
		if err := c.lockRows(res); err != nil {
			return nil, err
		}
	}
	return res, nil
}

func exprName(e Expr) string {
	switch t := stripParen(e).(type) {
	case *ColRef:
		return t.Name
	case *FuncCall:
		return t.Name
	case *Cast:
		return exprName(t.X)
	case *FieldSel:
		return t.Field
	case *Case:
		return "case"
	case *Exists:
		return "exists"
	case *Subquery:
		if len(t.Sub.Cols) == 1 {
			if t.Sub.Cols[0].Alias != "" {
				return t.Sub.Cols[0].Alias
			}
			return exprName(t.Sub.Cols[0].Expr)
		}
	}
	return "?column?"
}

// exprType gives the declared type of an output expression when it is cheaply known (used only to
// decide how the driver renders integers).
func (c *execCtx) exprType(e Expr, fr *frame) string {
	switch t := stripParen(e).(type) {
	case *Cast:
		return t.Type
	case *ColRef:
		for _, r := range fr.rels {
			if t.Table != "" && r.alias != t.Table {
				continue
			}
			for i, cn := range r.cols {
				if cn == t.Name && r.types != nil {
					return r.types[i]
				}
			}
		}
	case *FuncCall:
		switch t.Name {
		case "count", "row_number", "jsonb_array_length", "array_length", "length":
			return "bigint"
		case "sum":
			return "numeric"
		case "nextval", "setval", "currval":
			return "bigint"
		case "max", "min", "coalesce", "first_value", "least", "greatest":
			if len(t.Args) > 0 {
				return c.exprType(t.Args[0], fr)
			}
		}
	case *Binary:
		switch t.Op {
		case "+", "-", "*", "/", "%":
			lt := c.exprType(t.L, fr)
			rt := c.exprType(t.R, fr)
			if lt == "numeric" || rt == "numeric" {
				return "numeric"
			}
			if lt != "" {
				return lt
			}
			return rt
		}
	case *Case:
		for _, w := range t.Whens {
			if ty := c.exprType(w.Result, fr); ty != "" {
				return ty
			}
		}
	case *Subquery:
		if len(t.Sub.Cols) == 1 && len(t.Sub.From) == 1 {
			return ""
		}
	}
	return ""
}

func (e *env) evalGroupKey(g Expr, s *Select) (Value, error) {
	// GROUP BY may name an output alias or ordinal
	if cr, ok := stripParen(g).(*ColRef); ok && cr.Table == "" {
		if _, _, found := e.findCol(cr); !found {
			for _, it := range s.Cols {
				if it.Alias == cr.Name {
					return e.eval(it.Expr)
				}
			}
		}
	}
	if l, ok := stripParen(g).(*Lit); ok {
		if n, ok := l.V.(*big.Int); ok {
			k := int(n.Int64())
			if k >= 1 && k <= len(s.Cols) {
				return e.eval(s.Cols[k-1].Expr)
			}
		}
	}
	return e.eval(g)
}

func (c *execCtx) computeWindow(w *FuncCall, envs []*env) error {
	type part struct{ idx []int }
	parts := map[string]*part{}
	var order []string
	for i, e := range envs {
		ks := make([]Value, len(w.Over.PartitionBy))
		for j, p := range w.Over.PartitionBy {
			v, err := e.eval(p)
			if err != nil {
				return err
			}
			ks[j] = v
		}
		k := keyOfRow(ks)
		if parts[k] == nil {
			parts[k] = &part{}
			order = append(order, k)
		}
		parts[k].idx = append(parts[k].idx, i)
	}
	for _, k := range order {
		p := parts[k]
		keys := make(map[int][]Value, len(p.idx))
		for _, i := range p.idx {
			ks := make([]Value, len(w.Over.OrderBy))
			for j, o := range w.Over.OrderBy {
				v, err := envs[i].eval(o.Expr)
				if err != nil {
					return err
				}
				ks[j] = v
			}
			keys[i] = ks
		}
		sorted := append([]int(nil), p.idx...)
		var serr error
		sort.SliceStable(sorted, func(a, b int) bool {
			cmp, err := compareOrderKeys(keys[sorted[a]], keys[sorted[b]], w.Over.OrderBy)
			if err != nil {
				serr = err
			}
			return cmp < 0
		})
		if serr != nil {
			return serr
		}
		switch w.Name {
		case "first_value":
			if len(w.Args) != 1 {
				return unsupported("first_value arity")
			}
			first := sorted[0]
			v, err := envs[first].eval(w.Args[0])
			if err != nil {
				return err
			}
			// order-dependence: several rows tie for first place with different values
			for _, i := range sorted[1:] {
				if keyOfRow(keys[i]) != keyOfRow(keys[first]) {
					break
				}
				v2, err := envs[i].eval(w.Args[0])
				if err != nil {
					return err
				}
				if keyOf(v2) != keyOf(v) {
					c.db.note("ORDER-DEPENDENT: first_value() over a window whose ORDER BY has ties with different values")
					break
				}
			}
			for _, i := range p.idx {
				envs[i].win[w] = v
			}
		case "row_number":
			if len(w.Over.OrderBy) == 0 && len(sorted) > 1 {
				c.db.note("ORDER-DEPENDENT: row_number() over a window without ORDER BY")
			}
			for n, i := range sorted {
				envs[i].win[w] = big.NewInt(int64(n + 1))
			}
		default:
			return unsupported("window function %s", w.Name)
		}
	}
	return nil
}

// ---------------------------------------------------------------------------- FROM

func (c *execCtx) evalFrom(fi FromItem, fr *frame, tuples []*tuple, outer *env) (*frame, []*tuple, error) {
	switch t := fi.(type) {
	case *Join:
		lf, lt, err := c.evalFrom(t.Left, fr, tuples, outer)
		if err != nil {
			return nil, nil, err
		}
		return c.evalJoin(t, lf, lt, outer)
	default:
		// comma join: cross product with the new item (lateral allowed to see left tuples)
		return c.crossWith(fi, fr, tuples, outer, "cross", nil)
	}
}

func (c *execCtx) evalJoin(j *Join, lf *frame, lt []*tuple, outer *env) (*frame, []*tuple, error) {
	if _, ok := j.Right.(*Join); ok {
		return nil, nil, unsupported("nested join on the right-hand side")
	}
	return c.crossWith(j.Right, lf, lt, outer, j.Kind, j.On)
}

func isLateral(fi FromItem) bool {
	switch t := fi.(type) {
	case *SubqueryRef:
		return t.Lateral
	case *FuncRef:
		return true // functions in FROM may always reference preceding items
	}
	return false
}

// crossWith joins every left tuple with the rows of fi (evaluated once, or per left tuple if lateral).
func (c *execCtx) crossWith(fi FromItem, lf *frame, lt []*tuple, outer *env, kind string, on Expr) (*frame, []*tuple, error) {
	var rf *frame
	var fixed []*tuple
	lateral := isLateral(fi)
	if !lateral {
		f, ts, err := c.evalFromPrimary(fi, outer)
		if err != nil {
			return nil, nil, err
		}
		rf, fixed = f, ts
	}
	var out []*tuple
	var nf *frame
	for _, l := range lt {
		rts := fixed
		if lateral {
			le := &env{ctx: c, fr: lf, tup: l, parent: outer}
			f, ts, err := c.evalFromPrimary(fi, le)
			if err != nil {
				return nil, nil, err
			}
			rf, rts = f, ts
		}
		if nf == nil {
			nf = joinFrames(lf, rf)
		}
		matched := false
		for _, r := range rts {
			jt := joinTuples(l, r)
			if on != nil {
				v, err := (&env{ctx: c, fr: nf, tup: jt, parent: outer}).eval(on)
				if err != nil {
					return nil, nil, err
				}
				if b, ok := v.(bool); !ok || !b {
					continue
				}
			}
			matched = true
			out = append(out, jt)
		}
		if !matched && kind == "left" {
			out = append(out, joinTuples(l, nullTuple(rf)))
		}
	}
	if nf == nil {
		// no left tuples: still need the frame shape
		if rf == nil {
			le := &env{ctx: c, fr: lf, tup: nullTuple(lf), parent: outer}
			f, _, err := c.evalFromPrimary(fi, le)
			if err != nil {
				// shape only; tolerate evaluation errors on the all-NULL probe tuple
				f2, err2 := c.frameShape(fi)
				if err2 != nil {
					return nil, nil, err
				}
				f = f2
			}
			rf = f
		}
		nf = joinFrames(lf, rf)
	}
	return nf, out, nil
}

func (c *execCtx) frameShape(fi FromItem) (*frame, error) {
	switch t := fi.(type) {
	case *FuncRef:
		alias := t.Alias
		if alias == "" {
			alias = t.Call.Name
		}
		cols := t.ColAliases
		if len(cols) == 0 {
			cols = []string{alias}
		}
		return (&frame{}).add(&relSchema{alias: alias, cols: cols}), nil
	}
	return nil, unsupported("cannot derive shape of lateral item")
}

func (c *execCtx) evalFromPrimary(fi FromItem, outer *env) (*frame, []*tuple, error) {
	switch t := fi.(type) {
	case *TableRef:
		alias := t.Alias
		if alias == "" {
			alias = t.Name
		}
		if t.Schema == "" {
			if res := c.ctes.find(t.Name); res != nil {
				cols := res.Cols
				if len(t.ColAliases) > 0 {
					cols = append([]string(nil), res.Cols...)
					copy(cols, t.ColAliases)
				}
				f := (&frame{}).add(&relSchema{alias: alias, cols: cols, types: res.Types})
				ts := make([]*tuple, len(res.Rows))
				for i, r := range res.Rows {
					ts[i] = &tuple{vals: r, srcs: []*RowVer{nil}}
				}
				return f, ts, nil
			}
		}
		tb := c.db.findTable(c.sess, t.Schema, t.Name)
		if tb == nil {
			// a PL/pgSQL record variable used as a relation is not supported; report a missing table
			return nil, nil, &PgErr{Code: "42P01", Message: fmt.Sprintf("relation %q does not exist", qualified(t.Schema, t.Name))}
		}
		cols := tb.colNames()
		if len(t.ColAliases) > 0 {
			copy(cols, t.ColAliases)
		}
		types := make([]string, len(tb.Cols))
		for i, cdef := range tb.Cols {
			types[i] = cdef.Type
		}
		f := (&frame{}).add(&relSchema{alias: alias, cols: cols, types: types, table: tb})
		var ts []*tuple
		for _, r := range tb.Rows {
			if c.snap.sees(r) {
				ts = append(ts, &tuple{vals: r.vals, srcs: []*RowVer{r}})
			}
		}
		return f, ts, nil
	case *SubqueryRef:
		var res *Result
		var err error
		if t.Lateral {
			res, err = c.runSelect(t.Sub, outer)
		} else {
			var up *env
			if outer != nil {
				up = outer
				// a non-lateral subquery cannot see sibling FROM items, only enclosing query levels;
				// `outer` here is already the enclosing level.
			}
			res, err = c.runSelect(t.Sub, up)
		}
		if err != nil {
			return nil, nil, err
		}
		cols := res.Cols
		if len(t.ColAliases) > 0 {
			cols = append([]string(nil), res.Cols...)
			copy(cols, t.ColAliases)
		}
		f := (&frame{}).add(&relSchema{alias: t.Alias, cols: cols, types: res.Types})
		ts := make([]*tuple, len(res.Rows))
		for i, r := range res.Rows {
			ts[i] = &tuple{vals: r, srcs: []*RowVer{nil}}
		}
		return f, ts, nil
	case *FuncRef:
		e := outer
		if e == nil {
			e = &env{ctx: c, fr: &frame{}, tup: &tuple{}}
		}
		res, err := e.evalTableFunc(t.Call)
		if err != nil {
			return nil, nil, err
		}
		alias := t.Alias
		if alias == "" {
			alias = t.Call.Name
		}
		cols := res.Cols
		if len(t.ColAliases) > 0 {
			cols = append([]string(nil), res.Cols...)
			copy(cols, t.ColAliases)
		} else if len(cols) == 1 && t.Alias != "" {
			cols = []string{t.Alias}
		}
		f := (&frame{}).add(&relSchema{alias: alias, cols: cols, types: res.Types})
		ts := make([]*tuple, len(res.Rows))
		for i, r := range res.Rows {
			ts[i] = &tuple{vals: r, srcs: []*RowVer{nil}}
		}
		return f, ts, nil
	case *Join:
		f, ts, err := c.evalFrom(t, &frame{}, []*tuple{{}}, outer)
		return f, ts, err
	}
	return nil, nil, unsupported("FROM item %T", fi)
}

func qualified(schema, name string) string {
	if schema != "" {
		return schema + "." + name
	}
	return name
}

// lockRows implements SELECT ... FOR UPDATE on the base-table rows of the result.
func (c *execCtx) lockRows(res *Result) error {
	if c.txn == nil {
		return nil
	}
	for _, srcs := range res.srcs {
		for i, r := range srcs {
			if r == nil {
				continue
			}
			if h := rowHolder(r, c.txn); h != nil {
				return &waitErr{on: h.sess, what: "row lock (FOR UPDATE)"}
			}
			already := false
			for _, l := range r.lockers {
				if l.top == c.txn && l.live() {
					already = true
				}
			}
			if !already {
				r.lockers = append(r.lockers, c.wx)
				var tb *Table
				if i < len(res.srcTb) {
					tb = res.srcTb[i]
				}
				c.txn.touch(tb, r)
			}
		}
	}
	return nil
}
