package pgmodel

import (
	"fmt"
	"math/big"
	"strings"
)

// ---------------------------------------------------------------------------- helpers

func (c *execCtx) needTxn() error {
	if c.txn == nil || c.wx == nil {
		return unsupported("write outside a transaction context")
	}
	return nil
}

func (c *execCtx) tableFor(schema, name string) (*Table, error) {
	tb := c.db.findTable(c.sess, schema, name)
	if tb == nil {
		return nil, &PgErr{Code: "42P01", Message: fmt.Sprintf("relation %q does not exist", qualified(schema, name))}
	}
	return tb, nil
}

func tableFrame(tb *Table, alias string) *frame {
	if alias == "" {
		alias = tb.Name
	}
	types := make([]string, len(tb.Cols))
	for i, cdef := range tb.Cols {
		types[i] = cdef.Type
	}
	return (&frame{}).add(&relSchema{alias: alias, cols: tb.colNames(), types: types, table: tb})
}

func (c *execCtx) evalDefault(tb *Table, col *Column) (Value, error) {
	if col.Default == nil {
		return nil, nil
	}
	// a default expression is bound to the objects of the table's schema at DDL time
	if c.sess != nil {
		saved := c.sess.path
		c.sess.path = append([]string{tb.Schema}, saved...)
		defer func() { c.sess.path = saved }()
	}
	v, err := (&env{ctx: c, fr: &frame{}, tup: &tuple{}}).eval(col.Default)
	if err != nil {
		return nil, err
	}
	return c.db.castTo(v, col.Type)
}

// indexKey computes the key of vals for ix; ok=false when the row is not indexed (NULL key part or
// predicate false).
func (c *execCtx) indexKey(tb *Table, ix *Index, vals []Value) (string, bool, error) {
	fr := tableFrame(tb, "")
	e := &env{ctx: c, fr: fr, tup: &tuple{vals: vals, srcs: []*RowVer{nil}}}
	if ix.Where != nil {
		v, err := e.eval(ix.Where)
		if err != nil {
			return "", false, err
		}
		if b, null := truth(v); null || !b {
			return "", false, nil
		}
	}
	var ks []Value
	if len(ix.Exprs) > 0 {
		for _, x := range ix.Exprs {
			v, err := e.eval(x)
			if err != nil {
				return "", false, err
			}
			ks = append(ks, v)
		}
	} else {
		for _, cn := range ix.Cols {
			i := tb.colIndex(cn)
			if i < 0 {
				return "", false, unsupported("index %s references unknown column %s", ix.Name, cn)
			}
			ks = append(ks, vals[i])
		}
	}
	for _, k := range ks {
		if k == nil {
			return "", false, nil
		}
	}
	return keyOfRow(ks), true, nil
}

type conflict struct {
	ix  *Index
	row *RowVer
}

// findConflict looks for a live row with the same key in unique index ix. It raises waitErr when the
// outcome depends on another in-progress transaction.
func (c *execCtx) findConflict(tb *Table, ix *Index, vals []Value, exclude *RowVer) (*RowVer, error) {
	key, ok, err := c.indexKey(tb, ix, vals)
	if err != nil || !ok {
		return nil, err
	}
	for _, r := range tb.Rows {
		if r == exclude {
			continue
		}
		x := r.xmin
		if x.aborted || x.top.state == txAborted {
			continue
		}
		k2, ok2, err := c.indexKey(tb, ix, r.vals)
		if err != nil {
			return nil, err
		}
		if !ok2 || k2 != key {
			continue
		}
		mine := x.top == c.txn
		if !mine && x.top.state == txActive {
			// inserted by another in-progress transaction: its fate decides
			return nil, &waitErr{on: x.top.sess, what: "unique index " + ix.Name}
		}
		// creator committed or it is ours: is the row still alive?
		if d := r.xmax; d != nil && d.live() {
			if d.top == c.txn || d.top.state == txCommitted {
				continue // deleted / superseded
			}
			if d.top.state == txActive {
				return nil, &waitErr{on: d.top.sess, what: "unique index " + ix.Name + " (pending delete)"}
			}
		}
		return r, nil
	}
	return nil, nil
}

func uniqueViolation(tb *Table, ix *Index) *PgErr {
	return &PgErr{Code: "23505", Message: fmt.Sprintf("duplicate key value violates unique constraint %q", ix.Name), Constraint: ix.Name, Table: tb.Name}
}

func (c *execCtx) checkConstraints(tb *Table, vals []Value) error {
	for i, col := range tb.Cols {
		if col.NotNull && vals[i] == nil {
			return &PgErr{Code: "23502", Message: fmt.Sprintf("null value in column %q of relation %q violates not-null constraint", col.Name, tb.Name), Table: tb.Name}
		}
	}
	if len(tb.Checks) > 0 {
		e := &env{ctx: c, fr: tableFrame(tb, ""), tup: &tuple{vals: vals, srcs: []*RowVer{nil}}}
		for _, ck := range tb.Checks {
			v, err := e.eval(ck.Expr)
			if err != nil {
				return err
			}
			if b, null := truth(v); !null && !b {
				return &PgErr{Code: "23514", Message: fmt.Sprintf("new row for relation %q violates check constraint %q", tb.Name, ck.Name), Constraint: ck.Name, Table: tb.Name}
			}
		}
	}
	return nil
}

func rowRecord(tb *Table, vals []Value) *Record {
	return &Record{Type: tb.Name, Names: tb.colNames(), Fields: append([]Value(nil), vals...)}
}

// fireRowTriggers runs the BEFORE or AFTER row triggers of an event. For BEFORE triggers the possibly
// modified NEW values are returned (nil => skip the row).
func (c *execCtx) fireRowTriggers(tb *Table, before bool, event string, oldVals, newVals []Value, changed map[string]bool) ([]Value, error) {
	cur := newVals
	for _, tr := range tb.Triggers {
		if tr.Before != before {
			continue
		}
		has := false
		for _, ev := range tr.Events {
			if ev == event {
				has = true
			}
		}
		if !has {
			continue
		}
		if tr.Deferred {
			return nil, unsupported("deferred constraint trigger %s fired", tr.Name)
		}
		if event == "update" && len(tr.UpdateOf) > 0 {
			hit := false
			for _, cn := range tr.UpdateOf {
				if changed[cn] {
					hit = true
				}
			}
			if !hit {
				continue
			}
		}
		vars := &varEnv{vars: map[string]*Value{}, types: map[string]string{}}
		var newRec, oldRec Value
		if cur != nil {
			newRec = rowRecord(tb, cur)
		}
		if oldVals != nil {
			oldRec = rowRecord(tb, oldVals)
		}
		vars.vars["new"] = &newRec
		vars.vars["old"] = &oldRec
		if tr.When != nil {
			wc := c.child()
			wc.vars = vars
			v, err := (&env{ctx: wc, fr: &frame{}, tup: &tuple{}}).eval(tr.When)
			if err != nil {
				return nil, err
			}
			if b, null := truth(v); null || !b {
				continue
			}
		}
		f := c.db.findFunc(c.sess, tr.FuncSch, tr.Func, 0)
		if f == nil {
			if tr.FuncSch == "" {
				f = c.db.findFunc(c.sess, tb.Schema, tr.Func, 0)
			}
			if f == nil {
				return nil, &PgErr{Code: "42883", Message: fmt.Sprintf("trigger function %s does not exist", tr.Func)}
			}
		}
		ret, err := c.callTrigger(f, tb, vars, strings.ToUpper(event))
		if err != nil {
			return nil, err
		}
		if before {
			if ret == nil {
				return nil, nil // skip row
			}
			rec, ok := ret.(*Record)
			if !ok {
				return nil, errf("39P01", "trigger function %s must return a row", f.Name)
			}
			nv := make([]Value, len(tb.Cols))
			for i, col := range tb.Cols {
				v, _ := rec.Get(col.Name)
				cv, err := c.db.castTo(v, col.Type)
				if err != nil {
					return nil, err
				}
				nv[i] = cv
			}
			cur = nv
		}
	}
	return cur, nil
}

type afterEvent struct {
	event   string
	oldVals []Value
	newVals []Value
	changed map[string]bool
}

func (c *execCtx) runAfter(tb *Table, evs []afterEvent) error {
	for _, ev := range evs {
		if _, err := c.fireRowTriggers(tb, false, ev.event, ev.oldVals, ev.newVals, ev.changed); err != nil {
			return err
		}
	}
	return nil
}

func (c *execCtx) insertRow(tb *Table, vals []Value) *RowVer {
	tb.nextRowID++
	r := &RowVer{id: tb.nextRowID, vals: vals, xmin: c.wx, cmin: c.snap.cid}
	tb.Rows = append(tb.Rows, r)
	c.txn.touch(tb, r)
	return r
}

func (c *execCtx) supersede(tb *Table, old *RowVer, vals []Value) *RowVer {
	old.xmax = c.wx
	old.cmax = c.snap.cid
	c.txn.touch(tb, old)
	if vals == nil {
		return nil
	}
	nr := c.insertRow(tb, vals)
	old.next = nr
	return nr
}

// returningResult evaluates a RETURNING list for the affected rows.
func (c *execCtx) returningResult(tb *Table, alias string, items []SelItem, rows [][]Value, extra []*tuple, extraFr *frame, outer *env) (*Result, error) {
	res := &Result{}
	if len(items) == 0 {
		return res, nil
	}
	fr := tableFrame(tb, alias)
	if extraFr != nil {
		fr = joinFrames(fr, extraFr)
	}
	type oc struct {
		expr Expr
		idx  int
	}
	var outs []oc
	for _, it := range items {
		if st, ok := it.Expr.(*Star); ok {
			for _, r := range fr.rels {
				if st.Table != "" && r.alias != st.Table {
					continue
				}
				if st.Table == "" && r.table != tb {
					continue
				}
				for i, cn := range r.cols {
					res.Cols = append(res.Cols, cn)
					ty := ""
					if r.types != nil {
						ty = r.types[i]
					}
					res.Types = append(res.Types, ty)
					outs = append(outs, oc{idx: r.off + i})
				}
			}
			continue
		}
		name := it.Alias
		if name == "" {
			name = exprName(it.Expr)
		}
		res.Cols = append(res.Cols, name)
		res.Types = append(res.Types, c.exprType(it.Expr, fr))
		outs = append(outs, oc{expr: it.Expr})
	}
	for i, vals := range rows {
		t := &tuple{vals: vals, srcs: []*RowVer{nil}}
		if extraFr != nil {
			t = joinTuples(t, extra[i])
		}
		e := &env{ctx: c, fr: fr, tup: t, parent: outer}
		out := make([]Value, len(outs))
		for j, o := range outs {
			if o.expr == nil {
				out[j] = t.vals[o.idx]
				continue
			}
			v, err := e.eval(o.expr)
			if err != nil {
				return nil, err
			}
			out[j] = v
		}
		res.Rows = append(res.Rows, out)
	}
	return res, nil
}

// ---------------------------------------------------------------------------- INSERT

func (c *execCtx) runInsert(ins *Insert, outer *env) (*Result, error) {
	if err := c.needTxn(); err != nil {
		return nil, err
	}
	cc := c
	if len(ins.With) > 0 {
		wrap := &Select{With: ins.With, Cols: []SelItem{{Expr: &Lit{V: big.NewInt(1)}}}}
		_ = wrap
		cc = c.child()
		for i := range ins.With {
			cte := &ins.With[i]
			q, ok := cte.Query.(*Select)
			if !ok {
				return nil, unsupported("data-modifying CTE attached to INSERT")
			}
			res, err := cc.runSelect(q, outer)
			if err != nil {
				return nil, err
			}
			if len(cte.ColNames) > 0 {
				cols := append([]string(nil), res.Cols...)
				copy(cols, cte.ColNames)
				res = &Result{Cols: cols, Types: res.Types, Rows: res.Rows}
			}
			cc.ctes = &cteEnv{parent: cc.ctes, name: cte.Name, res: res}
		}
	}
	c = cc
	tb, err := c.tableFor(ins.Schema, ins.Table)
	if err != nil {
		return nil, err
	}
	cols := ins.Cols
	if len(cols) == 0 {
		cols = tb.colNames()
	}
	colIdx := make([]int, len(cols))
	for i, cn := range cols {
		colIdx[i] = tb.colIndex(cn)
		if colIdx[i] < 0 {
			return nil, &PgErr{Code: "42703", Message: fmt.Sprintf("column %q of relation %q does not exist", cn, tb.Name)}
		}
	}
	// source rows
	var srcRows [][]Value
	var defaults [][]bool
	if ins.DefaultValues {
		srcRows = [][]Value{{}}
		cols, colIdx = nil, nil
	} else if ins.Source.Values != nil && ins.Source.SetOp == "" {
		e := &env{ctx: c, fr: &frame{}, tup: &tuple{}, parent: outer}
		for _, row := range ins.Source.Values {
			if len(row) > len(cols) {
				return nil, errf("42601", "INSERT has more expressions than target columns")
			}
			vals := make([]Value, len(row))
			defs := make([]bool, len(row))
			for i, x := range row {
				if cr, ok := x.(*ColRef); ok && cr.Name == "\x00default" {
					defs[i] = true
					continue
				}
				v, err := e.eval(x)
				if err != nil {
					return nil, err
				}
				vals[i] = v
			}
			srcRows = append(srcRows, vals)
			defaults = append(defaults, defs)
		}
	} else {
		res, err := c.runSelect(ins.Source, outer)
		if err != nil {
			return nil, err
		}
		if len(res.Cols) > len(cols) {
			return nil, errf("42601", "INSERT has more expressions than target columns")
		}
		srcRows = res.Rows
	}

	alias := ins.Alias
	var arbiters []*Index
	if oc := ins.OnConflict; oc != nil {
		for _, ix := range tb.Indexes {
			if !ix.Unique {
				continue
			}
			if len(oc.Cols) == 0 && oc.Constraint == "" {
				arbiters = append(arbiters, ix)
				continue
			}
			if oc.Constraint != "" {
				if ix.Name == oc.Constraint {
					arbiters = append(arbiters, ix)
				}
				continue
			}
			if len(ix.Exprs) == 0 && sameSet(ix.Cols, oc.Cols) {
				// a partial index is inferred only when the ON CONFLICT carries a predicate; a plain index
				// needs no predicate
				if ix.Where != nil && oc.Where == nil {
					continue
				}
				arbiters = append(arbiters, ix)
			}
		}
		if len(arbiters) == 0 && (len(oc.Cols) > 0 || oc.Constraint != "") {
			return nil, errf("42P10", "there is no unique or exclusion constraint matching the ON CONFLICT specification")
		}
	}

	var outRows [][]Value
	var after []afterEvent
	affected := int64(0)
	touchedByUpsert := map[*RowVer]bool{}

	for ri, src := range srcRows {
		vals := make([]Value, len(tb.Cols))
		given := make([]bool, len(tb.Cols))
		for i, v := range src {
			if defaults != nil && defaults[ri][i] {
				continue
			}
			cv, err := c.db.castTo(v, tb.Cols[colIdx[i]].Type)
			if err != nil {
				return nil, err
			}
			vals[colIdx[i]] = cv
			given[colIdx[i]] = true
		}
		for i, col := range tb.Cols {
			if !given[i] {
				dv, err := c.evalDefault(tb, col)
				if err != nil {
					return nil, err
				}
				vals[i] = dv
			}
		}
		// BEFORE INSERT row triggers
		nv, err := c.fireRowTriggers(tb, true, "insert", nil, vals, nil)
		if err != nil {
			return nil, err
		}
		if nv == nil {
			continue
		}
		vals = nv
		if err := c.checkConstraints(tb, vals); err != nil {
			return nil, err
		}
		// uniqueness: arbiter indexes first
		var hit *conflict
		for _, ix := range arbiters {
			r, err := c.findConflict(tb, ix, vals, nil)
			if err != nil {
				return nil, err
			}
			if r != nil {
				hit = &conflict{ix: ix, row: r}
				break
			}
		}
		if hit != nil {
			oc := ins.OnConflict
			if oc.DoNothing {
				continue
			}
			// DO UPDATE: lock the existing row
			old := hit.row
			if h := rowHolder(old, c.txn); h != nil {
				return nil, &waitErr{on: h.sess, what: "row lock (ON CONFLICT DO UPDATE)"}
			}
			if touchedByUpsert[old] {
				return nil, errf("21000", "ON CONFLICT DO UPDATE command cannot affect row a second time")
			}
			// follow to the live version if we updated it earlier in this transaction
			fr := tableFrame(tb, alias)
			if alias == "" {
				// the target can be referenced by its table name
			}
			exFr := (&frame{}).add(&relSchema{alias: "excluded", cols: tb.colNames()})
			jf := joinFrames(fr, exFr)
			jt := joinTuples(&tuple{vals: old.vals, srcs: []*RowVer{old}}, &tuple{vals: vals, srcs: []*RowVer{nil}})
			e := &env{ctx: c, fr: jf, tup: jt, parent: outer}
			if oc.UpdWhere != nil {
				v, err := e.eval(oc.UpdWhere)
				if err != nil {
					return nil, err
				}
				if b, null := truth(v); null || !b {
					// row is locked but not updated
					lk := false
					for _, l := range old.lockers {
						if l.top == c.txn && l.live() {
							lk = true
						}
					}
					if !lk {
						old.lockers = append(old.lockers, c.wx)
						c.txn.touch(tb, old)
					}
					continue
				}
			}
			newVals := append([]Value(nil), old.vals...)
			changed := map[string]bool{}
			for _, set := range oc.Sets {
				if set.Col == "" {
					return nil, unsupported("multi-column SET in ON CONFLICT")
				}
				i := tb.colIndex(set.Col)
				if i < 0 {
					return nil, &PgErr{Code: "42703", Message: fmt.Sprintf("column %q of relation %q does not exist", set.Col, tb.Name)}
				}
				v, err := e.eval(set.Expr)
				if err != nil {
					return nil, err
				}
				cv, err := c.db.castTo(v, tb.Cols[i].Type)
				if err != nil {
					return nil, err
				}
				newVals[i] = cv
				changed[set.Col] = true
			}
			nv2, err := c.fireRowTriggers(tb, true, "update", old.vals, newVals, changed)
			if err != nil {
				return nil, err
			}
			if nv2 == nil {
				continue
			}
			newVals = nv2
			if err := c.checkConstraints(tb, newVals); err != nil {
				return nil, err
			}
			for _, ix := range tb.Indexes {
				if !ix.Unique {
					continue
				}
				r, err := c.findConflict(tb, ix, newVals, old)
				if err != nil {
					return nil, err
				}
				if r != nil {
					return nil, uniqueViolation(tb, ix)
				}
			}
			nr := c.supersede(tb, old, newVals)
			touchedByUpsert[nr] = true
			touchedByUpsert[old] = true
			after = append(after, afterEvent{event: "update", oldVals: old.vals, newVals: newVals, changed: changed})
			outRows = append(outRows, newVals)
			affected++
			continue
		}
		// remaining unique indexes raise
		for _, ix := range tb.Indexes {
			if !ix.Unique {
				continue
			}
			isArb := false
			for _, a := range arbiters {
				if a == ix {
					isArb = true
				}
			}
			if isArb {
				continue
			}
			r, err := c.findConflict(tb, ix, vals, nil)
			if err != nil {
				return nil, err
			}
			if r != nil {
				return nil, uniqueViolation(tb, ix)
			}
		}
		nr := c.insertRow(tb, vals)
		touchedByUpsert[nr] = true
		after = append(after, afterEvent{event: "insert", newVals: vals})
		outRows = append(outRows, vals)
		affected++
	}
	if err := c.runAfter(tb, after); err != nil {
		return nil, err
	}
	res, err := c.returningResult(tb, alias, ins.Returning, outRows, nil, nil, outer)
	if err != nil {
		return nil, err
	}
	res.N = affected
	res.Tag = "INSERT"
	return res, nil
}

func sameSet(a, b []string) bool {
	if len(a) != len(b) {
		return false
	}
	m := map[string]bool{}
	for _, x := range a {
		m[x] = true
	}
	for _, y := range b {
		if !m[y] {
			return false
		}
	}
	return true
}

// ---------------------------------------------------------------------------- UPDATE

func (c *execCtx) withCTEs(ctes []CTE, outer *env) (*execCtx, error) {
	if len(ctes) == 0 {
		return c, nil
	}
	cc := c.child()
	for i := range ctes {
		cte := &ctes[i]
		var res *Result
		var err error
		switch q := cte.Query.(type) {
		case *Select:
			res, err = cc.runSelect(q, outer)
		case *Insert:
			res, err = cc.runInsert(q, outer)
		case *Update:
			res, err = cc.runUpdate(q, outer)
		case *Delete:
			res, err = cc.runDelete(q, outer)
		}
		if err != nil {
			return nil, err
		}
		if len(cte.ColNames) > 0 {
			cols := append([]string(nil), res.Cols...)
			copy(cols, cte.ColNames)
			res = &Result{Cols: cols, Types: res.Types, Rows: res.Rows}
		}
		cc.ctes = &cteEnv{parent: cc.ctes, name: cte.Name, res: res}
	}
	return cc, nil
}

func (c *execCtx) runUpdate(u *Update, outer *env) (*Result, error) {
	if err := c.needTxn(); err != nil {
		return nil, err
	}
	c, err := c.withCTEs(u.With, outer)
	if err != nil {
		return nil, err
	}
	tb, err := c.tableFor(u.Schema, u.Table)
	if err != nil {
		return nil, err
	}
	fr := tableFrame(tb, u.Alias)
	var base []*tuple
	for _, r := range tb.Rows {
		if c.snap.sees(r) {
			base = append(base, &tuple{vals: r.vals, srcs: []*RowVer{r}})
		}
	}
	tuples := base
	var extraFr *frame
	if len(u.From) > 0 {
		// join target rows with FROM items (FROM items may not reference the target laterally except in WHERE)
		ef := &frame{}
		ets := []*tuple{{}}
		for _, fi := range u.From {
			ef, ets, err = c.evalFrom(fi, ef, ets, outer)
			if err != nil {
				return nil, err
			}
		}
		extraFr = ef
		var joined []*tuple
		for _, b := range base {
			for _, x := range ets {
				joined = append(joined, joinTuples(b, x))
			}
		}
		tuples = joined
		fr = joinFrames(fr, ef)
	}
	var outRows [][]Value
	var outExtra []*tuple
	var after []afterEvent
	done := map[*RowVer]bool{}
	affected := int64(0)
	for _, t := range tuples {
		e := &env{ctx: c, fr: fr, tup: t, parent: outer}
		if u.Where != nil {
			v, err := e.eval(u.Where)
			if err != nil {
				return nil, err
			}
			if b, null := truth(v); null || !b {
				continue
			}
		}
		old := t.srcs[0]
		if done[old] {
			continue // a target row joined to several FROM rows is updated once
		}
		if h := rowHolder(old, c.txn); h != nil {
			return nil, &waitErr{on: h.sess, what: "row lock (UPDATE " + tb.Name + ")"}
		}
		if x := old.xmax; x != nil && x.live() && x.top == c.txn {
			continue // already updated by this command / a nested one
		}
		newVals := append([]Value(nil), old.vals...)
		changed := map[string]bool{}
		for _, set := range u.Sets {
			if set.Col == "" {
				return nil, unsupported("multi-column SET")
			}
			i := tb.colIndex(set.Col)
			if i < 0 {
				return nil, &PgErr{Code: "42703", Message: fmt.Sprintf("column %q of relation %q does not exist", set.Col, tb.Name)}
			}
			var v Value
			if cr, ok := set.Expr.(*ColRef); ok && cr.Name == "\x00default" {
				v, err = c.evalDefault(tb, tb.Cols[i])
			} else {
				v, err = e.eval(set.Expr)
			}
			if err != nil {
				return nil, err
			}
			cv, err := c.db.castTo(v, tb.Cols[i].Type)
			if err != nil {
				return nil, err
			}
			newVals[i] = cv
			changed[set.Col] = true
		}
		nv, err := c.fireRowTriggers(tb, true, "update", old.vals, newVals, changed)
		if err != nil {
			return nil, err
		}
		if nv == nil {
			continue
		}
		newVals = nv
		if err := c.checkConstraints(tb, newVals); err != nil {
			return nil, err
		}
		for _, ix := range tb.Indexes {
			if !ix.Unique {
				continue
			}
			r, err := c.findConflict(tb, ix, newVals, old)
			if err != nil {
				return nil, err
			}
			if r != nil {
				return nil, uniqueViolation(tb, ix)
			}
		}
		c.supersede(tb, old, newVals)
		done[old] = true
		after = append(after, afterEvent{event: "update", oldVals: old.vals, newVals: newVals, changed: changed})
		outRows = append(outRows, newVals)
		if extraFr != nil {
			outExtra = append(outExtra, &tuple{vals: t.vals[len(tb.Cols):], srcs: t.srcs[1:]})
		}
		affected++
	}
	if err := c.runAfter(tb, after); err != nil {
		return nil, err
	}
	res, err := c.returningResult(tb, u.Alias, u.Returning, outRows, outExtra, extraFr, outer)
	if err != nil {
		return nil, err
	}
	res.N = affected
	res.Tag = "UPDATE"
	return res, nil
}

// ---------------------------------------------------------------------------- DELETE

func (c *execCtx) runDelete(d *Delete, outer *env) (*Result, error) {
	if err := c.needTxn(); err != nil {
		return nil, err
	}
	c, err := c.withCTEs(d.With, outer)
	if err != nil {
		return nil, err
	}
	tb, err := c.tableFor(d.Schema, d.Table)
	if err != nil {
		return nil, err
	}
	if len(d.Using) > 0 {
		return nil, unsupported("DELETE ... USING")
	}
	fr := tableFrame(tb, d.Alias)
	var outRows [][]Value
	var after []afterEvent
	affected := int64(0)
	var targets []*RowVer
	for _, r := range tb.Rows {
		if !c.snap.sees(r) {
			continue
		}
		e := &env{ctx: c, fr: fr, tup: &tuple{vals: r.vals, srcs: []*RowVer{r}}, parent: outer}
		if d.Where != nil {
			v, err := e.eval(d.Where)
			if err != nil {
				return nil, err
			}
			if b, null := truth(v); null || !b {
				continue
			}
		}
		targets = append(targets, r)
	}
	for _, r := range targets {
		if h := rowHolder(r, c.txn); h != nil {
			return nil, &waitErr{on: h.sess, what: "row lock (DELETE " + tb.Name + ")"}
		}
		if x := r.xmax; x != nil && x.live() && x.top == c.txn {
			continue
		}
		if _, err := c.fireRowTriggers(tb, true, "delete", r.vals, nil, nil); err != nil {
			return nil, err
		}
		c.supersede(tb, r, nil)
		after = append(after, afterEvent{event: "delete", oldVals: r.vals})
		outRows = append(outRows, r.vals)
		affected++
	}
	if err := c.runAfter(tb, after); err != nil {
		return nil, err
	}
	res, err := c.returningResult(tb, d.Alias, d.Returning, outRows, nil, nil, outer)
	if err != nil {
		return nil, err
	}
	res.N = affected
	res.Tag = "DELETE"
	return res, nil
}
