package pgmodel

import (
	"math/big"
	"strconv"
	"strings"
)

type parser struct {
	toks []token
	p    int
	src  string
}

func newParser(src string) (*parser, error) {
	toks, err := lex(src)
	if err != nil {
		return nil, err
	}
	return &parser{toks: toks, src: src}, nil
}

func (p *parser) peek() token { return p.toks[p.p] }
func (p *parser) peekN(n int) token {
	if p.p+n < len(p.toks) {
		return p.toks[p.p+n]
	}
	return p.toks[len(p.toks)-1]
}
func (p *parser) next() token {
	t := p.toks[p.p]
	if t.kind != tEOF {
		p.p++
	}
	return t
}
func (p *parser) eof() bool { return p.peek().kind == tEOF }

func (p *parser) isKw(kw string) bool {
	t := p.peek()
	return t.kind == tIdent && t.s == kw
}
func (p *parser) isKwN(n int, kw string) bool {
	t := p.peekN(n)
	return t.kind == tIdent && t.s == kw
}
func (p *parser) acceptKw(kw string) bool {
	if p.isKw(kw) {
		p.p++
		return true
	}
	return false
}
func (p *parser) acceptKws(kws ...string) bool {
	for i, kw := range kws {
		if !p.isKwN(i, kw) {
			return false
		}
	}
	p.p += len(kws)
	return true
}
func (p *parser) expectKw(kw string) error {
	if !p.acceptKw(kw) {
		return p.errHere("expected %q", kw)
	}
	return nil
}
func (p *parser) isOp(op string) bool {
	t := p.peek()
	return t.kind == tOp && t.s == op
}
func (p *parser) acceptOp(op string) bool {
	if p.isOp(op) {
		p.p++
		return true
	}
	return false
}
func (p *parser) expectOp(op string) error {
	if !p.acceptOp(op) {
		return p.errHere("expected %q", op)
	}
	return nil
}

func (p *parser) errHere(format string, a ...any) error {
	t := p.peek()
	ctx := ""
	if t.pos < len(p.src) {
		end := t.pos + 40
		if end > len(p.src) {
			end = len(p.src)
		}
		ctx = p.src[t.pos:end]
	}
	e := unsupported(format, a...)
	e.Message += " near «" + ctx + "»"
	e.Code = "0A000"
	return e
}

// reserved words that cannot be a bare alias / end an expression list
var reserved = map[string]bool{
	"select": true, "from": true, "where": true, "group": true, "having": true, "order": true, "limit": true,
	"offset": true, "union": true, "except": true, "intersect": true, "on": true, "join": true, "left": true,
	"right": true, "inner": true, "outer": true, "cross": true, "full": true, "lateral": true, "as": true,
	"and": true, "or": true, "not": true, "for": true, "returning": true, "set": true,
	"when": true, "then": true, "else": true, "end": true, "into": true, "using": true, "with": true,
	"window": true, "fetch": true, "do": true, "conflict": true, "natural": true, "is": true, "in": true,
	"like": true, "ilike": true, "between": true, "case": true, "loop": true, "asc": true, "desc": true,
	"nulls": true, "distinct": true, "all": true, "any": true, "exists": true, "null": true, "true": true,
	"false": true, "default": true, "array": true, "isnull": true, "notnull": true, "over": true, "filter": true,
}

func (p *parser) ident() (string, error) {
	t := p.peek()
	if t.kind == tQIdent {
		p.p++
		return t.s, nil
	}
	if t.kind == tIdent {
		p.p++
		return t.s, nil
	}
	return "", p.errHere("expected identifier")
}

// qualifiedName parses a.b.c and returns the parts.
func (p *parser) qualifiedName() ([]string, error) {
	first, err := p.ident()
	if err != nil {
		return nil, err
	}
	parts := []string{first}
	for p.isOp(".") && (p.peekN(1).kind == tIdent || p.peekN(1).kind == tQIdent) {
		p.p++
		s, _ := p.ident()
		parts = append(parts, s)
	}
	return parts, nil
}

// ---------------------------------------------------------------------------- statements

// parseStatement parses one statement (no trailing ';' required).
func parseStatement(src string) (Stmt, error) {
	p, err := newParser(src)
	if err != nil {
		return nil, err
	}
	st, err := p.statement()
	if err != nil {
		return nil, err
	}
	p.acceptOp(";")
	if !p.eof() {
		return nil, p.errHere("unexpected trailing input")
	}
	return st, nil
}

func (p *parser) statement() (Stmt, error) {
	t := p.peek()
	if t.kind == tOp && t.s == "(" {
		return p.selectStmt()
	}
	if t.kind != tIdent {
		return nil, p.errHere("unexpected token")
	}
	switch t.s {
	case "select", "values", "with", "table":
		if t.s == "with" {
			return p.withStatement()
		}
		return p.selectStmt()
	case "insert":
		return p.insertStmt(nil)
	case "update":
		return p.updateStmt(nil)
	case "delete":
		return p.deleteStmt(nil)
	case "begin", "start":
		p.p = len(p.toks) - 1
		return &TxStmt{Kind: "begin"}, nil
	case "commit", "end":
		p.p = len(p.toks) - 1
		return &TxStmt{Kind: "commit"}, nil
	case "rollback":
		p.next()
		if p.acceptKw("to") {
			p.acceptKw("savepoint")
			n, err := p.ident()
			if err != nil {
				return nil, err
			}
			return &TxStmt{Kind: "rollback_to", Name: n}, nil
		}
		p.p = len(p.toks) - 1
		return &TxStmt{Kind: "rollback"}, nil
	case "savepoint":
		p.next()
		n, err := p.ident()
		if err != nil {
			return nil, err
		}
		return &TxStmt{Kind: "savepoint", Name: n}, nil
	case "release":
		p.next()
		p.acceptKw("savepoint")
		n, err := p.ident()
		if err != nil {
			return nil, err
		}
		return &TxStmt{Kind: "release", Name: n}, nil
	case "set":
		p.next()
		local := p.acceptKw("local")
		p.acceptKw("session")
		name, err := p.ident()
		if err != nil {
			return nil, err
		}
		if !p.acceptOp("=") {
			p.acceptKw("to")
		}
		var val []string
		for !p.eof() && !p.isOp(";") {
			val = append(val, p.next().s)
		}
		return &SetStmt{Name: name, Value: strings.Join(val, ""), Local: local}, nil
	case "call":
		p.next()
		e, err := p.primary()
		if err != nil {
			return nil, err
		}
		fc, ok := e.(*FuncCall)
		if !ok {
			return nil, p.errHere("CALL expects a procedure call")
		}
		return &CallStmt{Call: fc}, nil
	case "do":
		p.next()
		if p.acceptKw("language") {
			p.next()
		}
		b := p.next()
		if b.kind != tString {
			return nil, p.errHere("DO expects a string body")
		}
		if p.acceptKw("language") {
			p.next()
		}
		return &DoStmt{Body: b.s}, nil
	case "create", "alter", "drop", "comment", "vacuum", "analyze", "lock", "truncate", "grant", "revoke", "reindex", "cluster", "notify", "listen":
		toks := p.toks[p.p:]
		end := len(toks) - 1
		raw := &RawDDL{Kind: t.s, Toks: append([]token(nil), toks[:end]...), Text: p.src}
		p.p = len(p.toks) - 1
		return raw, nil
	}
	return nil, p.errHere("unsupported statement %q", t.s)
}

func (p *parser) ctes() ([]CTE, bool, error) {
	if !p.acceptKw("with") {
		return nil, false, nil
	}
	rec := p.acceptKw("recursive")
	var out []CTE
	for {
		name, err := p.ident()
		if err != nil {
			return nil, false, err
		}
		c := CTE{Name: name}
		if p.acceptOp("(") {
			for {
				cn, err := p.ident()
				if err != nil {
					return nil, false, err
				}
				c.ColNames = append(c.ColNames, cn)
				if !p.acceptOp(",") {
					break
				}
			}
			if err := p.expectOp(")"); err != nil {
				return nil, false, err
			}
		}
		if err := p.expectKw("as"); err != nil {
			return nil, false, err
		}
		if p.acceptKw("not") {
			p.acceptKw("materialized")
		} else {
			p.acceptKw("materialized")
		}
		if err := p.expectOp("("); err != nil {
			return nil, false, err
		}
		var q Stmt
		switch {
		case p.isKw("insert"):
			q, err = p.insertStmt(nil)
		case p.isKw("update"):
			q, err = p.updateStmt(nil)
		case p.isKw("delete"):
			q, err = p.deleteStmt(nil)
		default:
			q, err = p.selectStmt()
		}
		if err != nil {
			return nil, false, err
		}
		c.Query = q
		if err := p.expectOp(")"); err != nil {
			return nil, false, err
		}
		out = append(out, c)
		if !p.acceptOp(",") {
			break
		}
	}
	return out, rec, nil
}

func (p *parser) withStatement() (Stmt, error) {
	save := p.p
	ctes, rec, err := p.ctes()
	if err != nil {
		return nil, err
	}
	switch {
	case p.isKw("insert"):
		return p.insertStmt(ctes)
	case p.isKw("update"):
		return p.updateStmt(ctes)
	case p.isKw("delete"):
		return p.deleteStmt(ctes)
	}
	_ = rec
	p.p = save
	return p.selectStmt()
}

// selectStmt parses [WITH ...] select_core [set-op select_core]* [ORDER BY][LIMIT][OFFSET][FOR UPDATE]
func (p *parser) selectStmt() (*Select, error) {
	ctes, rec, err := p.ctes()
	if err != nil {
		return nil, err
	}
	left, err := p.selectCore()
	if err != nil {
		return nil, err
	}
	cur := left
	for p.isKw("union") || p.isKw("except") || p.isKw("intersect") {
		op := p.next().s
		if p.acceptKw("all") {
			op += " all"
		} else {
			p.acceptKw("distinct")
		}
		right, err := p.selectCore()
		if err != nil {
			return nil, err
		}
		// left-assoc chain: wrap
		if cur.SetOp != "" {
			wrapped := &Select{Cols: nil}
			*wrapped = *cur
			cur = &Select{From: nil}
			cur.leftWrap(wrapped)
		}
		cur.SetOp = op
		cur.Right = right
	}
	top := cur
	if top.Paren && top.SetOp == "" && (p.isKw("order") || p.isKw("limit") || p.isKw("offset")) {
		// ( select ... ) order by ...  -> wrap to keep inner clauses
		inner := &Select{}
		*inner = *top
		top = &Select{Cols: []SelItem{{Expr: &Star{}}}, From: []FromItem{&SubqueryRef{Sub: inner, Alias: "_paren"}}}
	}
	if err := p.selectTail(top); err != nil {
		return nil, err
	}
	if len(ctes) > 0 {
		top.With = append(ctes, top.With...)
		top.Recursive = rec
	}
	return top, nil
}

func (s *Select) leftWrap(inner *Select) {
	s.Cols = []SelItem{{Expr: &Star{}}}
	s.From = []FromItem{&SubqueryRef{Sub: inner, Alias: "_setop"}}
}

func (p *parser) selectTail(s *Select) error {
	for {
		switch {
		case p.isKw("order") && p.isKwN(1, "by"):
			p.p += 2
			items, err := p.orderItems()
			if err != nil {
				return err
			}
			if s.SetOp != "" || len(s.OrderBy) == 0 {
				s.OrderBy = append(s.OrderBy, items...)
			} else {
				s.OrderBy = items
			}
		case p.isKw("limit"):
			p.p++
			if p.acceptKw("all") {
				continue
			}
			e, err := p.expr()
			if err != nil {
				return err
			}
			s.Limit = e
		case p.isKw("offset"):
			p.p++
			e, err := p.expr()
			if err != nil {
				return err
			}
			s.Offset = e
			if !p.acceptKw("rows") {
				p.acceptKw("row")
			}
		case p.isKw("for") && (p.isKwN(1, "update") || p.isKwN(1, "share") || p.isKwN(1, "no")):
			p.p++
			if p.acceptKw("no") {
				p.acceptKw("key")
			}
			if !p.acceptKw("update") {
				p.acceptKw("share")
			}
			if p.acceptKw("of") {
				if _, err := p.qualifiedName(); err != nil {
					return err
				}
			}
			if p.isKw("nowait") || p.isKw("skip") {
				return p.errHere("FOR UPDATE NOWAIT / SKIP LOCKED")
			}
			s.ForUpdate = true
		case p.isKw("into") && s.Into == nil:
			// PL/pgSQL: select ... into a, b   (trailing position)
			p.p++
			for {
				parts, err := p.qualifiedName()
				if err != nil {
					return err
				}
				s.Into = append(s.Into, strings.Join(parts, "."))
				if !p.acceptOp(",") {
					break
				}
			}
		default:
			return nil
		}
	}
}

func (p *parser) orderItems() ([]OrderItem, error) {
	var out []OrderItem
	for {
		e, err := p.expr()
		if err != nil {
			return nil, err
		}
		it := OrderItem{Expr: e}
		if p.acceptKw("desc") {
			it.Desc = true
		} else {
			p.acceptKw("asc")
		}
		if p.acceptKw("nulls") {
			if p.acceptKw("first") {
				t := true
				it.NullsFirst = &t
			} else if p.acceptKw("last") {
				f := false
				it.NullsFirst = &f
			} else {
				return nil, p.errHere("expected FIRST or LAST")
			}
		}
		out = append(out, it)
		if !p.acceptOp(",") {
			return out, nil
		}
	}
}

func (p *parser) selectCore() (*Select, error) {
	if p.acceptOp("(") {
		s, err := p.selectStmt()
		if err != nil {
			return nil, err
		}
		if err := p.expectOp(")"); err != nil {
			return nil, err
		}
		s.Paren = true
		return s, nil
	}
	if p.acceptKw("values") {
		s := &Select{}
		for {
			if err := p.expectOp("("); err != nil {
				return nil, err
			}
			var row []Expr
			for {
				if p.isKw("default") {
					p.p++
					row = append(row, &ColRef{Name: "\x00default"})
				} else {
					e, err := p.expr()
					if err != nil {
						return nil, err
					}
					row = append(row, e)
				}
				if !p.acceptOp(",") {
					break
				}
			}
			if err := p.expectOp(")"); err != nil {
				return nil, err
			}
			s.Values = append(s.Values, row)
			if !p.acceptOp(",") {
				break
			}
		}
		return s, nil
	}
	if err := p.expectKw("select"); err != nil {
		return nil, err
	}
	s := &Select{}
	if p.acceptKw("distinct") {
		if p.acceptKw("on") {
			if err := p.expectOp("("); err != nil {
				return nil, err
			}
			for {
				e, err := p.expr()
				if err != nil {
					return nil, err
				}
				s.DistinctOn = append(s.DistinctOn, e)
				if !p.acceptOp(",") {
					break
				}
			}
			if err := p.expectOp(")"); err != nil {
				return nil, err
			}
		} else {
			s.Distinct = true
		}
	} else {
		p.acceptKw("all")
	}
	// select list (may be empty: "select from x")
	if !p.isKw("from") && !p.eof() && !p.isOp(")") && !p.isOp(";") {
		for {
			it, err := p.selItem()
			if err != nil {
				return nil, err
			}
			s.Cols = append(s.Cols, it)
			if !p.acceptOp(",") {
				break
			}
		}
	}
	if p.isKw("into") {
		p.p++
		p.acceptKw("strict")
		for {
			parts, err := p.qualifiedName()
			if err != nil {
				return nil, err
			}
			s.Into = append(s.Into, strings.Join(parts, "."))
			if !p.acceptOp(",") {
				break
			}
		}
	}
	if p.acceptKw("from") {
		for {
			fi, err := p.fromItem()
			if err != nil {
				return nil, err
			}
			s.From = append(s.From, fi)
			if !p.acceptOp(",") {
				break
			}
		}
	}
	if p.acceptKw("where") {
		e, err := p.expr()
		if err != nil {
			return nil, err
		}
		s.Where = e
	}
	if p.acceptKws("group", "by") {
		for {
			e, err := p.expr()
			if err != nil {
				return nil, err
			}
			s.GroupBy = append(s.GroupBy, e)
			if !p.acceptOp(",") {
				break
			}
		}
	}
	if p.acceptKw("having") {
		e, err := p.expr()
		if err != nil {
			return nil, err
		}
		s.Having = e
	}
	return s, nil
}

func (p *parser) selItem() (SelItem, error) {
	if p.isOp("*") {
		p.p++
		return SelItem{Expr: &Star{}}, nil
	}
	e, err := p.expr()
	if err != nil {
		return SelItem{}, err
	}
	it := SelItem{Expr: e}
	if p.acceptKw("as") {
		a, err := p.ident()
		if err != nil {
			return it, err
		}
		it.Alias = a
	} else if t := p.peek(); t.kind == tQIdent || (t.kind == tIdent && !reserved[t.s]) {
		p.p++
		it.Alias = t.s
	}
	return it, nil
}

func (p *parser) aliasOpt() (string, []string, error) {
	alias := ""
	if p.acceptKw("as") {
		a, err := p.ident()
		if err != nil {
			return "", nil, err
		}
		alias = a
	} else if t := p.peek(); t.kind == tQIdent || (t.kind == tIdent && !reserved[t.s]) {
		p.p++
		alias = t.s
	}
	var cols []string
	if alias != "" && p.isOp("(") {
		p.p++
		for {
			c, err := p.ident()
			if err != nil {
				return "", nil, err
			}
			cols = append(cols, c)
			// optional column type in function alias lists: t(x int)
			for !p.isOp(",") && !p.isOp(")") && !p.eof() {
				p.p++
			}
			if !p.acceptOp(",") {
				break
			}
		}
		if err := p.expectOp(")"); err != nil {
			return "", nil, err
		}
	}
	return alias, cols, nil
}

func (p *parser) fromItem() (FromItem, error) {
	left, err := p.fromPrimary()
	if err != nil {
		return nil, err
	}
	for {
		kind := ""
		switch {
		case p.acceptKws("cross", "join"):
			kind = "cross"
		case p.acceptKws("inner", "join"), p.acceptKw("join"):
			kind = "inner"
		case p.acceptKws("left", "outer", "join"), p.acceptKws("left", "join"):
			kind = "left"
		case p.isKw("right") || p.isKw("full") || p.isKw("natural"):
			return nil, p.errHere("RIGHT/FULL/NATURAL JOIN")
		default:
			return left, nil
		}
		right, err := p.fromPrimary()
		if err != nil {
			return nil, err
		}
		j := &Join{Left: left, Right: right, Kind: kind}
		if kind != "cross" {
			if p.acceptKw("on") {
				e, err := p.expr()
				if err != nil {
					return nil, err
				}
				j.On = e
			} else if p.isKw("using") {
				return nil, p.errHere("JOIN USING")
			} else {
				return nil, p.errHere("expected ON")
			}
		}
		left = j
	}
}

func (p *parser) fromPrimary() (FromItem, error) {
	lateral := p.acceptKw("lateral")
	if p.isOp("(") {
		// subquery or parenthesised join
		if p.isKwN(1, "select") || p.isKwN(1, "with") || p.isKwN(1, "values") || (p.peekN(1).kind == tOp && p.peekN(1).s == "(") {
			p.p++
			sub, err := p.selectStmt()
			if err != nil {
				return nil, err
			}
			if err := p.expectOp(")"); err != nil {
				return nil, err
			}
			alias, cols, err := p.aliasOpt()
			if err != nil {
				return nil, err
			}
			return &SubqueryRef{Sub: sub, Alias: alias, ColAliases: cols, Lateral: lateral}, nil
		}
		p.p++
		fi, err := p.fromItem()
		if err != nil {
			return nil, err
		}
		if err := p.expectOp(")"); err != nil {
			return nil, err
		}
		return fi, nil
	}
	p.acceptKw("only")
	parts, err := p.qualifiedName()
	if err != nil {
		return nil, err
	}
	if p.isOp("(") {
		// table function
		fc := &FuncCall{Name: parts[len(parts)-1]}
		if len(parts) > 1 {
			fc.Schema = parts[len(parts)-2]
		}
		p.p++
		if !p.isOp(")") {
			for {
				an := ""
				if (p.peek().kind == tIdent || p.peek().kind == tQIdent) && (p.peekN(1).kind == tOp && (p.peekN(1).s == ":=" || p.peekN(1).s == "=>")) {
					an = p.next().s
					p.p++
				}
				e, err := p.expr()
				if err != nil {
					return nil, err
				}
				fc.Args = append(fc.Args, e)
				fc.ArgNames = append(fc.ArgNames, an)
				if !p.acceptOp(",") {
					break
				}
			}
		}
		if err := p.expectOp(")"); err != nil {
			return nil, err
		}
		if p.acceptKws("with", "ordinality") {
			return nil, p.errHere("WITH ORDINALITY")
		}
		alias, cols, err := p.aliasOpt()
		if err != nil {
			return nil, err
		}
		return &FuncRef{Call: fc, Alias: alias, ColAliases: cols, Lateral: lateral}, nil
	}
	tr := &TableRef{Name: parts[len(parts)-1]}
	if len(parts) > 1 {
		tr.Schema = parts[len(parts)-2]
	}
	p.acceptOp("*")
	alias, cols, err := p.aliasOpt()
	if err != nil {
		return nil, err
	}
	tr.Alias, tr.ColAliases = alias, cols
	return tr, nil
}

func (p *parser) tableTarget() (schema, table, alias string, err error) {
	p.acceptKw("only")
	parts, err := p.qualifiedName()
	if err != nil {
		return "", "", "", err
	}
	table = parts[len(parts)-1]
	if len(parts) > 1 {
		schema = parts[len(parts)-2]
	}
	if p.acceptKw("as") {
		alias, err = p.ident()
		if err != nil {
			return
		}
	} else if t := p.peek(); (t.kind == tQIdent || (t.kind == tIdent && !reserved[t.s])) && !p.isOp("(") {
		p.p++
		alias = t.s
	}
	return
}

func (p *parser) returning() ([]SelItem, []string, error) {
	if !p.acceptKw("returning") {
		return nil, nil, nil
	}
	var out []SelItem
	for {
		it, err := p.selItem()
		if err != nil {
			return nil, nil, err
		}
		out = append(out, it)
		if !p.acceptOp(",") {
			break
		}
	}
	var into []string
	if p.acceptKw("into") {
		for {
			parts, err := p.qualifiedName()
			if err != nil {
				return nil, nil, err
			}
			into = append(into, strings.Join(parts, "."))
			if !p.acceptOp(",") {
				break
			}
		}
	}
	return out, into, nil
}

func (p *parser) insertStmt(ctes []CTE) (*Insert, error) {
	if err := p.expectKw("insert"); err != nil {
		return nil, err
	}
	if err := p.expectKw("into"); err != nil {
		return nil, err
	}
	ins := &Insert{With: ctes}
	var err error
	// INSERT INTO t [AS alias] [(cols)]
	parts, err := p.qualifiedName()
	if err != nil {
		return nil, err
	}
	ins.Table = parts[len(parts)-1]
	if len(parts) > 1 {
		ins.Schema = parts[len(parts)-2]
	}
	if p.acceptKw("as") {
		if ins.Alias, err = p.ident(); err != nil {
			return nil, err
		}
	}
	if p.isOp("(") && !(p.isKwN(1, "select") || p.isKwN(1, "with") || p.isKwN(1, "values")) {
		p.p++
		for {
			c, err := p.ident()
			if err != nil {
				return nil, err
			}
			ins.Cols = append(ins.Cols, c)
			if !p.acceptOp(",") {
				break
			}
		}
		if err := p.expectOp(")"); err != nil {
			return nil, err
		}
	}
	if p.acceptKws("default", "values") {
		ins.DefaultValues = true
	} else {
		if p.acceptKw("overriding") {
			p.next()
			p.acceptKw("value")
		}
		src, err := p.selectStmt()
		if err != nil {
			return nil, err
		}
		if src.Into != nil {
			// "insert ... select x into y" does not exist; INTO here belongs to RETURNING handled below
			return nil, p.errHere("unexpected INTO in INSERT source")
		}
		ins.Source = src
	}
	if p.acceptKws("on", "conflict") {
		oc := &OnConflict{}
		if p.acceptOp("(") {
			for {
				c, err := p.ident()
				if err != nil {
					return nil, err
				}
				oc.Cols = append(oc.Cols, c)
				if !p.acceptOp(",") {
					break
				}
			}
			if err := p.expectOp(")"); err != nil {
				return nil, err
			}
			if p.acceptKw("where") {
				e, err := p.expr()
				if err != nil {
					return nil, err
				}
				oc.Where = e
			}
		} else if p.acceptKws("on", "constraint") {
			if oc.Constraint, err = p.ident(); err != nil {
				return nil, err
			}
		}
		if err := p.expectKw("do"); err != nil {
			return nil, err
		}
		if p.acceptKw("nothing") {
			oc.DoNothing = true
		} else {
			if err := p.expectKw("update"); err != nil {
				return nil, err
			}
			if err := p.expectKw("set"); err != nil {
				return nil, err
			}
			sets, err := p.setItems()
			if err != nil {
				return nil, err
			}
			oc.Sets = sets
			if p.acceptKw("where") {
				e, err := p.expr()
				if err != nil {
					return nil, err
				}
				oc.UpdWhere = e
			}
		}
		ins.OnConflict = oc
	}
	if ins.Returning, ins.Into, err = p.returning(); err != nil {
		return nil, err
	}
	return ins, nil
}

func (p *parser) setItems() ([]SetItem, error) {
	var out []SetItem
	for {
		if p.acceptOp("(") {
			var cols []string
			for {
				c, err := p.ident()
				if err != nil {
					return nil, err
				}
				cols = append(cols, c)
				if !p.acceptOp(",") {
					break
				}
			}
			if err := p.expectOp(")"); err != nil {
				return nil, err
			}
			if err := p.expectOp("="); err != nil {
				return nil, err
			}
			e, err := p.expr()
			if err != nil {
				return nil, err
			}
			out = append(out, SetItem{Cols: cols, Expr: e})
		} else {
			parts, err := p.qualifiedName()
			if err != nil {
				return nil, err
			}
			if err := p.expectOp("="); err != nil {
				return nil, err
			}
			var e Expr
			if p.isKw("default") {
				p.p++
				e = &ColRef{Name: "\x00default"}
			} else {
				e, err = p.expr()
				if err != nil {
					return nil, err
				}
			}
			out = append(out, SetItem{Col: parts[len(parts)-1], Expr: e})
		}
		if !p.acceptOp(",") {
			return out, nil
		}
	}
}

func (p *parser) updateStmt(ctes []CTE) (*Update, error) {
	if err := p.expectKw("update"); err != nil {
		return nil, err
	}
	u := &Update{With: ctes}
	var err error
	if u.Schema, u.Table, u.Alias, err = p.tableTargetForUpdate(); err != nil {
		return nil, err
	}
	if err := p.expectKw("set"); err != nil {
		return nil, err
	}
	if u.Sets, err = p.setItems(); err != nil {
		return nil, err
	}
	if p.acceptKw("from") {
		for {
			fi, err := p.fromItem()
			if err != nil {
				return nil, err
			}
			u.From = append(u.From, fi)
			if !p.acceptOp(",") {
				break
			}
		}
	}
	if p.acceptKw("where") {
		if u.Where, err = p.expr(); err != nil {
			return nil, err
		}
	}
	if u.Returning, u.Into, err = p.returning(); err != nil {
		return nil, err
	}
	return u, nil
}

func (p *parser) tableTargetForUpdate() (schema, table, alias string, err error) {
	p.acceptKw("only")
	parts, err := p.qualifiedName()
	if err != nil {
		return "", "", "", err
	}
	table = parts[len(parts)-1]
	if len(parts) > 1 {
		schema = parts[len(parts)-2]
	}
	if p.acceptKw("as") {
		alias, err = p.ident()
		return
	}
	if t := p.peek(); (t.kind == tQIdent || t.kind == tIdent) && !reserved[t.s] {
		p.p++
		alias = t.s
	}
	return
}

func (p *parser) deleteStmt(ctes []CTE) (*Delete, error) {
	if err := p.expectKw("delete"); err != nil {
		return nil, err
	}
	if err := p.expectKw("from"); err != nil {
		return nil, err
	}
	d := &Delete{With: ctes}
	var err error
	if d.Schema, d.Table, d.Alias, err = p.tableTargetForUpdate(); err != nil {
		return nil, err
	}
	if p.acceptKw("using") {
		for {
			fi, err := p.fromItem()
			if err != nil {
				return nil, err
			}
			d.Using = append(d.Using, fi)
			if !p.acceptOp(",") {
				break
			}
		}
	}
	if p.acceptKw("where") {
		if d.Where, err = p.expr(); err != nil {
			return nil, err
		}
	}
	if d.Returning, _, err = p.returning(); err != nil {
		return nil, err
	}
	return d, nil
}

// ---------------------------------------------------------------------------- expressions

func (p *parser) expr() (Expr, error) { return p.orExpr() }

func (p *parser) orExpr() (Expr, error) {
	l, err := p.andExpr()
	if err != nil {
		return nil, err
	}
	for p.acceptKw("or") {
		r, err := p.andExpr()
		if err != nil {
			return nil, err
		}
		l = &Binary{Op: "or", L: l, R: r}
	}
	return l, nil
}

func (p *parser) andExpr() (Expr, error) {
	l, err := p.notExpr()
	if err != nil {
		return nil, err
	}
	for p.acceptKw("and") {
		r, err := p.notExpr()
		if err != nil {
			return nil, err
		}
		l = &Binary{Op: "and", L: l, R: r}
	}
	return l, nil
}

func (p *parser) notExpr() (Expr, error) {
	if p.isKw("not") && !p.isKwN(1, "exists") {
		p.p++
		x, err := p.notExpr()
		if err != nil {
			return nil, err
		}
		return &Unary{Op: "not", X: x}, nil
	}
	if p.isKw("not") && p.isKwN(1, "exists") {
		p.p++
		x, err := p.isExpr()
		if err != nil {
			return nil, err
		}
		return &Unary{Op: "not", X: x}, nil
	}
	return p.isExpr()
}

func (p *parser) isExpr() (Expr, error) {
	l, err := p.cmpExpr()
	if err != nil {
		return nil, err
	}
	for {
		if p.acceptKw("is") {
			not := p.acceptKw("not")
			switch {
			case p.acceptKw("null"):
				l = &IsNull{X: l, Not: not}
			case p.acceptKw("true"):
				l = &IsBool{X: l, Val: true, Not: not}
			case p.acceptKw("false"):
				l = &IsBool{X: l, Val: false, Not: not}
			case p.acceptKws("distinct", "from"):
				r, err := p.cmpExpr()
				if err != nil {
					return nil, err
				}
				l = &IsDistinct{L: l, R: r, Not: not}
			default:
				return nil, p.errHere("IS what?")
			}
			continue
		}
		if p.acceptKw("isnull") {
			l = &IsNull{X: l}
			continue
		}
		if p.acceptKw("notnull") {
			l = &IsNull{X: l, Not: true}
			continue
		}
		return l, nil
	}
}

var cmpOps = map[string]bool{"=": true, "<>": true, "!=": true, "<": true, "<=": true, ">": true, ">=": true}

func (p *parser) cmpExpr() (Expr, error) {
	l, err := p.inExpr()
	if err != nil {
		return nil, err
	}
	for {
		t := p.peek()
		if t.kind == tOp && cmpOps[t.s] {
			p.p++
			op := t.s
			if op == "!=" {
				op = "<>"
			}
			if p.isKw("any") || p.isKw("all") || p.isKw("some") {
				all := p.next().s == "all"
				if err := p.expectOp("("); err != nil {
					return nil, err
				}
				aa := &AnyAll{X: l, Op: op, All: all}
				if p.isKw("select") || p.isKw("with") {
					if aa.Sub, err = p.selectStmt(); err != nil {
						return nil, err
					}
				} else {
					if aa.Arr, err = p.expr(); err != nil {
						return nil, err
					}
				}
				if err := p.expectOp(")"); err != nil {
					return nil, err
				}
				l = aa
				continue
			}
			r, err := p.inExpr()
			if err != nil {
				return nil, err
			}
			l = &Binary{Op: op, L: l, R: r}
			continue
		}
		return l, nil
	}
}

func (p *parser) inExpr() (Expr, error) {
	l, err := p.otherExpr()
	if err != nil {
		return nil, err
	}
	for {
		save := p.p
		not := p.acceptKw("not")
		switch {
		case p.acceptKw("in"):
			if err := p.expectOp("("); err != nil {
				return nil, err
			}
			if p.isKw("select") || p.isKw("with") || p.isKw("values") {
				sub, err := p.selectStmt()
				if err != nil {
					return nil, err
				}
				if err := p.expectOp(")"); err != nil {
					return nil, err
				}
				l = &InSub{X: l, Sub: sub, Not: not}
			} else {
				var list []Expr
				if !p.isOp(")") {
					for {
						e, err := p.expr()
						if err != nil {
							return nil, err
						}
						list = append(list, e)
						if !p.acceptOp(",") {
							break
						}
					}
				}
				if err := p.expectOp(")"); err != nil {
					return nil, err
				}
				l = &InList{X: l, List: list, Not: not}
			}
		case p.acceptKw("between"):
			lo, err := p.otherExpr()
			if err != nil {
				return nil, err
			}
			if err := p.expectKw("and"); err != nil {
				return nil, err
			}
			hi, err := p.otherExpr()
			if err != nil {
				return nil, err
			}
			l = &Between{X: l, Lo: lo, Hi: hi, Not: not}
		case p.isKw("like") || p.isKw("ilike"):
			il := p.next().s == "ilike"
			pat, err := p.otherExpr()
			if err != nil {
				return nil, err
			}
			if p.isKw("escape") {
				return nil, p.errHere("LIKE ... ESCAPE")
			}
			l = &Like{X: l, Pattern: pat, Not: not, ILike: il}
		default:
			p.p = save
			return l, nil
		}
	}
}

var otherOps = map[string]bool{"||": true, "->": true, "->>": true, "#>": true, "#>>": true, "@>": true, "<@": true,
	"?|": true, "?&": true, "?": true, "@@": true, "~": true, "&": true, "|": true, "#": true}

func (p *parser) otherExpr() (Expr, error) {
	l, err := p.addExpr()
	if err != nil {
		return nil, err
	}
	for {
		t := p.peek()
		if t.kind == tOp && otherOps[t.s] {
			p.p++
			r, err := p.addExpr()
			if err != nil {
				return nil, err
			}
			l = &Binary{Op: t.s, L: l, R: r}
			continue
		}
		return l, nil
	}
}

func (p *parser) addExpr() (Expr, error) {
	l, err := p.mulExpr()
	if err != nil {
		return nil, err
	}
	for {
		t := p.peek()
		if t.kind == tOp && (t.s == "+" || t.s == "-") {
			p.p++
			r, err := p.mulExpr()
			if err != nil {
				return nil, err
			}
			l = &Binary{Op: t.s, L: l, R: r}
			continue
		}
		return l, nil
	}
}

func (p *parser) mulExpr() (Expr, error) {
	l, err := p.atTimeZoneExpr()
	if err != nil {
		return nil, err
	}
	for {
		t := p.peek()
		if t.kind == tOp && (t.s == "*" || t.s == "/" || t.s == "%") {
			p.p++
			r, err := p.atTimeZoneExpr()
			if err != nil {
				return nil, err
			}
			l = &Binary{Op: t.s, L: l, R: r}
			continue
		}
		return l, nil
	}
}

func (p *parser) atTimeZoneExpr() (Expr, error) {
	l, err := p.unaryExpr()
	if err != nil {
		return nil, err
	}
	for p.isKw("at") && p.isKwN(1, "time") && p.isKwN(2, "zone") {
		p.p += 3
		z, err := p.unaryExpr()
		if err != nil {
			return nil, err
		}
		l = &AtTimeZone{X: l, Zone: z}
	}
	return l, nil
}

func (p *parser) unaryExpr() (Expr, error) {
	if p.isOp("-") {
		p.p++
		x, err := p.unaryExpr()
		if err != nil {
			return nil, err
		}
		if l, ok := x.(*Lit); ok {
			if n, ok := l.V.(*big.Int); ok {
				return &Lit{V: new(big.Int).Neg(n)}, nil
			}
		}
		return &Unary{Op: "-", X: x}, nil
	}
	if p.isOp("+") {
		p.p++
		return p.unaryExpr()
	}
	return p.postfixExpr()
}

func (p *parser) postfixExpr() (Expr, error) {
	x, err := p.primary()
	if err != nil {
		return nil, err
	}
	for {
		switch {
		case p.isOp("::"):
			p.p++
			typ, err := p.typeName()
			if err != nil {
				return nil, err
			}
			x = &Cast{X: x, Type: typ}
		case p.isOp("["):
			p.p++
			sub := &Subscript{X: x}
			if p.isOp(":") {
				p.p++
				sub.IsSlice = true
				if !p.isOp("]") {
					if sub.Hi, err = p.expr(); err != nil {
						return nil, err
					}
				}
			} else {
				e, err := p.expr()
				if err != nil {
					return nil, err
				}
				if p.acceptOp(":") {
					sub.IsSlice = true
					sub.Lo = e
					if !p.isOp("]") {
						if sub.Hi, err = p.expr(); err != nil {
							return nil, err
						}
					}
				} else {
					sub.Index = e
				}
			}
			if err := p.expectOp("]"); err != nil {
				return nil, err
			}
			x = sub
		case p.isOp(".") && isFieldSelectable(x):
			p.p++
			if p.acceptOp("*") {
				x = &FieldSel{X: x, Star: true}
				continue
			}
			f, err := p.ident()
			if err != nil {
				return nil, err
			}
			x = &FieldSel{X: x, Field: f}
		default:
			return x, nil
		}
	}
}

func isFieldSelectable(x Expr) bool {
	switch x.(type) {
	case *parenExpr, *FieldSel, *Subscript, *FuncCall:
		return true
	}
	return false
}

// parenExpr marks a parenthesised expression so that `(x).field` is recognised.
type parenExpr struct{ X Expr }

func (p *parser) typeName() (string, error) {
	var parts []string
	if p.acceptKw("setof") {
		parts = append(parts, "setof")
	}
	t := p.peek()
	if t.kind != tIdent && t.kind != tQIdent {
		return "", p.errHere("expected type name")
	}
	p.p++
	name := t.s
	for p.isOp(".") {
		p.p++
		n, err := p.ident()
		if err != nil {
			return "", err
		}
		name = n // drop schema qualification
	}
	if t.kind == tIdent {
		switch name {
		case "timestamp", "time":
			if p.acceptKws("without", "time", "zone") {
			} else if p.acceptKws("with", "time", "zone") {
				name += "tz"
			}
		case "character":
			if p.acceptKw("varying") {
				name = "varchar"
			}
		case "double":
			p.acceptKw("precision")
			name = "float8"
		}
	}
	parts = append(parts, name)
	if p.isOp("(") && p.peekN(1).kind == tNumber {
		p.p++
		for !p.isOp(")") && !p.eof() {
			p.p++
		}
		p.p++
	}
	s := strings.Join(parts, " ")
	for p.isOp("[") && p.peekN(1).kind == tOp && p.peekN(1).s == "]" {
		p.p += 2
		s += "[]"
	}
	return s, nil
}

func (p *parser) primary() (Expr, error) {
	t := p.peek()
	switch t.kind {
	case tNumber:
		p.p++
		n, err := parseInt(t.s)
		if err != nil {
			return nil, p.errHere("non-integral numeric literal %s", t.s)
		}
		return &Lit{V: n}, nil
	case tString:
		p.p++
		return &Lit{V: t.s}, nil
	case tParam:
		p.p++
		n, _ := strconv.Atoi(t.s)
		return &Param{N: n}, nil
	case tOp:
		if t.s == "(" {
			p.p++
			if p.isKw("select") || p.isKw("with") || p.isKw("values") {
				sub, err := p.selectStmt()
				if err != nil {
					return nil, err
				}
				if err := p.expectOp(")"); err != nil {
					return nil, err
				}
				return &parenExpr{X: &Subquery{Sub: sub}}, nil
			}
			e, err := p.expr()
			if err != nil {
				return nil, err
			}
			if p.isOp(",") {
				fields := []Expr{e}
				for p.acceptOp(",") {
					f, err := p.expr()
					if err != nil {
						return nil, err
					}
					fields = append(fields, f)
				}
				if err := p.expectOp(")"); err != nil {
					return nil, err
				}
				return &parenExpr{X: &RowExpr{Fields: fields}}, nil
			}
			if err := p.expectOp(")"); err != nil {
				return nil, err
			}
			return &parenExpr{X: e}, nil
		}
		if t.s == "*" {
			p.p++
			return &Star{}, nil
		}
		return nil, p.errHere("unexpected %q in expression", t.s)
	case tQIdent:
		return p.identExpr()
	case tIdent:
		switch t.s {
		case "null":
			p.p++
			return &Lit{V: nil}, nil
		case "true":
			p.p++
			return &Lit{V: true}, nil
		case "false":
			p.p++
			return &Lit{V: false}, nil
		case "case":
			return p.caseExpr()
		case "exists":
			p.p++
			if err := p.expectOp("("); err != nil {
				return nil, err
			}
			sub, err := p.selectStmt()
			if err != nil {
				return nil, err
			}
			if err := p.expectOp(")"); err != nil {
				return nil, err
			}
			return &Exists{Sub: sub}, nil
		case "cast":
			if p.peekN(1).kind == tOp && p.peekN(1).s == "(" {
				p.p += 2
				e, err := p.expr()
				if err != nil {
					return nil, err
				}
				if err := p.expectKw("as"); err != nil {
					return nil, err
				}
				typ, err := p.typeName()
				if err != nil {
					return nil, err
				}
				if err := p.expectOp(")"); err != nil {
					return nil, err
				}
				return &Cast{X: e, Type: typ}, nil
			}
		case "array":
			if p.peekN(1).kind == tOp && p.peekN(1).s == "[" {
				p.p += 2
				var elems []Expr
				if !p.isOp("]") {
					for {
						e, err := p.expr()
						if err != nil {
							return nil, err
						}
						elems = append(elems, e)
						if !p.acceptOp(",") {
							break
						}
					}
				}
				if err := p.expectOp("]"); err != nil {
					return nil, err
				}
				return &ArrayExpr{Elems: elems}, nil
			}
			if p.peekN(1).kind == tOp && p.peekN(1).s == "(" {
				p.p += 2
				sub, err := p.selectStmt()
				if err != nil {
					return nil, err
				}
				if err := p.expectOp(")"); err != nil {
					return nil, err
				}
				return &ArraySub{Sub: sub}, nil
			}
		case "row":
			if p.peekN(1).kind == tOp && p.peekN(1).s == "(" {
				p.p += 2
				var fields []Expr
				if !p.isOp(")") {
					for {
						e, err := p.expr()
						if err != nil {
							return nil, err
						}
						fields = append(fields, e)
						if !p.acceptOp(",") {
							break
						}
					}
				}
				if err := p.expectOp(")"); err != nil {
					return nil, err
				}
				return &parenExpr{X: &RowExpr{Fields: fields}}, nil
			}
		case "interval":
			if p.peekN(1).kind == tString {
				return nil, p.errHere("INTERVAL literals")
			}
		case "timestamp", "date", "timestamptz":
			if p.peekN(1).kind == tString {
				p.p++
				s := p.next()
				return &Cast{X: &Lit{V: s.s}, Type: "timestamp"}, nil
			}
		case "jsonb", "json", "bytea", "text", "varchar", "numeric", "bigint", "int", "integer":
			if p.peekN(1).kind == tString {
				p.p++
				s := p.next()
				return &Cast{X: &Lit{V: s.s}, Type: t.s}, nil
			}
		case "current_schema", "current_timestamp", "current_date", "current_user", "session_user", "localtimestamp":
			p.p++
			if p.isOp("(") {
				p.p++
				if err := p.expectOp(")"); err != nil {
					return nil, err
				}
			}
			return &FuncCall{Name: t.s}, nil
		case "not":
			p.p++
			x, err := p.notExpr()
			if err != nil {
				return nil, err
			}
			return &Unary{Op: "not", X: x}, nil
		case "select":
			return nil, p.errHere("bare SELECT in expression")
		}
		return p.identExpr()
	}
	return nil, p.errHere("unexpected end of input in expression")
}

func (p *parser) caseExpr() (Expr, error) {
	p.p++ // case
	c := &Case{}
	var err error
	if !p.isKw("when") {
		if c.Operand, err = p.expr(); err != nil {
			return nil, err
		}
	}
	for p.acceptKw("when") {
		cond, err := p.expr()
		if err != nil {
			return nil, err
		}
		if err := p.expectKw("then"); err != nil {
			return nil, err
		}
		res, err := p.expr()
		if err != nil {
			return nil, err
		}
		c.Whens = append(c.Whens, When{Cond: cond, Result: res})
	}
	if p.acceptKw("else") {
		if c.Else, err = p.expr(); err != nil {
			return nil, err
		}
	}
	if err := p.expectKw("end"); err != nil {
		return nil, err
	}
	return c, nil
}

func (p *parser) identExpr() (Expr, error) {
	first := p.next()
	parts := []string{first.s}
	for p.isOp(".") {
		n := p.peekN(1)
		if n.kind == tIdent || n.kind == tQIdent {
			p.p += 2
			parts = append(parts, n.s)
			continue
		}
		if n.kind == tOp && n.s == "*" {
			p.p += 2
			return &Star{Table: parts[len(parts)-1]}, nil
		}
		break
	}
	if p.isOp("(") {
		fc := &FuncCall{Name: parts[len(parts)-1]}
		if len(parts) > 1 {
			fc.Schema = parts[len(parts)-2]
		}
		p.p++
		if p.isOp("*") && p.peekN(1).kind == tOp && p.peekN(1).s == ")" {
			p.p++
			fc.Star = true
		} else if !p.isOp(")") {
			if p.acceptKw("distinct") {
				fc.Distinct = true
			} else {
				p.acceptKw("all")
			}
			for {
				an := ""
				if (p.peek().kind == tIdent || p.peek().kind == tQIdent) && (p.peekN(1).kind == tOp && (p.peekN(1).s == ":=" || p.peekN(1).s == "=>")) {
					an = p.next().s
					p.p++
				}
				e, err := p.expr()
				if err != nil {
					return nil, err
				}
				fc.Args = append(fc.Args, e)
				fc.ArgNames = append(fc.ArgNames, an)
				if !p.acceptOp(",") {
					break
				}
			}
			if p.acceptKws("order", "by") {
				items, err := p.orderItems()
				if err != nil {
					return nil, err
				}
				fc.OrderBy = items
			}
		}
		if err := p.expectOp(")"); err != nil {
			return nil, err
		}
		if p.acceptKw("filter") {
			if err := p.expectOp("("); err != nil {
				return nil, err
			}
			if err := p.expectKw("where"); err != nil {
				return nil, err
			}
			e, err := p.expr()
			if err != nil {
				return nil, err
			}
			fc.Filter = e
			if err := p.expectOp(")"); err != nil {
				return nil, err
			}
		}
		if p.acceptKw("over") {
			ws := &WindowSpec{}
			if err := p.expectOp("("); err != nil {
				return nil, err
			}
			if p.acceptKws("partition", "by") {
				for {
					e, err := p.expr()
					if err != nil {
						return nil, err
					}
					ws.PartitionBy = append(ws.PartitionBy, e)
					if !p.acceptOp(",") {
						break
					}
				}
			}
			if p.acceptKws("order", "by") {
				items, err := p.orderItems()
				if err != nil {
					return nil, err
				}
				ws.OrderBy = items
			}
			if p.isKw("rows") || p.isKw("range") || p.isKw("groups") {
				return nil, p.errHere("window frame clause")
			}
			if err := p.expectOp(")"); err != nil {
				return nil, err
			}
			fc.Over = ws
		}
		return fc, nil
	}
	switch len(parts) {
	case 1:
		return &ColRef{Name: parts[0]}, nil
	case 2:
		return &ColRef{Table: parts[0], Name: parts[1]}, nil
	default:
		return &ColRef{Table: parts[len(parts)-2], Name: parts[len(parts)-1]}, nil
	}
}
