package pgmodel

// TakeNotes returns the diagnostics (ORDER-DEPENDENT ...) recorded since the previous call and clears
// them, so that a driver can attribute them to individual requests. Notes() keeps its meaning for
// callers that never call TakeNotes. (Added for harness/drive/reads.go; no engine behaviour changes.)
func (db *DB) TakeNotes() []string {
	db.mu.Lock()
	defer db.mu.Unlock()
	n := db.notes
	db.notes = nil
	return n
}
