package pgmodel

import (
	"fmt"
	"math/big"
	"strings"
)

// tokCursor walks the token slice of a utility statement.
type tokCursor struct {
	src  string
	toks []token
	p    int
}

func (t *tokCursor) eof() bool { return t.p >= len(t.toks) }
func (t *tokCursor) peek() token {
	if t.p < len(t.toks) {
		return t.toks[t.p]
	}
	return token{kind: tEOF, pos: len(t.src)}
}
func (t *tokCursor) next() token {
	tk := t.peek()
	if t.p < len(t.toks) {
		t.p++
	}
	return tk
}
func (t *tokCursor) isKw(k string) bool {
	tk := t.peek()
	return tk.kind == tIdent && tk.s == k
}
func (t *tokCursor) isKwAt(i int, k string) bool {
	if t.p+i < len(t.toks) {
		tk := t.toks[t.p+i]
		return tk.kind == tIdent && tk.s == k
	}
	return false
}
func (t *tokCursor) acceptKw(k string) bool {
	if t.isKw(k) {
		t.p++
		return true
	}
	return false
}
func (t *tokCursor) acceptKws(ks ...string) bool {
	for i, k := range ks {
		if !t.isKwAt(i, k) {
			return false
		}
	}
	t.p += len(ks)
	return true
}
func (t *tokCursor) isOp(o string) bool {
	tk := t.peek()
	return tk.kind == tOp && tk.s == o
}
func (t *tokCursor) acceptOp(o string) bool {
	if t.isOp(o) {
		t.p++
		return true
	}
	return false
}
func (t *tokCursor) ident() (string, error) {
	tk := t.peek()
	if tk.kind == tIdent || tk.kind == tQIdent {
		t.p++
		return tk.s, nil
	}
	return "", t.err("expected identifier")
}
func (t *tokCursor) qname() (schema, name string, err error) {
	n, err := t.ident()
	if err != nil {
		return "", "", err
	}
	parts := []string{n}
	for t.isOp(".") {
		t.p++
		m, err := t.ident()
		if err != nil {
			return "", "", err
		}
		parts = append(parts, m)
	}
	name = parts[len(parts)-1]
	if len(parts) > 1 {
		schema = parts[len(parts)-2]
	}
	return
}
func (t *tokCursor) err(msg string) error {
	tk := t.peek()
	end := tk.pos + 50
	if end > len(t.src) {
		end = len(t.src)
	}
	ctx := ""
	if tk.pos <= len(t.src) {
		ctx = t.src[tk.pos:end]
	}
	return unsupported("DDL: %s near «%s»", msg, ctx)
}

// endPos is the source offset just past the last token consumed.
func (t *tokCursor) posOf(i int) int {
	if i < len(t.toks) {
		return t.toks[i].pos
	}
	if len(t.toks) > 0 {
		last := t.toks[len(t.toks)-1]
		return last.pos + len(last.raw)
	}
	return len(t.src)
}

// balanced returns the source text between the '(' at the cursor and its matching ')', leaving the
// cursor after ')'.
func (t *tokCursor) balanced() (string, []token, error) {
	if !t.isOp("(") {
		return "", nil, t.err("expected (")
	}
	start := t.p + 1
	depth := 0
	for i := t.p; i < len(t.toks); i++ {
		tk := t.toks[i]
		if tk.kind == tOp && (tk.s == "(" || tk.s == "[") {
			depth++
		}
		if tk.kind == tOp && (tk.s == ")" || tk.s == "]") {
			depth--
			if depth == 0 {
				text := t.src[t.posOf(start):tk.pos]
				inner := t.toks[start:i]
				t.p = i + 1
				return text, inner, nil
			}
		}
	}
	return "", nil, t.err("unbalanced parentheses")
}

// exprUntil parses an expression from the cursor up to the first token (depth 0) satisfying stop.
func (t *tokCursor) exprUntil(stop func(tk token) bool) (Expr, error) {
	start := t.p
	depth, caseDepth := 0, 0
	i := t.p
	for ; i < len(t.toks); i++ {
		tk := t.toks[i]
		if depth == 0 && caseDepth == 0 && stop(tk) {
			break
		}
		if tk.kind == tOp && (tk.s == "(" || tk.s == "[") {
			depth++
		}
		if tk.kind == tOp && (tk.s == ")" || tk.s == "]") {
			if depth == 0 {
				break
			}
			depth--
		}
		if tk.kind == tIdent && tk.s == "case" {
			caseDepth++
		}
		if tk.kind == tIdent && tk.s == "end" && caseDepth > 0 {
			caseDepth--
		}
	}
	text := strings.TrimSpace(t.src[t.posOf(start):t.posOf(i)])
	t.p = i
	return parseExprText(text)
}

func parseExprText(text string) (Expr, error) {
	p, err := newParser(text)
	if err != nil {
		return nil, err
	}
	e, err := p.expr()
	if err != nil {
		return nil, err
	}
	if !p.eof() {
		return nil, p.errHere("unexpected trailing input in expression")
	}
	return e, nil
}

func (c *execCtx) defaultSchema() *Schema {
	if c.sess != nil && len(c.sess.path) > 0 {
		return c.db.schema(c.sess.path[0], true)
	}
	return c.db.schema("public", true)
}

func (c *execCtx) schemaFor(name string) *Schema {
	if name == "" {
		return c.defaultSchema()
	}
	return c.db.schema(name, true)
}

func (c *execCtx) execSet(s *SetStmt) error {
	if s.Name == "search_path" {
		v := strings.Trim(strings.TrimSpace(s.Value), `'"`)
		var path []string
		for _, p := range strings.Split(v, ",") {
			p = strings.Trim(strings.TrimSpace(p), `'"`)
			if p != "" {
				path = append(path, p)
			}
		}
		if c.sess != nil {
			c.sess.path = path
		}
		return nil
	}
	return nil // other GUCs are irrelevant to the model
}

func (c *execCtx) execCall(s *CallStmt) (*Result, error) {
	f := c.db.findFunc(c.sess, s.Call.Schema, s.Call.Name, len(s.Call.Args))
	if f == nil {
		return nil, &PgErr{Code: "42883", Message: fmt.Sprintf("procedure %s does not exist", s.Call.Name)}
	}
	e := &env{ctx: c, fr: &frame{}, tup: &tuple{}}
	args, err := e.evalArgs(s.Call)
	if err != nil {
		return nil, err
	}
	if _, err := c.callFunction(f, s.Call, args, e); err != nil {
		return nil, err
	}
	return &Result{Tag: "CALL"}, nil
}

func (c *execCtx) execDo(s *DoStmt) error {
	blk, err := parsePL(s.Body)
	if err != nil {
		return err
	}
	fc := c.child()
	fc.inScript = true
	var found Value = false
	fc.vars = &varEnv{vars: map[string]*Value{"found": &found}, types: map[string]string{}}
	fr := &plFrame{c: fc, cache: map[string]any{}}
	_, err = fr.execBlock(blk)
	return err
}

// ---------------------------------------------------------------------------- DDL dispatcher

func (c *execCtx) execDDL(d *RawDDL) error {
	t := &tokCursor{src: d.Text, toks: d.Toks}
	switch t.next().s {
	case "create":
		return c.ddlCreate(t)
	case "alter":
		return c.ddlAlter(t)
	case "drop":
		return c.ddlDrop(t)
	case "comment", "vacuum", "analyze", "grant", "revoke", "reindex", "cluster", "notify", "listen", "lock":
		return nil
	case "truncate":
		t.acceptKw("table")
		sc, n, err := t.qname()
		if err != nil {
			return err
		}
		tb := c.db.findTable(c.sess, sc, n)
		if tb == nil {
			return &PgErr{Code: "42P01", Message: fmt.Sprintf("relation %q does not exist", n)}
		}
		tb.Rows = nil
		return nil
	}
	return t.err("unsupported utility statement")
}

func (c *execCtx) ddlCreate(t *tokCursor) error {
	orReplace := t.acceptKws("or", "replace")
	temp := false
	if t.acceptKw("temporary") || t.acceptKw("temp") {
		temp = true
	}
	t.acceptKw("unlogged")
	unique := t.acceptKw("unique")
	constraintTrig := t.acceptKw("constraint")
	switch {
	case t.acceptKw("schema"):
		ine := t.acceptKws("if", "not", "exists")
		_ = ine
		n, err := t.ident()
		if err != nil {
			return err
		}
		c.db.schema(n, true)
		return nil
	case t.acceptKw("extension"):
		return nil
	case t.acceptKw("table"):
		return c.ddlCreateTable(t, temp)
	case t.acceptKw("index"):
		return c.ddlCreateIndex(t, unique)
	case t.acceptKw("sequence"):
		ine := t.acceptKws("if", "not", "exists")
		sc, n, err := t.qname()
		if err != nil {
			return err
		}
		s := c.schemaFor(sc)
		if s.Seqs[n] != nil {
			if ine {
				return nil
			}
			return &PgErr{Code: "42P07", Message: fmt.Sprintf("relation %q already exists", n)}
		}
		q := &Sequence{Name: n, Last: big.NewInt(1)}
		for !t.eof() {
			if t.acceptKw("start") {
				t.acceptKw("with")
				if tk := t.next(); tk.kind == tNumber {
					v, _ := parseInt(tk.s)
					q.Last = v
				}
				continue
			}
			t.next()
		}
		s.Seqs[n] = q
		return nil
	case t.acceptKw("type"):
		sc, n, err := t.qname()
		if err != nil {
			return err
		}
		if !t.acceptKw("as") {
			return t.err("CREATE TYPE without AS")
		}
		td := &TypeDef{Name: n}
		if t.acceptKw("enum") {
			_, inner, err := t.balanced()
			if err != nil {
				return err
			}
			for _, tk := range inner {
				if tk.kind == tString {
					td.Enum = append(td.Enum, tk.s)
				}
			}
		} else {
			text, _, err := t.balanced()
			if err != nil {
				return err
			}
			for _, part := range splitTopLevel(text) {
				fs := strings.Fields(part)
				if len(fs) < 2 {
					return t.err("bad composite type field")
				}
				td.Fields = append(td.Fields, TypeField{Name: strings.Trim(fs[0], `"`), Type: strings.Join(fs[1:], " ")})
			}
		}
		c.schemaFor(sc).Types[n] = td
		return nil
	case t.acceptKw("aggregate"):
		sc, n, err := t.qname()
		if err != nil {
			return err
		}
		if _, _, err := t.balanced(); err != nil {
			return err
		}
		text, _, err := t.balanced()
		if err != nil {
			return err
		}
		ag := &Aggregate{Name: n}
		for _, part := range splitTopLevel(text) {
			kv := strings.SplitN(part, "=", 2)
			if len(kv) != 2 {
				continue
			}
			k := strings.ToLower(strings.TrimSpace(kv[0]))
			v := strings.TrimSpace(kv[1])
			switch k {
			case "sfunc":
				ag.SFunc = strings.ToLower(v)
			case "stype":
				ag.SType = v
			case "initcond":
				ag.InitCond = strings.Trim(v, "'")
			}
		}
		c.schemaFor(sc).Aggs[n] = ag
		return nil
	case t.isKw("function") || t.isKw("procedure"):
		isProc := t.next().s == "procedure"
		return c.ddlCreateFunction(t, orReplace, isProc)
	case t.acceptKw("trigger"):
		return c.ddlCreateTrigger(t, constraintTrig)
	case t.acceptKw("view"), t.acceptKws("materialized", "view"):
		return t.err("CREATE VIEW")
	}
	return t.err("unsupported CREATE")
}

// splitTopLevel splits on commas at parenthesis depth 0 (quote-aware).
func splitTopLevel(s string) []string {
	var out []string
	depth := 0
	inStr := false
	start := 0
	for i := 0; i < len(s); i++ {
		ch := s[i]
		if inStr {
			if ch == '\'' {
				inStr = false
			}
			continue
		}
		switch ch {
		case '\'':
			inStr = true
		case '(', '[':
			depth++
		case ')', ']':
			depth--
		case ',':
			if depth == 0 {
				out = append(out, strings.TrimSpace(s[start:i]))
				start = i + 1
			}
		}
	}
	if strings.TrimSpace(s[start:]) != "" {
		out = append(out, strings.TrimSpace(s[start:]))
	}
	return out
}

func (c *execCtx) ddlCreateTable(t *tokCursor, temp bool) error {
	ine := t.acceptKws("if", "not", "exists")
	sc, n, err := t.qname()
	if err != nil {
		return err
	}
	var schema *Schema
	if temp {
		if c.sess == nil {
			return unsupported("temporary table without session")
		}
		if c.sess.tempSchema == nil {
			c.sess.tempSchema = newSchema(fmt.Sprintf("pg_temp_%d", c.sess.id))
			c.db.schemas[c.sess.tempSchema.Name] = c.sess.tempSchema
		}
		schema = c.sess.tempSchema
	} else {
		schema = c.schemaFor(sc)
	}
	if schema.Tables[n] != nil {
		if ine {
			return nil
		}
		return &PgErr{Code: "42P07", Message: fmt.Sprintf("relation %q already exists", n)}
	}
	tb := &Table{Schema: schema.Name, Name: n, Temp: temp}
	if t.isOp("(") {
		text, _, err := t.balanced()
		if err != nil {
			return err
		}
		for _, part := range splitTopLevel(text) {
			if err := c.tableElement(tb, part); err != nil {
				return err
			}
		}
	}
	for !t.eof() {
		switch {
		case t.acceptKws("on", "commit"):
			if t.acceptKws("delete", "rows") {
				tb.OnCommitDelete = true
			} else {
				t.next()
				t.acceptKw("rows")
			}
		case t.acceptKw("as"):
			// CREATE TABLE AS SELECT
			start := t.p
			text := t.src[t.posOf(start):t.posOf(len(t.toks))]
			st, err := parseStatement(text)
			if err != nil {
				return err
			}
			sel, ok := st.(*Select)
			if !ok {
				return t.err("CREATE TABLE AS expects a query")
			}
			res, err := c.nested().runSelect(sel, nil)
			if err != nil {
				return err
			}
			for i, cn := range res.Cols {
				ty := res.Types[i]
				if ty == "" {
					ty = "unknown"
				}
				tb.Cols = append(tb.Cols, &Column{Name: cn, Type: ty})
			}
			schema.Tables[n] = tb
			if err := c.needTxn(); err != nil {
				return err
			}
			for _, r := range res.Rows {
				c.insertRow(tb, r)
			}
			return nil
		case t.acceptKw("with"):
			if t.isOp("(") {
				if _, _, err := t.balanced(); err != nil {
					return err
				}
			}
		default:
			t.next()
		}
	}
	schema.Tables[n] = tb
	return nil
}

// tableElement parses one column definition or table constraint of CREATE TABLE / ADD COLUMN.
func (c *execCtx) tableElement(tb *Table, part string) error {
	toks, err := lex(part)
	if err != nil {
		return err
	}
	t := &tokCursor{src: part, toks: toks[:len(toks)-1]}
	cname := ""
	if t.acceptKw("constraint") {
		if cname, err = t.ident(); err != nil {
			return err
		}
	}
	switch {
	case t.acceptKws("primary", "key"):
		return c.addUniqueConstraint(tb, t, cname, true)
	case t.acceptKw("unique"):
		return c.addUniqueConstraint(tb, t, cname, false)
	case t.acceptKw("check"):
		text, _, err := t.balanced()
		if err != nil {
			return err
		}
		e, err := parseExprText(text)
		if err != nil {
			return err
		}
		if cname == "" {
			cname = tb.Name + "_check"
		}
		tb.Checks = append(tb.Checks, &Check{Name: cname, Expr: e})
		return nil
	case t.acceptKws("foreign", "key"):
		return nil // foreign keys are not modelled (the live schema has none on the write path)
	case t.acceptKw("exclude"), t.acceptKw("like"):
		return t.err("unsupported table element")
	}
	// column definition
	name, err := t.ident()
	if err != nil {
		return err
	}
	col := &Column{Name: name}
	// type: tokens until a column-constraint keyword
	start := t.p
	for !t.eof() {
		tk := t.peek()
		if tk.kind == tIdent {
			switch tk.s {
			case "not", "null", "default", "primary", "unique", "references", "check", "constraint", "generated", "collate":
				goto typed
			}
		}
		if tk.kind == tOp && tk.s == "(" {
			if _, _, err := t.balanced(); err != nil {
				return err
			}
			continue
		}
		t.next()
	}
typed:
	col.Type = strings.TrimSpace(t.src[t.posOf(start):t.posOf(t.p)])
	lt := strings.ToLower(col.Type)
	if lt == "serial" || lt == "bigserial" || lt == "smallserial" {
		seqName := tb.Name + "_" + name + "_seq"
		sc := c.db.schema(tb.Schema, true)
		if sc.Seqs[seqName] == nil {
			sc.Seqs[seqName] = &Sequence{Name: seqName, Last: big.NewInt(1)}
		}
		col.Default = &FuncCall{Name: "nextval", Args: []Expr{&Lit{V: fmt.Sprintf(`"%s"."%s"`, tb.Schema, seqName)}}}
		col.NotNull = true
		if lt == "bigserial" {
			col.Type = "bigint"
		} else {
			col.Type = "integer"
		}
	}
	for !t.eof() {
		switch {
		case t.acceptKws("not", "null"):
			col.NotNull = true
		case t.acceptKw("null"):
		case t.acceptKw("default"):
			if t.isKw("null") {
				t.next()
				col.Default = nil
				continue
			}
			e, err := t.exprUntil(func(tk token) bool {
				if tk.kind != tIdent {
					return false
				}
				switch tk.s {
				case "not", "null", "primary", "unique", "references", "check", "constraint":
					return true
				}
				return false
			})
			if err != nil {
				return err
			}
			col.Default = e
		case t.acceptKws("primary", "key"):
			col.NotNull = true
			tb.Indexes = append(tb.Indexes, &Index{Name: tb.Name + "_pkey", Unique: true, Primary: true, Cols: []string{name}})
		case t.acceptKw("unique"):
			tb.Indexes = append(tb.Indexes, &Index{Name: tb.Name + "_" + name + "_key", Unique: true, Cols: []string{name}})
		case t.acceptKw("references"):
			if _, _, err := t.qname(); err != nil {
				return err
			}
			if t.isOp("(") {
				if _, _, err := t.balanced(); err != nil {
					return err
				}
			}
			for t.acceptKw("on") {
				t.next()
				t.next()
				t.acceptKw("null")
				t.acceptKw("action")
			}
		case t.acceptKw("check"):
			text, _, err := t.balanced()
			if err != nil {
				return err
			}
			e, err := parseExprText(text)
			if err != nil {
				return err
			}
			tb.Checks = append(tb.Checks, &Check{Name: tb.Name + "_" + name + "_check", Expr: e})
		case t.acceptKw("constraint"):
			if _, err := t.ident(); err != nil {
				return err
			}
		default:
			return t.err("unsupported column constraint")
		}
	}
	tb.Cols = append(tb.Cols, col)
	return nil
}

func (c *execCtx) addUniqueConstraint(tb *Table, t *tokCursor, cname string, primary bool) error {
	if t.acceptKws("using", "index") {
		ixName, err := t.ident()
		if err != nil {
			return err
		}
		for _, ix := range tb.Indexes {
			if ix.Name == ixName {
				ix.Primary = primary
				if cname != "" {
					ix.Name = cname
				}
				if primary {
					for _, cn := range ix.Cols {
						if i := tb.colIndex(cn); i >= 0 {
							tb.Cols[i].NotNull = true
						}
					}
				}
				return nil
			}
		}
		return &PgErr{Code: "42704", Message: fmt.Sprintf("index %q does not exist", ixName)}
	}
	text, _, err := t.balanced()
	if err != nil {
		return err
	}
	var cols []string
	for _, p := range splitTopLevel(text) {
		cols = append(cols, strings.Trim(strings.TrimSpace(p), `"`))
	}
	if cname == "" {
		if primary {
			cname = tb.Name + "_pkey"
		} else {
			cname = tb.Name + "_" + strings.Join(cols, "_") + "_key"
		}
	}
	for _, cn := range cols {
		i := tb.colIndex(cn)
		if i < 0 {
			return &PgErr{Code: "42703", Message: fmt.Sprintf("column %q named in key does not exist", cn)}
		}
		if primary {
			tb.Cols[i].NotNull = true
		}
	}
	tb.Indexes = append(tb.Indexes, &Index{Name: cname, Unique: true, Primary: primary, Cols: cols})
	return nil
}

func (c *execCtx) ddlCreateIndex(t *tokCursor, unique bool) error {
	t.acceptKw("concurrently")
	ine := t.acceptKws("if", "not", "exists")
	name := ""
	if !t.isKw("on") {
		var err error
		if name, err = t.ident(); err != nil {
			return err
		}
	}
	if !t.acceptKw("on") {
		return t.err("expected ON")
	}
	t.acceptKw("only")
	sc, tn, err := t.qname()
	if err != nil {
		return err
	}
	tb := c.db.findTable(c.sess, sc, tn)
	if tb == nil {
		return &PgErr{Code: "42P01", Message: fmt.Sprintf("relation %q does not exist", tn)}
	}
	if t.acceptKw("using") {
		t.next()
	}
	text, _, err := t.balanced()
	if err != nil {
		return err
	}
	ix := &Index{Name: name, Unique: unique}
	simple := true
	var exprs []Expr
	for _, part := range splitTopLevel(text) {
		// strip opclass / asc / desc / nulls
		toks, err := lex(part)
		if err != nil {
			return err
		}
		toks = toks[:len(toks)-1]
		if len(toks) >= 1 && (toks[0].kind == tIdent || toks[0].kind == tQIdent) && (len(toks) == 1 || toks[1].kind == tIdent) {
			ix.Cols = append(ix.Cols, toks[0].s)
			exprs = append(exprs, &ColRef{Name: toks[0].s})
			continue
		}
		simple = false
		if unique {
			e, err := parseExprText(part)
			if err != nil {
				return err
			}
			exprs = append(exprs, e)
		}
	}
	if !simple {
		ix.Cols = nil
		if unique {
			ix.Exprs = exprs
		}
	}
	for !t.eof() {
		switch {
		case t.acceptKw("include"):
			if _, _, err := t.balanced(); err != nil {
				return err
			}
		case t.acceptKw("with"):
			if _, _, err := t.balanced(); err != nil {
				return err
			}
		case t.acceptKw("where"):
			e, err := t.exprUntil(func(tk token) bool { return false })
			if err != nil {
				return err
			}
			ix.Where = e
		default:
			t.next()
		}
	}
	for _, old := range tb.Indexes {
		if old.Name == name && name != "" {
			if ine {
				return nil
			}
			return &PgErr{Code: "42P07", Message: fmt.Sprintf("relation %q already exists", name)}
		}
	}
	if unique {
		// existing rows must satisfy the new unique index
		seen := map[string]bool{}
		for _, r := range tb.Rows {
			if !c.snap.sees(r) && !(snapshot{}).sees(r) {
				continue
			}
			k, ok, err := c.indexKey(tb, ix, r.vals)
			if err != nil {
				return err
			}
			if ok {
				if seen[k] {
					return uniqueViolation(tb, ix)
				}
				seen[k] = true
			}
		}
	}
	tb.Indexes = append(tb.Indexes, ix)
	return nil
}

func (c *execCtx) ddlCreateFunction(t *tokCursor, orReplace, isProc bool) error {
	sc, n, err := t.qname()
	if err != nil {
		return err
	}
	argText, _, err := t.balanced()
	if err != nil {
		return err
	}
	f := &Function{Name: n, IsProc: isProc, Lang: "sql"}
	for _, part := range splitTopLevel(argText) {
		toks, err := lex(part)
		if err != nil {
			return err
		}
		toks = toks[:len(toks)-1]
		if len(toks) == 0 {
			continue
		}
		a := FuncArg{}
		i := 0
		if toks[0].kind == tIdent && (toks[0].s == "in" || toks[0].s == "out" || toks[0].s == "inout" || toks[0].s == "variadic") {
			if toks[0].s != "in" {
				return t.err("OUT/INOUT/VARIADIC parameters")
			}
			i++
		}
		// find DEFAULT or =
		defAt := -1
		for j := i; j < len(toks); j++ {
			if (toks[j].kind == tIdent && toks[j].s == "default") || (toks[j].kind == tOp && toks[j].s == "=") {
				defAt = j
				break
			}
		}
		endType := len(toks)
		if defAt >= 0 {
			endType = defAt
			last := toks[len(toks)-1]
			dtext := part[toks[defAt+1].pos : last.pos+len(last.raw)]
			e, err := parseExprText(dtext)
			if err != nil {
				return err
			}
			a.Default = e
		}
		words := toks[i:endType]
		if len(words) >= 2 && isTypeStart(words, 1) {
			a.Name = words[0].s
			a.Type = strings.TrimSpace(part[words[1].pos : words[len(words)-1].pos+len(words[len(words)-1].raw)])
		} else {
			a.Type = strings.TrimSpace(part[words[0].pos : words[len(words)-1].pos+len(words[len(words)-1].raw)])
		}
		f.Args = append(f.Args, a)
	}
	curPath := ""
	if c.sess != nil && len(c.sess.path) > 0 {
		curPath = c.sess.path[0]
	}
	for !t.eof() {
		switch {
		case t.acceptKw("returns"):
			start := t.p
			if t.acceptKw("table") {
				return t.err("RETURNS TABLE")
			}
			t.acceptKw("setof")
			if _, _, err := t.qname(); err != nil {
				return err
			}
			// multi-word types
			for t.isKw("without") || t.isKw("with") || t.isKw("time") || t.isKw("zone") || t.isKw("varying") || t.isKw("precision") {
				if t.isKw("with") && !t.isKwAt(1, "time") {
					break
				}
				t.next()
			}
			for t.isOp("[") {
				t.next()
				t.acceptOp("]")
			}
			f.Returns = strings.TrimSpace(t.src[t.posOf(start):t.posOf(t.p)])
		case t.acceptKw("language"):
			tk := t.next()
			f.Lang = strings.ToLower(tk.s)
		case t.acceptKw("as"):
			tk := t.next()
			if tk.kind != tString {
				return t.err("function body must be a string")
			}
			f.Body = tk.s
		case t.acceptKw("set"):
			name, err := t.ident()
			if err != nil {
				return err
			}
			if t.acceptKws("from", "current") {
				if name == "search_path" {
					f.SearchPath = curPath
				}
				continue
			}
			if !t.acceptOp("=") {
				t.acceptKw("to")
			}
			tk := t.next()
			if name == "search_path" {
				f.SearchPath = strings.Trim(tk.s, `'"`)
			}
		case t.acceptKw("security"):
			t.next()
		case t.acceptKw("parallel"):
			t.next()
		case t.acceptKw("cost"), t.acceptKw("rows"):
			t.next()
		case t.acceptKw("immutable"), t.acceptKw("stable"), t.acceptKw("volatile"), t.acceptKw("strict"), t.acceptKw("leakproof"), t.acceptKw("window"):
		case t.acceptKws("called", "on", "null", "input"), t.acceptKws("returns", "null", "on", "null", "input"):
		case t.acceptKws("not", "leakproof"):
		default:
			return t.err("unsupported function attribute")
		}
	}
	s := c.schemaFor(sc)
	f.Schema = s.Name
	for i, old := range s.Funcs[n] {
		if len(old.Args) == len(f.Args) {
			if !orReplace {
				return &PgErr{Code: "42723", Message: fmt.Sprintf("function %q already exists with same argument types", n)}
			}
			s.Funcs[n][i] = f
			return nil
		}
	}
	s.Funcs[n] = append(s.Funcs[n], f)
	return nil
}

func isTypeStart(words []token, i int) bool {
	return i < len(words) && (words[i].kind == tIdent || words[i].kind == tQIdent)
}

func (c *execCtx) ddlCreateTrigger(t *tokCursor, constraint bool) error {
	name, err := t.ident()
	if err != nil {
		return err
	}
	tr := &Trigger{Name: name}
	switch {
	case t.acceptKw("before"):
		tr.Before = true
	case t.acceptKw("after"):
	case t.acceptKws("instead", "of"):
		return t.err("INSTEAD OF triggers")
	default:
		return t.err("expected BEFORE/AFTER")
	}
	for {
		ev := t.next()
		switch ev.s {
		case "insert", "delete", "truncate":
			tr.Events = append(tr.Events, ev.s)
		case "update":
			tr.Events = append(tr.Events, "update")
			if t.acceptKw("of") {
				for {
					cn, err := t.ident()
					if err != nil {
						return err
					}
					tr.UpdateOf = append(tr.UpdateOf, cn)
					if !t.acceptOp(",") {
						break
					}
				}
			}
		default:
			return t.err("unsupported trigger event")
		}
		if !t.acceptKw("or") {
			break
		}
	}
	if !t.acceptKw("on") {
		return t.err("expected ON")
	}
	sc, tn, err := t.qname()
	if err != nil {
		return err
	}
	tb := c.db.findTable(c.sess, sc, tn)
	if tb == nil {
		return &PgErr{Code: "42P01", Message: fmt.Sprintf("relation %q does not exist", tn)}
	}
	rowLevel := false
	for !t.eof() {
		switch {
		case t.acceptKws("deferrable"), t.acceptKws("not", "deferrable"):
		case t.acceptKws("initially", "deferred"):
			tr.Deferred = true
		case t.acceptKws("initially", "immediate"):
		case t.acceptKws("for", "each", "row"), t.acceptKws("for", "row"):
			rowLevel = true
		case t.acceptKws("for", "each", "statement"):
			return t.err("statement-level triggers")
		case t.acceptKw("when"):
			text, _, err := t.balanced()
			if err != nil {
				return err
			}
			e, err := parseExprText(text)
			if err != nil {
				return err
			}
			tr.When = e
		case t.acceptKw("execute"):
			if !t.acceptKw("procedure") {
				t.acceptKw("function")
			}
			fs, fn, err := t.qname()
			if err != nil {
				return err
			}
			tr.FuncSch, tr.Func = fs, fn
			if fs == "" && c.sess != nil && len(c.sess.path) > 0 {
				tr.FuncSch = c.sess.path[0]
			}
			if t.isOp("(") {
				if _, _, err := t.balanced(); err != nil {
					return err
				}
			}
		default:
			return t.err("unsupported trigger clause")
		}
	}
	if !rowLevel {
		return t.err("statement-level triggers")
	}
	if constraint {
		tr.Deferred = true // only tolerated as long as it never fires (it is dropped by a later migration)
	}
	for _, old := range tb.Triggers {
		if old.Name == name {
			return &PgErr{Code: "42710", Message: fmt.Sprintf("trigger %q for relation %q already exists", name, tn)}
		}
	}
	tb.Triggers = append(tb.Triggers, tr)
	// triggers fire in name order
	for i := len(tb.Triggers) - 1; i > 0 && tb.Triggers[i].Name < tb.Triggers[i-1].Name; i-- {
		tb.Triggers[i], tb.Triggers[i-1] = tb.Triggers[i-1], tb.Triggers[i]
	}
	return nil
}

func (c *execCtx) ddlDrop(t *tokCursor) error {
	kind := t.next().s
	ifExists := false
	chk := func() { ifExists = t.acceptKws("if", "exists") || ifExists }
	switch kind {
	case "trigger":
		chk()
		name, err := t.ident()
		if err != nil {
			return err
		}
		if !t.acceptKw("on") {
			return t.err("expected ON")
		}
		sc, tn, err := t.qname()
		if err != nil {
			return err
		}
		tb := c.db.findTable(c.sess, sc, tn)
		if tb == nil {
			if ifExists {
				return nil
			}
			return &PgErr{Code: "42P01", Message: fmt.Sprintf("relation %q does not exist", tn)}
		}
		for i, tr := range tb.Triggers {
			if tr.Name == name {
				tb.Triggers = append(tb.Triggers[:i], tb.Triggers[i+1:]...)
				return nil
			}
		}
		if ifExists {
			return nil
		}
		return &PgErr{Code: "42704", Message: fmt.Sprintf("trigger %q for table %q does not exist", name, tn)}
	case "function", "procedure", "aggregate":
		chk()
		sc, n, err := t.qname()
		if err != nil {
			return err
		}
		var s *Schema
		if sc != "" {
			s = c.db.schemas[sc]
		} else if kind == "aggregate" {
			if a := c.db.findAgg(c.sess, "", n); a != nil {
				for _, cand := range c.db.schemas {
					if cand.Aggs[n] == a {
						s = cand
					}
				}
			}
		} else if f := c.db.findFunc(c.sess, "", n, -1); f != nil {
			s = c.db.schemas[f.Schema]
		}
		nargs := -1
		if t.isOp("(") {
			argText, _, err := t.balanced()
			if err != nil {
				return err
			}
			nargs = len(splitTopLevel(argText))
		}
		if s == nil {
			if ifExists {
				return nil
			}
			return &PgErr{Code: "42883", Message: fmt.Sprintf("%s %s does not exist", kind, n)}
		}
		if kind == "aggregate" {
			delete(s.Aggs, n)
		} else {
			target := pickOverload(s.Funcs[n], nargs)
			if nargs >= 0 && target != nil && len(target.Args) != nargs {
				target = nil
			}
			if target == nil {
				if ifExists {
					return nil
				}
				return &PgErr{Code: "42883", Message: fmt.Sprintf("function %s does not exist", n)}
			}
			if nargs < 0 && len(s.Funcs[n]) > 1 {
				return &PgErr{Code: "42725", Message: fmt.Sprintf("function name %q is not unique", n)}
			}
			// a function still used by a trigger cannot be dropped
			if len(s.Funcs[n]) == 1 {
				for _, tb := range s.Tables {
					for _, tr := range tb.Triggers {
						if tr.Func == n {
							return &PgErr{Code: "2BP01", Message: fmt.Sprintf("cannot drop function %s because trigger %s depends on it", n, tr.Name)}
						}
					}
				}
			}
			keep := s.Funcs[n][:0]
			for _, f := range s.Funcs[n] {
				if f != target {
					keep = append(keep, f)
				}
			}
			if len(keep) == 0 {
				delete(s.Funcs, n)
			} else {
				s.Funcs[n] = keep
			}
		}
		return nil
	case "index":
		t.acceptKw("concurrently")
		chk()
		sc, n, err := t.qname()
		if err != nil {
			return err
		}
		for _, s := range c.db.schemas {
			if sc != "" && s.Name != sc {
				continue
			}
			if sc == "" && c.sess != nil && len(c.sess.path) > 0 && s.Name != c.sess.path[0] {
				continue
			}
			for _, tb := range s.Tables {
				for i, ix := range tb.Indexes {
					if ix.Name == n {
						tb.Indexes = append(tb.Indexes[:i], tb.Indexes[i+1:]...)
						return nil
					}
				}
			}
		}
		if ifExists {
			return nil
		}
		return &PgErr{Code: "42704", Message: fmt.Sprintf("index %q does not exist", n)}
	case "table":
		chk()
		sc, n, err := t.qname()
		if err != nil {
			return err
		}
		tb := c.db.findTable(c.sess, sc, n)
		if tb == nil {
			if ifExists {
				return nil
			}
			return &PgErr{Code: "42P01", Message: fmt.Sprintf("table %q does not exist", n)}
		}
		delete(c.db.schemas[tb.Schema].Tables, n)
		return nil
	case "sequence":
		chk()
		sc, n, err := t.qname()
		if err != nil {
			return err
		}
		if q := c.db.findSeq(c.sess, sc, n); q != nil {
			for _, s := range c.db.schemas {
				if s.Seqs[n] == q {
					delete(s.Seqs, n)
				}
			}
			return nil
		}
		if ifExists {
			return nil
		}
		return &PgErr{Code: "42P01", Message: fmt.Sprintf("sequence %q does not exist", n)}
	case "type":
		chk()
		sc, n, err := t.qname()
		if err != nil {
			return err
		}
		for _, s := range c.db.schemas {
			if sc != "" && s.Name != sc {
				continue
			}
			delete(s.Types, n)
		}
		return nil
	case "schema":
		chk()
		n, err := t.ident()
		if err != nil {
			return err
		}
		delete(c.db.schemas, n)
		return nil
	case "extension":
		return nil
	}
	return t.err("unsupported DROP " + kind)
}

func (c *execCtx) ddlAlter(t *tokCursor) error {
	kind := t.next().s
	switch kind {
	case "table":
		t.acceptKws("if", "exists")
		t.acceptKw("only")
		sc, n, err := t.qname()
		if err != nil {
			return err
		}
		tb := c.db.findTable(c.sess, sc, n)
		if tb == nil {
			return &PgErr{Code: "42P01", Message: fmt.Sprintf("relation %q does not exist", n)}
		}
		// split the remainder into comma separated actions
		rest := t.src[t.posOf(t.p):t.posOf(len(t.toks))]
		for _, action := range splitTopLevel(rest) {
			if err := c.alterTableAction(tb, action); err != nil {
				return err
			}
		}
		return nil
	case "index":
		t.acceptKws("if", "exists")
		sc, n, err := t.qname()
		if err != nil {
			return err
		}
		if t.acceptKws("rename", "to") {
			nn, err := t.ident()
			if err != nil {
				return err
			}
			for _, s := range c.db.schemas {
				if sc != "" && s.Name != sc {
					continue
				}
				if sc == "" && c.sess != nil && len(c.sess.path) > 0 && s.Name != c.sess.path[0] {
					continue
				}
				for _, tb := range s.Tables {
					for _, ix := range tb.Indexes {
						if ix.Name == n {
							ix.Name = nn
							return nil
						}
					}
				}
			}
			return &PgErr{Code: "42704", Message: fmt.Sprintf("index %q does not exist", n)}
		}
		return nil
	case "type":
		sc, n, err := t.qname()
		if err != nil {
			return err
		}
		_ = sc
		td := c.db.findType(n)
		if td == nil {
			return &PgErr{Code: "42704", Message: fmt.Sprintf("type %q does not exist", n)}
		}
		if t.acceptKws("add", "value") {
			t.acceptKws("if", "not", "exists")
			v := t.next()
			for _, l := range td.Enum {
				if l == v.s {
					return nil
				}
			}
			td.Enum = append(td.Enum, v.s)
			return nil
		}
		return t.err("unsupported ALTER TYPE")
	case "sequence":
		sc, n, err := t.qname()
		if err != nil {
			return err
		}
		q := c.db.findSeq(c.sess, sc, n)
		if q == nil {
			return &PgErr{Code: "42P01", Message: fmt.Sprintf("sequence %q does not exist", n)}
		}
		for !t.eof() {
			if t.acceptKw("restart") {
				t.acceptKw("with")
				v := big.NewInt(1)
				if tk := t.peek(); tk.kind == tNumber {
					t.next()
					v, _ = parseInt(tk.s)
				}
				q.Last, q.IsCalled = v, false
				q.dropReservations()
				continue
			}
			if t.acceptKw("cache") {
				if tk := t.peek(); tk.kind == tNumber {
					t.next()
					if v, ok := parseInt(tk.s); ok == nil && v.IsInt64() {
						q.Cache = int(v.Int64())
					}
				}
				continue
			}
			t.next()
		}
		return nil
	case "function", "procedure", "schema", "extension", "database", "role", "default":
		return nil
	}
	return t.err("unsupported ALTER " + kind)
}

func (c *execCtx) alterTableAction(tb *Table, action string) error {
	toks, err := lex(action)
	if err != nil {
		return err
	}
	t := &tokCursor{src: action, toks: toks[:len(toks)-1]}
	switch {
	case t.acceptKw("add"):
		if t.acceptKw("column") {
			ine := t.acceptKws("if", "not", "exists")
			rest := action[t.posOf(t.p):]
			nameTok := t.peek()
			if tb.colIndex(nameTok.s) >= 0 {
				if ine {
					return nil
				}
				return &PgErr{Code: "42701", Message: fmt.Sprintf("column %q of relation %q already exists", nameTok.s, tb.Name)}
			}
			before := len(tb.Cols)
			if err := c.tableElement(tb, rest); err != nil {
				return err
			}
			if len(tb.Cols) > before {
				col := tb.Cols[len(tb.Cols)-1]
				for _, r := range tb.Rows {
					var dv Value
					if col.Default != nil {
						v, err := c.evalDefault(tb, col)
						if err != nil {
							return err
						}
						dv = v
					}
					r.vals = append(r.vals, dv)
				}
			}
			return nil
		}
		if t.isKw("constraint") || t.isKw("primary") || t.isKw("unique") || t.isKw("check") || t.isKw("foreign") {
			rest := action[t.posOf(t.p):]
			// strip trailing NOT VALID
			low := strings.ToLower(rest)
			if i := strings.LastIndex(low, "not valid"); i >= 0 && strings.TrimSpace(low[i+len("not valid"):]) == "" {
				rest = rest[:i]
			}
			return c.tableElement(tb, rest)
		}
		// ADD <column def> without COLUMN keyword
		rest := action[t.posOf(t.p):]
		return c.alterTableAction(tb, "add column "+rest)
	case t.acceptKw("drop"):
		if t.acceptKw("constraint") {
			ie := t.acceptKws("if", "exists")
			n, err := t.ident()
			if err != nil {
				return err
			}
			for i, ck := range tb.Checks {
				if ck.Name == n {
					tb.Checks = append(tb.Checks[:i], tb.Checks[i+1:]...)
					return nil
				}
			}
			for i, ix := range tb.Indexes {
				if ix.Name == n {
					tb.Indexes = append(tb.Indexes[:i], tb.Indexes[i+1:]...)
					return nil
				}
			}
			if ie {
				return nil
			}
			return &PgErr{Code: "42704", Message: fmt.Sprintf("constraint %q of relation %q does not exist", n, tb.Name)}
		}
		t.acceptKw("column")
		ie := t.acceptKws("if", "exists")
		n, err := t.ident()
		if err != nil {
			return err
		}
		i := tb.colIndex(n)
		if i < 0 {
			if ie {
				return nil
			}
			return &PgErr{Code: "42703", Message: fmt.Sprintf("column %q of relation %q does not exist", n, tb.Name)}
		}
		tb.Cols = append(tb.Cols[:i], tb.Cols[i+1:]...)
		for _, r := range tb.Rows {
			r.vals = append(r.vals[:i:i], r.vals[i+1:]...)
		}
		// indexes using the column disappear with it
		keep := tb.Indexes[:0]
		for _, ix := range tb.Indexes {
			uses := false
			for _, cn := range ix.Cols {
				if cn == n {
					uses = true
				}
			}
			if !uses {
				keep = append(keep, ix)
			}
		}
		tb.Indexes = keep
		return nil
	case t.acceptKw("alter"):
		t.acceptKw("column")
		n, err := t.ident()
		if err != nil {
			return err
		}
		i := tb.colIndex(n)
		if i < 0 {
			return &PgErr{Code: "42703", Message: fmt.Sprintf("column %q of relation %q does not exist", n, tb.Name)}
		}
		col := tb.Cols[i]
		switch {
		case t.acceptKws("set", "default"):
			e, err := t.exprUntil(func(tk token) bool { return false })
			if err != nil {
				return err
			}
			col.Default = e
		case t.acceptKws("drop", "default"):
			col.Default = nil
		case t.acceptKws("set", "not", "null"):
			col.NotNull = true
		case t.acceptKws("drop", "not", "null"):
			col.NotNull = false
		case t.acceptKws("set", "data", "type"), t.acceptKw("type"):
			start := t.p
			for !t.eof() && !t.isKw("using") {
				t.next()
			}
			col.Type = strings.TrimSpace(t.src[t.posOf(start):t.posOf(t.p)])
			if len(tb.Rows) > 0 {
				for _, r := range tb.Rows {
					cv, err := c.db.castTo(r.vals[i], col.Type)
					if err != nil {
						return err
					}
					r.vals[i] = cv
				}
			}
		case t.acceptKws("set", "statistics"), t.acceptKws("set", "storage"):
		default:
			return t.err("unsupported ALTER COLUMN action")
		}
		return nil
	case t.acceptKw("rename"):
		if t.acceptKw("to") {
			nn, err := t.ident()
			if err != nil {
				return err
			}
			s := c.db.schemas[tb.Schema]
			delete(s.Tables, tb.Name)
			tb.Name = nn
			s.Tables[nn] = tb
			return nil
		}
		if t.acceptKw("constraint") {
			return nil
		}
		t.acceptKw("column")
		old, err := t.ident()
		if err != nil {
			return err
		}
		if !t.acceptKw("to") {
			return t.err("expected TO")
		}
		nn, err := t.ident()
		if err != nil {
			return err
		}
		i := tb.colIndex(old)
		if i < 0 {
			return &PgErr{Code: "42703", Message: fmt.Sprintf("column %q does not exist", old)}
		}
		tb.Cols[i].Name = nn
		for _, ix := range tb.Indexes {
			for k, cn := range ix.Cols {
				if cn == old {
					ix.Cols[k] = nn
				}
			}
		}
		return nil
	case t.acceptKws("validate", "constraint"):
		return nil
	case t.acceptKw("set"), t.acceptKw("owner"), t.acceptKw("enable"), t.acceptKw("disable"), t.acceptKw("replica"), t.acceptKw("cluster"), t.acceptKw("reset"):
		return nil
	}
	return t.err("unsupported ALTER TABLE action")
}
