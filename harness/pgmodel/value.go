// Package pgmodel is an in-process, explicit model of the PostgreSQL features formancehq/ledger
// relies on. It implements database/sql/driver so that the repository's real storage code, its real
// SQL text and its real migration files can be executed without a Postgres server. It is NOT
// Postgres: it implements documented, elementary semantics of the subset the code base uses and
// rejects everything else with an "unsupported" error (SQLSTATE 0A000), never guessing.
package pgmodel

import (
	"bytes"
	"encoding/base64"
	"encoding/hex"
	"encoding/json"
	"fmt"
	"math/big"
	"sort"
	"strconv"
	"strings"
	"time"
)

// Value is a dynamically typed SQL value:
//
//	nil        SQL NULL
//	bool       boolean
//	*big.Int   every integer / numeric value (the schema only stores integral numerics)
//	string     text, varchar, enum labels, and not-yet-typed string literals
//	time.Time  timestamp [without time zone] (UTC, microsecond precision)
//	JSON       json / jsonb
//	[]byte     bytea
//	*Array     arrays
//	*Record    composite values and rows
type Value = any

// JSON wraps a parsed json/jsonb document. V is one of: nil (JSON null), bool, JNum, string,
// []any, map[string]any.
type JSON struct{ V any }

// JNum is a JSON number kept as its decimal text (arbitrary precision).
type JNum string

type Array struct{ Elems []Value }

type Record struct {
	Names  []string
	Fields []Value
	Type   string // composite type name if known
}

func (r *Record) Get(name string) (Value, bool) {
	for i, n := range r.Names {
		if n == name {
			return r.Fields[i], true
		}
	}
	return nil, false
}

// ---------------------------------------------------------------------------- errors

// PgErr is the engine-internal error; the driver converts it to *pgconn.PgError.
type PgErr struct {
	Code       string
	Message    string
	Constraint string
	Table      string
}

func (e *PgErr) Error() string { return fmt.Sprintf("%s (SQLSTATE %s)", e.Message, e.Code) }

func errf(code, format string, a ...any) *PgErr {
	return &PgErr{Code: code, Message: fmt.Sprintf(format, a...)}
}

func unsupported(format string, a ...any) *PgErr {
	return &PgErr{Code: "0A000", Message: "pgmodel unsupported: " + fmt.Sprintf(format, a...)}
}

// ---------------------------------------------------------------------------- JSON helpers

func parseJSON(s string) (JSON, error) {
	dec := json.NewDecoder(strings.NewReader(s))
	dec.UseNumber()
	var v any
	if err := dec.Decode(&v); err != nil {
		return JSON{}, errf("22P02", "invalid input syntax for type json: %v", err)
	}
	if dec.More() {
		return JSON{}, errf("22P02", "invalid input syntax for type json: trailing data")
	}
	return JSON{V: normJSON(v)}, nil
}

func normJSON(v any) any {
	switch t := v.(type) {
	case json.Number:
		return JNum(normNum(string(t)))
	case []any:
		for i := range t {
			t[i] = normJSON(t[i])
		}
		return t
	case map[string]any:
		for k := range t {
			t[k] = normJSON(t[k])
		}
		return t
	}
	return v
}

// normNum canonicalises an integer-valued JSON number (1e3 -> 1000); other numbers keep their text.
func normNum(s string) string {
	if _, ok := new(big.Int).SetString(s, 10); ok {
		return s
	}
	if r, ok := new(big.Rat).SetString(s); ok && r.IsInt() {
		return r.Num().String()
	}
	return s
}

// valueToJSON converts an SQL value to a JSON value (to_jsonb semantics for the types we have).
func valueToJSON(v Value) any {
	switch t := v.(type) {
	case nil:
		return nil
	case bool:
		return t
	case *big.Int:
		return JNum(t.String())
	case string:
		return t
	case time.Time:
		return formatTimestampISO(t)
	case JSON:
		return t.V
	case []byte:
		return "\\x" + hex.EncodeToString(t)
	case *Array:
		out := make([]any, len(t.Elems))
		for i, e := range t.Elems {
			out[i] = valueToJSON(e)
		}
		return out
	case *Record:
		m := map[string]any{}
		for i, n := range t.Names {
			if n == "" {
				n = fmt.Sprintf("f%d", i+1)
			}
			m[n] = valueToJSON(t.Fields[i])
		}
		return m
	}
	return fmt.Sprint(v)
}

// jsonText renders jsonb text the way Postgres prints jsonb: `{"a": 1, "b": [1, 2]}` with object
// keys ordered by (length, bytes).
func jsonText(v any) string {
	var b strings.Builder
	writeJSON(&b, v)
	return b.String()
}

func jsonKeys(m map[string]any) []string {
	keys := make([]string, 0, len(m))
	for k := range m {
		keys = append(keys, k)
	}
	sort.Slice(keys, func(i, j int) bool {
		if len(keys[i]) != len(keys[j]) {
			return len(keys[i]) < len(keys[j])
		}
		return keys[i] < keys[j]
	})
	return keys
}

func writeJSONString(b *strings.Builder, s string) {
	// Postgres escapes only what JSON requires; Go's encoder additionally escapes <,>,& unless told not to.
	var buf bytes.Buffer
	enc := json.NewEncoder(&buf)
	enc.SetEscapeHTML(false)
	_ = enc.Encode(s)
	out := buf.String()
	b.WriteString(strings.TrimSuffix(out, "\n"))
}

func writeJSON(b *strings.Builder, v any) {
	switch t := v.(type) {
	case nil:
		b.WriteString("null")
	case bool:
		if t {
			b.WriteString("true")
		} else {
			b.WriteString("false")
		}
	case JNum:
		b.WriteString(string(t))
	case string:
		writeJSONString(b, t)
	case []any:
		b.WriteByte('[')
		for i, e := range t {
			if i > 0 {
				b.WriteString(", ")
			}
			writeJSON(b, e)
		}
		b.WriteByte(']')
	case map[string]any:
		b.WriteByte('{')
		for i, k := range jsonKeys(t) {
			if i > 0 {
				b.WriteString(", ")
			}
			writeJSONString(b, k)
			b.WriteString(": ")
			writeJSON(b, t[k])
		}
		b.WriteByte('}')
	default:
		fmt.Fprintf(b, "%q", fmt.Sprint(v))
	}
}

func jsonEqual(a, b any) bool {
	switch x := a.(type) {
	case nil:
		return b == nil
	case bool:
		y, ok := b.(bool)
		return ok && x == y
	case JNum:
		y, ok := b.(JNum)
		if !ok {
			return false
		}
		if x == y {
			return true
		}
		rx, ok1 := new(big.Rat).SetString(string(x))
		ry, ok2 := new(big.Rat).SetString(string(y))
		return ok1 && ok2 && rx.Cmp(ry) == 0
	case string:
		y, ok := b.(string)
		return ok && x == y
	case []any:
		y, ok := b.([]any)
		if !ok || len(x) != len(y) {
			return false
		}
		for i := range x {
			if !jsonEqual(x[i], y[i]) {
				return false
			}
		}
		return true
	case map[string]any:
		y, ok := b.(map[string]any)
		if !ok || len(x) != len(y) {
			return false
		}
		for k, v := range x {
			w, ok := y[k]
			if !ok || !jsonEqual(v, w) {
				return false
			}
		}
		return true
	}
	return false
}

func jsonIsScalar(v any) bool {
	switch v.(type) {
	case []any, map[string]any:
		return false
	}
	return true
}

// jsonContains implements jsonb @> (PostgreSQL docs 8.14.3): objects contain objects whose every
// key/value is contained; arrays contain arrays whose every element is contained in some element
// (order and duplicates irrelevant); an array contains a primitive value at top level only; scalars
// contain equal scalars.
func jsonContains(a, b any, top bool) bool {
	switch y := b.(type) {
	case map[string]any:
		x, ok := a.(map[string]any)
		if !ok {
			return false
		}
		for k, bv := range y {
			av, ok := x[k]
			if !ok {
				return false
			}
			if !jsonContains(av, bv, false) {
				return false
			}
		}
		return true
	case []any:
		x, ok := a.([]any)
		if !ok {
			return false
		}
		for _, be := range y {
			found := false
			for _, ae := range x {
				if jsonIsScalar(be) {
					if jsonIsScalar(ae) && jsonEqual(ae, be) {
						found = true
					}
				} else if jsonContains(ae, be, false) {
					found = true
				}
				if found {
					break
				}
			}
			if !found {
				return false
			}
		}
		return true
	default:
		if x, ok := a.([]any); ok && top {
			for _, ae := range x {
				if jsonIsScalar(ae) && jsonEqual(ae, b) {
					return true
				}
			}
			return false
		}
		return jsonIsScalar(a) && jsonEqual(a, b)
	}
}

func copyJSON(v any) any {
	switch t := v.(type) {
	case []any:
		out := make([]any, len(t))
		for i := range t {
			out[i] = copyJSON(t[i])
		}
		return out
	case map[string]any:
		out := make(map[string]any, len(t))
		for k, e := range t {
			out[k] = copyJSON(e)
		}
		return out
	}
	return v
}

// jsonScalarText is the ->> / #>> rendering of a JSON value (NULL for JSON null handled by caller).
func jsonScalarText(v any) string {
	if s, ok := v.(string); ok {
		return s
	}
	return jsonText(v)
}

// ---------------------------------------------------------------------------- timestamps

var tsLayouts = []string{
	"2006-01-02 15:04:05.999999999Z07:00",
	"2006-01-02 15:04:05.999999999Z07",
	"2006-01-02 15:04:05.999999999",
	"2006-01-02T15:04:05.999999999Z07:00",
	"2006-01-02T15:04:05.999999999",
	"2006-01-02",
}

func parseTimestamp(s string) (time.Time, error) {
	s = strings.TrimSpace(s)
	for _, l := range tsLayouts {
		if t, err := time.Parse(l, s); err == nil {
			return t.UTC().Truncate(time.Microsecond), nil
		}
	}
	return time.Time{}, errf("22007", "invalid input syntax for type timestamp: %q", s)
}

// formatTimestamp is Postgres' text output of timestamp without time zone (ISO, DateStyle ISO).
func formatTimestamp(t time.Time) string {
	t = t.UTC()
	s := t.Format("2006-01-02 15:04:05")
	if us := t.Nanosecond() / 1000; us != 0 {
		frac := fmt.Sprintf("%06d", us)
		frac = strings.TrimRight(frac, "0")
		s += "." + frac
	}
	return s
}

// formatTimestampISO is to_json(timestamp): ISO 8601 with 'T', fractional part trimmed.
func formatTimestampISO(t time.Time) string {
	return strings.Replace(formatTimestamp(t), " ", "T", 1)
}

// ---------------------------------------------------------------------------- bytea

func parseBytea(s string) ([]byte, error) {
	if strings.HasPrefix(s, "\\x") {
		b, err := hex.DecodeString(s[2:])
		if err != nil {
			return nil, errf("22P02", "invalid hexadecimal data for bytea")
		}
		return b, nil
	}
	// escape format: \\ -> \, \ooo -> byte, other bytes verbatim
	var out []byte
	for i := 0; i < len(s); i++ {
		c := s[i]
		if c != '\\' {
			out = append(out, c)
			continue
		}
		if i+1 < len(s) && s[i+1] == '\\' {
			out = append(out, '\\')
			i++
			continue
		}
		if i+3 < len(s) && isOct(s[i+1]) && isOct(s[i+2]) && isOct(s[i+3]) {
			n, _ := strconv.ParseUint(s[i+1:i+4], 8, 16)
			out = append(out, byte(n))
			i += 3
			continue
		}
		return nil, errf("22P02", "invalid input syntax for type bytea")
	}
	return out, nil
}

func isOct(c byte) bool { return c >= '0' && c <= '7' }

// encodeEscape is encode(bytea, 'escape'): zero bytes and bytes with the high bit set become \ooo,
// backslash doubles, everything else verbatim.
func encodeEscape(b []byte) string {
	var sb strings.Builder
	for _, c := range b {
		switch {
		case c == 0 || c >= 0x80:
			fmt.Fprintf(&sb, "\\%03o", c)
		case c == '\\':
			sb.WriteString("\\\\")
		default:
			sb.WriteByte(c)
		}
	}
	return sb.String()
}

// encodeBase64 is encode(bytea,'base64'): MIME style, a newline every 76 characters.
func encodeBase64(b []byte) string {
	s := base64.StdEncoding.EncodeToString(b)
	var sb strings.Builder
	for len(s) > 76 {
		sb.WriteString(s[:76])
		sb.WriteByte('\n')
		s = s[76:]
	}
	sb.WriteString(s)
	return sb.String()
}

// ---------------------------------------------------------------------------- text output / casts

// textOf is the `::text` / `||` rendering of a value.
func textOf(v Value) string {
	switch t := v.(type) {
	case nil:
		return ""
	case bool:
		if t {
			return "true"
		}
		return "false"
	case *big.Int:
		return t.String()
	case string:
		return t
	case time.Time:
		return formatTimestamp(t)
	case JSON:
		return jsonText(t.V)
	case []byte:
		return "\\x" + hex.EncodeToString(t)
	case *Array:
		return arrayText(t)
	case *Record:
		return recordText(t)
	}
	return fmt.Sprint(v)
}

func arrayText(a *Array) string {
	var sb strings.Builder
	sb.WriteByte('{')
	for i, e := range a.Elems {
		if i > 0 {
			sb.WriteByte(',')
		}
		if e == nil {
			sb.WriteString("NULL")
			continue
		}
		s := textOf(e)
		if _, isStr := e.(string); isStr || needsArrayQuote(s) {
			if needsArrayQuote(s) {
				s = `"` + strings.ReplaceAll(strings.ReplaceAll(s, `\`, `\\`), `"`, `\"`) + `"`
			}
		}
		sb.WriteString(s)
	}
	sb.WriteByte('}')
	return sb.String()
}

func needsArrayQuote(s string) bool {
	if s == "" || strings.EqualFold(s, "null") {
		return true
	}
	return strings.ContainsAny(s, "{},\"\\ \t\n")
}

func recordText(r *Record) string {
	var sb strings.Builder
	sb.WriteByte('(')
	for i, f := range r.Fields {
		if i > 0 {
			sb.WriteByte(',')
		}
		if f == nil {
			continue
		}
		s := textOf(f)
		if s == "" || strings.ContainsAny(s, "(),\"\\ \t\n") {
			s = `"` + strings.ReplaceAll(strings.ReplaceAll(s, `\`, `\\`), `"`, `""`) + `"`
		}
		sb.WriteString(s)
	}
	sb.WriteByte(')')
	return sb.String()
}

func parseInt(s string) (*big.Int, error) {
	s = strings.TrimSpace(s)
	if n, ok := new(big.Int).SetString(s, 10); ok {
		return n, nil
	}
	if r, ok := new(big.Rat).SetString(s); ok && r.IsInt() {
		return new(big.Int).Set(r.Num()), nil
	}
	return nil, errf("22P02", "invalid input syntax for type numeric: %q (pgmodel keeps integral numerics only)", s)
}

// typeBase strips modifiers: "character varying(255)" -> "varchar", "timestamp without time zone" -> "timestamp".
func typeBase(t string) (base string, isArray bool) {
	t = strings.ToLower(strings.TrimSpace(t))
	for strings.HasSuffix(t, "[]") {
		isArray = true
		t = strings.TrimSuffix(t, "[]")
	}
	if i := strings.IndexByte(t, '('); i >= 0 {
		t = strings.TrimSpace(t[:i])
	}
	if i := strings.LastIndexByte(t, '.'); i >= 0 {
		t = t[i+1:]
	}
	t = strings.Trim(t, `"`)
	switch t {
	case "character varying", "varchar", "text", "char", "character", "name", "citext":
		return "text", isArray
	case "timestamp", "timestamp without time zone", "timestamp with time zone", "timestamptz", "date":
		return "timestamp", isArray
	case "int", "int2", "int4", "int8", "integer", "bigint", "smallint", "serial", "bigserial", "numeric", "decimal", "oid":
		return "int", isArray
	case "bool", "boolean":
		return "bool", isArray
	case "json", "jsonb":
		return "json", isArray
	case "bytea":
		return "bytea", isArray
	case "jsonpath":
		return "jsonpath", isArray
	}
	return t, isArray
}

// castTo implements `v::typ` and assignment coercion into a column of type typ.
func (db *DB) castTo(v Value, typ string) (Value, error) {
	if v == nil {
		return nil, nil
	}
	base, isArr := typeBase(typ)
	if isArr {
		switch t := v.(type) {
		case *Array:
			out := &Array{Elems: make([]Value, len(t.Elems))}
			for i, e := range t.Elems {
				c, err := db.castTo(e, base)
				if err != nil {
					return nil, err
				}
				out.Elems[i] = c
			}
			return out, nil
		case string:
			a, err := parseArrayLiteral(t)
			if err != nil {
				return nil, err
			}
			return db.castTo(a, typ)
		}
		return nil, unsupported("cast %T to %s", v, typ)
	}
	switch base {
	case "text":
		return textOf(v), nil
	case "int":
		switch t := v.(type) {
		case *big.Int:
			return t, nil
		case string:
			return parseInt(t)
		case bool:
			if t {
				return big.NewInt(1), nil
			}
			return big.NewInt(0), nil
		case JSON:
			if n, ok := t.V.(JNum); ok {
				return parseInt(string(n))
			}
		}
	case "bool":
		switch t := v.(type) {
		case bool:
			return t, nil
		case string:
			switch strings.ToLower(t) {
			case "t", "true", "yes", "on", "1":
				return true, nil
			case "f", "false", "no", "off", "0":
				return false, nil
			}
			return nil, errf("22P02", "invalid input syntax for type boolean: %q", t)
		case JSON:
			if b, ok := t.V.(bool); ok {
				return b, nil
			}
		}
	case "timestamp":
		switch t := v.(type) {
		case time.Time:
			return t, nil
		case string:
			return parseTimestamp(t)
		}
	case "json":
		switch t := v.(type) {
		case JSON:
			return t, nil
		case string:
			return parseJSON(t)
		case []byte:
			return parseJSON(string(t))
		}
	case "bytea":
		switch t := v.(type) {
		case []byte:
			return t, nil
		case string:
			return parseBytea(t)
		}
	case "jsonpath":
		if s, ok := v.(string); ok {
			return s, nil
		}
	case "regclass", "unknown", "anyelement", "record":
		return v, nil
	default:
		// composite or enum types from the catalog
		if db != nil {
			if ct := db.findType(base); ct != nil {
				if ct.Enum != nil {
					s := textOf(v)
					for _, l := range ct.Enum {
						if l == s {
							return s, nil
						}
					}
					return nil, errf("22P02", "invalid input value for enum %s: %q", base, s)
				}
				switch t := v.(type) {
				case *Record:
					if len(t.Fields) != len(ct.Fields) {
						return nil, errf("42846", "cannot cast record to %s: field count", base)
					}
					out := &Record{Type: ct.Name, Names: make([]string, len(ct.Fields)), Fields: make([]Value, len(ct.Fields))}
					for i, f := range ct.Fields {
						c, err := db.castTo(t.Fields[i], f.Type)
						if err != nil {
							return nil, err
						}
						out.Names[i] = f.Name
						out.Fields[i] = c
					}
					return out, nil
				case string:
					r, err := parseRecordLiteral(t)
					if err != nil {
						return nil, err
					}
					return db.castTo(r, typ)
				}
			}
		}
		return nil, unsupported("cast to type %q", typ)
	}
	return nil, errf("42846", "cannot cast %T to %s", v, typ)
}

func parseArrayLiteral(s string) (*Array, error) {
	s = strings.TrimSpace(s)
	if len(s) < 2 || s[0] != '{' || s[len(s)-1] != '}' {
		return nil, errf("22P02", "malformed array literal: %q", s)
	}
	body := s[1 : len(s)-1]
	out := &Array{}
	if strings.TrimSpace(body) == "" {
		return out, nil
	}
	i := 0
	for i <= len(body) {
		var sb strings.Builder
		quoted := false
		for i < len(body) && body[i] != ',' {
			if body[i] == '"' {
				quoted = true
				i++
				for i < len(body) && body[i] != '"' {
					if body[i] == '\\' && i+1 < len(body) {
						i++
					}
					sb.WriteByte(body[i])
					i++
				}
				i++
				continue
			}
			if body[i] == '{' {
				return nil, unsupported("multi-dimensional array literal")
			}
			sb.WriteByte(body[i])
			i++
		}
		i++
		str := sb.String()
		if !quoted {
			str = strings.TrimSpace(str)
			if strings.EqualFold(str, "null") {
				out.Elems = append(out.Elems, nil)
				continue
			}
		}
		out.Elems = append(out.Elems, str)
	}
	return out, nil
}

func parseRecordLiteral(s string) (*Record, error) {
	s = strings.TrimSpace(s)
	if len(s) < 2 || s[0] != '(' || s[len(s)-1] != ')' {
		return nil, errf("22P02", "malformed record literal: %q", s)
	}
	body := s[1 : len(s)-1]
	out := &Record{}
	i := 0
	for i <= len(body) {
		var sb strings.Builder
		quoted := false
		empty := true
		for i < len(body) && body[i] != ',' {
			empty = false
			if body[i] == '"' {
				quoted = true
				i++
				for i < len(body) {
					if body[i] == '"' {
						if i+1 < len(body) && body[i+1] == '"' {
							sb.WriteByte('"')
							i += 2
							continue
						}
						break
					}
					if body[i] == '\\' && i+1 < len(body) {
						i++
					}
					sb.WriteByte(body[i])
					i++
				}
				i++
				continue
			}
			sb.WriteByte(body[i])
			i++
		}
		i++
		if empty && !quoted {
			out.Fields = append(out.Fields, nil)
		} else {
			out.Fields = append(out.Fields, sb.String())
		}
		out.Names = append(out.Names, "")
	}
	return out, nil
}

// ---------------------------------------------------------------------------- comparison

// coercePair resolves untyped string literals against the other operand (Postgres' unknown-literal rule).
func (db *DB) coercePair(a, b Value) (Value, Value, error) {
	if a == nil || b == nil {
		return a, b, nil
	}
	sa, aStr := a.(string)
	sb, bStr := b.(string)
	if aStr && !bStr {
		c, err := coerceStringLike(db, sa, b)
		return c, b, err
	}
	if bStr && !aStr {
		c, err := coerceStringLike(db, sb, a)
		return a, c, err
	}
	return a, b, nil
}

func coerceStringLike(db *DB, s string, like Value) (Value, error) {
	switch t := like.(type) {
	case *big.Int:
		return parseInt(s)
	case time.Time:
		return parseTimestamp(s)
	case JSON:
		return parseJSON(s)
	case []byte:
		return parseBytea(s)
	case bool:
		return db.castTo(s, "bool")
	case *Array:
		a, err := parseArrayLiteral(s)
		if err != nil {
			return nil, err
		}
		if len(t.Elems) > 0 {
			for i, e := range a.Elems {
				if es, ok := e.(string); ok {
					for _, m := range t.Elems {
						if m != nil {
							if c, err := coerceStringLike(db, es, m); err == nil {
								a.Elems[i] = c
							}
							break
						}
					}
				}
			}
		}
		return a, nil
	case *Record:
		return parseRecordLiteral(s)
	}
	return s, nil
}

// compareValues returns -1/0/1; both non-NULL and already coerced.
func compareValues(a, b Value) (int, error) {
	switch x := a.(type) {
	case bool:
		if y, ok := b.(bool); ok {
			switch {
			case x == y:
				return 0, nil
			case !x:
				return -1, nil
			}
			return 1, nil
		}
	case *big.Int:
		if y, ok := b.(*big.Int); ok {
			return x.Cmp(y), nil
		}
	case string:
		if y, ok := b.(string); ok {
			return strings.Compare(x, y), nil
		}
	case time.Time:
		if y, ok := b.(time.Time); ok {
			switch {
			case x.Before(y):
				return -1, nil
			case x.After(y):
				return 1, nil
			}
			return 0, nil
		}
	case []byte:
		if y, ok := b.([]byte); ok {
			return bytes.Compare(x, y), nil
		}
	case JSON:
		if y, ok := b.(JSON); ok {
			if jsonEqual(x.V, y.V) {
				return 0, nil
			}
			return strings.Compare(jsonText(x.V), jsonText(y.V)), nil
		}
	case *Array:
		if y, ok := b.(*Array); ok {
			for i := 0; i < len(x.Elems) && i < len(y.Elems); i++ {
				c, err := compareNullable(x.Elems[i], y.Elems[i])
				if err != nil || c != 0 {
					return c, err
				}
			}
			return len(x.Elems) - len(y.Elems), nil
		}
	case *Record:
		if y, ok := b.(*Record); ok {
			for i := 0; i < len(x.Fields) && i < len(y.Fields); i++ {
				c, err := compareNullable(x.Fields[i], y.Fields[i])
				if err != nil || c != 0 {
					return c, err
				}
			}
			return len(x.Fields) - len(y.Fields), nil
		}
	}
	return 0, errf("42883", "operator does not exist: cannot compare %T with %T", a, b)
}

// compareNullable orders NULL after everything (used for sorting, DISTINCT and grouping).
func compareNullable(a, b Value) (int, error) {
	if a == nil && b == nil {
		return 0, nil
	}
	if a == nil {
		return 1, nil
	}
	if b == nil {
		return -1, nil
	}
	return compareValues(a, b)
}

// keyOf is a canonical string usable as a map key for grouping / DISTINCT / unique indexes.
func keyOf(v Value) string {
	switch t := v.(type) {
	case nil:
		return "N"
	case bool:
		if t {
			return "b1"
		}
		return "b0"
	case *big.Int:
		return "i" + t.String()
	case string:
		return "s" + strconv.Quote(t)
	case time.Time:
		return "t" + strconv.FormatInt(t.UnixMicro(), 10)
	case JSON:
		return "j" + jsonText(t.V)
	case []byte:
		return "x" + hex.EncodeToString(t)
	case *Array:
		parts := make([]string, len(t.Elems))
		for i, e := range t.Elems {
			parts[i] = keyOf(e)
		}
		return "a[" + strings.Join(parts, ",") + "]"
	case *Record:
		parts := make([]string, len(t.Fields))
		for i, e := range t.Fields {
			parts[i] = keyOf(e)
		}
		return "r(" + strings.Join(parts, ",") + ")"
	}
	return fmt.Sprintf("?%v", v)
}

func keyOfRow(vs []Value) string {
	parts := make([]string, len(vs))
	for i, v := range vs {
		parts[i] = keyOf(v)
	}
	return strings.Join(parts, "|")
}

func copyValue(v Value) Value {
	switch t := v.(type) {
	case *big.Int:
		return new(big.Int).Set(t)
	case JSON:
		return JSON{V: copyJSON(t.V)}
	case []byte:
		return append([]byte(nil), t...)
	case *Array:
		out := &Array{Elems: make([]Value, len(t.Elems))}
		for i, e := range t.Elems {
			out.Elems[i] = copyValue(e)
		}
		return out
	case *Record:
		out := &Record{Type: t.Type, Names: append([]string(nil), t.Names...), Fields: make([]Value, len(t.Fields))}
		for i, e := range t.Fields {
			out.Fields[i] = copyValue(e)
		}
		return out
	}
	return v
}
