package pgmodel

import (
	"context"
	"database/sql/driver"
	"errors"
	"io"
	"math/big"
	"strings"
	"time"

	"github.com/jackc/pgx/v5/pgconn"
)

// Connector implements driver.Connector over a DB.
type Connector struct{ DB *DB }

func (c *Connector) Connect(ctx context.Context) (driver.Conn, error) {
	return &conn{s: c.DB.NewSession()}, nil
}

func (c *Connector) Driver() driver.Driver { return drv{} }

type drv struct{}

func (drv) Open(string) (driver.Conn, error) { return nil, errors.New("pgmodel: use sql.OpenDB(connector)") }

type conn struct {
	s *Session
}

func convErr(err error) error {
	if err == nil {
		return nil
	}
	var pe *PgErr
	if errors.As(err, &pe) {
		return &pgconn.PgError{Severity: "ERROR", Code: pe.Code, Message: pe.Message, ConstraintName: pe.Constraint, TableName: pe.Table}
	}
	return err
}

func (c *conn) Prepare(query string) (driver.Stmt, error) {
	return nil, errors.New("pgmodel: prepared statements are not supported")
}

func (c *conn) Close() error {
	c.s.Close()
	return nil
}

func (c *conn) Begin() (driver.Tx, error) { return c.BeginTx(context.Background(), driver.TxOptions{}) }

func (c *conn) BeginTx(ctx context.Context, opts driver.TxOptions) (driver.Tx, error) {
	if opts.ReadOnly {
		return nil, errors.New("pgmodel: read-only transactions are not supported")
	}
	if _, err := c.s.Exec(ctx, "BEGIN"); err != nil {
		return nil, convErr(err)
	}
	// database/sql isolation levels: 4 = RepeatableRead, 5 = Snapshot, 6 = Serializable, 7 = Linearizable
	if opts.Isolation >= 4 {
		c.s.setRepeatableRead()
	}
	return &tx{c: c, ctx: WithWorker(context.Background(), workerOf(ctx))}, nil
}

type tx struct {
	c   *conn
	ctx context.Context
}

func (t *tx) Commit() error {
	_, err := t.c.s.Exec(t.ctx, "COMMIT")
	return convErr(err)
}

func (t *tx) Rollback() error {
	_, err := t.c.s.Exec(t.ctx, "ROLLBACK")
	return convErr(err)
}

func (c *conn) Ping(ctx context.Context) error { return nil }

func (c *conn) ResetSession(ctx context.Context) error {
	if c.s.closed {
		return driver.ErrBadConn
	}
	return nil
}

func (c *conn) IsValid() bool { return !c.s.closed }

func (c *conn) ExecContext(ctx context.Context, query string, args []driver.NamedValue) (driver.Result, error) {
	if len(args) > 0 {
		return nil, convErr(unsupported("bind parameters (got %d)", len(args)))
	}
	res, err := c.s.Exec(ctx, query)
	if err != nil {
		return nil, convErr(err)
	}
	return result{n: res.N}, nil
}

type result struct{ n int64 }

func (r result) LastInsertId() (int64, error) { return 0, errors.New("not supported") }
func (r result) RowsAffected() (int64, error) { return r.n, nil }

func (c *conn) QueryContext(ctx context.Context, query string, args []driver.NamedValue) (driver.Rows, error) {
	if len(args) > 0 {
		return nil, convErr(unsupported("bind parameters (got %d)", len(args)))
	}
	res, err := c.s.Exec(ctx, query)
	if err != nil {
		return nil, convErr(err)
	}
	return &rows{res: res}, nil
}

type rows struct {
	res *Result
	i   int
}

func (r *rows) Columns() []string { return r.res.Cols }
func (r *rows) Close() error      { return nil }

func (r *rows) Next(dest []driver.Value) error {
	if r.i >= len(r.res.Rows) {
		return io.EOF
	}
	row := r.res.Rows[r.i]
	r.i++
	for i := range dest {
		ty := ""
		if i < len(r.res.Types) {
			ty = r.res.Types[i]
		}
		dest[i] = driverValue(row[i], ty)
	}
	return nil
}

// ColumnTypeDatabaseTypeName lets bun know the column type where it asks.
func (r *rows) ColumnTypeDatabaseTypeName(index int) string {
	if index < len(r.res.Types) {
		return strings.ToUpper(r.res.Types[index])
	}
	return ""
}

var maxInt64 = new(big.Int).SetInt64(1<<63 - 1)
var minInt64 = new(big.Int).SetInt64(-1 << 63)

// driverValue follows the conventions of pgx's database/sql adapter: int64 for integer types, string
// for numeric / json / arrays / composites, []byte for bytea, time.Time for timestamps.
func driverValue(v Value, typ string) driver.Value {
	switch t := v.(type) {
	case nil:
		return nil
	case bool:
		return t
	case *big.Int:
		base := strings.ToLower(strings.TrimSpace(typ))
		if i := strings.IndexByte(base, '('); i >= 0 {
			base = base[:i]
		}
		isNumeric := base == "numeric" || base == "decimal"
		if !isNumeric && t.Cmp(maxInt64) <= 0 && t.Cmp(minInt64) >= 0 {
			return t.Int64()
		}
		return t.String()
	case string:
		return t
	case time.Time:
		return t
	case JSON:
		return jsonText(t.V)
	case []byte:
		return append([]byte(nil), t...)
	case *Array:
		return arrayText(t)
	case *Record:
		return recordText(t)
	}
	return textOf(v)
}
