package pgmodel

import (
	"fmt"
	"hash/fnv"
	"math/big"
	"sort"
	"strings"
	"sync"
	"time"
)

// ---------------------------------------------------------------------------- catalog

type Column struct {
	Name    string
	Type    string
	NotNull bool
	Default Expr
}

type Index struct {
	Name    string
	Unique  bool
	Primary bool
	Cols    []string // plain column names; an index on expressions has Exprs set instead
	Exprs   []Expr
	Where   Expr
}

type Trigger struct {
	Name     string
	Before   bool
	Events   []string // insert | update | delete
	UpdateOf []string
	When     Expr
	FuncSch  string
	Func     string
	Deferred bool
}

type Check struct {
	Name string
	Expr Expr
}

type Table struct {
	Schema, Name   string
	Cols           []*Column
	Rows           []*RowVer
	Indexes        []*Index
	Triggers       []*Trigger
	Checks         []*Check
	Temp           bool
	OnCommitDelete bool
	nextRowID      int64
}

func (t *Table) colIndex(name string) int {
	for i, c := range t.Cols {
		if c.Name == name {
			return i
		}
	}
	return -1
}

func (t *Table) colNames() []string {
	out := make([]string, len(t.Cols))
	for i, c := range t.Cols {
		out[i] = c.Name
	}
	return out
}

type Sequence struct {
	Name     string
	Next     *big.Int // value returned by the next nextval when !Called semantics folded in
	IsCalled bool
	Last     *big.Int
	Cache    int                    // CACHE n (seqcache.go); 0 or 1 = no caching
	reserved map[*Session]*seqRange // per-session reserved blocks when Cache > 1
}

type FuncArg struct {
	Name, Type string
	Default    Expr
}

type Function struct {
	Schema, Name string
	Args         []FuncArg
	Returns      string
	Lang         string
	Body         string
	IsProc       bool
	SearchPath   string
	parsed       any // cached parse result
}

type TypeField struct{ Name, Type string }

type TypeDef struct {
	Name   string
	Fields []TypeField
	Enum   []string
}

type Aggregate struct {
	Name     string
	SFunc    string
	InitCond string
	SType    string
}

type Schema struct {
	Name   string
	Tables map[string]*Table
	Seqs   map[string]*Sequence
	Funcs  map[string][]*Function
	Types  map[string]*TypeDef
	Aggs   map[string]*Aggregate
}

func newSchema(name string) *Schema {
	return &Schema{Name: name, Tables: map[string]*Table{}, Seqs: map[string]*Sequence{}, Funcs: map[string][]*Function{},
		Types: map[string]*TypeDef{}, Aggs: map[string]*Aggregate{}}
}

// ---------------------------------------------------------------------------- storage

type txnState int

const (
	txActive txnState = iota
	txCommitted
	txAborted
)

// Txn is a top-level transaction.
type Txn struct {
	id        int64
	sess      *Session
	state     txnState
	cid       int       // command counter
	xacts     []*xact   // every (sub)transaction created, in order
	cur       *xact     // current subtransaction new statements are children of
	saves     []savept  // savepoint stack
	failed    bool      // aborted state: only ROLLBACK [TO] accepted
	implicit  bool      // autocommit statement
	touched   []touch   // rows whose xmin/xmax/lockers reference this txn
	advLocks  []int64   // transaction-scoped advisory locks
	advShLocks []int64  // transaction-scoped shared advisory locks (advshared.go)
	tsSet     bool
	ts        time.Time // transaction_timestamp / now()
	txDate    *time.Time
	deferred  []func() error
	commitSeq int64
	rr        bool  // REPEATABLE READ or stricter (repeatable.go)
	rrSet     bool  // the transaction snapshot has been taken
	rrSeq     int64 // commits visible to it: commitSeq <= rrSeq
}

type savept struct {
	name string
	x    *xact
	nx   int // len(xacts) at creation
}

type xact struct {
	top     *Txn
	aborted bool
}

type touch struct {
	t *Table
	r *RowVer
}

func (x *xact) live() bool { return !x.aborted && x.top.state != txAborted }

// RowVer is one version of a row.
type RowVer struct {
	id      int64
	vals    []Value
	xmin    *xact
	cmin    int
	xmax    *xact
	cmax    int
	lockers []*xact
	next    *RowVer // newer version created by UPDATE
}

type snapshot struct {
	txn    *Txn
	cid    int
	useSeq bool  // transaction-level snapshot (REPEATABLE READ): only commits with commitSeq <= seq are visible
	seq    int64
}

func (s snapshot) sees(r *RowVer) bool {
	x := r.xmin
	if x.aborted {
		return false
	}
	switch {
	case x.top.state == txCommitted:
		if s.useSeq && x.top != s.txn && x.top.commitSeq > s.seq {
			return false // committed after this transaction's snapshot
		}
	case x.top == s.txn && x.top.state == txActive && r.cmin < s.cid:
	default:
		return false
	}
	if d := r.xmax; d != nil && !d.aborted {
		if d.top.state == txCommitted && !(s.useSeq && d.top != s.txn && d.top.commitSeq > s.seq) {
			return false
		}
		if d.top == s.txn && d.top.state == txActive && r.cmax < s.cid {
			return false
		}
	}
	return true
}

// ---------------------------------------------------------------------------- DB

// Gate lets a scheduler decide which worker executes its next statement. Worker identifies the
// logical client (taken from the context), not the connection.
type Gate interface {
	// Before is called (without the engine mutex) before a statement runs.
	Before(worker string, sess int, sql string)
	// Blocked is called when the statement must wait for another session; the worker is then parked
	// until Unblocked, after which Before is called again for the same statement.
	Blocked(worker string, sess int, onSess int)
	Unblocked(worker string, sess int)
}

type StmtEvent struct {
	N      int64
	Sess   int
	Worker string
	Kind   string
	SQL    string
	Err    string
}

type DB struct {
	mu       sync.Mutex
	cond     *sync.Cond
	schemas  map[string]*Schema
	sessions map[int]*Session
	nextSess int
	nextTxn  int64

	StmtN   int64 // statements executed
	CommitN int64 // commits performed

	// Clock returns the current logical time (statement_timestamp / now). Owned by the harness.
	Clock func() time.Time
	gate  Gate
	// Observer, if set, is called under the engine mutex after every statement.
	Observer func(ev StmtEvent)
	// OnCommit, if set, is called under the engine mutex right after a transaction commits (the
	// linearization point of a write), with the commit sequence number.
	OnCommit func(sess int, worker string, commitSeq int64)
	// Fault, if set, is consulted before every statement / commit: returning a non-nil error makes the
	// statement fail with it without executing.
	Fault func(sess int, worker string, n int64, kind string, sql string) error

	advisory map[int64]*advLock
	advShared map[int64]map[*Session]*advShare // shared-mode holders (advshared.go)
	advQueue  map[int64][]*Session             // FIFO of the sessions parked on an advisory key (advshared.go)
	waiting  map[string]*waitErr // worker -> what its parked statement waits for
	notes    []string // ORDER-DEPENDENT and similar diagnostics
	skipped  []string // legacy migration statements skipped under the empty-tables rule
	Unsupported []string
}

type advLock struct {
	sess  *Session
	count int // session-level holds
	xact  int // transaction-level holds
}

func NewDB() *DB {
	db := &DB{schemas: map[string]*Schema{}, sessions: map[int]*Session{}, advisory: map[int64]*advLock{}, waiting: map[string]*waitErr{}}
	db.cond = sync.NewCond(&db.mu)
	base := time.Date(2030, 1, 1, 0, 0, 0, 0, time.UTC)
	db.Clock = func() time.Time { return base }
	db.schemas["public"] = newSchema("public")
	db.schemas["pg_temp"] = newSchema("pg_temp")
	return db
}

func (db *DB) SetGate(g Gate) {
	db.mu.Lock()
	db.gate = g
	db.mu.Unlock()
}

func (db *DB) note(format string, a ...any) {
	s := fmt.Sprintf(format, a...)
	for _, n := range db.notes {
		if n == s {
			return
		}
	}
	if len(db.notes) < 200 {
		db.notes = append(db.notes, s)
	}
}

// Notes returns diagnostics such as ORDER-DEPENDENT query results.
func (db *DB) Notes() []string {
	db.mu.Lock()
	defer db.mu.Unlock()
	return append([]string(nil), db.notes...)
}

func (db *DB) schema(name string, create bool) *Schema {
	s := db.schemas[name]
	if s == nil && create {
		s = newSchema(name)
		db.schemas[name] = s
	}
	return s
}

// search path resolution helpers --------------------------------------------------------------

func (s *Session) searchPath() []string {
	out := []string{}
	if s.tempSchema != nil {
		out = append(out, s.tempSchema.Name)
	}
	out = append(out, s.path...)
	out = append(out, "public")
	return out
}

func (db *DB) findTable(s *Session, schema, name string) *Table {
	if schema != "" {
		if sc := db.schemas[schema]; sc != nil {
			return sc.Tables[name]
		}
		return nil
	}
	if s != nil && s.tempSchema != nil {
		if t := s.tempSchema.Tables[name]; t != nil {
			return t
		}
	}
	var path []string
	if s != nil {
		path = s.searchPath()
	} else {
		path = []string{"public"}
	}
	for _, p := range path {
		if sc := db.schemas[p]; sc != nil {
			if t := sc.Tables[name]; t != nil {
				return t
			}
		}
	}
	return nil
}

// pickOverload chooses among the functions of one name by argument count (nargs < 0: any).
func pickOverload(fs []*Function, nargs int) *Function {
	if len(fs) == 0 {
		return nil
	}
	if nargs < 0 {
		return fs[len(fs)-1]
	}
	for _, f := range fs {
		if len(f.Args) == nargs {
			return f
		}
	}
	for _, f := range fs {
		if nargs < len(f.Args) {
			ok := true
			for _, a := range f.Args[nargs:] {
				if a.Default == nil {
					ok = false
				}
			}
			if ok {
				return f
			}
		}
	}
	return nil
}

// findFunc resolves a function by name and argument count (overloads differ by arity in this schema).
func (db *DB) findFunc(s *Session, schema, name string, nargs int) *Function {
	if schema != "" {
		if sc := db.schemas[schema]; sc != nil {
			return pickOverload(sc.Funcs[name], nargs)
		}
		return nil
	}
	var path []string
	if s != nil {
		path = s.searchPath()
	} else {
		path = []string{"public"}
	}
	for _, p := range path {
		if sc := db.schemas[p]; sc != nil {
			if f := pickOverload(sc.Funcs[name], nargs); f != nil {
				return f
			}
		}
	}
	return nil
}

func (db *DB) findAgg(s *Session, schema, name string) *Aggregate {
	if schema != "" {
		if sc := db.schemas[schema]; sc != nil {
			return sc.Aggs[name]
		}
		return nil
	}
	var path []string
	if s != nil {
		path = s.searchPath()
	} else {
		path = []string{"public"}
	}
	for _, p := range path {
		if sc := db.schemas[p]; sc != nil {
			if f := sc.Aggs[name]; f != nil {
				return f
			}
		}
	}
	return nil
}

func (db *DB) findSeq(s *Session, schema, name string) *Sequence {
	if schema != "" {
		if sc := db.schemas[schema]; sc != nil {
			return sc.Seqs[name]
		}
		return nil
	}
	var path []string
	if s != nil {
		path = s.searchPath()
	} else {
		path = []string{"public"}
	}
	for _, p := range path {
		if sc := db.schemas[p]; sc != nil {
			if q := sc.Seqs[name]; q != nil {
				return q
			}
		}
	}
	return nil
}

// findType looks a composite/enum type up in every schema (type names are unique enough here).
func (db *DB) findType(name string) *TypeDef {
	names := make([]string, 0, len(db.schemas))
	for n := range db.schemas {
		names = append(names, n)
	}
	sort.Strings(names)
	for _, n := range names {
		if t := db.schemas[n].Types[name]; t != nil {
			return t
		}
	}
	// a table name is also a composite type
	for _, n := range names {
		if t := db.schemas[n].Tables[name]; t != nil {
			td := &TypeDef{Name: name}
			for _, c := range t.Cols {
				td.Fields = append(td.Fields, TypeField{Name: c.Name, Type: c.Type})
			}
			return td
		}
	}
	return nil
}

// ---------------------------------------------------------------------------- sessions

type Session struct {
	db         *DB
	id         int
	txn        *Txn
	path       []string
	tempSchema *Schema
	waitingOn  *Session
	closed     bool
	worker     string
	advSession map[int64]int
	advWait    map[int64]bool // advisory keys the running statement is queued for (advshared.go)
}

func (db *DB) NewSession() *Session {
	db.mu.Lock()
	defer db.mu.Unlock()
	db.nextSess++
	s := &Session{db: db, id: db.nextSess, advSession: map[int64]int{}}
	db.sessions[s.id] = s
	return s
}

func (s *Session) ID() int { return s.id }

func (s *Session) Close() {
	db := s.db
	db.mu.Lock()
	defer db.mu.Unlock()
	if s.closed {
		return
	}
	if s.txn != nil {
		db.endTxn(s.txn, false)
	}
	for k := range s.advSession {
		if l := db.advisory[k]; l != nil && l.sess == s {
			delete(db.advisory, k)
		}
	}
	s.advSession = map[int64]int{}
	db.releaseSharedSession(s)
	s.closed = true
	delete(db.sessions, s.id)
	db.cond.Broadcast()
}

// ---------------------------------------------------------------------------- transactions

func (db *DB) beginTxn(s *Session, implicit bool) *Txn {
	db.nextTxn++
	t := &Txn{id: db.nextTxn, sess: s, implicit: implicit}
	t.ts = db.Clock().UTC().Truncate(time.Microsecond)
	t.tsSet = true
	x := &xact{top: t}
	t.xacts = []*xact{x}
	t.cur = x
	t.cid = 1
	s.txn = t
	return t
}

func (t *Txn) newXact() *xact {
	x := &xact{top: t}
	t.xacts = append(t.xacts, x)
	return x
}

func (t *Txn) touch(tb *Table, r *RowVer) { t.touched = append(t.touched, touch{tb, r}) }

// endTxn commits or aborts; must hold db.mu.
func (db *DB) endTxn(t *Txn, commit bool) {
	if t.state != txActive {
		return
	}
	if commit {
		t.state = txCommitted
		if len(t.touched) > 0 {
			// only transactions that wrote something count as commits (linearization points)
			db.CommitN++
		}
		t.commitSeq = db.CommitN
	} else {
		t.state = txAborted
	}
	// physical cleanup
	seen := map[*RowVer]bool{}
	for _, tc := range t.touched {
		r := tc.r
		if seen[r] {
			continue
		}
		seen[r] = true
		// drop stale lockers
		if len(r.lockers) > 0 {
			keep := r.lockers[:0]
			for _, l := range r.lockers {
				if l.top.state == txActive && !l.aborted {
					keep = append(keep, l)
				}
			}
			r.lockers = keep
		}
		if r.xmax != nil && (r.xmax.aborted || r.xmax.top.state == txAborted) {
			r.xmax = nil
			r.next = nil
		}
	}
	// remove dead versions from tables touched
	tabs := map[*Table]bool{}
	for _, tc := range t.touched {
		tabs[tc.t] = true
	}
	for tb := range tabs {
		if tb != nil {
			db.vacuum(tb)
		}
	}
	// temp tables with ON COMMIT DELETE ROWS
	if t.sess.tempSchema != nil {
		for _, tb := range t.sess.tempSchema.Tables {
			if tb.OnCommitDelete {
				tb.Rows = nil
			}
		}
	}
	// advisory xact locks
	for _, k := range t.advLocks {
		if l := db.advisory[k]; l != nil && l.sess == t.sess {
			l.xact = 0
			if l.count == 0 {
				delete(db.advisory, k)
			}
		}
	}
	db.releaseSharedXact(t)
	t.sess.txn = nil
	t.sess.waitingOn = nil
	if commit && db.OnCommit != nil && !t.implicitReadOnly() {
		db.OnCommit(t.sess.id, t.sess.worker, t.commitSeq)
	}
	db.cond.Broadcast()
}

func (t *Txn) implicitReadOnly() bool {
	return len(t.touched) == 0 && len(t.advLocks) == 0 && len(t.advShLocks) == 0
}

func (db *DB) vacuum(tb *Table) {
	keep := tb.Rows[:0]
	for _, r := range tb.Rows {
		dead := r.xmin.aborted || r.xmin.top.state == txAborted
		if !dead && r.xmax != nil && !r.xmax.aborted && r.xmax.top.state == txCommitted {
			dead = true
		}
		if !dead {
			keep = append(keep, r)
		}
	}
	for i := len(keep); i < len(tb.Rows); i++ {
		tb.Rows[i] = nil
	}
	tb.Rows = keep
}

// abortXacts marks every subtransaction created at or after index from as aborted and undoes them.
func (db *DB) abortXacts(t *Txn, from int) {
	ab := map[*xact]bool{}
	for i := from; i < len(t.xacts); i++ {
		t.xacts[i].aborted = true
		ab[t.xacts[i]] = true
	}
	tabs := map[*Table]bool{}
	for _, tc := range t.touched {
		r := tc.r
		if r.xmax != nil && ab[r.xmax] {
			r.xmax = nil
			r.next = nil
		}
		if len(r.lockers) > 0 {
			keep := r.lockers[:0]
			for _, l := range r.lockers {
				if !ab[l] {
					keep = append(keep, l)
				}
			}
			r.lockers = keep
		}
		if ab[r.xmin] && tc.t != nil {
			tabs[tc.t] = true
		}
	}
	for tb := range tabs {
		db.vacuum(tb)
	}
	db.cond.Broadcast()
}

// ---------------------------------------------------------------------------- waiting

// waitErr is raised (as a panic value wrapped in error) when a statement must wait for a session.
type waitErr struct {
	on       *Session
	what     string
	blockTxn int64
	waiter   *Session // advisory waits: who waits (to evaluate its place in the queue)
}

func (w *waitErr) Error() string { return "wait for session " + fmt.Sprint(w.on.id) + ": " + w.what }

// rowHolder returns the other active transaction holding a lock on r (writer or FOR UPDATE locker).
func rowHolder(r *RowVer, me *Txn) *Txn {
	if x := r.xmax; x != nil && x.live() && x.top.state == txActive && x.top != me {
		return x.top
	}
	for _, l := range r.lockers {
		if l.live() && l.top.state == txActive && l.top != me {
			return l.top
		}
	}
	return nil
}

// checkDeadlock reports whether s waiting on target closes a wait-for cycle.
func (db *DB) checkDeadlock(s, target *Session) bool {
	seen := map[*Session]bool{}
	for cur := target; cur != nil; cur = cur.waitingOn {
		if cur == s {
			return true
		}
		if seen[cur] {
			return false
		}
		seen[cur] = true
	}
	return false
}

// ---------------------------------------------------------------------------- sequences, advisory locks

func (q *Sequence) nextval() *big.Int {
	var v *big.Int
	if !q.IsCalled {
		v = new(big.Int).Set(q.Last)
		q.IsCalled = true
	} else {
		v = new(big.Int).Add(q.Last, big.NewInt(1))
	}
	q.Last = v
	return new(big.Int).Set(v)
}

func bigFromInt(i int) *big.Int { return big.NewInt(int64(i)) }

func hashtext(s string) int64 {
	h := fnv.New32a()
	h.Write([]byte(s))
	return int64(int32(h.Sum32()))
}

// advisoryLock acquires (or raises waitErr). xactScoped => released at transaction end.
func (db *DB) advisoryLock(s *Session, key int64, xactScoped bool) error {
	l := db.advisory[key]
	if l != nil && l.sess != s {
		if l.sess.closed {
			delete(db.advisory, key)
			l = nil
		} else {
			db.advEnqueue(s, key)
			return &waitErr{on: l.sess, what: fmt.Sprintf("advisory lock %d", key), waiter: s}
		}
	}
	if h := db.otherSharedHolder(s, key); h != nil {
		db.advEnqueue(s, key)
		return &waitErr{on: h, what: fmt.Sprintf("advisory lock %d", key), waiter: s}
	}
	if l == nil {
		if a := db.advAhead(s, key); a != nil {
			// free right now, but an earlier waiter has not run again yet: queue behind it
			db.advEnqueue(s, key)
			return &waitErr{on: a, what: fmt.Sprintf("advisory lock %d", key), waiter: s}
		}
	}
	db.advDequeue(s, key)
	if l == nil {
		l = &advLock{sess: s}
		db.advisory[key] = l
	}
	if xactScoped {
		l.xact++
		if s.txn != nil {
			s.txn.advLocks = append(s.txn.advLocks, key)
		}
	} else {
		l.count++
		s.advSession[key]++
	}
	return nil
}

func (db *DB) advisoryUnlock(s *Session, key int64) bool {
	l := db.advisory[key]
	if l == nil || l.sess != s || l.count == 0 {
		return false
	}
	l.count--
	s.advSession[key]--
	if l.count == 0 && l.xact == 0 {
		delete(db.advisory, key)
	}
	db.cond.Broadcast()
	return true
}

// ---------------------------------------------------------------------------- snapshot / clone

// Clone deep-copies the committed state of the database (catalog + committed rows + sequences). It
// must be called when no transaction is active. Used to bootstrap one migrated database and reuse it.
func (db *DB) Clone() *DB {
	db.mu.Lock()
	defer db.mu.Unlock()
	n := NewDB()
	n.Clock = db.Clock
	boot := &Txn{state: txCommitted}
	bx := &xact{top: boot}
	for name, sc := range db.schemas {
		if strings.HasPrefix(name, "pg_temp") {
			continue
		}
		ns := newSchema(name)
		n.schemas[name] = ns
		for k, t := range sc.Tables {
			nt := &Table{Schema: t.Schema, Name: t.Name, Temp: t.Temp, OnCommitDelete: t.OnCommitDelete, nextRowID: t.nextRowID}
			for _, c := range t.Cols {
				cc := *c
				nt.Cols = append(nt.Cols, &cc)
			}
			for _, ix := range t.Indexes {
				ci := *ix
				ci.Cols = append([]string(nil), ix.Cols...)
				nt.Indexes = append(nt.Indexes, &ci)
			}
			for _, tr := range t.Triggers {
				ct := *tr
				nt.Triggers = append(nt.Triggers, &ct)
			}
			for _, ck := range t.Checks {
				cc := *ck
				nt.Checks = append(nt.Checks, &cc)
			}
			snap := snapshot{}
			for _, r := range t.Rows {
				if !snap.sees(r) {
					continue
				}
				vals := make([]Value, len(r.vals))
				for i, v := range r.vals {
					vals[i] = copyValue(v)
				}
				nt.Rows = append(nt.Rows, &RowVer{id: r.id, vals: vals, xmin: bx})
			}
			ns.Tables[k] = nt
		}
		for k, q := range sc.Seqs {
			ns.Seqs[k] = &Sequence{Name: q.Name, IsCalled: q.IsCalled, Last: new(big.Int).Set(q.Last), Cache: q.Cache}
		}
		for k, fs := range sc.Funcs {
			for _, f := range fs {
				cf := *f
				cf.parsed = nil
				ns.Funcs[k] = append(ns.Funcs[k], &cf)
			}
		}
		for k, t := range sc.Types {
			ct := *t
			ns.Types[k] = &ct
		}
		for k, a := range sc.Aggs {
			ca := *a
			ns.Aggs[k] = &ca
		}
	}
	return n
}

// Dump returns the committed visible rows of a table as maps (for the projection function).
func (db *DB) Dump(schema, table string) ([]map[string]Value, error) {
	db.mu.Lock()
	defer db.mu.Unlock()
	return db.dumpLocked(schema, table)
}

func (db *DB) dumpLocked(schema, table string) ([]map[string]Value, error) {
	sc := db.schemas[schema]
	if sc == nil {
		return nil, fmt.Errorf("no schema %q", schema)
	}
	t := sc.Tables[table]
	if t == nil {
		return nil, fmt.Errorf("no table %q.%q", schema, table)
	}
	var out []map[string]Value
	snap := snapshot{}
	for _, r := range t.Rows {
		if !snap.sees(r) {
			continue
		}
		m := map[string]Value{}
		for i, c := range t.Cols {
			m[c.Name] = r.vals[i]
		}
		out = append(out, m)
	}
	return out, nil
}

// DumpLocked is Dump for callers that already hold the engine mutex (OnCommit / Observer callbacks).
func (db *DB) DumpLocked(schema, table string) ([]map[string]Value, error) {
	return db.dumpLocked(schema, table)
}

// Tables lists the tables of a schema.
func (db *DB) Tables(schema string) []string {
	db.mu.Lock()
	defer db.mu.Unlock()
	sc := db.schemas[schema]
	if sc == nil {
		return nil
	}
	var out []string
	for n := range sc.Tables {
		out = append(out, n)
	}
	sort.Strings(out)
	return out
}

// SeqValue reports a sequence's last value and whether it was called.
func (db *DB) SeqValue(schema, name string) (string, bool, bool) {
	db.mu.Lock()
	defer db.mu.Unlock()
	sc := db.schemas[schema]
	if sc == nil {
		return "", false, false
	}
	q := sc.Seqs[name]
	if q == nil {
		return "", false, false
	}
	return q.Last.String(), q.IsCalled, true
}

// FunctionBody returns the current source of a function (catalog introspection for checks).
func (db *DB) FunctionBody(schema, name string) string {
	db.mu.Lock()
	defer db.mu.Unlock()
	if sc := db.schemas[schema]; sc != nil {
		if f := pickOverload(sc.Funcs[name], -1); f != nil {
			return f.Body
		}
	}
	return ""
}

// Counters returns (statements executed, commits performed).
func (db *DB) Counters() (int64, int64) {
	db.mu.Lock()
	defer db.mu.Unlock()
	return db.StmtN, db.CommitN
}
