package pgmodel

// ---------------------------------------------------------------------------- expressions

type Expr interface{}

type (
	Lit    struct{ V Value }
	ColRef struct{ Table, Name string }
	Star   struct{ Table string }
	Unary  struct {
		Op string
		X  Expr
	}
	Binary struct {
		Op   string
		L, R Expr
	}
	IsNull struct {
		X   Expr
		Not bool
	}
	IsBool struct { // x IS [NOT] TRUE/FALSE
		X    Expr
		Val  bool
		Not  bool
	}
	IsDistinct struct {
		L, R Expr
		Not  bool
	}
	InList struct {
		X    Expr
		List []Expr
		Not  bool
	}
	InSub struct {
		X   Expr
		Sub *Select
		Not bool
	}
	Exists   struct{ Sub *Select }
	Subquery struct{ Sub *Select }
	ArraySub struct{ Sub *Select } // array(select ...)
	When     struct{ Cond, Result Expr }
	Case     struct {
		Operand Expr
		Whens   []When
		Else    Expr
	}
	Cast struct {
		X    Expr
		Type string
	}
	FuncCall struct {
		Schema, Name string
		Args         []Expr
		ArgNames     []string
		Star         bool
		Distinct     bool
		OrderBy      []OrderItem
		Over         *WindowSpec
		Filter       Expr
	}
	WindowSpec struct {
		PartitionBy []Expr
		OrderBy     []OrderItem
	}
	RowExpr   struct{ Fields []Expr }
	ArrayExpr struct{ Elems []Expr }
	FieldSel  struct {
		X     Expr
		Field string
		Star  bool
	}
	Subscript struct {
		X       Expr
		Index   Expr
		IsSlice bool
		Lo, Hi  Expr
	}
	Between struct {
		X, Lo, Hi Expr
		Not       bool
	}
	Like struct {
		X, Pattern Expr
		Not, ILike bool
	}
	AtTimeZone struct{ X, Zone Expr }
	Param      struct{ N int }
	AnyAll     struct { // x op ANY(array or subquery)
		X   Expr
		Op  string
		Arr Expr
		Sub *Select
		All bool
	}
)

// ---------------------------------------------------------------------------- statements

type Stmt interface{}

type SelItem struct {
	Expr  Expr
	Alias string
}

type OrderItem struct {
	Expr       Expr
	Desc       bool
	NullsFirst *bool
}

type CTE struct {
	Name     string
	ColNames []string
	Query    Stmt // *Select | *Insert | *Update | *Delete
}

type Select struct {
	With       []CTE
	Recursive  bool
	Distinct   bool
	DistinctOn []Expr
	Cols       []SelItem
	From       []FromItem
	Where      Expr
	GroupBy    []Expr
	Having     Expr
	OrderBy    []OrderItem
	Limit      Expr
	Offset     Expr
	ForUpdate  bool
	Values     [][]Expr // VALUES (...), (...)
	SetOp      string   // "union all" | "union" | ...
	Right      *Select
	Into       []string // PL/pgSQL SELECT ... INTO targets
	Paren      bool
}

type FromItem interface{}

type (
	TableRef struct {
		Schema, Name string
		Alias        string
		ColAliases   []string
	}
	SubqueryRef struct {
		Sub        *Select
		Alias      string
		ColAliases []string
		Lateral    bool
	}
	FuncRef struct {
		Call       *FuncCall
		Alias      string
		ColAliases []string
		Lateral    bool
	}
	Join struct {
		Left, Right FromItem
		Kind        string // inner | left | cross
		On          Expr
	}
)

type SetItem struct {
	Col  string
	Cols []string // (a, b) = (...)
	Expr Expr
}

type OnConflict struct {
	Cols       []string
	Constraint string
	Where      Expr // index predicate
	DoNothing  bool
	Sets       []SetItem
	UpdWhere   Expr
}

type Insert struct {
	With          []CTE
	Schema, Table string
	Alias         string
	Cols          []string
	Source        *Select
	DefaultValues bool
	OnConflict    *OnConflict
	Returning     []SelItem
	Into          []string
}

type Update struct {
	With          []CTE
	Schema, Table string
	Alias         string
	Sets          []SetItem
	From          []FromItem
	Where         Expr
	Returning     []SelItem
	Into          []string
}

type Delete struct {
	With          []CTE
	Schema, Table string
	Alias         string
	Using         []FromItem
	Where         Expr
	Returning     []SelItem
}

// Utility / transaction statements
type (
	TxStmt struct {
		Kind string // begin | commit | rollback | savepoint | release | rollback_to
		Name string
	}
	SetStmt struct {
		Name  string
		Value string
		Local bool
	}
	CallStmt struct{ Call *FuncCall }
	DoStmt   struct{ Body string }
	RawDDL   struct {
		Kind string
		Toks []token
		Text string
	}
)
