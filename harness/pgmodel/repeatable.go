package pgmodel

// REPEATABLE READ (and the stricter levels, treated alike for visibility): every statement of the transaction
// sees the database as of the transaction's FIRST statement - rows committed by others later are invisible, rows
// deleted by others later stay visible. (READ COMMITTED, the default, takes a new snapshot per statement.)
// Not modelled: the serialization failure (40001) PostgreSQL raises when such a transaction updates a row that a
// concurrent transaction has modified - the statement then behaves as under READ COMMITTED.

// snapAt builds the snapshot of a statement of t with command id cid.
func (t *Txn) snapAt(cid int) snapshot {
	s := snapshot{txn: t, cid: cid}
	if t != nil && t.rr {
		if !t.rrSet {
			t.rrSeq = t.sess.db.CommitN
			t.rrSet = true
		}
		s.useSeq, s.seq = true, t.rrSeq
	}
	return s
}

// setRepeatableRead marks the session's open transaction (called by the driver right after BEGIN).
func (s *Session) setRepeatableRead() {
	s.db.mu.Lock()
	defer s.db.mu.Unlock()
	if s.txn != nil {
		s.txn.rr = true
	}
}
