package pgmodel

import (
	"crypto/md5"
	"crypto/sha256"
	"crypto/sha512"
	"encoding/hex"
	"fmt"
	"math/big"
	"sort"
	"strings"
)

func (e *env) evalArgs(fc *FuncCall) ([]Value, error) {
	out := make([]Value, len(fc.Args))
	for i, a := range fc.Args {
		v, err := e.eval(a)
		if err != nil {
			return nil, err
		}
		out[i] = v
	}
	return out, nil
}

func (e *env) evalFunc(fc *FuncCall) (Value, error) {
	c := e.ctx
	if fc.Over != nil {
		if e.win != nil {
			if v, ok := e.win[fc]; ok {
				return v, nil
			}
		}
		return nil, unsupported("window function %s outside a select list", fc.Name)
	}
	if isAggName(c, fc) {
		if e.group == nil {
			return nil, errf("42803", "aggregate function %s called outside aggregate context", fc.Name)
		}
		return e.evalAggregate(fc)
	}
	name := fc.Name
	// lazily evaluated
	switch name {
	case "coalesce":
		for _, a := range fc.Args {
			v, err := e.eval(a)
			if err != nil {
				return nil, err
			}
			if v != nil {
				return v, nil
			}
		}
		return nil, nil
	}
	args, err := e.evalArgs(fc)
	if err != nil {
		return nil, err
	}
	db := c.db
	str := func(i int) string { return textOf(args[i]) }
	anyNull := func() bool {
		for _, a := range args {
			if a == nil {
				return true
			}
		}
		return false
	}
	switch name {
	case "now", "transaction_timestamp", "current_timestamp", "localtimestamp":
		return c.txnTime(), nil
	case "statement_timestamp", "clock_timestamp":
		return c.stmtTime(), nil
	case "current_schema":
		if c.sess != nil && len(c.sess.path) > 0 {
			return c.sess.path[0], nil
		}
		return "public", nil
	case "current_user", "session_user":
		return "ledger", nil
	case "nullif":
		if len(args) != 2 {
			return nil, errf("42883", "nullif arity")
		}
		r, err := e.compareOp("=", args[0], args[1])
		if err != nil {
			return nil, err
		}
		if b, null := truth(r); !null && b {
			return nil, nil
		}
		return args[0], nil
	case "least", "greatest":
		var best Value
		for _, a := range args {
			if a == nil {
				continue
			}
			if best == nil {
				best = a
				continue
			}
			x, y, err := db.coercePair(a, best)
			if err != nil {
				return nil, err
			}
			cmp, err := compareValues(x, y)
			if err != nil {
				return nil, err
			}
			if (name == "least" && cmp < 0) || (name == "greatest" && cmp > 0) {
				best = x
			} else {
				best = y
			}
		}
		return best, nil
	case "nextval":
		if anyNull() {
			return nil, nil
		}
		q, err := e.seqArg(args[0])
		if err != nil {
			return nil, err
		}
		return q.nextvalFor(c.sess), nil
	case "currval":
		q, err := e.seqArg(args[0])
		if err != nil {
			return nil, err
		}
		return new(big.Int).Set(q.Last), nil
	case "setval":
		if anyNull() {
			return nil, nil // setval is strict: a NULL argument yields NULL and changes nothing
		}
		q, err := e.seqArg(args[0])
		if err != nil {
			return nil, err
		}
		n, err := toInt(args[1])
		if err != nil {
			return nil, err
		}
		called := true
		if len(args) > 2 {
			called, _ = args[2].(bool)
		}
		q.Last = new(big.Int).Set(n)
		q.IsCalled = called
		q.dropReservations()
		return new(big.Int).Set(n), nil
	case "hashtext":
		if anyNull() {
			return nil, nil
		}
		return big.NewInt(hashtext(str(0))), nil
	case "pg_advisory_xact_lock", "pg_advisory_lock":
		if anyNull() {
			return nil, nil
		}
		n, err := toInt(args[0])
		if err != nil {
			return nil, err
		}
		if c.sess == nil {
			return nil, unsupported("advisory lock without session")
		}
		if err := db.advisoryLock(c.sess, n.Int64(), name == "pg_advisory_xact_lock"); err != nil {
			return nil, err
		}
		return "", nil
	case "pg_advisory_xact_lock_shared", "pg_advisory_lock_shared", "pg_try_advisory_xact_lock_shared", "pg_try_advisory_lock_shared":
		if anyNull() {
			return nil, nil
		}
		n, err := toInt(args[0])
		if err != nil {
			return nil, err
		}
		if c.sess == nil {
			return nil, unsupported("advisory lock without session")
		}
		try := strings.HasPrefix(name, "pg_try_")
		if err := db.advisoryLockShared(c.sess, n.Int64(), strings.Contains(name, "_xact_")); err != nil {
			if _, ok := err.(*waitErr); ok && try {
				return false, nil
			}
			return nil, err
		}
		if try {
			return true, nil
		}
		return "", nil
	case "pg_advisory_unlock_shared":
		n, err := toInt(args[0])
		if err != nil {
			return nil, err
		}
		return db.advisoryUnlockShared(c.sess, n.Int64()), nil
	case "pg_advisory_unlock":
		n, err := toInt(args[0])
		if err != nil {
			return nil, err
		}
		return db.advisoryUnlock(c.sess, n.Int64()), nil
	case "pg_try_advisory_lock", "pg_try_advisory_xact_lock":
		n, err := toInt(args[0])
		if err != nil {
			return nil, err
		}
		if err := db.advisoryLock(c.sess, n.Int64(), name == "pg_try_advisory_xact_lock"); err != nil {
			if _, ok := err.(*waitErr); ok {
				return false, nil
			}
			return nil, err
		}
		return true, nil
	case "pg_notify":
		return "", nil
	case "digest":
		if anyNull() {
			return nil, nil
		}
		var data []byte
		switch t := args[0].(type) {
		case []byte:
			data = t
		case string:
			data = []byte(t)
		default:
			return nil, errf("42883", "digest(%T)", args[0])
		}
		switch strings.ToLower(str(1)) {
		case "sha256":
			h := sha256.Sum256(data)
			return h[:], nil
		case "sha512":
			h := sha512.Sum512(data)
			return h[:], nil
		case "md5":
			h := md5.Sum(data)
			return h[:], nil
		}
		return nil, unsupported("digest algorithm %s", str(1))
	case "encode":
		if anyNull() {
			return nil, nil
		}
		b, err := db.castTo(args[0], "bytea")
		if err != nil {
			return nil, err
		}
		switch strings.ToLower(str(1)) {
		case "escape":
			return encodeEscape(b.([]byte)), nil
		case "base64":
			return encodeBase64(b.([]byte)), nil
		case "hex":
			return hex.EncodeToString(b.([]byte)), nil
		}
		return nil, unsupported("encode format %s", str(1))
	case "decode":
		if anyNull() {
			return nil, nil
		}
		switch strings.ToLower(str(1)) {
		case "hex":
			b, err := hex.DecodeString(str(0))
			if err != nil {
				return nil, errf("22023", "invalid hexadecimal data")
			}
			return b, nil
		case "escape":
			return parseBytea(str(0))
		}
		return nil, unsupported("decode format %s", str(1))
	case "convert_to":
		if anyNull() {
			return nil, nil
		}
		return []byte(str(0)), nil
	case "convert_from":
		if anyNull() {
			return nil, nil
		}
		b, err := db.castTo(args[0], "bytea")
		if err != nil {
			return nil, err
		}
		return string(b.([]byte)), nil
	case "to_json", "to_jsonb":
		if args[0] == nil {
			return nil, nil
		}
		return JSON{V: copyJSON(valueToJSON(args[0]))}, nil
	case "json_build_object", "jsonb_build_object":
		if len(args)%2 != 0 {
			return nil, errf("22023", "argument list must have even number of elements")
		}
		m := map[string]any{}
		for i := 0; i < len(args); i += 2 {
			if args[i] == nil {
				return nil, errf("22004", "null value not allowed for object key")
			}
			m[textOf(args[i])] = copyJSON(valueToJSON(args[i+1]))
		}
		return JSON{V: m}, nil
	case "json_build_array", "jsonb_build_array":
		arr := make([]any, len(args))
		for i, a := range args {
			arr[i] = copyJSON(valueToJSON(a))
		}
		return JSON{V: arr}, nil
	case "jsonb_array_length", "json_array_length":
		if anyNull() {
			return nil, nil
		}
		j, err := db.castTo(args[0], "jsonb")
		if err != nil {
			return nil, err
		}
		arr, ok := j.(JSON).V.([]any)
		if !ok {
			return nil, errf("22023", "cannot get array length of a non-array")
		}
		return big.NewInt(int64(len(arr))), nil
	case "jsonb_concat":
		if anyNull() {
			return nil, nil
		}
		a, err := db.castTo(args[0], "jsonb")
		if err != nil {
			return nil, err
		}
		b, err := db.castTo(args[1], "jsonb")
		if err != nil {
			return nil, err
		}
		return jsonConcat(a.(JSON), b.(JSON)), nil
	case "jsonb_typeof", "json_typeof":
		if anyNull() {
			return nil, nil
		}
		j, err := db.castTo(args[0], "jsonb")
		if err != nil {
			return nil, err
		}
		switch j.(JSON).V.(type) {
		case nil:
			return "null", nil
		case bool:
			return "boolean", nil
		case JNum:
			return "number", nil
		case string:
			return "string", nil
		case []any:
			return "array", nil
		}
		return "object", nil
	case "jsonb_set", "jsonb_strip_nulls", "jsonb_path_query", "jsonb_path_exists":
		return nil, unsupported("function %s", name)
	case "string_to_array":
		if args[0] == nil {
			return nil, nil
		}
		s := str(0)
		if args[1] == nil {
			out := &Array{}
			for _, r := range s {
				out.Elems = append(out.Elems, string(r))
			}
			return out, nil
		}
		out := &Array{}
		if s == "" {
			return out, nil
		}
		for _, p := range strings.Split(s, str(1)) {
			out.Elems = append(out.Elems, p)
		}
		return out, nil
	case "array_to_string":
		if args[0] == nil || args[1] == nil {
			return nil, nil
		}
		arr, ok := args[0].(*Array)
		if !ok {
			return nil, errf("42883", "array_to_string(%T)", args[0])
		}
		var parts []string
		for _, el := range arr.Elems {
			if el == nil {
				if len(args) > 2 && args[2] != nil {
					parts = append(parts, str(2))
				}
				continue
			}
			parts = append(parts, textOf(el))
		}
		return strings.Join(parts, str(1)), nil
	case "array_length", "cardinality":
		if args[0] == nil {
			return nil, nil
		}
		arr, ok := args[0].(*Array)
		if !ok {
			return nil, errf("42883", "array_length(%T)", args[0])
		}
		if len(arr.Elems) == 0 && name == "array_length" {
			return nil, nil
		}
		return big.NewInt(int64(len(arr.Elems))), nil
	case "array_append":
		arr, _ := args[0].(*Array)
		if arr == nil {
			arr = &Array{}
		}
		return &Array{Elems: append(append([]Value(nil), arr.Elems...), args[1])}, nil
	case "lower":
		if anyNull() {
			return nil, nil
		}
		return strings.ToLower(str(0)), nil
	case "upper":
		if anyNull() {
			return nil, nil
		}
		return strings.ToUpper(str(0)), nil
	case "length", "char_length", "octet_length":
		if anyNull() {
			return nil, nil
		}
		if b, ok := args[0].([]byte); ok {
			return big.NewInt(int64(len(b))), nil
		}
		if name == "octet_length" {
			return big.NewInt(int64(len(str(0)))), nil
		}
		return big.NewInt(int64(len([]rune(str(0))))), nil
	case "concat":
		var sb strings.Builder
		for _, a := range args {
			if a != nil {
				sb.WriteString(textOf(a))
			}
		}
		return sb.String(), nil
	case "replace":
		if anyNull() {
			return nil, nil
		}
		return strings.ReplaceAll(str(0), str(1), str(2)), nil
	case "split_part":
		if anyNull() {
			return nil, nil
		}
		n, err := toInt(args[2])
		if err != nil {
			return nil, err
		}
		parts := strings.Split(str(0), str(1))
		i := int(n.Int64())
		if i >= 1 && i <= len(parts) {
			return parts[i-1], nil
		}
		return "", nil
	case "substring", "substr":
		if anyNull() {
			return nil, nil
		}
		r := []rune(str(0))
		from, err := toInt(args[1])
		if err != nil {
			return nil, err
		}
		start := int(from.Int64()) - 1
		end := len(r)
		if len(args) > 2 {
			cnt, err := toInt(args[2])
			if err != nil {
				return nil, err
			}
			end = start + int(cnt.Int64())
		}
		if start < 0 {
			start = 0
		}
		if end > len(r) {
			end = len(r)
		}
		if start >= end {
			return "", nil
		}
		return string(r[start:end]), nil
	case "abs":
		if anyNull() {
			return nil, nil
		}
		n, err := toInt(args[0])
		if err != nil {
			return nil, err
		}
		return new(big.Int).Abs(n), nil
	case "row_to_json":
		if anyNull() {
			return nil, nil
		}
		return JSON{V: copyJSON(valueToJSON(args[0]))}, nil
	case "format", "quote_ident", "quote_literal", "regexp_replace", "to_char", "date_trunc", "extract", "age":
		return nil, unsupported("function %s", name)
	case "pg_sleep":
		return "", nil
	case "txid_current", "pg_backend_pid":
		return big.NewInt(1), nil
	}
	// user-defined function
	if f := db.findFunc(c.sess, fc.Schema, name, len(fc.Args)); f != nil {
		return c.callFunction(f, fc, args, e)
	}
	return nil, &PgErr{Code: "42883", Message: fmt.Sprintf("function %s does not exist (pgmodel)", qualified(fc.Schema, name))}
}

func (e *env) seqArg(v Value) (*Sequence, error) {
	if v == nil {
		return nil, errf("22004", "sequence name is NULL")
	}
	name := textOf(v)
	p, err := newParser(name)
	if err != nil {
		return nil, err
	}
	parts, err := p.qualifiedName()
	if err != nil {
		return nil, err
	}
	schema := ""
	if len(parts) > 1 {
		schema = parts[len(parts)-2]
	}
	q := e.ctx.db.findSeq(e.ctx.sess, schema, parts[len(parts)-1])
	if q == nil {
		return nil, &PgErr{Code: "42P01", Message: fmt.Sprintf("relation %q does not exist", name)}
	}
	return q, nil
}

// ---------------------------------------------------------------------------- aggregates

func (e *env) evalAggregate(fc *FuncCall) (Value, error) {
	c := e.ctx
	type item struct {
		vals []Value
		keys []Value
	}
	var items []item
	for _, t := range e.group {
		ge := &env{ctx: c, fr: e.fr, tup: t, parent: e.parent}
		if fc.Filter != nil {
			fv, err := ge.eval(fc.Filter)
			if err != nil {
				return nil, err
			}
			if b, null := truth(fv); null || !b {
				continue
			}
		}
		it := item{}
		for _, a := range fc.Args {
			v, err := ge.eval(a)
			if err != nil {
				return nil, err
			}
			it.vals = append(it.vals, v)
		}
		for _, o := range fc.OrderBy {
			v, err := ge.eval(o.Expr)
			if err != nil {
				return nil, err
			}
			it.keys = append(it.keys, v)
		}
		items = append(items, it)
	}
	if len(fc.OrderBy) > 0 {
		var serr error
		sort.SliceStable(items, func(i, j int) bool {
			cmp, err := compareOrderKeys(items[i].keys, items[j].keys, fc.OrderBy)
			if err != nil {
				serr = err
			}
			return cmp < 0
		})
		if serr != nil {
			return nil, serr
		}
	}
	if fc.Distinct {
		seen := map[string]bool{}
		kept := items[:0:0]
		for _, it := range items {
			k := keyOfRow(it.vals)
			if !seen[k] {
				seen[k] = true
				kept = append(kept, it)
			}
		}
		items = kept
	}
	switch fc.Name {
	case "count":
		n := int64(0)
		for _, it := range items {
			if fc.Star || (len(it.vals) > 0 && it.vals[0] != nil) {
				n++
			}
		}
		return big.NewInt(n), nil
	case "sum":
		var sum *big.Int
		for _, it := range items {
			if it.vals[0] == nil {
				continue
			}
			n, err := toInt(it.vals[0])
			if err != nil {
				return nil, err
			}
			if sum == nil {
				sum = new(big.Int)
			}
			sum.Add(sum, n)
		}
		if sum == nil {
			return nil, nil
		}
		return sum, nil
	case "min", "max":
		var best Value
		for _, it := range items {
			v := it.vals[0]
			if v == nil {
				continue
			}
			if best == nil {
				best = v
				continue
			}
			cmp, err := compareValues(v, best)
			if err != nil {
				return nil, err
			}
			if (fc.Name == "min" && cmp < 0) || (fc.Name == "max" && cmp > 0) {
				best = v
			}
		}
		return best, nil
	case "array_agg":
		if len(items) == 0 {
			return nil, nil
		}
		a := &Array{}
		for _, it := range items {
			a.Elems = append(a.Elems, it.vals[0])
		}
		return a, nil
	case "string_agg":
		var parts []string
		sep := ""
		for _, it := range items {
			if it.vals[0] == nil {
				continue
			}
			parts = append(parts, textOf(it.vals[0]))
			if len(it.vals) > 1 && it.vals[1] != nil {
				sep = textOf(it.vals[1])
			}
		}
		if parts == nil {
			return nil, nil
		}
		return strings.Join(parts, sep), nil
	case "bool_and", "every":
		var res Value
		for _, it := range items {
			if it.vals[0] == nil {
				continue
			}
			b, _ := it.vals[0].(bool)
			if res == nil {
				res = b
			} else {
				res = res.(bool) && b
			}
		}
		return res, nil
	case "bool_or":
		var res Value
		for _, it := range items {
			if it.vals[0] == nil {
				continue
			}
			b, _ := it.vals[0].(bool)
			if res == nil {
				res = b
			} else {
				res = res.(bool) || b
			}
		}
		return res, nil
	case "jsonb_agg", "json_agg":
		if len(items) == 0 {
			return nil, nil
		}
		arr := []any{}
		for _, it := range items {
			arr = append(arr, copyJSON(valueToJSON(it.vals[0])))
		}
		return JSON{V: arr}, nil
	case "jsonb_object_agg", "json_object_agg":
		if len(items) == 0 {
			return nil, nil
		}
		m := map[string]any{}
		for _, it := range items {
			if it.vals[0] == nil {
				return nil, errf("22023", "field name must not be null")
			}
			m[textOf(it.vals[0])] = copyJSON(valueToJSON(it.vals[1]))
		}
		return JSON{V: m}, nil
	case "avg":
		return nil, unsupported("avg()")
	}
	// user-defined aggregate (sfunc/stype/initcond)
	ag := c.db.findAgg(c.sess, fc.Schema, fc.Name)
	if ag == nil {
		return nil, errf("42883", "aggregate %s does not exist", fc.Name)
	}
	var state Value
	if ag.InitCond != "" {
		st, err := c.db.castTo(ag.InitCond, ag.SType)
		if err != nil {
			return nil, err
		}
		state = st
	}
	for _, it := range items {
		sf := ag.SFunc
		sfSchema := ""
		if i := strings.LastIndexByte(sf, '.'); i >= 0 {
			sfSchema, sf = sf[:i], sf[i+1:]
		}
		call := &FuncCall{Schema: sfSchema, Name: sf, Args: []Expr{&Lit{V: state}, &Lit{V: it.vals[0]}}}
		// the built-in jsonb_concat is strict, so the aggregate skips NULL inputs; a user-defined
		// public.jsonb_concat (language sql, not declared strict) is called with the NULL and returns NULL
		if it.vals[0] == nil && sf == "jsonb_concat" && sfSchema == "" {
			continue
		}
		st, err := (&env{ctx: c, fr: &frame{}, tup: &tuple{}}).evalFunc(call)
		if err != nil {
			return nil, err
		}
		state = st
	}
	return state, nil
}

// ---------------------------------------------------------------------------- set-returning functions in FROM

func (e *env) evalTableFunc(fc *FuncCall) (*Result, error) {
	args, err := e.evalArgs(fc)
	if err != nil {
		return nil, err
	}
	db := e.ctx.db
	switch fc.Name {
	case "jsonb_array_elements", "json_array_elements", "jsonb_array_elements_text", "json_array_elements_text":
		res := &Result{Cols: []string{"value"}, Types: []string{""}}
		if args[0] == nil {
			return res, nil
		}
		j, err := db.castTo(args[0], "jsonb")
		if err != nil {
			return nil, err
		}
		arr, ok := j.(JSON).V.([]any)
		if !ok {
			return nil, errf("22023", "cannot extract elements from a non-array")
		}
		for _, el := range arr {
			if strings.HasSuffix(fc.Name, "_text") {
				if el == nil {
					res.Rows = append(res.Rows, []Value{nil})
				} else {
					res.Rows = append(res.Rows, []Value{jsonScalarText(el)})
				}
			} else {
				res.Rows = append(res.Rows, []Value{JSON{V: el}})
			}
		}
		return res, nil
	case "jsonb_each", "json_each", "jsonb_each_text", "json_each_text":
		res := &Result{Cols: []string{"key", "value"}, Types: []string{"", ""}}
		if args[0] == nil {
			return res, nil
		}
		j, err := db.castTo(args[0], "jsonb")
		if err != nil {
			return nil, err
		}
		m, ok := j.(JSON).V.(map[string]any)
		if !ok {
			return nil, errf("22023", "cannot call %s on a non-object", fc.Name)
		}
		for _, k := range jsonKeys(m) {
			if strings.HasSuffix(fc.Name, "_text") {
				var v Value
				if m[k] != nil {
					v = jsonScalarText(m[k])
				}
				res.Rows = append(res.Rows, []Value{k, v})
			} else {
				res.Rows = append(res.Rows, []Value{k, JSON{V: m[k]}})
			}
		}
		return res, nil
	case "unnest":
		res := &Result{Cols: []string{"unnest"}, Types: []string{""}}
		if args[0] == nil {
			return res, nil
		}
		arr, ok := args[0].(*Array)
		if !ok {
			return nil, errf("42883", "unnest(%T)", args[0])
		}
		for _, el := range arr.Elems {
			res.Rows = append(res.Rows, []Value{el})
		}
		return res, nil
	case "generate_series":
		res := &Result{Cols: []string{"generate_series"}, Types: []string{"bigint"}}
		lo, err := toInt(args[0])
		if err != nil {
			return nil, err
		}
		hi, err := toInt(args[1])
		if err != nil {
			return nil, err
		}
		for i := new(big.Int).Set(lo); i.Cmp(hi) <= 0; i = new(big.Int).Add(i, big.NewInt(1)) {
			res.Rows = append(res.Rows, []Value{i})
			if len(res.Rows) > 1000000 {
				return nil, unsupported("generate_series too large")
			}
		}
		return res, nil
	}
	f := db.findFunc(e.ctx.sess, fc.Schema, fc.Name, len(fc.Args))
	if f == nil {
		// scalar builtin used in FROM
		v, err := e.evalFunc(fc)
		if err != nil {
			return nil, err
		}
		return &Result{Cols: []string{fc.Name}, Types: []string{""}, Rows: [][]Value{{v}}}, nil
	}
	if strings.HasPrefix(strings.ToLower(f.Returns), "setof") || strings.HasPrefix(strings.ToLower(f.Returns), "table") {
		return nil, unsupported("set-returning user function %s in FROM", f.Name)
	}
	v, err := e.ctx.callFunction(f, fc, args, e)
	if err != nil {
		return nil, err
	}
	if rec, ok := v.(*Record); ok {
		names := rec.Names
		if td := db.findType(rec.Type); td != nil && len(td.Fields) == len(rec.Fields) {
			names = make([]string, len(td.Fields))
			for i, fd := range td.Fields {
				names[i] = fd.Name
			}
		}
		return &Result{Cols: names, Types: make([]string, len(names)), Rows: [][]Value{rec.Fields}}, nil
	}
	return &Result{Cols: []string{fc.Name}, Types: []string{""}, Rows: [][]Value{{v}}}, nil
}
