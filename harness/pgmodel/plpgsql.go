package pgmodel

import (
	"fmt"
	"math/big"
	"strings"
)

// ---------------------------------------------------------------------------- PL/pgSQL AST

type plStmt interface{}

type (
	plBlock struct {
		decls []plDecl
		body  []plStmt
	}
	plDecl struct {
		name string
		typ  string
		init string
	}
	plAssign struct {
		target string
		expr   string
	}
	plIf struct {
		conds  []string
		bodies [][]plStmt
		els    []plStmt
	}
	plLoop struct {
		kind  string // loop | while | forquery | forrange
		cond  string
		v     string
		query string
		lo    string
		hi    string
		step  string
		body  []plStmt
	}
	plReturn  struct{ expr string }
	plRaise   struct {
		level string
		fmt   string
		args  []string
	}
	plPerform struct{ sql string }
	plExecute struct{ expr string }
	plExit    struct {
		cont bool
		when string
	}
	plSQL    struct{ sql string }
	plAssert struct{ cond string }
	plNull   struct{}
	plTxCtl  struct{ kind string }
)

type plParser struct {
	src  string
	toks []token
	p    int
}

func parsePL(body string) (*plBlock, error) {
	toks, err := lex(body)
	if err != nil {
		return nil, err
	}
	pp := &plParser{src: body, toks: toks}
	blk, err := pp.block()
	if err != nil {
		return nil, err
	}
	return blk, nil
}

func (p *plParser) peek() token { return p.toks[p.p] }
func (p *plParser) isKw(k string) bool {
	t := p.peek()
	return t.kind == tIdent && t.s == k
}
func (p *plParser) isKwAt(i int, k string) bool {
	if p.p+i >= len(p.toks) {
		return false
	}
	t := p.toks[p.p+i]
	return t.kind == tIdent && t.s == k
}
func (p *plParser) acceptKw(k string) bool {
	if p.isKw(k) {
		p.p++
		return true
	}
	return false
}
func (p *plParser) isOp(o string) bool {
	t := p.peek()
	return t.kind == tOp && t.s == o
}
func (p *plParser) errHere(msg string) error {
	t := p.peek()
	end := t.pos + 40
	if end > len(p.src) {
		end = len(p.src)
	}
	ctx := ""
	if t.pos <= len(p.src) {
		ctx = p.src[t.pos:end]
	}
	return unsupported("plpgsql: %s near «%s»", msg, ctx)
}

// textUntil collects source text up to (not including) the first token for which stop returns true at
// parenthesis depth 0 and CASE depth 0.
func (p *plParser) textUntil(stop func(t token) bool) (string, error) {
	start := p.peek().pos
	depth, caseDepth := 0, 0
	for {
		t := p.peek()
		if t.kind == tEOF {
			return "", p.errHere("unexpected end of function body")
		}
		if depth == 0 && caseDepth == 0 && stop(t) {
			return strings.TrimSpace(p.src[start:t.pos]), nil
		}
		if t.kind == tOp {
			switch t.s {
			case "(", "[":
				depth++
			case ")", "]":
				depth--
			}
		}
		if t.kind == tIdent {
			if t.s == "case" {
				caseDepth++
			} else if t.s == "end" && caseDepth > 0 {
				caseDepth--
			}
		}
		p.p++
	}
}

func isSemi(t token) bool { return t.kind == tOp && t.s == ";" }

func (p *plParser) block() (*plBlock, error) {
	blk := &plBlock{}
	// optional <<label>>
	if p.acceptKw("declare") {
		for !p.isKw("begin") {
			if p.peek().kind == tEOF {
				return nil, p.errHere("missing BEGIN")
			}
			nameTok := p.peek()
			if nameTok.kind != tIdent && nameTok.kind != tQIdent {
				return nil, p.errHere("expected variable name")
			}
			p.p++
			p.acceptKw("constant")
			// type up to := / = / default / ;
			typ, err := p.textUntil(func(t token) bool {
				return isSemi(t) || (t.kind == tOp && (t.s == ":=" || t.s == "=")) || (t.kind == tIdent && t.s == "default")
			})
			if err != nil {
				return nil, err
			}
			d := plDecl{name: nameTok.s, typ: typ}
			if !isSemi(p.peek()) {
				p.p++
				init, err := p.textUntil(isSemi)
				if err != nil {
					return nil, err
				}
				d.init = init
			}
			p.p++ // ;
			blk.decls = append(blk.decls, d)
		}
	}
	if !p.acceptKw("begin") {
		return nil, p.errHere("expected BEGIN")
	}
	body, err := p.stmts(func() bool { return p.isKw("end") || p.isKw("exception") })
	if err != nil {
		return nil, err
	}
	blk.body = body
	if p.isKw("exception") {
		return nil, p.errHere("EXCEPTION blocks")
	}
	p.acceptKw("end")
	if t := p.peek(); t.kind == tIdent && t.s != "" && !isSemi(t) {
		p.p++ // label
	}
	if isSemi(p.peek()) {
		p.p++
	}
	return blk, nil
}

func (p *plParser) stmts(end func() bool) ([]plStmt, error) {
	var out []plStmt
	for {
		if p.peek().kind == tEOF {
			return nil, p.errHere("unexpected end of block")
		}
		if end() {
			return out, nil
		}
		st, err := p.stmt()
		if err != nil {
			return nil, err
		}
		if st != nil {
			out = append(out, st)
		}
	}
}

func (p *plParser) semi() error {
	if !isSemi(p.peek()) {
		return p.errHere("expected ;")
	}
	p.p++
	return nil
}

func (p *plParser) stmt() (plStmt, error) {
	t := p.peek()
	if isSemi(t) {
		p.p++
		return nil, nil
	}
	if t.kind == tIdent {
		switch t.s {
		case "declare", "begin":
			blk, err := p.block()
			if err != nil {
				return nil, err
			}
			return blk, nil
		case "if":
			p.p++
			st := &plIf{}
			for {
				cond, err := p.textUntil(func(t token) bool { return t.kind == tIdent && t.s == "then" })
				if err != nil {
					return nil, err
				}
				p.p++ // then
				body, err := p.stmts(func() bool {
					return p.isKw("elsif") || p.isKw("elseif") || p.isKw("else") || (p.isKw("end") && p.isKwAt(1, "if"))
				})
				if err != nil {
					return nil, err
				}
				st.conds = append(st.conds, cond)
				st.bodies = append(st.bodies, body)
				if p.acceptKw("elsif") || p.acceptKw("elseif") {
					continue
				}
				if p.acceptKw("else") {
					els, err := p.stmts(func() bool { return p.isKw("end") && p.isKwAt(1, "if") })
					if err != nil {
						return nil, err
					}
					st.els = els
				}
				p.p += 2 // end if
				return st, p.semi()
			}
		case "loop":
			p.p++
			body, err := p.loopBody()
			if err != nil {
				return nil, err
			}
			return &plLoop{kind: "loop", body: body}, nil
		case "while":
			p.p++
			cond, err := p.textUntil(func(t token) bool { return t.kind == tIdent && t.s == "loop" })
			if err != nil {
				return nil, err
			}
			p.p++
			body, err := p.loopBody()
			if err != nil {
				return nil, err
			}
			return &plLoop{kind: "while", cond: cond, body: body}, nil
		case "for":
			p.p++
			v := p.peek()
			p.p++
			if !p.acceptKw("in") {
				return nil, p.errHere("expected IN")
			}
			p.acceptKw("reverse")
			rest, err := p.textUntil(func(t token) bool { return t.kind == tIdent && t.s == "loop" })
			if err != nil {
				return nil, err
			}
			p.p++
			body, err := p.loopBody()
			if err != nil {
				return nil, err
			}
			low := strings.ToLower(strings.TrimSpace(rest))
			if strings.HasPrefix(low, "select") || strings.HasPrefix(low, "with") || strings.HasPrefix(low, "(") {
				return &plLoop{kind: "forquery", v: v.s, query: rest, body: body}, nil
			}
			if strings.HasPrefix(low, "execute") {
				return nil, p.errHere("FOR ... IN EXECUTE")
			}
			if i := strings.Index(rest, ".."); i >= 0 {
				hi, step := rest[i+2:], ""
				if j := strings.Index(strings.ToLower(hi), " by "); j >= 0 {
					hi, step = hi[:j], hi[j+4:]
				}
				return &plLoop{kind: "forrange", v: v.s, lo: rest[:i], hi: hi, step: step, body: body}, nil
			}
			return nil, p.errHere("unsupported FOR loop")
		case "return":
			p.p++
			if p.isKw("query") || p.isKw("next") {
				return nil, p.errHere("RETURN QUERY/NEXT")
			}
			e, err := p.textUntil(isSemi)
			if err != nil {
				return nil, err
			}
			p.p++
			return &plReturn{expr: e}, nil
		case "raise":
			p.p++
			st := &plRaise{level: "exception"}
			if lt := p.peek(); lt.kind == tIdent {
				switch lt.s {
				case "exception", "notice", "warning", "info", "log", "debug":
					st.level = lt.s
					p.p++
				}
			}
			if ft := p.peek(); ft.kind == tString {
				st.fmt = ft.s
				p.p++
				for p.isOp(",") {
					p.p++
					a, err := p.textUntil(func(t token) bool {
						return isSemi(t) || (t.kind == tOp && t.s == ",") || (t.kind == tIdent && t.s == "using")
					})
					if err != nil {
						return nil, err
					}
					st.args = append(st.args, a)
				}
			}
			if _, err := p.textUntil(isSemi); err != nil {
				return nil, err
			}
			p.p++
			return st, nil
		case "perform":
			p.p++
			e, err := p.textUntil(isSemi)
			if err != nil {
				return nil, err
			}
			p.p++
			return &plPerform{sql: "select " + e}, nil
		case "execute":
			p.p++
			e, err := p.textUntil(func(t token) bool {
				return isSemi(t) || (t.kind == tIdent && (t.s == "into" || t.s == "using"))
			})
			if err != nil {
				return nil, err
			}
			if !isSemi(p.peek()) {
				return nil, p.errHere("EXECUTE ... INTO/USING")
			}
			p.p++
			return &plExecute{expr: e}, nil
		case "exit", "continue":
			p.p++
			st := &plExit{cont: t.s == "continue"}
			if p.acceptKw("when") {
				c, err := p.textUntil(isSemi)
				if err != nil {
					return nil, err
				}
				st.when = c
			}
			return st, p.semi()
		case "null":
			if p.p+1 < len(p.toks) && isSemi(p.toks[p.p+1]) {
				p.p += 2
				return &plNull{}, nil
			}
		case "assert":
			p.p++
			c, err := p.textUntil(func(t token) bool { return isSemi(t) || (t.kind == tOp && t.s == ",") })
			if err != nil {
				return nil, err
			}
			if _, err := p.textUntil(isSemi); err != nil {
				return nil, err
			}
			p.p++
			return &plAssert{cond: c}, nil
		case "select", "insert", "update", "delete", "with", "create", "alter", "drop", "set", "call", "lock", "truncate", "analyze", "vacuum", "notify":
			s, err := p.textUntil(isSemi)
			if err != nil {
				return nil, err
			}
			p.p++
			return &plSQL{sql: s}, nil
		case "commit", "rollback":
			if p.p+1 < len(p.toks) && isSemi(p.toks[p.p+1]) {
				p.p += 2
				return &plTxCtl{kind: t.s}, nil
			}
		case "get", "open", "fetch", "close", "foreach", "case":
			return nil, p.errHere("statement " + t.s)
		}
	}
	// assignment:  target := expr ;   or   target = expr ;
	if t.kind == tIdent || t.kind == tQIdent {
		save := p.p
		target := t.s
		p.p++
		for p.isOp(".") {
			p.p++
			n := p.peek()
			p.p++
			target += "." + n.s
		}
		if p.isOp(":=") || p.isOp("=") {
			p.p++
			e, err := p.textUntil(isSemi)
			if err != nil {
				return nil, err
			}
			p.p++
			return &plAssign{target: target, expr: e}, nil
		}
		p.p = save
	}
	return nil, p.errHere("unsupported statement")
}

func (p *plParser) loopBody() ([]plStmt, error) {
	body, err := p.stmts(func() bool { return p.isKw("end") && p.isKwAt(1, "loop") })
	if err != nil {
		return nil, err
	}
	p.p += 2
	if t := p.peek(); t.kind == tIdent && !isSemi(t) {
		p.p++
	}
	return body, p.semi()
}

// ---------------------------------------------------------------------------- interpreter

type plSignal int

const (
	sigNone plSignal = iota
	sigReturn
	sigExit
	sigContinue
)

type plFrame struct {
	c      *execCtx
	ret    Value
	cache  map[string]any
	isTrig bool
}

func (c *execCtx) parseCached(cache map[string]any, sql string, asExpr bool) (any, error) {
	key := sql
	if asExpr {
		key = "\x00e:" + sql
	}
	if v, ok := cache[key]; ok {
		return v, nil
	}
	var v any
	var err error
	if asExpr {
		p, perr := newParser(sql)
		if perr != nil {
			return nil, perr
		}
		v, err = p.expr()
		if err == nil && !p.eof() {
			err = p.errHere("unexpected trailing input in expression")
		}
	} else {
		v, err = parseStatement(sql)
	}
	if err != nil {
		return nil, err
	}
	cache[key] = v
	return v, nil
}

func (f *plFrame) evalExpr(src string) (Value, error) {
	c := f.c
	low := strings.ToLower(strings.TrimSpace(src))
	if strings.HasPrefix(low, "select ") || strings.HasPrefix(low, "select\n") || strings.HasPrefix(low, "select\t") {
		st, err := c.parseCached(f.cache, src, false)
		if err != nil {
			return nil, err
		}
		res, err := c.nested().runSelect(st.(*Select), nil)
		if err != nil {
			return nil, err
		}
		if len(res.Rows) == 0 {
			return nil, nil
		}
		return res.Rows[0][0], nil
	}
	x, err := c.parseCached(f.cache, src, true)
	if err != nil {
		return nil, err
	}
	return (&env{ctx: c.nested(), fr: &frame{}, tup: &tuple{}}).eval(x.(Expr))
}

// nested gives an execution context for a statement run from inside a function: new command id so
// that it sees what the calling statement has written so far.
func (c *execCtx) nested() *execCtx {
	n := c.child()
	if c.txn != nil {
		c.txn.cid++
		n.snap = c.txn.snapAt(c.txn.cid)
	}
	return n
}

func (f *plFrame) setFound(b bool) {
	if p, ok := f.c.vars.lookup("found"); ok {
		*p = b
	}
}

func (f *plFrame) assign(target string, v Value) error {
	c := f.c
	parts := strings.Split(target, ".")
	p, ok := c.vars.lookup(parts[0])
	if !ok {
		return errf("42601", "%q is not a known variable", parts[0])
	}
	if len(parts) == 1 {
		ty := ""
		for e := c.vars; e != nil; e = e.parent {
			if t, ok := e.types[parts[0]]; ok {
				ty = t
				break
			}
		}
		if ty != "" && ty != "record" && !strings.HasSuffix(ty, "%rowtype") && !strings.HasSuffix(ty, "%type") {
			cv, err := c.db.castTo(v, ty)
			if err != nil {
				return err
			}
			v = cv
		}
		*p = v
		return nil
	}
	rec, _ := (*p).(*Record)
	if rec == nil {
		return errf("55000", "record %q is not assigned yet", parts[0])
	}
	cp := &Record{Type: rec.Type, Names: append([]string(nil), rec.Names...), Fields: append([]Value(nil), rec.Fields...)}
	for i, n := range cp.Names {
		if n == parts[1] {
			// keep the column's type when known
			if td := c.db.findType(cp.Type); td != nil && i < len(td.Fields) {
				cv, err := c.db.castTo(v, td.Fields[i].Type)
				if err != nil {
					return err
				}
				v = cv
			}
			cp.Fields[i] = v
			*p = cp
			return nil
		}
	}
	return errf("42703", "record %q has no field %q", parts[0], parts[1])
}

// assignInto stores the first row of res into the INTO targets.
func (f *plFrame) assignInto(targets []string, res *Result) error {
	c := f.c
	f.setFound(len(res.Rows) > 0)
	var row []Value
	if len(res.Rows) > 0 {
		row = res.Rows[0]
	} else {
		row = make([]Value, len(res.Cols))
	}
	if len(targets) == 1 {
		ty := ""
		for e := c.vars; e != nil; e = e.parent {
			if t, ok := e.types[targets[0]]; ok {
				ty = strings.ToLower(t)
				break
			}
		}
		isRec := ty == "record" || strings.HasSuffix(ty, "%rowtype")
		var td *TypeDef
		if !isRec && ty != "" {
			if b, _ := typeBase(ty); b != "text" && b != "int" && b != "bool" && b != "timestamp" && b != "json" && b != "bytea" {
				td = c.db.findType(b)
				if td != nil && td.Enum == nil {
					isRec = true
				}
			}
		}
		if isRec {
			if len(res.Rows) == 0 {
				p, _ := c.vars.lookup(targets[0])
				if p != nil {
					*p = nil
				}
				return nil
			}
			rec := &Record{Names: append([]string(nil), res.Cols...), Fields: append([]Value(nil), row...)}
			if td != nil {
				if len(td.Fields) != len(row) {
					// a single composite column assigned to a composite variable
					if len(row) == 1 {
						return f.assign(targets[0], row[0])
					}
					return errf("42804", "cannot assign %d columns to composite variable %s", len(row), targets[0])
				}
				rec.Type = td.Name
				for i, fd := range td.Fields {
					rec.Names[i] = fd.Name
					cv, err := c.db.castTo(row[i], fd.Type)
					if err != nil {
						return err
					}
					rec.Fields[i] = cv
				}
			}
			p, ok := c.vars.lookup(targets[0])
			if !ok {
				return errf("42601", "%q is not a known variable", targets[0])
			}
			*p = rec
			return nil
		}
	}
	for i, tg := range targets {
		var v Value
		if i < len(row) {
			v = row[i]
		}
		if err := f.assign(tg, v); err != nil {
			return err
		}
	}
	return nil
}

func (f *plFrame) runSQL(sql string) error {
	err := f.runSQLInner(sql)
	if err != nil && f.c.legacySkippable(sql, err) {
		f.setFound(false)
		return nil
	}
	return err
}

func (f *plFrame) runSQLInner(sql string) error {
	c := f.c
	st, err := c.parseCached(f.cache, sql, false)
	if err != nil {
		return err
	}
	nc := c.nested()
	switch q := st.(type) {
	case *Select:
		res, err := nc.runSelect(q, nil)
		if err != nil {
			return err
		}
		if q.Into == nil {
			return errf("42601", "query has no destination for result data")
		}
		return f.assignInto(q.Into, res)
	case *Insert:
		res, err := nc.runInsert(q, nil)
		if err != nil {
			return err
		}
		f.setFound(res.N > 0)
		if q.Into != nil {
			return f.assignInto(q.Into, res)
		}
		return nil
	case *Update:
		res, err := nc.runUpdate(q, nil)
		if err != nil {
			return err
		}
		f.setFound(res.N > 0)
		if q.Into != nil {
			return f.assignInto(q.Into, res)
		}
		return nil
	case *Delete:
		res, err := nc.runDelete(q, nil)
		if err != nil {
			return err
		}
		f.setFound(res.N > 0)
		return nil
	case *SetStmt:
		return nc.execSet(q)
	case *RawDDL:
		return nc.execDDL(q)
	case *CallStmt:
		_, err := nc.execCall(q)
		return err
	}
	return unsupported("plpgsql: SQL statement %T", st)
}

func (f *plFrame) exec(stmts []plStmt) (plSignal, error) {
	c := f.c
	for _, s := range stmts {
		switch t := s.(type) {
		case *plBlock:
			sig, err := f.execBlock(t)
			if err != nil || sig != sigNone {
				return sig, err
			}
		case *plNull:
		case *plAssign:
			v, err := f.evalExpr(t.expr)
			if err != nil {
				return sigNone, err
			}
			if err := f.assign(t.target, v); err != nil {
				return sigNone, err
			}
		case *plIf:
			done := false
			for i, cond := range t.conds {
				v, err := f.evalExpr(cond)
				if err != nil {
					return sigNone, err
				}
				if b, null := truth(v); !null && b {
					sig, err := f.exec(t.bodies[i])
					if err != nil || sig != sigNone {
						return sig, err
					}
					done = true
					break
				}
			}
			if !done && t.els != nil {
				sig, err := f.exec(t.els)
				if err != nil || sig != sigNone {
					return sig, err
				}
			}
		case *plLoop:
			iter := 0
			runBody := func() (bool, plSignal, error) {
				iter++
				if iter > 100000 {
					return true, sigNone, errf("54000", "plpgsql loop iteration budget exceeded")
				}
				sig, err := f.exec(t.body)
				if err != nil {
					return true, sigNone, err
				}
				switch sig {
				case sigReturn:
					return true, sigReturn, nil
				case sigExit:
					return true, sigNone, nil
				}
				return false, sigNone, nil
			}
			switch t.kind {
			case "loop":
				for {
					stop, sig, err := runBody()
					if err != nil || sig != sigNone {
						return sig, err
					}
					if stop {
						break
					}
				}
			case "while":
				for {
					v, err := f.evalExpr(t.cond)
					if err != nil {
						return sigNone, err
					}
					if b, null := truth(v); null || !b {
						break
					}
					stop, sig, err := runBody()
					if err != nil || sig != sigNone {
						return sig, err
					}
					if stop {
						break
					}
				}
			case "forquery":
				st, err := c.parseCached(f.cache, t.query, false)
				if err != nil {
					return sigNone, err
				}
				sel, ok := st.(*Select)
				if !ok {
					return sigNone, unsupported("plpgsql: FOR over %T", st)
				}
				res, err := c.nested().runSelect(sel, nil)
				if err != nil {
					return sigNone, err
				}
				p, ok := c.vars.lookup(t.v)
				if !ok {
					var nv Value
					c.vars.vars[t.v] = &nv
					p = &nv
				}
				for _, row := range res.Rows {
					*p = &Record{Names: res.Cols, Fields: row}
					stop, sig, err := runBody()
					if err != nil || sig != sigNone {
						return sig, err
					}
					if stop {
						break
					}
				}
			case "forrange":
				lo, err := f.evalExpr(t.lo)
				if err != nil {
					return sigNone, err
				}
				hi, err := f.evalExpr(t.hi)
				if err != nil {
					return sigNone, err
				}
				a, err := toInt(lo)
				if err != nil {
					return sigNone, err
				}
				b, err := toInt(hi)
				if err != nil {
					return sigNone, err
				}
				stepN := big.NewInt(1)
				if t.step != "" {
					sv, err := f.evalExpr(t.step)
					if err != nil {
						return sigNone, err
					}
					if stepN, err = toInt(sv); err != nil {
						return sigNone, err
					}
					if stepN.Sign() <= 0 {
						return sigNone, errf("22023", "BY value of FOR loop must be greater than zero")
					}
				}
				var iv Value
				c.vars = &varEnv{parent: c.vars, vars: map[string]*Value{t.v: &iv}, types: map[string]string{}}
				for i := new(big.Int).Set(a); i.Cmp(b) <= 0; i = new(big.Int).Add(i, stepN) {
					iv = new(big.Int).Set(i)
					stop, sig, err := runBody()
					if err != nil || sig != sigNone {
						c.vars = c.vars.parent
						return sig, err
					}
					if stop {
						break
					}
				}
				c.vars = c.vars.parent
			}
		case *plReturn:
			if strings.TrimSpace(t.expr) == "" {
				f.ret = nil
				return sigReturn, nil
			}
			v, err := f.evalExpr(t.expr)
			if err != nil {
				return sigNone, err
			}
			f.ret = v
			return sigReturn, nil
		case *plRaise:
			msg := t.fmt
			for _, a := range t.args {
				v, err := f.evalExpr(a)
				if err != nil {
					return sigNone, err
				}
				msg = strings.Replace(msg, "%", textOf(v), 1)
			}
			if t.level == "exception" {
				return sigNone, &PgErr{Code: "P0001", Message: msg}
			}
		case *plPerform:
			st, err := c.parseCached(f.cache, t.sql, false)
			if err != nil {
				return sigNone, err
			}
			res, err := c.nested().runSelect(st.(*Select), nil)
			if err != nil {
				return sigNone, err
			}
			f.setFound(len(res.Rows) > 0)
		case *plExecute:
			v, err := f.evalExpr(t.expr)
			if err != nil {
				return sigNone, err
			}
			if v == nil {
				return sigNone, errf("22004", "query string argument of EXECUTE is null")
			}
			if err := f.runSQL(textOf(v)); err != nil {
				return sigNone, err
			}
		case *plExit:
			if t.when != "" {
				v, err := f.evalExpr(t.when)
				if err != nil {
					return sigNone, err
				}
				if b, null := truth(v); null || !b {
					continue
				}
			}
			if t.cont {
				return sigContinue, nil
			}
			return sigExit, nil
		case *plSQL:
			if err := f.runSQL(t.sql); err != nil {
				return sigNone, err
			}
		case *plTxCtl:
			// COMMIT/ROLLBACK inside a DO block or procedure: every caller in this code base runs inside a
			// transaction block, where Postgres raises "invalid transaction termination".
			return sigNone, &PgErr{Code: "2D000", Message: "invalid transaction termination"}
		case *plAssert:
			v, err := f.evalExpr(t.cond)
			if err != nil {
				return sigNone, err
			}
			if b, null := truth(v); null || !b {
				return sigNone, &PgErr{Code: "P0004", Message: "assertion failed"}
			}
		default:
			return sigNone, unsupported("plpgsql statement %T", s)
		}
	}
	return sigNone, nil
}

func (f *plFrame) execBlock(b *plBlock) (plSignal, error) {
	c := f.c
	saved := c.vars
	c.vars = &varEnv{parent: c.vars, vars: map[string]*Value{}, types: map[string]string{}}
	defer func() { c.vars = saved }()
	for _, d := range b.decls {
		var v Value
		c.vars.vars[d.name] = &v
		c.vars.types[d.name] = strings.ToLower(strings.TrimSpace(d.typ))
		if d.init != "" {
			iv, err := f.evalExpr(d.init)
			if err != nil {
				return sigNone, err
			}
			if err := f.assign(d.name, iv); err != nil {
				return sigNone, err
			}
		}
	}
	return f.exec(b.body)
}

// ---------------------------------------------------------------------------- calling functions

func (c *execCtx) withFuncPath(f *Function, run func() error) error {
	if c.sess == nil || f.SearchPath == "" {
		return run()
	}
	saved := c.sess.path
	c.sess.path = []string{f.SearchPath}
	defer func() { c.sess.path = saved }()
	return run()
}

func (c *execCtx) plBody(f *Function) (*plBlock, map[string]any, error) {
	type cached struct {
		blk   *plBlock
		cache map[string]any
	}
	if f.parsed != nil {
		cd := f.parsed.(*cached)
		return cd.blk, cd.cache, nil
	}
	blk, err := parsePL(f.Body)
	if err != nil {
		return nil, nil, err
	}
	cd := &cached{blk: blk, cache: map[string]any{}}
	f.parsed = cd
	return cd.blk, cd.cache, nil
}

func (c *execCtx) callTrigger(f *Function, tb *Table, vars *varEnv, op string) (Value, error) {
	if strings.ToLower(f.Lang) != "plpgsql" {
		return nil, unsupported("trigger function %s in language %s", f.Name, f.Lang)
	}
	blk, cache, err := c.plBody(f)
	if err != nil {
		return nil, err
	}
	fc := c.child()
	var found Value = false
	var tgop Value = op
	var tgname Value = tb.Name
	vars.vars["found"] = &found
	vars.vars["tg_op"] = &tgop
	vars.vars["tg_table_name"] = &tgname
	fc.vars = vars
	fr := &plFrame{c: fc, cache: cache, isTrig: true}
	err = c.withFuncPath(f, func() error {
		_, err := fr.execBlock(blk)
		return err
	})
	if err != nil {
		if pe, ok := err.(*PgErr); ok && pe.Code == "0A000" {
			pe.Message += fmt.Sprintf(" [in trigger function %s]", f.Name)
		}
		return nil, err
	}
	return fr.ret, nil
}

func (c *execCtx) callFunction(f *Function, call *FuncCall, args []Value, e *env) (Value, error) {
	// bind arguments
	vals := make([]Value, len(f.Args))
	set := make([]bool, len(f.Args))
	pos := 0
	for i, a := range args {
		an := ""
		if call != nil && i < len(call.ArgNames) {
			an = call.ArgNames[i]
		}
		if an == "" {
			if pos >= len(f.Args) {
				return nil, errf("42883", "function %s: too many arguments", f.Name)
			}
			vals[pos], set[pos] = a, true
			pos++
			continue
		}
		ok := false
		for j, fa := range f.Args {
			if fa.Name == an {
				vals[j], set[j], ok = a, true, true
			}
		}
		if !ok {
			return nil, errf("42883", "function %s has no parameter %q", f.Name, an)
		}
	}
	fc := c.child()
	fc.args = make([]Value, len(f.Args))
	vars := &varEnv{vars: map[string]*Value{}, types: map[string]string{}}
	for i, fa := range f.Args {
		if !set[i] {
			if fa.Default == nil {
				return nil, errf("42883", "function %s: missing argument %d", f.Name, i+1)
			}
			dv, err := (&env{ctx: c, fr: &frame{}, tup: &tuple{}}).eval(fa.Default)
			if err != nil {
				return nil, err
			}
			vals[i] = dv
		}
		cv, err := c.db.castTo(vals[i], fa.Type)
		if err != nil {
			// composite-typed parameter given a row of the table type etc.: keep as is
			cv = vals[i]
		}
		v := cv
		fc.args[i] = v
		if fa.Name != "" {
			vars.vars[fa.Name] = &v
			vars.types[fa.Name] = strings.ToLower(fa.Type)
		}
	}
	var found Value = false
	vars.vars["found"] = &found
	fc.vars = vars
	var ret Value
	err := c.withFuncPath(f, func() error {
		switch strings.ToLower(f.Lang) {
		case "plpgsql":
			blk, cache, err := c.plBody(f)
			if err != nil {
				return err
			}
			fr := &plFrame{c: fc, cache: cache}
			if _, err := fr.execBlock(blk); err != nil {
				return err
			}
			ret = fr.ret
			return nil
		case "sql":
			stmts, err := splitStatements(f.Body)
			if err != nil {
				return err
			}
			for i, s := range stmts {
				st, err := parseStatement(s)
				if err != nil {
					return err
				}
				sel, ok := st.(*Select)
				if !ok {
					return unsupported("SQL function %s with %T", f.Name, st)
				}
				res, err := fc.nested().runSelect(sel, nil)
				if err != nil {
					return err
				}
				if i == len(stmts)-1 {
					if len(res.Rows) > 0 {
						ret = res.Rows[0][0]
					}
				}
			}
			return nil
		}
		return unsupported("function language %s", f.Lang)
	})
	if err != nil {
		if pe, ok := err.(*PgErr); ok && pe.Code == "0A000" && !strings.Contains(pe.Message, "[in function") {
			pe.Message += fmt.Sprintf(" [in function %s]", f.Name)
		}
		return nil, err
	}
	if f.IsProc || f.Returns == "" || strings.EqualFold(f.Returns, "void") {
		return nil, nil
	}
	if ret == nil {
		return nil, nil
	}
	rt := strings.ToLower(f.Returns)
	if rt == "trigger" || strings.HasPrefix(rt, "setof") || rt == "record" {
		return ret, nil
	}
	return c.db.castTo(ret, f.Returns)
}
