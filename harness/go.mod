module github.com/formancehq/ledger/verifharness

go 1.26.0

require (
	github.com/formancehq/go-libs/v5 v5.6.1
	github.com/formancehq/ledger v0.0.0
	github.com/jackc/pgx/v5 v5.9.2
	github.com/sirupsen/logrus v1.9.4
	github.com/uptrace/bun v1.2.18
	github.com/uptrace/bun/dialect/pgdialect v1.2.18
	go.opentelemetry.io/otel/trace v1.43.0
)

require (
	dario.cat/mergo v1.0.2 // indirect
	github.com/IBM/sarama v1.46.3 // indirect
	github.com/ThreeDotsLabs/watermill v1.5.1 // indirect
	github.com/ThreeDotsLabs/watermill-aws v1.0.1 // indirect
	github.com/ThreeDotsLabs/watermill-http/v2 v2.3.1 // indirect
	github.com/ThreeDotsLabs/watermill-kafka/v3 v3.1.2 // indirect
	github.com/ThreeDotsLabs/watermill-nats/v2 v2.1.3 // indirect
	github.com/ajg/form v1.7.1 // indirect
	github.com/alitto/pond v1.9.2 // indirect
	github.com/antlr/antlr4/runtime/Go/antlr v1.4.10 // indirect
	github.com/antlr4-go/antlr/v4 v4.13.1 // indirect
	github.com/aws/aws-msk-iam-sasl-signer-go v1.0.4 // indirect
	github.com/aws/aws-sdk-go-v2 v1.41.5 // indirect
	github.com/aws/aws-sdk-go-v2/config v1.32.12 // indirect
	github.com/aws/aws-sdk-go-v2/credentials v1.19.12 // indirect
	github.com/aws/aws-sdk-go-v2/feature/ec2/imds v1.18.20 // indirect
	github.com/aws/aws-sdk-go-v2/internal/configsources v1.4.21 // indirect
	github.com/aws/aws-sdk-go-v2/internal/endpoints/v2 v2.7.21 // indirect
	github.com/aws/aws-sdk-go-v2/internal/ini v1.8.6 // indirect
	github.com/aws/aws-sdk-go-v2/service/internal/accept-encoding v1.13.7 // indirect
	github.com/aws/aws-sdk-go-v2/service/internal/presigned-url v1.13.21 // indirect
	github.com/aws/aws-sdk-go-v2/service/signin v1.0.8 // indirect
	github.com/aws/aws-sdk-go-v2/service/sns v1.39.14 // indirect
	github.com/aws/aws-sdk-go-v2/service/sqs v1.42.24 // indirect
	github.com/aws/aws-sdk-go-v2/service/sso v1.30.13 // indirect
	github.com/aws/aws-sdk-go-v2/service/ssooidc v1.35.17 // indirect
	github.com/aws/aws-sdk-go-v2/service/sts v1.41.9 // indirect
	github.com/aws/smithy-go v1.24.2 // indirect
	github.com/bahlo/generic-list-go v0.2.0 // indirect
	github.com/bluele/gcache v0.0.2 // indirect
	github.com/buger/jsonparser v1.1.2 // indirect
	github.com/cespare/xxhash/v2 v2.3.0 // indirect
	github.com/davecgh/go-spew v1.1.2-0.20180830191138-d8f796af33cc // indirect
	github.com/dnwe/otelsarama v0.0.0-20240308230250-9388d9d40bc0 // indirect
	github.com/eapache/go-resiliency v1.7.0 // indirect
	github.com/eapache/go-xerial-snappy v0.0.0-20230731223053-c322873962e3 // indirect
	github.com/eapache/queue v1.1.0 // indirect
	github.com/felixge/httpsnoop v1.0.4 // indirect
	github.com/formancehq/numscript v0.0.24 // indirect
	github.com/getkin/kin-openapi v0.134.0 // indirect
	github.com/go-chi/chi v4.1.2+incompatible // indirect
	github.com/go-chi/chi/v5 v5.2.5 // indirect
	github.com/go-chi/cors v1.2.2 // indirect
	github.com/go-chi/render v1.0.3 // indirect
	github.com/go-jose/go-jose/v4 v4.1.4 // indirect
	github.com/go-logr/logr v1.4.3 // indirect
	github.com/go-logr/stdr v1.2.2 // indirect
	github.com/go-openapi/jsonpointer v0.21.0 // indirect
	github.com/go-openapi/swag v0.23.0 // indirect
	github.com/golang/snappy v1.0.0 // indirect
	github.com/google/uuid v1.6.0 // indirect
	github.com/gorilla/securecookie v1.1.2 // indirect
	github.com/hashicorp/errwrap v1.1.0 // indirect
	github.com/hashicorp/go-cleanhttp v0.5.2 // indirect
	github.com/hashicorp/go-multierror v1.1.1 // indirect
	github.com/hashicorp/go-retryablehttp v0.7.8 // indirect
	github.com/hashicorp/go-uuid v1.0.3 // indirect
	github.com/iancoleman/strcase v0.3.0 // indirect
	github.com/invopop/jsonschema v0.13.0 // indirect
	github.com/jackc/pgerrcode v0.0.0-20250907135507-afb5586c32a6 // indirect
	github.com/jackc/pgpassfile v1.0.0 // indirect
	github.com/jackc/pgservicefile v0.0.0-20240606120523-5a60cdf6a761 // indirect
	github.com/jackc/pgxlisten v0.0.0-20250802141604-12b92425684c // indirect
	github.com/jackc/puddle/v2 v2.2.2 // indirect
	github.com/jcmturner/aescts/v2 v2.0.0 // indirect
	github.com/jcmturner/dnsutils/v2 v2.0.0 // indirect
	github.com/jcmturner/gofork v1.7.6 // indirect
	github.com/jcmturner/gokrb5/v8 v8.4.4 // indirect
	github.com/jcmturner/rpc/v2 v2.0.3 // indirect
	github.com/jinzhu/inflection v1.0.0 // indirect
	github.com/josharian/intern v1.0.0 // indirect
	github.com/klauspost/compress v1.18.4 // indirect
	github.com/lithammer/shortuuid/v3 v3.0.7 // indirect
	github.com/logrusorgru/aurora v2.0.3+incompatible // indirect
	github.com/mailru/easyjson v0.9.2 // indirect
	github.com/mohae/deepcopy v0.0.0-20170929034955-c48cc78d4826 // indirect
	github.com/muhlemmer/gu v0.3.1 // indirect
	github.com/nats-io/nats.go v1.49.0 // indirect
	github.com/nats-io/nkeys v0.4.15 // indirect
	github.com/nats-io/nuid v1.0.1 // indirect
	github.com/oasdiff/yaml v0.0.0-20260313112342-a3ea61cb4d4c // indirect
	github.com/oasdiff/yaml3 v0.0.0-20260224194419-61cd415a242b // indirect
	github.com/oklog/ulid v1.3.1 // indirect
	github.com/perimeterx/marshmallow v1.1.5 // indirect
	github.com/pierrec/lz4/v4 v4.1.26 // indirect
	github.com/pkg/errors v0.9.1 // indirect
	github.com/puzpuzpuz/xsync/v3 v3.5.1 // indirect
	github.com/rcrowley/go-metrics v0.0.0-20250401214520-65e299d6c5c9 // indirect
	github.com/riandyrn/otelchi v0.12.2 // indirect
	github.com/robfig/cron/v3 v3.0.1
	github.com/shomali11/util v0.0.0-20220717175126-f0771b70947f // indirect
	github.com/shomali11/xsql v0.0.0-20190608141458-bf76292144df // indirect
	github.com/spf13/pflag v1.0.10 // indirect
	github.com/stoewer/go-strcase v1.3.1 // indirect
	github.com/stretchr/testify v1.12.0 // indirect
	github.com/tmthrgd/go-hex v0.0.0-20190904060850-447a3041c3bc // indirect
	github.com/uptrace/opentelemetry-go-extra/otellogrus v0.3.2 // indirect
	github.com/uptrace/opentelemetry-go-extra/otelutil v0.3.2 // indirect
	github.com/vmihailenco/msgpack/v5 v5.4.1 // indirect
	github.com/vmihailenco/tagparser/v2 v2.0.0 // indirect
	github.com/wk8/go-ordered-map/v2 v2.1.9-0.20240816141633-0a40785b4f41 // indirect
	github.com/woodsbury/decimal128 v1.3.0 // indirect
	github.com/xdg-go/scram v1.2.0 // indirect
	github.com/xdg-go/stringprep v1.0.4 // indirect
	github.com/zitadel/oidc/v3 v3.45.3 // indirect
	github.com/zitadel/schema v1.3.2 // indirect
	go.opentelemetry.io/auto/sdk v1.2.1 // indirect
	go.opentelemetry.io/contrib/instrumentation/net/http/otelhttp v0.66.0 // indirect
	go.opentelemetry.io/otel v1.43.0 // indirect
	go.opentelemetry.io/otel/log v0.17.0 // indirect
	go.opentelemetry.io/otel/metric v1.43.0 // indirect
	go.opentelemetry.io/otel/sdk v1.43.0 // indirect
	go.uber.org/dig v1.19.0 // indirect
	go.uber.org/fx v1.24.0 // indirect
	go.uber.org/mock v0.6.0 // indirect
	go.uber.org/multierr v1.11.0 // indirect
	go.uber.org/zap v1.27.1 // indirect
	go.vallahaye.net/batcher v0.6.0 // indirect
	golang.org/x/crypto v0.53.0 // indirect
	golang.org/x/exp v0.0.0-20250819193227-8b4c13bb791b // indirect
	golang.org/x/net v0.56.0 // indirect
	golang.org/x/oauth2 v0.36.0 // indirect
	golang.org/x/sync v0.21.0 // indirect
	golang.org/x/sys v0.46.0 // indirect
	golang.org/x/text v0.39.0 // indirect
	google.golang.org/genproto/googleapis/rpc v0.0.0-20260414002931-afd174a4e478 // indirect
	google.golang.org/grpc v1.82.1 // indirect
	google.golang.org/protobuf v1.36.11 // indirect
	gopkg.in/yaml.v3 v3.0.1 // indirect
)

replace github.com/formancehq/ledger => /repo

replace github.com/formancehq/ledger/pkg/client => /repo/pkg/client

replace google.golang.org/genproto v0.0.0-20200423170343-7949de9c1215 => google.golang.org/genproto v0.0.0-20240903143218-8af14fe29dc1
