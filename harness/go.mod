module github.com/formancehq/ledger/verifharness

go 1.26.0

require github.com/formancehq/ledger v0.0.0

replace github.com/formancehq/ledger => /repo

replace github.com/formancehq/ledger/pkg/client => /repo/pkg/client

replace google.golang.org/genproto v0.0.0-20200423170343-7949de9c1215 => google.golang.org/genproto v0.0.0-20240903143218-8af14fe29dc1
