// Package deps pins the dependency graph of the harness module (so that go.mod is complete and
// concurrent builds do not rewrite it).
package deps

import (
	_ "github.com/formancehq/ledger/internal"
	_ "github.com/formancehq/ledger/internal/api"
	_ "github.com/formancehq/ledger/internal/api/bulking"
	_ "github.com/formancehq/ledger/internal/controller/ledger"
	_ "github.com/formancehq/ledger/internal/controller/system"
	_ "github.com/formancehq/ledger/internal/machine"
	_ "github.com/formancehq/ledger/internal/machine/script/compiler"
	_ "github.com/formancehq/ledger/internal/machine/vm"
	_ "github.com/formancehq/ledger/internal/replication"
	_ "github.com/formancehq/ledger/internal/storage/bucket"
	_ "github.com/formancehq/ledger/internal/storage/driver"
	_ "github.com/formancehq/ledger/internal/storage/ledger"
	_ "github.com/formancehq/ledger/internal/storage/system"
	_ "github.com/uptrace/bun"
	_ "github.com/uptrace/bun/dialect/pgdialect"
)
