package chartcase

import (
	"bytes"
	"encoding/json"
	"fmt"
	"reflect"
	"sort"

	ledger "github.com/formancehq/ledger/internal"
	"github.com/formancehq/ledger/internal/queries"
)

// Menus of concrete templates behind the opaque ids the spec carries (MCTxMenu / MCQMenu of
// MC_Chart.tla). Each entry has the JSON sent to the API and the hand-written normal form every
// stage of the round trip must still have (built from the Go struct fields, not through the code's
// own MarshalJSON, so that information dropped by marshal is noticed).

type TxEntry struct {
	JSON string
	Want map[string]any
}

type QueryEntry struct {
	JSON string
	Want map[string]any
}

var TxMenu = map[string]TxEntry{
	"t1": {
		JSON: `{"description":"pay in","script":"send [USD/2 100] (\n  source = @world\n  destination = @a\n)"}`,
		Want: map[string]any{"description": "pay in", "script": "send [USD/2 100] (\n  source = @world\n  destination = @a\n)", "runtime": ""},
	},
	"t2": {
		JSON: `{"description":"with vars, \"quoted\" é世 <&>","script":"vars {\n  account $dst\n  monetary $m\n}\nsend $m (\n  source = @world\n  destination = $dst\n)","runtime":"machine"}`,
		Want: map[string]any{"description": "with vars, \"quoted\" é世 <&>", "script": "vars {\n  account $dst\n  monetary $m\n}\nsend $m (\n  source = @world\n  destination = $dst\n)", "runtime": "machine"},
	},
	"t3": {
		JSON: `{"description":"","script":"send [COIN 1] (\n  source = @world\n  destination = @a:7\n)","runtime":"experimental-interpreter"}`,
		Want: map[string]any{"description": "", "script": "send [COIN 1] (\n  source = @world\n  destination = @a:7\n)", "runtime": "experimental-interpreter"},
	},
}

func num(s string) json.Number { return json.Number(s) }

var QueryMenu = map[string]QueryEntry{
	"q1": {
		JSON: `{"description":"by iban","resource":"accounts","vars":{"iban":"string"},"body":{"$match":{"address":"banks:${iban}:"}}}`,
		Want: map[string]any{"description": "by iban", "resource": "accounts", "params": nil,
			"vars": map[string]any{"iban": map[string]any{"type": "string", "default": nil}},
			"body": map[string]any{"$match": map[string]any{"address": "banks:${iban}:"}}},
	},
	"q2": {
		JSON: `{"description":"volumes","resource":"volumes","params":{"pageSize":42,"groupBy":2}}`,
		Want: map[string]any{"description": "volumes", "resource": "volumes",
			"params": map[string]any{"pageSize": num("42"), "groupBy": num("2")},
			"vars":   map[string]any{}, "body": nil},
	},
	"q3": {
		JSON: `{"resource":"transactions","params":{"sort":"timestamp:desc","pageSize":10,"expand":["volumes"]},"vars":{"n":{"type":"int","default":12345678901234567890},"r":{"type":"boolean","default":false},"ref":{"type":"string","default":""}},"body":{"$and":[{"$gte":{"id":"${n}"}},{"$match":{"reverted":"${r}"}},{"$match":{"reference":"${ref}"}}]}}`,
		Want: map[string]any{"description": "", "resource": "transactions",
			"params": map[string]any{"sort": "timestamp:desc", "pageSize": num("10"), "expand": []any{"volumes"}},
			"vars": map[string]any{
				"n":   map[string]any{"type": "int", "default": num("12345678901234567890")},
				"r":   map[string]any{"type": "boolean", "default": false},
				"ref": map[string]any{"type": "string", "default": ""}},
			"body": map[string]any{"$and": []any{
				map[string]any{"$gte": map[string]any{"id": "${n}"}},
				map[string]any{"$match": map[string]any{"reverted": "${r}"}},
				map[string]any{"$match": map[string]any{"reference": "${ref}"}}}}},
	},
	"q4": {
		JSON: `{"description":"$in filter","resource":"accounts","vars":{"foo":{"type":"string","default":"x"},"bar":"string"},"body":{"$in":{"metadata[foo]":["${foo}","${bar}"]}}}`,
		Want: map[string]any{"description": "$in filter", "resource": "accounts", "params": nil,
			"vars": map[string]any{
				"foo": map[string]any{"type": "string", "default": "x"},
				"bar": map[string]any{"type": "string", "default": nil}},
			"body": map[string]any{"$in": map[string]any{"metadata[foo]": []any{"${foo}", "${bar}"}}}},
	},
}

func normTx(t ledger.TransactionTemplate) map[string]any {
	return map[string]any{"description": t.Description, "script": t.Script, "runtime": string(t.Runtime)}
}

func normRaw(raw json.RawMessage) (any, error) {
	if len(bytes.TrimSpace(raw)) == 0 {
		return nil, nil
	}
	return decodeAny(raw)
}

// normDefault brings a variable default to the value a UseNumber JSON decoder yields.
func normDefault(v any) any {
	if v == nil {
		return nil
	}
	b, err := json.Marshal(v)
	if err != nil {
		return fmt.Sprintf("unmarshalable default %T: %v", v, err)
	}
	out, err := decodeAny(b)
	if err != nil {
		return fmt.Sprintf("undecodable default %s", b)
	}
	return out
}

func normQuery(q ledger.QueryTemplate) (map[string]any, error) {
	params, err := normRaw(q.Params)
	if err != nil {
		return nil, fmt.Errorf("params: %w", err)
	}
	body, err := normRaw(q.Body)
	if err != nil {
		return nil, fmt.Errorf("body: %w", err)
	}
	vars := map[string]any{}
	for name, d := range q.Vars {
		typ := "<nil>"
		if d.Type != nil {
			typ = queries.FieldTypeToString(d.Type)
		}
		vars[name] = map[string]any{"type": typ, "default": normDefault(d.Default)}
	}
	return map[string]any{"description": q.Description, "resource": string(q.Resource), "params": params, "vars": vars, "body": body}, nil
}

func sortedCopy(l []string) []string {
	out := append([]string{}, l...)
	sort.Strings(out)
	return out
}

// compareTemplates checks that a schema (at some stage of the round trip) carries exactly the
// transaction templates and query templates of the case, unchanged.
func compareTemplates(stage string, s *ledger.Schema, c *Case) []Disagreement {
	var out []Disagreement
	gotTx := make([]string, 0, len(s.Transactions))
	for id := range s.Transactions {
		gotTx = append(gotTx, id)
	}
	sort.Strings(gotTx)
	if want := sortedCopy(c.Tx); !reflect.DeepEqual(gotTx, want) {
		out = append(out, Disagreement{Sig: "tx-templates:" + stage + ":ids", Stage: stage,
			Detail: fmt.Sprintf("transaction template ids: want %v, got %v", want, gotTx)})
	}
	for _, id := range gotTx {
		e, ok := TxMenu[id]
		if !ok {
			continue
		}
		if got := normTx(s.Transactions[id]); !reflect.DeepEqual(got, e.Want) {
			out = append(out, Disagreement{Sig: "tx-templates:" + stage + ":content", Stage: stage,
				Detail: fmt.Sprintf("transaction template %s: want %v, got %v", id, e.Want, got)})
		}
	}
	if err := s.Transactions.Validate(); err != nil {
		out = append(out, Disagreement{Sig: "tx-templates:" + stage + ":validate", Stage: stage, Detail: err.Error()})
	}
	gotQ := make([]string, 0, len(s.Queries))
	for id := range s.Queries {
		gotQ = append(gotQ, id)
	}
	sort.Strings(gotQ)
	if want := sortedCopy(c.Queries); !reflect.DeepEqual(gotQ, want) {
		out = append(out, Disagreement{Sig: "query-templates:" + stage + ":ids", Stage: stage,
			Detail: fmt.Sprintf("query template ids: want %v, got %v", want, gotQ)})
	}
	for _, id := range gotQ {
		e, ok := QueryMenu[id]
		if !ok {
			continue
		}
		got, err := normQuery(s.Queries[id])
		if err != nil {
			out = append(out, Disagreement{Sig: "query-templates:" + stage + ":content", Stage: stage,
				Detail: fmt.Sprintf("query template %s: %v", id, err)})
			continue
		}
		if !reflect.DeepEqual(got, e.Want) {
			out = append(out, Disagreement{Sig: "query-templates:" + stage + ":content", Stage: stage,
				Detail: fmt.Sprintf("query template %s: want %#v, got %#v", id, e.Want, got)})
		}
	}
	if err := s.Queries.Validate(); err != nil {
		out = append(out, Disagreement{Sig: "query-templates:" + stage + ":validate", Stage: stage, Detail: err.Error()})
	}
	return out
}

// SelfTest checks the menus themselves: every entry must unmarshal and pass the real validation
// (otherwise no case could be built: reported as a harness problem, exit 2). The comparison with the
// hand-written normal forms is made per case and per stage by compareTemplates.
func SelfTest() []string {
	var errs []string
	for id, e := range TxMenu {
		var t ledger.TransactionTemplate
		if err := json.Unmarshal([]byte(e.JSON), &t); err != nil {
			errs = append(errs, fmt.Sprintf("tx menu %s: %v", id, err))
			continue
		}
		if err := (ledger.TransactionTemplates{id: t}).Validate(); err != nil {
			errs = append(errs, fmt.Sprintf("tx menu %s: validate: %v", id, err))
		}
	}
	for id, e := range QueryMenu {
		var q ledger.QueryTemplate
		if err := json.Unmarshal([]byte(e.JSON), &q); err != nil {
			errs = append(errs, fmt.Sprintf("query menu %s: %v", id, err))
			continue
		}
		if err := q.Validate(); err != nil {
			errs = append(errs, fmt.Sprintf("query menu %s: validate: %v", id, err))
		}
	}
	return errs
}
