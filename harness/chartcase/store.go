package chartcase

import (
	"bytes"
	"context"
	"database/sql"
	"database/sql/driver"
	"encoding/json"
	"errors"
	"fmt"
	"reflect"
	"strings"

	"github.com/uptrace/bun"
	"github.com/uptrace/bun/dialect/pgdialect"

	ledger "github.com/formancehq/ledger/internal"
)

// Store round trips.
//
// The full round trip of C30 (iii) is InsertSchema -> FindSchema through the storage layer on the
// database stand-in. That needs the lead's pgmodel engine; plug it in with ONE call:
//
//	chartcase.RegisterStore("pgmodel", func(s ledger.Schema) (ledger.Schema, error) { ... })
//
// (e.g. from an init() in a file of this package or of cmd/vh-chart) and run `vh-chart --store pgmodel`.
//
// "bunjson" below is a database-less approximation that is always available: it pushes the three
// jsonb columns of ledger.Schema (chart, transactions, queries) through bun's own value appender
// (what InsertSchema sends as SQL literal) and bun's own scanner (what FindSchema applies to the
// column bytes), with the jsonb text normalised the way Postgres prints it (keys sorted by length
// then bytes, ", " and ": " separators, duplicate keys removed). It exercises the bun struct tags
// and the (Un)MarshalJSON methods bun picks, not the SQL.

func init() {
	RegisterStore("bunjson", bunJSONRoundTrip)
}

type noConn struct{}

func (noConn) Connect(context.Context) (driver.Conn, error) {
	return nil, errors.New("chartcase: no database")
}
func (noConn) Driver() driver.Driver { return noDriver{} }

type noDriver struct{}

func (noDriver) Open(string) (driver.Conn, error) { return nil, errors.New("chartcase: no database") }

var bunDB = bun.NewDB(sql.OpenDB(noConn{}), pgdialect.New(), bun.WithDiscardUnknownColumns())

// unquoteSQL turns the SQL string literal bun emitted into the text Postgres would receive.
func unquoteSQL(lit []byte) ([]byte, error) {
	s := string(lit)
	if i := strings.LastIndex(s, "'::"); i >= 0 { // 'xxx'::jsonb
		s = s[:i+1]
	}
	if strings.HasPrefix(s, "E'") {
		return nil, fmt.Errorf("E'' literal not supported: %.40s", s)
	}
	if len(s) < 2 || s[0] != '\'' || s[len(s)-1] != '\'' {
		return nil, fmt.Errorf("not a SQL string literal: %.60s", s)
	}
	return []byte(strings.ReplaceAll(s[1:len(s)-1], "''", "'")), nil
}

// jsonbText re-prints JSON text as Postgres' jsonb output function does.
func jsonbText(in []byte) ([]byte, error) {
	v, err := decodeAny(in)
	if err != nil {
		return nil, err
	}
	var buf bytes.Buffer
	var emit func(v any) error
	emit = func(v any) error {
		switch x := v.(type) {
		case map[string]any:
			keys := make([]string, 0, len(x))
			for k := range x {
				keys = append(keys, k)
			}
			// jsonb orders object keys by length, then bytewise
			for i := 1; i < len(keys); i++ {
				for j := i; j > 0; j-- {
					a, b := keys[j-1], keys[j]
					if len(a) > len(b) || (len(a) == len(b) && a > b) {
						keys[j-1], keys[j] = b, a
					} else {
						break
					}
				}
			}
			buf.WriteByte('{')
			for i, k := range keys {
				if i > 0 {
					buf.WriteString(", ")
				}
				kb, _ := json.Marshal(k)
				buf.Write(kb)
				buf.WriteString(": ")
				if err := emit(x[k]); err != nil {
					return err
				}
			}
			buf.WriteByte('}')
		case []any:
			buf.WriteByte('[')
			for i, e := range x {
				if i > 0 {
					buf.WriteString(", ")
				}
				if err := emit(e); err != nil {
					return err
				}
			}
			buf.WriteByte(']')
		default:
			b, err := json.Marshal(x)
			if err != nil {
				return err
			}
			buf.Write(b)
		}
		return nil
	}
	if err := emit(v); err != nil {
		return nil, err
	}
	return buf.Bytes(), nil
}

func bunJSONRoundTrip(in ledger.Schema) (ledger.Schema, error) {
	table := bunDB.Table(reflect.TypeOf((*ledger.Schema)(nil)).Elem())
	src := reflect.ValueOf(&in).Elem()
	out := ledger.Schema{}
	dst := reflect.ValueOf(&out).Elem()
	for _, col := range []string{"chart", "transactions", "queries"} {
		f, ok := table.FieldMap[col]
		if !ok {
			return out, fmt.Errorf("bun table of ledger.Schema has no column %q", col)
		}
		lit := f.AppendValue(bunDB.QueryGen(), nil, src)
		if string(lit) == "NULL" || string(lit) == "DEFAULT" {
			// transactions/queries are `jsonb not null default '{}'`: a nil map is sent as NULL by bun.
			// Migrations 48/49 declare NOT NULL, so a NULL here would fail the INSERT; report it.
			return out, fmt.Errorf("column %s is sent as %s (column is NOT NULL)", col, lit)
		}
		text, err := unquoteSQL(lit)
		if err != nil {
			return out, fmt.Errorf("column %s: %w", col, err)
		}
		stored, err := jsonbText(text)
		if err != nil {
			return out, fmt.Errorf("column %s: not valid jsonb input %.80s: %w", col, text, err)
		}
		if err := f.ScanValue(dst, stored); err != nil {
			return out, fmt.Errorf("column %s: scan: %w", col, err)
		}
	}
	out.Version = in.Version
	out.CreatedAt = in.CreatedAt
	return out, nil
}
