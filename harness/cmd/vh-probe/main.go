// vh-probe issues the HTTP requests listed on stdin against the real router (in process, over pgmodel) and prints
// status and body of each.  It is the tool used to reproduce a finding by hand (see known-findings.txt).
//
//	usage: vh-probe [FEATURE=VALUE ...] [strict] < requests.txt
//	lines: METHOD PATH [JSON-BODY]     issue a request (ledger l1 in bucket b1 exists; create others with POST /v2/<name>)
//	       NOW n                       set the logical clock to instant n (drive.TimeOf)
//	       # comment
//	T(n) inside a path or body is replaced by the RFC3339 timestamp of instant n.
package main

import (
	"bufio"
	"context"
	"fmt"
	"io"
	"log"
	"net/url"
	"os"
	"strings"

	"github.com/sirupsen/logrus"

	"github.com/formancehq/ledger/verifharness/drive"
)

func main() {
	log.SetOutput(io.Discard)
	logrus.SetOutput(io.Discard)
	feat := map[string]string{}
	strict := false
	for _, a := range os.Args[1:] {
		if a == "strict" {
			strict = true
			continue
		}
		if kv := strings.SplitN(a, "=", 2); len(kv) == 2 {
			feat[kv[0]] = kv[1]
		}
	}
	env, err := drive.NewEnv(drive.EnvOptions{Scale: "1", Strict: strict})
	if err != nil {
		fmt.Fprintln(os.Stderr, err)
		os.Exit(2)
	}
	defer env.Close()
	if len(feat) == 0 {
		feat = nil
	}
	if err := env.CreateLedger("l1", "b1", feat); err != nil {
		fmt.Fprintln(os.Stderr, err)
		os.Exit(2)
	}
	env.SetNow(1)
	ctx := context.Background()
	sc := bufio.NewScanner(os.Stdin)
	sc.Buffer(make([]byte, 1<<20), 1<<20)
	for sc.Scan() {
		line := strings.TrimSpace(sc.Text())
		if line == "" || strings.HasPrefix(line, "#") {
			continue
		}
		parts := strings.SplitN(line, " ", 3)
		if parts[0] == "NOW" && len(parts) > 1 {
			var n int
			fmt.Sscan(parts[1], &n)
			env.SetNow(n)
			continue
		}
		if len(parts) < 2 {
			continue
		}
		var body any
		if len(parts) == 3 {
			body = parts[2]
		}
		path := parts[1]
		for i := 60; i >= 0; i-- {
			path = strings.ReplaceAll(path, fmt.Sprintf("T(%d)", i), url.QueryEscape(drive.FmtInstant(i)))
			if s, ok := body.(string); ok {
				body = strings.ReplaceAll(s, fmt.Sprintf("T(%d)", i), drive.FmtInstant(i))
			}
		}
		r := env.St.Do(ctx, "probe", parts[0], path, body, nil)
		b := string(r.Body)
		if len(b) > 1500 {
			b = b[:1500] + "..."
		}
		fmt.Printf("%s %s\n -> %d %s\n", parts[0], parts[1], r.Status, b)
	}
	if u := env.PG.UnsupportedSeen(); len(u) > 0 {
		fmt.Println("UNSUPPORTED SQL:", u)
	}
}
