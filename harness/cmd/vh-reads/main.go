// vh-reads drives the real ledger stack (over pgmodel) with seeded random histories and issues READ requests
// (point-in-time, windows, filters, pagination, query templates) through the real HTTP API; it writes NDJSON
// traces for spec/TraceReads.tla.
//
//	vh-reads gen    -seed S -cases N -len L -reads R -tplruns T -scale NAME -out trace.ndjson -cases-out cases.json
//	vh-reads replay -case case.json -out trace.ndjson
package main

import (
	"encoding/json"
	"flag"
	"fmt"
	"io"
	"log"
	"os"
	"runtime"
	"sync"

	"github.com/sirupsen/logrus"

	"github.com/formancehq/ledger/verifharness/drive"
)

func main() {
	log.SetOutput(io.Discard)
	logrus.SetOutput(io.Discard)
	if len(os.Args) < 2 {
		fmt.Fprintln(os.Stderr, "usage: vh-reads gen|replay ...")
		os.Exit(2)
	}
	switch os.Args[1] {
	case "gen":
		gen(os.Args[2:])
	case "replay":
		replay(os.Args[2:])
	default:
		fmt.Fprintln(os.Stderr, "unknown sub-command", os.Args[1])
		os.Exit(2)
	}
}

type summary struct {
	Cases        int            `json:"cases"`
	Reads        int            `json:"reads"`
	Requests     int            `json:"pages"`
	ByRes        map[string]int `json:"byRes"`
	ByStatus     map[string]int `json:"byStatus"`
	Filtered     int            `json:"filtered"`
	WithPit      int            `json:"withPit"`
	MultiPage    int            `json:"multiPage"`
	OD           int            `json:"orderDependent"`
	Templates    int            `json:"templates"`
	Inconclusive []string       `json:"inconclusive"`
	Projection   []projFail     `json:"projection"`
}

type projFail struct {
	Case int    `json:"case"`
	Msg  string `json:"msg"`
}

func genCases(seed int64, n, length, reads, tplRuns int, scale string) []drive.ReadsCase {
	fsets := drive.ReadsFeatureSets()
	cases := make([]drive.ReadsCase, n)
	for i := range cases {
		cs := seed*1000003 + int64(i)
		g := drive.NewGen(cs, "l1")
		c := drive.ReadsCase{N: i + 1, Seed: cs, Scale: scale, Reads: reads, TplRuns: tplRuns}
		c.Ops = drive.PrepareReadOps(g.History(length))
		if i%3 == 1 {
			// every third case: a directed account-metadata save ... delete pair around the random history
			c.Ops = drive.AddDirectedMetaOps(c.Ops, []string{"users:a:main", "users:a", "orders:1"}[(i/3)%3])
		}
		// half of the cases run with every feature on; the others sweep the 12 feature combinations
		if i%2 == 0 {
			c.Features = fsets[0]
		} else {
			c.Features = fsets[(int(seed)+i/2)%len(fsets)]
		}
		if i%3 == 2 {
			// every third case: a back-dated transaction touching one (account, asset) in three postings between two
			// later-dated ones (discriminates the order of the moves of one transaction and back-dated propagation)
			c.Ops = drive.AddDirectedVolumeOps(c.Ops, []string{"users:b:main", "orders:2:main"}[(i/3)%2])
		}
		c.Points = []int{len(c.Ops)/2 + 2, len(c.Ops)}
		cases[i] = c
	}
	return cases
}

func gen(args []string) {
	fs := flag.NewFlagSet("gen", flag.ExitOnError)
	seed := fs.Int64("seed", 1, "")
	n := fs.Int("cases", 20, "")
	length := fs.Int("len", 12, "")
	reads := fs.Int("reads", 34, "")
	tplRuns := fs.Int("tplruns", 6, "")
	scale := fs.String("scale", "1", "")
	out := fs.String("out", "trace.ndjson", "")
	casesOut := fs.String("cases-out", "", "")
	workers := fs.Int("workers", runtime.NumCPU(), "")
	_ = fs.Parse(args)
	runCases(genCases(*seed, *n, *length, *reads, *tplRuns, *scale), *out, *casesOut, *workers)
}

func runCases(cases []drive.ReadsCase, out, casesOut string, workers int) {
	results := make([][]drive.RLine, len(cases))
	errs := make([]error, len(cases))
	var wg sync.WaitGroup
	sem := make(chan struct{}, workers)
	for i := range cases {
		wg.Add(1)
		sem <- struct{}{}
		go func(i int) {
			defer wg.Done()
			defer func() { <-sem }()
			defer func() {
				if r := recover(); r != nil {
					errs[i] = &drive.Inconclusive{Msg: fmt.Sprintf("harness panic in case %d: %v", cases[i].N, r)}
				}
			}()
			results[i], errs[i] = drive.RunReadsCase(cases[i])
		}(i)
	}
	wg.Wait()
	f, err := os.Create(out)
	if err != nil {
		fmt.Fprintln(os.Stderr, err)
		os.Exit(2)
	}
	defer f.Close()
	sum := summary{Inconclusive: []string{}, Projection: []projFail{}, ByRes: map[string]int{}, ByStatus: map[string]int{}}
	enc := json.NewEncoder(f)
	for i, ls := range results {
		if errs[i] != nil {
			switch e := errs[i].(type) {
			case *drive.ProjectionError:
				sum.Projection = append(sum.Projection, projFail{Case: cases[i].N, Msg: e.Msg})
			default:
				sum.Inconclusive = append(sum.Inconclusive, fmt.Sprintf("case %d: %v", cases[i].N, errs[i]))
			}
			continue
		}
		sum.Cases++
		for _, l := range ls {
			if err := enc.Encode(l); err != nil {
				fmt.Fprintln(os.Stderr, err)
				os.Exit(2)
			}
			if l.Kind != "read" {
				continue
			}
			sum.Reads++
			sum.Requests += len(l.Out.Pages) + 2*len(l.Out.Prevs) + 1
			sum.ByStatus[l.Out.Status]++
			if l.Q.IsTpl {
				sum.Templates++
				sum.ByRes["tpl:"+l.Q.Tpl.Res]++
			} else {
				sum.ByRes[l.Q.Res]++
			}
			if l.Q.Filter.Op != "true" {
				sum.Filtered++
			}
			if l.Q.Pit != 0 || l.Q.Oot != 0 {
				sum.WithPit++
			}
			if len(l.Out.Pages) > 1 {
				sum.MultiPage++
			}
			if l.Out.OD {
				sum.OD++
			}
		}
	}
	if casesOut != "" {
		b, _ := json.Marshal(cases)
		_ = os.WriteFile(casesOut, b, 0o644)
	}
	b, _ := json.Marshal(sum)
	fmt.Println(string(b))
}

func replay(args []string) {
	fs := flag.NewFlagSet("replay", flag.ExitOnError)
	casePath := fs.String("case", "", "")
	out := fs.String("out", "trace.ndjson", "")
	_ = fs.Parse(args)
	b, err := os.ReadFile(*casePath)
	if err != nil {
		fmt.Fprintln(os.Stderr, err)
		os.Exit(2)
	}
	var c drive.ReadsCase
	_ = json.Unmarshal(b, &c)
	if c.Ops == nil {
		var wrap struct {
			Replay struct {
				Case drive.ReadsCase `json:"case"`
			} `json:"replay"`
		}
		if err := json.Unmarshal(b, &wrap); err != nil {
			fmt.Fprintln(os.Stderr, err)
			os.Exit(2)
		}
		c = wrap.Replay.Case
	}
	runCases([]drive.ReadsCase{c}, *out, "", 1)
}
