package main

import (
	"bufio"
	"encoding/json"
	"flag"
	"fmt"
	"os"
	"sync"

	"github.com/formancehq/ledger/verifharness/sysdrive"
)

type summary struct {
	Cases        int            `json:"cases"`
	Steps        int            `json:"steps"`
	Kinds        map[string]int `json:"kinds"`
	Outcomes     map[string]int `json:"outcomes"`
	OpKinds      map[string]int `json:"opKinds"`
	Inconclusive []string       `json:"inconclusive"`
}

// gen: seeded histories -> NDJSON trace + cases file. The last stdout line is a JSON summary.
func gen(args []string) {
	fs := flag.NewFlagSet("gen", flag.ExitOnError)
	seed := fs.Int64("seed", 1, "seed")
	n := fs.Int("cases", 100, "number of histories")
	minLen := fs.Int("min", 6, "minimum length")
	maxLen := fs.Int("max", 14, "maximum length")
	out := fs.String("out", "trace.ndjson", "trace file")
	casesOut := fs.String("cases-out", "cases.json", "cases file")
	workers := fs.Int("workers", 8, "parallel histories")
	directed := fs.Bool("directed", true, "append the directed scenarios")
	_ = fs.Parse(args)

	cases := make([]*sysdrive.Case, 0, *n+1)
	for i := 0; i < *n; i++ {
		s := int64(mix(uint64(*seed)*1000003+uint64(i)) >> 1)
		ln := *minLen + int(mix(uint64(s))%uint64(*maxLen-*minLen+1))
		cases = append(cases, &sysdrive.Case{Case: i + 1, Seed: s, Len: ln})
	}
	if *directed {
		cases = append(cases, sysdrive.Directed(len(cases)+1)...)
	}
	results := make([][]sysdrive.Line, len(cases))
	problems := make([][]string, len(cases))
	var wg sync.WaitGroup
	sem := make(chan struct{}, *workers)
	for i := range cases {
		wg.Add(1)
		sem <- struct{}{}
		go func(i int) {
			defer wg.Done()
			defer func() { <-sem }()
			defer func() {
				if r := recover(); r != nil {
					problems[i] = append(problems[i], fmt.Sprintf("case %d: panic in the harness: %v", cases[i].Case, r))
				}
			}()
			lines, harness, err := sysdrive.RunCase(cases[i])
			if err != nil {
				problems[i] = append(problems[i], fmt.Sprintf("case %d: %v", cases[i].Case, err))
			}
			for _, h := range harness {
				problems[i] = append(problems[i], fmt.Sprintf("case %d: %s", cases[i].Case, h))
			}
			results[i] = lines
		}(i)
	}
	wg.Wait()

	f, err := os.Create(*out)
	if err != nil {
		fmt.Println(err)
		os.Exit(2)
	}
	w := bufio.NewWriterSize(f, 1<<20)
	enc := json.NewEncoder(w)
	sum := summary{Kinds: map[string]int{}, Outcomes: map[string]int{}, OpKinds: map[string]int{}, Inconclusive: []string{}}
	for i, lines := range results {
		sum.Cases++
		sum.Kinds[cases[i].Kind]++
		for _, l := range lines {
			if !l.Reset {
				sum.Steps++
				sum.Outcomes[l.Res.Out]++
				sum.OpKinds[l.Op.K]++
			}
			_ = enc.Encode(l)
		}
		sum.Inconclusive = append(sum.Inconclusive, problems[i]...)
	}
	_ = w.Flush()
	_ = f.Close()
	cf, _ := os.Create(*casesOut)
	_ = json.NewEncoder(cf).Encode(cases)
	_ = cf.Close()
	b, _ := json.Marshal(sum)
	fmt.Println(string(b))
}

// replay: one case (JSON, as stored in the cases file / a replay file) -> trace lines on stdout.
func replay(args []string) {
	fs := flag.NewFlagSet("replay", flag.ExitOnError)
	file := fs.String("case", "", "case file (JSON object with ops)")
	brief := fs.Bool("brief", true, "print op/outcome only")
	_ = fs.Parse(args)
	data, err := os.ReadFile(*file)
	if err != nil {
		fmt.Println(err)
		os.Exit(2)
	}
	var c sysdrive.Case
	if err := json.Unmarshal(data, &c); err != nil {
		// a replay file of checks/: {"replay": {"case": {...}}}
		fmt.Println(err)
		os.Exit(2)
	}
	if len(c.Ops) == 0 {
		var wrap struct {
			Replay struct {
				Case sysdrive.Case `json:"case"`
			} `json:"replay"`
		}
		_ = json.Unmarshal(data, &wrap)
		c = wrap.Replay.Case
	}
	lines, harness, err := sysdrive.RunCase(&c)
	if err != nil {
		fmt.Println(err)
		os.Exit(2)
	}
	for _, l := range lines {
		if *brief {
			if l.Reset {
				continue
			}
			op, _ := json.Marshal(l.Op)
			fmt.Printf("%d %s -> %s %d %s\n", l.I, op, l.Res.Out, l.Res.St, l.Res.Msg)
		} else {
			b, _ := json.Marshal(l)
			fmt.Println(string(b))
		}
	}
	for _, h := range harness {
		fmt.Println("HARNESS:", h)
	}
}

// mix is splitmix64: nearby seeds give unrelated histories.
func mix(x uint64) uint64 {
	x += 0x9e3779b97f4a7c15
	x = (x ^ (x >> 30)) * 0xbf58476d1ce4e5b9
	x = (x ^ (x >> 27)) * 0x94d049bb133111eb
	return x ^ (x >> 31)
}
