// vh-system: system-level (registry / buckets / exporters / pipelines) histories through the real v2 API.
//
//	vh-system probe            reads "METHOD PATH [JSON-BODY]" lines on stdin, prints status and body (dev aid)
//	vh-system gen  ...         seeded histories -> NDJSON trace for spec/TraceSystem.tla
//	vh-system replay -case f   replays one recorded case (JSON) and prints the trace lines
package main

import (
	"bufio"
	"fmt"
	"os"
	"strings"

	"github.com/formancehq/ledger/verifharness/sysdrive"
)

func main() {
	if len(os.Args) < 2 {
		fmt.Fprintln(os.Stderr, "usage: vh-system probe|gen|replay")
		os.Exit(2)
	}
	switch os.Args[1] {
	case "probe":
		probe()
	case "gen":
		gen(os.Args[2:])
	case "replay":
		replay(os.Args[2:])
	default:
		fmt.Fprintln(os.Stderr, "unknown mode "+os.Args[1])
		os.Exit(2)
	}
}

func probe() {
	e, err := sysdrive.NewEnv(sysdrive.EnvOptions{Fresh: os.Getenv("VH_FRESH") != ""})
	if err != nil {
		fmt.Println("boot error:", err)
		os.Exit(2)
	}
	defer e.Close()
	sc := bufio.NewScanner(os.Stdin)
	sc.Buffer(make([]byte, 1<<20), 1<<20)
	var ids []string
	for sc.Scan() {
		line := strings.TrimSpace(sc.Text())
		if line == "" || strings.HasPrefix(line, "#") {
			continue
		}
		for i := len(ids); i >= 1; i-- { // $N = id returned by the N-th 201 response
			line = strings.ReplaceAll(line, fmt.Sprintf("$%d", i), ids[i-1])
		}
		parts := strings.SplitN(line, " ", 3)
		var body any
		if len(parts) == 3 {
			body = parts[2]
		}
		if len(parts) < 2 {
			continue
		}
		r := e.Do(parts[0], parts[1], body)
		b := string(r.Body)
		if r.Status == 201 {
			if k := strings.Index(b, `"id":"`); k >= 0 {
				rest := b[k+6:]
				ids = append(ids, rest[:strings.Index(rest, `"`)])
			}
		}
		if len(b) > 900 {
			b = b[:900] + "..."
		}
		fmt.Printf("%s %s -> %d %s\n", parts[0], parts[1], r.Status, b)
		e.Tick()
	}
	if u := e.PG.UnsupportedSeen(); len(u) > 0 {
		fmt.Println("UNSUPPORTED:", u)
	}
}
