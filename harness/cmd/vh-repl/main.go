// vh-repl: scenario driver for property C33 (replication).  It runs the real replication.Manager of
// /repo over the in-memory storage / recording exporter of package repl and writes
//
//	-out      NDJSON, one line per stamped event, with "t" = index of the scenario in this run
//	-results  NDJSON, one line per scenario: parameters, status, oracle findings, final observation
//
// Sub-commands:
//
//	random   -seed S -n N            N seeded random scenarios (scenario i uses seed S*1000003+i)
//	one      -params '<json>'        one random scenario from explicit parameters (replay of a finding)
//	schedule -in schedules.json      replay schedules (behaviours of spec/Replication.tla) through the gates
package main

import (
	"bufio"
	"encoding/json"
	"flag"
	"fmt"
	"os"

	"github.com/formancehq/ledger/verifharness/repl"
)

type line struct {
	T int `json:"t"`
	repl.Event
}

func main() {
	if len(os.Args) < 2 {
		fmt.Fprintln(os.Stderr, "usage: vh-repl random|one|schedule ...")
		os.Exit(2)
	}
	cmd := os.Args[1]
	fs := flag.NewFlagSet(cmd, flag.ExitOnError)
	seed := fs.Int64("seed", 1, "base seed")
	n := fs.Int("n", 10, "number of scenarios")
	out := fs.String("out", "", "events NDJSON")
	results := fs.String("results", "", "results NDJSON")
	params := fs.String("params", "", "RandomParams JSON (one)")
	in := fs.String("in", "", "schedules JSON (schedule)")
	_ = fs.Parse(os.Args[2:])

	var evw, resw *bufio.Writer
	if *out != "" {
		f, err := os.Create(*out)
		if err != nil {
			fmt.Fprintln(os.Stderr, err)
			os.Exit(2)
		}
		defer f.Close()
		evw = bufio.NewWriter(f)
		defer evw.Flush()
	}
	if *results != "" {
		f, err := os.Create(*results)
		if err != nil {
			fmt.Fprintln(os.Stderr, err)
			os.Exit(2)
		}
		defer f.Close()
		resw = bufio.NewWriter(f)
		defer resw.Flush()
	} else {
		resw = bufio.NewWriter(os.Stdout)
		defer resw.Flush()
	}
	emit := func(t int, r repl.Result) {
		if evw != nil {
			for _, e := range r.Events {
				b, _ := json.Marshal(line{T: t, Event: e})
				evw.Write(b)
				evw.WriteByte('\n')
			}
		}
		b, _ := json.Marshal(struct {
			T int `json:"t"`
			repl.Result
		}{t, r})
		resw.Write(b)
		resw.WriteByte('\n')
	}

	switch cmd {
	case "random":
		for i := 0; i < *n; i++ {
			s := *seed*1000003 + int64(i)
			p := repl.GenRandomParams(s)
			emit(i, repl.RunRandom(fmt.Sprintf("r%d", s), p))
		}
	case "one":
		var p repl.RandomParams
		if err := json.Unmarshal([]byte(*params), &p); err != nil {
			fmt.Fprintln(os.Stderr, "bad -params:", err)
			os.Exit(2)
		}
		for i := 0; i < *n; i++ {
			emit(i, repl.RunRandom(fmt.Sprintf("r%d", p.Seed), p))
		}
	case "schedule":
		b, err := os.ReadFile(*in)
		if err != nil {
			fmt.Fprintln(os.Stderr, err)
			os.Exit(2)
		}
		var scheds []repl.Schedule
		if err := json.Unmarshal(b, &scheds); err != nil {
			fmt.Fprintln(os.Stderr, "bad schedules:", err)
			os.Exit(2)
		}
		for i, s := range scheds {
			emit(i, repl.RunSchedule(s))
		}
	default:
		fmt.Fprintln(os.Stderr, "unknown sub-command", cmd)
		os.Exit(2)
	}
}
