// vh-api drives the real HTTP API (in process, over pgmodel) for the API-level properties C07, C31, C32,
// C36 and C38. It executes cases and records observations; every expected outcome comes from TLC.
//
//	vh-api faults   -measure -out programs.json                      measured statement programs of the write catalogue
//	vh-api faults   -cases cases.json -out results.json              replay (request, fault position, error kind) cases
//	vh-api events   -cases cells.json -out trace.ndjson              C31 matrix cells -> bulk-trace lines
//	vh-api bulk     -cases cases.json -out results.json              Flow A bulk cases (+ stand-alone twin)
//	vh-api bulk     -random -seed S -cases N -len L -out trace.ndjson -cases-out cases.json
//	vh-api bulk     -order -out order.json                           parallel bulk with forced out-of-order completion
//	vh-api requests -describe -out routes.json | -cases cases.json -out results.json
//	vh-api amounts  -seed S -cases N -len L -scales a,b -vias x,y -out trace.ndjson | -probe -out probes.json
//	vh-api --replay replay.json                                      re-run the case recorded in a replay file
package main

import (
	"context"
	"encoding/json"
	"flag"
	"fmt"
	"io"
	"log"
	"math/big"
	"os"
	"runtime"
	"strings"
	"sync"

	"github.com/sirupsen/logrus"

	"github.com/formancehq/ledger/verifharness/drive"
)

func main() {
	log.SetOutput(io.Discard)
	logrus.SetOutput(io.Discard)
	if len(os.Args) < 2 {
		fmt.Fprintln(os.Stderr, "usage: vh-api faults|events|bulk|requests|amounts|--replay ...")
		os.Exit(2)
	}
	switch os.Args[1] {
	case "faults":
		faults(os.Args[2:])
	case "events":
		events(os.Args[2:])
	case "bulk":
		bulk(os.Args[2:])
	case "requests":
		requests(os.Args[2:])
	case "amounts":
		amounts(os.Args[2:])
	case "--replay", "replay":
		replay(os.Args[2:])
	default:
		fmt.Fprintln(os.Stderr, "unknown sub-command", os.Args[1])
		os.Exit(2)
	}
}

func die(err error) {
	fmt.Fprintln(os.Stderr, "vh-api:", err)
	os.Exit(2)
}

func readJSON(path string, v any) {
	b, err := os.ReadFile(path)
	if err != nil {
		die(err)
	}
	dec := json.NewDecoder(strings.NewReader(string(b)))
	if err := dec.Decode(v); err != nil {
		die(fmt.Errorf("%s: %w", path, err))
	}
}

func writeJSON(path string, v any) {
	b, err := json.Marshal(v)
	if err != nil {
		die(err)
	}
	if path == "" || path == "-" {
		fmt.Println(string(b))
		return
	}
	if err := os.WriteFile(path, b, 0o644); err != nil {
		die(err)
	}
}

// parallel runs fn(i) for i in [0,n) on `workers` goroutines; a panic in fn is reported through onPanic.
func parallel(n, workers int, fn func(i int), onPanic func(i int, r any)) {
	var wg sync.WaitGroup
	sem := make(chan struct{}, workers)
	for i := 0; i < n; i++ {
		wg.Add(1)
		sem <- struct{}{}
		go func(i int) {
			defer wg.Done()
			defer func() { <-sem }()
			defer func() {
				if r := recover(); r != nil {
					onPanic(i, r)
				}
			}()
			fn(i)
		}(i)
	}
	wg.Wait()
}

func featuresOf(name string) map[string]string {
	switch name {
	case "", "default":
		return nil
	case "minimal":
		return map[string]string{"MOVES_HISTORY": "OFF", "MOVES_HISTORY_POST_COMMIT_EFFECTIVE_VOLUMES": "DISABLED", "HASH_LOGS": "DISABLED",
			"ACCOUNT_METADATA_HISTORY": "DISABLED", "TRANSACTION_METADATA_HISTORY": "DISABLED"}
	case "asynchash":
		return map[string]string{"HASH_LOGS": "ASYNC"}
	}
	die(fmt.Errorf("unknown feature set %q", name))
	return nil
}

// ---------------------------------------------------------------------------- faults (C07)

type measured struct {
	Name    string        `json:"name"`
	Ctx     string        `json:"ctx"`
	Feat    string        `json:"feat"`
	Program drive.Program `json:"program"`
	Req     drive.Req     `json:"req"`
	Err     string        `json:"err,omitempty"`
}

type faultCase struct {
	ID   int    `json:"id"`
	Name string `json:"name"`
	Ctx  string `json:"ctx"`
	Feat string `json:"feat"`
	Dry  bool   `json:"dry"`
	At   int    `json:"at"`
	Kind string `json:"kind"`
}

type faultResult struct {
	ID  int            `json:"id"`
	Obs drive.FaultObs `json:"obs"`
}

func catalogueEntry(name, ctx string) (drive.CatEntry, bool) {
	for _, e := range drive.Catalogue() {
		if e.Name == name && e.Ctx == ctx {
			return e, true
		}
	}
	return drive.CatEntry{}, false
}

func faults(args []string) {
	fs := flag.NewFlagSet("faults", flag.ExitOnError)
	measure := fs.Bool("measure", false, "")
	feats := fs.String("features", "default", "comma separated feature sets")
	casesPath := fs.String("cases", "", "")
	out := fs.String("out", "-", "")
	workers := fs.Int("workers", runtime.NumCPU(), "")
	_ = fs.Parse(args)
	if *measure {
		var res []measured
		for _, feat := range strings.Split(*feats, ",") {
			for _, e := range drive.Catalogue() {
				for _, dry := range []bool{false, true} {
					if dry && e.Req.K != "single" {
						continue
					}
					m := measured{Name: e.Name, Ctx: e.Ctx, Feat: feat}
					rq := e.Req
					rq.Dry = dry
					m.Req = rq
					base, err := drive.BuildBase(e.Prefix, featuresOf(feat), "1")
					if err != nil {
						m.Err = err.Error()
						res = append(res, m)
						continue
					}
					p, err := drive.Measure(base, "fw", rq)
					if err != nil {
						m.Err = err.Error()
					}
					if u := base.PG.UnsupportedSeen(); len(u) > 0 {
						m.Err = fmt.Sprintf("unsupported SQL in pgmodel: %v", u)
					}
					m.Program = p
					drive.CloseBase(base)
					res = append(res, m)
				}
			}
		}
		writeJSON(*out, res)
		return
	}
	var cases []faultCase
	readJSON(*casesPath, &cases)
	results := make([]faultResult, len(cases))
	// one base per (name, ctx, feat), built lazily and shared read-only (every run happens on a Fork)
	type baseT struct {
		once sync.Once
		env  *drive.Env
		snap drive.Snapshot
		obs  drive.LedgerObs
		err  error
		mu   sync.Mutex
		// clean programs (per dryRun flag), measured in this process: snapshot hashes are not comparable
		// across processes (wall-clock columns of the system schema)
		progOnce [2]sync.Once
		prog     [2]drive.Program
		progErr  [2]error
	}
	bases := map[string]*baseT{}
	for _, c := range cases {
		k := c.Name + "|" + c.Ctx + "|" + c.Feat
		if bases[k] == nil {
			bases[k] = &baseT{}
		}
	}
	parallel(len(cases), *workers, func(i int) {
		c := cases[i]
		results[i].ID = c.ID
		e, ok := catalogueEntry(c.Name, c.Ctx)
		if !ok {
			results[i].Obs.Incon = "unknown catalogue entry " + c.Name + "/" + c.Ctx
			return
		}
		b := bases[c.Name+"|"+c.Ctx+"|"+c.Feat]
		b.once.Do(func() {
			b.env, b.err = drive.BuildBase(e.Prefix, featuresOf(c.Feat), "1")
			if b.err == nil {
				if b.snap, b.err = b.env.Snapshot(); b.err == nil {
					b.obs, b.err = b.env.Observe("l1")
				}
			}
		})
		if b.err != nil {
			results[i].Obs.Incon = "base: " + b.err.Error()
			return
		}
		rq := e.Req
		rq.Dry = c.Dry
		di := 0
		if c.Dry {
			di = 1
		}
		b.progOnce[di].Do(func() { b.prog[di], b.progErr[di] = drive.Measure(b.env, "fw", rq) })
		if b.progErr[di] != nil {
			results[i].Obs.Incon = "measure: " + b.progErr[di].Error()
			return
		}
		obs := drive.RunFaulted(b.env, b.snap, b.obs, "fw", rq, c.At, c.Kind, false, true)
		obs.StateIdx, obs.RowsIdx = []int{}, []int{}
		for j, h := range b.prog[di].Hashes {
			if h == obs.Hash {
				obs.StateIdx = append(obs.StateIdx, j)
			}
			if j < len(b.prog[di].Counts) && b.prog[di].Counts[j] == obs.Counts {
				obs.RowsIdx = append(obs.RowsIdx, j)
			}
		}
		results[i].Obs = obs
	}, func(i int, r any) {
		results[i].ID = cases[i].ID
		results[i].Obs.Incon = fmt.Sprintf("harness panic: %v", r)
	})
	for _, b := range bases {
		if b.env != nil {
			drive.CloseBase(b.env)
		}
	}
	writeJSON(*out, results)
}

// ---------------------------------------------------------------------------- events (C31)

// cell: one matrix cell printed by TLC (spec/MC_Events.tla)
type cell struct {
	ID     int        `json:"id"`
	Cell   string     `json:"cell"`
	Prefix []drive.Op `json:"prefix"`
	Req    drive.Req  `json:"req"`
}

func events(args []string) {
	fs := flag.NewFlagSet("events", flag.ExitOnError)
	casesPath := fs.String("cases", "", "")
	out := fs.String("out", "trace.ndjson", "")
	workers := fs.Int("workers", runtime.NumCPU(), "")
	_ = fs.Parse(args)
	var cells []cell
	readJSON(*casesPath, &cells)
	results := make([][]drive.BLine, len(cells))
	errs := make([]string, len(cells))
	parallel(len(cells), *workers, func(i int) {
		c := cells[i]
		// the prefix is expressed as single requests so that the whole history is one trace
		var reqs []drive.Req
		for _, op := range c.Prefix {
			reqs = append(reqs, drive.Req{K: "single", L: "l1", Now: op.Now, Els: []drive.Op{op}})
		}
		reqs = append(reqs, c.Req)
		lines, err := drive.RunReqCase(drive.ReqCase{N: c.ID, Scale: "1", Reqs: reqs, Cell: c.Cell})
		if err != nil {
			errs[i] = err.Error()
			return
		}
		results[i] = lines
	}, func(i int, r any) { errs[i] = fmt.Sprintf("INCONCLUSIVE: harness panic: %v", r) })
	writeLines(*out, results, errs, cellIDs(cells))
}

func cellIDs(cells []cell) []int {
	ids := make([]int, len(cells))
	for i, c := range cells {
		ids[i] = c.ID
	}
	return ids
}

type runSummary struct {
	Cases        int      `json:"cases"`
	Lines        int      `json:"lines"`
	Inconclusive []string `json:"inconclusive"`
	Projection   []string `json:"projection"`
}

func writeLines[T any](out string, results [][]T, errs []string, ids []int) {
	f, err := os.Create(out)
	if err != nil {
		die(err)
	}
	defer f.Close()
	enc := json.NewEncoder(f)
	sum := runSummary{Inconclusive: []string{}, Projection: []string{}}
	for i, ls := range results {
		if errs[i] != "" {
			msg := fmt.Sprintf("case %d: %s", ids[i], errs[i])
			if strings.HasPrefix(errs[i], "projection:") {
				sum.Projection = append(sum.Projection, msg)
			} else {
				sum.Inconclusive = append(sum.Inconclusive, msg)
			}
			continue
		}
		sum.Cases++
		for _, l := range ls {
			sum.Lines++
			if err := enc.Encode(l); err != nil {
				die(err)
			}
		}
	}
	b, _ := json.Marshal(sum)
	fmt.Println(string(b))
}

// ---------------------------------------------------------------------------- bulk (C32)

func bulk(args []string) {
	fs := flag.NewFlagSet("bulk", flag.ExitOnError)
	casesPath := fs.String("cases", "", "")
	out := fs.String("out", "-", "")
	random := fs.Bool("random", false, "")
	order := fs.Bool("order", false, "")
	seed := fs.Int64("seed", 1, "")
	n := fs.Int("n", 40, "number of random histories")
	length := fs.Int("len", 5, "requests per history")
	casesOut := fs.String("cases-out", "", "")
	workers := fs.Int("workers", runtime.NumCPU(), "")
	_ = fs.Parse(args)
	switch {
	case *order:
		res := []drive.ParallelOrderObs{drive.RunParallelOrder(true), drive.RunParallelOrder(false)}
		writeJSON(*out, res)
	case *random:
		cases := make([]drive.ReqCase, *n)
		for i := range cases {
			cs := *seed*1000003 + int64(i)
			cases[i] = drive.ReqCase{N: i + 1, Seed: cs, Scale: "1", Reqs: drive.GenBulkHistory(cs, *length)}
		}
		runReqCases(cases, *out, *workers)
		if *casesOut != "" {
			writeJSON(*casesOut, cases)
		}
	default:
		var cases []drive.BulkCase
		readJSON(*casesPath, &cases)
		results := make([]drive.BulkObs, len(cases))
		parallel(len(cases), *workers, func(i int) {
			results[i] = drive.RunBulkCase(cases[i])
		}, func(i int, r any) {
			results[i] = drive.BulkObs{ID: cases[i].ID, Incon: fmt.Sprintf("harness panic: %v", r)}
		})
		writeJSON(*out, results)
	}
}

func runReqCases(cases []drive.ReqCase, out string, workers int) {
	results := make([][]drive.BLine, len(cases))
	errs := make([]string, len(cases))
	ids := make([]int, len(cases))
	for i := range cases {
		ids[i] = cases[i].N
	}
	parallel(len(cases), workers, func(i int) {
		lines, err := drive.RunReqCase(cases[i])
		if err != nil {
			errs[i] = err.Error()
			return
		}
		results[i] = lines
	}, func(i int, r any) { errs[i] = fmt.Sprintf("INCONCLUSIVE: harness panic: %v", r) })
	writeLines(out, results, errs, ids)
}

// ---------------------------------------------------------------------------- requests (C38)

func requests(args []string) {
	fs := flag.NewFlagSet("requests", flag.ExitOnError)
	describe := fs.Bool("describe", false, "")
	casesPath := fs.String("cases", "", "")
	out := fs.String("out", "-", "")
	workers := fs.Int("workers", runtime.NumCPU(), "")
	_ = fs.Parse(args)
	if *describe {
		writeJSON(*out, drive.DescribeRoutes())
		return
	}
	var cases []drive.ShapeCase
	readJSON(*casesPath, &cases)
	// v1 creates unknown ledgers on the fly in the default bucket: migrate it once, with the others
	drive.BootBuckets = []string{"b1", "b2", "_default"}
	base, err := drive.ShapeBase()
	if err != nil {
		die(err)
	}
	defer drive.CloseBase(base)
	snap, err := base.Snapshot()
	if err != nil {
		die(err)
	}
	hash := snap.Hash()
	results := make([]drive.ShapeObs, len(cases))
	parallel(len(cases), *workers, func(i int) {
		results[i] = drive.RunShape(base, hash, snap, cases[i])
	}, func(i int, r any) {
		results[i] = drive.ShapeObs{ID: cases[i].ID, Incon: fmt.Sprintf("harness panic: %v", r)}
	})
	writeJSON(*out, results)
}

// ---------------------------------------------------------------------------- amounts (C36)

func amounts(args []string) {
	fs := flag.NewFlagSet("amounts", flag.ExitOnError)
	seed := fs.Int64("seed", 1, "")
	n := fs.Int("n", 3, "abstract histories")
	length := fs.Int("len", 6, "")
	scales := fs.String("scales", "1,2p53", "")
	vias := fs.String("vias", "v2", "")
	out := fs.String("out", "trace.ndjson", "")
	casesOut := fs.String("cases-out", "", "")
	probe := fs.Bool("probe", false, "")
	workers := fs.Int("workers", runtime.NumCPU(), "")
	_ = fs.Parse(args)
	if *probe {
		var res []map[string]any
		for _, via := range strings.Split(*vias, ",") {
			for _, sc := range strings.Split(*scales, ",") {
				amt := drive.NewScale(sc).B
				r, err := drive.ProbeAmount(via, new(big.Int).Set(amt))
				if err != nil {
					r = map[string]any{"via": via, "sent": amt.String(), "error": err.Error()}
				}
				res = append(res, r)
			}
		}
		writeJSON(*out, res)
		return
	}
	var cases []drive.AmtCase
	id := 0
	for h := 0; h < *n; h++ {
		hs := *seed*1000003 + int64(h)
		ops := drive.AmountHistory(hs, *length)
		for _, via := range strings.Split(*vias, ",") {
			for _, sc := range strings.Split(*scales, ",") {
				id++
				cases = append(cases, drive.AmtCase{N: id, Seed: hs, Scale: sc, Via: via, Ops: ops})
			}
		}
	}
	results := make([][]drive.AmtLine, len(cases))
	errs := make([]string, len(cases))
	ids := make([]int, len(cases))
	for i := range cases {
		ids[i] = cases[i].N
	}
	parallel(len(cases), *workers, func(i int) {
		lines, err := drive.RunAmountCase(cases[i])
		if err != nil {
			errs[i] = err.Error()
			return
		}
		results[i] = lines
	}, func(i int, r any) { errs[i] = fmt.Sprintf("INCONCLUSIVE: harness panic: %v", r) })
	writeLines(*out, results, errs, ids)
	if *casesOut != "" {
		writeJSON(*casesOut, cases)
	}
}

// ---------------------------------------------------------------------------- replay

// replay re-runs the case of a replay file written by a check (replays/<ID>-<hash>.json) and prints the
// fresh observation. The `kind` member of the replay object selects the runner.
func replay(args []string) {
	if len(args) < 1 {
		die(fmt.Errorf("usage: vh-api --replay <file>"))
	}
	var wrap struct {
		Replay json.RawMessage `json:"replay"`
	}
	readJSON(args[0], &wrap)
	raw := wrap.Replay
	if raw == nil {
		b, _ := os.ReadFile(args[0])
		raw = b
	}
	var head struct {
		Kind string `json:"kind"`
	}
	_ = json.Unmarshal(raw, &head)
	switch head.Kind {
	case "fault":
		var r struct {
			Case faultCase `json:"case"`
		}
		_ = json.Unmarshal(raw, &r)
		e, ok := catalogueEntry(r.Case.Name, r.Case.Ctx)
		if !ok {
			die(fmt.Errorf("unknown catalogue entry"))
		}
		base, err := drive.BuildBase(e.Prefix, featuresOf(r.Case.Feat), "1")
		if err != nil {
			die(err)
		}
		snap, _ := base.Snapshot()
		obs, _ := base.Observe("l1")
		rq := e.Req
		rq.Dry = r.Case.Dry
		writeJSON("-", drive.RunFaulted(base, snap, obs, "fw", rq, r.Case.At, r.Case.Kind, false, true))
	case "bulk":
		var r struct {
			Case drive.BulkCase `json:"case"`
		}
		_ = json.Unmarshal(raw, &r)
		writeJSON("-", drive.RunBulkCase(r.Case))
	case "bulk-order":
		writeJSON("-", []drive.ParallelOrderObs{drive.RunParallelOrder(true)})
	case "reqcase":
		var r struct {
			Case drive.ReqCase `json:"case"`
		}
		_ = json.Unmarshal(raw, &r)
		lines, err := drive.RunReqCase(r.Case)
		if err != nil {
			die(err)
		}
		enc := json.NewEncoder(os.Stdout)
		for _, l := range lines {
			_ = enc.Encode(l)
		}
	case "shape":
		var r struct {
			Case drive.ShapeCase `json:"case"`
		}
		_ = json.Unmarshal(raw, &r)
		drive.BootBuckets = []string{"b1", "b2", "_default"}
		base, err := drive.ShapeBase()
		if err != nil {
			die(err)
		}
		snap, _ := base.Snapshot()
		writeJSON("-", drive.RunShape(base, snap.Hash(), snap, r.Case))
	case "amounts":
		var r struct {
			Case drive.AmtCase `json:"case"`
		}
		_ = json.Unmarshal(raw, &r)
		lines, err := drive.RunAmountCase(r.Case)
		if err != nil {
			fmt.Println(err.Error())
			return
		}
		enc := json.NewEncoder(os.Stdout)
		for _, l := range lines {
			_ = enc.Encode(l)
		}
	case "probe":
		var r struct {
			Via    string `json:"via"`
			Amount string `json:"amount"`
		}
		_ = json.Unmarshal(raw, &r)
		a, _ := new(big.Int).SetString(r.Amount, 10)
		res, err := drive.ProbeAmount(r.Via, a)
		if err != nil {
			die(err)
		}
		writeJSON("-", res)
	default:
		die(fmt.Errorf("replay kind %q is not handled by vh-api (ledgerseq replays: vh-ledger replay)", head.Kind))
	}
	_ = context.Background
}
