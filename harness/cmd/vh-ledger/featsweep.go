package main

import (
	"encoding/json"
	"flag"
	"fmt"
	"os"
	"runtime"
	"sync"

	"github.com/formancehq/ledger/verifharness/drive"
)

// featsweep: the SAME seeded history under all 48 feature combinations. Every run is an ordinary case
// (validated by TraceLedger as usual); in addition one auxiliary line per history carries the 48 core
// projections (must be identical: C35) and, per combination, the outcome class of reads that need a
// feature (must be rejected exactly when the feature is off).
//
//	vh-ledger featsweep -seed S -histories N -len L -out trace.ndjson -cases-out cases.json
func featsweep(args []string) {
	fs := flag.NewFlagSet("featsweep", flag.ExitOnError)
	seed := fs.Int64("seed", 1, "")
	n := fs.Int("histories", 3, "")
	length := fs.Int("len", 8, "")
	scale := fs.String("scale", "1", "")
	out := fs.String("out", "trace.ndjson", "")
	casesOut := fs.String("cases-out", "", "")
	workers := fs.Int("workers", runtime.NumCPU(), "")
	caseSeed := fs.Int64("case-seed", 0, "replay: run the one history generated from this case seed (as recorded in a replay file)")
	_ = fs.Parse(args)

	fsets := drive.AllFeatureSets()
	var cases []drive.Case
	if *caseSeed != 0 {
		*n = 1
	}
	for h := 0; h < *n; h++ {
		cs := *seed*1000003 + int64(h)
		if *caseSeed != 0 {
			cs = *caseSeed
		}
		ops := drive.NewGen(cs, "l1").History(*length)
		for _, f := range fsets {
			cases = append(cases, drive.Case{N: len(cases) + 1, Seed: cs, Scale: *scale, Ops: ops, Group: h + 1,
				Ledgers: []drive.CaseLedger{{Name: "l1", Bucket: "b1", Features: f}}, FeatureReads: true})
		}
	}
	results := make([][]drive.Line, len(cases))
	errs := make([]error, len(cases))
	var wg sync.WaitGroup
	sem := make(chan struct{}, *workers)
	for i := range cases {
		wg.Add(1)
		sem <- struct{}{}
		go func(i int) {
			defer wg.Done()
			defer func() { <-sem }()
			defer func() {
				if r := recover(); r != nil {
					errs[i] = &drive.Inconclusive{Msg: fmt.Sprintf("harness panic in case %d: %v", cases[i].N, r)}
				}
			}()
			results[i], errs[i] = drive.RunCase(cases[i])
		}(i)
	}
	wg.Wait()
	f, err := os.Create(*out)
	if err != nil {
		fmt.Fprintln(os.Stderr, err)
		os.Exit(2)
	}
	defer f.Close()
	sum := summary{Inconclusive: []string{}, Projection: []projFail{}, Notes: []string{}}
	per := len(fsets)
	for h := 0; h < *n; h++ {
		var cores []drive.Core
		var freads []drive.FeatRead
		okGroup := true
		for k := 0; k < per; k++ {
			i := h*per + k
			if errs[i] != nil {
				okGroup = false
				switch e := errs[i].(type) {
				case *drive.ProjectionError:
					sum.Projection = append(sum.Projection, projFail{Case: cases[i].N, Msg: e.Msg})
				default:
					sum.Inconclusive = append(sum.Inconclusive, fmt.Sprintf("case %d: %v", cases[i].N, errs[i]))
				}
				continue
			}
			ls := results[i]
			last := ls[len(ls)-1]
			cores = append(cores, drive.CoreOf(last.St["l1"]))
			freads = append(freads, last.FRead...)
			for j := range ls {
				ls[j].FRead = nil
			}
			sum.Cases++
			sum.Steps += len(ls) - 1
			if err := drive.WriteLines(f, ls); err != nil {
				fmt.Fprintln(os.Stderr, err)
				os.Exit(2)
			}
		}
		if okGroup {
			// the group line follows the last case of the group; it is a reset-like auxiliary line
			g := drive.Line{Case: cases[h*per].N, Aux: true, Group: true, Cores: cores, FRead: freads,
				St: results[h*per+per-1][len(results[h*per+per-1])-1].St}
			g.Op.L = "l1"
			if err := drive.WriteLines(f, []drive.Line{g}); err != nil {
				fmt.Fprintln(os.Stderr, err)
				os.Exit(2)
			}
		}
	}
	if *casesOut != "" {
		b, _ := json.Marshal(cases)
		_ = os.WriteFile(*casesOut, b, 0o644)
	}
	b, _ := json.Marshal(sum)
	fmt.Println(string(b))
}
