// vh-ledger drives the real ledger stack (over pgmodel) and writes NDJSON traces for TLC.
//
//	vh-ledger seq    -seed S -cases N -len L -scale NAME -out trace.ndjson -cases-out cases.json
//	vh-ledger replay -case case.json -out trace.ndjson
package main

import (
	"encoding/json"
	"flag"
	"fmt"
	"io"
	"log"
	"os"
	"runtime"
	"sync"

	"github.com/sirupsen/logrus"

	"github.com/formancehq/ledger/verifharness/drive"
)

func main() {
	log.SetOutput(io.Discard)
	logrus.SetOutput(io.Discard)
	if len(os.Args) < 2 {
		fmt.Fprintln(os.Stderr, "usage: vh-ledger seq|replay ...")
		os.Exit(2)
	}
	switch os.Args[1] {
	case "seq":
		seq(os.Args[2:])
	case "replay":
		replay(os.Args[2:])
	case "conc":
		conc(os.Args[2:])
	case "featsweep":
		featsweep(os.Args[2:])
	default:
		fmt.Fprintln(os.Stderr, "unknown sub-command", os.Args[1])
		os.Exit(2)
	}
}

type summary struct {
	Cases        int      `json:"cases"`
	Steps        int      `json:"steps"`
	Committed    int      `json:"committed"`
	Failed       int      `json:"failed"`
	Inconclusive []string `json:"inconclusive"`
	Projection   []projFail `json:"projection"`
	Notes        []string `json:"notes"`
}

type projFail struct {
	Case int    `json:"case"`
	Msg  string `json:"msg"`
}

func genCases(seed int64, n, length int, scale string, multi bool, features string) []drive.Case {
	cases := make([]drive.Case, n)
	fsets := drive.AllFeatureSets()
	for i := range cases {
		cs := seed*1000003 + int64(i)
		g := drive.NewGen(cs, "l1")
		c := drive.Case{N: i + 1, Seed: cs, Scale: scale}
		if multi {
			// three ledgers with the same account names, references and idempotency keys: l1 and l2 share
			// bucket b1 (l2 is created in the middle of the history, so l1 stops being alone in its bucket),
			// l3 is alone in b2
			mid := 2 + int(cs%3)
			gens := map[string]*drive.Gen{"l1": g, "l2": drive.NewGen(cs+7, "l2"), "l3": drive.NewGen(cs+13, "l3")}
			steps := map[string]int{}
			pick := drive.NewGen(cs+29, "pick")
			for k := 0; k < length; k++ {
				names := []string{"l1", "l3"}
				if k >= mid {
					names = append(names, "l2")
				}
				ln := names[pick.R.Intn(len(names))]
				op := gens[ln].Next(steps[ln])
				steps[ln]++
				op.Now = 1 + k/2 // one shared clock
				if op.Ts > 9 {
					op.Ts = 9
				}
				c.Ops = append(c.Ops, op)
			}
			c.Ledgers = []drive.CaseLedger{{Name: "l1", Bucket: "b1"}, {Name: "l2", Bucket: "b1", CreateAt: mid}, {Name: "l3", Bucket: "b2"}}
			cases[i] = c
			continue
		}
		if features == "directed" {
			// hand-shaped micro-histories for situations the random generator reaches too rarely
			mk := func(k string, now int, f func(o *drive.Op)) drive.Op {
				o := drive.Op{K: k, L: "l1", Now: now}
				f(&o)
				o.Norm()
				o.IKIn = 700 + len(c.Ops)
				return o
			}
			acct := []string{"alice", "zed", "orders:1", "zz:9"}[i%4] // before and after "world" in every order
			n := 3 + i%3
			switch (i / 4) % 2 {
			case 0:
				// a non-forced revert whose reversal would overdraw a destination that has spent the funds, the
				// reverted transaction also paying world: refused every time it is tried (the refusal must not depend
				// on the order in which the accounts are examined)
				c.Ops = append(c.Ops,
					mk("create", 1, func(o *drive.Op) { o.Ps = []drive.Posting{{S: "world", D: "bob", As: "USD", N: n}} }),
					mk("create", 2, func(o *drive.Op) {
						o.Ps = []drive.Posting{{S: "bob", D: acct, As: "USD", N: n}, {S: acct, D: "world", As: "USD", N: 1}}
					}),
					mk("create", 3, func(o *drive.Op) { o.Ps = []drive.Posting{{S: acct, D: "carol", As: "USD", N: n - 1}} }))
				for k := 0; k < 8; k++ {
					c.Ops = append(c.Ops, mk("revert", 4+k/2, func(o *drive.Op) { o.ID = 2 }))
				}
			default:
				// the same with two assets and world as a destination of the other asset
				c.Ops = append(c.Ops,
					mk("create", 1, func(o *drive.Op) {
						o.Ps = []drive.Posting{{S: "world", D: "bob", As: "USD", N: n}, {S: "world", D: "bob", As: "EUR/2", N: 2}}
					}),
					mk("create", 2, func(o *drive.Op) {
						o.Ps = []drive.Posting{{S: "bob", D: acct, As: "USD", N: n}, {S: "bob", D: "world", As: "EUR/2", N: 2}}
					}),
					mk("create", 3, func(o *drive.Op) { o.Ps = []drive.Posting{{S: acct, D: "carol", As: "USD", N: n}} }))
				for k := 0; k < 8; k++ {
					c.Ops = append(c.Ops, mk("revert", 4+k/2, func(o *drive.Op) { o.ID = 2 }))
				}
			}
			c.Ledgers = []drive.CaseLedger{{Name: "l1", Bucket: "b1"}}
			cases[i] = c
			continue
		}
		if features == "strings" {
			// ordinary histories whose metadata values need JSON escaping or are not ASCII (C09: the stored hash is
			// computed by the SQL trigger from the memento column, the expected one by Log.ComputeHash)
			g.Vals = drive.AdversarialVals
			c.Ops = g.History(length)
			c.Ledgers = []drive.CaseLedger{{Name: "l1", Bucket: "b1"}}
			cases[i] = c
			continue
		}
		if features == "blocks" {
			// C34: two ledgers with HASH_LOGS=ASYNC in one bucket (and a third without, which must get no
			// block); the block builder runs at random points with random maximal block sizes, and at the end
			async := map[string]string{"HASH_LOGS": "ASYNC"}
			gens := map[string]*drive.Gen{"l1": g, "l2": drive.NewGen(cs+7, "l2"), "l3": drive.NewGen(cs+13, "l3")}
			for _, x := range gens {
				x.Vals = drive.AdversarialVals // mementos with escapes and non-ASCII bytes go through the digest
			}
			steps := map[string]int{}
			pick := drive.NewGen(cs+29, "pick")
			names := []string{"l1", "l2", "l3"}
			for k := 0; k < length; k++ {
				if pick.R.Intn(4) == 0 {
					c.Ops = append(c.Ops, drive.Op{K: "blocks", L: "l1", ID: []int{1, 2, 3, 100}[pick.R.Intn(4)]})
					continue
				}
				ln := names[pick.R.Intn(len(names))]
				op := gens[ln].Next(steps[ln])
				steps[ln]++
				op.Now = 1 + k/2
				if op.Ts > 9 {
					op.Ts = 9
				}
				c.Ops = append(c.Ops, op)
			}
			c.Ops = append(c.Ops, drive.Op{K: "blocks", L: "l1", ID: []int{1, 2, 100}[i%3]})
			c.Ledgers = []drive.CaseLedger{{Name: "l1", Bucket: "b1", Features: async}, {Name: "l2", Bucket: "b1", Features: async}, {Name: "l3", Bucket: "b1"}}
			cases[i] = c
			continue
		}
		if features == "impexp" {
			// export l1, import into l2 (same or other bucket), then write on the copy through every API path
			src := g.History(length)
			bucket := []string{"b2", "b1"}[i%2]
			post := func(api string, k int) drive.Op {
				o := drive.Op{K: "create", L: "l2", Now: 9, API: api,
					Ps: []drive.Posting{{S: "world", D: []string{"alice", "bob", "zed"}[k%3], As: "USD", N: 1 + k}}}
				o.Norm()
				o.IKIn = 900 + k
				return o
			}
			imp := drive.Op{K: "import", L: "l2", Src: "l1", Now: 9}
			imp.Norm()
			switch i % 4 {
			case 0, 1: // the nominal path, the three write paths in rotating order
				apis := [][]string{{"v2", "bulk", "bulk-atomic"}, {"bulk-atomic", "v2", "bulk"}, {"bulk", "bulk-atomic", "v2"}}[i%3]
				c.Ops = append(append(src, imp), post(apis[0], 0), post(apis[1], 1), post(apis[2], 2))
				rv := drive.Op{K: "revert", L: "l2", ID: 1, Now: 9, Force: true}
				rv.Norm()
				rv.IKIn = 950
				c.Ops = append(c.Ops, rv)
				c.Ledgers = []drive.CaseLedger{{Name: "l1", Bucket: "b1"}, {Name: "l2", Bucket: bucket, CreateAt: len(src)}}
			case 2: // a ledger that accepted a write refuses the import; importing twice is refused too
				first := post("v2", 0)
				feat := map[string]string(nil)
				tail := imp
				switch (i / 4) % 3 {
				case 2:
					// the accepted write is an atomic bulk (its transaction is opened by the caller, not by the
					// state tracker's handleState), then the tail of the journal is sent
					first = post("bulk-atomic", 0)
					feat = map[string]string{"HASH_LOGS": "DISABLED"}
					tail.ID = 2
				case 1:
					// the accepted write is a metadata write (no transaction id involved), and the client then
					// sends only the tail of the journal (ids above the log the write took); unhashed logs, so
					// that nothing but the ledger's state stands in the way
					first = drive.Op{K: "acmeta", L: "l2", Now: 1, Addr: "alice", Meta: map[string]string{"k": "v"}}
					first.Norm()
					first.IKIn = 901
					feat = map[string]string{"HASH_LOGS": "DISABLED"}
					tail.ID = 2
				}
				c.Ops = append([]drive.Op{first}, src...)
				c.Ops = append(c.Ops, tail)
				c.Ledgers = []drive.CaseLedger{{Name: "l1", Bucket: "b1", Features: feat}, {Name: "l2", Bucket: bucket, Features: feat}}
			default:
				c.Ops = append(append(src, imp), imp, post("bulk-atomic", 1), imp)
				c.Ledgers = []drive.CaseLedger{{Name: "l1", Bucket: "b1"}, {Name: "l2", Bucket: bucket, CreateAt: len(src)}}
			}
			cases[i] = c
			continue
		}
		c.Ops = g.History(length)
		var feat map[string]string
		switch features {
		case "default":
		case "sweep":
			feat = fsets[(int(seed)+i)%len(fsets)]
		}
		c.Ledgers = []drive.CaseLedger{{Name: "l1", Bucket: "b1", Features: feat}}
		cases[i] = c
	}
	return cases
}

func seq(args []string) {
	fs := flag.NewFlagSet("seq", flag.ExitOnError)
	seed := fs.Int64("seed", 1, "")
	n := fs.Int("cases", 20, "")
	length := fs.Int("len", 8, "")
	scale := fs.String("scale", "1", "")
	out := fs.String("out", "trace.ndjson", "")
	casesOut := fs.String("cases-out", "", "")
	features := fs.String("features", "default", "default | sweep")
	workers := fs.Int("workers", runtime.NumCPU(), "")
	multi := fs.Bool("multi", false, "three ledgers (two sharing a bucket, one created mid-history)")
	_ = fs.Parse(args)

	cases := genCases(*seed, *n, *length, *scale, *multi, *features)
	runCases(cases, *out, *casesOut, *workers)
}

func runCases(cases []drive.Case, out, casesOut string, workers int) {
	results := make([][]drive.Line, len(cases))
	errs := make([]error, len(cases))
	var wg sync.WaitGroup
	sem := make(chan struct{}, workers)
	for i := range cases {
		wg.Add(1)
		sem <- struct{}{}
		go func(i int) {
			defer wg.Done()
			defer func() { <-sem }()
			defer func() {
				if r := recover(); r != nil {
					errs[i] = &drive.Inconclusive{Msg: fmt.Sprintf("harness panic in case %d: %v", cases[i].N, r)}
				}
			}()
			results[i], errs[i] = drive.RunCase(cases[i])
		}(i)
	}
	wg.Wait()
	f, err := os.Create(out)
	if err != nil {
		fmt.Fprintln(os.Stderr, err)
		os.Exit(2)
	}
	defer f.Close()
	sum := summary{Inconclusive: []string{}, Projection: []projFail{}, Notes: []string{}}
	for i, ls := range results {
		if errs[i] != nil {
			switch e := errs[i].(type) {
			case *drive.ProjectionError:
				sum.Projection = append(sum.Projection, projFail{Case: cases[i].N, Msg: e.Msg})
			default:
				sum.Inconclusive = append(sum.Inconclusive, fmt.Sprintf("case %d: %v", cases[i].N, errs[i]))
			}
			continue
		}
		sum.Cases++
		for _, l := range ls {
			if l.Reset {
				continue
			}
			sum.Steps++
			if l.Res.OK && !l.Res.Hit && !l.Op.Dry {
				sum.Committed++
			}
			if !l.Res.OK {
				sum.Failed++
			}
		}
		if err := drive.WriteLines(f, ls); err != nil {
			fmt.Fprintln(os.Stderr, err)
			os.Exit(2)
		}
	}
	if casesOut != "" {
		b, _ := json.Marshal(cases)
		_ = os.WriteFile(casesOut, b, 0o644)
	}
	b, _ := json.Marshal(sum)
	fmt.Println(string(b))
}

func replay(args []string) {
	fs := flag.NewFlagSet("replay", flag.ExitOnError)
	casePath := fs.String("case", "", "")
	out := fs.String("out", "trace.ndjson", "")
	_ = fs.Parse(args)
	b, err := os.ReadFile(*casePath)
	if err != nil {
		fmt.Fprintln(os.Stderr, err)
		os.Exit(2)
	}
	var c drive.Case
	if err := json.Unmarshal(b, &c); err != nil {
		var wrap struct {
			Replay struct {
				Case drive.Case `json:"case"`
			} `json:"replay"`
		}
		if err2 := json.Unmarshal(b, &wrap); err2 != nil {
			fmt.Fprintln(os.Stderr, err)
			os.Exit(2)
		}
		c = wrap.Replay.Case
	}
	if c.Ops == nil {
		var wrap struct {
			Replay struct {
				Case drive.Case `json:"case"`
			} `json:"replay"`
		}
		_ = json.Unmarshal(b, &wrap)
		c = wrap.Replay.Case
	}
	runCases([]drive.Case{c}, *out, "", 1)
}
