package main

import (
	"encoding/json"
	"flag"
	"fmt"
	"os"
	"runtime"
	"strings"
	"sync"

	"github.com/formancehq/ledger/verifharness/drive"
)

type concSummary struct {
	Cases        int            `json:"cases"`
	Schedules    int            `json:"schedules"`
	Exhaustive   int            `json:"exhaustive_cases"`
	PerFamily    map[string]int `json:"per_family"`
	Inconclusive []string       `json:"inconclusive"`
	Projection   []projFail     `json:"projection"`
	Notes        []string       `json:"notes"`
	MaxDecisions int            `json:"max_decisions"`
}

// conc: vh-ledger conc -seed S -preempt K -max-runs N -scale NAME -family SUBSTR -out trace.ndjson -cases-out cases.json
func conc(args []string) {
	fs := flag.NewFlagSet("conc", flag.ExitOnError)
	seed := fs.Int64("seed", 1, "")
	preempt := fs.Int("preempt", 2, "")
	maxRuns := fs.Int("max-runs", 400, "")
	scale := fs.String("scale", "1", "")
	family := fs.String("family", "", "")
	out := fs.String("out", "conc.ndjson", "")
	casesOut := fs.String("cases-out", "", "")
	replayCase := fs.String("replay", "", "replay file holding a ConcCase with Schedule")
	workers := fs.Int("workers", runtime.NumCPU(), "")
	_ = fs.Parse(args)

	var cases []drive.ConcCase
	if *replayCase != "" {
		b, err := os.ReadFile(*replayCase)
		if err != nil {
			fmt.Fprintln(os.Stderr, err)
			os.Exit(2)
		}
		var c drive.ConcCase
		var wrap struct {
			Replay struct {
				Case drive.ConcCase `json:"case"`
			} `json:"replay"`
		}
		if err := json.Unmarshal(b, &wrap); err == nil && len(wrap.Replay.Case.Par) > 0 {
			c = wrap.Replay.Case
		} else if err := json.Unmarshal(b, &c); err != nil {
			fmt.Fprintln(os.Stderr, err)
			os.Exit(2)
		}
		cases = []drive.ConcCase{c}
	} else {
		for _, c := range drive.ConcFamilies(*seed, *scale) {
			if *family == "" || strings.Contains(c.Family, *family) {
				cases = append(cases, c)
			}
		}
	}
	sum := concSummary{PerFamily: map[string]int{}, Inconclusive: []string{}, Projection: []projFail{}, Notes: []string{}}
	results := make([][]drive.Line, len(cases))
	errs := make([]error, len(cases))
	exh := make([]bool, len(cases))
	nruns := make([]int, len(cases))
	maxDec := make([]int, len(cases))
	var wg sync.WaitGroup
	sem := make(chan struct{}, *workers)
	for i := range cases {
		wg.Add(1)
		sem <- struct{}{}
		go func(i int) {
			defer wg.Done()
			defer func() { <-sem }()
			defer func() {
				if r := recover(); r != nil {
					errs[i] = &drive.Inconclusive{Msg: fmt.Sprintf("harness panic in case %d: %v", cases[i].N, r)}
				}
			}()
			base, err := drive.PrepareConc(cases[i])
			if err != nil {
				errs[i] = err
				return
			}
			lines := append([]drive.Line(nil), base.Lines...)
			visit := func(prefix []string, r *drive.ConcResult) error {
				ln := drive.Line{Case: cases[i].N, Conc: true, Ops: cases[i].Par, Ress: r.Ress, CSeq: r.CSeq, Chain: r.Chain,
					St: r.Post, Blk: r.Blk, Quiet: r.Quiet, Sched: strings.Join(prefix, ","),
					Prop: drive.PropOfFamily(cases[i].Family), Fam: cases[i].Family}
				ln.Op.L = "l1"
				if cases[i].Target != "" {
					ln.Op.L = cases[i].Target
				}
				lines = append(lines, ln)
				if len(r.Log) > maxDec[i] {
					maxDec[i] = len(r.Log)
				}
				return nil
			}
			if len(cases[i].Schedule) > 0 {
				r, err := base.RunSchedule(cases[i].Schedule)
				if err != nil {
					errs[i] = err
					return
				}
				full := make([]string, len(r.Log))
				for k, d := range r.Log {
					full[k] = d.Chosen
				}
				_ = visit(full, r)
				nruns[i] = 1
			} else {
				n, complete, err := base.ExploreBounded(*preempt, *maxRuns, visit)
				if err != nil {
					errs[i] = err
					return
				}
				nruns[i], exh[i] = n, complete
			}
			results[i] = lines
		}(i)
	}
	wg.Wait()
	f, err := os.Create(*out)
	if err != nil {
		fmt.Fprintln(os.Stderr, err)
		os.Exit(2)
	}
	defer f.Close()
	for i, ls := range results {
		if errs[i] != nil {
			switch e := errs[i].(type) {
			case *drive.ProjectionError:
				sum.Projection = append(sum.Projection, projFail{Case: cases[i].N, Msg: e.Msg})
			default:
				sum.Inconclusive = append(sum.Inconclusive, fmt.Sprintf("case %d (%s): %v", cases[i].N, cases[i].Family, errs[i]))
			}
			continue
		}
		sum.Cases++
		sum.Schedules += nruns[i]
		sum.PerFamily[cases[i].Family] += nruns[i]
		if exh[i] {
			sum.Exhaustive++
		}
		if maxDec[i] > sum.MaxDecisions {
			sum.MaxDecisions = maxDec[i]
		}
		if err := drive.WriteLines(f, ls); err != nil {
			fmt.Fprintln(os.Stderr, err)
			os.Exit(2)
		}
	}
	if *casesOut != "" {
		b, _ := json.Marshal(cases)
		_ = os.WriteFile(*casesOut, b, 0o644)
	}
	b, _ := json.Marshal(sum)
	fmt.Println(string(b))
}
