package main

import (
	"bufio"
	"context"
	"fmt"
	"io"
	"log"
	"net/url"
	"os"
	"strings"

	"github.com/sirupsen/logrus"

	"github.com/formancehq/ledger/verifharness/drive"
)

// throw-away probe: runs a seeded history then issues the requests listed on stdin (METHOD PATH [BODY])
func main() {
	log.SetOutput(io.Discard)
	logrus.SetOutput(io.Discard)
	env, err := drive.NewEnv(drive.EnvOptions{Scale: "1"})
	if err != nil {
		panic(err)
	}
	defer env.Close()
	feat := map[string]string{}
	for _, a := range os.Args[1:] {
		kv := strings.SplitN(a, "=", 2)
		if len(kv) == 2 {
			feat[kv[0]] = kv[1]
		}
	}
	if len(feat) == 0 {
		feat = nil
	}
	if err := env.CreateLedger("l1", "b1", feat); err != nil {
		panic(err)
	}
	g := drive.NewGen(7, "l1")
	ctx := context.Background()
	hist := g.History(12)
	if os.Getenv("PROBE_EMPTY") != "" {
		hist = nil
	}
	for _, op := range hist {
		op.Now *= 2
		op.Ts *= 2
		r := env.Exec(ctx, "w1", op)
		fmt.Printf("op %s now=%d ts=%d id=%d addr=%s key=%s meta=%v ameta=%v ps=%v -> ok=%v err=%s id=%d\n", op.K, op.Now, op.Ts, op.ID, op.Addr, op.Key, op.Meta, op.AMeta, op.Ps, r.OK, r.Err, r.ID)
	}
	env.SetNow(30)
	sc := bufio.NewScanner(os.Stdin)
	sc.Buffer(make([]byte, 1<<20), 1<<20)
	for sc.Scan() {
		line := strings.TrimSpace(sc.Text())
		if line == "" || strings.HasPrefix(line, "#") {
			continue
		}
		parts := strings.SplitN(line, " ", 3)
		if parts[0] == "NOW" {
			var n int
			fmt.Sscan(parts[1], &n)
			env.SetNow(n)
			continue
		}
		var body any
		if len(parts) == 3 {
			body = parts[2]
		}
		path := parts[1]
		// T(n) -> timestamp of instant n
		for i := 40; i >= 0; i-- {
			path = strings.ReplaceAll(path, fmt.Sprintf("T(%d)", i), url.QueryEscape(drive.FmtInstant(i)))
			if s, ok := body.(string); ok {
				body = strings.ReplaceAll(s, fmt.Sprintf("T(%d)", i), drive.FmtInstant(i))
			}
		}
		r := env.St.Do(ctx, "rd", parts[0], path, body, nil)
		b := string(r.Body)
		if len(b) > 1500 {
			b = b[:1500] + "…"
		}
		fmt.Printf("\n%s %s %v\n -> %d count=%s %s\n", parts[0], path, body, r.Status, r.Header.Get("Count"), strings.TrimSpace(b))
	}
	fmt.Println("UNSUPPORTED:", env.PG.UnsupportedSeen())
	fmt.Println("NOTES:", env.PG.Notes())
}
