package main

import (
	"context"
	"fmt"
	"os"

	"github.com/formancehq/ledger/verifharness/stack"
)

func main() {
	ctx := context.Background()
	pg, err := stack.Bootstrap(ctx, "b1")
	if err != nil {
		fmt.Println("BOOTSTRAP ERROR:", err)
		os.Exit(1)
	}
	fmt.Println("bootstrap ok", pg.Tables("b1"), pg.Tables("_system"))
}
