package main

import (
	"context"
	"fmt"
	"os"
	"strings"

	"github.com/formancehq/ledger/verifharness/pgmodel"
	"github.com/formancehq/ledger/verifharness/stack"
)

func main() {
	ctx := context.Background()
	pg, err := stack.Bootstrap(ctx, "b1")
	if err != nil {
		fmt.Println("BOOTSTRAP ERROR:", err)
		os.Exit(1)
	}
	fmt.Println("bootstrap ok", pg.Tables("b1"), pg.Tables("_system"))
	st := stack.Open(pg.Clone(), stack.Options{})
	st.PG.Observer = func(ev pgmodel.StmtEvent) {
		if ev.Err != "" {
			sql := ev.SQL
			if len(sql) > 1500 {
				sql = sql[:1500]
			}
			fmt.Printf("   SQLERR sess=%d %s\n      %s\n", ev.Sess, ev.Err, sql)
		}
	}
	fail := 0
	do := func(method, path string, body any) {
		r := st.Do(ctx, "w1", method, path, body, nil)
		b := string(r.Body)
		if len(b) > 700 {
			b = b[:700] + "…"
		}
		fmt.Printf("%s %s -> %d %s\n", method, path, r.Status, strings.TrimSpace(b))
		if r.Status >= 500 {
			fail++
		}
	}
	do("POST", "/v2/l1", map[string]any{"bucket": "b1"})
	do("GET", "/v2/l1", nil)
	do("POST", "/v2/l1/transactions", map[string]any{
		"postings": []any{map[string]any{"source": "world", "destination": "users:001", "asset": "USD", "amount": 100}},
		"metadata": map[string]any{"k": "v"}, "reference": "r1",
	})
	do("POST", "/v2/l1/transactions", map[string]any{
		"script": map[string]any{"plain": "send [USD 30] (\n source = @users:001\n destination = @bank\n)\nset_tx_meta(\"a\", \"b\")"},
	})
	do("POST", "/v2/l1/transactions", map[string]any{
		"postings": []any{map[string]any{"source": "users:001", "destination": "bank", "asset": "USD", "amount": 1000}},
	})
	do("POST", "/v2/l1/transactions/1/revert", nil)
	do("POST", "/v2/l1/transactions/2/metadata", map[string]any{"x": "y"})
	do("DELETE", "/v2/l1/transactions/2/metadata/x", nil)
	do("POST", "/v2/l1/accounts/users:002/metadata", map[string]any{"role": "admin"})
	do("DELETE", "/v2/l1/accounts/users:002/metadata/role", nil)
	do("GET", "/v2/l1/transactions", nil)
	do("GET", "/v2/l1/transactions?expand=volumes&expand=effectiveVolumes", nil)
	do("GET", "/v2/l1/transactions/1?expand=volumes&expand=effectiveVolumes", nil)
	do("GET", "/v2/l1/accounts?expand=volumes&expand=effectiveVolumes", nil)
	do("GET", "/v2/l1/accounts/users:001?expand=volumes", nil)
	do("GET", "/v2/l1/aggregate/balances", nil)
	do("GET", "/v2/l1/volumes", nil)
	do("GET", "/v2/l1/volumes?groupBy=1", nil)
	do("GET", "/v2/l1/logs", nil)
	do("GET", "/v2/l1/stats", nil)
	do("GET", "/v2/l1/accounts?pit=2030-01-01T00:00:00Z&expand=volumes", nil)
	do("GET", "/v2/l1/volumes?pit=2030-01-01T00:00:00Z", nil)
	do("GET", "/v2/l1/aggregate/balances?pit=2030-01-01T00:00:00Z", nil)
	do("GET", "/v2/l1/transactions?pit=2030-01-01T00:00:00Z", nil)
	fmt.Println("NOTES:", pg.Notes(), st.PG.Notes())
	fmt.Println("UNSUPPORTED:", st.PG.UnsupportedSeen())
	fmt.Println("SKIPPED:", len(pg.SkippedLegacy()))
	for _, s := range pg.SkippedLegacy() {
		fmt.Println("   ", s)
	}
	if fail > 0 {
		os.Exit(1)
	}
}
