// vh-chart replays TLC-generated chart-of-accounts cases (spec/Chart.tla) through the real schema
// code and reports every disagreement with the specification's prescribed outcome.
//
//	vh-chart --cases cases.ndjson [--store name] [--workers n] [--verbose]
//	vh-chart --replay replays/C30-xxxx.json     (file written by vlib.Check.violation, or a case file)
//
// Output: NDJSON on stdout, one line per case with disagreements (all cases with --verbose) and a
// final {"summary":{...}} line. Exit 0 when the run completed (disagreements are data; with --replay:
// exit 1 when the recorded disagreement reproduces), 2 on harness problems (bad input, failing self
// test, abstraction table not faithful).
package main

import (
	"bufio"
	"bytes"
	"encoding/json"
	"flag"
	"fmt"
	"os"
	"runtime"
	"sync"

	"github.com/formancehq/ledger/verifharness/chartcase"
)

type job struct {
	idx int
	h   *chartcase.Header
	c   *chartcase.Case
}

type summary struct {
	Cases            int            `json:"cases"`
	ValidCases       int            `json:"valid_cases"`
	InvalidCases     int            `json:"invalid_cases"`
	Classified       int            `json:"addresses_classified"`
	NonTrivial       int            `json:"non_trivial"`
	Stages           map[string]int `json:"stages"`
	CasesDisagreeing int            `json:"cases_disagreeing"`
	Disagreements    int            `json:"disagreements"`
	BySig            map[string]int `json:"by_sig"`
	SoftBySig        map[string]int `json:"soft_by_sig"`
	CasesSoft        int            `json:"cases_soft"`
	Store            string         `json:"store"`
	HeaderErrors     []string       `json:"header_errors"`
	SelfTestErrors   []string       `json:"selftest_errors"`
}

func fail(format string, a ...any) {
	fmt.Fprintf(os.Stderr, "vh-chart: "+format+"\n", a...)
	os.Exit(2)
}

func main() {
	casesPath := flag.String("cases", "", "NDJSON case file (header lines + chart lines)")
	replayPath := flag.String("replay", "", "replay file (vlib violation file or case file)")
	storeName := flag.String("store", "", "store round trip to apply (registered: see --list-stores)")
	listStores := flag.Bool("list-stores", false, "list registered store round trips")
	workers := flag.Int("workers", runtime.NumCPU(), "parallel workers")
	verbose := flag.Bool("verbose", false, "print a result line for every case")
	flag.Parse()

	if *listStores {
		for _, n := range chartcase.StoreNames() {
			fmt.Println(n)
		}
		return
	}
	opts := chartcase.Options{}
	if *storeName != "" {
		fn, ok := chartcase.LookupStore(*storeName)
		if !ok {
			fail("unknown store %q (registered: %v)", *storeName, chartcase.StoreNames())
		}
		opts.Store, opts.StoreName = fn, *storeName
	}

	var lines [][]byte
	switch {
	case *replayPath != "":
		b, err := os.ReadFile(*replayPath)
		if err != nil {
			fail("%v", err)
		}
		var rf struct {
			Replay struct {
				Header json.RawMessage `json:"header"`
				Case   json.RawMessage `json:"case"`
				Store  string          `json:"store"`
			} `json:"replay"`
		}
		if err := json.Unmarshal(b, &rf); err == nil && len(rf.Replay.Header) > 0 && len(rf.Replay.Case) > 0 {
			lines = [][]byte{rf.Replay.Header, rf.Replay.Case}
			if rf.Replay.Store != "" && opts.Store == nil {
				if fn, ok := chartcase.LookupStore(rf.Replay.Store); ok {
					opts.Store, opts.StoreName = fn, rf.Replay.Store
				}
			}
		} else {
			lines = bytes.Split(b, []byte("\n"))
		}
		*verbose = true
	case *casesPath != "":
		f, err := os.Open(*casesPath)
		if err != nil {
			fail("%v", err)
		}
		sc := bufio.NewScanner(f)
		sc.Buffer(make([]byte, 1<<20), 1<<28)
		for sc.Scan() {
			lines = append(lines, append([]byte(nil), sc.Bytes()...))
		}
		if err := sc.Err(); err != nil {
			fail("%v", err)
		}
		f.Close()
	default:
		fail("need --cases or --replay")
	}

	sum := summary{Stages: map[string]int{}, BySig: map[string]int{}, SoftBySig: map[string]int{}, Store: opts.StoreName,
		HeaderErrors: []string{}, SelfTestErrors: []string{}}
	sum.SelfTestErrors = append(sum.SelfTestErrors, chartcase.SelfTest()...)

	var jobs []job
	var cur *chartcase.Header
	for i, ln := range lines {
		ln = bytes.TrimSpace(ln)
		if len(ln) == 0 {
			continue
		}
		var k struct {
			Kind string `json:"kind"`
		}
		if err := json.Unmarshal(ln, &k); err != nil {
			fail("line %d: %v", i+1, err)
		}
		switch k.Kind {
		case "header":
			h, err := chartcase.ParseHeader(ln)
			if err != nil {
				fail("line %d: header: %v", i+1, err)
			}
			sum.HeaderErrors = append(sum.HeaderErrors, chartcase.CheckHeader(h)...)
			cur = h
		case "chart":
			if cur == nil {
				fail("line %d: chart case before any header", i+1)
			}
			c := &chartcase.Case{}
			if err := json.Unmarshal(ln, c); err != nil {
				fail("line %d: case: %v", i+1, err)
			}
			jobs = append(jobs, job{idx: len(jobs), h: cur, c: c})
		default:
			fail("line %d: unknown kind %q", i+1, k.Kind)
		}
	}

	results := make([]chartcase.Result, len(jobs))
	ch := make(chan job)
	var wg sync.WaitGroup
	if *workers < 1 {
		*workers = 1
	}
	for w := 0; w < *workers; w++ {
		wg.Add(1)
		go func() {
			defer wg.Done()
			for j := range ch {
				r := chartcase.RunCase(j.h, j.c, opts, false)
				if len(r.Disagreements) > 0 || *verbose {
					r = chartcase.RunCase(j.h, j.c, opts, true) // keep rendered input / output for the report
				}
				results[j.idx] = r
			}
		}()
	}
	for _, j := range jobs {
		ch <- j
	}
	close(ch)
	wg.Wait()

	out := bufio.NewWriterSize(os.Stdout, 1<<20)
	enc := json.NewEncoder(out)
	enc.SetEscapeHTML(false)
	for _, r := range results {
		sum.Cases++
		if r.ValidExpected {
			sum.ValidCases++
		} else {
			sum.InvalidCases++
		}
		sum.Classified += r.Classified
		if r.NonTrivial {
			sum.NonTrivial++
		}
		for _, s := range r.Stages {
			sum.Stages[s]++
		}
		hard, soft := 0, 0
		for _, d := range r.Disagreements {
			if d.Soft {
				soft++
				sum.SoftBySig[d.Sig]++
			} else {
				hard++
				sum.BySig[d.Sig]++
			}
		}
		if hard > 0 {
			sum.CasesDisagreeing++
			sum.Disagreements += hard
		}
		if soft > 0 {
			sum.CasesSoft++
		}
		if len(r.Disagreements) > 0 || *verbose {
			if len(r.Disagreements) > 20 {
				r.Disagreements = r.Disagreements[:20]
			}
			_ = enc.Encode(map[string]any{"result": r})
		}
	}
	_ = enc.Encode(map[string]any{"summary": sum})
	out.Flush()
	if len(sum.HeaderErrors) > 0 || len(sum.SelfTestErrors) > 0 {
		os.Exit(2)
	}
	if *replayPath != "" && sum.CasesDisagreeing > 0 {
		os.Exit(1) // the recorded violation reproduces
	}
}
