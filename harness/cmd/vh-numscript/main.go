// vh-numscript: conformance harness between spec/Numscript.tla and the real Numscript runtimes.
//
//	vh-numscript cases  --in cases.ndjson --out results.ndjson --summary summary.json [--no-interp]
//	vh-numscript robust --in cases.ndjson --out findings.ndjson --summary summary.json [--token-every K]
//	vh-numscript allot  --in allot.ndjson --out results.ndjson --summary summary.json
//	vh-numscript --replay replay.json        re-run one recorded case verbosely
//	vh-numscript render --in cases.ndjson    print the Numscript text of every case
package main

import (
	"bufio"
	"encoding/json"
	"flag"
	"fmt"
	"os"
	"runtime"
	"sort"
	"sync"

	ns "github.com/formancehq/ledger/verifharness/numscript"
)

func fatal(f string, a ...any) {
	fmt.Fprintf(os.Stderr, "vh-numscript: "+f+"\n", a...)
	os.Exit(2)
}

func readLines(path string) [][]byte {
	f, err := os.Open(path)
	if err != nil {
		fatal("%v", err)
	}
	defer f.Close()
	var out [][]byte
	sc := bufio.NewScanner(f)
	sc.Buffer(make([]byte, 1<<20), 64<<20)
	for sc.Scan() {
		b := sc.Bytes()
		if len(b) == 0 {
			continue
		}
		out = append(out, append([]byte(nil), b...))
	}
	if err := sc.Err(); err != nil {
		fatal("%v", err)
	}
	return out
}

type writer struct {
	mu sync.Mutex
	w  *bufio.Writer
	f  *os.File
}

func newWriter(path string) *writer {
	if path == "" {
		return &writer{}
	}
	f, err := os.Create(path)
	if err != nil {
		fatal("%v", err)
	}
	return &writer{w: bufio.NewWriterSize(f, 1<<20), f: f}
}

func (w *writer) line(v any) {
	if w.w == nil {
		return
	}
	b, _ := json.Marshal(v)
	w.mu.Lock()
	w.w.Write(b)
	w.w.WriteByte('\n')
	w.mu.Unlock()
}

func (w *writer) close() {
	if w.w != nil {
		w.w.Flush()
		w.f.Close()
	}
}

func writeJSON(path string, v any) {
	b, _ := json.MarshalIndent(v, "", " ")
	if path == "" {
		fmt.Println(string(b))
		return
	}
	if err := os.WriteFile(path, b, 0o644); err != nil {
		fatal("%v", err)
	}
}

func parallel(n, workers int, f func(i int)) {
	var wg sync.WaitGroup
	ch := make(chan int, 1024)
	for w := 0; w < workers; w++ {
		wg.Add(1)
		go func() {
			defer wg.Done()
			for i := range ch {
				f(i)
			}
		}()
	}
	for i := 0; i < n; i++ {
		ch <- i
	}
	close(ch)
	wg.Wait()
}

type sigEntry struct {
	Kind    string `json:"kind"`
	Sig     string `json:"sig"`
	Count   int    `json:"count"`
	Idx     int    `json:"first_idx"`
	Detail  string `json:"detail"`
	Mode    string `json:"mode,omitempty"`
	Script  string `json:"script,omitempty"`
	Case    any    `json:"case,omitempty"`
	Variant any    `json:"variant,omitempty"`
}

type sigTable struct {
	mu sync.Mutex
	m  map[string]*sigEntry
}

func (t *sigTable) add(kind, sig string, idx int, detail, mode, script string, c any, variant any) {
	t.mu.Lock()
	defer t.mu.Unlock()
	if t.m == nil {
		t.m = map[string]*sigEntry{}
	}
	e, ok := t.m[sig]
	if !ok {
		t.m[sig] = &sigEntry{Kind: kind, Sig: sig, Count: 1, Idx: idx, Detail: detail, Mode: mode, Script: script, Case: c, Variant: variant}
		return
	}
	e.Count++
	if idx < e.Idx { // deterministic representative: the smallest case index
		e.Idx, e.Detail, e.Mode, e.Script, e.Case, e.Variant = idx, detail, mode, script, c, variant
	}
}

func (t *sigTable) list() []*sigEntry {
	out := make([]*sigEntry, 0, len(t.m))
	for _, e := range t.m {
		out = append(out, e)
	}
	sort.Slice(out, func(i, j int) bool { return out[i].Sig < out[j].Sig })
	return out
}

func cmdCases(args []string) {
	fs := flag.NewFlagSet("cases", flag.ExitOnError)
	in := fs.String("in", "", "NDJSON cases printed by TLC")
	out := fs.String("out", "", "NDJSON results")
	summary := fs.String("summary", "", "summary JSON")
	noInterp := fs.Bool("no-interp", false, "do not run the interpreter runtime")
	verbose := fs.Bool("verbose", false, "keep scripts and results of every case")
	workers := fs.Int("workers", runtime.NumCPU(), "parallel workers")
	fs.Parse(args)
	lines := readLines(*in)
	w := newWriter(*out)
	defer w.close()
	opt := ns.Options{Modes: []string{"lit", "vars"}, WithInterp: !*noInterp, WithAdapter: true, Verbose: *verbose}
	var mu sync.Mutex
	sum := map[string]int{}
	byFam := map[string]int{}
	kinds := map[string]int{}
	sigs := &sigTable{}
	samples := make([]any, 0, 4)
	parallel(len(lines), *workers, func(i int) {
		var c ns.Case
		if err := json.Unmarshal(lines[i], &c); err != nil {
			fatal("case %d: %v", i, err)
		}
		r := ns.EvalCase(i, &c, opt)
		if len(r.Disagreements) > 0 || *verbose {
			w.line(r)
		}
		mu.Lock()
		sum["cases"]++
		sum["executions"] += r.Executions
		byFam[c.Fam]++
		if r.NonTrivial {
			sum["nontrivial"]++
		}
		if c.Exp.Ok {
			sum["spec_ok"]++
		} else {
			sum["spec_err_"+c.Exp.Err]++
		}
		if c.Exp.Kbr {
			sum["class_kept_then_clause"]++
		}
		if r.CommonSubset && opt.WithInterp {
			sum["common_subset"]++
			if c.Exp.Ok && len(c.Exp.Iposts) > 0 {
				sum["common_subset_nontrivial"]++
			}
		}
		if len(r.Disagreements) > 0 {
			sum["cases_with_disagreements"]++
		}
		mu.Unlock()
		for _, d := range r.Disagreements {
			sig := ns.Signature(&c, d)
			mu.Lock()
			kinds[d.Kind]++
			mu.Unlock()
			sigs.add(d.Kind, sig, i, d.Detail, d.Mode, ns.Render(c.Prog, d.Mode).Script, json.RawMessage(lines[i]), nil)
		}
	})
	writeJSON(*summary, map[string]any{"counts": sum, "by_family": byFam, "disagreement_kinds": kinds, "signatures": sigs.list(), "samples": samples})
}

func cmdRobust(args []string) {
	fs := flag.NewFlagSet("robust", flag.ExitOnError)
	in := fs.String("in", "", "NDJSON cases printed by TLC")
	out := fs.String("out", "", "NDJSON findings")
	summary := fs.String("summary", "", "summary JSON")
	tokenEvery := fs.Int("token-every", 1, "apply token deletions/duplications to every K-th case (0: never)")
	stride := fs.Int("stride", 1, "use every K-th case only")
	offset := fs.Int("offset", 0, "first case of the stride")
	noInterp := fs.Bool("no-interp", false, "do not run the interpreter runtime")
	workers := fs.Int("workers", runtime.NumCPU(), "parallel workers")
	fs.Parse(args)
	lines := readLines(*in)
	w := newWriter(*out)
	defer w.close()
	var mu sync.Mutex
	seen := map[string]bool{}
	seenFn := func(h string) bool {
		mu.Lock()
		defer mu.Unlock()
		if seen[h] {
			return true
		}
		seen[h] = true
		return false
	}
	breaker := ns.NewHangBreaker(3)
	sum := map[string]int{}
	labels := map[string]int{}
	sigs := &sigTable{}
	samples := []any{}
	parallel(len(lines), *workers, func(i int) {
		var c ns.Case
		if err := json.Unmarshal(lines[i], &c); err != nil {
			fatal("case %d: %v", i, err)
		}
		if *stride > 1 && i%*stride != *offset%*stride && c.Inject == "" {
			return
		}
		tm := *tokenEvery > 0 && (i / *stride)%*tokenEvery == 0
		o := ns.RunRobust(&c, tm, !*noInterp, seenFn, breaker)
		mu.Lock()
		sum["cases"]++
		sum["evaluations"] += o.Evaluations
		sum["distinct_inputs"] += len(o.Hashes)
		sum["print_variants_run"] += o.PrintRuns
		sum["print_variants_executed"] += o.PrintExecuted
		sum["variants_skipped_after_repeated_hangs"] += o.Skipped
		for _, rt := range o.Hashes {
			if rt {
				sum["distinct_nontrivial"]++
			}
		}
		if i%1499 < *stride {
			vs := ns.Variants(&c, true)
			v := vs[len(vs)/2]
			samples = append(samples, map[string]any{"idx": i, "label": v.Label, "script": v.Script, "vars": v.Vars})
		}
		mu.Unlock()
		for _, f := range o.Disagreements {
			w.line(map[string]any{"idx": i, "finding": f})
			sig := ns.RobustSignature(f)
			mu.Lock()
			labels[f.Kind]++
			mu.Unlock()
			sigs.add(f.Kind, sig, i, f.Detail, "", f.Variant.Script, json.RawMessage(lines[i]), f.Variant)
		}
	})
	sort.Slice(samples, func(a, b int) bool { return samples[a].(map[string]any)["idx"].(int) < samples[b].(map[string]any)["idx"].(int) })
	if len(samples) > 4 {
		samples = samples[:4]
	}
	writeJSON(*summary, map[string]any{"counts": sum, "finding_kinds": labels, "signatures": sigs.list(), "samples": samples})
}

func cmdAllot(args []string) {
	fs := flag.NewFlagSet("allot", flag.ExitOnError)
	in := fs.String("in", "", "NDJSON allotment cases printed by TLC")
	out := fs.String("out", "", "NDJSON results")
	summary := fs.String("summary", "", "summary JSON")
	workers := fs.Int("workers", runtime.NumCPU(), "parallel workers")
	fs.Parse(args)
	lines := readLines(*in)
	w := newWriter(*out)
	defer w.close()
	var mu sync.Mutex
	sum := map[string]int{}
	kinds := map[string]int{}
	sigs := &sigTable{}
	samples := []any{}
	parallel(len(lines), *workers, func(i int) {
		var c ns.AllotCase
		if err := json.Unmarshal(lines[i], &c); err != nil {
			fatal("case %d: %v", i, err)
		}
		r := ns.EvalAllot(i, &c)
		mu.Lock()
		sum["cases"]++
		sum["evaluations"] += r.Evaluations
		nz := 0
		for _, p := range c.Parts {
			if p > 0 {
				nz++
			}
		}
		if nz >= 2 {
			sum["nontrivial"]++
		}
		for _, d := range r.Disagreements {
			kinds[d.Kind]++
		}
		mu.Unlock()
		if len(r.Disagreements) > 0 {
			w.line(r)
		}
		for _, d := range r.Disagreements {
			sigs.add(d.Kind, d.Kind, i, d.Detail, "", "", json.RawMessage(lines[i]), nil)
		}
	})
	writeJSON(*summary, map[string]any{"counts": sum, "disagreement_kinds": kinds, "signatures": sigs.list(), "samples": samples})
}

type replayFile struct {
	Replay struct {
		Engine  string          `json:"engine"`
		Case    json.RawMessage `json:"case"`
		Variant *ns.Variant     `json:"variant"`
	} `json:"replay"`
}

func cmdReplay(path string) {
	b, err := os.ReadFile(path)
	if err != nil {
		fatal("%v", err)
	}
	var rf replayFile
	if err := json.Unmarshal(b, &rf); err != nil {
		fatal("%v", err)
	}
	if rf.Replay.Engine == "" {
		// a bare {engine, case} object is accepted too
		json.Unmarshal(b, &rf.Replay)
	}
	switch rf.Replay.Engine {
	case "allot":
		var c ns.AllotCase
		if err := json.Unmarshal(rf.Replay.Case, &c); err != nil {
			fatal("%v", err)
		}
		r := ns.EvalAllot(0, &c)
		writeJSON("", r)
		if len(r.Disagreements) > 0 {
			os.Exit(1)
		}
	case "robust":
		var c ns.Case
		if err := json.Unmarshal(rf.Replay.Case, &c); err != nil {
			fatal("%v", err)
		}
		if rf.Replay.Variant == nil {
			o := ns.RunRobust(&c, true, true, nil, ns.NewHangBreaker(2))
			writeJSON("", o.Disagreements)
			if len(o.Disagreements) > 0 {
				os.Exit(1)
			}
			return
		}
		v := rf.Replay.Variant
		m := ns.RunMachineAdapter(v.Script, v.Vars, c.Bal, v.Store)
		in := ns.RunInterpreter(v.Script, v.Vars, c.Bal, v.Store)
		writeJSON("", map[string]any{"variant": v, "machine": m, "interpreter": in})
		if m.Panic != "" || m.Hang || m.Partial || in.Panic != "" || in.Hang || in.Partial {
			os.Exit(1)
		}
	default:
		var c ns.Case
		if err := json.Unmarshal(rf.Replay.Case, &c); err != nil {
			fatal("%v", err)
		}
		r := ns.EvalCase(0, &c, ns.Options{Modes: []string{"lit", "vars"}, WithInterp: true, WithAdapter: true, Verbose: true})
		writeJSON("", map[string]any{"result": r, "expected": c.Exp})
		if len(r.Disagreements) > 0 {
			os.Exit(1)
		}
	}
}

func cmdRender(args []string) {
	fs := flag.NewFlagSet("render", flag.ExitOnError)
	in := fs.String("in", "", "NDJSON cases")
	mode := fs.String("mode", "lit", "lit|vars")
	fs.Parse(args)
	for i, l := range readLines(*in) {
		var c ns.Case
		if err := json.Unmarshal(l, &c); err != nil {
			fatal("case %d: %v", i, err)
		}
		rd := ns.Render(c.Prog, *mode)
		fmt.Printf("--- case %d (%s) vars=%v balances=%v\n%s", i, c.Fam, rd.Vars, c.Bal, rd.Script)
	}
}

func main() {
	if len(os.Args) < 2 {
		fatal("usage: vh-numscript cases|robust|allot|render ... | --replay file")
	}
	switch os.Args[1] {
	case "cases":
		cmdCases(os.Args[2:])
	case "robust":
		cmdRobust(os.Args[2:])
	case "allot":
		cmdAllot(os.Args[2:])
	case "render":
		cmdRender(os.Args[2:])
	case "--replay", "replay":
		if len(os.Args) < 3 {
			fatal("--replay needs a file")
		}
		cmdReplay(os.Args[2])
	default:
		fatal("unknown command %q", os.Args[1])
	}
}
