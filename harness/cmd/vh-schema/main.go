// vh-schema replays TLC-generated schema-enforcement behaviours (spec/Schema.tla) through the real
// HTTP API over pgmodel and reports every disagreement with the specification's prescribed outcome
// and post-state.
//
//	vh-schema --cases cases.ndjson [--workers n] [--verbose]
//	vh-schema --replay replays/C29-xxxx.json     (file written by vlib.Check.violation, or a case file)
//	vh-schema --probe case.json                  (run the requests, print what happened, compare nothing)
//
// Output: NDJSON on stdout: one {"result":...} line per case with disagreements (all with --verbose)
// and a final {"summary":{...}} line. Exit 0 when the run completed (with --replay: 1 when the
// recorded disagreement reproduces), 2 on harness problems (bad input, unsupported SQL in pgmodel).
package main

import (
	"bufio"
	"bytes"
	"encoding/json"
	"flag"
	"fmt"
	"io"
	"log"
	"os"
	"runtime"
	"sync"

	"github.com/sirupsen/logrus"

	"github.com/formancehq/ledger/verifharness/schemacase"
)

type summary struct {
	Cases            int            `json:"cases"`
	Steps            int            `json:"steps_replayed"`
	StepsTotal       int            `json:"steps_total"`
	Rejections       int            `json:"rejections_observed"`
	ByMode           map[string]int `json:"by_mode"`
	Diverged         int            `json:"diverged_to_sibling"`
	CasesDisagreeing int            `json:"cases_disagreeing"`
	Disagreements    int            `json:"disagreements"`
	BySig            map[string]int `json:"by_sig"`
	DeviationsBySig  map[string]int `json:"deviations_by_sig"`
	Unsupported      []string       `json:"unsupported"`
	HarnessErrors    []string       `json:"harness_errors"`
}

func fail(format string, a ...any) {
	fmt.Fprintf(os.Stderr, "vh-schema: "+format+"\n", a...)
	os.Exit(2)
}

func main() {
	log.SetOutput(io.Discard)
	logrus.SetOutput(io.Discard)
	casesPath := flag.String("cases", "", "NDJSON case file")
	replayPath := flag.String("replay", "", "replay file (vlib violation file or a single case)")
	probePath := flag.String("probe", "", "case file: run the requests and print the trace, compare nothing")
	workers := flag.Int("workers", runtime.NumCPU(), "parallel workers")
	verbose := flag.Bool("verbose", false, "print a result line (with trace) for every case")
	flag.Parse()

	var lines [][]byte
	readLines := func(p string) {
		b, err := os.ReadFile(p)
		if err != nil {
			fail("%v", err)
		}
		var rf struct {
			Replay struct {
				Case json.RawMessage `json:"case"`
			} `json:"replay"`
		}
		if err := json.Unmarshal(b, &rf); err == nil && len(rf.Replay.Case) > 0 {
			lines = [][]byte{rf.Replay.Case}
			return
		}
		sc := bufio.NewScanner(bytes.NewReader(b))
		sc.Buffer(make([]byte, 1<<20), 1<<28)
		for sc.Scan() {
			if t := bytes.TrimSpace(sc.Bytes()); len(t) > 0 {
				lines = append(lines, append([]byte(nil), t...))
			}
		}
	}
	switch {
	case *probePath != "":
		readLines(*probePath)
	case *replayPath != "":
		readLines(*replayPath)
		*verbose = true
	case *casesPath != "":
		readLines(*casesPath)
	default:
		fail("need --cases, --replay or --probe")
	}
	cases := make([]*schemacase.Case, 0, len(lines))
	var headerErrors []string
	var cur *schemacase.Header
	for i, ln := range lines {
		var k struct {
			Kind string `json:"kind"`
		}
		if err := json.Unmarshal(ln, &k); err != nil {
			fail("line %d: %v", i+1, err)
		}
		switch k.Kind {
		case "schemaheader":
			h, errs, err := schemacase.ParseHeader(ln)
			if err != nil {
				fail("line %d: header: %v", i+1, err)
			}
			headerErrors = append(headerErrors, errs...)
			cur = h
		case "schemacase":
			c := &schemacase.Case{}
			if err := json.Unmarshal(ln, c); err != nil {
				fail("line %d: %v", i+1, err)
			}
			c.Attach(cur)
			cases = append(cases, c)
		default:
			fail("line %d: unknown kind %q", i+1, k.Kind)
		}
	}
	if len(headerErrors) > 0 {
		fail("the spec's finite abstraction is not faithful to the concrete strings: %v", headerErrors)
	}

	out := bufio.NewWriterSize(os.Stdout, 1<<20)
	defer out.Flush()
	enc := json.NewEncoder(out)
	enc.SetEscapeHTML(false)

	if *probePath != "" {
		for _, c := range cases {
			_ = enc.Encode(map[string]any{"result": schemacase.Probe(c)})
		}
		return
	}

	results := make([]schemacase.Result, len(cases))
	ch := make(chan int)
	var wg sync.WaitGroup
	if *workers < 1 {
		*workers = 1
	}
	for w := 0; w < *workers; w++ {
		wg.Add(1)
		go func() {
			defer wg.Done()
			for i := range ch {
				r := schemacase.RunCase(cases[i], *verbose)
				if len(r.Disagreements) > 0 && !*verbose {
					r = schemacase.RunCase(cases[i], true)
				}
				results[i] = r
			}
		}()
	}
	for i := range cases {
		ch <- i
	}
	close(ch)
	wg.Wait()

	sum := summary{ByMode: map[string]int{}, BySig: map[string]int{}, DeviationsBySig: map[string]int{},
		Unsupported: []string{}, HarnessErrors: []string{}}
	seenU := map[string]bool{}
	for _, r := range results {
		sum.Cases++
		sum.Steps += r.StepsRun
		sum.StepsTotal += r.StepsTotal
		sum.Rejections += r.Rejections
		sum.ByMode[r.Mode]++
		if r.Diverged {
			sum.Diverged++
		}
		for _, u := range r.Unsupported {
			if !seenU[u] {
				seenU[u] = true
				sum.Unsupported = append(sum.Unsupported, u)
			}
		}
		if r.HarnessError != "" && len(sum.HarnessErrors) < 10 {
			sum.HarnessErrors = append(sum.HarnessErrors, r.ID+": "+r.HarnessError)
		}
		if len(r.Disagreements) > 0 {
			sum.CasesDisagreeing++
			sum.Disagreements += len(r.Disagreements)
			for _, d := range r.Disagreements {
				if d.Deviation {
					sum.DeviationsBySig[d.Sig]++
				} else {
					sum.BySig[d.Sig]++
				}
			}
		}
		if len(r.Disagreements) > 0 || *verbose {
			_ = enc.Encode(map[string]any{"result": r})
		}
	}
	_ = enc.Encode(map[string]any{"summary": sum})
	out.Flush()
	if len(sum.Unsupported) > 0 || len(sum.HarnessErrors) > 0 {
		os.Exit(2)
	}
	if *replayPath != "" && sum.CasesDisagreeing > 0 {
		os.Exit(1)
	}
}
