// Package repl drives the real replication.Manager / PipelineHandler / DriverFacade of /repo over an
// in-memory replication.Storage and a recording drivers.Driver (property C33).
//
// Everything the code under test can observe or change goes through the decorators of this file, and
// every such call takes effect and is stamped (global sequence number) under ONE mutex (World.mu): the
// stamp order is the linearisation order of the effects.  Calls can be held on gates before they take
// effect so that a driver can force interleavings.  The epoch (= the manager operation that spawned the
// pipeline) of a call is carried by a context value: Manager.startPipeline derives the pipeline context
// with context.WithoutCancel, which keeps values.
package repl

import (
	"context"
	"encoding/json"
	"errors"
	"fmt"
	"math/rand"
	"reflect"
	"runtime"
	"sync"
	"time"

	"github.com/formancehq/go-libs/v5/pkg/storage/bun/paginate"
	"github.com/formancehq/go-libs/v5/pkg/storage/postgres"

	ledger "github.com/formancehq/ledger/internal"
	"github.com/formancehq/ledger/internal/replication"
	"github.com/formancehq/ledger/internal/replication/drivers"
	"github.com/formancehq/ledger/internal/storage/common"
)

const (
	PipelineID = "pipeline-1"
	LedgerName = "ledger-1"
	ExporterID = "exporter-1"
)

type tagKey struct{}

// WithTag marks ctx with the id of a manager operation.
func WithTag(ctx context.Context, tag int) context.Context {
	return context.WithValue(ctx, tagKey{}, tag)
}

func tagOf(ctx context.Context) int {
	if v, ok := ctx.Value(tagKey{}).(int); ok {
		return v
	}
	return 0
}

// Event is one NDJSON line.  All fields are always present so that TLC sees uniform records.
//
//	k        ep            x                 y          ids            ok     name
//	Begin    -             page size         nLogs      -              -      scenario id
//	Produce  -             log id            -          -              -      -
//	Call     op id         -                 -          -              -      run|stop|start|reset|shutdown
//	Ret      op id         -                 -          -              ok     same
//	ListEnabled  op id     last_log_id read  -          -              -      -
//	GetPipeline  op id     last_log_id read  -          -              -      -
//	UpdatePipeline op id   last_log_id after enabled    -              -      -
//	OpenLedger   op id     -                 -          -              -      -
//	ListLogs epoch         after id          page size  ids returned   hasMore -
//	Accept   epoch         -                 -          ids of batch   acked  -
//	Store    epoch         value             -          -              row found -
//	DriverStart/DriverStop (informational)
type Event struct {
	Seq  int      `json:"seq"`
	K    string   `json:"k"`
	Ep   int      `json:"ep"`
	X    uint64   `json:"x"`
	Y    uint64   `json:"y"`
	Ids  []uint64 `json:"ids"`
	Ok   bool     `json:"ok"`
	Name string   `json:"name"`
}

// Call is a decorated call that has been entered and has not yet taken effect.
type Call struct {
	Kind     string
	Ep       int
	X, Y     uint64
	Ids      []uint64
	released bool
	verdict  int // Accept only: 0 = by plan, 1 = ack, 2 = fail
	done     bool
}

func (c *Call) String() string {
	return fmt.Sprintf("%s(ep=%d x=%d y=%d ids=%v)", c.Kind, c.Ep, c.X, c.Y, c.Ids)
}

type Batch struct {
	Seq int      `json:"seq"`
	Ep  int      `json:"ep"`
	Ids []uint64 `json:"ids"`
}

type World struct {
	mu   sync.Mutex
	cond *sync.Cond

	seq      int
	events   []Event
	closed   bool // recording finished: later calls still work but are not stamped
	produced uint64
	row      ledger.Pipeline
	exporter ledger.Exporter
	batches  []Batch
	stored   []Event // Store events (copy)

	pending  []*Call
	holdAll  bool                // strict replay: every gated kind is held
	holdFn   func(c *Call) bool  // gated scenarios: selective hold
	inflight int

	acceptIdx    int
	failPlan     map[int]bool // index of Accept call (as seen by the exporter) -> fail
	exporterDown bool
	honorCancel  bool
	streakEp     int  // pipeline instance of the current run of "ctx" refusals
	streak       int  // its length
	stuck        bool // streak reached NoProgressK

	jmu       sync.Mutex
	jitter    *rand.Rand
	jitterMax int // microseconds; 0 = none

	harnessErrs []string
}

func NewWorld(seed int64, jitterMaxMicros int) *World {
	w := &World{
		failPlan:  map[int]bool{},
		jitter:    rand.New(rand.NewSource(seed ^ 0x5eed)),
		jitterMax: jitterMaxMicros,
	}
	w.cond = sync.NewCond(&w.mu)
	w.row = ledger.Pipeline{
		PipelineConfiguration: ledger.NewPipelineConfiguration(LedgerName, ExporterID),
		ID:                    PipelineID,
		Enabled:               true,
	}
	w.exporter = ledger.Exporter{ID: ExporterID, ExporterConfiguration: ledger.ExporterConfiguration{Driver: "recording", Config: json.RawMessage(`{}`)}}
	return w
}

// ---------------------------------------------------------------------------------- plumbing

func (w *World) harnessErr(format string, a ...any) {
	w.harnessErrs = append(w.harnessErrs, fmt.Sprintf(format, a...))
}

// stamp must be called with w.mu held.
func (w *World) stamp(e Event) {
	if w.closed {
		return
	}
	w.seq++
	e.Seq = w.seq
	if e.Ids == nil {
		e.Ids = []uint64{}
	}
	w.events = append(w.events, e)
	w.cond.Broadcast()
}

// Stamp records a driver-side event (Begin, Call, Ret).
func (w *World) Stamp(e Event) {
	w.mu.Lock()
	defer w.mu.Unlock()
	w.stamp(e)
}

func (w *World) perturb() {
	if w.jitterMax <= 0 {
		return
	}
	w.jmu.Lock()
	r := w.jitter.Intn(100)
	d := w.jitter.Intn(w.jitterMax + 1)
	w.jmu.Unlock()
	switch {
	case r < 40:
	case r < 70:
		runtime.Gosched()
	default:
		time.Sleep(time.Duration(d) * time.Microsecond)
	}
}

// enter registers the call, waits on its gate if it is held, and returns with w.mu HELD: the caller
// performs the effect, stamps it and calls leave.
func (w *World) enter(c *Call) {
	w.mu.Lock()
	w.inflight++
	w.mu.Unlock()
	w.perturb()
	w.mu.Lock()
	if !w.closed && (w.holdAll || (w.holdFn != nil && w.holdFn(c))) {
		w.pending = append(w.pending, c)
		w.cond.Broadcast()
		for !c.released {
			w.cond.Wait()
		}
		for i, p := range w.pending {
			if p == c {
				w.pending = append(w.pending[:i], w.pending[i+1:]...)
				break
			}
		}
	}
}

func (w *World) leave(c *Call) {
	c.done = true
	w.inflight--
	w.cond.Broadcast()
	w.mu.Unlock()
}

// waitLocked waits (w.mu held) until pred() or the timeout; returns pred().
func (w *World) waitLocked(timeout time.Duration, pred func() bool) bool {
	if pred() {
		return true
	}
	deadline := time.Now().Add(timeout)
	t := time.AfterFunc(timeout, func() {
		w.mu.Lock()
		w.cond.Broadcast()
		w.mu.Unlock()
	})
	defer t.Stop()
	for !pred() {
		if !time.Now().Before(deadline) {
			return pred()
		}
		w.cond.Wait()
	}
	return true
}

// Wait waits until pred (evaluated under the mutex) holds.
func (w *World) Wait(timeout time.Duration, pred func() bool) bool {
	w.mu.Lock()
	defer w.mu.Unlock()
	return w.waitLocked(timeout, pred)
}

// AwaitCall waits for a held call matching the predicate.
func (w *World) AwaitCall(timeout time.Duration, match func(c *Call) bool) *Call {
	w.mu.Lock()
	defer w.mu.Unlock()
	var found *Call
	w.waitLocked(timeout, func() bool {
		for _, c := range w.pending {
			if !c.released && match(c) {
				found = c
				return true
			}
		}
		return false
	})
	return found
}

// Release lets a held call take effect (verdict: Accept only) and waits until it has.
func (w *World) Release(c *Call, verdict int, timeout time.Duration) bool {
	w.mu.Lock()
	defer w.mu.Unlock()
	c.verdict = verdict
	c.released = true
	w.cond.Broadcast()
	return w.waitLocked(timeout, func() bool { return c.done })
}

// OpenGates stops holding calls and releases everything that is held.
func (w *World) OpenGates() {
	w.mu.Lock()
	defer w.mu.Unlock()
	w.holdAll = false
	w.holdFn = nil
	for _, c := range w.pending {
		c.released = true
	}
	w.cond.Broadcast()
}

func (w *World) PendingCalls() []string {
	w.mu.Lock()
	defer w.mu.Unlock()
	var out []string
	for _, c := range w.pending {
		out = append(out, c.String())
	}
	return out
}

// Produce commits one more log in the ledger.
func (w *World) Produce() uint64 {
	w.perturb()
	w.mu.Lock()
	defer w.mu.Unlock()
	w.produced++
	w.stamp(Event{K: "Produce", X: w.produced})
	return w.produced
}

func lastOf(p *uint64) uint64 {
	if p == nil {
		return 0
	}
	return *p
}

func (w *World) rowCopy() ledger.Pipeline {
	r := w.row
	if w.row.LastLogID != nil {
		v := *w.row.LastLogID
		r.LastLogID = &v
	}
	return r
}

// Snapshot of what was observed so far.
type Snapshot struct {
	Events    []Event
	Batches   []Batch
	Produced  uint64
	Persisted uint64
	Errs      []string
}

func (w *World) snapshotLocked() Snapshot {
	s := Snapshot{Produced: w.produced, Persisted: lastOf(w.row.LastLogID)}
	s.Events = append(s.Events, w.events...)
	s.Batches = append(s.Batches, w.batches...)
	s.Errs = append(s.Errs, w.harnessErrs...)
	return s
}

// ---------------------------------------------------------------------------------- replication.Storage

type storage struct{ w *World }

var _ replication.Storage = (*storage)(nil)

func (w *World) Storage() replication.Storage { return &storage{w} }

func (s *storage) OpenLedger(ctx context.Context, name string) (replication.LogFetcher, *ledger.Ledger, error) {
	w := s.w
	c := &Call{Kind: "OpenLedger", Ep: tagOf(ctx)}
	w.enter(c)
	defer w.leave(c)
	if name != LedgerName {
		w.harnessErr("OpenLedger(%q): unknown ledger", name)
	}
	w.stamp(Event{K: "OpenLedger", Ep: c.Ep})
	return &fetcher{w}, &ledger.Ledger{Name: name}, nil
}

func (s *storage) StorePipelineState(ctx context.Context, id string, lastLogID uint64) error {
	w := s.w
	c := &Call{Kind: "Store", Ep: tagOf(ctx), X: lastLogID}
	w.enter(c)
	defer w.leave(c)
	// UPDATE _system.pipelines SET last_log_id = ? WHERE id = ?   (system/store.go: unconditional)
	found := id == w.row.ID
	if found {
		v := lastLogID
		w.row.LastLogID = &v
	}
	ev := Event{K: "Store", Ep: c.Ep, X: lastLogID, Ok: found}
	w.stamp(ev)
	if !w.closed {
		w.stored = append(w.stored, ev)
	}
	if !found {
		return postgres.ErrNotFound
	}
	return nil
}

func (s *storage) UpdatePipeline(ctx context.Context, id string, o map[string]any) (*ledger.Pipeline, error) {
	w := s.w
	c := &Call{Kind: "UpdatePipeline", Ep: tagOf(ctx)}
	w.enter(c)
	defer w.leave(c)
	if id != w.row.ID {
		return nil, postgres.ErrNotFound
	}
	// UPDATE _system.pipelines SET k = v, ... WHERE id = ? RETURNING *
	for k, v := range o {
		switch k {
		case "enabled":
			b, ok := v.(bool)
			if !ok {
				w.harnessErr("UpdatePipeline: enabled=%#v", v)
			}
			w.row.Enabled = b
		case "last_log_id":
			if v == nil || (reflect.ValueOf(v).Kind() == reflect.Ptr && reflect.ValueOf(v).IsNil()) {
				w.row.LastLogID = nil
				continue
			}
			rv := reflect.ValueOf(v)
			if rv.Kind() == reflect.Ptr {
				rv = rv.Elem()
			}
			var n uint64
			switch {
			case rv.CanUint():
				n = rv.Uint()
			case rv.CanInt():
				n = uint64(rv.Int())
			default:
				w.harnessErr("UpdatePipeline: last_log_id=%#v", v)
			}
			w.row.LastLogID = &n
		case "error":
			w.row.Error, _ = v.(string)
		default:
			w.harnessErr("UpdatePipeline: unsupported column %q", k)
		}
	}
	y := uint64(0)
	if w.row.Enabled {
		y = 1
	}
	w.stamp(Event{K: "UpdatePipeline", Ep: c.Ep, X: lastOf(w.row.LastLogID), Y: y})
	r := w.rowCopy()
	return &r, nil
}

func (s *storage) GetPipeline(ctx context.Context, id string) (*ledger.Pipeline, error) {
	w := s.w
	c := &Call{Kind: "GetPipeline", Ep: tagOf(ctx)}
	w.enter(c)
	defer w.leave(c)
	if id != w.row.ID {
		return nil, postgres.ErrNotFound
	}
	w.stamp(Event{K: "GetPipeline", Ep: c.Ep, X: lastOf(w.row.LastLogID)})
	r := w.rowCopy()
	return &r, nil
}

func (s *storage) ListEnabledPipelines(ctx context.Context) ([]ledger.Pipeline, error) {
	w := s.w
	c := &Call{Kind: "ListEnabled", Ep: tagOf(ctx)}
	w.enter(c)
	defer w.leave(c)
	if !w.row.Enabled {
		w.stamp(Event{K: "ListEnabledNone", Ep: c.Ep})
		return []ledger.Pipeline{}, nil
	}
	w.stamp(Event{K: "ListEnabled", Ep: c.Ep, X: lastOf(w.row.LastLogID)})
	return []ledger.Pipeline{w.rowCopy()}, nil
}

func (s *storage) ListPipelines(ctx context.Context) (*paginate.Cursor[ledger.Pipeline], error) {
	s.w.mu.Lock()
	defer s.w.mu.Unlock()
	return &paginate.Cursor[ledger.Pipeline]{Data: []ledger.Pipeline{s.w.rowCopy()}}, nil
}

func (s *storage) CreatePipeline(ctx context.Context, pipeline ledger.Pipeline) error {
	return errors.New("harness: CreatePipeline not used")
}

func (s *storage) DeletePipeline(ctx context.Context, id string) error {
	return errors.New("harness: DeletePipeline not used")
}

func (s *storage) ListExporters(ctx context.Context) (*paginate.Cursor[ledger.Exporter], error) {
	return &paginate.Cursor[ledger.Exporter]{Data: []ledger.Exporter{s.w.exporter}}, nil
}

func (s *storage) CreateExporter(ctx context.Context, exporter ledger.Exporter) error {
	return errors.New("harness: CreateExporter not used")
}

func (s *storage) DeleteExporter(ctx context.Context, id string) error {
	return errors.New("harness: DeleteExporter not used")
}

func (s *storage) GetExporter(ctx context.Context, id string) (*ledger.Exporter, error) {
	e := s.w.exporter
	return &e, nil
}

func (s *storage) UpdateExporter(ctx context.Context, exporter ledger.Exporter) error {
	return errors.New("harness: UpdateExporter not used")
}

// ---------------------------------------------------------------------------------- log source

type fetcher struct{ w *World }

// parseQuery understands exactly the query PipelineHandler.Run builds (and close variants);
// anything else is a harness error (Inconclusive), never a guess.
func parseQuery(q common.PaginatedQuery[any]) (after uint64, pageSize uint64, err error) {
	var iq common.InitialPaginatedQuery[any]
	switch v := q.(type) {
	case common.InitialPaginatedQuery[any]:
		iq = v
	case *common.InitialPaginatedQuery[any]:
		iq = *v
	default:
		return 0, 0, fmt.Errorf("unsupported query type %T", q)
	}
	if iq.Column != "id" {
		return 0, 0, fmt.Errorf("unsupported pagination column %q", iq.Column)
	}
	if iq.Order == nil || *iq.Order != paginate.Order(paginate.OrderAsc) {
		return 0, 0, fmt.Errorf("unsupported order")
	}
	if iq.PageSize == 0 {
		return 0, 0, fmt.Errorf("page size 0")
	}
	if iq.Options.PIT != nil || iq.Options.OOT != nil {
		return 0, 0, fmt.Errorf("unsupported pit/oot")
	}
	n := 0
	if iq.Options.Builder != nil {
		werr := iq.Options.Builder.Walk(func(operator string, key string, value *any) error {
			n++
			if key != "id" {
				return fmt.Errorf("unsupported filter key %q", key)
			}
			rv := reflect.ValueOf(*value)
			if rv.Kind() == reflect.Ptr && !rv.IsNil() {
				rv = rv.Elem()
			}
			var v uint64
			switch {
			case rv.CanUint():
				v = rv.Uint()
			case rv.CanInt() && rv.Int() >= 0:
				v = uint64(rv.Int())
			default:
				return fmt.Errorf("unsupported filter value %#v", *value)
			}
			switch operator {
			case "$gt":
				after = v
			case "$gte":
				if v > 0 {
					after = v - 1
				}
			default:
				return fmt.Errorf("unsupported filter operator %q", operator)
			}
			return nil
		})
		if werr != nil {
			return 0, 0, werr
		}
		if n != 1 {
			return 0, 0, fmt.Errorf("unsupported filter with %d leaves", n)
		}
	}
	return after, iq.PageSize, nil
}

func (f *fetcher) ListLogs(ctx context.Context, q common.PaginatedQuery[any]) (*paginate.Cursor[ledger.Log], error) {
	w := f.w
	after, ps, err := parseQuery(q)
	c := &Call{Kind: "ListLogs", Ep: tagOf(ctx), X: after, Y: ps}
	w.enter(c)
	defer w.leave(c)
	if err != nil {
		w.harnessErr("ListLogs: %v", err)
		return nil, err
	}
	if c.verdict == 2 {
		// scripted storage failure: no effect, the pipeline waits and polls again
		w.stamp(Event{K: "ListLogsErr", Ep: c.Ep, X: after, Y: ps})
		return nil, errors.New("recording storage: scripted ListLogs failure")
	}
	ret := &paginate.Cursor[ledger.Log]{PageSize: int(ps), Data: []ledger.Log{}}
	ids := []uint64{}
	for id := after + 1; id <= w.produced && uint64(len(ids)) < ps; id++ {
		v := id
		ids = append(ids, id)
		ret.Data = append(ret.Data, ledger.Log{ID: &v, Type: ledger.NewTransactionLogType})
	}
	ret.HasMore = w.produced > after+ps
	w.stamp(Event{K: "ListLogs", Ep: c.Ep, X: after, Y: ps, Ids: ids, Ok: ret.HasMore})
	return ret, nil
}

// ---------------------------------------------------------------------------------- exporter

type recDriver struct{ w *World }

var _ drivers.Driver = (*recDriver)(nil)

func (d *recDriver) Start(ctx context.Context) error {
	d.w.perturb()
	d.w.mu.Lock()
	defer d.w.mu.Unlock()
	d.w.stamp(Event{K: "DriverStart", Ep: tagOf(ctx)})
	return nil
}

func (d *recDriver) Stop(ctx context.Context) error {
	d.w.mu.Lock()
	defer d.w.mu.Unlock()
	d.w.stamp(Event{K: "DriverStop", Ep: tagOf(ctx)})
	return nil
}

func (d *recDriver) Accept(ctx context.Context, logs ...drivers.LogWithLedger) ([]error, error) {
	w := d.w
	ids := make([]uint64, 0, len(logs))
	bad := false
	for _, l := range logs {
		if l.ID == nil || l.Ledger != LedgerName {
			bad = true
			continue
		}
		ids = append(ids, *l.ID)
	}
	c := &Call{Kind: "Accept", Ep: tagOf(ctx), Ids: ids}
	w.enter(c)
	defer w.leave(c)
	if bad {
		w.harnessErr("Accept: log without id or with a foreign ledger")
	}
	// Why a refusal: "forced" (schedule replay), "down"/"plan" (charged to the scenario's failure budget),
	// "ctx" (a healthy exporter honouring its context, as drivers.Batcher does: the context it was
	// given is already cancelled).  Only "ctx" refusals are outside the failure budget.
	ok, why := true, ""
	switch {
	case c.verdict == 1:
	case c.verdict == 2:
		ok, why = false, "forced"
	case w.exporterDown:
		ok, why = false, "down"
	case w.honorCancel && ctx.Err() != nil:
		ok, why = false, "ctx"
	default:
		if w.failPlan[w.acceptIdx] {
			ok, why = false, "plan"
		}
		w.acceptIdx++
	}
	w.stamp(Event{K: "Accept", Ep: c.Ep, Ids: ids, Ok: ok, Name: why})
	// count-based progress oracle (same rule as Evaluate / TraceReplication.tla): K consecutive refusals
	// of a healthy exporter to the same pipeline instance, with no batch accepted in between
	switch {
	case ok:
		w.streakEp, w.streak = c.Ep, 0
	case why == "ctx" && w.streakEp == c.Ep:
		w.streak++
	case why == "ctx":
		w.streakEp, w.streak = c.Ep, 1
	}
	if w.streak >= NoProgressK && !w.closed {
		// the verdict is in the recorded prefix: stop recording (the pipeline would retry forever)
		w.stuck = true
		w.closed = true
		w.cond.Broadcast()
	}
	if !ok {
		if why == "ctx" {
			return nil, ctx.Err()
		}
		return nil, errors.New("recording exporter: scripted failure")
	}
	if !w.closed {
		w.batches = append(w.batches, Batch{Seq: w.seq, Ep: c.Ep, Ids: ids})
	}
	return make([]error, len(logs)), nil
}

type factory struct{ w *World }

var _ drivers.Factory = (*factory)(nil)

func (f *factory) Create(ctx context.Context, id string) (drivers.Driver, json.RawMessage, error) {
	if id != ExporterID {
		return nil, nil, fmt.Errorf("harness: unknown exporter %q", id)
	}
	return &recDriver{f.w}, json.RawMessage(`{}`), nil
}

type anyConfig struct{}

func (anyConfig) ValidateConfig(string, json.RawMessage) error { return nil }
