package repl

import (
	"fmt"
	"time"
)

// Step is one entry of a schedule: an action of spec/Replication.tla as recorded by its `hist`
// variable (a = action name, e = epoch id of the spec, x/y = parameters).
type Step struct {
	A string `json:"a"`
	E int    `json:"e"`
	X uint64 `json:"x"`
	Y uint64 `json:"y"`
}

type Schedule struct {
	ID       string `json:"id"`
	PageSize int    `json:"pageSize"`
	Source   string `json:"source"`
	Steps    []Step `json:"steps"`
}

const stepTimeout = 3 * time.Second

type replayer struct {
	env      *Env
	w        *World
	epTag    map[int]int // spec epoch id -> tag of the operation that spawned it
	cur      *opHandle   // manager operation in progress
	curDone  bool
	pendOp   string // operation whose Begin step was seen but which has not been launched yet
	running  bool
	alive    bool
	curEpoch int // tag of the running pipeline instance
	stopEp   int // tag of the pipeline instance the operation in progress is stopping
}

func sameIds(ids []uint64, from, to uint64) bool {
	if from > to || uint64(len(ids)) != to-from+1 {
		return false
	}
	for i, id := range ids {
		if id != from+uint64(i) {
			return false
		}
	}
	return true
}

func (r *replayer) lastEvent(kind string) (Event, bool) {
	r.w.mu.Lock()
	defer r.w.mu.Unlock()
	for i := len(r.w.events) - 1; i >= 0; i-- {
		if r.w.events[i].K == kind {
			return r.w.events[i], true
		}
	}
	return Event{}, false
}

func (r *replayer) awaitRelease(what string, verdict int, match func(c *Call) bool) error {
	c := r.w.AwaitCall(stepTimeout, match)
	if c == nil {
		return fmt.Errorf("%s: the call never reached its gate (held: %v)", what, r.w.PendingCalls())
	}
	if !r.w.Release(c, verdict, stepTimeout) {
		return fmt.Errorf("%s: released call did not complete", what)
	}
	return nil
}

func (r *replayer) join() error {
	if r.cur == nil || r.curDone {
		return nil
	}
	r.curDone = true
	return r.env.Join(r.cur, stepTimeout)
}

func (r *replayer) launchPending() {
	if r.pendOp != "" {
		r.cur, r.curDone = r.env.Launch(r.pendOp), false
		r.pendOp = ""
	}
}

// progress: the operation in progress asked the running pipeline to stop; make the real pipeline take
// the request.  A pipeline that is idle sits in ListLogs on its gate (its poll timer is 300us) and does
// not look at its stop channel there: such a call is released with a storage error, which changes
// nothing (the code logs it, waits, and selects on the stop channel again).
//
// progress waits until the operation in progress has returned (opDone), or has reached its UpdatePipeline
// call (atUpdate), or - draining only - is legitimately waiting for the subscriber of the stopped pipeline
// whose StorePipelineState is still held on its gate (since /repo 9ae9635 stopPipeline waits for it).
func (r *replayer) progress(what string, opDone, atUpdate, draining bool) error {
	ep := r.stopEp
	deadline := time.Now().Add(stepTimeout)
	for {
		ok := false
		if opDone {
			select {
			case err := <-r.cur.done:
				r.cur.done <- err // leave it for join
				ok = true
			default:
			}
		}
		if !ok && (atUpdate || draining) {
			r.w.mu.Lock()
			for _, c := range r.w.pending {
				if atUpdate && c.Kind == "UpdatePipeline" && c.Ep == r.cur.tag {
					ok = true
				}
				if draining && c.Kind == "Store" && c.Ep == ep {
					ok = true
				}
			}
			r.w.mu.Unlock()
		}
		if ok {
			return nil
		}
		if c := r.w.AwaitCall(200*time.Microsecond, func(c *Call) bool { return c.Kind == "ListLogs" && c.Ep == ep }); c != nil {
			r.w.Release(c, 2, stepTimeout)
		}
		if time.Now().After(deadline) {
			return fmt.Errorf("%s: %s made no progress (held: %v)", what, r.cur.name, r.w.PendingCalls())
		}
	}
}

func (r *replayer) step(s Step) error {
	w := r.w
	switch s.A {
	case "Produce":
		w.Produce()
	case "RunRead", "StartRead":
		name, kind := "run", "ListEnabled"
		if s.A == "StartRead" {
			name, kind = "start", "GetPipeline"
		}
		r.cur, r.curDone = r.env.Launch(name), false
		tag := r.cur.tag
		if err := r.awaitRelease(s.A, 0, func(c *Call) bool { return c.Kind == kind && c.Ep == tag }); err != nil {
			return err
		}
		if ev, ok := r.lastEvent(kind); !ok || ev.X != s.X {
			return fmt.Errorf("%s: read last_log_id=%d, the schedule says %d", s.A, ev.X, s.X)
		}
		// the operation spawns the pipeline as soon as its OpenLedger call is released
		r.alive, r.running = true, true
	case "Spawn":
		tag := r.cur.tag
		if err := r.awaitRelease("Spawn", 0, func(c *Call) bool { return c.Kind == "OpenLedger" && c.Ep == tag }); err != nil {
			return err
		}
		r.epTag[s.E] = tag
		r.curEpoch = tag
		r.running = true
		return r.join()
	case "StopBegin":
		r.pendOp = "stop"
	case "ResetBegin":
		r.pendOp = "reset"
	case "ShutdownBegin":
		r.pendOp = "shutdown"
	case "TakeStop":
		r.launchPending()
		r.stopEp = r.curEpoch
		if err := r.progress("TakeStop", true, true, true); err != nil {
			return err
		}
		if r.cur.name != "reset" {
			r.running = false
			if r.cur.name == "shutdown" {
				r.alive = false
			}
		}
	case "StopEnd", "ShutdownRelease", "ShutdownEnd":
		r.launchPending() // shutdown of a manager without a running pipeline
		r.running = false
		if s.A != "StopEnd" {
			r.alive = false
		}
		if !r.curDone {
			if err := r.progress(s.A, true, false, false); err != nil {
				return err
			}
		}
		return r.join()
	case "ResetUpdate":
		wasRunning := r.running
		r.launchPending()
		tag := r.cur.tag
		if wasRunning {
			if err := r.progress("ResetUpdate", false, true, false); err != nil {
				return err
			}
		}
		if err := r.awaitRelease("ResetUpdate", 0, func(c *Call) bool { return c.Kind == "UpdatePipeline" && c.Ep == tag }); err != nil {
			return err
		}
		if ev, ok := r.lastEvent("UpdatePipeline"); !ok || ev.X != 0 {
			return fmt.Errorf("ResetUpdate: last_log_id=%d after the update", ev.X)
		}
		// ResetPipeline restarts a pipeline that was started (the Spawn step follows)
		r.running = wasRunning
		if !wasRunning {
			return r.join()
		}
	case "Fetch":
		tag, ok := r.epTag[s.E]
		if !ok {
			return fmt.Errorf("Fetch: unknown epoch %d", s.E)
		}
		if err := r.awaitRelease("Fetch", 0, func(c *Call) bool { return c.Kind == "ListLogs" && c.Ep == tag }); err != nil {
			return err
		}
		if ev, ok := r.lastEvent("ListLogs"); !ok || !sameIds(ev.Ids, s.X, s.Y) {
			return fmt.Errorf("Fetch: the pipeline fetched after=%d -> %v, the schedule says %d..%d", ev.X, ev.Ids, s.X, s.Y)
		}
	case "AcceptOK", "AcceptFail", "LateAcceptOK", "LateAcceptFail":
		tag, ok := r.epTag[s.E]
		if !ok {
			return fmt.Errorf("%s: unknown epoch %d", s.A, s.E)
		}
		verdict := 1
		if s.A == "AcceptFail" || s.A == "LateAcceptFail" {
			verdict = 2
		}
		return r.awaitRelease(s.A, verdict, func(c *Call) bool { return c.Kind == "Accept" && c.Ep == tag && sameIds(c.Ids, s.X, s.Y) })
	case "Store":
		tag, ok := r.epTag[s.E]
		if !ok {
			return fmt.Errorf("Store: unknown epoch %d", s.E)
		}
		return r.awaitRelease("Store", 0, func(c *Call) bool { return c.Kind == "Store" && c.Ep == tag && c.X == s.X })
	case "Retry":
		// internal step (retry timer): wait until the code has done it, i.e. the new Accept call is on its gate
		tag := r.epTag[s.E]
		if c := r.w.AwaitCall(stepTimeout, func(c *Call) bool { return c.Kind == "Accept" && c.Ep == tag && sameIds(c.Ids, s.X, s.Y) }); c == nil {
			return fmt.Errorf("Retry: the pipeline did not send the batch again (held: %v)", r.w.PendingCalls())
		}
	case "Handoff":
		// internal step (channel hand-off): done when the subscriber's StorePipelineState is on its gate
		tag := r.epTag[s.E]
		if c := r.w.AwaitCall(stepTimeout, func(c *Call) bool { return c.Kind == "Store" && c.Ep == tag && c.X == s.X }); c == nil {
			return fmt.Errorf("Handoff: the subscriber did not receive %d (held: %v)", s.X, r.w.PendingCalls())
		}
	case "Advance", "Close":
		// internal steps of the code without an observable effect of their own
	default:
		return fmt.Errorf("unknown schedule action %q", s.A)
	}
	return nil
}

// RunSchedule replays a schedule (a behaviour of the specification, e.g. a TLC counterexample) on the
// real code: every storage / exporter call is held on its gate and released in the order of the
// schedule; manager operations are launched where the schedule says.  When the schedule is exhausted
// (or cannot be followed any further) the gates are opened, the pipeline is (re)started if the schedule
// left it stopped, and the scenario runs to quiescence.
func RunSchedule(sched Schedule) Result {
	t0 := time.Now()
	res := Result{ID: sched.ID, Kind: "schedule", Params: map[string]any{"source": sched.Source, "pageSize": sched.PageSize, "steps": len(sched.Steps)}}
	w := NewWorld(1, 0)
	w.holdAll = true
	w.honorCancel = true // once the gates are open the exporter is healthy and honours its context
	env := NewEnv(w, uint64(sched.PageSize))
	w.Stamp(Event{K: "Begin", X: uint64(sched.PageSize), Name: sched.ID})
	defer env.Cleanup()
	r := &replayer{env: env, w: w, epTag: map[int]int{}}
	for i, s := range sched.Steps {
		if err := r.step(s); err != nil {
			res.Diverged = fmt.Sprintf("step %d %s(e=%d,x=%d,y=%d): %v", i+1, s.A, s.E, s.X, s.Y, err)
			break
		}
		res.Followed = i + 1
	}
	w.OpenGates()
	status, why := "ok", ""
	fail := func(err error) Result {
		w.mu.Lock()
		s := w.snapshotLocked()
		w.closed = true
		w.mu.Unlock()
		conclude(&res, "inconclusive", err.Error(), false, s)
		res.WallMs = time.Since(t0).Milliseconds()
		return res
	}
	// an operation whose Begin step was the last thing the schedule said about it has had no effect yet:
	// it is simply not called
	r.pendOp = ""
	if err := r.join(); err != nil {
		return fail(err)
	}
	if res.Diverged == "" {
		if !r.alive {
			if err := env.Do("run"); err != nil {
				return fail(err)
			}
		} else if !r.running {
			if err := env.Do("start"); err != nil {
				return fail(err)
			}
		}
	}
	s, q := env.Quiesce(opTimeout)
	if !q {
		status, why = "inconclusive", "no quiescence within the bounded wait"
	}
	conclude(&res, status, why, q, s)
	res.WallMs = time.Since(t0).Milliseconds()
	return res
}
