package repl

import (
	"context"
	"fmt"
	"io"
	"math/rand"
	"runtime"
	"time"

	logging "github.com/formancehq/go-libs/v5/pkg/observe/log"

	"github.com/formancehq/ledger/internal/replication"
)

// Result of one scenario.
type Result struct {
	ID          string      `json:"id"`
	Kind        string      `json:"kind"` // random | schedule
	Params      any         `json:"params"`
	Status      string      `json:"status"` // ok | violation | inconclusive
	Why         string      `json:"why,omitempty"`
	Findings    []Finding   `json:"findings,omitempty"`
	Observation Observation `json:"observation"`
	Events      []Event     `json:"-"`
	NEvents     int         `json:"nEvents"`
	Followed    int         `json:"followed,omitempty"` // schedule replay: entries executed
	Diverged    string      `json:"diverged,omitempty"` // schedule replay: why it stopped following
	WallMs      int64       `json:"wallMs"`
}

const opTimeout = 5 * time.Second

// Env runs the real Manager over a World.
type Env struct {
	W       *World
	mgr     *replication.Manager
	nextTag int
	stopped bool // Manager.Stop was called on mgr (it must not be called twice)
	page    uint64
	logger  logging.Logger
}

func NewEnv(w *World, pageSize uint64) *Env {
	return &Env{W: w, page: pageSize, logger: logging.NewDefaultLogger(io.Discard, false, false, false)}
}

func (e *Env) newManager() *replication.Manager {
	return replication.NewManager(
		e.W.Storage(),
		&factory{e.W},
		e.logger,
		anyConfig{},
		replication.WithSyncPeriod(time.Hour), // no periodic re-synchronisation during a scenario
		replication.WithPipelineOptions(
			replication.WithPullPeriod(500*time.Microsecond),
			replication.WithPushRetryPeriod(300*time.Microsecond),
			replication.WithLogsPageSize(e.page),
		),
	)
}

// opHandle is a manager operation running in its own goroutine.
type opHandle struct {
	name string
	tag  int
	done chan error
}

// Launch starts op in a goroutine (it may block on gates).  The Call event is stamped before.
func (e *Env) Launch(name string) *opHandle {
	e.nextTag++
	tag := e.nextTag
	h := &opHandle{name: name, tag: tag, done: make(chan error, 1)}
	ctx := WithTag(context.Background(), tag)
	e.W.Stamp(Event{K: "Call", Ep: tag, Name: name})
	switch name {
	case "run":
		m := e.newManager()
		e.mgr = m
		e.stopped = false
		go m.Run(ctx)
		go func() {
			select {
			case <-m.Started():
				h.done <- nil
			case <-time.After(10 * opTimeout):
				h.done <- fmt.Errorf("manager did not start")
			}
		}()
	case "stop":
		m := e.mgr
		go func() { h.done <- m.StopPipeline(ctx, PipelineID) }()
	case "start":
		m := e.mgr
		go func() { h.done <- m.StartPipeline(ctx, PipelineID) }()
	case "reset":
		m := e.mgr
		go func() { h.done <- m.ResetPipeline(ctx, PipelineID) }()
	case "shutdown":
		m := e.mgr
		e.stopped = true
		go func() { h.done <- m.Stop(ctx) }()
	default:
		panic("unknown op " + name)
	}
	return h
}

// Join waits for the operation to return and stamps Ret.  timeout -> error (Inconclusive for the caller).
func (e *Env) Join(h *opHandle, timeout time.Duration) error {
	select {
	case err := <-h.done:
		e.W.Stamp(Event{K: "Ret", Ep: h.tag, Name: h.name, Ok: err == nil})
		if err != nil {
			return fmt.Errorf("%s returned: %w", h.name, err)
		}
		return nil
	case <-time.After(timeout):
		return fmt.Errorf("%s did not return within %s", h.name, timeout)
	}
}

func (e *Env) Do(name string) error {
	return e.Join(e.Launch(name), opTimeout)
}

// caughtUp: no decorated call is in progress, the running pipeline instance has polled the log with
// position = last produced id since the last production (so everything before was acknowledged to it, or
// it started there), and its subscriber has stored the last id that was acknowledged to it.
func (w *World) caughtUpLocked() bool {
	if w.inflight != 0 || len(w.pending) != 0 {
		return false
	}
	lastOpen, lastProduce := 0, 0
	for _, ev := range w.events {
		switch ev.K {
		case "OpenLedger":
			lastOpen = ev.Ep
		case "Produce":
			lastProduce = ev.Seq
		}
	}
	if lastOpen == 0 {
		return false
	}
	polled := false
	for i := len(w.events) - 1; i >= 0 && w.events[i].Seq > lastProduce; i-- {
		ev := w.events[i]
		if ev.K == "ListLogs" && ev.Ep == lastOpen && ev.X == w.produced && len(ev.Ids) == 0 {
			polled = true
			break
		}
	}
	if !polled {
		return false
	}
	var lastAck uint64
	for _, b := range w.batches {
		if b.Ep == lastOpen && len(b.Ids) > 0 {
			lastAck = b.Ids[len(b.Ids)-1]
		}
	}
	if lastAck == 0 {
		return true
	}
	for _, s := range w.stored {
		if s.Ep == lastOpen && s.X == lastAck {
			return true
		}
	}
	return false
}

// significantLocked counts the events other than empty polls.
func (w *World) significantLocked() int {
	n := 0
	for _, ev := range w.events {
		if !(ev.K == "ListLogs" && len(ev.Ids) == 0) {
			n++
		}
	}
	return n
}

// Quiesce waits (bounded) for the pipeline to catch up, then closes the recording.
func (e *Env) Quiesce(timeout time.Duration) (Snapshot, bool) {
	w := e.W
	deadline := time.Now().Add(timeout)
	for {
		w.mu.Lock()
		ok := w.waitLocked(time.Until(deadline), func() bool { return w.stuck || w.caughtUpLocked() })
		if w.stuck {
			// the count-based progress oracle has its verdict (recording already closed): no need to wait
			s := w.snapshotLocked()
			w.mu.Unlock()
			return s, false
		}
		n := w.significantLocked()
		w.mu.Unlock()
		if !ok {
			break
		}
		// let goroutines that are between two decorated calls show up
		time.Sleep(2 * time.Millisecond)
		w.mu.Lock()
		if w.inflight <= 1 && w.significantLocked() == n {
			s := w.snapshotLocked()
			w.closed = true
			w.mu.Unlock()
			return s, true
		}
		w.mu.Unlock()
		if time.Now().After(deadline) {
			break
		}
	}
	w.mu.Lock()
	s := w.snapshotLocked()
	w.closed = true
	w.mu.Unlock()
	return s, false
}

// Cleanup stops the manager (not recorded).
func (e *Env) Cleanup() {
	e.W.mu.Lock()
	e.W.closed = true
	e.W.mu.Unlock()
	e.W.OpenGates()
	if e.mgr != nil && !e.stopped {
		e.stopped = true
		ctx, cancel := context.WithTimeout(context.Background(), opTimeout)
		_ = e.mgr.Stop(ctx)
		cancel()
	}
}

// conclude evaluates the oracle on what was recorded.  A failed predicate on a recorded prefix is a
// violation whatever stopped the scenario; harness problems are always inconclusive.
func conclude(res *Result, status, why string, quiescent bool, s Snapshot) {
	res.Events = s.Events
	res.NEvents = len(s.Events)
	obs, findings := Evaluate(s, quiescent)
	res.Observation = obs
	res.Findings = nil
	harness := ""
	for _, f := range findings {
		if f.Oracle == "HarnessConsistency" {
			harness = f.Text
			continue
		}
		res.Findings = append(res.Findings, f)
	}
	if len(s.Errs) > 0 {
		harness = "harness: " + s.Errs[0]
	}
	switch {
	case harness != "":
		res.Status, res.Why = "inconclusive", harness
	case len(res.Findings) > 0:
		res.Status, res.Why = "violation", why
	default:
		res.Status, res.Why = status, why
	}
}

// ---------------------------------------------------------------------------------- random scenarios

type RandomParams struct {
	Seed        int64    `json:"seed"`
	NLogs       int      `json:"nLogs"`
	PageSize    int      `json:"pageSize"`
	Ops         []string `json:"ops"`
	FailIdx     []int    `json:"failIdx"`
	HonorCancel bool     `json:"honorCancel"`
	JitterUs    int      `json:"jitterUs"`
}

func GenRandomParams(seed int64) RandomParams {
	r := rand.New(rand.NewSource(seed))
	p := RandomParams{Seed: seed}
	p.NLogs = 1 + r.Intn(8)
	p.PageSize = 1 + r.Intn(3)
	nOps := r.Intn(5)
	kinds := []string{"stopstart", "reset", "restart", "stopresetstart", "reset", "stopstart"}
	for i := 0; i < nOps; i++ {
		p.Ops = append(p.Ops, kinds[r.Intn(len(kinds))])
	}
	switch r.Intn(3) {
	case 1:
		for i := 0; i < 12; i++ {
			if r.Intn(5) == 0 {
				p.FailIdx = append(p.FailIdx, i)
			}
		}
	case 2:
		for i := 0; i < 12; i++ {
			if r.Intn(2) == 0 {
				p.FailIdx = append(p.FailIdx, i)
			}
		}
	}
	p.HonorCancel = r.Intn(3) != 0 // the healthy exporter honours its context in 2 scenarios out of 3
	p.JitterUs = []int{0, 50, 200, 600}[r.Intn(4)]
	return p
}

func pause(r *rand.Rand, maxUs int) {
	switch r.Intn(4) {
	case 0:
	case 1:
		runtime.Gosched()
	default:
		time.Sleep(time.Duration(r.Intn(maxUs+1)) * time.Microsecond)
	}
}

// RunRandom runs one seeded random scenario on the real code.
func RunRandom(id string, p RandomParams) Result {
	t0 := time.Now()
	res := Result{ID: id, Kind: "random", Params: p}
	w := NewWorld(p.Seed, p.JitterUs)
	w.honorCancel = p.HonorCancel
	for _, i := range p.FailIdx {
		w.failPlan[i] = true
	}
	env := NewEnv(w, uint64(p.PageSize))
	w.Stamp(Event{K: "Begin", X: uint64(p.PageSize), Y: uint64(p.NLogs), Name: id})
	defer env.Cleanup()

	finish := func(status, why string, quiescent bool, s Snapshot) Result {
		conclude(&res, status, why, quiescent, s)
		res.WallMs = time.Since(t0).Milliseconds()
		return res
	}
	abort := func(why string) Result {
		w.mu.Lock()
		s := w.snapshotLocked()
		w.closed = true
		w.mu.Unlock()
		return finish("inconclusive", why, false, s)
	}

	if err := env.Do("run"); err != nil {
		return abort(err.Error())
	}

	prodDone := make(chan struct{})
	go func() {
		defer close(prodDone)
		r := rand.New(rand.NewSource(p.Seed*7919 + 1))
		for i := 0; i < p.NLogs; i++ {
			pause(r, 400)
			w.Produce()
		}
	}()

	r := rand.New(rand.NewSource(p.Seed*104729 + 2))
	for _, op := range p.Ops {
		pause(r, 1500)
		var seq []string
		switch op {
		case "stopstart":
			seq = []string{"stop", "start"}
		case "reset":
			seq = []string{"reset"}
		case "restart":
			seq = []string{"shutdown", "run"}
		case "stopresetstart":
			seq = []string{"stop", "reset", "start"}
		}
		for i, name := range seq {
			if i > 0 {
				pause(r, 500)
			}
			if err := env.Do(name); err != nil {
				return abort(err.Error())
			}
		}
	}
	select {
	case <-prodDone:
	case <-time.After(opTimeout):
		return abort("producer stuck")
	}
	s, q := env.Quiesce(opTimeout)
	if !q {
		return finish("inconclusive", "no quiescence within the bounded wait", false, s)
	}
	return finish("ok", "", true, s)
}
