package repl

import "fmt"

// NoProgressK: see InvProgressAfterFailures (same constant in spec/TraceReplication.cfg).
const NoProgressK = 5

// Finding is a failed predicate of the end-to-end observation oracle.
type Finding struct {
	Oracle string `json:"oracle"` // name of the predicate (same names as the TLA+ invariants)
	Seq    int    `json:"seq"`    // event at which it failed (0 = final observation)
	Text   string `json:"text"`
	// StaleStoreAfterReset: the trace contains, before Seq, a StorePipelineState issued by a subscriber
	// of a pipeline started before a ResetPipeline and taking effect after that reset's UpdatePipeline.
	StaleStoreAfterReset bool `json:"staleStoreAfterReset"`
}

// Observation is the final observation of a scenario.
type Observation struct {
	Produced       uint64  `json:"produced"`
	Persisted      uint64  `json:"persisted"`
	Batches        []Batch `json:"batches"`
	AckedEver      uint64  `json:"ackedEver"`
	AckedSince     uint64  `json:"ackedSinceReset"`
	GotSinceReset  []uint64 `json:"gotSinceReset"`
	Resets         int     `json:"resets"`
	Quiescent      bool    `json:"quiescent"`
	CompleteSince  bool    `json:"completeSinceReset"`
}

// Evaluate replays the stamped events and checks, at every event, the predicates that are part of C33:
//
//	InvBatchContiguous            every acknowledged batch is an increasing run of consecutive ids and
//	                              starts right after the previous acknowledged batch of the same pipeline
//	                              instance (the first one: right after the position it fetched from)
//	InvNoGapSinceReset            the ids acknowledged to pipelines started since the last reset are 1..k
//	InvPersistedLeAcked           last_log_id <= highest id ever acknowledged
//	InvPersistedLeAckedSinceReset last_log_id <= highest id acknowledged since the last reset
//
//	InvProgressAfterFailures      count-based form of "every log is delivered despite failures": refusals that
//	                              are not charged to the scenario's failure budget (the exporter is healthy and
//	                              only honours its context: Accept event with name "ctx") never come
//	                              NoProgressK times in a row for one pipeline instance without an accepted batch
//	                              in between.  A stopped instance can be refused once (its context is cancelled
//	                              by the stop); Replication.tla's fairness says a healthy exporter accepts the
//	                              next attempt.  Attempts are counted, never time.
//
// and on the final observation (only if the scenario reached quiescence):
//
//	FinalComplete                 every produced log was acknowledged since the last reset
func Evaluate(s Snapshot, quiescent bool) (Observation, []Finding) {
	var findings []Finding
	type epoch struct {
		pos     uint64 // last id acknowledged to this pipeline instance, or its fetch position
		hasPos  bool
		old     bool
		started int
	}
	eps := map[int]*epoch{}
	get := func(e int) *epoch {
		if eps[e] == nil {
			eps[e] = &epoch{}
		}
		return eps[e]
	}
	gotSince := map[uint64]bool{}
	var ackedEver, ackedSince, persisted uint64
	resets := 0
	stale := false
	streakEp, streak := 0, 0
	add := func(oracle string, seq int, format string, a ...any) {
		findings = append(findings, Finding{Oracle: oracle, Seq: seq, Text: fmt.Sprintf(format, a...), StaleStoreAfterReset: stale})
	}
	prefix := func() (uint64, bool) {
		var max uint64
		for id := range gotSince {
			if id > max {
				max = id
			}
		}
		for id := uint64(1); id <= max; id++ {
			if !gotSince[id] {
				return max, false
			}
		}
		return max, true
	}
	for _, ev := range s.Events {
		switch ev.K {
		case "OpenLedger":
			get(ev.Ep)
		case "UpdatePipeline":
			// ResetPipeline's UPDATE: everything started before is "before the reset"
			resets++
			for _, e := range eps {
				e.old = true
			}
			gotSince = map[uint64]bool{}
			ackedSince = 0
			persisted = ev.X
			if persisted != 0 {
				add("ResetClears", ev.Seq, "ResetPipeline's update left last_log_id=%d", persisted)
			}
		case "ListLogs":
			e := get(ev.Ep)
			if !e.hasPos {
				e.pos, e.hasPos = ev.X, true
			}
		case "Accept":
			if !ev.Ok {
				if ev.Name == "ctx" {
					if streakEp == ev.Ep {
						streak++
					} else {
						streakEp, streak = ev.Ep, 1
					}
					if streak == NoProgressK {
						add("InvProgressAfterFailures", ev.Seq, "pipeline instance %d: %d consecutive Accept attempts (batch %v) refused by a healthy exporter "+
							"because the context it was given is already cancelled, no batch accepted in between", ev.Ep, streak, ev.Ids)
					}
				}
				continue
			}
			streakEp, streak = ev.Ep, 0
			e := get(ev.Ep)
			okRun := len(ev.Ids) > 0
			for i := 1; i < len(ev.Ids); i++ {
				if ev.Ids[i] != ev.Ids[i-1]+1 {
					okRun = false
				}
			}
			if !okRun {
				add("InvBatchContiguous", ev.Seq, "batch %v is not a run of consecutive increasing ids", ev.Ids)
				continue
			}
			if !e.hasPos {
				add("InvBatchContiguous", ev.Seq, "batch %v accepted from a pipeline that never fetched", ev.Ids)
			} else if ev.Ids[0] != e.pos+1 {
				add("InvBatchContiguous", ev.Seq, "pipeline instance %d: batch %v accepted after position %d", ev.Ep, ev.Ids, e.pos)
			}
			last := ev.Ids[len(ev.Ids)-1]
			e.pos, e.hasPos = last, true
			if last > ackedEver {
				ackedEver = last
			}
			if !e.old {
				for _, id := range ev.Ids {
					gotSince[id] = true
				}
				if last > ackedSince {
					ackedSince = last
				}
				if max, ok := prefix(); !ok {
					add("InvNoGapSinceReset", ev.Seq, "after %d reset(s): acknowledged ids up to %d with a gap (batch %v of pipeline instance %d)", resets, max, ev.Ids, ev.Ep)
				}
			}
		case "Store":
			if !ev.Ok {
				continue
			}
			persisted = ev.X
			if e := eps[ev.Ep]; e != nil && e.old && resets > 0 {
				stale = true
			}
			if persisted > ackedEver {
				add("InvPersistedLeAcked", ev.Seq, "last_log_id=%d > highest acknowledged id %d", persisted, ackedEver)
			}
			if persisted > ackedSince {
				add("InvPersistedLeAckedSinceReset", ev.Seq, "last_log_id=%d (stored by pipeline instance %d) > highest id acknowledged since the last reset %d", persisted, ev.Ep, ackedSince)
			}
		}
	}
	obs := Observation{Produced: s.Produced, Persisted: s.Persisted, Batches: s.Batches, AckedEver: ackedEver,
		AckedSince: ackedSince, Resets: resets, Quiescent: quiescent}
	for id := uint64(1); id <= s.Produced; id++ {
		if gotSince[id] {
			obs.GotSinceReset = append(obs.GotSinceReset, id)
		}
	}
	obs.CompleteSince = uint64(len(obs.GotSinceReset)) == s.Produced
	if persisted != s.Persisted {
		add("HarnessConsistency", 0, "replayed last_log_id %d != stored %d", persisted, s.Persisted)
	}
	if quiescent && !obs.CompleteSince {
		add("FinalComplete", 0, "quiescent, %d logs produced, acknowledged since the last reset: %v", s.Produced, obs.GotSinceReset)
	}
	return obs, findings
}
