package schemacase

import (
	"context"
	"fmt"
	"strings"

	"github.com/formancehq/ledger/verifharness/drive"
)

// Probe runs every request of a case without comparing anything and returns what happened
// (used to explore the real behaviour and by --replay --verbose).
func Probe(c *Case) (res Result) {
	res = Result{ID: c.ID, Mode: c.Mode, StepsTotal: len(c.Steps), Disagreements: []Disagreement{}}
	env, err := drive.NewEnv(drive.EnvOptions{Scale: "1", Strict: c.Mode == "strict"})
	if err != nil {
		res.HarnessError = "NewEnv: " + err.Error()
		return
	}
	defer env.Close()
	if err := env.CreateLedger(Ledger, "b1", nil); err != nil {
		res.HarnessError = err.Error()
		return
	}
	ctx := context.Background()
	for i := range c.Steps {
		s := &c.Steps[i]
		env.SetNow(2 + i)
		method, path, body, err := Render(c, &s.Req)
		if err != nil {
			res.HarnessError = fmt.Sprintf("step %d: %v", i+1, err)
			return
		}
		r := env.St.Do(ctx, "w1", method, path, body, nil)
		tr := StepTrace{Method: method, Path: path, Body: string(body), Status: r.Status, Class: Classify(r)}
		if tr.Class != "" {
			tr.Resp = strings.TrimSpace(string(r.Body))
		}
		obs, err := Observe(ctx, env.St)
		if err != nil {
			res.HarnessError = fmt.Sprintf("step %d: observe: %v", i+1, err)
		}
		tr.Obs = obs
		res.Trace = append(res.Trace, tr)
		res.StepsRun = i + 1
	}
	res.Unsupported = env.PG.UnsupportedSeen()
	return
}
