package drive

import (
	"context"
	"encoding/json"
	"fmt"
	"math/big"
	"net/url"
	"os"
	"sort"
	"strconv"
	"strings"
	"sync"
	"sync/atomic"
	"time"

	ledgercontroller "github.com/formancehq/ledger/internal/controller/ledger"
	"github.com/formancehq/ledger/pkg/accounts"
	"github.com/formancehq/ledger/pkg/assets"
	"github.com/formancehq/ledger/verifharness/pgmodel"
	"github.com/formancehq/ledger/verifharness/stack"
)

var (
	bootOnce sync.Once
	bootDB   *pgmodel.DB
	bootErr  error
)

// BootBuckets are migrated once per process; every case starts from a deep copy.
var BootBuckets = []string{"b1", "b2"}

func bootstrapped() (*pgmodel.DB, error) {
	bootOnce.Do(func() {
		bootDB, bootErr = stack.Bootstrap(context.Background(), BootBuckets...)
	})
	return bootDB, bootErr
}

// Env is one fresh database + real stack, with a harness-owned logical clock.
type Env struct {
	St    *stack.Stack
	PG    *pgmodel.DB
	Scale Scale
	now   atomic.Int64
	Feat  map[string]map[string]string // ledger -> features
	evSeen int
}

type EnvOptions struct {
	Scale  string
	Strict bool
}

func NewEnv(opts EnvOptions) (*Env, error) {
	boot, err := bootstrapped()
	if err != nil {
		return nil, err
	}
	pg := boot.Clone()
	e := &Env{PG: pg, Feat: map[string]map[string]string{}}
	if opts.Scale == "" {
		opts.Scale = "1"
	}
	e.Scale = NewScale(opts.Scale)
	e.now.Store(1)
	pg.Clock = func() time.Time { return TimeOf(int(e.now.Load())) }
	so := stack.Options{}
	if opts.Strict {
		so.SchemaEnforcement = ledgercontroller.SchemaEnforcementStrict
	}
	e.St = stack.Open(pg, so)
	if os.Getenv("VH_DEBUG") != "" {
		pg.Observer = func(ev pgmodel.StmtEvent) {
			if ev.Err != "" || os.Getenv("VH_DEBUG") == "2" {
				sql := ev.SQL
				if len(sql) > 1200 {
					sql = sql[:1200]
				}
				fmt.Fprintf(os.Stderr, "SQL sess=%d worker=%s err=%s\n    %s\n", ev.Sess, ev.Worker, ev.Err, sql)
			}
		}
	}
	return e, nil
}

// newEnvOn builds an Env over an existing database state (used to branch many schedules off one prefix).
func newEnvOn(pg *pgmodel.DB, scale string, feat map[string]map[string]string) (*Env, error) {
	e := &Env{PG: pg, Feat: feat}
	if scale == "" {
		scale = "1"
	}
	e.Scale = NewScale(scale)
	e.now.Store(1)
	pg.Clock = func() time.Time { return TimeOf(int(e.now.Load())) }
	e.St = stack.Open(pg, stack.Options{})
	if os.Getenv("VH_DEBUG") != "" {
		pg.Observer = func(ev pgmodel.StmtEvent) {
			if ev.Err != "" || os.Getenv("VH_DEBUG") == "2" {
				fmt.Fprintf(os.Stderr, "SQL sess=%d worker=%s err=%s\n    %.300s\n", ev.Sess, ev.Worker, ev.Err, ev.SQL)
			}
		}
	}
	return e, nil
}

// execNoClock is Exec without touching the clock (concurrent requests share one instant).
func (e *Env) execNoClock(ctx context.Context, worker string, op Op) Res {
	saved := e.now.Load()
	op.Now = int(saved)
	return e.Exec(ctx, worker, op)
}

func (e *Env) Close() { e.St.Close() }

func (e *Env) SetNow(u int) { e.now.Store(int64(u)) }

// CreateLedger creates a ledger through the real API.
func (e *Env) CreateLedger(name, bucket string, features map[string]string) error {
	body := map[string]any{"bucket": bucket}
	if features != nil {
		body["features"] = features
	}
	r := e.St.Do(nil, "setup", "POST", "/v2/"+name, body, nil)
	if r.Status != 204 {
		return fmt.Errorf("create ledger %s: %d %s", name, r.Status, string(r.Body))
	}
	e.Feat[name] = features
	return nil
}

func (e *Env) hasFeature(l, f, v string) bool {
	ft := e.Feat[l]
	if ft == nil {
		// defaults
		switch f {
		case "MOVES_HISTORY":
			return v == "ON"
		default:
			return v == "SYNC"
		}
	}
	got, ok := ft[f]
	if !ok {
		switch f {
		case "MOVES_HISTORY":
			return v == "ON"
		default:
			return v == "SYNC"
		}
	}
	return got == v
}

// ---------------------------------------------------------------------------- executing an operation

// RenderScript renders requested postings as Numscript: one send statement per posting.
// RenderScriptVarD renders ps with the destination of the last posting passed as the account variable $d.
func (e *Env) RenderScriptVarD(ps []Posting) string {
	if len(ps) == 0 {
		return e.RenderScript(ps)
	}
	body := e.RenderScript(ps[:len(ps)-1])
	last := e.RenderScript(ps[len(ps)-1:])
	i := strings.LastIndex(last, "destination = @")
	j := strings.Index(last[i:], "\n")
	last = last[:i] + "destination = $d" + last[i+j:]
	return "vars {\n  account $d\n}\n" + body + last
}

func (e *Env) RenderScript(ps []Posting) string {
	var sb strings.Builder
	for _, p := range ps {
		amt := e.Scale.Up(p.N).String()
		src := "@" + p.S
		switch {
		case p.S == "world":
		case p.B < 0:
			src += " allowing unbounded overdraft"
		case p.B > 0:
			src += fmt.Sprintf(" allowing overdraft up to [%s %s]", p.As, e.Scale.Up(p.B).String())
		}
		fmt.Fprintf(&sb, "send [%s %s] (\n  source = %s\n  destination = @%s\n)\n", p.As, amt, src, p.D)
	}
	return sb.String()
}

// RenderScriptMeta renders the metadata a script sets itself, in a deterministic order.
func RenderScriptMeta(op Op) string {
	var sb strings.Builder
	ks := make([]string, 0, len(op.SMeta))
	for k := range op.SMeta {
		ks = append(ks, k)
	}
	sort.Strings(ks)
	for _, k := range ks {
		fmt.Fprintf(&sb, "set_tx_meta(%q, %q)\n", k, op.SMeta[k])
	}
	as := make([]string, 0, len(op.SAMeta))
	for a := range op.SAMeta {
		as = append(as, a)
	}
	sort.Strings(as)
	for _, a := range as {
		ks = ks[:0]
		for k := range op.SAMeta[a] {
			ks = append(ks, k)
		}
		sort.Strings(ks)
		for _, k := range ks {
			fmt.Fprintf(&sb, "set_account_meta(@%s, %q, %q)\n", a, k, op.SAMeta[a][k])
		}
	}
	return sb.String()
}

func rawNum(b *big.Int) json.RawMessage { return json.RawMessage(b.String()) }

// Exec issues op against the real API and classifies the response.
func (e *Env) Exec(ctx context.Context, worker string, op Op) Res {
	op.Norm()
	e.SetNow(op.Now)
	hdr := map[string]string{}
	if op.IK != "" {
		hdr["Idempotency-Key"] = op.IK
	}
	prefix := "/v2/" + op.L
	q := url.Values{}
	if op.Dry {
		q.Set("dryRun", "true")
	}
	var r *stack.Resp
	switch op.K {
	case "create":
		body := map[string]any{}
		if op.Script {
			if op.VarD != "" {
				body["script"] = map[string]any{"plain": e.RenderScriptVarD(op.Ps) + RenderScriptMeta(op), "vars": map[string]any{"d": op.VarD}}
			} else {
				body["script"] = map[string]any{"plain": e.RenderScript(op.Ps) + RenderScriptMeta(op), "vars": map[string]any{}}
			}
		} else {
			ps := make([]any, 0, len(op.Ps))
			force := false
			for _, p := range op.Ps {
				ps = append(ps, map[string]any{"source": p.S, "destination": p.D, "asset": p.As, "amount": rawNum(e.Scale.Up(p.N))})
				if p.B < 0 && p.S != "world" {
					force = true
				}
			}
			body["postings"] = ps
			if force {
				q.Set("force", "true")
			}
		}
		if op.Ts != 0 {
			body["timestamp"] = FmtInstant(op.Ts)
		}
		if op.Ref != "" {
			body["reference"] = op.Ref
		}
		body["metadata"] = op.Meta
		if len(op.AMeta) > 0 {
			body["accountMetadata"] = op.AMeta
		}
		if strings.HasPrefix(op.API, "bulk") {
			// the same request as the single element of a bulk (atomic or not)
			if q.Get("force") == "true" {
				body["force"] = true
			}
			return e.execBulkOne(ctx, worker, op, "CREATE_TRANSACTION", body)
		}
		r = e.St.Do(ctx, worker, "POST", prefix+"/transactions?"+q.Encode(), body, hdr)
	case "blocks":
		return e.RunBlocks(ctx, worker, op.ID)
	case "import":
		exp := e.St.Do(ctx, worker, "POST", "/v2/"+op.Src+"/logs/export", nil, nil)
		if exp.Status != 200 {
			return Res{Err: "harness", Status: exp.Status, Msg: "export failed: " + string(exp.Body)}
		}
		stream := exp.Body
		if op.ID > 1 {
			// a client sending only the tail of the journal: the logs with id >= op.ID
			var sb strings.Builder
			for _, ln := range strings.Split(string(exp.Body), "\n") {
				var hdr struct {
					ID int `json:"id"`
				}
				if strings.TrimSpace(ln) == "" || json.Unmarshal([]byte(ln), &hdr) != nil || hdr.ID < op.ID {
					continue
				}
				sb.WriteString(ln + "\n")
			}
			stream = []byte(sb.String())
		}
		r = e.St.Do(ctx, worker, "POST", prefix+"/logs/import", stream, map[string]string{"Content-Type": "application/octet-stream"})
	case "revert":
		if op.Force {
			q.Set("force", "true")
		}
		if op.AtEff {
			q.Set("atEffectiveDate", "true")
		}
		var body any
		if len(op.Meta) > 0 {
			body = map[string]any{"metadata": op.Meta}
		}
		r = e.St.Do(ctx, worker, "POST", fmt.Sprintf("%s/transactions/%d/revert?%s", prefix, op.ID, q.Encode()), body, hdr)
	case "txmeta":
		r = e.St.Do(ctx, worker, "POST", fmt.Sprintf("%s/transactions/%d/metadata?%s", prefix, op.ID, q.Encode()), op.Meta, hdr)
	case "untxmeta":
		r = e.St.Do(ctx, worker, "DELETE", fmt.Sprintf("%s/transactions/%d/metadata/%s?%s", prefix, op.ID, url.PathEscape(op.Key), q.Encode()), nil, hdr)
	case "acmeta":
		r = e.St.Do(ctx, worker, "POST", fmt.Sprintf("%s/accounts/%s/metadata?%s", prefix, url.PathEscape(op.Addr), q.Encode()), op.Meta, hdr)
	case "unacmeta":
		r = e.St.Do(ctx, worker, "DELETE", fmt.Sprintf("%s/accounts/%s/metadata/%s?%s", prefix, url.PathEscape(op.Addr), url.PathEscape(op.Key), q.Encode()), nil, hdr)
	default:
		return Res{Err: "harness", Msg: "unknown op " + op.K}
	}
	return e.classify(op, r)
}

// execBulkOne sends one element through POST /_bulk (atomic when op.API == "bulk-atomic") and classifies
// the element's result like a stand-alone response.
func (e *Env) execBulkOne(ctx context.Context, worker string, op Op, action string, data map[string]any) Res {
	el := map[string]any{"action": action, "data": data}
	if op.IK != "" {
		el["ik"] = op.IK
	}
	path := "/v2/" + op.L + "/_bulk"
	if op.API == "bulk-atomic" {
		path += "?atomic=true"
	}
	r := e.St.Do(ctx, worker, "POST", path, []any{el}, nil)
	res := Res{Status: r.Status}
	v, err := r.JSON()
	if err != nil {
		res.Err = "internal"
		return res
	}
	m, _ := v.(map[string]any)
	arr, _ := m["data"].([]any)
	if len(arr) != 1 {
		if r.Status >= 500 {
			res.Err = "internal"
		} else {
			res.Err = "validation"
		}
		res.Code, _ = m["errorCode"].(string)
		res.Msg, _ = m["errorMessage"].(string)
		return res
	}
	em, _ := arr[0].(map[string]any)
	if rt, _ := em["responseType"].(string); rt == "ERROR" {
		code, _ := em["errorCode"].(string)
		msg, _ := em["errorDescription"].(string)
		fake := &stack.Resp{Status: 400, Header: r.Header}
		b, _ := json.Marshal(map[string]any{"errorCode": code, "errorMessage": msg})
		fake.Body = b
		if code == "INTERNAL" {
			fake.Status = 500
		}
		if code == "CONFLICT" {
			fake.Status = 409
		}
		if code == "NOT_FOUND" {
			fake.Status = 404
		}
		return e.classify(op, fake)
	}
	res.OK = true
	if d, ok := em["data"].(map[string]any); ok {
		if id, ok := d["id"].(json.Number); ok {
			n, _ := strconv.Atoi(string(id))
			res.ID = n
		}
	}
	return res
}

func (e *Env) classify(op Op, r *stack.Resp) Res {
	res := Res{Status: r.Status}
	res.Hit = r.Header.Get("Idempotency-Hit") == "true"
	if r.Status >= 200 && r.Status < 300 {
		res.OK = true
		if op.K == "create" || op.K == "revert" {
			v, err := r.JSON()
			if err == nil {
				if m, ok := v.(map[string]any); ok {
					if d, ok := m["data"].(map[string]any); ok {
						if id, ok := d["id"].(json.Number); ok {
							n, _ := strconv.Atoi(string(id))
							res.ID = n
						}
					}
				}
			}
		}
		return res
	}
	v, _ := r.JSON()
	code, msg := "", ""
	if m, ok := v.(map[string]any); ok {
		code, _ = m["errorCode"].(string)
		msg, _ = m["errorMessage"].(string)
	}
	res.Code, res.Msg = code, msg
	switch {
	case r.Status >= 500:
		res.Err = "internal"
	case code == "INSUFFICIENT_FUND":
		res.Err = "insufficient"
	case code == "CONFLICT" && strings.Contains(msg, "reference"):
		res.Err = "ref_conflict"
	case code == "CONFLICT":
		res.Err = "ik_conflict"
	case code == "VALIDATION" && strings.Contains(strings.ToLower(msg), "idempotency"):
		res.Err = "ik_invalid"
	case code == "NOT_FOUND":
		res.Err = "not_found"
	case code == "ALREADY_REVERT":
		res.Err = "already_reverted"
	case code == "IMPORT":
		res.Err = "import"
	case code == "NO_POSTINGS":
		res.Err = "no_postings"
	case code == "METADATA_OVERRIDE":
		res.Err = "meta_override"
	case code == "COMPILATION_FAILED", code == "VALIDATION" && strings.Contains(msg, "failed to set vars from JSON"):
		res.Err = "compile" // v1 answers VALIDATION where v2 answers COMPILATION_FAILED for an invalid script variable
	default:
		res.Err = "validation"
	}
	return res
}

// ---------------------------------------------------------------------------- observing a ledger through the API

type obsErr struct{ msg string }

func (o *obsErr) Error() string { return o.msg }

func (e *Env) getAll(path string) ([]any, error) {
	var out []any
	next := ""
	for page := 0; page < 200; page++ {
		p := path
		if next != "" {
			sep := "?"
			if strings.Contains(path, "?") {
				sep = "&"
			}
			// only the cursor must be sent when following
			base := path
			if i := strings.Index(path, "?"); i >= 0 {
				base = path[:i]
			}
			_ = sep
			p = base + "?cursor=" + url.QueryEscape(next)
		}
		r := e.St.Do(nil, "obs", "GET", p, nil, nil)
		if r.Status != 200 {
			return nil, &obsErr{fmt.Sprintf("GET %s -> %d %s", p, r.Status, string(r.Body))}
		}
		v, err := r.JSON()
		if err != nil {
			return nil, err
		}
		cur, _ := v.(map[string]any)["cursor"].(map[string]any)
		if cur == nil {
			return nil, &obsErr{"no cursor in " + string(r.Body)}
		}
		data, _ := cur["data"].([]any)
		out = append(out, data...)
		n, _ := cur["next"].(string)
		if n == "" {
			return out, nil
		}
		next = n
	}
	return nil, &obsErr{"pagination did not terminate: " + path}
}

func (e *Env) num(v any) (int, error) {
	switch t := v.(type) {
	case json.Number:
		b, ok := new(big.Int).SetString(string(t), 10)
		if !ok {
			return 0, fmt.Errorf("non-integer amount %q in API response", string(t))
		}
		return e.Scale.Down(b)
	case nil:
		return 0, fmt.Errorf("missing amount")
	}
	return 0, fmt.Errorf("amount of unexpected JSON type %T", v)
}

func plainInt(v any) int {
	if n, ok := v.(json.Number); ok {
		i, _ := strconv.Atoi(string(n))
		return i
	}
	return 0
}

func instantField(m map[string]any, k string) (int, error) {
	s, ok := m[k].(string)
	if !ok || s == "" {
		return 0, nil
	}
	return ParseInstant(s)
}

func metaOf(v any) map[string]string {
	out := map[string]string{}
	if m, ok := v.(map[string]any); ok {
		for k, x := range m {
			if s, ok := x.(string); ok {
				out[k] = s
			} else {
				b, _ := json.Marshal(x)
				out[k] = string(b)
			}
		}
	}
	return out
}

// volsOf converts {"acct": {"asset": {"input":..,"output":..}}} into a sorted list.
func (e *Env) volsOf(v any) ([]Vol, error) {
	out := []Vol{}
	m, _ := v.(map[string]any)
	for a, x := range m {
		am, _ := x.(map[string]any)
		for as, y := range am {
			ym, _ := y.(map[string]any)
			i, err := e.num(ym["input"])
			if err != nil {
				return nil, err
			}
			o, err := e.num(ym["output"])
			if err != nil {
				return nil, err
			}
			if b, ok := ym["balance"]; ok {
				bb, err := e.num(b)
				if err != nil {
					return nil, err
				}
				if bb != i-o {
					return nil, fmt.Errorf("balance %d != input %d - output %d for %s/%s", bb, i, o, a, as)
				}
			}
			out = append(out, Vol{A: a, As: as, I: i, O: o})
		}
	}
	sortVols(out)
	return out, nil
}

const revertKey = "com.formance.spec/state/reverts"

func (e *Env) txOf(m map[string]any) (TxObs, error) {
	t := TxObs{ID: plainInt(m["id"]), Ps: []Posting4{}, WF: true}
	var err error
	if t.Ts, err = instantField(m, "timestamp"); err != nil {
		return t, err
	}
	if t.Ins, err = instantField(m, "insertedAt"); err != nil {
		return t, err
	}
	if t.Upd, err = instantField(m, "updatedAt"); err != nil {
		return t, err
	}
	if t.RevAt, err = instantField(m, "revertedAt"); err != nil {
		return t, err
	}
	t.Ref, _ = m["reference"].(string)
	t.Rev, _ = m["reverted"].(bool)
	t.Meta = metaOf(m["metadata"])
	if rv, ok := t.Meta[revertKey]; ok {
		n, err := strconv.Atoi(rv)
		if err != nil {
			return t, fmt.Errorf("revert mark %q is not a transaction id", rv)
		}
		t.Reverts = n
		delete(t.Meta, revertKey)
	}
	ps, _ := m["postings"].([]any)
	for _, x := range ps {
		pm, _ := x.(map[string]any)
		p := Posting4{}
		p.S, _ = pm["source"].(string)
		p.D, _ = pm["destination"].(string)
		p.As, _ = pm["asset"].(string)
		n, err := e.num(pm["amount"])
		if err != nil {
			return t, err
		}
		p.N = n
		if !accounts.ValidateAddress(p.S) || !accounts.ValidateAddress(p.D) || !assets.IsValid(p.As) || n < 0 {
			t.WF = false
		}
		t.Ps = append(t.Ps, p)
	}
	if t.PCV, err = e.volsOf(m["postCommitVolumes"]); err != nil {
		return t, err
	}
	if t.PCEV, err = e.volsOf(m["postCommitEffectiveVolumes"]); err != nil {
		return t, err
	}
	if t.PreCV, err = e.volsOf(m["preCommitVolumes"]); err != nil {
		return t, err
	}
	return t, nil
}

func (e *Env) assetVols(v any, addr string) ([]Vol, error) {
	return e.volsOf(map[string]any{addr: v})
}

// Observe reads the whole API-visible state of a ledger.
func (e *Env) Observe(l string) (LedgerObs, error) {
	obs := LedgerObs{Txs: []TxObs{}, Accts: []AcctObs{}, Logs: []LogObs{}, Vols: []VolB{}, Agg: []AggB{}}
	moves := e.hasFeature(l, "MOVES_HISTORY", "ON")
	eff := moves && e.hasFeature(l, "MOVES_HISTORY_POST_COMMIT_EFFECTIVE_VOLUMES", "SYNC")
	obs.Flags = Flags{Moves: moves, Eff: eff, EffSync: e.hasFeature(l, "MOVES_HISTORY_POST_COMMIT_EFFECTIVE_VOLUMES", "SYNC"),
		Hash: e.hasFeature(l, "HASH_LOGS", "SYNC"), Async: e.hasFeature(l, "HASH_LOGS", "ASYNC"),
		AMH: e.hasFeature(l, "ACCOUNT_METADATA_HISTORY", "SYNC"), TMH: e.hasFeature(l, "TRANSACTION_METADATA_HISTORY", "SYNC")}
	txPath := "/v2/" + l + "/transactions?pageSize=100&expand=volumes"
	if eff {
		txPath += "&expand=effectiveVolumes"
	}
	txs, err := e.getAll(txPath)
	if err != nil {
		return obs, err
	}
	for _, x := range txs {
		t, err := e.txOf(x.(map[string]any))
		if err != nil {
			return obs, err
		}
		obs.Txs = append(obs.Txs, t)
	}
	sort.Slice(obs.Txs, func(i, j int) bool { return obs.Txs[i].ID < obs.Txs[j].ID })

	acPath := "/v2/" + l + "/accounts?pageSize=100"
	if moves {
		acPath += "&expand=volumes"
	}
	if eff {
		acPath += "&expand=effectiveVolumes"
	}
	acs, err := e.getAll(acPath)
	if err != nil {
		return obs, err
	}
	for _, x := range acs {
		m := x.(map[string]any)
		a := AcctObs{Meta: metaOf(m["metadata"]), Vol: []Vol{}, EVol: []Vol{}}
		a.Addr, _ = m["address"].(string)
		if a.First, err = instantField(m, "firstUsage"); err != nil {
			return obs, err
		}
		if a.Ins, err = instantField(m, "insertionDate"); err != nil {
			return obs, err
		}
		if a.Upd, err = instantField(m, "updatedAt"); err != nil {
			return obs, err
		}
		if v, ok := m["volumes"]; ok && v != nil {
			if a.Vol, err = e.assetVols(v, a.Addr); err != nil {
				return obs, err
			}
		}
		if v, ok := m["effectiveVolumes"]; ok && v != nil {
			if a.EVol, err = e.assetVols(v, a.Addr); err != nil {
				return obs, err
			}
		}
		obs.Accts = append(obs.Accts, a)
	}
	sort.Slice(obs.Accts, func(i, j int) bool { return obs.Accts[i].Addr < obs.Accts[j].Addr })

	logs, err := e.getAll("/v2/" + l + "/logs?pageSize=100")
	if err != nil {
		return obs, err
	}
	for _, x := range logs {
		m := x.(map[string]any)
		lg := LogObs{ID: plainInt(m["id"]), Meta: map[string]string{}}
		lg.Type, _ = m["type"].(string)
		lg.IK, _ = m["idempotencyKey"].(string)
		if lg.Date, err = instantField(m, "date"); err != nil {
			return obs, err
		}
		if h, ok := m["hash"].(string); ok && h != "" {
			lg.Hashed = true
			lg.Hash = h
		}
		d, _ := m["data"].(map[string]any)
		switch lg.Type {
		case "NEW_TRANSACTION":
			if tx, ok := d["transaction"].(map[string]any); ok {
				lg.Tx = plainInt(tx["id"])
			}
		case "REVERTED_TRANSACTION":
			if tx, ok := d["transaction"].(map[string]any); ok {
				lg.Tx = plainInt(tx["id"])
			}
		case "SET_METADATA", "DELETE_METADATA":
			tt, _ := d["targetType"].(string)
			if tt == "TRANSACTION" {
				lg.Tx = plainInt(d["targetId"])
			} else {
				lg.Tgt, _ = d["targetId"].(string)
			}
			lg.Key, _ = d["key"].(string)
			if md, ok := d["metadata"]; ok {
				lg.Meta = metaOf(md)
			}
		}
		raw, _ := json.Marshal(m)
		lg.Raw = raw
		obs.Logs = append(obs.Logs, lg)
	}
	sort.Slice(obs.Logs, func(i, j int) bool { return obs.Logs[i].ID < obs.Logs[j].ID })
	obs.Chain = chainOf(obs.Logs)
	if obs.Chain == nil {
		obs.Chain = []int{}
	}

	vols, err := e.getAll("/v2/" + l + "/volumes?pageSize=100")
	if err != nil {
		return obs, err
	}
	for _, x := range vols {
		m := x.(map[string]any)
		v := VolB{}
		v.A, _ = m["account"].(string)
		v.As, _ = m["asset"].(string)
		if v.I, err = e.num(m["input"]); err != nil {
			return obs, err
		}
		if v.O, err = e.num(m["output"]); err != nil {
			return obs, err
		}
		if v.B, err = e.num(m["balance"]); err != nil {
			return obs, err
		}
		obs.Vols = append(obs.Vols, v)
	}
	r := e.St.Do(nil, "obs", "GET", "/v2/"+l+"/aggregate/balances", nil, nil)
	if r.Status != 200 {
		return obs, &obsErr{fmt.Sprintf("aggregate/balances -> %d %s", r.Status, string(r.Body))}
	}
	v, err := r.JSON()
	if err != nil {
		return obs, err
	}
	if d, ok := v.(map[string]any)["data"].(map[string]any); ok {
		keys := make([]string, 0, len(d))
		for k := range d {
			keys = append(keys, k)
		}
		sort.Strings(keys)
		for _, k := range keys {
			b, err := e.num(d[k])
			if err != nil {
				return obs, err
			}
			obs.Agg = append(obs.Agg, AggB{As: k, B: b})
		}
	}
	return obs, nil
}

// NewEvents returns the listener events recorded since the last call, abstracted.
func (e *Env) NewEvents() []EvObs {
	evs := e.St.Listener.Snapshot()
	out := []EvObs{}
	for _, ev := range evs[e.evSeen:] {
		o := EvObs{Kind: ev.Kind, L: ev.Ledger}
		if m, ok := ev.Payload.(map[string]any); ok {
			switch ev.Kind {
			case "committed_transaction":
				if b, err := json.Marshal(m["tx"]); err == nil {
					var t struct {
						ID *int `json:"id"`
					}
					_ = json.Unmarshal(b, &t)
					if t.ID != nil {
						o.Tx = *t.ID
					}
				}
			case "reverted_transaction":
				if b, err := json.Marshal(m["revert"]); err == nil {
					var t struct {
						ID *int `json:"id"`
					}
					_ = json.Unmarshal(b, &t)
					if t.ID != nil {
						o.Tx = *t.ID
					}
				}
			}
		}
		out = append(out, o)
	}
	e.evSeen = len(evs)
	return out
}
