package drive

import (
	"context"
	"fmt"
	"sort"
	"strings"
	"sync"
	"time"

	"github.com/formancehq/ledger/verifharness/pgmodel"
)

// ---------------------------------------------------------------------------- statement-level scheduler

type wstate int

const (
	wRunning wstate = iota
	wAtGate
	wBlocked
	wDone
)

// Decision is one scheduling decision: which workers could run a statement, who was chosen.
type Decision struct {
	Cands  []string `json:"cands"`
	Chosen string   `json:"chosen"`
	Last   string   `json:"last"`
	SQL    string   `json:"sql,omitempty"`
}

// Sched implements pgmodel.Gate: it serialises the statements of the managed workers and lets a
// policy choose, at every statement boundary, which worker proceeds. Statements are atomic in pgmodel, so
// this explores interleavings at exactly the granularity at which Postgres concurrency is observable.
type Sched struct {
	pg      *pgmodel.DB
	mu      sync.Mutex
	state   map[string]wstate
	pending map[string]string // worker -> SQL it is about to run
	release map[string]chan struct{}
	Log     []Decision
	managed map[string]bool
	OnError func(error) // called once when the run is abandoned (all blocked, livelock), before workers run freely
}

func NewSched(pg *pgmodel.DB, workers []string) *Sched {
	s := &Sched{pg: pg, state: map[string]wstate{}, pending: map[string]string{}, release: map[string]chan struct{}{}, managed: map[string]bool{}}
	for _, w := range workers {
		s.managed[w] = true
		s.state[w] = wRunning
		s.release[w] = make(chan struct{})
	}
	return s
}

// statements that cannot interact with another session are not scheduling points
func passthrough(sql string) bool {
	u := strings.ToUpper(strings.TrimSpace(sql))
	return u == "BEGIN" || strings.HasPrefix(u, "SAVEPOINT") || strings.HasPrefix(u, "RELEASE")
}

func (s *Sched) Before(worker string, sess int, sql string) {
	if !s.managed[worker] || passthrough(sql) {
		return
	}
	s.mu.Lock()
	s.state[worker] = wAtGate
	s.pending[worker] = sql
	ch := s.release[worker]
	s.mu.Unlock()
	<-ch
}

func (s *Sched) Blocked(worker string, sess int, onSess int) {
	if !s.managed[worker] {
		return
	}
	s.mu.Lock()
	s.state[worker] = wBlocked
	s.mu.Unlock()
}

func (s *Sched) Unblocked(worker string, sess int) {
	if !s.managed[worker] {
		return
	}
	s.mu.Lock()
	s.state[worker] = wRunning
	s.mu.Unlock()
}

func (s *Sched) done(worker string) {
	s.mu.Lock()
	s.state[worker] = wDone
	s.mu.Unlock()
}

// settle waits until every managed worker is at the gate, durably blocked, or done.
func (s *Sched) settle(timeout time.Duration) ([]string, bool, error) {
	deadline := time.Now().Add(timeout)
	for {
		s.mu.Lock()
		quiet := true
		var cands []string
		allDone := true
		for w, st := range s.state {
			switch st {
			case wRunning:
				quiet = false
				allDone = false
			case wAtGate:
				cands = append(cands, w)
				allDone = false
			case wBlocked:
				allDone = false
			}
		}
		var blocked []string
		if quiet {
			for w, st := range s.state {
				if st == wBlocked {
					blocked = append(blocked, w)
				}
			}
		}
		s.mu.Unlock()
		if quiet {
			for _, w := range blocked {
				if !s.pg.WillStayBlocked(w) {
					quiet = false // it is about to wake up and come back to the gate
				}
			}
		}
		if quiet {
			sort.Strings(cands)
			return cands, allDone, nil
		}
		if time.Now().After(deadline) {
			return nil, false, fmt.Errorf("scheduler: workers did not settle within %s", timeout)
		}
		time.Sleep(20 * time.Microsecond)
	}
}

// Policy chooses among candidates; it receives the decision index.
type Policy func(i int, cands []string, last string) string

// Run executes the worker bodies under the policy and returns when all are done.
func (s *Sched) Run(bodies map[string]func(), policy Policy) error {
	s.pg.SetGate(s)
	defer s.pg.SetGate(nil)
	var wg sync.WaitGroup
	for w, body := range bodies {
		wg.Add(1)
		go func(w string, body func()) {
			defer wg.Done()
			defer s.done(w)
			body()
		}(w, body)
	}
	last := ""
	var err error
	for i := 0; ; i++ {
		cands, allDone, e := s.settle(20 * time.Second)
		if e != nil {
			err = e
			break
		}
		if allDone {
			break
		}
		if len(cands) == 0 {
			err = fmt.Errorf("scheduler: every live worker is blocked (undetected deadlock?)")
			break
		}
		if i > 6000 {
			err = fmt.Errorf("scheduler: no termination after %d statements (livelock)", i)
			break
		}
		ch := policy(i, cands, last)
		ok := false
		for _, c := range cands {
			if c == ch {
				ok = true
			}
		}
		if !ok {
			ch = cands[0]
		}
		s.mu.Lock()
		s.Log = append(s.Log, Decision{Cands: cands, Chosen: ch, Last: last, SQL: abbreviate(s.pending[ch], 60)})
		s.state[ch] = wRunning
		rc := s.release[ch]
		s.mu.Unlock()
		last = ch
		rc <- struct{}{}
	}
	if err != nil {
		if s.OnError != nil {
			s.OnError(err) // e.g. cancel the requests' context so that a retry loop ends
		}
		// let everybody finish freely
		s.mu.Lock()
		for w := range s.managed {
			s.managed[w] = false
		}
		chans := s.release
		s.mu.Unlock()
		for _, ch := range chans {
			select {
			case ch <- struct{}{}:
			default:
			}
		}
		go func() {
			for {
				for _, ch := range chans {
					select {
					case ch <- struct{}{}:
					default:
					}
				}
				time.Sleep(time.Millisecond)
			}
		}()
	}
	wg.Wait()
	return err
}

func abbreviate(s string, n int) string {
	s = strings.Join(strings.Fields(s), " ")
	if len(s) > n {
		return s[:n]
	}
	return s
}

// PrefixPolicy follows `prefix` (choices by decision index) and then never preempts: it keeps running the
// last worker while it can, else the lexicographically first candidate.
//
// Fairness: a worker that has run FairnessBound statements in a row while another worker could run is
// retrying against something only that other worker can change (e.g. a deadlock-retry loop against a lock
// holder that is never scheduled). No real scheduler starves a runnable session for ever, so the turn passes
// to the next candidate (it shows up as one more preemption in the recorded schedule).
const FairnessBound = 150

func PrefixPolicy(prefix []string) Policy {
	streak := 0
	return func(i int, cands []string, last string) string {
		if i < len(prefix) {
			return prefix[i]
		}
		for k, c := range cands {
			if c == last {
				streak++
				if streak > FairnessBound && len(cands) > 1 {
					streak = 0
					return cands[(k+1)%len(cands)]
				}
				return c
			}
		}
		streak = 0
		return cands[0]
	}
}

func preemptions(log []Decision) int {
	n := 0
	for _, d := range log {
		if d.Last != "" && d.Chosen != d.Last {
			for _, c := range d.Cands {
				if c == d.Last {
					n++
					break
				}
			}
		}
	}
	return n
}

// ---------------------------------------------------------------------------- concurrent cases

// ConcCase: a sequential prefix, then the operations of Par issued concurrently (one worker each).
type ConcCase struct {
	N        int               `json:"case"`
	Family   string            `json:"family"`
	Scale    string            `json:"scale"`
	Features map[string]string `json:"features,omitempty"`
	Prefix   []Op              `json:"prefix"`
	Par      []Op              `json:"par"`
	Schedule []string          `json:"schedule,omitempty"` // replay: exact choices
	// Extra ledgers besides l1 (bucket b1); Target is the ledger the concurrent line is about (default l1)
	Extra  []CaseLedger `json:"extra,omitempty"`
	Target string       `json:"target,omitempty"`
	// Quiesce > 0 (C34): once every parallel operation has returned, the block builder runs to completion
	// with this maximal block size, and only then is the state observed
	Quiesce int `json:"quiesce,omitempty"`
}

func (c ConcCase) ledgerNames() []string {
	out := []string{"l1"}
	for _, e := range c.Extra {
		out = append(out, e.Name)
	}
	return out
}

func (c ConcCase) target() string {
	if c.Target != "" {
		return c.Target
	}
	return "l1"
}

func observeMany(env *Env, names []string) (map[string]LedgerObs, error) {
	st := map[string]LedgerObs{}
	for _, n := range names {
		o, err := env.Observe(n)
		if err != nil {
			return nil, err
		}
		st[n] = o
	}
	return st, nil
}

// ConcResult of one schedule.
type ConcResult struct {
	Ress     []Res      `json:"ress"`
	CSeq     []int      `json:"cseq"` // commit order of each parallel op (0 = did not commit)
	Post     map[string]LedgerObs `json:"post"`
	Log      []Decision `json:"log"`
	Preempt  int        `json:"preempt"`
	Chain    []int      `json:"chain"` // for each log (id order): id of the log whose hash it chains from (-1 none/unknown)
	Blk      BlkMap     `json:"blk"`
	Quiet    bool       `json:"quiet"`
	SchedErr string     `json:"schedErr,omitempty"`
}

// ConcBase holds the state after the prefix; every schedule starts from a clone of it.
type ConcBase struct {
	Case   ConcCase
	Lines  []Line // trace lines of the prefix (first is the reset line)
	snap   *pgmodel.DB
	scale  Scale
	now    int
	feat   map[string]map[string]string
	evSeen int
}

func PrepareConc(c ConcCase) (*ConcBase, error) {
	env, err := NewEnv(EnvOptions{Scale: c.Scale})
	if err != nil {
		return nil, &Inconclusive{Msg: "bootstrap: " + err.Error()}
	}
	defer env.Close()
	if err := env.CreateLedger("l1", "b1", c.Features); err != nil {
		return nil, &Inconclusive{Msg: err.Error()}
	}
	for _, e := range c.Extra {
		if err := env.CreateLedger(e.Name, e.Bucket, e.Features); err != nil {
			return nil, &Inconclusive{Msg: err.Error()}
		}
	}
	names := c.ledgerNames()
	st0, err := observeMany(env, names)
	if err != nil {
		return nil, obsFailure(env, err)
	}
	reset := Line{Case: c.N, Reset: true, St: st0, Ev: []EvObs{}}
	reset.Op.Norm()
	lines := []Line{reset}
	ctx := context.Background()
	now := 1
	for _, op := range c.Prefix {
		op.Norm()
		res := env.Exec(ctx, "w0", op)
		evs := env.NewEvents()
		for j := range evs {
			evs[j].AfterCm = true // not examined for the prefix
		}
		st, err := observeMany(env, names)
		if err != nil {
			return nil, obsFailure(env, err)
		}
		lines = append(lines, Line{Case: c.N, Op: op, Res: res, St: st, Ev: evs})
		now = op.Now
	}
	if u := env.PG.UnsupportedSeen(); len(u) > 0 {
		return nil, &Inconclusive{Msg: fmt.Sprintf("unsupported SQL in pgmodel: %v", u)}
	}
	env.St.Close()
	return &ConcBase{Case: c, Lines: lines, snap: env.PG.Clone(), scale: env.Scale, now: now, feat: env.Feat}, nil
}

// RunSchedule executes the parallel operations under the given choice prefix on a clone of the base state.
func (b *ConcBase) RunSchedule(prefix []string) (*ConcResult, error) {
	env, err := newEnvOn(b.snap.Clone(), b.Case.Scale, b.feat)
	if err != nil {
		return nil, err
	}
	defer env.Close()
	n := len(b.Case.Par)
	workers := make([]string, n)
	for i := range workers {
		workers[i] = fmt.Sprintf("p%d", i+1)
	}
	res := &ConcResult{Ress: make([]Res, n), CSeq: make([]int, n)}
	var cmu sync.Mutex
	commitOf := map[string][]int64{}
	env.PG.OnCommit = func(sess int, worker string, seq int64) {
		cmu.Lock()
		commitOf[worker] = append(commitOf[worker], seq)
		cmu.Unlock()
	}
	sched := NewSched(env.PG, workers)
	bodies := map[string]func(){}
	ctx, cancel := context.WithCancel(context.Background())
	defer cancel()
	sched.OnError = func(error) { cancel() }
	for i, w := range workers {
		i, w := i, w
		op := b.Case.Par[i]
		op.Norm()
		bodies[w] = func() {
			defer func() {
				if r := recover(); r != nil {
					res.Ress[i] = Res{Err: "panic", Msg: fmt.Sprint(r)}
				}
			}()
			res.Ress[i] = env.execNoClock(ctx, w, op)
		}
	}
	if len(b.Case.Par) > 0 {
		env.SetNow(b.Case.Par[0].Now)
	}
	serr := sched.Run(bodies, PrefixPolicy(prefix))
	env.PG.OnCommit = nil
	res.Log = sched.Log
	res.Preempt = preemptions(sched.Log)
	if serr != nil {
		res.SchedErr = serr.Error()
		if !strings.Contains(serr.Error(), "livelock") {
			return res, &Inconclusive{Msg: serr.Error()}
		}
		// A livelock is a behaviour of the code, reproducible under this schedule: the only runnable request
		// executed thousands of statements without ever answering (e.g. an unbounded retry loop against a lock
		// it keeps alive itself).  The requests were cancelled; the ones that did not answer are recorded as
		// "stuck", which no serial order explains (StepC_*_Serializable fails for the family's property).
		for i := range res.Ress {
			if !res.Ress[i].OK && (res.Ress[i].Err == "" || res.Ress[i].Err == "internal" || res.Ress[i].Status == 0) {
				res.Ress[i] = Res{Err: "stuck", Msg: serr.Error()}
			}
		}
	}
	// commit order: rank of the last commit of each worker among all commits
	type wc struct {
		i   int
		seq int64
	}
	var cs []wc
	cmu.Lock()
	for i, w := range workers {
		if seqs := commitOf[w]; len(seqs) > 0 && res.Ress[i].OK && !res.Ress[i].Hit && !b.Case.Par[i].Dry {
			cs = append(cs, wc{i, seqs[len(seqs)-1]})
		}
	}
	cmu.Unlock()
	sort.Slice(cs, func(a, c int) bool { return cs[a].seq < cs[c].seq })
	for rank, x := range cs {
		res.CSeq[x.i] = rank + 1
	}
	if b.Case.Quiesce > 0 {
		if r := env.RunBlocks(ctx, "w0", b.Case.Quiesce); !r.OK {
			return res, &Inconclusive{Msg: "block runner: " + r.Msg}
		}
		res.Quiet = true
	}
	post, err := observeMany(env, b.Case.ledgerNames())
	if err != nil {
		return res, obsFailure(env, err)
	}
	res.Post = post
	if res.Blk, err = env.BlocksOf(b.Case.ledgerNames()); err != nil {
		return res, &Inconclusive{Msg: "observing blocks: " + err.Error()}
	}
	res.Chain = chainOf(post[b.Case.target()].Logs)
	if u := env.PG.UnsupportedSeen(); len(u) > 0 {
		return res, &Inconclusive{Msg: fmt.Sprintf("unsupported SQL in pgmodel: %v", u)}
	}
	return res, nil
}

// ExploreBounded runs every schedule with at most maxPreempt preemptions (depth-first over choice
// prefixes), up to maxRuns schedules; visit is called for each completed schedule.
func (b *ConcBase) ExploreBounded(maxPreempt, maxRuns int, visit func(prefix []string, r *ConcResult) error) (int, bool, error) {
	type item struct{ prefix []string }
	stack := []item{{nil}}
	seen := map[string]bool{}
	runs := 0
	for len(stack) > 0 {
		if runs >= maxRuns {
			return runs, false, nil
		}
		it := stack[len(stack)-1]
		stack = stack[:len(stack)-1]
		r, err := b.RunSchedule(it.prefix)
		if err != nil {
			return runs, false, err
		}
		runs++
		full := make([]string, len(r.Log))
		for i, d := range r.Log {
			full[i] = d.Chosen
		}
		key := strings.Join(full, ",")
		if seen[key] {
			continue
		}
		seen[key] = true
		if err := visit(full, r); err != nil {
			return runs, false, err
		}
		// children: deviate at a decision index >= len(prefix)
		for i := len(r.Log) - 1; i >= len(it.prefix); i-- {
			d := r.Log[i]
			for _, alt := range d.Cands {
				if alt == d.Chosen {
					continue
				}
				np := append(append([]string(nil), full[:i]...), alt)
				// cost of the new prefix
				cost := 0
				last := ""
				for j, ch := range np {
					cands := r.Log[j].Cands
					if last != "" && ch != last {
						for _, c := range cands {
							if c == last {
								cost++
								break
							}
						}
					}
					last = ch
				}
				if cost <= maxPreempt {
					stack = append(stack, item{np})
				}
			}
		}
	}
	return runs, true, nil
}
