package drive

// Bulk requests through the real endpoint POST /v2/{ledger}/_bulk (properties C32, C31): rendering of
// abstract elements, classification of the per-element results, replay of TLC-enumerated bulk cases
// (Flow A), seeded random bulk histories recorded as NDJSON traces for spec/TraceBulk.tla (Flow B), and
// a statement-gate scenario that forces out-of-order completion of the elements of a parallel bulk.

import (
	"bytes"
	"context"
	"encoding/json"
	"fmt"
	"io"
	"math/rand"
	"net/http/httptest"
	"net/url"
	"os"
	"strconv"
	"strings"
	"sync"
	"time"

	"github.com/formancehq/go-libs/v5/pkg/authn/jwt"
	logging "github.com/formancehq/go-libs/v5/pkg/observe/log"

	"github.com/formancehq/ledger/internal/api"
	"github.com/formancehq/ledger/internal/api/bulking"
	"github.com/formancehq/ledger/verifharness/pgmodel"
	"github.com/formancehq/ledger/verifharness/stack"
)

var apiQuietLogger = logging.NewDefaultLogger(io.Discard, false, false, false)

// APIDo issues one request against a router assembled like the production one (internal/api/module.go):
// with a bulker factory. stack.Stack.Router() passes none, so POST /_bulk cannot be served through
// stack.Do. The router is built per call (it is cheap, and caching it per environment would pin every
// forked database in memory).
func (e *Env) APIDo(ctx context.Context, worker, method, path string, body any, headers map[string]string) *stack.Resp {
	var rd io.Reader
	switch b := body.(type) {
	case nil:
	case string:
		rd = strings.NewReader(b)
	case []byte:
		rd = bytes.NewReader(b)
	default:
		data, err := json.Marshal(b)
		if err != nil {
			panic(err)
		}
		rd = bytes.NewReader(data)
	}
	if ctx == nil {
		ctx = context.Background()
	}
	ctx = pgmodel.WithWorker(ctx, worker)
	if os.Getenv("VH_DEBUG") != "" {
		ctx = logging.ContextWithLogger(ctx, logging.NewDefaultLogger(os.Stderr, true, false, false))
	} else {
		ctx = logging.ContextWithLogger(ctx, apiQuietLogger)
	}
	req := httptest.NewRequest(method, path, rd).WithContext(ctx)
	if rd != nil {
		req.Header.Set("Content-Type", "application/json")
	}
	for k, v := range headers {
		req.Header.Set(k, v)
	}
	router := api.NewRouter(e.St.Sys, jwt.NewNoAuth(), nil, "verif", os.Getenv("VH_DEBUG") != "",
		api.WithExporters(false),
		api.WithBulkerFactory(bulking.NewDefaultBulkerFactory(bulking.WithParallelism(10))),
	)
	rec := httptest.NewRecorder()
	router.ServeHTTP(rec, req)
	return &stack.Resp{Status: rec.Code, Header: rec.Header(), Body: rec.Body.Bytes()}
}

// bulkElement renders one abstract operation as a bulk element.
func (e *Env) bulkElement(op Op) map[string]any {
	op.Norm()
	el := map[string]any{}
	if op.IK != "" {
		el["ik"] = op.IK
	}
	switch op.K {
	case "create":
		el["action"] = "CREATE_TRANSACTION"
		el["data"] = e.createBody(op, nil)
	case "revert":
		el["action"] = "REVERT_TRANSACTION"
		d := map[string]any{"id": op.ID, "force": op.Force, "atEffectiveDate": op.AtEff}
		if len(op.Meta) > 0 {
			d["metadata"] = op.Meta
		}
		el["data"] = d
	case "txmeta":
		el["action"] = "ADD_METADATA"
		el["data"] = map[string]any{"targetType": "TRANSACTION", "targetId": op.ID, "metadata": op.Meta}
	case "acmeta":
		el["action"] = "ADD_METADATA"
		el["data"] = map[string]any{"targetType": "ACCOUNT", "targetId": op.Addr, "metadata": op.Meta}
	case "untxmeta":
		el["action"] = "DELETE_METADATA"
		el["data"] = map[string]any{"targetType": "TRANSACTION", "targetId": op.ID, "key": op.Key}
	case "unacmeta":
		el["action"] = "DELETE_METADATA"
		el["data"] = map[string]any{"targetType": "ACCOUNT", "targetId": op.Addr, "key": op.Key}
	}
	return el
}

func classifyCode(code, msg string) string {
	switch {
	case code == "INSUFFICIENT_FUND":
		return "insufficient"
	case code == "CONFLICT" && strings.Contains(msg, "reference"):
		return "ref_conflict"
	case code == "CONFLICT":
		return "ik_conflict"
	case code == "VALIDATION" && strings.Contains(strings.ToLower(msg), "idempotency"):
		return "ik_invalid"
	case code == "NOT_FOUND":
		return "not_found"
	case code == "ALREADY_REVERT":
		return "already_reverted"
	case code == "NO_POSTINGS":
		return "no_postings"
	case code == "METADATA_OVERRIDE":
		return "meta_override"
	case code == "COMPILATION_FAILED":
		return "compile"
	case code == "INTERNAL" && strings.Contains(msg, "context canceled"):
		return "skipped"
	case code == "INTERNAL" && (strings.Contains(msg, "deadlock detected") || strings.Contains(msg, "SQLSTATE 40001")):
		// the database chose this element's transaction as the victim of a concurrency conflict with a sibling
		// element of a parallel bulk (outside the retry loop of the write path): it did not run
		return "aborted"
	case code == "INTERNAL":
		return "internal"
	}
	return "validation"
}

// EffectiveWorker: the elements of a parallel bulk run on several connections of the SAME logical client
// and legitimately wait for each other's row locks. pgmodel treats a wait on another connection of the
// same named worker as a self-deadlock (right for sequential clients), so parallel bulks are sent with
// the anonymous worker "", for which pgmodel applies plain lock waits and real deadlock detection.
func EffectiveWorker(worker string, rq Req) string {
	if rq.K == "bulk" && rq.Parallel && worker != "pw" {
		return ""
	}
	return worker
}

// ExecBulk sends the bulk and classifies every per-element result, in the order of the response.
func (e *Env) ExecBulk(ctx context.Context, worker string, rq Req) ReqRes {
	rq.Norm()
	worker = EffectiveWorker(worker, rq)
	e.SetNow(rq.Now)
	els := make([]any, 0, len(rq.Els))
	for _, op := range rq.Els {
		els = append(els, e.bulkElement(op))
	}
	q := url.Values{}
	if rq.Atomic {
		q.Set("atomic", "true")
	}
	if rq.Parallel {
		q.Set("parallel", "true")
	}
	if rq.COF {
		q.Set("continueOnFailure", "true")
	}
	path := "/v2/" + rq.L + "/_bulk"
	if len(q) > 0 {
		path += "?" + q.Encode()
	}
	var body any = els
	var hdr map[string]string
	if rq.CT == "json-stream" {
		// one JSON object per line, read element by element by the streaming handler
		var sb strings.Builder
		for _, el := range els {
			b, _ := json.Marshal(el)
			sb.Write(b)
			sb.WriteByte('\n')
		}
		body = sb.String()
		hdr = map[string]string{"Content-Type": "application/vnd.formance.ledger.api.v2.bulk+json-stream"}
	}
	r := e.APIDo(ctx, worker, "POST", path, body, hdr)
	out := ReqRes{Status: r.Status, OK: r.Status >= 200 && r.Status < 300, Els: []ElemRes{}, Empty: len(r.Body) == 0}
	v, err := r.JSON()
	if err != nil || v == nil {
		return out
	}
	m, _ := v.(map[string]any)
	out.Code, _ = m["errorCode"].(string)
	data, _ := m["data"].([]any)
	out.N = len(data)
	for _, x := range data {
		xm, _ := x.(map[string]any)
		er := ElemRes{}
		er.Code, _ = xm["errorCode"].(string)
		er.Msg, _ = xm["errorDescription"].(string)
		er.Type, _ = xm["responseType"].(string)
		er.LogID = plainInt(xm["logID"])
		if er.Type == "ERROR" || er.Code != "" {
			er.Err = classifyCode(er.Code, er.Msg)
		} else {
			er.OK = true
		}
		if d, ok := xm["data"].(map[string]any); ok {
			er.HasData = true
			if id, ok := d["id"].(json.Number); ok {
				n, _ := strconv.Atoi(string(id))
				er.ID = n
			}
			if t, err := e.txOf(d); err == nil {
				er.Tx = &t
			}
		}
		out.Els = append(out.Els, er)
	}
	return out
}

// ---------------------------------------------------------------------------- Flow A: replay of TLC-enumerated bulks

// BulkCase is one case printed by TLC (spec/MC_Bulk.tla): a prefix history, a bulk and, per element,
// whether the specification runs it (Run) -- used to drive the stand-alone twin -- next to the prescribed
// outcomes, which the harness does not look at.
type BulkCase struct {
	ID     int    `json:"id"`
	Prefix []Op   `json:"prefix"`
	Req    Req    `json:"req"`
	Run    []bool `json:"run"`
	Scale  string `json:"scale,omitempty"`
}

// BulkObs is what the real code did with a BulkCase.
type BulkObs struct {
	ID     int       `json:"id"`
	Res    ReqRes    `json:"res"`
	St     LedgerObs `json:"st"`
	Before LedgerObs `json:"before"`
	// Alone[i]: outcome of element i sent on its own (single-operation endpoint) to a twin ledger that
	// went through the same prefix and the same earlier elements; nil when the case does not run it.
	Alone []*ElemRes `json:"alone"`
	Ev    []EvObs    `json:"ev"`
	Incon string     `json:"inconclusive,omitempty"`
}

func applyPrefix(env *Env, prefix []Op) error {
	for _, op := range prefix {
		op.Norm()
		if op.L == "" {
			op.L = "l1"
		}
		r := env.Exec(context.Background(), "prefix", op)
		if !r.OK {
			return fmt.Errorf("prefix operation %s failed: %d %s %s", op.K, r.Status, r.Code, r.Msg)
		}
	}
	env.NewEvents()
	return nil
}

// RunBulkCase replays the case on a fresh environment, and its elements one by one on a twin.
func RunBulkCase(c BulkCase) BulkObs {
	out := BulkObs{ID: c.ID, Alone: []*ElemRes{}, Ev: []EvObs{}}
	env, err := BuildBase(nil, nil, c.Scale)
	if err != nil {
		out.Incon = err.Error()
		return out
	}
	defer CloseBase(env)
	if err := applyPrefix(env, c.Prefix); err != nil {
		out.Incon = err.Error()
		return out
	}
	twin := env.Fork()
	defer twin.Close()
	if out.Before, err = env.Observe("l1"); err != nil {
		out.Incon = "observe: " + err.Error()
		return out
	}
	ctx, cancel := context.WithTimeout(context.Background(), 30*time.Second)
	defer cancel()
	out.Res, out.Ev = env.DoWatched(ctx, "w1", c.Req)
	if out.St, err = env.Observe("l1"); err != nil {
		out.Incon = "observe: " + err.Error()
		return out
	}
	rq := c.Req
	rq.Norm()
	for i, op := range rq.Els {
		if i >= len(c.Run) || !c.Run[i] {
			out.Alone = append(out.Alone, nil)
			continue
		}
		r := twin.Do(ctx, "w1", Req{K: "single", L: rq.L, Now: rq.Now, Els: []Op{op}})
		er := r.Els[0]
		out.Alone = append(out.Alone, &er)
	}
	if u := env.PG.UnsupportedSeen(); len(u) > 0 {
		out.Incon = fmt.Sprintf("unsupported SQL in pgmodel: %v", u)
	}
	if u := twin.PG.UnsupportedSeen(); len(u) > 0 {
		out.Incon = fmt.Sprintf("unsupported SQL in pgmodel: %v", u)
	}
	return out
}

// DoWatched runs a request (with the commit fault rq.Fault, if any) and returns the listener events it
// caused, each flagged AfterCm iff, when the listener was called for the j-th time, at least j log rows
// of the ledger were durable (so an event can never precede the commit of the write it announces).
func (e *Env) DoWatched(ctx context.Context, worker string, rq Req) (ReqRes, []EvObs) {
	rq.Norm()
	worker = EffectiveWorker(worker, rq)
	pos := 0
	if rq.Fault > 0 {
		prog, err := Measure(e, worker, func() Req { r := rq; r.Fault = 0; return r }(), true)
		if err == nil && rq.Fault <= len(prog.Commits) {
			pos = prog.Commits[rq.Fault-1]
		} else {
			pos = -1 // cannot place the fault: reported through Fired=false by the caller
		}
	}
	base := 0
	if rows, err := e.PG.Dump(bucketOf(e, rq.L), "logs"); err == nil {
		for _, r := range rows {
			if s, ok := r["ledger"].(string); ok && s == rq.L {
				base++
			}
		}
	}
	p := &Probe{Worker: worker, At: pos, Kind: "08006"}
	p.Install(e, rq.L, bucketOf(e, rq.L), nil)
	n0 := len(e.St.Listener.Snapshot())
	res := e.Do(ctx, worker, rq)
	p.Uninstall(e)
	e.waitIdle()
	raw := e.St.Listener.Snapshot()
	evs := e.NewEvents()
	for j := range evs {
		ev := raw[n0+j]
		// durable point of the (j+1)-th new log row
		ok := false
		for _, d := range p.Durable {
			if d.NLogs >= base+j+1 {
				ok = ev.CommitN >= d.Seq
				break
			}
		}
		evs[j].AfterCm = ok
	}
	if rq.Fault > 0 && !p.Fired {
		res.Code = "FAULT-NOT-PLACED"
	}
	return res, evs
}

// ---------------------------------------------------------------------------- Flow B: random bulk histories

// BLine is one NDJSON line of a bulk trace (spec/TraceBulk.tla).
type BLine struct {
	Case  int                  `json:"case"`
	Reset bool                 `json:"reset"`
	Op    Req                  `json:"op"`
	Res   ReqRes               `json:"res"`
	St    map[string]LedgerObs `json:"st"`
	Ev    []EvObs              `json:"ev"`
}

// ReqCase is a replayable history of requests on ledger l1.
type ReqCase struct {
	N     int    `json:"case"`
	Seed  int64  `json:"seed"`
	Scale string `json:"scale"`
	// Init: the ledger is NOT written before the first request (first write on an initializing ledger)
	Reqs []Req  `json:"reqs"`
	Cell string `json:"cell,omitempty"`
}

// GenBulkHistory: n requests; each a bulk of 1..3 elements (up to 4 when sequential) with random options.
func GenBulkHistory(seed int64, n int) []Req {
	g := NewGen(seed, "l1")
	r := rand.New(rand.NewSource(seed ^ 0x5bd1e995))
	var out []Req
	step := 0
	for i := 0; i < n; i++ {
		rq := Req{K: "bulk", L: "l1"}
		if (int64(i)+seed)%2 == 0 {
			rq.CT = "json-stream" // every other bulk goes through the streaming handler
		}
		switch r.Intn(6) {
		case 0:
			rq.Atomic = true
		case 1:
			rq.Atomic, rq.COF = true, true
		case 2:
			rq.COF = true
		case 3:
			rq.Parallel = true
			rq.COF = r.Intn(2) == 0
		}
		m := 1 + r.Intn(3)
		if !rq.Parallel && r.Intn(4) == 0 {
			m = 4
		}
		for j := 0; j < m; j++ {
			op := g.Next(step)
			step++
			op.Dry = false
			if rq.Parallel {
				// an idempotency key shared by two concurrently running elements is C13's subject
				op.IK, op.IKIn = "", 0
			}
			rq.Els = append(rq.Els, op)
			rq.Now = op.Now
		}
		// one instant per request (the abstract input ids of the generator ignore `now`; nothing else of an
		// element may be altered here, or equal ids would no longer mean equal inputs)
		for j := range rq.Els {
			rq.Els[j].Now = rq.Now
		}
		out = append(out, rq)
	}
	return out
}

// RunReqCase executes the requests on a fresh ledger and records one line per request.
func RunReqCase(c ReqCase) ([]BLine, error) {
	env, err := BuildBase(nil, nil, c.Scale)
	if err != nil {
		return nil, &Inconclusive{Msg: "bootstrap: " + err.Error()}
	}
	defer CloseBase(env)
	st0, err := env.Observe("l1")
	if err != nil {
		return nil, obsFailure(env, err)
	}
	reset := BLine{Case: c.N, Reset: true, St: map[string]LedgerObs{"l1": st0}, Ev: []EvObs{}, Op: Req{K: "bulk", L: "l1"}}
	reset.Op.Norm()
	reset.Res.Els = []ElemRes{}
	lines := []BLine{reset}
	for _, rq := range c.Reqs {
		rq.Norm()
		ctx, cancel := context.WithTimeout(context.Background(), 30*time.Second)
		res, evs := env.DoWatched(ctx, "w1", rq)
		cancel()
		st, err := env.Observe("l1")
		if err != nil {
			return nil, obsFailure(env, err)
		}
		// results are recorded without the projected transactions (TLC does not need them)
		for i := range res.Els {
			res.Els[i].Tx = nil
			if len(res.Els[i].Msg) > 160 {
				res.Els[i].Msg = res.Els[i].Msg[:160]
			}
		}
		lines = append(lines, BLine{Case: c.N, Op: rq, Res: res, St: map[string]LedgerObs{"l1": st}, Ev: evs})
	}
	if u := env.PG.UnsupportedSeen(); len(u) > 0 {
		return nil, &Inconclusive{Msg: fmt.Sprintf("unsupported SQL in pgmodel: %v", u)}
	}
	return lines, nil
}

// ---------------------------------------------------------------------------- parallel bulk: forced out-of-order completion

// orderGate holds every statement of the session that executes element A (recognised by a marker in its
// SQL text) until element B (another marker) has committed and its result has had time to be delivered.
type orderGate struct {
	mu        sync.Mutex
	cond      *sync.Cond
	holdMark  string
	goMark    string
	holdSess  int
	goSess    int
	released  bool
	releasing bool
	sawHold   bool
}

func newOrderGate(hold, goMark string) *orderGate {
	g := &orderGate{holdMark: hold, goMark: goMark, holdSess: -1, goSess: -1}
	g.cond = sync.NewCond(&g.mu)
	return g
}

func (g *orderGate) Before(worker string, sess int, sql string) {
	if worker != "pw" {
		return
	}
	g.mu.Lock()
	defer g.mu.Unlock()
	if g.holdSess < 0 && strings.Contains(sql, g.holdMark) {
		g.holdSess = sess
		g.sawHold = true
	}
	if g.goSess < 0 && strings.Contains(sql, g.goMark) {
		g.goSess = sess
	}
	if sess == g.holdSess {
		deadline := time.Now().Add(5 * time.Second)
		for !g.released && time.Now().Before(deadline) {
			g.waitTimeout(50 * time.Millisecond)
		}
	}
}

func (g *orderGate) waitTimeout(d time.Duration) {
	t := time.AfterFunc(d, func() {
		g.mu.Lock()
		g.cond.Broadcast()
		g.mu.Unlock()
	})
	g.cond.Wait()
	t.Stop()
}

func (g *orderGate) Blocked(worker string, sess int, onSess int) {}
func (g *orderGate) Unblocked(worker string, sess int)           {}

// ParallelOrderObs: outcome of the forced-order scenario.
type ParallelOrderObs struct {
	Req      Req       `json:"req"`
	Res      ReqRes    `json:"res"`
	St       LedgerObs `json:"st"`
	Before   LedgerObs `json:"before"`
	Forced   bool      `json:"forced"` // the gate did hold element 1 until element 2 had committed
	Raw      string    `json:"raw"`
	Incon    string    `json:"inconclusive,omitempty"`
	LogOrder []string  `json:"logOrder"` // log types in id order after the bulk
}

// RunParallelOrder sends a parallel bulk [create(world->pa:1), acmeta(pb:1)] while the statement gate
// delays the first element until the second one has committed.
func RunParallelOrder(cof bool) ParallelOrderObs {
	out := ParallelOrderObs{LogOrder: []string{}}
	env, err := BuildBase(nil, nil, "1")
	if err != nil {
		out.Incon = err.Error()
		return out
	}
	defer CloseBase(env)
	// the ledger is put in use first so that both elements take the plain path
	if err := applyPrefix(env, []Op{{K: "create", L: "l1", Now: 1, Ps: []Posting{{S: "world", D: "seed", As: "USD", N: 1}}}}); err != nil {
		out.Incon = err.Error()
		return out
	}
	if out.Before, err = env.Observe("l1"); err != nil {
		out.Incon = err.Error()
		return out
	}
	rq := Req{K: "bulk", L: "l1", Now: 2, Parallel: true, COF: cof, Els: []Op{
		{K: "create", Ps: []Posting{{S: "world", D: "pa:1", As: "USD", N: 2}}, Ref: "refA"},
		{K: "acmeta", Addr: "pb:1", Meta: map[string]string{"k": "v"}},
	}}
	rq.Norm()
	out.Req = rq
	g := newOrderGate("pa:1", "pb:1")
	env.PG.SetGate(g)
	prevObs := env.PG.Observer
	env.PG.Observer = func(ev pgmodel.StmtEvent) {
		if prevObs != nil {
			prevObs(ev)
		}
		if ev.Worker != "pw" || ev.Err != "" || ev.Kind != "commit" {
			return
		}
		g.mu.Lock()
		if ev.Sess == g.goSess && g.goSess >= 0 && !g.releasing {
			// element 2 committed: let its result reach the response first, then release element 1
			g.releasing = true
			go func() {
				time.Sleep(150 * time.Millisecond)
				g.mu.Lock()
				g.released = true
				g.cond.Broadcast()
				g.mu.Unlock()
			}()
		}
		g.mu.Unlock()
	}
	ctx, cancel := context.WithTimeout(context.Background(), 20*time.Second)
	defer cancel()
	e := env
	e.SetNow(rq.Now)
	out.Res = e.ExecBulk(ctx, "pw", rq)
	env.PG.SetGate(nil)
	env.PG.Observer = prevObs
	g.mu.Lock()
	out.Forced = g.sawHold && g.released
	g.mu.Unlock()
	b, _ := json.Marshal(out.Res)
	out.Raw = string(b)
	if out.St, err = env.Observe("l1"); err != nil {
		out.Incon = err.Error()
		return out
	}
	for _, lg := range out.St.Logs {
		out.LogOrder = append(out.LogOrder, lg.Type)
	}
	if u := env.PG.UnsupportedSeen(); len(u) > 0 {
		out.Incon = fmt.Sprintf("unsupported SQL in pgmodel: %v", u)
	}
	return out
}
