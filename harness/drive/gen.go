package drive

import (
	"encoding/json"
	"fmt"
	"math/rand"
	"sort"

	"github.com/formancehq/ledger/pkg/accounts"
)

// Universe of the generated histories (kept small: the specification enumerates over it).
var (
	GenAccounts = []string{"world", "alice", "bob", "orders:1", "orders:2"}
	GenAssets   = []string{"USD", "EUR/2"}
	GenRefs     = []string{"", "", "r1", "r2"}
	GenIKs      = []string{"", "", "", "k1", "k2"}
	GenKeys     = []string{"k", "role"}
	GenVals     = []string{"v", "w"}
)

type Gen struct {
	R      *rand.Rand
	Ledger string
	now    int
	nTx    int // optimistic count of created transactions (ids are 1..nTx when nothing failed)
	ikins  map[string]int
	MaxNow int
	keyed  []Op // earlier operations that carried an idempotency key (candidates for a client retry)
	Vals   []string // metadata values to draw from (nil = GenVals)
}

// AdversarialVals: metadata values whose JSON needs escaping or is not ASCII (hashing, block digests, jsonb).
var AdversarialVals = []string{"v", "café", "back\\slash", "quo\"te", "tab\there", "<&>"}

func NewGen(seed int64, ledger string) *Gen {
	return &Gen{R: rand.New(rand.NewSource(seed)), Ledger: ledger, now: 1, ikins: map[string]int{}, MaxNow: 9}
}

func (g *Gen) pick(xs []string) string { return xs[g.R.Intn(len(xs))] }

func (g *Gen) meta() map[string]string {
	m := map[string]string{}
	n := g.R.Intn(3)
	for i := 0; i < n; i++ {
		vals := g.Vals
		if vals == nil {
			vals = GenVals
		}
		m[g.pick(GenKeys)] = g.pick(vals)
	}
	return m
}

// inputID gives equal abstract inputs the same small integer (what the idempotency hash distinguishes).
func (g *Gen) inputID(op Op) int {
	cp := op
	cp.IK, cp.IKIn, cp.Now, cp.Dry = "", 0, 0, false
	b, _ := json.Marshal(cp)
	k := string(b)
	if id, ok := g.ikins[k]; ok {
		return id
	}
	id := len(g.ikins) + 1
	g.ikins[k] = id
	return id
}

func (g *Gen) posting(funded bool) Posting {
	p := Posting{As: g.pick(GenAssets), N: g.R.Intn(5)}
	if funded || g.R.Intn(3) == 0 {
		p.S = "world"
	} else {
		p.S = GenAccounts[1+g.R.Intn(len(GenAccounts)-1)]
	}
	p.D = g.pick(GenAccounts)
	if g.R.Intn(8) == 0 {
		p.D = p.S // source == destination
	}
	return p
}

// Next produces the next operation of a sequential history.
func (g *Gen) Next(step int) Op {
	if g.R.Intn(3) > 0 && g.now < g.MaxNow {
		g.now++
	}
	if step >= 2 && len(g.keyed) > 0 && g.R.Intn(7) == 0 {
		// a client retry: the very same request (same key, same input) sent again later
		op := g.keyed[g.R.Intn(len(g.keyed))]
		op.Now = g.now
		return op
	}
	op := Op{L: g.Ledger, Now: g.now}
	r := g.R.Intn(100)
	switch {
	case step < 2 || r < 50:
		op.K = "create"
		n := 1 + g.R.Intn(3)
		mode := g.R.Intn(4) // 0,1: postings  2: script  3: forced postings
		for i := 0; i < n; i++ {
			p := g.posting(step < 2)
			switch mode {
			case 2:
				op.Script = true
				switch g.R.Intn(4) {
				case 0:
					p.B = -1
				case 1:
					p.B = 1 + g.R.Intn(3)
				}
			case 3:
				p.B = -1
			}
			if p.S == "world" {
				p.B = 0
			}
			op.Ps = append(op.Ps, p)
		}
		if mode == 3 {
			// a forced postings request forces every posting
			for i := range op.Ps {
				if op.Ps[i].S != "world" {
					op.Ps[i].B = -1
				}
			}
		}
		if op.Script && g.R.Intn(4) == 0 {
			// the same bounded-overdraft source used twice in one script: the allowance is consumed once, not per send
			// (amount = allowance: with a balance below the allowance the first send fits and the second must not)
			for i, p := range op.Ps {
				if p.S != "world" && p.B > 0 {
					op.Ps[i].N = p.B
					q := op.Ps[i]
					q.D = g.pick(GenAccounts)
					op.Ps = append(op.Ps, q)
					break
				}
			}
		}
		if g.R.Intn(6) == 0 {
			// a posting of an account to itself, placed before a posting that spends from that account: the funds
			// it "moved" must still be there
			for _, p := range op.Ps {
				if p.S != "world" {
					op.Ps = append([]Posting{{S: p.S, D: p.S, As: p.As, N: p.N, B: p.B}}, op.Ps...)
					break
				}
			}
		}
		switch g.R.Intn(4) {
		case 0:
			op.Ts = 1 + g.R.Intn(g.MaxNow) // back-dated, equal or future-dated
		case 1:
			op.Ts = g.now
		}
		op.Ref = g.pick(GenRefs)
		op.Meta = g.meta()
		if g.R.Intn(4) == 0 {
			op.AMeta = map[string]map[string]string{g.pick(GenAccounts[1:]): g.meta()}
		}
		if op.Script && g.R.Intn(3) == 0 {
			// the last destination is passed as an account variable, sometimes padded or malformed: the request
			// must be refused then, never recorded with an address the validators reject (C28)
			last := &op.Ps[len(op.Ps)-1]
			raw := last.D
			switch g.R.Intn(5) {
			case 0:
				raw = last.D + " "
			case 1:
				raw = " " + last.D
			case 2:
				raw = last.D + "\n"
			case 3:
				raw = "or ders"
			}
			op.VarD = raw
			op.VarOK = accounts.ValidateAddress(raw)
			if op.VarOK {
				last.D = raw
			}
		}
		if op.Script && g.R.Intn(2) == 0 {
			// the script sets metadata itself: sometimes a key the request sets too (refused), sometimes account
			// metadata on an account the request also annotates (the request wins)
			op.SMeta = g.meta()
			if g.R.Intn(2) == 0 {
				op.SAMeta = map[string]map[string]string{g.pick(GenAccounts[1:]): g.meta()}
			}
		}
		op.Dry = g.R.Intn(10) == 0
		g.nTx++
	case r < 65:
		op.K = "revert"
		op.ID = 1 + g.R.Intn(g.nTx+1)
		op.Force = g.R.Intn(3) == 0
		op.AtEff = g.R.Intn(2) == 0
		op.Dry = g.R.Intn(10) == 0
		g.nTx++
	case r < 75:
		op.K = "txmeta"
		op.ID = 1 + g.R.Intn(g.nTx+1)
		op.Meta = g.meta()
	case r < 82:
		op.K = "untxmeta"
		op.ID = 1 + g.R.Intn(g.nTx+1)
		op.Key = g.pick(GenKeys)
	case r < 93:
		op.K = "acmeta"
		op.Addr = g.pick(append(GenAccounts[1:], "carol"))
		op.Meta = g.meta()
	default:
		op.K = "unacmeta"
		op.Addr = g.pick(append(GenAccounts[1:], "carol"))
		op.Key = g.pick(GenKeys)
	}
	op.IK = g.pick(GenIKs)
	op.Norm()
	op.IKIn = g.inputID(op)
	if op.IK != "" {
		g.keyed = append(g.keyed, op)
	}
	return op
}

// History generates n operations.
func (g *Gen) History(n int) []Op {
	ops := make([]Op, n)
	for i := range ops {
		ops[i] = g.Next(i)
	}
	return ops
}

// FeatureSets: the 48 combinations of the five features.
func AllFeatureSets() []map[string]string {
	opts := map[string][]string{
		"MOVES_HISTORY": {"ON", "OFF"},
		"MOVES_HISTORY_POST_COMMIT_EFFECTIVE_VOLUMES": {"SYNC", "DISABLED"},
		"HASH_LOGS":                    {"SYNC", "ASYNC", "DISABLED"},
		"ACCOUNT_METADATA_HISTORY":     {"SYNC", "DISABLED"},
		"TRANSACTION_METADATA_HISTORY": {"SYNC", "DISABLED"},
	}
	keys := make([]string, 0, len(opts))
	for k := range opts {
		keys = append(keys, k)
	}
	sort.Strings(keys)
	out := []map[string]string{{}}
	for _, k := range keys {
		var next []map[string]string
		for _, m := range out {
			for _, v := range opts[k] {
				cp := map[string]string{}
				for a, b := range m {
					cp[a] = b
				}
				cp[k] = v
				next = append(next, cp)
			}
		}
		out = next
	}
	return out
}

func FeatureKey(f map[string]string) string {
	keys := make([]string, 0, len(f))
	for k := range f {
		keys = append(keys, k)
	}
	sort.Strings(keys)
	s := ""
	for _, k := range keys {
		s += fmt.Sprintf("%s=%s;", k, f[k])
	}
	return s
}
