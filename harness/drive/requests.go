package drive

// Instantiation of the finite request-shape model of spec/Requests.tla (property C38) against the
// in-process router of the v1 and v2 API. TLC enumerates (api, route, part, field, kind) tuples; this file
// knows, per route, one VALID request (the template) and how to put a malformed value at a field. It
// reports status, body shape and whether the database snapshot changed; it decides nothing.

import (
	"bytes"
	"encoding/base64"
	"encoding/json"
	"fmt"
	"net/http/httptest"
	"net/url"
	"strconv"
	"strings"
	"time"
)

// ShapeCase is one tuple printed by TLC.
type ShapeCase struct {
	ID     int    `json:"id"`
	API    string `json:"api"`   // v1 | v2
	Route  string `json:"route"` // template name
	Part   string `json:"part"`  // body | query | path | raw
	Field  string `json:"field"` // JSON path "postings.0.amount", query parameter or path parameter name
	Kind   string `json:"kind"`  // confusion kind or boundary value id
	Expect string `json:"expect"`
}

// ShapeObs is the observation of one instantiated case.
type ShapeObs struct {
	ID        int      `json:"id"`
	Method    string   `json:"method"`
	Path      string   `json:"path"`
	Body      string   `json:"body"`
	Status    int      `json:"status"`
	BodyLen   int      `json:"bodyLen"`
	JSONOK    bool     `json:"jsonOK"`    // the response body is well-formed JSON (or empty where no body is due)
	ErrShape  bool     `json:"errShape"`  // a 4xx body carries errorCode / errorMessage
	Unchanged bool     `json:"unchanged"` // pg.Dump snapshot of every table equal before/after
	Resp      string   `json:"resp"`
	Diff      []string `json:"diff,omitempty"`
	Skip      string   `json:"skip,omitempty"`         // the template has no such field (model / harness mismatch)
	Incon     string   `json:"inconclusive,omitempty"` // unsupported SQL in pgmodel
	Ms        int64    `json:"ms"`
}

type template struct {
	method string
	path   string // with {ledger} {id} {address} {key} {version}
	query  url.Values
	body   string // JSON text, "" = none
	path_  map[string]string
}

const shapeLedger = "l1"

var validScript = "vars {\n  monetary $m\n  account $dst\n}\nsend $m (\n  source = @world\n  destination = $dst\n)\n"

// templates: one valid request per route and API.
func shapeTemplates() map[string]template {
	pp := func() map[string]string {
		return map[string]string{"ledger": shapeLedger, "id": "1", "address": "alice", "key": "k", "version": "v9"}
	}
	q := func(kv ...string) url.Values {
		v := url.Values{}
		for i := 0; i+1 < len(kv); i += 2 {
			v.Set(kv[i], kv[i+1])
		}
		return v
	}
	txPostings := `{"postings":[{"source":"world","destination":"carol","asset":"USD","amount":5}],"timestamp":"2030-01-01T00:00:09Z","reference":"rx","metadata":{"k":"v"},"accountMetadata":{"carol":{"role":"x"}}}`
	txScript := `{"script":{"plain":` + strconv.Quote(validScript) + `,"vars":{"m":"USD 5","dst":"carol"}},"timestamp":"2030-01-01T00:00:09Z","reference":"ry","metadata":{"k":"v"}}`
	txScriptObj := `{"script":{"plain":` + strconv.Quote(validScript) + `,"vars":{"m":{"asset":"USD","amount":5},"dst":"carol"}},"metadata":{"k":"v"}}`
	// two variables resolved from balances of the same account (a shape that once left a nil amount in the machine)
	balScript := "vars {\n  monetary $a = balance(@alice, USD)\n  monetary $b = balance(@alice, EUR/2)\n}\nsend $a (\n  source = @alice\n  destination = @bob\n)\n"
	txBalVars := `{"script":{"plain":` + strconv.Quote(balScript) + `,"vars":{}},"metadata":{"k":"v"}}`
	v1Postings := `{"postings":[{"source":"world","destination":"carol","asset":"USD","amount":5}],"timestamp":"2030-01-01T00:00:09Z","reference":"rx","metadata":{"k":"v"}}`
	bulk := `[{"action":"CREATE_TRANSACTION","ik":"b1","data":{"postings":[{"source":"world","destination":"carol","asset":"USD","amount":5}],"metadata":{"k":"v"}}},` +
		`{"action":"ADD_METADATA","data":{"targetType":"ACCOUNT","targetId":"alice","metadata":{"k":"v"}}},` +
		`{"action":"ADD_METADATA","data":{"targetType":"TRANSACTION","targetId":1,"metadata":{"k":"v"}}},` +
		`{"action":"REVERT_TRANSACTION","data":{"id":2,"force":false,"atEffectiveDate":false}},` +
		`{"action":"DELETE_METADATA","data":{"targetType":"ACCOUNT","targetId":"alice","key":"role"}}]`
	schema := `{"chart":{"users":{"$userid":{".pattern":"^[0-9]+$"}},"world":{}},"transactions":{},"queries":{}}`
	filter := `{"$and":[{"$match":{"address":"alice"}},{"$gte":{"balance[USD]":0}}]}`
	t := map[string]template{
		// ---- v2 writes
		"v2/tx_create":         {"POST", "/v2/{ledger}/transactions", q(), txPostings, pp()},
		"v2/tx_create_script":  {"POST", "/v2/{ledger}/transactions", q(), txScript, pp()},
		"v2/tx_create_varobj":  {"POST", "/v2/{ledger}/transactions", q(), txScriptObj, pp()},
		"v2/tx_create_balvars": {"POST", "/v2/{ledger}/transactions", q(), txBalVars, pp()},
		"v2/tx_revert":         {"POST", "/v2/{ledger}/transactions/{id}/revert", q("force", "false", "atEffectiveDate", "false"), `{"metadata":{"k":"v"}}`, pp()},
		"v2/tx_meta_add":       {"POST", "/v2/{ledger}/transactions/{id}/metadata", q(), `{"k":"v"}`, pp()},
		"v2/tx_meta_del":       {"DELETE", "/v2/{ledger}/transactions/{id}/metadata/{key}", q(), "", pp()},
		"v2/acct_meta_add":     {"POST", "/v2/{ledger}/accounts/{address}/metadata", q(), `{"k":"v"}`, pp()},
		"v2/acct_meta_del":     {"DELETE", "/v2/{ledger}/accounts/{address}/metadata/{key}", q(), "", pp()},
		"v2/bulk":              {"POST", "/v2/{ledger}/_bulk", q("atomic", "true", "parallel", "false", "continueOnFailure", "false"), bulk, pp()},
		"v2/ledger_create":     {"POST", "/v2/{ledger}", q(), `{"bucket":"b2","metadata":{"k":"v"},"features":{"HASH_LOGS":"SYNC"}}`, map[string]string{"ledger": "newl"}},
		"v2/ledger_meta":       {"PUT", "/v2/{ledger}/metadata", q(), `{"k":"v"}`, pp()},
		"v2/schema_insert":     {"POST", "/v2/{ledger}/schemas/{version}", q(), schema, pp()},
		// ---- v2 reads
		"v2/tx_list":        {"GET", "/v2/{ledger}/transactions", q("pageSize", "5", "expand", "volumes", "pit", "2030-01-01T00:01:00Z", "order", "effective", "reverse", "false", "sort", "id:desc"), "", pp()},
		"v2/tx_list_q":      {"GET", "/v2/{ledger}/transactions", q("query", `{"$match":{"account":"alice"}}`), "", pp()},
		"v2/tx_count":       {"HEAD", "/v2/{ledger}/transactions", q("pit", "2030-01-01T00:01:00Z"), "", pp()},
		"v2/tx_read":        {"GET", "/v2/{ledger}/transactions/{id}", q("expand", "volumes", "pit", "2030-01-01T00:01:00Z"), "", pp()},
		"v2/acct_list":      {"GET", "/v2/{ledger}/accounts", q("pageSize", "5", "expand", "volumes", "pit", "2030-01-01T00:01:00Z"), "", pp()},
		"v2/acct_list_q":    {"GET", "/v2/{ledger}/accounts", q("query", filter), "", pp()},
		"v2/acct_list_b":    {"GET", "/v2/{ledger}/accounts", q(), filter, pp()},
		"v2/acct_count":     {"HEAD", "/v2/{ledger}/accounts", q(), "", pp()},
		"v2/acct_read":      {"GET", "/v2/{ledger}/accounts/{address}", q("expand", "volumes", "pit", "2030-01-01T00:01:00Z"), "", pp()},
		"v2/logs_list":      {"GET", "/v2/{ledger}/logs", q("pageSize", "5"), "", pp()},
		"v2/logs_list_q":    {"GET", "/v2/{ledger}/logs", q("query", `{"$gte":{"date":"2030-01-01T00:00:00Z"}}`), "", pp()},
		"v2/volumes":        {"GET", "/v2/{ledger}/volumes", q("pageSize", "5", "groupBy", "1", "pit", "2030-01-01T00:01:00Z", "oot", "2030-01-01T00:00:00Z", "insertionDate", "false"), "", pp()},
		"v2/volumes_q":      {"GET", "/v2/{ledger}/volumes", q("query", `{"$match":{"account":"alice"}}`), "", pp()},
		"v2/agg_balances":   {"GET", "/v2/{ledger}/aggregate/balances", q("pit", "2030-01-01T00:01:00Z", "useInsertionDate", "false"), "", pp()},
		"v2/agg_balances_q": {"GET", "/v2/{ledger}/aggregate/balances", q("query", `{"$match":{"address":"alice"}}`), "", pp()},
		"v2/ledger_list":    {"GET", "/v2", q("pageSize", "5"), "", pp()},
		"v2/ledger_read":    {"GET", "/v2/{ledger}", q(), "", pp()},
		"v2/stats":          {"GET", "/v2/{ledger}/stats", q(), "", pp()},
		"v2/schema_list":    {"GET", "/v2/{ledger}/schemas", q("pageSize", "5"), "", pp()},
		"v2/schema_read":    {"GET", "/v2/{ledger}/schemas/{version}", q(), "", pp()},
		// ---- v1 writes
		"v1/tx_create":        {"POST", "/{ledger}/transactions", q("preview", "false"), v1Postings, pp()},
		"v1/tx_create_script": {"POST", "/{ledger}/transactions", q(), txScript, pp()},
		"v1/tx_create_varobj": {"POST", "/{ledger}/transactions", q(), txScriptObj, pp()},
		"v1/tx_revert":        {"POST", "/{ledger}/transactions/{id}/revert", q("disableChecks", "false"), "", pp()},
		"v1/tx_meta_add":      {"POST", "/{ledger}/transactions/{id}/metadata", q(), `{"k":"v"}`, pp()},
		"v1/tx_meta_del":      {"DELETE", "/{ledger}/transactions/{id}/metadata/{key}", q(), "", pp()},
		"v1/acct_meta_add":    {"POST", "/{ledger}/accounts/{address}/metadata", q(), `{"k":"v"}`, pp()},
		"v1/acct_meta_del":    {"DELETE", "/{ledger}/accounts/{address}/metadata/{key}", q(), "", pp()},
		// ---- v1 reads
		"v1/tx_list":         {"GET", "/{ledger}/transactions", q("pageSize", "5", "reference", "p1", "account", "alice", "source", "world", "destination", "alice", "startTime", "2030-01-01T00:00:00Z", "endTime", "2030-01-01T00:01:00Z", "metadata[k]", "v"), "", pp()},
		"v1/tx_list_after":   {"GET", "/{ledger}/transactions", q("after", "10"), "", pp()},
		"v1/logs_list_after": {"GET", "/{ledger}/logs", q("after", "10"), "", pp()},
		"v1/tx_count":        {"HEAD", "/{ledger}/transactions", q("account", "alice"), "", pp()},
		"v1/tx_read":         {"GET", "/{ledger}/transactions/{id}", q(), "", pp()},
		"v1/acct_list":       {"GET", "/{ledger}/accounts", q("pageSize", "5", "address", "alice", "balance", "0", "balanceOperator", "gte", "metadata[role]", "v", "after", "zzz"), "", pp()},
		"v1/acct_count":      {"HEAD", "/{ledger}/accounts", q("address", "alice"), "", pp()},
		"v1/acct_read":       {"GET", "/{ledger}/accounts/{address}", q(), "", pp()},
		"v1/logs_list":       {"GET", "/{ledger}/logs", q("pageSize", "5", "startTime", "2030-01-01T00:00:00Z", "endTime", "2030-01-01T00:01:00Z"), "", pp()},
		"v1/balances":        {"GET", "/{ledger}/balances", q("pageSize", "5", "address", "alice"), "", pp()},
		"v1/agg_balances":    {"GET", "/{ledger}/aggregate/balances", q("address", "alice"), "", pp()},
		"v1/stats":           {"GET", "/{ledger}/stats", q(), "", pp()},
		"v1/info":            {"GET", "/{ledger}/_info", q(), "", pp()},
	}
	return t
}

// ShapeRoutes describes the templates to the model generator: for each route its body leaves (path and
// JSON type), query parameters and path parameters. checks/api_common.py feeds it to TLC as constants so
// that the TLA+ model and the harness can never drift apart.
type RouteDesc struct {
	Route  string      `json:"route"`
	API    string      `json:"api"`
	Method string      `json:"method"`
	Write  bool        `json:"write"`
	Body   []FieldDesc `json:"body"`
	Query  []FieldDesc `json:"query"`
	PathP  []FieldDesc `json:"path"`
	Paged  bool        `json:"paged"` // accepts a cursor
}

// FieldDesc: a position of a request. Type is the JSON type of the valid value (object | array | string |
// number | bool; query and path positions are strings); Class is what the value means, which selects
// the boundary values the model tries there (addr, asset, date, amount, id, int, bool, enum, filter, name, text).
type FieldDesc struct {
	Path  string `json:"path"`
	Type  string `json:"type"`
	Class string `json:"class"`
}

func classOfBodyLeaf(path, typ string) string {
	last := path
	if i := strings.LastIndex(path, "."); i >= 0 {
		last = path[i+1:]
	}
	switch {
	case typ == "string" && (last == "source" || last == "destination" || last == "dst" || strings.HasSuffix(path, "targetId")):
		return "addr"
	case typ == "string" && last == "asset":
		return "asset"
	case typ == "string" && last == "timestamp":
		return "date"
	case last == "amount":
		return "amount"
	case typ == "number" && (last == "id" || last == "targetId"):
		return "id"
	case typ == "string" && (last == "bucket" || last == "action" || last == "targetType"):
		return "enum"
	case typ == "string":
		return "text"
	}
	return ""
}

func classOfQuery(route, name string) string {
	switch name {
	case "pageSize", "groupBy", "balance":
		return "int"
	case "after":
		if strings.Contains(route, "acct") {
			return "addr"
		}
		return "int"
	case "pit", "oot", "startTime", "endTime":
		return "date"
	case "query":
		return "filter"
	case "expand", "sort", "order", "balanceOperator":
		return "enum"
	case "reverse", "force", "atEffectiveDate", "atomic", "parallel", "continueOnFailure", "insertionDate", "useInsertionDate",
		"preview", "disableChecks", "dryRun":
		return "bool"
	case "address", "account", "source", "destination":
		return "addr"
	}
	return "text"
}

func classOfPath(name string) string {
	switch name {
	case "id":
		return "int"
	case "address":
		return "addr"
	}
	return "name"
}

func walk(prefix string, v any, out *[]FieldDesc) {
	switch t := v.(type) {
	case map[string]any:
		if prefix != "" {
			*out = append(*out, FieldDesc{prefix, "object", ""})
		}
		keys := make([]string, 0, len(t))
		for k := range t {
			keys = append(keys, k)
		}
		sortStrings(keys)
		for _, k := range keys {
			p := k
			if prefix != "" {
				p = prefix + "." + k
			}
			walk(p, t[k], out)
		}
	case []any:
		if prefix != "" {
			*out = append(*out, FieldDesc{prefix, "array", ""})
		}
		for i, x := range t {
			p := strconv.Itoa(i)
			if prefix != "" {
				p = prefix + "." + p
			}
			walk(p, x, out)
		}
	case string:
		*out = append(*out, FieldDesc{prefix, "string", ""})
	case json.Number:
		*out = append(*out, FieldDesc{prefix, "number", ""})
	case bool:
		*out = append(*out, FieldDesc{prefix, "bool", ""})
	}
}

func sortStrings(s []string) {
	for i := 1; i < len(s); i++ {
		for j := i; j > 0 && s[j] < s[j-1]; j-- {
			s[j], s[j-1] = s[j-1], s[j]
		}
	}
}

func decodeNum(s string) (any, error) {
	dec := json.NewDecoder(strings.NewReader(s))
	dec.UseNumber()
	var v any
	err := dec.Decode(&v)
	return v, err
}

func DescribeRoutes() []RouteDesc {
	ts := shapeTemplates()
	names := make([]string, 0, len(ts))
	for k := range ts {
		names = append(names, k)
	}
	sortStrings(names)
	var out []RouteDesc
	for _, n := range names {
		t := ts[n]
		d := RouteDesc{Route: n, API: n[:2], Method: t.method, Write: t.method != "GET" && t.method != "HEAD", Body: []FieldDesc{}, Query: []FieldDesc{}, PathP: []FieldDesc{}}
		if t.body != "" {
			if v, err := decodeNum(t.body); err == nil {
				d.Body = append(d.Body, FieldDesc{"", jsonType(v), ""})
				walk("", v, &d.Body)
				for i := range d.Body {
					d.Body[i].Class = classOfBodyLeaf(d.Body[i].Path, d.Body[i].Type)
				}
			}
		}
		qs := []string{}
		for k := range t.query {
			qs = append(qs, k)
		}
		sortStrings(qs)
		for _, k := range qs {
			d.Query = append(d.Query, FieldDesc{k, "string", classOfQuery(n, k)})
			if k == "pageSize" {
				d.Paged = true
			}
		}
		for _, seg := range strings.Split(t.path, "/") {
			if strings.HasPrefix(seg, "{") {
				name := strings.Trim(seg, "{}")
				d.PathP = append(d.PathP, FieldDesc{name, "string", classOfPath(name)})
			}
		}
		out = append(out, d)
	}
	return out
}

func jsonType(v any) string {
	switch v.(type) {
	case map[string]any:
		return "object"
	case []any:
		return "array"
	case string:
		return "string"
	case json.Number:
		return "number"
	case bool:
		return "bool"
	}
	return "null"
}

// confusion values (JSON text) and boundary strings, by id
var confusion = map[string]string{
	"number":   "42",
	"string":   `"str"`,
	"bool":     "true",
	"null":     "null",
	"array":    "[1]",
	"object":   `{"a":1}`,
	"huge":     "1000000000000000000000000000000000000000000",
	"negative": "-1",
	"float":    "1.5",
	"exp":      "1e400",
	"emptystr": `""`,
	"emptyarr": "[]",
	"emptyobj": "{}",
	"nested":   `[[[[[[[[[[{"a":[{"b":null}]}]]]]]]]]]]`,
}

func b64(s string) string { return base64.RawURLEncoding.EncodeToString([]byte(s)) }

var boundary = map[string]string{
	// addresses
	"addr:empty": "", "addr:space": "a b", "addr:colon_lead": ":a", "addr:colon_trail": "a:", "addr:double_colon": "a::b",
	"addr:unicode": "é€", "addr:long": strings.Repeat("a", 5000), "addr:slash": "a/b", "addr:percent": "%zz", "addr:star": "*",
	"addr:dollar": "$x", "addr:quote": "a'b\"c", "addr:nul": "a\x00b", "addr:dash": "a-b", "addr:newline": "a\nb",
	// assets
	"asset:empty": "", "asset:lower": "usd", "asset:slash_only": "USD/", "asset:prec_huge": "USD/99999999999999999999",
	"asset:long": strings.Repeat("A", 5000), "asset:space": "US D", "asset:unicode": "€UR", "asset:quote": "U'S\"D", "asset:neg_prec": "USD/-2",
	// dates
	"date:garbage": "yesterday", "date:month13": "2030-13-45T00:00:00Z", "date:no_tz": "2030-01-01T00:00:00", "date:year_huge": "99999-01-01T00:00:00Z",
	"date:neg": "-0001-01-01T00:00:00Z", "date:number": "1700000000", "date:empty_tz": "2030-01-01T00:00:00+99:99", "date:space": "2030-01-01 00:00:00",
	// integers in query / path
	"int:abc": "abc", "int:neg": "-1", "int:zero": "0", "int:huge": "99999999999999999999999", "int:float": "1.5", "int:hex": "0x10", "int:space": "1 2",
	"int:max64": "18446744073709551615", "int:maxi64": "9223372036854775807",
	// booleans
	"bool:garbage": "maybe", "bool:num": "2",
	// cursors
	"cursor:garbage": "!!!", "cursor:b64_garbage": b64("not json"), "cursor:b64_array": b64("[1,2]"), "cursor:b64_null": b64("null"),
	"cursor:b64_empty_obj": b64("{}"), "cursor:b64_wrongtypes": b64(`{"offset":"x","pageSize":"y","order":"z","column":1}`),
	"cursor:b64_neg_pagesize":      b64(`{"offset":0,"pageSize":-5,"order":0,"column":"id"}`),
	"cursor:b64_huge_pagesize":     b64(`{"offset":0,"pageSize":100000000000,"order":0,"column":"id"}`),
	"cursor:b64_huge_offset":       b64(`{"offset":18446744073709551615,"pageSize":5,"order":0,"column":"id"}`),
	"cursor:b64_unknown_column":    b64(`{"pageSize":5,"order":1,"column":"nonexistent","paginationID":3,"bottom":1}`),
	"cursor:b64_sql_column":        b64(`{"pageSize":5,"order":1,"column":"id; drop table x","paginationID":3}`),
	"cursor:b64_bad_order":         b64(`{"pageSize":5,"order":7,"column":"id","paginationID":3}`),
	"cursor:b64_bad_pagination_id": b64(`{"pageSize":5,"order":1,"column":"id","paginationID":"abc"}`),
	"cursor:b64_bad_filter":        b64(`{"offset":0,"pageSize":5,"order":0,"column":"id","options":{"qb":{"$foo":{"a":1}}}}`),
	"cursor:b64_bad_pit":           b64(`{"offset":0,"pageSize":5,"order":0,"column":"id","options":{"pit":"garbage"}}`),
	"cursor:b64_bad_expand":        b64(`{"offset":0,"pageSize":5,"order":0,"column":"id","options":{"expand":["nope"]}}`),
	"cursor:std_b64":               base64.StdEncoding.EncodeToString([]byte(`{"offset":0,"pageSize":5}`)),
	// filters (value of the `query` parameter / body of list routes)
	"filter:not_json": "{not json", "filter:array_root": "[1]", "filter:string_root": `"x"`, "filter:number_root": "3",
	"filter:unknown_op": `{"$foo":{"address":"a"}}`, "filter:unknown_field": `{"$match":{"nonexistent":"a"}}`,
	"filter:balance_string": `{"$gte":{"balance[USD]":"abc"}}`, "filter:balance_noasset": `{"$gte":{"balance":"abc"}}`,
	"filter:balance_float": `{"$gte":{"balance[USD]":1.5}}`, "filter:balance_badasset": `{"$gte":{"balance[us d]":1}}`,
	"filter:match_number_address": `{"$match":{"address":3}}`, "filter:match_object": `{"$match":{"address":{"a":1}}}`,
	"filter:match_array": `{"$match":{"address":[1,2]}}`, "filter:match_null": `{"$match":{"address":null}}`,
	"filter:lt_string_id": `{"$lt":{"id":"abc"}}`, "filter:lt_address": `{"$lt":{"address":"a"}}`, "filter:and_empty": `{"$and":[]}`,
	"filter:and_object": `{"$and":{"a":1}}`, "filter:not_array": `{"$not":[1]}`, "filter:two_ops": `{"$match":{"address":"a"},"$lt":{"id":3}}`,
	"filter:two_keys": `{"$match":{"address":"a","id":3}}`, "filter:metadata_nokey": `{"$match":{"metadata":"a"}}`,
	"filter:metadata_badkey": `{"$match":{"metadata[":"a"}}`, "filter:metadata_number": `{"$match":{"metadata[k]":3}}`,
	"filter:exists_number": `{"$exists":{"metadata":3}}`, "filter:in_string": `{"$in":{"address":"a"}}`, "filter:in_empty": `{"$in":{"address":[]}}`,
	"filter:like_number": `{"$like":{"address":3}}`, "filter:date_garbage": `{"$gte":{"timestamp":"garbage"}}`, "filter:date_number": `{"$gte":{"timestamp":12}}`,
	"filter:reverted_string": `{"$match":{"reverted":"yes"}}`, "filter:address_bad": `{"$match":{"address":"a b::"}}`,
	"filter:first_usage_garbage": `{"$lt":{"first_usage":"garbage"}}`, "filter:deep": strings.Repeat(`{"$not":`, 200) + `{"$match":{"address":"a"}}` + strings.Repeat("}", 200),
	"filter:huge_number": `{"$gte":{"balance[USD]":1e400}}`, "filter:id_huge": `{"$match":{"id":99999999999999999999999}}`, "filter:id_neg": `{"$match":{"id":-1}}`,
	"filter:empty": `{}`, "filter:match_empty": `{"$match":{}}`,
	// enumerations
	"enum:garbage": "garbage", "enum:sql": "id;drop", "enum:long": strings.Repeat("x", 300),
	// raw bodies
	"raw:empty": "", "raw:not_json": "{not json", "raw:truncated": `{"postings":[{"source":"wor`, "raw:array": "[1,2,3]", "raw:string": `"x"`,
	"raw:number": "42", "raw:null": "null", "raw:utf8_bad": "{\"a\":\"\xff\xfe\"}", "raw:deep": strings.Repeat("[", 20000), "raw:trailing": `{} {}`,
	"raw:dup_keys": `{"postings":[],"postings":[{"source":"world","destination":"x","asset":"USD","amount":1}]}`,
	// names (ledger, metadata key, schema version)
	"name:space": "a b", "name:long": strings.Repeat("n", 300), "name:unicode": "é€", "name:dot": "..", "name:underscore_lead": "_x", "name:upper": "ABC",
	"name:percent": "%zz", "name:quote": "a'b", "name:semicolon": "a;b",
}

// setAt replaces the value at a dotted path of a decoded JSON document with raw JSON text.
func setAt(doc any, path string, raw json.RawMessage) (any, bool) {
	if path == "" {
		return raw, true
	}
	parts := strings.Split(path, ".")
	var rec func(cur any, i int) (any, bool)
	rec = func(cur any, i int) (any, bool) {
		switch t := cur.(type) {
		case map[string]any:
			child, ok := t[parts[i]]
			if !ok {
				return nil, false
			}
			if i == len(parts)-1 {
				t[parts[i]] = raw
				return t, true
			}
			nc, ok := rec(child, i+1)
			if !ok {
				return nil, false
			}
			t[parts[i]] = nc
			return t, true
		case []any:
			idx, err := strconv.Atoi(parts[i])
			if err != nil || idx < 0 || idx >= len(t) {
				return nil, false
			}
			if i == len(parts)-1 {
				t[idx] = raw
				return t, true
			}
			nc, ok := rec(t[idx], i+1)
			if !ok {
				return nil, false
			}
			t[idx] = nc
			return t, true
		}
		return nil, false
	}
	return rec(doc, 0)
}

// removeAt deletes the member at a dotted path.
func removeAt(doc any, path string) (any, bool) {
	parts := strings.Split(path, ".")
	var rec func(cur any, i int) (any, bool)
	rec = func(cur any, i int) (any, bool) {
		switch t := cur.(type) {
		case map[string]any:
			child, ok := t[parts[i]]
			if !ok {
				return nil, false
			}
			if i == len(parts)-1 {
				delete(t, parts[i])
				return t, true
			}
			nc, ok := rec(child, i+1)
			if !ok {
				return nil, false
			}
			t[parts[i]] = nc
			return t, true
		case []any:
			idx, err := strconv.Atoi(parts[i])
			if err != nil || idx < 0 || idx >= len(t) {
				return nil, false
			}
			if i == len(parts)-1 {
				return append(t[:idx:idx], t[idx+1:]...), true
			}
			nc, ok := rec(t[idx], i+1)
			if !ok {
				return nil, false
			}
			t[idx] = nc
			return t, true
		}
		return nil, false
	}
	return rec(doc, 0)
}

// Instantiate builds the concrete request of a case. ok=false: the template has no such position.
func Instantiate(c ShapeCase) (method, path, body string, ok bool) {
	t, found := shapeTemplates()[c.Route]
	if !found {
		return "", "", "", false
	}
	val, isConf := confusion[c.Kind]
	bval, isBound := boundary[c.Kind]
	if !isConf && !isBound && c.Kind != "absent" {
		return "", "", "", false
	}
	query := url.Values{}
	for k, v := range t.query {
		query[k] = append([]string{}, v...)
	}
	pathp := map[string]string{}
	for k, v := range t.path_ {
		pathp[k] = v
	}
	body = t.body
	switch c.Part {
	case "body":
		doc, err := decodeNum(t.body)
		if err != nil {
			return "", "", "", false
		}
		var nd any
		var done bool
		switch {
		case c.Kind == "absent":
			nd, done = removeAt(doc, c.Field)
		case isConf:
			nd, done = setAt(doc, c.Field, json.RawMessage(val))
		default:
			q, _ := json.Marshal(bval)
			if !json.Valid(q) {
				return "", "", "", false
			}
			nd, done = setAt(doc, c.Field, json.RawMessage(q))
		}
		if !done {
			return "", "", "", false
		}
		var buf bytes.Buffer
		enc := json.NewEncoder(&buf)
		enc.SetEscapeHTML(false)
		if err := enc.Encode(nd); err != nil {
			return "", "", "", false
		}
		body = strings.TrimSpace(buf.String())
	case "raw":
		if !isBound {
			return "", "", "", false
		}
		body = bval
	case "query":
		switch {
		case c.Kind == "absent":
			query.Del(c.Field)
		case isBound:
			query.Set(c.Field, bval)
		default:
			query.Set(c.Field, strings.Trim(val, `"`))
		}
	case "path":
		if _, has := pathp[c.Field]; !has {
			return "", "", "", false
		}
		if isBound {
			pathp[c.Field] = bval
		} else {
			pathp[c.Field] = strings.Trim(val, `"`)
		}
	default:
		return "", "", "", false
	}
	path = t.path
	for k, v := range pathp {
		path = strings.ReplaceAll(path, "{"+k+"}", url.PathEscape(v))
	}
	if len(query) > 0 {
		path += "?" + query.Encode()
	}
	return t.method, path, body, true
}

// ShapeBase builds the ledger every case starts from: l1 (bucket b1) with a short history.
func ShapeBase() (*Env, error) {
	prefix := []Op{
		{K: "create", L: "l1", Now: 1, Ps: []Posting{{S: "world", D: "alice", As: "USD", N: 10}}, Ref: "p1", Meta: map[string]string{"k": "v"}},
		{K: "create", L: "l1", Now: 2, Ps: []Posting{{S: "alice", D: "bob", As: "USD", N: 3}}},
		{K: "acmeta", L: "l1", Now: 2, Addr: "alice", Meta: map[string]string{"role": "v"}},
	}
	env, err := BuildBase(prefix, nil, "1")
	if err != nil {
		return nil, err
	}
	env.SetNow(5)
	return env, nil
}

// RunShape instantiates the case on a copy of base.
func RunShape(base *Env, baseHash string, baseSnap Snapshot, c ShapeCase) (out ShapeObs) {
	out = ShapeObs{ID: c.ID}
	method, path, body, ok := Instantiate(c)
	if !ok {
		out.Skip = "no such position in the template"
		return out
	}
	out.Method, out.Path = method, path
	out.Body = body
	if len(out.Body) > 400 {
		out.Body = out.Body[:400] + "…"
	}
	if len(out.Path) > 400 {
		out.Path = out.Path[:400] + "…"
	}
	t0 := time.Now()
	defer func() { out.Ms = time.Since(t0).Milliseconds() }()
	f := base.Fork()
	defer f.Close()
	var b any
	if body != "" || c.Part == "raw" {
		b = body
	}
	var status int
	var respBody []byte
	// a request line that net/http itself cannot parse never reaches the application
	buildable := func() (ok bool) {
		defer func() {
			if r := recover(); r != nil {
				ok = false
			}
		}()
		httptest.NewRequest(method, path, nil)
		return true
	}()
	if !buildable {
		out.Skip = "not a parsable HTTP request line"
		return out
	}
	func() {
		defer func() {
			if r := recover(); r != nil {
				// a panic that escapes the router (the recovery middleware re-panics http.ErrAbortHandler only)
				status = 599
				respBody = []byte(fmt.Sprint(r))
			}
		}()
		r := f.APIDo(nil, "shape", method, path, b, nil)
		status, respBody = r.Status, r.Body
	}()
	out.Status = status
	out.BodyLen = len(respBody)
	out.Resp = string(respBody)
	if len(out.Resp) > 300 {
		out.Resp = out.Resp[:300] + "…"
	}
	trim := bytes.TrimSpace(respBody)
	if len(trim) == 0 {
		out.JSONOK = method == "HEAD" || status == 204 || status == 202
	} else {
		var v any
		if err := json.Unmarshal(trim, &v); err == nil {
			out.JSONOK = true
			if m, ok := v.(map[string]any); ok {
				_, a := m["errorCode"].(string)
				_, b := m["errorMessage"].(string)
				out.ErrShape = a && b
				// a bulk answers 400 with one result per element, the failing ones carrying their own error code
				if data, ok := m["data"].([]any); ok && !out.ErrShape {
					for _, x := range data {
						if xm, ok := x.(map[string]any); ok {
							if _, has := xm["errorCode"].(string); has {
								out.ErrShape = true
							}
						}
					}
				}
			}
		}
	}
	f.waitIdle()
	after, err := f.Snapshot()
	if err != nil {
		out.Incon = err.Error()
		return out
	}
	out.Unchanged = after.Hash() == baseHash
	if !out.Unchanged {
		out.Diff = SnapDiff(baseSnap, after)
		if len(out.Diff) > 4 {
			out.Diff = out.Diff[:4]
		}
	}
	if u := f.PG.UnsupportedSeen(); len(u) > 0 {
		s := fmt.Sprint(u)
		if len(s) > 300 {
			s = s[:300]
		}
		out.Incon = "unsupported SQL in pgmodel: " + s
	}
	return out
}
